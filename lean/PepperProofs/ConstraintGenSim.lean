import PepperProofs.ConstraintGenSeeds
/-!
# Simulation between the seeded graph and the semantic link graph (soundness half)

Every node of the graph `get_constraints` seeds denotes a nucleotide (`den`): a layout position denotes the
nucleotide of the strand that sits there, `(num, x)` the `x`-th nucleotide of the view numbered `num`.  Every
seeded `eq` link joins nodes whose nucleotides are forced equal by the design, every `wc` link nodes forced
complementary (`edge soundness`); hence parity reachability in the seeded graph implies `NucReach` in the
semantic link graph of `Pil.denote spec`.
-/
namespace Pepper.ConstraintGen
open Pepper Pepper.Pil Pepper.Closure Pepper.LinkSpec

/-! ## lists -/

theorem rc_getElem? (l : List Nuc) (x : Nat) (hx : x < l.length) :
    (rc l)[x]? = (l[l.length - 1 - x]?).map Nuc.flip := by
  unfold rc
  rw [List.getElem?_map, List.getElem?_reverse hx]

theorem rc_length' (l : List Nuc) : (rc l).length = l.length := by simp [rc]

theorem flip_flip' (n : Nuc) : n.flip.flip = n := by cases n; simp [Nuc.flip]

theorem rc_rc' (l : List Nuc) : rc (rc l) = l := by
  simp [rc, List.map_reverse, Function.comp_def, flip_flip']

theorem rc_append' (a b : List Nuc) : rc (a ++ b) = rc b ++ rc a := by simp [rc]

theorem rc_flatMap' {α : Type} (f : α → List Nuc) (l : List α) :
    rc (l.flatMap f) = l.reverse.flatMap (fun a => rc (f a)) := by
  induction l with
  | nil => rfl
  | cons a l ih => simp [rc_append', ih]

/-- indexing into a concatenation through the running offsets -/
theorem flatMap_offset_getElem? {α β : Type} (len : α → Nat) (f : α → List β) (l : List α) (off0 : Nat)
    (hlen : ∀ a ∈ l, (f a).length = len a) {off : Nat} {a : α} (h : (off, a) ∈ withOffsets len l off0)
    {x : Nat} (hx : x < len a) : (l.flatMap f)[off - off0 + x]? = (f a)[x]? ∧ off0 ≤ off := by
  induction l generalizing off0 with
  | nil => simp [withOffsets] at h
  | cons b l ih =>
    simp only [withOffsets, List.mem_cons, Prod.mk.injEq] at h
    rcases h with ⟨rfl, rfl⟩ | h
    · simp only [Nat.sub_self, Nat.zero_add, List.flatMap_cons]
      have hb : x < (f a).length := by rw [hlen a List.mem_cons_self]; exact hx
      exact ⟨by rw [List.getElem?_append_left hb], Nat.le_refl _⟩
    · obtain ⟨h1, h2⟩ := ih (off0 + len b) (fun a ha => hlen a (List.mem_cons_of_mem _ ha)) h
      refine ⟨?_, by omega⟩
      simp only [List.flatMap_cons]
      have hlb : (f b).length = len b := hlen b List.mem_cons_self
      rw [List.getElem?_append_right (by omega)]
      rw [← h1]
      congr 1
      omega

theorem withOffsets_mem {α : Type} (len : α → Nat) (l : List α) (off0 : Nat) {off : Nat} {a : α}
    (h : (off, a) ∈ withOffsets len l off0) : a ∈ l := by
  induction l generalizing off0 with
  | nil => simp [withOffsets] at h
  | cons b l ih =>
    simp only [withOffsets, List.mem_cons, Prod.mk.injEq] at h
    rcases h with ⟨_, rfl⟩ | h
    · exact List.mem_cons_self
    · exact List.mem_cons_of_mem _ (ih _ h)

theorem withOffsets_bound {α : Type} (len : α → Nat) (l : List α) (off0 : Nat) {off : Nat} {a : α}
    (h : (off, a) ∈ withOffsets len l off0) : off + len a ≤ off0 + (l.map len).sum := by
  induction l generalizing off0 with
  | nil => simp [withOffsets] at h
  | cons b l ih =>
    simp only [withOffsets, List.mem_cons, Prod.mk.injEq] at h
    rcases h with ⟨rfl, rfl⟩ | h
    · simp
    · have := ih _ h
      simp only [List.map_cons, List.sum_cons]
      omega

/-! ## nucleotides of views -/

theorem nucsOfBase_length (b : BaseRef) : (nucsOfBase b).length = b.len := by
  unfold nucsOfBase
  split
  · rw [rc_length']; simp [fwd]
  · simp [fwd]

theorem nucsOfBase_inv (b : BaseRef) : nucsOfBase b.inv = rc (nucsOfBase b) := by
  unfold nucsOfBase BaseRef.inv
  cases hb : b.rev
  · simp
  · simp [rc_rc']

theorem nucsOfBases_rev (bs : List BaseRef) :
    nucsOfBases (bs.reverse.map BaseRef.inv) = rc (nucsOfBases bs) := by
  unfold nucsOfBases
  rw [rc_flatMap', List.flatMap_map]
  induction bs.reverse with
  | nil => rfl
  | cons b r ih => simp only [List.flatMap_cons, ih, nucsOfBase_inv]

/-- the nucleotides of a view of a sequence object -/
def viewNucs (o : SeqObj) (rev : Bool) : List Nuc := nucsOfBases (basesOfView o rev)

theorem viewNucs_true (o : SeqObj) : viewNucs o true = rc (viewNucs o false) := by
  unfold viewNucs basesOfView
  simp only [if_true, Bool.false_eq_true, if_false]
  exact nucsOfBases_rev _

theorem viewNucs_length (o : SeqObj) (rev : Bool) : (viewNucs o rev).length = (viewNucs o false).length := by
  cases rev
  · rfl
  · rw [viewNucs_true, rc_length']

/-- the nucleotides an item of a sup-sequence / strand / `equal` line stands for -/
def nucsOfItem (spec : Spec) (i : ItemRef) : List Nuc :=
  match spec.findSeq i.name with
  | some o => viewNucs o i.rev
  | none => []

/-! ## well-formed specifications -/

/-- the items of a super-sequence / strand resolve, and its nucleotides are those of the items in order -/
structure ItemsOK (spec : Spec) (items : List ItemRef) (bases : List BaseRef) : Prop where
  resolve : ∀ i ∈ items, (spec.findSeq i.name).isSome = true
  nucs : nucsOfBases bases = items.flatMap (nucsOfItem spec)

/-- what `Pil.load` guarantees about the object model (`Pil.wfB` is the executable form) -/
structure SpecWF (spec : Spec) : Prop where
  seqFind : ∀ o ∈ spec.seqs, spec.findSeq o.name = some o
  strandFind : ∀ o ∈ spec.strands, spec.findStrand o.name = some o
  seqLen : ∀ o ∈ spec.seqs, (viewNucs o false).length = o.len
  base : ∀ o ∈ spec.seqs, o.isSup = false → o.template.length = o.len ∧ viewNucs o false = fwd o.name o.len
  sup : ∀ o ∈ spec.seqs, o.isSup = true → ItemsOK spec o.items o.bases
  strandLen : ∀ o ∈ spec.strands, (nucsOfBases o.bases).length = o.len
  strand : ∀ o ∈ spec.strands, ItemsOK spec o.items o.bases
  struct : ∀ so ∈ spec.structs, (∀ n ∈ so.strands, (spec.findStrand n).isSome = true) ∧
    getBonds so.struct = .ok so.bonds
  equal : ∀ its ∈ spec.equals, ∀ i ∈ its, (spec.findSeq i.name).isSome = true

theorem find?_mem' {α : Type} {p : α → Bool} {l : List α} {a : α} (h : l.find? p = some a) : a ∈ l ∧ p a = true :=
  ⟨List.mem_of_find?_eq_some h, List.find?_some h⟩

theorem findSeq_mem {spec : Spec} {n : String} {o : SeqObj} (h : spec.findSeq n = some o) :
    o ∈ spec.seqs ∧ o.name = n := by
  obtain ⟨h1, h2⟩ := find?_mem' h
  exact ⟨h1, by simpa using h2⟩

theorem findStrand_mem {spec : Spec} {n : String} {o : StrandObj} (h : spec.findStrand n = some o) :
    o ∈ spec.strands ∧ o.name = n := by
  obtain ⟨h1, h2⟩ := find?_mem' h
  exact ⟨h1, by simpa using h2⟩

theorem nucsOfItem_length {spec : Spec} (wf : SpecWF spec) (i : ItemRef) :
    (nucsOfItem spec i).length = lenOf spec i := by
  unfold nucsOfItem lenOf
  cases h : spec.findSeq i.name with
  | none => rfl
  | some o => simp only; rw [viewNucs_length]; exact wf.seqLen o (findSeq_mem h).1

theorem foldl_max_le {α : Type} (f : α → Nat) (l : List α) (m : Nat) :
    m ≤ l.foldl (fun m o => max m (f o)) m ∧ ∀ a ∈ l, f a ≤ l.foldl (fun m o => max m (f o)) m := by
  induction l generalizing m with
  | nil => simp
  | cons b l ih =>
    simp only [List.foldl_cons]
    obtain ⟨h1, h2⟩ := ih (max m (f b))
    refine ⟨Nat.le_trans (Nat.le_max_left _ _) h1, ?_⟩
    intro a ha
    rcases List.mem_cons.1 ha with rfl | ha
    · exact Nat.le_trans (Nat.le_max_right _ _) h1
    · exact h2 a ha

theorem len_lt_M {spec : Spec} {o : SeqObj} (h : o ∈ spec.seqs) (lay : Lay) : o.len < (encOf spec lay).M := by
  have := (foldl_max_le (fun (o : SeqObj) => o.len) spec.seqs 0).2 o h
  show o.len < maxLen spec + 1
  unfold maxLen
  omega

/-! ## numbering of views -/

/-- the sequence object whose views carry the numbers `num` (even) and `num + 1` -/
def objOfNum (spec : Spec) (num : Nat) : Option SeqObj :=
  if num / 2 < spec.baseSeqs.length then spec.baseSeqs[num / 2]? else spec.supSeqs[num / 2 - spec.baseSeqs.length]?

def revOfNum (num : Nat) : Bool := num % 2 == 1

theorem findIdx?_spec {α : Type} {p : α → Bool} {l : List α} {k : Nat} (h : l.findIdx? p = some k) :
    ∃ a, l[k]? = some a ∧ p a = true := by
  rw [List.findIdx?_eq_some_iff_getElem] at h
  obtain ⟨hk, hp, _⟩ := h
  exact ⟨l[k], List.getElem?_eq_getElem hk, hp⟩

theorem mem_baseSeqs {spec : Spec} {o : SeqObj} (h : o ∈ spec.baseSeqs) : o ∈ spec.seqs ∧ o.isSup = false := by
  unfold Spec.baseSeqs at h
  obtain ⟨h1, h2⟩ := List.mem_filter.1 h
  exact ⟨h1, by simpa using h2⟩

theorem mem_supSeqs {spec : Spec} {o : SeqObj} (h : o ∈ spec.supSeqs) : o ∈ spec.seqs ∧ o.isSup = true := by
  unfold Spec.supSeqs at h
  obtain ⟨h1, h2⟩ := List.mem_filter.1 h
  exact ⟨h1, h2⟩

/-- `seq.num` of a view names the object the view belongs to and its orientation -/
theorem numOf_spec {spec : Spec} (wf : SpecWF spec) {it : ItemRef} {num : Nat} (h : numOf spec it = some num) :
    ∃ o, objOfNum spec num = some o ∧ revOfNum num = it.rev ∧ spec.findSeq it.name = some o := by
  unfold numOf at h
  cases hb : spec.baseSeqs.findIdx? (·.name == it.name) with
  | some k =>
    simp only [hb, Option.some.injEq] at h
    obtain ⟨o, hk, hp⟩ := findIdx?_spec hb
    have hkl : k < spec.baseSeqs.length := (List.getElem?_eq_some_iff.1 hk).1
    have hmem := mem_baseSeqs (List.mem_of_getElem? hk)
    have hname : o.name = it.name := by simpa using hp
    refine ⟨o, ?_, ?_, ?_⟩
    · unfold objOfNum
      subst h
      have : (2 * k + if it.rev = true then 1 else 0) / 2 = k := by split <;> omega
      rw [this]; simp only [hkl, if_true]; exact hk
    · unfold revOfNum
      subst h
      cases it.rev <;> simp <;> omega
    · rw [← hname]; exact wf.seqFind o hmem.1
  | none =>
    simp only [hb] at h
    cases hs : spec.supSeqs.findIdx? (·.name == it.name) with
    | none => simp [hs] at h
    | some k =>
      simp only [hs, Option.some.injEq] at h
      obtain ⟨o, hk, hp⟩ := findIdx?_spec hs
      have hmem := mem_supSeqs (List.mem_of_getElem? hk)
      have hname : o.name = it.name := by simpa using hp
      refine ⟨o, ?_, ?_, ?_⟩
      · unfold objOfNum
        subst h
        have : (2 * spec.baseSeqs.length + 2 * k + if it.rev = true then 1 else 0) / 2 = spec.baseSeqs.length + k := by
          split <;> omega
        rw [this]
        have h1 : ¬ (spec.baseSeqs.length + k < spec.baseSeqs.length) := by omega
        simp only [h1, if_false]
        have h2 : spec.baseSeqs.length + k - spec.baseSeqs.length = k := by omega
        rw [h2, hk]
      · unfold revOfNum
        subst h
        cases it.rev <;> simp <;> omega
      · rw [← hname]; exact wf.seqFind o hmem.1

/-- the nucleotide a sequence node `(num, x)` stands for, read off the node's code -/
def denSq (spec : Spec) (e : Enc) (node : Nat) : Option Nuc :=
  match objOfNum spec ((node - e.P) / e.M) with
  | some o => (viewNucs o (revOfNum ((node - e.P) / e.M)))[(node - e.P) % e.M]?
  | none => none

theorem denSq_sq (spec : Spec) (e : Enc) {num x : Nat} (hx : x < e.M) {o : SeqObj} (ho : objOfNum spec num = some o) :
    denSq spec e (e.sq num x) = (viewNucs o (revOfNum num))[x]? := by
  unfold denSq Enc.sq
  have h1 : e.P + num * e.M + x - e.P = num * e.M + x := by omega
  have hM : 0 < e.M := by omega
  have h2 : (num * e.M + x) / e.M = num := by
    rw [Nat.mul_comm, Nat.mul_add_div hM, Nat.div_eq_of_lt hx]; simp
  have h3 : (num * e.M + x) % e.M = x := by
    rw [Nat.mul_comm, Nat.mul_add_mod, Nat.mod_eq_of_lt hx]
  rw [h1, h2, h3, ho]

/-! ## the strand layout -/

theorem layStrandAux_spec (l : List StrandObj) (p : Nat) :
    (layStrandAux l p).1.length = l.length ∧ ∀ k, k < l.length → ∃ s, (layStrandAux l p).1[k]? = some (some s) := by
  induction l generalizing p with
  | nil => simp [layStrandAux]
  | cons a l ih =>
    obtain ⟨h1, h2⟩ := ih (p + a.len + Generated.strandGap)
    simp only [layStrandAux, List.length_cons]
    refine ⟨by rw [h1], ?_⟩
    intro k hk
    cases k with
    | zero => exact ⟨p, rfl⟩
    | succ k =>
      obtain ⟨s, hs⟩ := h2 k (by omega)
      exact ⟨s, by simpa using hs⟩

/-- `strand_start[k]` in the strand layout -/
def startS (spec : Spec) (k : Nat) : Nat := ((layStrand spec).strandStart.getD k none).getD 0

theorem getIndexStrand_strand (spec : Spec) {k : Nat} (hk : k < spec.strands.length) {len x : Nat} (hx : x < len) :
    getIndexStrand (layStrand spec) k len x = .ok (startS spec k + x) := by
  unfold getIndexStrand startS
  obtain ⟨s, hs⟩ := (layStrandAux_spec spec.strands 0).2 k hk
  have : (layStrand spec).strandStart = (layStrandAux spec.strands 0).1 := rfl
  simp only [hx, if_true, this, List.getD_eq_getElem?_getD, hs]
  rfl

theorem mem_enum_lt {α : Type} {l : List α} {p : Nat × α} (h : p ∈ enum l) : p.1 < l.length :=
  (List.getElem?_eq_some_iff.1 (mem_enum h).2).1

def dfltNuc : Nuc := ⟨⟨"", 0⟩, false⟩

/-- the nucleotide at every position of the strand layout, in the order of the `init` calls -/
def posTabStrand (spec : Spec) : List (Nat × Nuc) :=
  (enum spec.strands).flatMap (fun (p : Nat × StrandObj) =>
    (List.range p.2.len).map (fun x => (startS spec p.1 + x, (nucsOfBases p.2.bases).getD x dfltNuc)))

theorem layoutInits_strand (spec : Spec) :
    layoutInits .strand spec (layStrand spec) = .ok ((enum spec.strands).flatMap (fun (p : Nat × StrandObj) =>
      (List.range p.2.len).map (fun x => (startS spec p.1 + x, 'N')))) := by
  unfold layoutInits
  simp only
  apply flatME_total
  intro p hp
  apply mapME_total
  intro x hx
  rw [getIndexStrand_strand spec (mem_enum_lt hp) (List.mem_range.1 hx)]

theorem posTabStrand_keys (spec : Spec) :
    (posTabStrand spec).map (·.1) = ((enum spec.strands).flatMap (fun (p : Nat × StrandObj) =>
      (List.range p.2.len).map (fun x => (startS spec p.1 + x, 'N')))).map (·.1) := by
  unfold posTabStrand
  rw [List.map_flatMap, List.map_flatMap]
  congr 1
  funext p
  simp [List.map_map, Function.comp_def]

/-! ## denotation of nodes -/

/-- the nucleotide a node stands for: a layout position through the table of positions, a sequence node
    through its number -/
def den (posTab : List (Nat × Nuc)) (spec : Spec) (e : Enc) (node : Nat) : Option Nuc :=
  match posTab.lookup node with
  | some m => some m
  | none => denSq spec e node

theorem lookup_eq_none_of_not_mem {β : Type} {l : List (Nat × β)} {x : Nat} (h : x ∉ l.map (·.1)) :
    l.lookup x = none := by
  cases hl : l.lookup x with
  | none => rfl
  | some v => exact absurd ((lookup_isSome_iff l x).1 (by rw [hl]; rfl)) h

/-- keys of the sequence nodes: every `(num, x)` with `x` inside the view -/
theorem sq_mem_seqInits {spec : Spec} (wf : SpecWF spec) (e : Enc) {num x : Nat} {o : SeqObj}
    (ho : objOfNum spec num = some o) (hx : x < o.len) : e.sq num x ∈ (seqInits spec e).map (·.1) := by
  unfold objOfNum at ho
  unfold seqInits
  rw [List.map_append, List.mem_append]
  have hcase : num = 2 * (num / 2) ∨ num = 2 * (num / 2) + 1 := by omega
  by_cases hb : num / 2 < spec.baseSeqs.length
  · left
    simp only [hb, if_true] at ho
    have hmem : (num / 2, o) ∈ enum spec.baseSeqs := by
      unfold enum
      have hk := (List.getElem?_eq_some_iff.1 ho).1
      have : ((List.range spec.baseSeqs.length).zip spec.baseSeqs)[num / 2]'(by simp [List.length_zip]; exact hk)
          = (num / 2, o) := by
        rw [List.getElem_zip]; simp [(List.getElem?_eq_some_iff.1 ho).2]
      exact this ▸ List.getElem_mem _
    have hbase := (wf.base o (mem_baseSeqs (List.mem_of_getElem? ho)).1 (mem_baseSeqs (List.mem_of_getElem? ho)).2).1
    rw [List.map_flatMap, List.mem_flatMap]
    refine ⟨(num / 2, o), hmem, ?_⟩
    simp only [List.map_append, List.map_map, List.mem_append, List.mem_map, Function.comp]
    rcases hcase with h | h
    · left
      have hxt : x < o.template.length := by rw [hbase]; exact hx
      refine ⟨(x, o.template[x]), ?_, by rw [← h]⟩
      unfold enum
      have : ((List.range o.template.length).zip o.template)[x]'(by simp [List.length_zip]; exact hxt)
          = (x, o.template[x]) := by rw [List.getElem_zip]; simp
      exact this ▸ List.getElem_mem _
    · right
      exact ⟨x, List.mem_range.2 hx, by rw [← h]⟩
  · right
    simp only [hb, if_false] at ho
    have hmem : (num / 2 - spec.baseSeqs.length, o) ∈ enum spec.supSeqs := by
      unfold enum
      have hk := (List.getElem?_eq_some_iff.1 ho).1
      have : ((List.range spec.supSeqs.length).zip spec.supSeqs)[num / 2 - spec.baseSeqs.length]'(by
            simp [List.length_zip]; exact hk) = (num / 2 - spec.baseSeqs.length, o) := by
        rw [List.getElem_zip]; simp [(List.getElem?_eq_some_iff.1 ho).2]
      exact this ▸ List.getElem_mem _
    rw [List.map_flatMap, List.mem_flatMap]
    refine ⟨(num / 2 - spec.baseSeqs.length, o), hmem, ?_⟩
    simp only [List.map_append, List.map_map, List.mem_append, List.mem_map, Function.comp]
    have hn : 2 * spec.baseSeqs.length + 2 * (num / 2 - spec.baseSeqs.length) = 2 * (num / 2) := by omega
    rcases hcase with h | h
    · left
      exact ⟨x, List.mem_range.2 hx, by rw [hn, ← h]⟩
    · right
      exact ⟨x, List.mem_range.2 hx, by rw [hn, ← h]⟩

/-- with distinct keys, positions and sequence nodes denote what their descriptions say -/
structure DenOK (posTab : List (Nat × Nuc)) (spec : Spec) (e : Enc) : Prop where
  nodup : (posTab.map (·.1) ++ (seqInits spec e).map (·.1)).Nodup

theorem den_pos {posTab : List (Nat × Nuc)} {spec : Spec} {e : Enc} (D : DenOK posTab spec e) {p : Nat} {m : Nuc}
    (h : (p, m) ∈ posTab) : den posTab spec e p = some m := by
  unfold den
  rw [lookup_of_mem_nodup (List.nodup_append.1 D.nodup).1 h]

theorem den_sq {posTab : List (Nat × Nuc)} {spec : Spec} (wf : SpecWF spec) {lay : Lay}
    (D : DenOK posTab spec (encOf spec lay)) {num x : Nat} {o : SeqObj} (ho : objOfNum spec num = some o)
    (hx : x < o.len) (hmem : o ∈ spec.seqs) :
    den posTab spec (encOf spec lay) ((encOf spec lay).sq num x) = (viewNucs o (revOfNum num))[x]? := by
  unfold den
  have hk := sq_mem_seqInits wf (encOf spec lay) ho hx
  have hnot : (encOf spec lay).sq num x ∉ posTab.map (·.1) := by
    intro hin
    exact (List.nodup_append.1 D.nodup).2.2 _ hin _ hk rfl
  rw [lookup_eq_none_of_not_mem hnot]
  exact denSq_sq spec _ (Nat.lt_trans hx (len_lt_M hmem lay)) ho

/-! ## forced equal / complementary nucleotides -/

theorem NucReach.refl (d : Design) (m : Nuc) : NucReach d m false m := by
  unfold NucReach
  have : ((false != m.comp) != m.comp) = false := by cases m.comp <;> rfl
  rw [this]; exact ParityReach.refl

theorem NucReach.trans {d : Design} {m n l : Nuc} {p q : Bool} (h1 : NucReach d m p n) (h2 : NucReach d n q l) :
    NucReach d m (p ^^ q) l := by
  unfold NucReach at *
  have := ParityReach.trans h1 h2
  have e : (((p != m.comp) != n.comp) ^^ ((q != n.comp) != l.comp)) = (((p ^^ q) != m.comp) != l.comp) := by
    cases p <;> cases q <;> cases m.comp <;> cases n.comp <;> cases l.comp <;> rfl
  rwa [e] at this

theorem NucReach.symm {d : Design} {m n : Nuc} {p : Bool} (h : NucReach d m p n) : NucReach d n p m := by
  unfold NucReach at *
  have := ParityReach.symm h
  have e : ((p != m.comp) != n.comp) = ((p != n.comp) != m.comp) := by
    cases p <;> cases m.comp <;> cases n.comp <;> rfl
  rwa [e] at this

theorem nucReach_flip (d : Design) (n : Nuc) : NucReach d n.flip true n := by
  unfold NucReach Nuc.flip
  have : ((true != !n.comp) != n.comp) = false := by cases n.comp <;> rfl
  simp only [this]; exact ParityReach.refl

theorem nucReach_of_equalLink {d : Design} {m n : Nuc}
    (h : (⟨m.var, n.var, m.comp != n.comp⟩ : Link) ∈ links d) : NucReach d m false n := by
  unfold NucReach
  have := ParityReach.fwd (v := m.var) _ ParityReach.refl h rfl
  have e : (false != (m.comp != n.comp)) = ((false != m.comp) != n.comp) := by
    cases m.comp <;> cases n.comp <;> rfl
  simpa [e] using this

theorem nucReach_of_pairLink {d : Design} {m n : Nuc}
    (h : (⟨m.var, n.var, m.comp == n.comp⟩ : Link) ∈ links d) : NucReach d m true n := by
  unfold NucReach
  have := ParityReach.fwd (v := m.var) _ ParityReach.refl h rfl
  have e : (false != (m.comp == n.comp)) = ((true != m.comp) != n.comp) := by
    cases m.comp <;> cases n.comp <;> rfl
  simp only at this
  rw [e] at this
  exact this

/-- a seeded link joins two nodes whose nucleotides are forced equal (`p = false`) / complementary -/
def EdgeSound (d : Design) (dn : Nat → Option Nuc) (p : Bool) (e : Nat × Nat) : Prop :=
  ∃ m n, dn e.1 = some m ∧ dn e.2 = some n ∧ NucReach d m p n

/-- **Soundness of the seeding**: if every seeded link is sound, parity reachability in the seeded graph implies
    that the nucleotides of the two nodes are forced equal / complementary by the design. -/
theorem reach_sound {d : Design} {dn : Nat → Option Nuc} {eq wc : Adj} {eqE wcE : List (Nat × Nat)}
    (nbE : ∀ x y, y ∈ nb eq x ↔ (x, y) ∈ eqE ∨ (y, x) ∈ eqE)
    (nbW : ∀ x y, y ∈ nb wc x ↔ (x, y) ∈ wcE ∨ (y, x) ∈ wcE)
    (hE : ∀ e ∈ eqE, EdgeSound d dn false e) (hW : ∀ e ∈ wcE, EdgeSound d dn true e)
    {x y : Nat} {p : Bool} (h : Reach eq wc x p y) {m : Nuc} (hm : dn x = some m) :
    ∃ n, dn y = some n ∧ NucReach d m p n := by
  induction h with
  | refl => exact ⟨m, hm, NucReach.refl d m⟩
  | @eqStep p y z _ hz ih =>
    obtain ⟨n, hn, hr⟩ := ih
    rcases (nbE y z).1 hz with he | he
    · obtain ⟨a, b, ha, hb, hab⟩ := hE _ he
      simp only at ha hb
      rw [hn] at ha; cases ha
      exact ⟨b, hb, by have := NucReach.trans hr hab; rwa [Bool.xor_false] at this⟩
    · obtain ⟨a, b, ha, hb, hab⟩ := hE _ he
      simp only at ha hb
      rw [hn] at hb; cases hb
      exact ⟨a, ha, by have := NucReach.trans hr (NucReach.symm hab); rwa [Bool.xor_false] at this⟩
  | @wcStep p y z _ hz ih =>
    obtain ⟨n, hn, hr⟩ := ih
    have e : (p ^^ true) = !p := by cases p <;> rfl
    rcases (nbW y z).1 hz with he | he
    · obtain ⟨a, b, ha, hb, hab⟩ := hW _ he
      simp only at ha hb
      rw [hn] at ha; cases ha
      exact ⟨b, hb, e ▸ NucReach.trans hr hab⟩
    · obtain ⟨a, b, ha, hb, hab⟩ := hW _ he
      simp only at ha hb
      rw [hn] at hb; cases hb
      exact ⟨a, ha, e ▸ NucReach.trans hr (NucReach.symm hab)⟩

/-! ## soundness of each group of links -/

theorem enum_getElem? {α : Type} {l : List α} {p : Nat × α} (h : p ∈ enum l) : l[p.1]? = some p.2 := (mem_enum h).2

theorem objOfNum_base {spec : Spec} {k : Nat} {o : SeqObj} (h : (k, o) ∈ enum spec.baseSeqs) :
    objOfNum spec (2 * k) = some o ∧ objOfNum spec (2 * k + 1) = some o ∧
    revOfNum (2 * k) = false ∧ revOfNum (2 * k + 1) = true := by
  have hk := enum_getElem? h
  have hlt : k < spec.baseSeqs.length := mem_enum_lt h
  simp only at hk hlt
  unfold objOfNum revOfNum
  have h1 : 2 * k / 2 = k := by omega
  have h2 : (2 * k + 1) / 2 = k := by omega
  have h3 : 2 * k % 2 = 0 := by omega
  have h4 : (2 * k + 1) % 2 = 1 := by omega
  simp only [h1, h2, h3, h4, hlt, if_true, hk]
  simp

theorem objOfNum_sup {spec : Spec} {k : Nat} {o : SeqObj} (h : (k, o) ∈ enum spec.supSeqs) :
    objOfNum spec (2 * spec.baseSeqs.length + 2 * k) = some o ∧
    objOfNum spec (2 * spec.baseSeqs.length + 2 * k + 1) = some o ∧
    revOfNum (2 * spec.baseSeqs.length + 2 * k) = false ∧ revOfNum (2 * spec.baseSeqs.length + 2 * k + 1) = true := by
  have hk := enum_getElem? h
  simp only at hk
  unfold objOfNum revOfNum
  have h1 : (2 * spec.baseSeqs.length + 2 * k) / 2 = spec.baseSeqs.length + k := by omega
  have h2 : (2 * spec.baseSeqs.length + 2 * k + 1) / 2 = spec.baseSeqs.length + k := by omega
  have h3 : (2 * spec.baseSeqs.length + 2 * k) % 2 = 0 := by omega
  have h4 : (2 * spec.baseSeqs.length + 2 * k + 1) % 2 = 1 := by omega
  have h5 : ¬ (spec.baseSeqs.length + k < spec.baseSeqs.length) := by omega
  have h6 : spec.baseSeqs.length + k - spec.baseSeqs.length = k := by omega
  simp [h1, h2, h3, h4, h5, h6, hk]

theorem sqOf_ok {spec : Spec} {e : Enc} {it : ItemRef} {x b : Nat} (h : sqOf spec e it x = .ok b) :
    ∃ num, numOf spec it = some num ∧ b = e.sq num x := by
  unfold sqOf at h
  cases hn : numOf spec it with
  | none => simp [hn] at h
  | some num => simp only [hn, Except.ok.injEq] at h; exact ⟨num, rfl, h.symm⟩

section Groups
variable {spec : Spec} {lay : Lay} {posTab : List (Nat × Nuc)}

/-- a sequence node of an item denotes the item's nucleotide -/
theorem den_item (wf : SpecWF spec) (D : DenOK posTab spec (encOf spec lay)) {it : ItemRef} {num x : Nat}
    (hn : numOf spec it = some num) (hx : x < lenOf spec it) :
    den posTab spec (encOf spec lay) ((encOf spec lay).sq num x) = (nucsOfItem spec it)[x]? := by
  obtain ⟨o, ho, hrev, hf⟩ := numOf_spec wf hn
  have hlen : lenOf spec it = o.len := by simp [lenOf, hf]
  rw [den_sq wf D ho (hlen ▸ hx) (findSeq_mem hf).1, hrev]
  simp [nucsOfItem, hf]

theorem flatMap_length_sum {α β : Type} (f : α → List β) (l : List α) :
    (l.flatMap f).length = (l.map (fun a => (f a).length)).sum := by
  induction l with
  | nil => rfl
  | cons a l ih => simp [ih]

/-- indexing the nucleotides of a super-sequence / strand through the running offset of the Python loop -/
theorem items_index (wf : SpecWF spec) {items : List ItemRef} {bases : List BaseRef} (ok : ItemsOK spec items bases)
    {off : Nat} {it : ItemRef} (h : (off, it) ∈ withOffsets (lenOf spec) items 0) {x : Nat} (hx : x < lenOf spec it) :
    (nucsOfBases bases)[off + x]? = (nucsOfItem spec it)[x]? ∧ off + x < (nucsOfBases bases).length := by
  rw [ok.nucs]
  have hl : ∀ a ∈ items, (nucsOfItem spec a).length = lenOf spec a := fun a _ => nucsOfItem_length wf a
  obtain ⟨h1, _⟩ := flatMap_offset_getElem? (lenOf spec) (nucsOfItem spec) items 0 hl h hx
  simp only [Nat.sub_zero] at h1
  refine ⟨h1, ?_⟩
  have hb := withOffsets_bound (lenOf spec) items 0 h
  rw [flatMap_length_sum]
  have : (items.map (fun a => (nucsOfItem spec a).length)) = items.map (lenOf spec) := by
    apply List.map_congr_left; intro a ha; exact hl a ha
  rw [this]; omega

theorem getElem?_some_of_lt {α : Type} {l : List α} {i : Nat} (h : i < l.length) : ∃ a, l[i]? = some a :=
  ⟨l[i], List.getElem?_eq_getElem h⟩

/-- "super-sequence constraints" join nodes with the same nucleotide -/
theorem supEdges_sound (wf : SpecWF spec) (D : DenOK posTab spec (encOf spec lay)) {se : List (Nat × Nat)}
    (h : supEdges spec (encOf spec lay) = .ok se) :
    ∀ e ∈ se, EdgeSound (Pil.denote spec) (den posTab spec (encOf spec lay)) false e := by
  intro e he
  unfold supEdges at h
  obtain ⟨⟨k, o⟩, hko, cs, hcs, hecs⟩ := (flatME_mem h e).1 he
  obtain ⟨⟨off, it⟩, hoff, cs', hcs', hecs'⟩ := (flatME_mem hcs e).1 hecs
  obtain ⟨x, hx, hxe⟩ := mapME_mem hcs' hecs'
  simp only at hxe
  have hxl : x < lenOf spec it := List.mem_range.1 hx
  cases hb : sqOf spec (encOf spec lay) it x with
  | error er => simp [hb] at hxe
  | ok b =>
    simp only [hb, Except.ok.injEq] at hxe
    subst hxe
    obtain ⟨num, hn, rfl⟩ := sqOf_ok hb
    obtain ⟨ho1, _, hr1, _⟩ := objOfNum_sup hko
    have hmem := mem_supSeqs (mem_enum hko).1
    simp only at hmem
    have ok := wf.sup o hmem.1 hmem.2
    obtain ⟨hidx, hlt⟩ := items_index wf ok hoff hxl
    have hv : viewNucs o false = nucsOfBases o.bases := by simp [viewNucs, basesOfView]
    have hlen : off + x < o.len := by rw [← wf.seqLen o hmem.1, hv]; exact hlt
    obtain ⟨m, hm⟩ := getElem?_some_of_lt hlt
    refine ⟨m, m, ?_, ?_, NucReach.refl _ m⟩
    · simp only
      rw [den_sq wf D ho1 hlen hmem.1, hr1, hv]; exact hm
    · simp only
      rw [den_item wf D hn hxl, ← hidx]; exact hm

/-- the complement view of a sequence is linked position by position to the complemented nucleotide -/
theorem viewEdges_sound (wf : SpecWF spec) (D : DenOK posTab spec (encOf spec lay)) :
    ∀ e ∈ viewEdges spec (encOf spec lay), EdgeSound (Pil.denote spec) (den posTab spec (encOf spec lay)) true e := by
  intro e he
  unfold viewEdges at he
  have main : ∀ (o : SeqObj) (n0 : Nat) (x : Nat), o ∈ spec.seqs → objOfNum spec n0 = some o →
      objOfNum spec (n0 + 1) = some o → revOfNum n0 = false → revOfNum (n0 + 1) = true → x < o.len →
      EdgeSound (Pil.denote spec) (den posTab spec (encOf spec lay)) true
        ((encOf spec lay).sq (n0 + 1) x, (encOf spec lay).sq n0 (o.len - x - 1)) := by
    intro o n0 x hmem h0 h1 r0 r1 hx
    have hl := wf.seqLen o hmem
    have hx' : o.len - x - 1 < (viewNucs o false).length := by omega
    obtain ⟨n, hn⟩ := getElem?_some_of_lt hx'
    refine ⟨n.flip, n, ?_, ?_, nucReach_flip _ n⟩
    · simp only
      have e2 : o.len - 1 - x = o.len - x - 1 := by omega
      rw [den_sq wf D h1 hx hmem, r1, viewNucs_true, rc_getElem? _ _ (by omega), hl, e2, hn]; rfl
    · simp only
      rw [den_sq wf D h0 (by omega) hmem, r0]; exact hn
  rcases List.mem_append.1 he with he | he
  · obtain ⟨⟨k, o⟩, hko, he⟩ := List.mem_flatMap.1 he
    obtain ⟨x, hx, rfl⟩ := List.mem_map.1 he
    obtain ⟨h0, h1, r0, r1⟩ := objOfNum_base hko
    exact main o (2 * k) x (mem_baseSeqs (mem_enum hko).1).1 h0 h1 r0 r1 (List.mem_range.1 hx)
  · obtain ⟨⟨k, o⟩, hko, he⟩ := List.mem_flatMap.1 he
    obtain ⟨x, hx, rfl⟩ := List.mem_map.1 he
    obtain ⟨h0, h1, r0, r1⟩ := objOfNum_sup hko
    exact main o (2 * spec.baseSeqs.length + 2 * k) x (mem_supSeqs (mem_enum hko).1).1 h0 h1 r0 r1
      (List.mem_range.1 hx)

end Groups

end Pepper.ConstraintGen
