import PepperProofs.ConstraintGenSimT
import PepperProofs.ConstraintGenLoad
/-!
# Completeness of the seeding

Every node of the seeded graph is connected to the *canonical node* of the domain position it stands for (the
forward view of the base sequence), with the parity of its `comp` flag; every link of the semantic link graph is
realised between canonical nodes.  Hence `NucReach` between the nucleotides of two nodes implies parity
reachability between the nodes.
-/
namespace Pepper.ConstraintGen
open Pepper Pepper.Pil Pepper.Closure Pepper.LinkSpec

/-! ## loops: what a successful run contains -/

theorem flatME_mem_of {α β : Type} {f : α → Except Err (List β)} {l : List α} {bs : List β}
    (h : flatME f l = .ok bs) {a : α} (ha : a ∈ l) : ∃ cs, f a = .ok cs ∧ ∀ b ∈ cs, b ∈ bs := by
  obtain ⟨ls, hm, rfl⟩ := flatME_ok h
  obtain ⟨cs, hcs, hf⟩ := mapME_mem_left hm ha
  exact ⟨cs, hf, fun b hb => List.mem_flatten.2 ⟨cs, hcs, hb⟩⟩

theorem mapME_mem_of {α β : Type} {f : α → Except Err β} {l : List α} {bs : List β}
    (h : mapME f l = .ok bs) {a : α} (ha : a ∈ l) : ∃ b, f a = .ok b ∧ b ∈ bs := by
  obtain ⟨b, hb, hf⟩ := mapME_mem_left h ha
  exact ⟨b, hf, hb⟩

theorem withOffsets_cover {α : Type} (len : α → Nat) (l : List α) {y : Nat} (hy : y < (l.map len).sum) :
    ∃ off a, (off, a) ∈ withOffsets len l 0 ∧ off ≤ y ∧ y < off + len a := by
  induction l generalizing y with
  | nil => simp at hy
  | cons b l ih =>
    simp only [List.map_cons, List.sum_cons] at hy
    by_cases h : y < len b
    · exact ⟨0, b, by simp [withOffsets], Nat.zero_le _, by omega⟩
    · obtain ⟨off, a, hm, h1, h2⟩ := ih (y := y - len b) (by omega)
      refine ⟨off + len b, a, ?_, by omega, by omega⟩
      simp only [withOffsets, List.mem_cons, Nat.zero_add]
      right
      rw [withOffsets_shift]
      exact List.mem_map.2 ⟨(off, a), hm, rfl⟩

/-! ## links that are certainly seeded -/

section Edges
variable {spec : Spec}

theorem numOf_isSome (wf : SpecWF spec) {it : ItemRef} (h : (spec.findSeq it.name).isSome = true) :
    ∃ num, numOf spec it = some num := by
  obtain ⟨o, ho⟩ := Option.isSome_iff_exists.1 h
  obtain ⟨hmem, hname⟩ := findSeq_mem ho
  unfold numOf
  cases hb : spec.baseSeqs.findIdx? (·.name == it.name) with
  | some k => exact ⟨_, rfl⟩
  | none =>
    cases hs : spec.supSeqs.findIdx? (·.name == it.name) with
    | some k => exact ⟨_, rfl⟩
    | none =>
      exfalso
      have h1 := List.findIdx?_eq_none_iff.1 hb
      have h2 := List.findIdx?_eq_none_iff.1 hs
      cases hsup : o.isSup with
      | false =>
        have : o ∈ spec.baseSeqs := by unfold Spec.baseSeqs; rw [List.mem_filter]; exact ⟨hmem, by simp [hsup]⟩
        have := h1 o this
        simp [hname] at this
      | true =>
        have : o ∈ spec.supSeqs := by unfold Spec.supSeqs; rw [List.mem_filter]; exact ⟨hmem, hsup⟩
        have := h2 o this
        simp [hname] at this

/-- every item position of a super-sequence is linked to the item's node -/
theorem supEdges_has {e : Enc} {se : List (Nat × Nat)} (h : supEdges spec e = .ok se)
    {k : Nat} {o : SeqObj} (hko : (k, o) ∈ enum spec.supSeqs) {off : Nat} {it : ItemRef}
    (hoff : (off, it) ∈ withOffsets (lenOf spec) o.items 0) {x : Nat} (hx : x < lenOf spec it) :
    ∃ num, numOf spec it = some num ∧
      (e.sq (2 * spec.baseSeqs.length + 2 * k) (off + x), e.sq num x) ∈ se := by
  unfold supEdges at h
  obtain ⟨cs, hcs, hin⟩ := flatME_mem_of h hko
  obtain ⟨cs', hcs', hin'⟩ := flatME_mem_of hcs hoff
  obtain ⟨b, hb, hbin⟩ := mapME_mem_of hcs' (List.mem_range.2 hx)
  simp only at hb
  cases hq : sqOf spec e it x with
  | error er => simp [hq] at hb
  | ok q =>
    simp only [hq, Except.ok.injEq] at hb
    obtain ⟨num, hn, rfl⟩ := sqOf_ok hq
    subst hb
    exact ⟨num, hn, hin _ (hin' _ hbin)⟩

/-- every item position of a strand is linked to the item's node -/
theorem strandEdges_has {lay : Lay} {e : Enc} {te : List (Nat × Nat)} (h : strandEdges spec lay e = .ok te)
    {k : Nat} {o : StrandObj} (hko : (k, o) ∈ enum spec.strands) {off : Nat} {it : ItemRef}
    (hoff : (off, it) ∈ withOffsets (lenOf spec) o.items 0) {x : Nat} (hx : x < lenOf spec it) :
    ∃ a num, getIndexStrand lay k o.len (off + x) = .ok a ∧ numOf spec it = some num ∧ (a, e.sq num x) ∈ te := by
  unfold strandEdges at h
  obtain ⟨cs, hcs, hin⟩ := flatME_mem_of h hko
  obtain ⟨cs', hcs', hin'⟩ := flatME_mem_of hcs hoff
  obtain ⟨b, hb, hbin⟩ := mapME_mem_of hcs' (List.mem_range.2 hx)
  simp only at hb
  cases ha : getIndexStrand lay k o.len (off + x) with
  | error er => simp [ha] at hb
  | ok a =>
    cases hq : sqOf spec e it x with
    | error er => simp [ha, hq] at hb
    | ok q =>
      simp only [ha, hq, Except.ok.injEq] at hb
      obtain ⟨num, hn, rfl⟩ := sqOf_ok hq
      subst hb
      exact ⟨a, num, rfl, hn, hin _ (hin' _ hbin)⟩

/-- every later member of an `equal` line is linked to the first, position by position -/
theorem equalEdges_has {e : Enc} {ee : List (Nat × Nat)} (h : equalEdges spec e = .ok ee)
    {first : ItemRef} {rest : List ItemRef} (hits : first :: rest ∈ spec.equals) {it : ItemRef} (hit : it ∈ rest)
    {x : Nat} (hx : x < lenOf spec it) :
    lenOf spec it = lenOf spec first ∧ ∃ na nb, numOf spec first = some na ∧ numOf spec it = some nb ∧
      (e.sq na x, e.sq nb x) ∈ ee := by
  unfold equalEdges at h
  obtain ⟨cs, hcs, hin⟩ := flatME_mem_of h hits
  simp only at hcs
  obtain ⟨cs', hcs', hin'⟩ := flatME_mem_of hcs hit
  by_cases hlen : (lenOf spec it != lenOf spec first) = true
  · simp [hlen] at hcs'
  · simp only [hlen, Bool.false_eq_true, if_false] at hcs'
    obtain ⟨b, hb, hbin⟩ := mapME_mem_of hcs' (List.mem_range.2 hx)
    cases ha : sqOf spec e first x with
    | error er => simp [ha] at hb
    | ok a =>
      cases hq : sqOf spec e it x with
      | error er => simp [ha, hq] at hb
      | ok q =>
        simp only [ha, hq, Except.ok.injEq] at hb
        obtain ⟨na, hna, rfl⟩ := sqOf_ok ha
        obtain ⟨nb, hnb, rfl⟩ := sqOf_ok hq
        subst hb
        exact ⟨by simpa using hlen, na, nb, hna, hnb, hin _ (hin' _ hbin)⟩

/-- every bond of every structure is linked -/
theorem bondEdges_has {mode : Layout} {lay : Lay} {be : List (Nat × Nat)} (h : bondEdges mode spec lay = .ok be)
    {j : Nat} {so : StructObj} (hjso : (j, so) ∈ enum spec.structs) {x y : Nat} (hxy : (x, y) ∈ so.bonds) :
    ∃ a b, getIndex mode spec lay j so x = .ok a ∧ getIndex mode spec lay j so y = .ok b ∧ (a, b) ∈ be := by
  unfold bondEdges at h
  obtain ⟨cs, hcs, hin⟩ := flatME_mem_of h hjso
  obtain ⟨b, hb, hbin⟩ := mapME_mem_of hcs hxy
  simp only at hb
  cases ha : getIndex mode spec lay j so x with
  | error er => simp [ha] at hb
  | ok a =>
    cases hq : getIndex mode spec lay j so y with
    | error er => simp [ha, hq] at hb
    | ok q =>
      simp only [ha, hq, Except.ok.injEq] at hb
      subst hb
      exact ⟨a, q, rfl, rfl, hin _ hbin⟩

/-- structure layout: every occurrence of a strand is linked to the strand's own positions -/
theorem copyEdges_has {lay : Lay} {ce : List (Nat × Nat)} (h : copyEdges .struct spec lay = .ok ce)
    {j : Nat} {so : StructObj} (hjso : (j, so) ∈ enum spec.structs) {off k : Nat} {o : StrandObj}
    (hoff : (off, (k, o)) ∈ withOffsets (fun (q : Nat × StrandObj) => q.2.len) (structStrands spec so) 0)
    {x : Nat} (hx : x < o.len) :
    ∃ a b, getIndexStrand lay k o.len x = .ok a ∧ getIndex .struct spec lay j so (off + x) = .ok b ∧ (a, b) ∈ ce := by
  unfold copyEdges at h
  simp only at h
  obtain ⟨cs, hcs, hin⟩ := flatME_mem_of h hjso
  obtain ⟨cs', hcs', hin'⟩ := flatME_mem_of hcs hoff
  obtain ⟨b, hb, hbin⟩ := mapME_mem_of hcs' (List.mem_range.2 hx)
  simp only at hb
  cases ha : getIndexStrand lay k o.len x with
  | error er => simp [ha] at hb
  | ok a =>
    cases hq : getIndex .struct spec lay j so (off + x) with
    | error er => simp [ha, hq] at hb
    | ok q =>
      simp only [ha, hq, Except.ok.injEq] at hb
      subst hb
      exact ⟨a, q, rfl, rfl, hin _ (hin' _ hbin)⟩

/-- the complement view of every sequence is linked to the forward view -/
theorem viewEdges_has (e : Enc) {n0 : Nat} {o : SeqObj}
    (h : (∃ k, (k, o) ∈ enum spec.baseSeqs ∧ n0 = 2 * k) ∨
         (∃ k, (k, o) ∈ enum spec.supSeqs ∧ n0 = 2 * spec.baseSeqs.length + 2 * k)) {x : Nat} (hx : x < o.len) :
    (e.sq (n0 + 1) x, e.sq n0 (o.len - x - 1)) ∈ viewEdges spec e := by
  unfold viewEdges
  rcases h with ⟨k, hk, rfl⟩ | ⟨k, hk, rfl⟩
  · apply List.mem_append_left
    exact List.mem_flatMap.2 ⟨(k, o), hk, List.mem_map.2 ⟨x, List.mem_range.2 hx, rfl⟩⟩
  · apply List.mem_append_right
    exact List.mem_flatMap.2 ⟨(k, o), hk, List.mem_map.2 ⟨x, List.mem_range.2 hx, rfl⟩⟩

end Edges

/-! ## the seeded graph as a relation -/

/-- a successfully seeded document -/
structure Seeded (tbl : CodeTable) (mode : Layout) (spec : Spec) (s : Seeds) (c : Cons) : Prop where
  wf : SpecWF spec
  ok : SpecCodes tbl spec
  hs : seeds mode spec = .ok s
  hb : build s = .ok c

/-- parity reachability in the seeded graph -/
abbrev GR (c : Cons) (x : Nat) (p : Bool) (y : Nat) : Prop := Reach (adjOf c.keys c.eq) (adjOf c.keys c.wc) x p y

section Graph
variable {tbl : CodeTable} {mode : Layout} {spec : Spec} {s : Seeds} {c : Cons}

theorem Seeded.pre (S : Seeded tbl mode spec s c) : Pre (adjOf c.keys c.eq) (adjOf c.keys c.wc) :=
  (build_spec (tbl := tbl) S.hb (seeds_codes S.ok S.hs)).1.pre

theorem Seeded.eqEdge (S : Seeded tbl mode spec s c) {x y : Nat} (h : (x, y) ∈ s.eqE) : GR c x false y := by
  obtain ⟨_, _, _, _, nbE, _⟩ := build_spec (tbl := tbl) S.hb (seeds_codes S.ok S.hs)
  exact Reach.eqStep Reach.refl ((nbE x y).2 (Or.inl h))

theorem Seeded.wcEdge (S : Seeded tbl mode spec s c) {x y : Nat} (h : (x, y) ∈ s.wcE) : GR c x true y := by
  obtain ⟨_, _, _, _, _, nbW⟩ := build_spec (tbl := tbl) S.hb (seeds_codes S.ok S.hs)
  have := Reach.wcStep (Reach.refl (eq := adjOf c.keys c.eq) (wc := adjOf c.keys c.wc) (x := x)) ((nbW x y).2 (Or.inl h))
  simpa using this

theorem Seeded.symm (S : Seeded tbl mode spec s c) {x y : Nat} {p : Bool} (h : GR c x p y) : GR c y p x :=
  Reach.symm S.pre.eqSymm S.pre.wcSymm h

/-! ## numbering of the views of an object -/

theorem seq_unique (wf : SpecWF spec) {o o' : SeqObj} (h : o ∈ spec.seqs) (h' : o' ∈ spec.seqs)
    (hn : o.name = o'.name) : o = o' := by
  have h1 := wf.seqFind o h
  have h2 := wf.seqFind o' h'
  rw [hn, h2] at h1
  exact (Option.some.inj h1).symm

/-- the number of the forward view of a defined object, and the place of the object in its list -/
theorem numOf_obj (wf : SpecWF spec) {o : SeqObj} (ho : o ∈ spec.seqs) :
    ∃ n0, (∀ rev : Bool, numOf spec ⟨o.name, rev⟩ = some (n0 + (if rev then 1 else 0))) ∧
      ((o.isSup = false ∧ ∃ k, (k, o) ∈ enum spec.baseSeqs ∧ n0 = 2 * k) ∨
       (o.isSup = true ∧ ∃ k, (k, o) ∈ enum spec.supSeqs ∧ n0 = 2 * spec.baseSeqs.length + 2 * k)) := by
  cases hb : spec.baseSeqs.findIdx? (·.name == o.name) with
  | some k =>
    obtain ⟨o', hk, hp⟩ := findIdx?_spec hb
    have hm := mem_baseSeqs (List.mem_of_getElem? hk)
    have : o' = o := seq_unique wf hm.1 ho (by simpa using hp)
    subst this
    refine ⟨2 * k, fun rev => ?_, Or.inl ⟨hm.2, k, mem_enum_of_getElem? hk, rfl⟩⟩
    unfold numOf; simp only [hb]
  | none =>
    have hnb : o.isSup = true := by
      cases hs : o.isSup with
      | true => rfl
      | false =>
        have : o ∈ spec.baseSeqs := by unfold Spec.baseSeqs; rw [List.mem_filter]; exact ⟨ho, by simp [hs]⟩
        have := List.findIdx?_eq_none_iff.1 hb o this
        simp at this
    have hin : o ∈ spec.supSeqs := by unfold Spec.supSeqs; rw [List.mem_filter]; exact ⟨ho, hnb⟩
    cases hs : spec.supSeqs.findIdx? (·.name == o.name) with
    | none =>
      have := List.findIdx?_eq_none_iff.1 hs o hin
      simp at this
    | some k =>
      obtain ⟨o', hk, hp⟩ := findIdx?_spec hs
      have hm := mem_supSeqs (List.mem_of_getElem? hk)
      have : o' = o := seq_unique wf hm.1 ho (by simpa using hp)
      subst this
      refine ⟨2 * spec.baseSeqs.length + 2 * k, fun rev => ?_, Or.inr ⟨hnb, k, mem_enum_of_getElem? hk, rfl⟩⟩
      unfold numOf; simp only [hb, hs]

theorem sum_lenOf_items (wf : SpecWF spec) {items : List ItemRef} {bases : List BaseRef} (ok : ItemsOK spec items bases) :
    (items.map (lenOf spec)).sum = (nucsOfBases bases).length := by
  rw [ok.nucs, flatMap_length_sum]
  congr 1
  apply List.map_congr_left
  intro a _
  exact (nucsOfItem_length wf a).symm

/-! ## every node is connected to its canonical node -/

/-- `cn` is the canonical node (forward view of the base sequence) of the domain position of `n` -/
def Canon (spec : Spec) (e : Enc) (n : Nuc) (cn : Nat) : Prop :=
  ∃ k ob, (k, ob) ∈ enum spec.baseSeqs ∧ ob.name = n.var.dom ∧ n.var.idx < ob.len ∧ cn = e.sq (2 * k) n.var.idx

theorem getElem?_lt {α : Type} {l : List α} {i : Nat} {a : α} (h : l[i]? = some a) : i < l.length :=
  (List.getElem?_eq_some_iff.1 h).1

/-- **Connection, sequence nodes**: the node `(num, x)` of any view of any defined object is connected to the
    canonical node of its nucleotide, with the parity of the nucleotide's `comp` flag.  By induction on the
    order of definition (items of a super-sequence are defined earlier). -/
theorem conn_seq (S : Seeded tbl mode spec s c) :
    ∀ (i : Nat) (o : SeqObj), spec.seqs[i]? = some o → ∀ (rev : Bool) (x : Nat) (n : Nuc),
      (viewNucs o rev)[x]? = some n →
      ∃ num cn, numOf spec ⟨o.name, rev⟩ = some num ∧ Canon spec (encOf spec (layOf mode spec)) n cn ∧
        GR c ((encOf spec (layOf mode spec)).sq num x) n.comp cn := by
  have wf := S.wf
  obtain ⟨li, ce, be, ee, se, te, h1, h2, h3, h4, h5, h6, hseq⟩ := seeds_ok S.hs
  have hse : ∀ e ∈ se, e ∈ s.eqE := by
    intro e he; rw [hseq]; simp only [List.mem_append]; exact Or.inl (Or.inr he)
  have hve : ∀ e ∈ viewEdges spec (encOf spec (layOf mode spec)), e ∈ s.wcE := by
    intro e he; rw [hseq]; simp only [List.mem_append]; exact Or.inr he
  intro i
  induction i using Nat.strongRecOn with
  | _ i ih =>
    intro o hio
    have ho : o ∈ spec.seqs := List.mem_of_getElem? hio
    -- the forward view first
    have fwdCase : ∀ (x : Nat) (n : Nuc), (viewNucs o false)[x]? = some n →
        ∃ num cn, numOf spec ⟨o.name, false⟩ = some num ∧ Canon spec (encOf spec (layOf mode spec)) n cn ∧
          GR c ((encOf spec (layOf mode spec)).sq num x) n.comp cn := by
      intro x n hn
      obtain ⟨n0, hnumAll, hcls⟩ := numOf_obj wf ho
      have hnum := hnumAll false
      simp only [Bool.false_eq_true, if_false, Nat.add_zero] at hnum
      have hxl : x < o.len := by rw [← wf.seqLen o ho]; exact getElem?_lt hn
      rcases hcls with ⟨hsup, k, hk, rfl⟩ | ⟨hsup, k, hk, rfl⟩
      · -- a base sequence: the node is canonical itself
        rw [(wf.base o ho hsup).2, fwd_getElem? _ _ _ hxl] at hn
        cases hn
        exact ⟨2 * k, _, hnum, ⟨k, o, hk, rfl, hxl, rfl⟩, Reach.refl⟩
      · -- a super-sequence: go down to the item that covers `x`
        have okI := wf.sup o ho hsup
        have hv : viewNucs o false = nucsOfBases o.bases := by simp [viewNucs, basesOfView]
        have hsum : (o.items.map (lenOf spec)).sum = o.len := by
          rw [sum_lenOf_items wf okI, ← hv, wf.seqLen o ho]
        obtain ⟨off, it, hoff, hle, hlt⟩ := withOffsets_cover (lenOf spec) o.items (y := x) (by rw [hsum]; exact hxl)
        have hx' : x - off < lenOf spec it := by omega
        obtain ⟨numIt, hnumIt, hedge⟩ := supEdges_has h5 hk hoff hx'
        have hxe : off + (x - off) = x := by omega
        rw [hxe] at hedge
        obtain ⟨hidx, _⟩ := items_index wf okI hoff hx'
        rw [hxe, ← hv, hn] at hidx
        obtain ⟨j, o', hji, hjo, hf⟩ := wf.supEarlier i o hio hsup it (withOffsets_mem _ _ _ hoff)
        have hname : o'.name = it.name := (findSeq_mem hf).2
        have hnit : (viewNucs o' it.rev)[x - off]? = some n := by
          have : nucsOfItem spec it = viewNucs o' it.rev := by simp [nucsOfItem, hf]
          rw [← this]; exact hidx.symm
        obtain ⟨num', cn, hnum', hcan, hreach⟩ := ih j hji o' hjo it.rev (x - off) n hnit
        have hitEq : (⟨o'.name, it.rev⟩ : ItemRef) = it := by cases it; simp_all
        rw [hitEq, hnumIt] at hnum'
        cases hnum'
        refine ⟨_, cn, hnum, hcan, ?_⟩
        have := (S.eqEdge (hse _ hedge)).trans hreach
        simpa using this
    intro rev x n hn
    cases rev with
    | false => exact fwdCase x n hn
    | true =>
      rw [viewNucs_true] at hn
      have hxl : x < (viewNucs o false).length := by
        have := getElem?_lt hn; rwa [rc_length'] at this
      rw [rc_getElem? _ _ hxl] at hn
      cases hf : (viewNucs o false)[(viewNucs o false).length - 1 - x]? with
      | none => simp [hf] at hn
      | some nf =>
        simp only [hf, Option.map_some, Option.some.injEq] at hn
        subst hn
        obtain ⟨num, cn, hnum, hcan, hreach⟩ := fwdCase _ nf hf
        obtain ⟨n0, hnumAll, hcls⟩ := numOf_obj wf ho
        have hnum0 := hnumAll false
        have hnum1 := hnumAll true
        simp only [Bool.false_eq_true, if_false, Nat.add_zero] at hnum0
        simp only [if_true] at hnum1
        have hnn : n0 = num := by rw [hnum0] at hnum; exact Option.some.inj hnum
        rw [← hnn] at hreach
        have hlenv := wf.seqLen o ho
        have hxl' : x < o.len := by rw [← hlenv]; exact hxl
        have hedge := viewEdges_has (spec := spec) (encOf spec (layOf mode spec)) (n0 := n0) (o := o) (by
          rcases hcls with ⟨_, k, hk, rfl⟩ | ⟨_, k, hk, rfl⟩
          · exact Or.inl ⟨k, hk, rfl⟩
          · exact Or.inr ⟨k, hk, rfl⟩) hxl'
        have e2 : o.len - x - 1 = (viewNucs o false).length - 1 - x := by rw [hlenv]; omega
        rw [e2] at hedge
        refine ⟨n0 + 1, cn, hnum1, ?_, ?_⟩
        · obtain ⟨k, ob, h1', h2', h3', h4'⟩ := hcan
          exact ⟨k, ob, h1', h2', h3', h4'⟩
        · have := (S.wcEdge (hve _ hedge)).trans hreach
          have e3 : (true ^^ nf.comp) = nf.flip.comp := by simp [Nuc.flip]
          rw [e3] at this
          exact this

/-- connection for the node of an item of a super-sequence / strand / `equal` line -/
theorem conn_item (S : Seeded tbl mode spec s c) {it : ItemRef} (hres : (spec.findSeq it.name).isSome = true)
    {x : Nat} {n : Nuc} (hn : (nucsOfItem spec it)[x]? = some n) :
    ∃ num cn, numOf spec it = some num ∧ Canon spec (encOf spec (layOf mode spec)) n cn ∧
      GR c ((encOf spec (layOf mode spec)).sq num x) n.comp cn := by
  obtain ⟨o', hf⟩ := Option.isSome_iff_exists.1 hres
  obtain ⟨hmem, hname⟩ := findSeq_mem hf
  obtain ⟨j, hj, hje⟩ := List.getElem_of_mem hmem
  have hjo : spec.seqs[j]? = some o' := by rw [List.getElem?_eq_getElem hj, hje]
  have hnit : (viewNucs o' it.rev)[x]? = some n := by
    have : nucsOfItem spec it = viewNucs o' it.rev := by simp [nucsOfItem, hf]
    rw [← this]; exact hn
  obtain ⟨num, cn, hnum, hcan, hreach⟩ := conn_seq S j o' hjo it.rev x n hnit
  have hitEq : (⟨o'.name, it.rev⟩ : ItemRef) = it := by cases it; simp_all
  rw [hitEq] at hnum
  exact ⟨num, cn, hnum, hcan, hreach⟩

/-- connection for the positions of a strand (through `strand_start`), both layouts -/
theorem conn_strandPos (S : Seeded tbl mode spec s c) {k : Nat} {o : StrandObj} (hko : (k, o) ∈ enum spec.strands)
    {y : Nat} (hy : y < o.len) {n : Nuc} (hn : (nucsOfBases o.bases)[y]? = some n) :
    ∃ a cn, getIndexStrand (layOf mode spec) k o.len y = .ok a ∧ Canon spec (encOf spec (layOf mode spec)) n cn ∧
      GR c a n.comp cn := by
  have wf := S.wf
  obtain ⟨li, ce, be, ee, se, te, h1, h2, h3, h4, h5, h6, hseq⟩ := seeds_ok S.hs
  have hte : ∀ e ∈ te, e ∈ s.eqE := by
    intro e he; rw [hseq]; simp only [List.mem_append]; exact Or.inr he
  have hmem : o ∈ spec.strands := (mem_enum hko).1
  have okI := wf.strand o hmem
  have hsum : (o.items.map (lenOf spec)).sum = o.len := by
    rw [sum_lenOf_items wf okI, wf.strandLen o hmem]
  obtain ⟨off, it, hoff, hle, hlt⟩ := withOffsets_cover (lenOf spec) o.items (y := y) (by rw [hsum]; exact hy)
  have hx' : y - off < lenOf spec it := by omega
  obtain ⟨a, num, ha, hnum, hedge⟩ := strandEdges_has h6 hko hoff hx'
  have hye : off + (y - off) = y := by omega
  rw [hye] at ha
  obtain ⟨hidx, _⟩ := items_index wf okI hoff hx'
  rw [hye, hn] at hidx
  obtain ⟨num', cn, hnum', hcan, hreach⟩ := conn_item S (okI.resolve it (withOffsets_mem _ _ _ hoff)) hidx.symm
  rw [hnum] at hnum'; cases hnum'
  refine ⟨a, cn, ha, hcan, ?_⟩
  have := (S.eqEdge (hte _ hedge)).trans hreach
  simpa using this

/-- **Connection, layout positions** (both layouts) -/
theorem conn_pos (S : Seeded tbl mode spec s c) {p : Nat} {m : Nuc} (hpm : (p, m) ∈ posTabOf mode spec) :
    ∃ cn, Canon spec (encOf spec (layOf mode spec)) m cn ∧ GR c p m.comp cn := by
  have wf := S.wf
  cases mode with
  | strand =>
    unfold posTabOf at hpm
    simp only at hpm
    unfold posTabStrand at hpm
    obtain ⟨⟨k, o⟩, hko, hpm⟩ := List.mem_flatMap.1 hpm
    obtain ⟨y, hy, hpe⟩ := List.mem_map.1 hpm
    have hyl := List.mem_range.1 hy
    simp only [Prod.mk.injEq] at hpe
    obtain ⟨rfl, rfl⟩ := hpe
    obtain ⟨n, hn⟩ := getElem?_some_of_lt (l := nucsOfBases o.bases) (i := y)
      (by rw [wf.strandLen o (mem_enum hko).1]; exact hyl)
    have hgd : (nucsOfBases o.bases).getD y dfltNuc = n := by simp [List.getD_eq_getElem?_getD, hn]
    rw [hgd]
    obtain ⟨a, cn, ha, hcan, hreach⟩ := conn_strandPos S hko hyl hn
    rw [layOf_strand, getIndexStrand_strand spec (mem_enum_lt hko) hyl] at ha
    cases ha
    exact ⟨cn, hcan, hreach⟩
  | struct =>
    obtain ⟨li, ce, be, ee, se, te, h1, h2, h3, h4, h5, h6, hseq⟩ := seeds_ok S.hs
    have hce : ∀ e ∈ ce, e ∈ s.eqE := by
      intro e he; rw [hseq]; simp only [List.mem_append]; exact Or.inl (Or.inl (Or.inl he))
    unfold posTabOf at hpm
    simp only at hpm
    unfold posTabStruct at hpm
    obtain ⟨⟨j, so⟩, hjso, hpm⟩ := List.mem_flatMap.1 hpm
    obtain ⟨y, hy, hpe⟩ := List.mem_map.1 hpm
    have hyl := List.mem_range.1 hy
    simp only [Prod.mk.injEq] at hpe
    obtain ⟨rfl, rfl⟩ := hpe
    have hso : so ∈ spec.structs := (mem_enum hjso).1
    obtain ⟨off', ⟨k, o⟩, hoff', hle', hlt'⟩ := withOffsets_cover (fun (q : Nat × StrandObj) => q.2.len)
      (structStrands spec so) (y := y) (by rw [← wf.structLen so hso]; exact hyl)
    simp only at hlt'
    have hy' : y - off' < o.len := by omega
    have hko : (k, o) ∈ enum spec.strands := structStrands_mem wf (withOffsets_mem _ _ _ hoff')
    obtain ⟨a1, b1, ha1, hb1, hedge⟩ := copyEdges_has h2 hjso hoff' hy'
    have hye : off' + (y - off') = y := by omega
    rw [hye, layOf_struct, getIndex_struct wf hso hyl] at hb1
    cases hb1
    have hl : ∀ q ∈ structStrands spec so, (nucsOfBases q.2.bases).length = q.2.len :=
      fun q hq => wf.strandLen q.2 (mem_enum (structStrands_mem wf hq)).1
    obtain ⟨hidx, _⟩ := flatMap_offset_getElem? (fun (q : Nat × StrandObj) => q.2.len)
      (fun q => nucsOfBases q.2.bases) (structStrands spec so) 0 hl hoff' hy'
    simp only [Nat.sub_zero] at hidx
    rw [hye] at hidx
    obtain ⟨n, hn⟩ := getElem?_some_of_lt (l := nucsOfBases o.bases) (i := y - off')
      (by rw [wf.strandLen o (mem_enum hko).1]; exact hy')
    have hgd : (structNucsM spec so).getD y dfltNuc = n := by
      unfold structNucsM
      simp [List.getD_eq_getElem?_getD, hidx, hn]
    rw [hgd]
    obtain ⟨a, cn, ha, hcan, hreach⟩ := conn_strandPos S hko hy' hn
    rw [ha1] at ha
    cases ha
    exact ⟨cn, hcan, by simpa using (S.symm (S.eqEdge (hce _ hedge))).trans hreach⟩

/-! ## canonical nodes are unique; links are realised between them -/

/-- the canonical node of a domain position -/
def CanonV (spec : Spec) (e : Enc) (v : Var) (cn : Nat) : Prop :=
  ∃ k ob, (k, ob) ∈ enum spec.baseSeqs ∧ ob.name = v.dom ∧ v.idx < ob.len ∧ cn = e.sq (2 * k) v.idx

theorem canon_iff (e : Enc) (n : Nuc) (cn : Nat) : Canon spec e n cn ↔ CanonV spec e n.var cn := Iff.rfl

theorem nodup_getElem_inj {α : Type} {l : List α} (hn : l.Nodup) {i j : Nat} {a : α} (hi : l[i]? = some a)
    (hj : l[j]? = some a) : i = j := by
  obtain ⟨hi1, hi2⟩ := List.getElem?_eq_some_iff.1 hi
  obtain ⟨hj1, hj2⟩ := List.getElem?_eq_some_iff.1 hj
  exact (List.getElem_inj hn).1 (hi2.trans hj2.symm)

theorem nodup_of_map {α β : Type} (f : α → β) {l : List α} (h : (l.map f).Nodup) : l.Nodup := by
  induction l with
  | nil => simp
  | cons a l ih =>
    simp only [List.map_cons, List.nodup_cons] at h ⊢
    exact ⟨fun hm => h.1 (List.mem_map.2 ⟨a, hm, rfl⟩), ih h.2⟩

theorem baseSeqs_index_unique (wf : SpecWF spec) {k k' : Nat} {ob ob' : SeqObj} (h : (k, ob) ∈ enum spec.baseSeqs)
    (h' : (k', ob') ∈ enum spec.baseSeqs) (hn : ob.name = ob'.name) : k = k' ∧ ob = ob' := by
  have e1 := enum_getElem? h
  have e2 := enum_getElem? h'
  simp only at e1 e2
  have hob : ob = ob' := seq_unique wf (mem_baseSeqs (List.mem_of_getElem? e1)).1
    (mem_baseSeqs (List.mem_of_getElem? e2)).1 hn
  subst hob
  have hnd : spec.baseSeqs.Nodup := by
    unfold Spec.baseSeqs
    exact List.Nodup.sublist List.filter_sublist (nodup_of_map _ wf.seqNames)
  exact ⟨nodup_getElem_inj hnd e1 e2, rfl⟩

theorem canonV_unique (wf : SpecWF spec) (e : Enc) {v : Var} {c1 c2 : Nat} (h1 : CanonV spec e v c1)
    (h2 : CanonV spec e v c2) : c1 = c2 := by
  obtain ⟨k, ob, hk, hn, _, rfl⟩ := h1
  obtain ⟨k', ob', hk', hn', _, rfl⟩ := h2
  obtain ⟨rfl, _⟩ := baseSeqs_index_unique wf hk hk' (hn.trans hn'.symm)
  rfl

/-- the nodes of the members of an `equal` line are connected position by position -/
theorem equal_node (S : Seeded tbl mode spec s c) {first : ItemRef} {rest : List ItemRef}
    (hits : first :: rest ∈ spec.equals) {i : ItemRef} (hi : i ∈ first :: rest) {k : Nat} (hk : k < lenOf spec i) :
    ∃ numF numI, numOf spec first = some numF ∧ numOf spec i = some numI ∧
      GR c ((encOf spec (layOf mode spec)).sq numF k) false ((encOf spec (layOf mode spec)).sq numI k) := by
  obtain ⟨li, ce, be, ee, se, te, h1, h2, h3, h4, h5, h6, hseq⟩ := seeds_ok S.hs
  have hee : ∀ e ∈ ee, e ∈ s.eqE := by
    intro e he; rw [hseq]; simp only [List.mem_append]; exact Or.inl (Or.inl (Or.inr he))
  rcases List.mem_cons.1 hi with rfl | hir
  · obtain ⟨num, hnum⟩ := numOf_isSome S.wf (S.wf.equal _ hits i List.mem_cons_self)
    exact ⟨num, num, hnum, hnum, Reach.refl⟩
  · obtain ⟨_, na, nb, hna, hnb, hedge⟩ := equalEdges_has h4 hits hir hk
    exact ⟨na, nb, hna, hnb, S.eqEdge (hee _ hedge)⟩

/-- a layout position named by `get_index` is in the table of positions with the structure's nucleotide -/
theorem getIndex_pos (wf : SpecWF spec) {j : Nat} {so : StructObj} (hjso : (j, so) ∈ enum spec.structs) {x a : Nat}
    (h : getIndex mode spec (layOf mode spec) j so x = .ok a) {m : Nuc} (hm : (structNucsM spec so)[x]? = some m) :
    (a, m) ∈ posTabOf mode spec := by
  have hso : so ∈ spec.structs := (mem_enum hjso).1
  have hxl : x < so.len := by
    unfold getIndex at h
    by_cases hx : x < so.len
    · exact hx
    · simp [hx] at h
  cases mode with
  | strand =>
    have hl : ∀ q ∈ structStrands spec so, q ∈ enum spec.strands := fun q hq => structStrands_mem wf hq
    have hlen : ∀ q ∈ structStrands spec so, (nucsOfBases q.2.bases).length = q.2.len :=
      fun q hq => wf.strandLen q.2 (mem_enum (hl q hq)).1
    have h' : getIndexS (layStrand spec) (structStrands spec so) x = .ok a := by
      unfold getIndex at h
      simp only [hxl, if_true] at h
      exact h
    obtain ⟨q, hq, y, hy, rfl, hidx⟩ := getIndexS_spec _ hl hlen h'
    unfold structNucsM at hm
    rw [hidx] at hm
    exact posTabStrand_mem (k := q.1) (o := q.2) (hl q hq) hy hm
  | struct =>
    rw [layOf_struct, getIndex_struct wf hso hxl] at h
    cases h
    exact posTabStruct_mem hjso hxl hm

/-- **Every link of the semantic link graph is realised between canonical nodes.** -/
theorem link_realised (S : Seeded tbl mode spec s c) {e : Link} (he : e ∈ links (Pil.denote spec)) :
    ∃ ca cb, CanonV spec (encOf spec (layOf mode spec)) e.a ca ∧ CanonV spec (encOf spec (layOf mode spec)) e.b cb ∧
      GR c ca e.odd cb := by
  have wf := S.wf
  rcases List.mem_append.1 he with he | he
  · -- a link of an `equal` line
    simp only [equalLinks, List.mem_flatMap] at he
    obtain ⟨entry, hentry, r, hr, r', hr', hl⟩ := he
    simp only [Pil.denote, List.mem_map] at hentry
    obtain ⟨its, hits, rfl⟩ := hentry
    obtain ⟨i1, hi1, hr1⟩ := List.mem_filterMap.1 hr
    obtain ⟨i2, hi2, hr2⟩ := List.mem_filterMap.1 hr'
    have res1 := wf.equal its hits i1 hi1
    have res2 := wf.equal its hits i2 hi2
    have hr1' : r = nucsOfItem spec i1 := by
      obtain ⟨o, ho⟩ := Option.isSome_iff_exists.1 res1
      simp [ho] at hr1
      simp [nucsOfItem, ho, viewNucs, hr1]
    have hr2' : r' = nucsOfItem spec i2 := by
      obtain ⟨o, ho⟩ := Option.isSome_iff_exists.1 res2
      simp [ho] at hr2
      simp [nucsOfItem, ho, viewNucs, hr2]
    subst hr1' hr2'
    simp only [regionLinks, List.mem_map] at hl
    obtain ⟨⟨m, n⟩, hz, rfl⟩ := hl
    obtain ⟨k, hm, hn⟩ := mem_zip_getElem? hz
    have hk1 : k < lenOf spec i1 := by rw [← nucsOfItem_length wf]; exact getElem?_lt hm
    have hk2 : k < lenOf spec i2 := by rw [← nucsOfItem_length wf]; exact getElem?_lt hn
    cases its with
    | nil => cases hi1
    | cons first rest =>
      obtain ⟨numF, num1, hF, h1, g1⟩ := equal_node S hits hi1 hk1
      obtain ⟨numF', num2, hF', h2, g2⟩ := equal_node S hits hi2 hk2
      rw [hF] at hF'; cases hF'
      obtain ⟨n1, c1, hn1, hc1, gr1⟩ := conn_item S res1 hm
      obtain ⟨n2, c2, hn2, hc2, gr2⟩ := conn_item S res2 hn
      rw [h1] at hn1; cases hn1
      rw [h2] at hn2; cases hn2
      refine ⟨c1, c2, hc1, hc2, ?_⟩
      have := ((S.symm gr1).trans ((S.symm g1).trans g2)).trans gr2
      simp only at this ⊢
      have e : ((m.comp ^^ (false ^^ false)) ^^ n.comp) = (m.comp != n.comp) := by
        cases m.comp <;> cases n.comp <;> rfl
      rw [e] at this
      exact this
  · -- a base pair
    obtain ⟨li, ce, be, ee, se, te, h1, h2, h3, h4, h5, h6, hseq⟩ := seeds_ok S.hs
    have hbe : ∀ e ∈ be, e ∈ s.wcE := by
      intro e he; rw [hseq]; simp only [List.mem_append]; exact Or.inl he
    simp only [pairLinks, List.mem_flatMap, List.mem_filterMap] at he
    obtain ⟨sd, hsd, ⟨x, y⟩, hxy, hl⟩ := he
    simp only [Pil.denote, List.mem_map] at hsd
    obtain ⟨so, hso, rfl⟩ := hsd
    simp only at hl hxy
    rw [structNucs_denote wf hso] at hl
    rw [← getBonds_pairs (wf.struct so hso).2] at hxy
    obtain ⟨j, hj, hje⟩ := List.getElem_of_mem hso
    have hjso : (j, so) ∈ enum spec.structs := mem_enum_of_getElem? (by rw [List.getElem?_eq_getElem hj, hje])
    obtain ⟨a, b, ha, hb, hedge⟩ := bondEdges_has h3 hjso hxy
    split at hl
    · rename_i m n hm hn
      simp only [Option.some.injEq] at hl
      subst hl
      obtain ⟨c1, hc1, gr1⟩ := conn_pos S (getIndex_pos wf hjso ha hm)
      obtain ⟨c2, hc2, gr2⟩ := conn_pos S (getIndex_pos wf hjso hb hn)
      refine ⟨c1, c2, hc1, hc2, ?_⟩
      have := ((S.symm gr1).trans (S.wcEdge (hbe _ hedge))).trans gr2
      simp only at this ⊢
      have e : ((m.comp ^^ true) ^^ n.comp) = (m.comp == n.comp) := by
        cases m.comp <;> cases n.comp <;> rfl
      rw [e] at this
      exact this
    · cases hl

/-- **Semantic reachability is realised between canonical nodes.** -/
theorem parityReach_graph (S : Seeded tbl mode spec s c) {v w : Var} {p : Bool}
    (h : ParityReach (Pil.denote spec) v p w) {cv : Nat} (hv : CanonV spec (encOf spec (layOf mode spec)) v cv) :
    ∃ cw, CanonV spec (encOf spec (layOf mode spec)) w cw ∧ GR c cv p cw := by
  induction h with
  | refl => exact ⟨cv, hv, Reach.refl⟩
  | @fwd w' q e _ he ha ih =>
    obtain ⟨cw, hcw, hr⟩ := ih
    obtain ⟨ca, cb, hca, hcb, hl⟩ := link_realised S he
    rw [ha] at hca
    have := canonV_unique S.wf _ hca hcw
    subst this
    exact ⟨cb, hcb, by rw [bne_eq_xor']; exact hr.trans hl⟩
  | @bwd w' q e _ he hb ih =>
    obtain ⟨cw, hcw, hr⟩ := ih
    obtain ⟨ca, cb, hca, hcb, hl⟩ := link_realised S he
    rw [hb] at hcb
    have := canonV_unique S.wf _ hcb hcw
    subst this
    exact ⟨ca, hca, by rw [bne_eq_xor']; exact hr.trans (S.symm hl)⟩

theorem supSeqs_index_unique (wf : SpecWF spec) {k k' : Nat} {ob : SeqObj} (h : (k, ob) ∈ enum spec.supSeqs)
    (h' : (k', ob) ∈ enum spec.supSeqs) : k = k' := by
  have e1 := enum_getElem? h
  have e2 := enum_getElem? h'
  simp only at e1 e2
  have hnd : spec.supSeqs.Nodup := by
    unfold Spec.supSeqs
    exact List.Nodup.sublist List.filter_sublist (nodup_of_map _ wf.seqNames)
  exact nodup_getElem_inj hnd e1 e2

/-- **Connection, any key**: every node of the seeded graph is connected to the canonical node of its nucleotide -/
theorem conn_key (S : Seeded tbl mode spec s c) {y : Nat} (hy : y ∈ c.keys) {n : Nuc}
    (hn : denOf mode spec y = some n) :
    ∃ cn, Canon spec (encOf spec (layOf mode spec)) n cn ∧ GR c y n.comp cn := by
  have wf := S.wf
  have SS := seedSound wf S.ok S.hs S.hb
  rw [SS.keys] at hy
  rcases List.mem_append.1 hy with hy | hy
  · obtain ⟨⟨p, m⟩, hpm, rfl⟩ := List.mem_map.1 hy
    have := den_pos SS.D hpm
    simp only at hn
    unfold denOf at hn
    rw [this] at hn
    cases hn
    exact conn_pos S hpm
  · obtain ⟨p, hp, rfl⟩ := List.mem_map.1 hy
    obtain ⟨num, o, x, hpx, ho, hmem, hx, _⟩ := seqInits_mem wf _ hp
    have hden : denOf mode spec p.1 = (viewNucs o (revOfNum num))[x]? := by
      unfold denOf
      rw [hpx]; exact den_sq wf SS.D ho hx hmem
    rw [hden] at hn
    obtain ⟨j, hj, hje⟩ := List.getElem_of_mem hmem
    have hjo : spec.seqs[j]? = some o := by rw [List.getElem?_eq_getElem hj, hje]
    obtain ⟨num', cn, hnum', hcan, hreach⟩ := conn_seq S j o hjo (revOfNum num) x n hn
    -- the number `conn_seq` speaks of is `num`
    obtain ⟨n0, hall, hcls⟩ := numOf_obj wf hmem
    rw [hall (revOfNum num)] at hnum'
    have hnumEq : n0 + (if revOfNum num = true then 1 else 0) = num := by
      unfold objOfNum at ho
      unfold revOfNum
      by_cases hb : num / 2 < spec.baseSeqs.length
      · simp only [hb, if_true] at ho
        have hk1 := mem_enum_of_getElem? ho
        rcases hcls with ⟨_, k, hk, rfl⟩ | ⟨hsup, _⟩
        · obtain ⟨rfl, _⟩ := baseSeqs_index_unique wf hk hk1 rfl
          by_cases hm2 : num % 2 = 1 <;> simp [hm2] <;> omega
        · have := (mem_baseSeqs (List.mem_of_getElem? ho)).2
          rw [hsup] at this; cases this
      · simp only [hb, if_false] at ho
        have hk1 := mem_enum_of_getElem? ho
        rcases hcls with ⟨hsup, _⟩ | ⟨_, k, hk, rfl⟩
        · have := (mem_supSeqs (List.mem_of_getElem? ho)).2
          rw [hsup] at this; cases this
        · have := supSeqs_index_unique wf hk hk1
          subst this
          by_cases hm2 : num % 2 = 1 <;> simp [hm2] <;> omega
    rw [hnumEq] at hnum'
    cases hnum'
    exact ⟨cn, hcan, by rw [hpx]; exact hreach⟩

/-- **Completeness of the seeding**: nucleotides the design forces equal / complementary sit on nodes that are
    connected with that parity in the seeded graph -/
theorem graph_complete (S : Seeded tbl mode spec s c) {x y : Nat} (hx : x ∈ c.keys) (hy : y ∈ c.keys)
    {m n : Nuc} (hm : denOf mode spec x = some m) (hn : denOf mode spec y = some n) {p : Bool}
    (h : NucReach (Pil.denote spec) m p n) : GR c x p y := by
  obtain ⟨cm, hcm, grm⟩ := conn_key S hx hm
  obtain ⟨cn, hcn, grn⟩ := conn_key S hy hn
  obtain ⟨cw, hcw, gr⟩ := parityReach_graph S h hcm
  have := canonV_unique S.wf _ hcw hcn
  subst this
  have := (grm.trans gr).trans (S.symm grn)
  have e : ((m.comp ^^ ((p != m.comp) != n.comp)) ^^ n.comp) = p := by
    cases p <;> cases m.comp <;> cases n.comp <;> rfl
  rw [e] at this
  exact this

/-! ## from the seeded graph back to the design -/

/-- the canonical node of a declared domain position is a key and carries the position's template letter -/
theorem canon_template (S : Seeded tbl mode spec s c) {v : Var} {cv : Nat}
    (h : CanonV spec (encOf spec (layOf mode spec)) v cv) :
    cv ∈ c.keys ∧ ∀ b, hasB (stMask tbl c.st cv) b → okVar tbl (Pil.denote spec) v b := by
  have wf := S.wf
  obtain ⟨k, ob, hk, hname, hidx, rfl⟩ := h
  have hmem := mem_baseSeqs (mem_enum hk).1
  simp only at hmem
  have hb := wf.base ob hmem.1 hmem.2
  have hidx' : v.idx < ob.template.length := by rw [hb.1]; exact hidx
  obtain ⟨li, ce, be, ee, se, te, h1, _, _, _, _, _, hseq⟩ := seeds_ok S.hs
  obtain ⟨_, hkeys, _, hst, _, _⟩ := build_spec (tbl := tbl) S.hb (seeds_codes S.ok S.hs)
  have hin : ((encOf spec (layOf mode spec)).sq (2 * k) v.idx, ob.template[v.idx]) ∈ s.inits := by
    rw [hseq]
    apply List.mem_append_right
    unfold seqInits
    apply List.mem_append_left
    refine List.mem_flatMap.2 ⟨(k, ob), hk, ?_⟩
    apply List.mem_append_left
    refine List.mem_map.2 ⟨(v.idx, ob.template[v.idx]), ?_, rfl⟩
    exact mem_enum_of_getElem? (List.getElem?_eq_getElem hidx')
  refine ⟨by rw [hkeys]; exact List.mem_map.2 ⟨_, hin, rfl⟩, ?_⟩
  intro b hbit dom hdom hdn ch hch
  have hstv : stMask tbl c.st ((encOf spec (layOf mode spec)).sq (2 * k) v.idx) = tbl.maskC ob.template[v.idx] := by
    simp [stMask, hst _ hin]
  rw [hstv] at hbit
  simp only [Pil.denote, List.mem_map, List.mem_filter] at hdom
  obtain ⟨o', ⟨ho', _⟩, rfl⟩ := hdom
  have : o' = ob := seq_unique wf (mem_baseSeqs ho').1 hmem.1 (by simp only at hdn; rw [hdn, hname])
  subst this
  simp only at hch
  rw [List.getElem?_eq_getElem hidx'] at hch
  cases hch
  exact hbit

/-- a domain position without canonical node is touched by no link and constrained by no template -/
theorem undeclared_isolated (S : Seeded tbl mode spec s c) {v : Var}
    (hv : ¬ ∃ cv, CanonV spec (encOf spec (layOf mode spec)) v cv) :
    (∀ p w, ParityReach (Pil.denote spec) v p w → w = v ∧ p = false) ∧ ∀ b, okVar tbl (Pil.denote spec) v b := by
  have wf := S.wf
  constructor
  · intro p w h
    induction h with
    | refl => exact ⟨rfl, rfl⟩
    | @fwd w' q e _ he ha ih =>
      obtain ⟨rfl, _⟩ := ih
      obtain ⟨ca, _, hca, _, _⟩ := link_realised S he
      exact absurd ⟨ca, ha ▸ hca⟩ hv
    | @bwd w' q e _ he hb ih =>
      obtain ⟨rfl, _⟩ := ih
      obtain ⟨_, cb, _, hcb, _⟩ := link_realised S he
      exact absurd ⟨cb, hb ▸ hcb⟩ hv
  · intro b dom hdom hdn ch hch
    exfalso
    simp only [Pil.denote, List.mem_map, List.mem_filter] at hdom
    obtain ⟨o', ⟨ho', _⟩, rfl⟩ := hdom
    obtain ⟨j, hj, hje⟩ := List.getElem_of_mem ho'
    have hk : (j, o') ∈ enum spec.baseSeqs := mem_enum_of_getElem? (by rw [List.getElem?_eq_getElem hj, hje])
    have hb := wf.base o' (mem_baseSeqs ho').1 (mem_baseSeqs ho').2
    simp only at hch hdn
    have hidx : v.idx < o'.len := by rw [← hb.1]; exact getElem?_lt hch
    exact hv ⟨_, j, o', hk, hdn, hidx, rfl⟩

/-- **Completeness for satisfiability**: if the seeded graph is not over-constrained, the design is satisfiable -/
theorem satisfiable_of_graphSat (S : Seeded tbl mode spec s c) (hsat : GraphSat tbl c) :
    Satisfiable tbl (Pil.denote spec) := by
  rw [satisfiable_iff]
  constructor
  · intro v hself
    cases Classical.em (∃ cv, CanonV spec (encOf spec (layOf mode spec)) v cv) with
    | inl hc =>
      obtain ⟨cv, hcv⟩ := hc
      obtain ⟨cw, hcw, gr⟩ := parityReach_graph S hself hcv
      have := canonV_unique S.wf _ hcw hcv
      subst this
      exact (hsat cw (canon_template S hcv).1).1 gr
    | inr hc =>
      have := ((undeclared_isolated S hc).1 _ _ hself).2
      cases this
  · intro v
    cases Classical.em (∃ cv, CanonV spec (encOf spec (layOf mode spec)) v cv) with
    | inl hc =>
      obtain ⟨cv, hcv⟩ := hc
      obtain ⟨_, b, hb⟩ := hsat cv (canon_template S hcv).1
      refine ⟨b, fun w p hr => ?_⟩
      obtain ⟨cw, hcw, gr⟩ := parityReach_graph S hr hcv
      exact (canon_template S hcw).2 _ (hb cw p gr)
    | inr hc =>
      refine ⟨.A, fun w p hr => ?_⟩
      obtain ⟨rfl, rfl⟩ := (undeclared_isolated S hc).1 _ _ hr
      exact (undeclared_isolated S hc).2 _

/-! ## exactness in terms of the design -/

/-- **The seeded graph and the semantic link graph agree** on every pair of nodes -/
theorem reach_iff (S : Seeded tbl mode spec s c) {x y : Nat} (hx : x ∈ c.keys) (hy : y ∈ c.keys)
    {m n : Nuc} (hm : denOf mode spec x = some m) (hn : denOf mode spec y = some n) (p : Bool) :
    GR c x p y ↔ NucReach (Pil.denote spec) m p n := by
  constructor
  · intro h
    obtain ⟨n', hn', hr⟩ := reach_sound_of S.wf S.ok S.hs S.hb h hm
    rw [hn] at hn'; cases hn'
    exact hr
  · exact graph_complete S hx hy hm hn

/-- an index of the arrays is non-blank iff it is a key (position) of the seeded graph -/
theorem nonblank_iff_key {P : Nat} {a : Arrays} (G : GraphExact tbl c P a) {i : Nat} (hi : i < a.1.length) :
    (∃ ch, a.2.2[i]? = some (some ch)) ↔ i ∈ c.keys := by
  constructor
  · rintro ⟨ch, hch⟩
    cases Classical.em (i ∈ c.keys) with
    | inl h => exact h
    | inr h => rw [(G.blank i hi h).2.2] at hch; cases hch
  · intro hk
    obtain ⟨_, _, ch, hch, _⟩ := G.key i hi hk
    exact ⟨ch, hch⟩

/-- `IsMin` over the classes of the seeded graph, read in the design: the lowest non-blank index whose nucleotide
    the design forces equal (`p = false`) / complementary (`p = true`) to the one at `i` -/
def SemMin (mode : Layout) (spec : Spec) (a : Arrays) (m : Nuc) (p : Bool) (o : Option Nat) : Prop :=
  match o with
  | some r => (∃ ch n, a.2.2[r]? = some (some ch) ∧ denOf mode spec r = some n ∧ NucReach (Pil.denote spec) m p n) ∧
      ∀ j ch n, a.2.2[j]? = some (some ch) → denOf mode spec j = some n → NucReach (Pil.denote spec) m p n → r ≤ j
  | none => ∀ j ch n, a.2.2[j]? = some (some ch) → denOf mode spec j = some n → ¬ NucReach (Pil.denote spec) m p n

theorem semMin_of_isMin (S : Seeded tbl mode spec s c) (hN : tbl.maskC 'N' = 15) {a : Arrays}
    (G : GraphExact tbl c s.P a) {i : Nat} (hk : i ∈ c.keys) {m : Nuc}
    (hm : denOf mode spec i = some m) {p : Bool} {o : Option Nat} (h : IsMin s.P (GR c i p) o) :
    SemMin mode spec a m p o := by
  have wfc := (build_spec (tbl := tbl) S.hb (seeds_codes S.ok S.hs)).1
  have keyOf : ∀ y, GR c i p y → y ∈ c.keys := by
    intro y hy
    have := hy.mem_keys wfc.pre.keyClosed (by rw [keys_adjOf]; exact hk)
    rwa [keys_adjOf] at this
  cases o with
  | some r =>
    obtain ⟨h1, h2, h3⟩ := h
    have hrk := keyOf r h1
    have hrn : r < a.1.length := G.bound r hrk h2
    obtain ⟨ch, hch⟩ := (nonblank_iff_key G hrn).2 hrk
    obtain ⟨n, hn, _⟩ := key_den_of S.wf S.ok hN S.hs S.hb hrk
    refine ⟨⟨ch, n, hch, hn, (reach_iff S hk hrk hm hn p).1 h1⟩, ?_⟩
    intro j chj nj hj hnj hr
    have hjn : j < a.1.length := by rw [← G.len_st]; exact getElem?_lt hj
    have hjk := (nonblank_iff_key G hjn).1 ⟨chj, hj⟩
    exact h3 j ((reach_iff S hk hjk hm hnj p).2 hr) (Nat.lt_of_lt_of_le hjn G.le_P)
  | none =>
    intro j chj nj hj hnj hr
    have hjn : j < a.1.length := by rw [← G.len_st]; exact getElem?_lt hj
    have hjk := (nonblank_iff_key G hjn).1 ⟨chj, hj⟩
    exact h j ((reach_iff S hk hjk hm hnj p).2 hr) (Nat.lt_of_lt_of_le hjn G.le_P)

/-- **Exactness of the arrays in terms of the design** (both layouts), for a non-blank index `i` -/
theorem arrays_exact_aux (S : Seeded tbl mode spec s c) (hN : tbl.maskC 'N' = 15) {a : Arrays}
    (G : GraphExact tbl c s.P a) {i : Nat} {ch : Char} (hi : a.2.2[i]? = some (some ch)) :
    ∃ m v w, denOf mode spec i = some m ∧ a.1[i]? = some v ∧ a.2.1[i]? = some w ∧
      SemMin mode spec a m false v ∧ SemMin mode spec a m true w ∧
      (∀ b, hasB (tbl.maskC ch) b ↔
        ∀ u q, ParityReach (Pil.denote spec) m.var q u →
          okVar tbl (Pil.denote spec) u (flipB (flipB b m.comp) q)) := by
  have hlt : i < a.1.length := by rw [← G.len_st]; exact getElem?_lt hi
  have hk := (nonblank_iff_key G hlt).1 ⟨ch, hi⟩
  obtain ⟨m, hm, _⟩ := key_den_of S.wf S.ok hN S.hs S.hb hk
  obtain ⟨⟨v, hv, hvmin⟩, ⟨w, hw, hwmin⟩, ch', hch', _, hbits⟩ := G.key i hlt hk
  rw [hi] at hch'; cases hch'
  refine ⟨m, v, w, hm, hv, hw, semMin_of_isMin S hN G hk hm hvmin, semMin_of_isMin S hN G hk hm hwmin, ?_⟩
  intro b
  constructor
  · intro hb u q hr
    obtain ⟨cm, hcm, grm⟩ := conn_key S hk hm
    obtain ⟨cu, hcu, gr⟩ := parityReach_graph S hr hcm
    have := (hbits b).1 hb cu _ (grm.trans gr)
    have := (canon_template S hcu).2 _ this
    rwa [← flipB_flipB] at this
  · intro hsem
    obtain ⟨_, _, _, _, h3⟩ := arrays_sound_aux S.wf S.ok hN S.hs S.hb G hlt hk
    obtain ⟨m', hm', _, _, h3⟩ := arrays_sound_aux S.wf S.ok hN S.hs S.hb G hlt hk
    rw [hm] at hm'; cases hm'
    exact h3 ch hi b hsem

theorem semMin_unique {a : Arrays} {m : Nuc} {p : Bool} {o o' : Option Nat}
    (h : SemMin mode spec a m p o) (h' : SemMin mode spec a m p o') : o = o' := by
  cases o <;> cases o'
  · rfl
  · obtain ⟨⟨ch, n, h1, h2, h3⟩, _⟩ := h'
    exact absurd h3 (h _ ch n h1 h2)
  · obtain ⟨⟨ch, n, h1, h2, h3⟩, _⟩ := h
    exact absurd h3 (h' _ ch n h1 h2)
  · rename_i r r'
    obtain ⟨⟨ch, n, h1, h2, h3⟩, hmin⟩ := h
    obtain ⟨⟨ch', n', h1', h2', h3'⟩, hmin'⟩ := h'
    have := hmin _ ch' n' h1' h2' h3'
    have := hmin' _ ch n h1 h2 h3
    simp only [Option.some.injEq]; omega

theorem semMin_congr {a : Arrays} {m m' : Nuc} {p : Bool} {o : Option Nat}
    (hmm : NucReach (Pil.denote spec) m' false m) (h : SemMin mode spec a m p o) : SemMin mode spec a m' p o := by
  have fwd : ∀ n, NucReach (Pil.denote spec) m p n → NucReach (Pil.denote spec) m' p n := by
    intro n hn; have := NucReach.trans hmm hn; simpa using this
  have bwd : ∀ n, NucReach (Pil.denote spec) m' p n → NucReach (Pil.denote spec) m p n := by
    intro n hn; have := NucReach.trans (NucReach.symm hmm) hn; simpa using this
  cases o with
  | some r =>
    obtain ⟨⟨ch, n, h1, h2, h3⟩, hmin⟩ := h
    exact ⟨⟨ch, n, h1, h2, fwd n h3⟩, fun j chj nj hj hnj hr => hmin j chj nj hj hnj (bwd nj hr)⟩
  | none =>
    exact fun j chj nj hj hnj hr => h j chj nj hj hnj (bwd nj hr)

/-- two non-blank indices carry the same equality representative exactly when the design forces their
    nucleotides equal -/
theorem eq_iff_forced_equal (S : Seeded tbl mode spec s c) (hN : tbl.maskC 'N' = 15) {a : Arrays}
    (G : GraphExact tbl c s.P a) {i j : Nat} {ci cj : Char} (hi : a.2.2[i]? = some (some ci))
    (hj : a.2.2[j]? = some (some cj)) {m n : Nuc} (hm : denOf mode spec i = some m) (hn : denOf mode spec j = some n) :
    a.1[i]? = a.1[j]? ↔ NucReach (Pil.denote spec) m false n := by
  obtain ⟨m', vi, _, hm', hvi, _, hsi, _, _⟩ := arrays_exact_aux S hN G hi
  obtain ⟨n', vj, _, hn', hvj, _, hsj, _, _⟩ := arrays_exact_aux S hN G hj
  rw [hm] at hm'; cases hm'
  rw [hn] at hn'; cases hn'
  rw [hvi, hvj]
  constructor
  · intro e
    simp only [Option.some.injEq] at e
    subst e
    cases vi with
    | none => exact absurd (NucReach.refl _ m) (hsi i ci m hi hm)
    | some r =>
      obtain ⟨⟨_, nr, _, hnr, h3⟩, _⟩ := hsi
      obtain ⟨⟨_, nr', _, hnr', h3'⟩, _⟩ := hsj
      rw [hnr] at hnr'; cases hnr'
      have := NucReach.trans h3 (NucReach.symm h3')
      simpa using this
  · intro hr
    have := semMin_unique hsi (semMin_congr hr hsj)
    rw [this]

end Graph

end Pepper.ConstraintGen
