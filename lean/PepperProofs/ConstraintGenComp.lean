import PepperProofs.ConstraintGenSimT
import PepperProofs.ConstraintGenLoad
/-!
# Completeness of the seeding

Every node of the seeded graph is connected to the *canonical node* of the domain position it stands for (the
forward view of the base sequence), with the parity of its `comp` flag; every link of the semantic link graph is
realised between canonical nodes.  Hence `NucReach` between the nucleotides of two nodes implies parity
reachability between the nodes.
-/
namespace Pepper.ConstraintGen
open Pepper Pepper.Pil Pepper.Closure Pepper.LinkSpec

/-! ## loops: what a successful run contains -/

theorem flatME_mem_of {α β : Type} {f : α → Except Err (List β)} {l : List α} {bs : List β}
    (h : flatME f l = .ok bs) {a : α} (ha : a ∈ l) : ∃ cs, f a = .ok cs ∧ ∀ b ∈ cs, b ∈ bs := by
  obtain ⟨ls, hm, rfl⟩ := flatME_ok h
  obtain ⟨cs, hcs, hf⟩ := mapME_mem_left hm ha
  exact ⟨cs, hf, fun b hb => List.mem_flatten.2 ⟨cs, hcs, hb⟩⟩

theorem mapME_mem_of {α β : Type} {f : α → Except Err β} {l : List α} {bs : List β}
    (h : mapME f l = .ok bs) {a : α} (ha : a ∈ l) : ∃ b, f a = .ok b ∧ b ∈ bs := by
  obtain ⟨b, hb, hf⟩ := mapME_mem_left h ha
  exact ⟨b, hf, hb⟩

theorem withOffsets_cover {α : Type} (len : α → Nat) (l : List α) {y : Nat} (hy : y < (l.map len).sum) :
    ∃ off a, (off, a) ∈ withOffsets len l 0 ∧ off ≤ y ∧ y < off + len a := by
  induction l generalizing y with
  | nil => simp at hy
  | cons b l ih =>
    simp only [List.map_cons, List.sum_cons] at hy
    by_cases h : y < len b
    · exact ⟨0, b, by simp [withOffsets], Nat.zero_le _, by omega⟩
    · obtain ⟨off, a, hm, h1, h2⟩ := ih (y := y - len b) (by omega)
      refine ⟨off + len b, a, ?_, by omega, by omega⟩
      simp only [withOffsets, List.mem_cons, Nat.zero_add]
      right
      rw [withOffsets_shift]
      exact List.mem_map.2 ⟨(off, a), hm, rfl⟩

/-! ## links that are certainly seeded -/

section Edges
variable {spec : Spec}

theorem numOf_isSome (wf : SpecWF spec) {it : ItemRef} (h : (spec.findSeq it.name).isSome = true) :
    ∃ num, numOf spec it = some num := by
  obtain ⟨o, ho⟩ := Option.isSome_iff_exists.1 h
  obtain ⟨hmem, hname⟩ := findSeq_mem ho
  unfold numOf
  cases hb : spec.baseSeqs.findIdx? (·.name == it.name) with
  | some k => exact ⟨_, rfl⟩
  | none =>
    cases hs : spec.supSeqs.findIdx? (·.name == it.name) with
    | some k => exact ⟨_, rfl⟩
    | none =>
      exfalso
      have h1 := List.findIdx?_eq_none_iff.1 hb
      have h2 := List.findIdx?_eq_none_iff.1 hs
      cases hsup : o.isSup with
      | false =>
        have : o ∈ spec.baseSeqs := by unfold Spec.baseSeqs; rw [List.mem_filter]; exact ⟨hmem, by simp [hsup]⟩
        have := h1 o this
        simp [hname] at this
      | true =>
        have : o ∈ spec.supSeqs := by unfold Spec.supSeqs; rw [List.mem_filter]; exact ⟨hmem, hsup⟩
        have := h2 o this
        simp [hname] at this

/-- every item position of a super-sequence is linked to the item's node -/
theorem supEdges_has {e : Enc} {se : List (Nat × Nat)} (h : supEdges spec e = .ok se)
    {k : Nat} {o : SeqObj} (hko : (k, o) ∈ enum spec.supSeqs) {off : Nat} {it : ItemRef}
    (hoff : (off, it) ∈ withOffsets (lenOf spec) o.items 0) {x : Nat} (hx : x < lenOf spec it) :
    ∃ num, numOf spec it = some num ∧
      (e.sq (2 * spec.baseSeqs.length + 2 * k) (off + x), e.sq num x) ∈ se := by
  unfold supEdges at h
  obtain ⟨cs, hcs, hin⟩ := flatME_mem_of h hko
  obtain ⟨cs', hcs', hin'⟩ := flatME_mem_of hcs hoff
  obtain ⟨b, hb, hbin⟩ := mapME_mem_of hcs' (List.mem_range.2 hx)
  simp only at hb
  cases hq : sqOf spec e it x with
  | error er => simp [hq] at hb
  | ok q =>
    simp only [hq, Except.ok.injEq] at hb
    obtain ⟨num, hn, rfl⟩ := sqOf_ok hq
    subst hb
    exact ⟨num, hn, hin _ (hin' _ hbin)⟩

/-- every item position of a strand is linked to the item's node -/
theorem strandEdges_has {lay : Lay} {e : Enc} {te : List (Nat × Nat)} (h : strandEdges spec lay e = .ok te)
    {k : Nat} {o : StrandObj} (hko : (k, o) ∈ enum spec.strands) {off : Nat} {it : ItemRef}
    (hoff : (off, it) ∈ withOffsets (lenOf spec) o.items 0) {x : Nat} (hx : x < lenOf spec it) :
    ∃ a num, getIndexStrand lay k o.len (off + x) = .ok a ∧ numOf spec it = some num ∧ (a, e.sq num x) ∈ te := by
  unfold strandEdges at h
  obtain ⟨cs, hcs, hin⟩ := flatME_mem_of h hko
  obtain ⟨cs', hcs', hin'⟩ := flatME_mem_of hcs hoff
  obtain ⟨b, hb, hbin⟩ := mapME_mem_of hcs' (List.mem_range.2 hx)
  simp only at hb
  cases ha : getIndexStrand lay k o.len (off + x) with
  | error er => simp [ha] at hb
  | ok a =>
    cases hq : sqOf spec e it x with
    | error er => simp [ha, hq] at hb
    | ok q =>
      simp only [ha, hq, Except.ok.injEq] at hb
      obtain ⟨num, hn, rfl⟩ := sqOf_ok hq
      subst hb
      exact ⟨a, num, rfl, hn, hin _ (hin' _ hbin)⟩

/-- every later member of an `equal` line is linked to the first, position by position -/
theorem equalEdges_has {e : Enc} {ee : List (Nat × Nat)} (h : equalEdges spec e = .ok ee)
    {first : ItemRef} {rest : List ItemRef} (hits : first :: rest ∈ spec.equals) {it : ItemRef} (hit : it ∈ rest)
    {x : Nat} (hx : x < lenOf spec it) :
    lenOf spec it = lenOf spec first ∧ ∃ na nb, numOf spec first = some na ∧ numOf spec it = some nb ∧
      (e.sq na x, e.sq nb x) ∈ ee := by
  unfold equalEdges at h
  obtain ⟨cs, hcs, hin⟩ := flatME_mem_of h hits
  simp only at hcs
  obtain ⟨cs', hcs', hin'⟩ := flatME_mem_of hcs hit
  by_cases hlen : (lenOf spec it != lenOf spec first) = true
  · simp [hlen] at hcs'
  · simp only [hlen, Bool.false_eq_true, if_false] at hcs'
    obtain ⟨b, hb, hbin⟩ := mapME_mem_of hcs' (List.mem_range.2 hx)
    cases ha : sqOf spec e first x with
    | error er => simp [ha] at hb
    | ok a =>
      cases hq : sqOf spec e it x with
      | error er => simp [ha, hq] at hb
      | ok q =>
        simp only [ha, hq, Except.ok.injEq] at hb
        obtain ⟨na, hna, rfl⟩ := sqOf_ok ha
        obtain ⟨nb, hnb, rfl⟩ := sqOf_ok hq
        subst hb
        exact ⟨by simpa using hlen, na, nb, hna, hnb, hin _ (hin' _ hbin)⟩

/-- every bond of every structure is linked -/
theorem bondEdges_has {mode : Layout} {lay : Lay} {be : List (Nat × Nat)} (h : bondEdges mode spec lay = .ok be)
    {j : Nat} {so : StructObj} (hjso : (j, so) ∈ enum spec.structs) {x y : Nat} (hxy : (x, y) ∈ so.bonds) :
    ∃ a b, getIndex mode spec lay j so x = .ok a ∧ getIndex mode spec lay j so y = .ok b ∧ (a, b) ∈ be := by
  unfold bondEdges at h
  obtain ⟨cs, hcs, hin⟩ := flatME_mem_of h hjso
  obtain ⟨b, hb, hbin⟩ := mapME_mem_of hcs hxy
  simp only at hb
  cases ha : getIndex mode spec lay j so x with
  | error er => simp [ha] at hb
  | ok a =>
    cases hq : getIndex mode spec lay j so y with
    | error er => simp [ha, hq] at hb
    | ok q =>
      simp only [ha, hq, Except.ok.injEq] at hb
      subst hb
      exact ⟨a, q, rfl, rfl, hin _ hbin⟩

/-- structure layout: every occurrence of a strand is linked to the strand's own positions -/
theorem copyEdges_has {lay : Lay} {ce : List (Nat × Nat)} (h : copyEdges .struct spec lay = .ok ce)
    {j : Nat} {so : StructObj} (hjso : (j, so) ∈ enum spec.structs) {off k : Nat} {o : StrandObj}
    (hoff : (off, (k, o)) ∈ withOffsets (fun (q : Nat × StrandObj) => q.2.len) (structStrands spec so) 0)
    {x : Nat} (hx : x < o.len) :
    ∃ a b, getIndexStrand lay k o.len x = .ok a ∧ getIndex .struct spec lay j so (off + x) = .ok b ∧ (a, b) ∈ ce := by
  unfold copyEdges at h
  simp only at h
  obtain ⟨cs, hcs, hin⟩ := flatME_mem_of h hjso
  obtain ⟨cs', hcs', hin'⟩ := flatME_mem_of hcs hoff
  obtain ⟨b, hb, hbin⟩ := mapME_mem_of hcs' (List.mem_range.2 hx)
  simp only at hb
  cases ha : getIndexStrand lay k o.len x with
  | error er => simp [ha] at hb
  | ok a =>
    cases hq : getIndex .struct spec lay j so (off + x) with
    | error er => simp [ha, hq] at hb
    | ok q =>
      simp only [ha, hq, Except.ok.injEq] at hb
      subst hb
      exact ⟨a, q, rfl, rfl, hin _ (hin' _ hbin)⟩

/-- the complement view of every sequence is linked to the forward view -/
theorem viewEdges_has (e : Enc) {n0 : Nat} {o : SeqObj}
    (h : (∃ k, (k, o) ∈ enum spec.baseSeqs ∧ n0 = 2 * k) ∨
         (∃ k, (k, o) ∈ enum spec.supSeqs ∧ n0 = 2 * spec.baseSeqs.length + 2 * k)) {x : Nat} (hx : x < o.len) :
    (e.sq (n0 + 1) x, e.sq n0 (o.len - x - 1)) ∈ viewEdges spec e := by
  unfold viewEdges
  rcases h with ⟨k, hk, rfl⟩ | ⟨k, hk, rfl⟩
  · apply List.mem_append_left
    exact List.mem_flatMap.2 ⟨(k, o), hk, List.mem_map.2 ⟨x, List.mem_range.2 hx, rfl⟩⟩
  · apply List.mem_append_right
    exact List.mem_flatMap.2 ⟨(k, o), hk, List.mem_map.2 ⟨x, List.mem_range.2 hx, rfl⟩⟩

end Edges

/-! ## the seeded graph as a relation -/

/-- a successfully seeded document -/
structure Seeded (tbl : CodeTable) (mode : Layout) (spec : Spec) (s : Seeds) (c : Cons) : Prop where
  wf : SpecWF spec
  ok : SpecCodes tbl spec
  hs : seeds mode spec = .ok s
  hb : build s = .ok c

/-- parity reachability in the seeded graph -/
abbrev GR (c : Cons) (x : Nat) (p : Bool) (y : Nat) : Prop := Reach (adjOf c.keys c.eq) (adjOf c.keys c.wc) x p y

section Graph
variable {tbl : CodeTable} {mode : Layout} {spec : Spec} {s : Seeds} {c : Cons}

theorem Seeded.pre (S : Seeded tbl mode spec s c) : Pre (adjOf c.keys c.eq) (adjOf c.keys c.wc) :=
  (build_spec (tbl := tbl) S.hb (seeds_codes S.ok S.hs)).1.pre

theorem Seeded.eqEdge (S : Seeded tbl mode spec s c) {x y : Nat} (h : (x, y) ∈ s.eqE) : GR c x false y := by
  obtain ⟨_, _, _, _, nbE, _⟩ := build_spec (tbl := tbl) S.hb (seeds_codes S.ok S.hs)
  exact Reach.eqStep Reach.refl ((nbE x y).2 (Or.inl h))

theorem Seeded.wcEdge (S : Seeded tbl mode spec s c) {x y : Nat} (h : (x, y) ∈ s.wcE) : GR c x true y := by
  obtain ⟨_, _, _, _, _, nbW⟩ := build_spec (tbl := tbl) S.hb (seeds_codes S.ok S.hs)
  have := Reach.wcStep (Reach.refl (eq := adjOf c.keys c.eq) (wc := adjOf c.keys c.wc) (x := x)) ((nbW x y).2 (Or.inl h))
  simpa using this

theorem Seeded.symm (S : Seeded tbl mode spec s c) {x y : Nat} {p : Bool} (h : GR c x p y) : GR c y p x :=
  Reach.symm S.pre.eqSymm S.pre.wcSymm h

/-! ## numbering of the views of an object -/

theorem seq_unique (wf : SpecWF spec) {o o' : SeqObj} (h : o ∈ spec.seqs) (h' : o' ∈ spec.seqs)
    (hn : o.name = o'.name) : o = o' := by
  have h1 := wf.seqFind o h
  have h2 := wf.seqFind o' h'
  rw [hn, h2] at h1
  exact (Option.some.inj h1).symm

/-- the number of the forward view of a defined object, and the place of the object in its list -/
theorem numOf_obj (wf : SpecWF spec) {o : SeqObj} (ho : o ∈ spec.seqs) :
    ∃ n0, (∀ rev : Bool, numOf spec ⟨o.name, rev⟩ = some (n0 + (if rev then 1 else 0))) ∧
      ((o.isSup = false ∧ ∃ k, (k, o) ∈ enum spec.baseSeqs ∧ n0 = 2 * k) ∨
       (o.isSup = true ∧ ∃ k, (k, o) ∈ enum spec.supSeqs ∧ n0 = 2 * spec.baseSeqs.length + 2 * k)) := by
  cases hb : spec.baseSeqs.findIdx? (·.name == o.name) with
  | some k =>
    obtain ⟨o', hk, hp⟩ := findIdx?_spec hb
    have hm := mem_baseSeqs (List.mem_of_getElem? hk)
    have : o' = o := seq_unique wf hm.1 ho (by simpa using hp)
    subst this
    refine ⟨2 * k, fun rev => ?_, Or.inl ⟨hm.2, k, mem_enum_of_getElem? hk, rfl⟩⟩
    unfold numOf; simp only [hb]
  | none =>
    have hnb : o.isSup = true := by
      cases hs : o.isSup with
      | true => rfl
      | false =>
        have : o ∈ spec.baseSeqs := by unfold Spec.baseSeqs; rw [List.mem_filter]; exact ⟨ho, by simp [hs]⟩
        have := List.findIdx?_eq_none_iff.1 hb o this
        simp at this
    have hin : o ∈ spec.supSeqs := by unfold Spec.supSeqs; rw [List.mem_filter]; exact ⟨ho, hnb⟩
    cases hs : spec.supSeqs.findIdx? (·.name == o.name) with
    | none =>
      have := List.findIdx?_eq_none_iff.1 hs o hin
      simp at this
    | some k =>
      obtain ⟨o', hk, hp⟩ := findIdx?_spec hs
      have hm := mem_supSeqs (List.mem_of_getElem? hk)
      have : o' = o := seq_unique wf hm.1 ho (by simpa using hp)
      subst this
      refine ⟨2 * spec.baseSeqs.length + 2 * k, fun rev => ?_, Or.inr ⟨hnb, k, mem_enum_of_getElem? hk, rfl⟩⟩
      unfold numOf; simp only [hb, hs]

theorem sum_lenOf_items (wf : SpecWF spec) {items : List ItemRef} {bases : List BaseRef} (ok : ItemsOK spec items bases) :
    (items.map (lenOf spec)).sum = (nucsOfBases bases).length := by
  rw [ok.nucs, flatMap_length_sum]
  congr 1
  apply List.map_congr_left
  intro a _
  exact (nucsOfItem_length wf a).symm

/-! ## every node is connected to its canonical node -/

/-- `cn` is the canonical node (forward view of the base sequence) of the domain position of `n` -/
def Canon (spec : Spec) (e : Enc) (n : Nuc) (cn : Nat) : Prop :=
  ∃ k ob, (k, ob) ∈ enum spec.baseSeqs ∧ ob.name = n.var.dom ∧ n.var.idx < ob.len ∧ cn = e.sq (2 * k) n.var.idx

theorem getElem?_lt {α : Type} {l : List α} {i : Nat} {a : α} (h : l[i]? = some a) : i < l.length :=
  (List.getElem?_eq_some_iff.1 h).1

/-- **Connection, sequence nodes**: the node `(num, x)` of any view of any defined object is connected to the
    canonical node of its nucleotide, with the parity of the nucleotide's `comp` flag.  By induction on the
    order of definition (items of a super-sequence are defined earlier). -/
theorem conn_seq (S : Seeded tbl mode spec s c) :
    ∀ (i : Nat) (o : SeqObj), spec.seqs[i]? = some o → ∀ (rev : Bool) (x : Nat) (n : Nuc),
      (viewNucs o rev)[x]? = some n →
      ∃ num cn, numOf spec ⟨o.name, rev⟩ = some num ∧ Canon spec (encOf spec (layOf mode spec)) n cn ∧
        GR c ((encOf spec (layOf mode spec)).sq num x) n.comp cn := by
  have wf := S.wf
  obtain ⟨li, ce, be, ee, se, te, h1, h2, h3, h4, h5, h6, hseq⟩ := seeds_ok S.hs
  have hse : ∀ e ∈ se, e ∈ s.eqE := by
    intro e he; rw [hseq]; simp only [List.mem_append]; exact Or.inl (Or.inr he)
  have hve : ∀ e ∈ viewEdges spec (encOf spec (layOf mode spec)), e ∈ s.wcE := by
    intro e he; rw [hseq]; simp only [List.mem_append]; exact Or.inr he
  intro i
  induction i using Nat.strongRecOn with
  | _ i ih =>
    intro o hio
    have ho : o ∈ spec.seqs := List.mem_of_getElem? hio
    -- the forward view first
    have fwdCase : ∀ (x : Nat) (n : Nuc), (viewNucs o false)[x]? = some n →
        ∃ num cn, numOf spec ⟨o.name, false⟩ = some num ∧ Canon spec (encOf spec (layOf mode spec)) n cn ∧
          GR c ((encOf spec (layOf mode spec)).sq num x) n.comp cn := by
      intro x n hn
      obtain ⟨n0, hnumAll, hcls⟩ := numOf_obj wf ho
      have hnum := hnumAll false
      simp only [Bool.false_eq_true, if_false, Nat.add_zero] at hnum
      have hxl : x < o.len := by rw [← wf.seqLen o ho]; exact getElem?_lt hn
      rcases hcls with ⟨hsup, k, hk, rfl⟩ | ⟨hsup, k, hk, rfl⟩
      · -- a base sequence: the node is canonical itself
        rw [(wf.base o ho hsup).2, fwd_getElem? _ _ _ hxl] at hn
        cases hn
        exact ⟨2 * k, _, hnum, ⟨k, o, hk, rfl, hxl, rfl⟩, Reach.refl⟩
      · -- a super-sequence: go down to the item that covers `x`
        have okI := wf.sup o ho hsup
        have hv : viewNucs o false = nucsOfBases o.bases := by simp [viewNucs, basesOfView]
        have hsum : (o.items.map (lenOf spec)).sum = o.len := by
          rw [sum_lenOf_items wf okI, ← hv, wf.seqLen o ho]
        obtain ⟨off, it, hoff, hle, hlt⟩ := withOffsets_cover (lenOf spec) o.items (y := x) (by rw [hsum]; exact hxl)
        have hx' : x - off < lenOf spec it := by omega
        obtain ⟨numIt, hnumIt, hedge⟩ := supEdges_has h5 hk hoff hx'
        have hxe : off + (x - off) = x := by omega
        rw [hxe] at hedge
        obtain ⟨hidx, _⟩ := items_index wf okI hoff hx'
        rw [hxe, ← hv, hn] at hidx
        obtain ⟨j, o', hji, hjo, hf⟩ := wf.supEarlier i o hio hsup it (withOffsets_mem _ _ _ hoff)
        have hname : o'.name = it.name := (findSeq_mem hf).2
        have hnit : (viewNucs o' it.rev)[x - off]? = some n := by
          have : nucsOfItem spec it = viewNucs o' it.rev := by simp [nucsOfItem, hf]
          rw [← this]; exact hidx.symm
        obtain ⟨num', cn, hnum', hcan, hreach⟩ := ih j hji o' hjo it.rev (x - off) n hnit
        have hitEq : (⟨o'.name, it.rev⟩ : ItemRef) = it := by cases it; simp_all
        rw [hitEq, hnumIt] at hnum'
        cases hnum'
        refine ⟨_, cn, hnum, hcan, ?_⟩
        have := (S.eqEdge (hse _ hedge)).trans hreach
        simpa using this
    intro rev x n hn
    cases rev with
    | false => exact fwdCase x n hn
    | true =>
      rw [viewNucs_true] at hn
      have hxl : x < (viewNucs o false).length := by
        have := getElem?_lt hn; rwa [rc_length'] at this
      rw [rc_getElem? _ _ hxl] at hn
      cases hf : (viewNucs o false)[(viewNucs o false).length - 1 - x]? with
      | none => simp [hf] at hn
      | some nf =>
        simp only [hf, Option.map_some, Option.some.injEq] at hn
        subst hn
        obtain ⟨num, cn, hnum, hcan, hreach⟩ := fwdCase _ nf hf
        obtain ⟨n0, hnumAll, hcls⟩ := numOf_obj wf ho
        have hnum0 := hnumAll false
        have hnum1 := hnumAll true
        simp only [Bool.false_eq_true, if_false, Nat.add_zero] at hnum0
        simp only [if_true] at hnum1
        have hnn : n0 = num := by rw [hnum0] at hnum; exact Option.some.inj hnum
        rw [← hnn] at hreach
        have hlenv := wf.seqLen o ho
        have hxl' : x < o.len := by rw [← hlenv]; exact hxl
        have hedge := viewEdges_has (spec := spec) (encOf spec (layOf mode spec)) (n0 := n0) (o := o) (by
          rcases hcls with ⟨_, k, hk, rfl⟩ | ⟨_, k, hk, rfl⟩
          · exact Or.inl ⟨k, hk, rfl⟩
          · exact Or.inr ⟨k, hk, rfl⟩) hxl'
        have e2 : o.len - x - 1 = (viewNucs o false).length - 1 - x := by rw [hlenv]; omega
        rw [e2] at hedge
        refine ⟨n0 + 1, cn, hnum1, ?_, ?_⟩
        · obtain ⟨k, ob, h1', h2', h3', h4'⟩ := hcan
          exact ⟨k, ob, h1', h2', h3', h4'⟩
        · have := (S.wcEdge (hve _ hedge)).trans hreach
          have e3 : (true ^^ nf.comp) = nf.flip.comp := by simp [Nuc.flip]
          rw [e3] at this
          exact this

end Graph

end Pepper.ConstraintGen
