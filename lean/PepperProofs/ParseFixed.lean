import PepperModel.ParseFixed
import PepperProofs.ParseCompChars
/-!
# The `--fixed` file reader (`PepperModel/ParseFixed.lean`): definitions used in the statements and their proofs

* `wordOk`, `nameOk`, `seqOk`, `sepOk`, `padOk`, `tailOk` (decidable): the fields and gaps of a line.
* `eatPlus`: what the greedy class `[\s+\t]*` in front of the sequence group leaves of a sequence text.
* `reFixed_render` (parse ∘ render), `reFixed_shape` (every accepted line is a rendered one), `loadLines_eq_mapM`
  (line locality), `isSub_iff` (`in` on strings is `List.IsInfix`), `kindOfL_*`.
-/
namespace Pepper.ParseFixed
open Pepper.ParseComp

/-! ### character classes -/

theorem sp_notWord {c : Char} (h : isSp c = true) : isWord c = false := by
  cases hw : isWord c with
  | false => rfl
  | true => have := name_notSp (word_isName hw); rw [h] at this; cases this

theorem sp_notName {c : Char} (h : isSp c = true) : isName c = false := by
  cases hw : isName c with
  | false => rfl
  | true => have := name_notSp hw; rw [h] at this; cases this

theorem isPad_cases {c : Char} (h : isPad c = true) : isSp c = true ∨ c = '+' := by
  simp only [isPad, Bool.or_eq_true, beq_iff_eq] at h
  rcases h with (h | h) | h
  · exact Or.inl h
  · exact Or.inr h
  · subst h; exact Or.inl (by decide)

theorem sp_isPad {c : Char} (h : isSp c = true) : isPad c = true := by simp [isPad, h]

theorem pad_notName {c : Char} (h : isPad c = true) : isName c = false := by
  rcases isPad_cases h with h | rfl
  · exact sp_notName h
  · decide

theorem name_notPad {c : Char} (h : isName c = true) : isPad c = false := by
  cases hp : isPad c with
  | false => rfl
  | true => have := pad_notName hp; rw [h] at this; cases this

theorem isFixCh_cases {c : Char} (h : isFixCh c = true) :
    c = 'A' ∨ c = 'T' ∨ c = 'C' ∨ c = 'G' ∨ c = 'N' ∨ c = 'S' ∨ c = '+' := by
  simpa [isFixCh, or_assoc] using h

theorem sp_notFix {c : Char} (h : isSp c = true) : isFixCh c = false := by
  rcases isSp_cases h with rfl | rfl | rfl | rfl | rfl | rfl | rfl | rfl | rfl | rfl <;> decide

theorem fix_notSp {c : Char} (h : isFixCh c = true) : isSp c = false := by
  rcases isFixCh_cases h with rfl | rfl | rfl | rfl | rfl | rfl | rfl <;> decide

theorem fix_notPad {c : Char} (h : isFixCh c = true) (hp : c ≠ '+') : isPad c = false := by
  rcases isFixCh_cases h with rfl | rfl | rfl | rfl | rfl | rfl | rfl <;> first | decide | exact absurd rfl hp

theorem sp_ne_hash {c : Char} (h : isSp c = true) : c ≠ '#' := by
  rintro rfl; exact absurd h (by decide)

/-! ### fields and gaps of a line -/

def wordOkL (s : Str) : Bool := !s.isEmpty && s.all isWord
def nameOkL (s : Str) : Bool := !s.isEmpty && s.all isName
def seqOkL (s : Str) : Bool := !s.isEmpty && s.all isFixCh
def sepOkL (s : Str) : Bool := !s.isEmpty && s.all isSp
def padOkL (s : Str) : Bool := s.all isPad
/-- white space only, or: white space (at least one character), `#`, and a text in which only white space follows
    the first line break -/
def tailOkL (t : Str) : Bool :=
  match t.dropWhile isSp with
  | [] => true
  | c :: body => c == '#' && !(t.takeWhile isSp).isEmpty && (body.dropWhile notNl).all isSp

/-- a kind word: non-empty over `\w` -/
def wordOk (s : String) : Bool := wordOkL s.toList
/-- a name: non-empty over `[\w-]` -/
def nameOk (s : String) : Bool := nameOkL s.toList
/-- a sequence text: non-empty over `ATCGNS+` -/
def seqOk (s : String) : Bool := seqOkL s.toList
/-- the gap between kind word and name: one or more `\s` -/
def sepOk (s : String) : Bool := sepOkL s.toList
/-- a gap beside `=`: any number of `[\s+\t]` (white space and `+`) -/
def padOk (s : String) : Bool := padOkL s.toList
/-- the end of the line: white space (incl. the newline), optionally with a ` #comment` in front -/
def tailOk (s : String) : Bool := tailOkL s.toList

theorem okL_iff {p : Char → Bool} {s : Str} : (!s.isEmpty && s.all p) = true ↔ s ≠ [] ∧ ∀ c ∈ s, p c = true := by
  cases s <;> simp

theorem wordOkL_iff {s : Str} : wordOkL s = true ↔ s ≠ [] ∧ ∀ c ∈ s, isWord c = true := okL_iff
theorem nameOkL_iff {s : Str} : nameOkL s = true ↔ s ≠ [] ∧ ∀ c ∈ s, isName c = true := okL_iff
theorem seqOkL_iff {s : Str} : seqOkL s = true ↔ s ≠ [] ∧ ∀ c ∈ s, isFixCh c = true := okL_iff
theorem sepOkL_iff {s : Str} : sepOkL s = true ↔ s ≠ [] ∧ ∀ c ∈ s, isSp c = true := okL_iff
theorem padOkL_iff {s : Str} : padOkL s = true ↔ ∀ c ∈ s, isPad c = true := by simp [padOkL]

/-- the shape behind `tailOkL` -/
def TailShape (t : Str) : Prop :=
  ∃ ws r, t = ws ++ r ∧ (∀ c ∈ ws, isSp c = true) ∧
    (r = [] ∨ (ws ≠ [] ∧ ∃ body, r = '#' :: body ∧ ∀ c ∈ body.dropWhile notNl, isSp c = true))

theorem takeWhile_all {p : Char → Bool} (s : Str) : ∀ c ∈ s.takeWhile p, p c = true := by
  induction s with
  | nil => intro c hc; cases hc
  | cons x r ih =>
    intro c hc
    simp only [List.takeWhile_cons] at hc
    split at hc
    · rename_i hx
      rcases List.mem_cons.mp hc with rfl | hc
      · exact hx
      · exact ih c hc
    · cases hc

theorem dropWhile_append_of_all {p : Char → Bool} {a b : Str} (ha : ∀ c ∈ a, p c = true) :
    (a ++ b).dropWhile p = b.dropWhile p := by
  induction a with
  | nil => rfl
  | cons x a ih =>
    simp only [List.cons_append, List.dropWhile_cons, ha x (by simp), if_true]
    exact ih (fun y hy => ha y (by simp [hy]))

theorem headNot_dropWhile {p : Char → Bool} (s : Str) : HeadNot p (s.dropWhile p) := by
  induction s with
  | nil => exact headNot_nil
  | cons c r ih =>
    simp only [List.dropWhile_cons]
    split
    · exact ih
    · rename_i h
      exact headNot_cons (by simpa using h)

theorem tailShape_of_ok {t : Str} (h : tailOkL t = true) : TailShape t := by
  refine ⟨t.takeWhile isSp, t.dropWhile isSp, (List.takeWhile_append_dropWhile).symm, takeWhile_all t, ?_⟩
  unfold tailOkL at h
  cases hd : t.dropWhile isSp with
  | nil => exact Or.inl rfl
  | cons c body =>
    rw [hd] at h
    simp only [Bool.and_eq_true, beq_iff_eq, Bool.not_eq_true', List.isEmpty_eq_false_iff, List.all_eq_true] at h
    obtain ⟨⟨hc, hne⟩, hb⟩ := h
    subst hc
    exact Or.inr ⟨hne, body, rfl, hb⟩

theorem tailOk_of_shape {t : Str} (h : TailShape t) : tailOkL t = true := by
  obtain ⟨ws, r, rfl, hws, hr⟩ := h
  unfold tailOkL
  rcases hr with rfl | ⟨hne, body, rfl, hb⟩
  · have : (ws ++ []).dropWhile isSp = [] := dropWhile_append_all hws headNot_nil
    rw [this]
  · have hh : HeadNot isSp ('#' :: body) := headNot_cons (by decide)
    rw [dropWhile_append_all hws hh, takeWhile_append_all hws hh]
    simp only [Bool.and_eq_true, beq_iff_eq, Bool.not_eq_true', List.isEmpty_eq_false_iff, List.all_eq_true]
    exact ⟨⟨trivial, hne⟩, hb⟩

/-- a tail never starts with a character of the sequence alphabet -/
theorem tailShape_headNot_fix {t : Str} (h : TailShape t) : HeadNot isFixCh t := by
  obtain ⟨ws, r, rfl, hws, hr⟩ := h
  cases ws with
  | nil =>
    rcases hr with rfl | ⟨hne, _⟩
    · exact headNot_nil
    · exact absurd rfl hne
  | cons c w => exact headNot_append (by simp) (headNot_cons (sp_notFix (hws c (by simp))))

/-! ### the tail `(?:\s+#.*)?\s*\Z` -/

theorem tail_val {α : Type} {v w : α} {s : Str} (h : tail v s = some w) : w = v := by
  unfold tail at h
  rcases alt_some h with h | h
  · obtain ⟨a, r, _, _, _, hk⟩ := sp1_some h
    obtain ⟨r', _, hk⟩ := lit_some hk
    obtain ⟨_, r'', _, _, hk⟩ := star_some hk
    exact (endZ_some hk).1
  · exact (endZ_some h).1

theorem tail_of_left {α : Type} {v : α} {s : Str}
    (h : (sp1 <| lit ['#'] <| star notNl (fun _ => endZ v) []) s = some v) : tail v s = some v := by
  unfold tail
  exact alt_left h

theorem tail_of_right {α : Type} {v : α} {s : Str} (h : endZ v s = some v) : tail v s = some v := by
  cases hl : tail v s with
  | some w => rw [tail_val hl]
  | none =>
    unfold tail at hl
    unfold alt at hl
    cases hl' : (sp1 <| lit ['#'] <| star notNl (fun _ => endZ v) []) s with
    | some w => rw [hl'] at hl; simp at hl
    | none => rw [hl'] at hl; simp [h] at hl

theorem tail_ok {α : Type} (v : α) {t : Str} (h : TailShape t) : tail v t = some v := by
  obtain ⟨ws, r, rfl, hws, hr⟩ := h
  rcases hr with rfl | ⟨hne, body, rfl, hb⟩
  · apply tail_of_right
    exact endZ_ok v (by simpa using hws)
  · apply tail_of_left
    apply sp1_greedy hne hws (headNot_cons (by decide))
    simp only [lit_cons_cons, if_true, lit_nil]
    have hsplit : body = body.takeWhile notNl ++ body.dropWhile notNl := (List.takeWhile_append_dropWhile).symm
    rw [hsplit]
    apply star_greedy (takeWhile_all body) (headNot_dropWhile body)
    exact endZ_ok v hb

theorem tail_shape {α : Type} {v w : α} {t : Str} (h : tail v t = some w) : TailShape t := by
  unfold tail at h
  rcases alt_some h with h | h
  · obtain ⟨ws, r, rfl, hne, hws, hk⟩ := sp1_some h
    obtain ⟨body, rfl, hk⟩ := lit_some hk
    obtain ⟨a, r2, rfl, ha, hk⟩ := star_some hk
    have hr2 := (endZ_some hk).2
    refine ⟨ws, '#' :: (a ++ r2), rfl, hws, Or.inr ⟨hne, a ++ r2, rfl, ?_⟩⟩
    intro c hc
    rw [dropWhile_append_of_all ha] at hc
    exact hr2 c ((List.dropWhile_sublist _).subset hc)
  · exact ⟨t, [], by simp, (endZ_some h).2, Or.inl rfl⟩

/-! ### parse ∘ render -/

/-- what the greedy class `[\s+\t]*` in front of the sequence group leaves of a sequence text: leading `+` signs are
    eaten as long as one character remains for the group -/
def eatPlus (s : Str) : Str :=
  match s.dropWhile (· == '+') with
  | [] => ['+']
  | r => r

theorem eatPlus_of_head {s : Str} (h : HeadNot (· == '+') s) (hne : s ≠ []) : eatPlus s = s := by
  unfold eatPlus
  rw [dropWhile_headNot h]
  cases s with
  | nil => exact absurd rfl hne
  | cons c r => rfl

/-- the part of `reFixed` after the `=` sign, on `pad2 ++ seq ++ tail` -/
theorem afterEq_render {α : Type} (f : Str → α) {pad2 seq tl : Str} (hp2 : ∀ c ∈ pad2, isPad c = true)
    (hs : seq ≠ [] ∧ ∀ c ∈ seq, isFixCh c = true) (ht : TailShape tl) :
    star isPad (fun _ => plus isFixCh fun q => tail (f q)) [] (pad2 ++ (seq ++ tl)) = some (f (eatPlus seq)) := by
  have hsplit : seq = seq.takeWhile (· == '+') ++ seq.dropWhile (· == '+') := (List.takeWhile_append_dropWhile).symm
  have hpl : ∀ c ∈ seq.takeWhile (· == '+'), isPad c = true := by
    intro c hc
    have := takeWhile_all (p := (· == '+')) seq c hc
    simp only [beq_iff_eq] at this
    subst this
    decide
  have hbody : ∀ c ∈ seq.dropWhile (· == '+'), isFixCh c = true :=
    fun c hc => hs.2 c ((List.dropWhile_sublist _).subset hc)
  cases hb : seq.dropWhile (· == '+') with
  | cons b body =>
    -- the class stops in front of the first letter
    have hbne : isPad b = false := by
      apply fix_notPad (hbody b (by rw [hb]; simp))
      have := headNot_dropWhile (p := (· == '+')) seq b body hb
      simpa using this
    have e : eatPlus seq = b :: body := by unfold eatPlus; rw [hb]
    rw [e]
    have hin : pad2 ++ (seq ++ tl) = (pad2 ++ seq.takeWhile (· == '+')) ++ ((b :: body) ++ tl) := by
      conv => lhs; rw [hsplit, hb]
      simp
    rw [hin]
    apply star_greedy
    · intro c hc
      rcases List.mem_append.mp hc with hc | hc
      · exact hp2 c hc
      · exact hpl c hc
    · exact headNot_append (by simp) (headNot_cons hbne)
    · apply plus_greedy (by simp) (by rw [← hb]; exact hbody) (tailShape_headNot_fix ht)
      exact tail_ok _ ht
  | nil =>
    -- the text consists of `+` signs: the class takes them all (and the white space that follows), then gives back
    -- up to the last `+`
    have e : eatPlus seq = ['+'] := by unfold eatPlus; rw [hb]
    rw [e]
    have hall : seq = seq.takeWhile (· == '+') := by
      conv => lhs; rw [hsplit, hb]
      simp
    have hplus : ∀ c ∈ seq, c = '+' := by
      intro c hc
      rw [hall] at hc
      simpa using takeWhile_all (p := (· == '+')) seq c hc
    -- seq = pre ++ ['+']
    obtain ⟨pre, hpre⟩ : ∃ pre, seq = pre ++ ['+'] := by
      have hne := hs.1
      refine ⟨seq.dropLast, ?_⟩
      have h1 := (List.dropLast_concat_getLast hne).symm
      have h2 : seq.getLast hne = '+' := hplus _ (List.getLast_mem hne)
      rw [h2] at h1
      exact h1
    obtain ⟨ws, r, rfl, hws, hr⟩ := ht
    have hin : pad2 ++ (seq ++ (ws ++ r)) = (pad2 ++ pre) ++ (('+' :: ws) ++ r) := by
      rw [hpre]; simp
    rw [hin]
    have hrhead : HeadNot isPad r := by
      rcases hr with rfl | ⟨_, body, rfl, _⟩
      · exact headNot_nil
      · exact headNot_cons (by decide)
    have hrfix : HeadNot isFixCh r := by
      rcases hr with rfl | ⟨_, body, rfl, _⟩
      · exact headNot_nil
      · exact headNot_cons (by decide)
    apply star_first
    · intro c hc
      rcases List.mem_append.mp hc with hc | hc
      · exact hp2 c hc
      · have : c ∈ seq := by rw [hpre]; simp [hc]
        rw [hplus c this]; decide
    · intro c hc
      rcases List.mem_cons.mp hc with rfl | hc
      · decide
      · exact sp_isPad (hws c hc)
    · exact hrhead
    · -- every longer split fails: the group would have to start with white space, `#`, or at the end
      intro b1 b2 e hne
      cases b1 with
      | nil => exact absurd rfl hne
      | cons x b1' =>
        simp only [List.cons_append, List.cons.injEq] at e
        obtain ⟨_, e⟩ := e
        apply plus_none_head
        cases b2 with
        | nil => simpa using hrfix
        | cons y b2' =>
          apply headNot_append (by simp)
          apply headNot_cons
          apply sp_notFix
          apply hws
          rw [e]; simp
    · show plus isFixCh (fun q => tail (f q)) (('+' :: ws) ++ r) = some (f ['+'])
      have : ('+' :: ws) ++ r = ['+'] ++ (ws ++ r) := by simp
      rw [this]
      apply plus_greedy (by simp) (by intro c hc; simp at hc; subst hc; decide)
      · exact tailShape_headNot_fix ⟨ws, r, rfl, hws, hr⟩
      · exact tail_ok _ ⟨ws, r, rfl, hws, hr⟩

/-- **parse ∘ render** on character lists -/
theorem reFixed_render {kind sep name pad1 pad2 seq tl : Str}
    (hk : kind ≠ [] ∧ ∀ c ∈ kind, isWord c = true) (hsep : sep ≠ [] ∧ ∀ c ∈ sep, isSp c = true)
    (hn : name ≠ [] ∧ ∀ c ∈ name, isName c = true) (hp1 : ∀ c ∈ pad1, isPad c = true)
    (hp2 : ∀ c ∈ pad2, isPad c = true) (hs : seq ≠ [] ∧ ∀ c ∈ seq, isFixCh c = true) (ht : TailShape tl) :
    reFixed (kind ++ (sep ++ (name ++ (pad1 ++ ('=' :: (pad2 ++ (seq ++ tl))))))) = some (kind, name, eatPlus seq) := by
  unfold reFixed
  apply plus_greedy hk.1 hk.2 (headNot_append hsep.1 (headNot_of_all hsep.2 (fun c h => sp_notWord h)))
  apply sp1_greedy hsep.1 hsep.2 (headNot_append hn.1 (headNot_of_all hn.2 (fun c h => name_notSp h)))
  apply plus_greedy hn.1 hn.2 (headNot_append_nil (headNot_of_all hp1 (fun c h => pad_notName h)) (headNot_cons (by decide)))
  apply star_greedy hp1 (headNot_cons (by decide))
  simp only [lit_cons_cons, if_true, lit_nil]
  exact afterEq_render (fun q => (kind, name, q)) hp2 hs ht

/-- **every accepted line is a rendered line**: the fields are well-formed and the line is their spelling with
    some legal gaps -/
theorem reFixed_shape {s t n q : Str} (h : reFixed s = some (t, n, q)) :
    (t ≠ [] ∧ ∀ c ∈ t, isWord c = true) ∧ (n ≠ [] ∧ ∀ c ∈ n, isName c = true) ∧ (q ≠ [] ∧ ∀ c ∈ q, isFixCh c = true) ∧
    ∃ sep pad1 pad2 tl, s = t ++ (sep ++ (n ++ (pad1 ++ ('=' :: (pad2 ++ (q ++ tl)))))) ∧
      (sep ≠ [] ∧ ∀ c ∈ sep, isSp c = true) ∧ (∀ c ∈ pad1, isPad c = true) ∧ (∀ c ∈ pad2, isPad c = true) ∧ TailShape tl := by
  unfold reFixed at h
  obtain ⟨t', r1, rfl, ht1, ht2, h⟩ := plus_some h
  obtain ⟨sep, r2, rfl, hs1, hs2, h⟩ := sp1_some h
  obtain ⟨n', r3, rfl, hn1, hn2, h⟩ := plus_some h
  obtain ⟨p1, r4, rfl, hp1, h⟩ := star_some h
  obtain ⟨r5, rfl, h⟩ := lit_some h
  obtain ⟨p2, r6, rfl, hp2, h⟩ := star_some h
  obtain ⟨q', r7, rfl, hq1, hq2, h⟩ := plus_some h
  have hv := tail_val h
  simp only [Prod.mk.injEq] at hv
  obtain ⟨rfl, rfl, rfl⟩ := hv
  exact ⟨⟨ht1, ht2⟩, ⟨hn1, hn2⟩, ⟨hq1, hq2⟩, sep, p1, p2, r7, by simp, ⟨hs1, hs2⟩, hp1, hp2, tail_shape h⟩

/-! ### String level -/

/-- the conversion of a result on character lists to `String`s -/
def convT (x : Str × Str × Str) : String × String × String := (String.ofList x.1, String.ofList x.2.1, String.ofList x.2.2)

def convR : Except Err (Str × Str × Str) → Except Err (String × String × String)
  | .ok x => .ok (convT x)
  | .error e => .error e

theorem parseFixedLine_eq (line : String) : parseFixedLine line = convR (parseFixedL line.toList) := by
  unfold parseFixedLine convR convT
  cases parseFixedL line.toList with
  | ok x => obtain ⟨t, n, q⟩ := x; rfl
  | error e => rfl

theorem parseFixedL_ok_iff {s : Str} {x : Str × Str × Str} : parseFixedL s = .ok x ↔ reFixed s = some x := by
  unfold parseFixedL
  cases reFixed s with
  | some r => simp
  | none => simp

theorem parseFixedLine_ok {line : String} {t n q : String} (h : parseFixedLine line = .ok (t, n, q)) :
    ∃ t' n' q', reFixed line.toList = some (t', n', q') ∧ t = String.ofList t' ∧ n = String.ofList n' ∧ q = String.ofList q' := by
  rw [parseFixedLine_eq] at h
  cases hp : parseFixedL line.toList with
  | error e => rw [hp] at h; cases h
  | ok x =>
    rw [hp] at h
    obtain ⟨t', n', q'⟩ := x
    simp only [convR, convT, Except.ok.injEq, Prod.mk.injEq] at h
    exact ⟨t', n', q', parseFixedL_ok_iff.mp hp, h.1.symm, h.2.1.symm, h.2.2.symm⟩

/-! ### `load_fixed`: line locality -/

theorem loadLines_ok_iff (ls : List Str) (es : List (Str × Str × Str)) :
    loadLines ls = .ok es ↔ (ls.filter (fun l => !skipL l)).map parseFixedL = es.map .ok := by
  induction ls generalizing es with
  | nil =>
    simp only [loadLines, List.filter_nil, List.map_nil]
    constructor
    · intro h; cases h; rfl
    · intro h
      cases es with
      | nil => rfl
      | cons e r => cases h
  | cons l r ih =>
    simp only [loadLines, List.filter_cons]
    cases hs : skipL l with
    | true => simpa using ih es
    | false =>
      simp only [Bool.false_eq_true, if_false, Bool.not_false, if_true, List.map_cons]
      cases hp : parseFixedL l with
      | error e =>
        simp only
        constructor
        · intro h; cases h
        · intro h
          cases es with
          | nil => cases h
          | cons e' r' => simp at h
      | ok x =>
        simp only
        cases hr : loadLines r with
        | error e =>
          simp only
          constructor
          · intro h; cases h
          · intro h
            cases es with
            | nil => cases h
            | cons e' r' =>
              simp only [List.map_cons, List.cons.injEq] at h
              have := (ih r').mpr h.2
              rw [hr] at this
              cases this
        | ok xs =>
          simp only [Except.ok.injEq]
          have hxs := (ih xs).mp hr
          constructor
          · intro h; subst h; simp [hxs]
          · intro h
            cases es with
            | nil => cases h
            | cons e' r' =>
              simp only [List.map_cons, List.cons.injEq, Except.ok.injEq] at h
              have := (ih r').mpr h.2
              rw [hr] at this
              cases this
              rw [h.1]

/-- acceptance is decided line by line -/
theorem loadLines_isOk_iff (ls : List Str) :
    (∃ es, loadLines ls = .ok es) ↔ ∀ l ∈ ls, skipL l = false → ∃ x, parseFixedL l = .ok x := by
  induction ls with
  | nil => simp [loadLines]
  | cons l r ih =>
    simp only [loadLines, List.mem_cons, forall_eq_or_imp]
    cases hs : skipL l with
    | true =>
      simp only [if_true]
      rw [ih]
      simp
    | false =>
      simp only [Bool.false_eq_true, if_false, true_implies]
      cases hp : parseFixedL l with
      | error e => simp
      | ok x =>
        simp only [Except.ok.injEq, exists_eq', true_and]
        rw [← ih]
        cases loadLines r with
        | error e => simp
        | ok xs => simp

/-- a list of results of a partial function, converted afterwards -/
theorem map_conv_iff {A B C E : Type} (f : A → Except E B) (g : B → C) (xs : List A) (es : List C) :
    xs.map (fun x => (f x).map g) = es.map .ok ↔
      ∃ l : List B, xs.map f = l.map .ok ∧ es = l.map g := by
  induction xs generalizing es with
  | nil =>
    constructor
    · intro h
      cases es with
      | nil => exact ⟨[], rfl, rfl⟩
      | cons e r => cases h
    · rintro ⟨l, h1, h2⟩
      cases l with
      | nil => subst h2; rfl
      | cons b l => cases h1
  | cons x xs ih =>
    constructor
    · intro h
      cases es with
      | nil => cases h
      | cons e r =>
        simp only [List.map_cons, List.cons.injEq] at h
        obtain ⟨l, h1, h2⟩ := (ih r).mp h.2
        cases hf : f x with
        | error e' => rw [hf] at h; simp [Except.map] at h
        | ok b =>
          rw [hf] at h
          simp only [Except.map, Except.ok.injEq] at h
          exact ⟨b :: l, by simp [hf, h1], by simp [h.1, h2]⟩
    · rintro ⟨l, h1, h2⟩
      cases l with
      | nil => cases h1
      | cons b l =>
        simp only [List.map_cons, List.cons.injEq] at h1
        subst h2
        simp only [List.map_cons, List.cons.injEq]
        refine ⟨by rw [h1.1]; rfl, (ih _).mpr ⟨l, h1.2, rfl⟩⟩

/-- the lines of a file, as `String`s -/
def fileLinesS (text : String) : List String := (fileLines text.toList).map String.ofList

theorem loadFixed_ok_iff (text : String) (es : List (String × String × String)) :
    loadFixed text = .ok es ↔
      ((fileLinesS text).filter (fun l => !skipLine l)).map parseFixedLine = es.map .ok := by
  have hconv : loadFixed text = .ok es ↔ ∃ l, loadLines (fileLines text.toList) = .ok l ∧ es = l.map convT := by
    unfold loadFixed loadFixedL
    cases loadLines (fileLines text.toList) with
    | error e => simp
    | ok l =>
      simp only [Except.ok.injEq, exists_eq_left']
      constructor
      · intro h; rw [← h]; rfl
      · intro h; rw [h]; rfl
  rw [hconv]
  have hfil : ((fileLinesS text).filter (fun l => !skipLine l)).map parseFixedLine =
      ((fileLines text.toList).filter (fun l => !skipL l)).map
        (fun x => (parseFixedL x).map convT) := by
    unfold fileLinesS
    rw [List.filter_map, List.map_map]
    have : ((fun l => !skipLine l) ∘ String.ofList) = (fun l => !skipL l) := by
      funext l; simp [skipLine, String.toList_ofList]
    rw [this]
    apply List.map_congr_left
    intro l _
    simp only [Function.comp, parseFixedLine_eq, String.toList_ofList]
    cases parseFixedL l <;> rfl
  rw [hfil, map_conv_iff]
  constructor
  · rintro ⟨l, h1, h2⟩; exact ⟨l, (loadLines_ok_iff _ _).mp h1, h2⟩
  · rintro ⟨l, h1, h2⟩; exact ⟨l, (loadLines_ok_iff _ _).mpr h1, h2⟩

theorem loadFixed_isOk_iff (text : String) :
    (∃ es, loadFixed text = .ok es) ↔ ∀ l ∈ fileLinesS text, skipLine l = false → ∃ x, parseFixedLine l = .ok x := by
  have h1 : (∃ es, loadFixed text = .ok es) ↔ ∃ l, loadLines (fileLines text.toList) = .ok l := by
    unfold loadFixed loadFixedL
    cases loadLines (fileLines text.toList) with
    | error e => simp
    | ok l => simp
  rw [h1, loadLines_isOk_iff]
  unfold fileLinesS
  simp only [List.mem_map, forall_exists_index, and_imp, forall_apply_eq_imp_iff₂, skipLine, String.toList_ofList,
    parseFixedLine_eq, convR]
  constructor
  · intro h l hl hs
    obtain ⟨x, hx⟩ := h l hl hs
    exact ⟨convT x, by rw [hx]⟩
  · intro h l hl hs
    obtain ⟨x, hx⟩ := h l hl hs
    cases hp : parseFixedL l with
    | ok y => exact ⟨y, rfl⟩
    | error e => rw [hp] at hx; cases hx

/-! ### the lines of a file -/

theorem linesKeep_flatten (s : Str) : (linesKeep s).flatten = s := by
  induction s with
  | nil => rfl
  | cons c r ih =>
    simp only [linesKeep]
    split
    · rename_i hc; subst hc; simp [ih]
    · cases h : linesKeep r with
      | nil => rw [h] at ih; simp at ih; simp [ih]
      | cons x t => rw [h] at ih; simp at ih; simp [ih]

/-- every line is non-empty, has no `\n` except as its last character, and only the last line may lack it -/
def LineOk (last : Bool) (l : Str) : Prop :=
  ∃ body, (l = body ++ ['\n'] ∨ (last = true ∧ l = body ∧ body ≠ [])) ∧ ∀ c ∈ body, c ≠ '\n'

theorem linesKeep_shape (s : Str) :
    ∀ pre l post, linesKeep s = pre ++ l :: post → LineOk post.isEmpty l := by
  induction s with
  | nil => intro pre l post h; cases pre <;> cases h
  | cons c r ih =>
    intro pre l post h
    simp only [linesKeep] at h
    split at h
    · rename_i hc
      cases pre with
      | nil =>
        simp only [List.nil_append, List.cons.injEq] at h
        exact ⟨[], Or.inl (by simp [← h.1]), by simp⟩
      | cons p pre' =>
        simp only [List.cons_append, List.cons.injEq] at h
        exact ih pre' l post h.2
    · rename_i hc
      cases hk : linesKeep r with
      | nil =>
        rw [hk] at h
        cases pre with
        | nil =>
          simp only [List.nil_append, List.cons.injEq] at h
          obtain ⟨h1, h2⟩ := h
          subst h1; subst h2
          exact ⟨[c], Or.inr ⟨rfl, rfl, by simp⟩, by simpa using hc⟩
        | cons p pre' =>
          simp only [List.cons_append, List.cons.injEq] at h
          cases pre' <;> cases h.2
      | cons x t =>
        rw [hk] at h
        cases pre with
        | nil =>
          simp only [List.nil_append, List.cons.injEq] at h
          obtain ⟨h1, h2⟩ := h
          subst h1; subst h2
          obtain ⟨body, hb, hn⟩ := ih [] x t (by simp [hk])
          refine ⟨c :: body, ?_, ?_⟩
          · rcases hb with hb | ⟨h1, h2, h3⟩
            · exact Or.inl (by simp [hb])
            · exact Or.inr ⟨h1, by simp [h2], by simp⟩
          · intro y hy
            rcases List.mem_cons.mp hy with rfl | hy
            · exact hc
            · exact hn y hy
        | cons p pre' =>
          simp only [List.cons_append, List.cons.injEq] at h
          exact ih (x :: pre') l post (by rw [hk, h.2]; rfl)

/-- universal newlines leave no carriage return -/
theorem univNl_no_cr (b : Bool) (s : Str) : ∀ c ∈ univNl b s, c ≠ '\r' := by
  induction s generalizing b with
  | nil => intro c hc; cases hc
  | cons x r ih =>
    intro c hc
    simp only [univNl] at hc
    split at hc
    · rcases List.mem_cons.mp hc with rfl | hc
      · decide
      · exact ih _ c hc
    · split at hc
      · split at hc
        · exact ih _ c hc
        · rcases List.mem_cons.mp hc with rfl | hc
          · decide
          · exact ih _ c hc
      · rename_i h1 h2
        rcases List.mem_cons.mp hc with rfl | hc
        · exact h1
        · exact ih _ c hc

/-- a text without carriage returns is left alone -/
theorem univNl_id (s : Str) (h : ∀ c ∈ s, c ≠ '\r') : univNl false s = s := by
  induction s with
  | nil => rfl
  | cons x r ih =>
    have hx := h x (by simp)
    have hr := ih (fun c hc => h c (by simp [hc]))
    simp only [univNl, hx, if_false, Bool.false_eq_true, hr]
    split
    · rename_i h1; subst h1; rfl
    · rfl

/-! ### `in` on strings -/

theorem isSub_iff (a b : Str) : isSub a b = true ↔ a <:+: b := by
  induction b with
  | nil => simp [isSub, List.infix_nil]
  | cons c r ih =>
    simp only [isSub, Bool.or_eq_true, List.infix_cons_iff, List.isPrefixOf_iff_prefix, ih]

def prefixes : Str → List Str
  | [] => [[]]
  | c :: r => [] :: (prefixes r).map (c :: ·)

def infixes : Str → List Str
  | [] => [[]]
  | c :: r => prefixes (c :: r) ++ infixes r

theorem mem_prefixes (a b : Str) : a ∈ prefixes b ↔ a <+: b := by
  induction b generalizing a with
  | nil => simp [prefixes, List.prefix_nil]
  | cons c r ih =>
    simp only [prefixes, List.mem_cons, List.mem_map, List.prefix_cons_iff]
    constructor
    · rintro (h | ⟨t, ht, rfl⟩)
      · exact Or.inl h
      · exact Or.inr ⟨t, rfl, (ih t).mp ht⟩
    · rintro (h | ⟨t, rfl, ht⟩)
      · exact Or.inl h
      · exact Or.inr ⟨t, (ih t).mpr ht, rfl⟩

theorem mem_infixes (a b : Str) : a ∈ infixes b ↔ a <:+: b := by
  induction b with
  | nil => simp [infixes, List.infix_nil]
  | cons c r ih =>
    simp only [infixes, List.mem_append, mem_prefixes, ih, List.infix_cons_iff]

theorem isSub_iff_mem (a b : Str) : isSub a b = true ↔ a ∈ infixes b := by
  rw [isSub_iff, mem_infixes]

/-! ### the dispatch -/

theorem kindOfL_sequence (w : Str) : kindOfL w = some .sequence ↔ w <:+: sSequence := by
  rw [← isSub_iff]
  unfold kindOfL
  split
  · simp [*]
  · rename_i h
    simp only [h, Bool.false_eq_true, iff_false]
    split
    · simp
    · split
      · simp
      · split <;> simp

theorem kindOfL_signal (w : Str) : kindOfL w = some .signal ↔ ¬ w <:+: sSequence ∧ w <:+: sSignal := by
  rw [← isSub_iff, ← isSub_iff]
  unfold kindOfL
  split
  · simp [*]
  · rename_i h
    split
    · simp [*]
    · rename_i h2
      simp only [h2, Bool.false_eq_true, and_false, iff_false]
      split
      · simp
      · split <;> simp

theorem strand_not_sub : isSub sStrand sSequence = false ∧ isSub sStrand sSignal = false ∧
    isSub sStructure sSequence = false ∧ isSub sStructure sSignal = false := by decide

theorem kindOfL_strand (w : Str) : kindOfL w = some .strand ↔ w = sStrand := by
  unfold kindOfL
  constructor
  · intro h
    split at h
    · cases h
    · split at h
      · cases h
      · split at h
        · assumption
        · split at h <;> cases h
  · rintro rfl
    simp [strand_not_sub.1, strand_not_sub.2.1]

theorem kindOfL_structure (w : Str) : kindOfL w = some .structure ↔ w = sStructure := by
  unfold kindOfL
  constructor
  · intro h
    split at h
    · cases h
    · split at h
      · cases h
      · split at h
        · cases h
        · split at h
          · assumption
          · cases h
  · rintro rfl
    have : sStructure ≠ sStrand := by decide
    simp [strand_not_sub.2.2.1, strand_not_sub.2.2.2, this]

theorem kindOfL_none (w : Str) :
    kindOfL w = none ↔ ¬ w <:+: sSequence ∧ ¬ w <:+: sSignal ∧ w ≠ sStrand ∧ w ≠ sStructure := by
  rw [← isSub_iff, ← isSub_iff]
  unfold kindOfL
  split
  · simp [*]
  · split
    · simp [*]
    · split
      · simp [*]
      · split <;> simp [*]

/-- membership in a list of strings, on character lists -/
theorem mem_strings_iff (w : String) (l : List String) : w ∈ l ↔ w.toList ∈ l.map String.toList := by
  simp only [List.mem_map]
  constructor
  · intro h; exact ⟨w, h, rfl⟩
  · rintro ⟨x, hx, e⟩
    rw [String.toList_inj.mp e] at hx
    exact hx

/-! ### entries -/

theorem entryOfL_some {x : Str × Str × Str} {e : Entry} (h : entryOfL x = some e) :
    kindOfL x.1 = some e.kind ∧ e.name = String.ofList x.2.1 ∧ e.seq = x.2.2 := by
  unfold entryOfL at h
  cases hk : kindOfL x.1 with
  | none => rw [hk] at h; cases h
  | some k =>
    rw [hk] at h
    simp only [Option.map_some, Option.some.injEq] at h
    subst h
    exact ⟨rfl, rfl, rfl⟩

/-- every entry of an accepted file comes from a non-skipped line of the file that `parse_fixed` accepts -/
theorem fixedEntriesL_mem {text : Str} {es : List Entry} (h : fixedEntriesL text = .ok es) {e : Entry} (he : e ∈ es) :
    ∃ l ∈ fileLines text, ∃ t n, skipL l = false ∧ reFixed l = some (t, n, e.seq) ∧ kindOfL t = some e.kind ∧
      e.name = String.ofList n := by
  unfold fixedEntriesL loadFixedL at h
  cases hl : loadLines (fileLines text) with
  | error x => rw [hl] at h; cases h
  | ok xs =>
    rw [hl] at h
    simp only [Except.ok.injEq] at h
    subst h
    obtain ⟨x, hx, hxe⟩ := List.mem_filterMap.mp he
    obtain ⟨hk, hn, hq⟩ := entryOfL_some hxe
    have hm := (loadLines_ok_iff _ _).mp hl
    have : Except.ok x ∈ xs.map (Except.ok (ε := Err)) := List.mem_map.mpr ⟨x, hx, rfl⟩
    rw [← hm] at this
    obtain ⟨l, hlm, hlp⟩ := List.mem_map.mp this
    obtain ⟨hl1, hl2⟩ := List.mem_filter.mp hlm
    obtain ⟨t, n, q⟩ := x
    simp only at hk hn hq
    subst hq
    exact ⟨l, hl1, t, n, by simpa using hl2, parseFixedL_ok_iff.mp hlp, hk, hn⟩

/-! ### skipping and parsing exclude each other -/

theorem skipL_headNot_word {s : Str} (h : skipL s = true) : HeadNot isWord s := by
  unfold skipL at h
  cases hr : reSkip s with
  | none => rw [hr] at h; cases h
  | some u =>
    unfold reSkip at hr
    obtain ⟨a, r, rfl, ha, hk⟩ := star_some hr
    have hrh : HeadNot isWord r := by
      rcases alt_some hk with hk | hk
      · obtain ⟨r', rfl, _⟩ := lit_some hk
        exact headNot_cons (by decide)
      · exact headNot_of_all (endZ_some hk).2 (fun c hc => sp_notWord hc)
    exact headNot_append_nil (headNot_of_all ha (fun c hc => sp_notWord hc)) hrh

theorem skipL_parse {s : Str} (h : skipL s = true) : parseFixedL s = .error .syntax := by
  unfold parseFixedL reFixed
  rw [plus_none_head (skipL_headNot_word h)]

/-- the skip test, spelled out: white space only, or white space, `#`, and only white space after the first line break -/
theorem skipL_iff (s : Str) : skipL s = true ↔
    ∃ ws r, s = ws ++ r ∧ (∀ c ∈ ws, isSp c = true) ∧
      (r = [] ∨ ∃ body, r = '#' :: body ∧ ∀ c ∈ body.dropWhile notNl, isSp c = true) := by
  constructor
  · intro h
    unfold skipL at h
    cases hr : reSkip s with
    | none => rw [hr] at h; cases h
    | some u =>
      unfold reSkip at hr
      obtain ⟨a, r, rfl, ha, hk⟩ := star_some hr
      rcases alt_some hk with hk | hk
      · obtain ⟨body, rfl, hk⟩ := lit_some hk
        obtain ⟨b, r2, rfl, hb, hk⟩ := star_some hk
        refine ⟨a, '#' :: (b ++ r2), by simp, by simpa using ha, Or.inr ⟨b ++ r2, rfl, ?_⟩⟩
        intro c hc
        rw [dropWhile_append_of_all hb] at hc
        exact (endZ_some hk).2 c ((List.dropWhile_sublist _).subset hc)
      · refine ⟨a ++ r, [], by simp, ?_, Or.inl rfl⟩
        intro c hc
        rcases List.mem_append.mp hc with hc | hc
        · exact ha c (by simpa using hc)
        · exact (endZ_some hk).2 c hc
  · rintro ⟨ws, r, rfl, hws, hr⟩
    unfold skipL reSkip
    rcases hr with rfl | ⟨body, rfl, hb⟩
    · have : star isSp (fun _ => alt (lit ['#'] <| star notNl (fun _ => endZ ()) []) (endZ ())) [] (ws ++ []) = some () := by
        apply star_greedy hws headNot_nil
        rfl
      rw [this]; rfl
    · have : star isSp (fun _ => alt (lit ['#'] <| star notNl (fun _ => endZ ()) []) (endZ ())) [] (ws ++ '#' :: body) = some () := by
        apply star_greedy hws (headNot_cons (by decide))
        apply alt_left
        simp only [lit_cons_cons, if_true, lit_nil]
        have hsplit : body = body.takeWhile notNl ++ body.dropWhile notNl := (List.takeWhile_append_dropWhile).symm
        rw [hsplit]
        apply star_greedy (takeWhile_all body) (headNot_dropWhile body)
        exact endZ_ok () hb
      rw [this]; rfl

/-! ### further definitions used in the statements of `PepperProps/ParseFixed.lean` -/

/-- a sequence text that does not start with `+` -/
def noLeadingPlus (s : String) : Bool := s.toList.head? != some '+'

theorem toList_line (kind sep name pad1 pad2 seq tl : String) :
    (kind ++ sep ++ name ++ pad1 ++ "=" ++ pad2 ++ seq ++ tl).toList =
      kind.toList ++ (sep.toList ++ (name.toList ++ (pad1.toList ++ ('=' :: (pad2.toList ++ (seq.toList ++ tl.toList)))))) := by
  simp only [String.toList_append, List.append_assoc]
  rfl

/-- Python's `a in b` for two `str`s -/
def IsSubstr (a b : String) : Prop := a.toList <:+: b.toList

/-- membership in two explicit lists agrees when each is contained in the other -/
theorem mem_iff_of_all {A B : List Str} (h : (A.all (fun a => B.contains a) && B.all (fun b => A.contains b)) = true)
    (x : Str) : x ∈ A ↔ x ∈ B := by
  simp only [Bool.and_eq_true, List.all_eq_true, List.contains_iff_mem] at h
  exact ⟨fun hx => h.1 x hx, fun hx => h.2 x hx⟩

/-- a code table in which the six letters a fixed file may use are codes (every table of the compile path) -/
def FixCodes (t : Pepper.CodeTable) : Prop := ∀ c ∈ ['A', 'T', 'C', 'G', 'N', 'S'], t.isCode c = true

end Pepper.ParseFixed
