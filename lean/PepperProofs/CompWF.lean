import PepperProofs.CompInv
/-!
# The well-formedness invariant of the component tables (C01)

`WF s a`: names are unique; an atomic entry is its own single base; a super-sequence / strand entry's
`base_seqs` is the concatenation of its items' views and its length their sum; every item resolves to an
entry of equal length; an entry never refers to a super-sequence defined later; anonymous names numbered
`≥ a` are unused.  `addStmt` preserves it (`addStmt_WF`).
-/
set_option linter.unusedSimpArgs false
namespace Pepper.Comp
open Pepper.Constraint

/-! ### `Except` / `mapM` -/

theorem mapM_ok_of_forall {α β ε} {f : α → Except ε β} {g : α → β} {l : List α}
    (h : ∀ a ∈ l, f a = .ok (g a)) : l.mapM f = .ok (l.map g) := by
  induction l with
  | nil => rfl
  | cons x r ih =>
    rw [List.mapM_cons, h x (by simp), ih (fun a ha => h a (by simp [ha]))]
    rfl

theorem mapM_ok_inv {α β ε} {f : α → Except ε β} {l : List α} {r : List β}
    (h : l.mapM f = .ok r) : l.map f = r.map .ok := by
  induction l generalizing r with
  | nil => simp [List.mapM_nil, pure, Except.pure] at h; subst h; rfl
  | cons x t ih =>
    rw [List.mapM_cons] at h
    cases hx : f x with
    | error e => simp [hx, bind, Except.bind] at h
    | ok y =>
      cases ht : t.mapM f with
      | error e => simp [hx, ht, bind, Except.bind] at h
      | ok ys =>
        simp [hx, ht, bind, Except.bind, pure, Except.pure] at h
        subst h
        simp [hx, ih ht]

/-! ### definitions -/

/-- `base_seqs` of the view an item refers to -/
def viewBases (l : List SeqE) (i : ItemRef) : List BaseRef :=
  match findE l i.name with
  | some ie => basesOfView ie i.rev
  | none => []

/-- the item refers to an entry of the table and carries its length -/
def ItemOk (l : List SeqE) (i : ItemRef) : Prop := ∃ ie, findE l i.name = some ie ∧ i.len = ie.len

structure EntryWF (l : List SeqE) (e : SeqE) : Prop where
  lenB : e.len = (e.bases.map (·.len)).sum
  nameOk : endsOk e.name = true
  base : e.isSup = false → e.bases = [⟨e.name, false, e.len⟩] ∧ e.const.length = e.len ∧ e.items = []
  sup : e.isSup = true → (∀ i ∈ e.items, ItemOk l i) ∧ e.bases = e.items.flatMap (viewBases l) ∧
        e.len = (e.items.map (·.len)).sum ∧ e.const = []

/-- the order relation: an earlier entry never names a later super-sequence -/
def NoFwd (e1 e2 : SeqE) : Prop := e2.isSup = true → ∀ i ∈ e1.items, i.name ≠ e2.name

structure WFSeqs (a : Nat) (l : List SeqE) : Prop where
  nodup : (l.map (·.name)).Nodup
  entries : ∀ e ∈ l, EntryWF l e
  order : l.Pairwise NoFwd
  irrefl : ∀ e ∈ l, ∀ i ∈ e.items, i.name ≠ e.name
  fresh : ∀ e ∈ l, ∀ k, a ≤ k → e.name ≠ anonName k

structure StrandWF (l : List SeqE) (t : StrandE) : Prop where
  items : ∀ i ∈ t.items, ItemOk l i
  bases : t.bases = t.items.flatMap (viewBases l)
  len : t.len = (t.items.map (·.len)).sum

structure StructWF (ts : List StrandE) (e : StructE) : Prop where
  found : ∀ n ∈ e.strands, (findT ts n).isSome = true
  sizes : Notation.sizesOk e.struct (e.strands.map (fun n => ((findT ts n).map (·.len)).getD 0)) = true
  bal : Notation.balanced e.struct = true

structure WF (s : St) (a : Nat) : Prop where
  seqs : WFSeqs a s.seqs
  strands : ∀ t ∈ s.strands, StrandWF s.seqs t
  strandNames : (s.strands.map (·.name)).Nodup
  structs : ∀ e ∈ s.structs, StructWF s.strands e
  structNames : (s.structs.map (·.name)).Nodup

/-! ### extension of the table -/

/-- `l'` finds everything `l` finds -/
def Ext (l l' : List SeqE) : Prop := ∀ n e, findE l n = some e → findE l' n = some e

theorem Ext.append (l x : List SeqE) : Ext l (l ++ x) := fun _ _ h => findE_append_of_some h x

theorem ItemOk.mono {l l' : List SeqE} (h : Ext l l') {i : ItemRef} (hi : ItemOk l i) : ItemOk l' i := by
  obtain ⟨ie, h1, h2⟩ := hi
  exact ⟨ie, h _ _ h1, h2⟩

theorem viewBases_mono {l l' : List SeqE} (h : Ext l l') {i : ItemRef} (hi : ItemOk l i) :
    viewBases l' i = viewBases l i := by
  obtain ⟨ie, h1, _⟩ := hi
  simp [viewBases, h1, h _ _ h1]

theorem flatMap_viewBases_mono {l l' : List SeqE} (h : Ext l l') {its : List ItemRef} (hi : ∀ i ∈ its, ItemOk l i) :
    its.flatMap (viewBases l') = its.flatMap (viewBases l) := by
  induction its with
  | nil => rfl
  | cons i r ih =>
    simp only [List.flatMap_cons]
    rw [viewBases_mono h (hi i (by simp)), ih (fun j hj => hi j (by simp [hj]))]

theorem EntryWF.mono {l l' : List SeqE} (h : Ext l l') {e : SeqE} (he : EntryWF l e) : EntryWF l' e := by
  refine ⟨he.lenB, he.nameOk, he.base, fun hs => ?_⟩
  obtain ⟨h1, h2, h3, h4⟩ := he.sup hs
  exact ⟨fun i hi => (h1 i hi).mono h, by rw [flatMap_viewBases_mono h h1]; exact h2, h3, h4⟩

theorem StrandWF.mono {l l' : List SeqE} (h : Ext l l') {t : StrandE} (ht : StrandWF l t) : StrandWF l' t :=
  ⟨fun i hi => (ht.items i hi).mono h, by rw [flatMap_viewBases_mono h ht.items]; exact ht.bases, ht.len⟩

/-- an item that is ok names an entry of the table -/
theorem ItemOk.name_mem {l : List SeqE} {i : ItemRef} (hi : ItemOk l i) : i.name ∈ l.map (·.name) := by
  obtain ⟨ie, h1, _⟩ := hi
  obtain ⟨hm, hn⟩ := findE_some h1
  exact List.mem_map.mpr ⟨ie, hm, hn⟩

theorem items_names_mem {l : List SeqE} {e : SeqE} (he : EntryWF l e) : ∀ i ∈ e.items, i.name ∈ l.map (·.name) := by
  intro i hi
  cases hs : e.isSup with
  | false => rw [(he.base hs).2.2] at hi; simp at hi
  | true => exact ((he.sup hs).1 i hi).name_mem

/-- the lengths of a view's bases add up to the entry's length -/
theorem view_lens {l : List SeqE} {ie : SeqE} (he : EntryWF l ie) (r : Bool) :
    ((basesOfView ie r).map (·.len)).sum = ie.len := by
  rw [basesOfView_lens, ← he.lenB]

/-- appending entries whose names are new -/
theorem WFSeqs.extend {a a' : Nat} {l ns : List SeqE} (h : WFSeqs a l) (haa : a ≤ a')
    (hnd : ((l ++ ns).map (·.name)).Nodup)
    (hent : ∀ e ∈ ns, EntryWF (l ++ ns) e)
    (hirr : ∀ e ∈ ns, ∀ i ∈ e.items, i.name ≠ e.name)
    (hord : ns.Pairwise NoFwd)
    (hfresh : ∀ e ∈ ns, ∀ k, a' ≤ k → e.name ≠ anonName k) : WFSeqs a' (l ++ ns) := by
  have hdisj : ∀ e1 ∈ l, ∀ e2 ∈ ns, e1.name ≠ e2.name := by
    simp only [List.map_append, List.nodup_append, List.mem_map, forall_exists_index, and_imp] at hnd
    intro e1 h1 e2 h2
    exact hnd.2.2 _ e1 h1 rfl _ e2 h2 rfl
  refine ⟨hnd, ?_, ?_, ?_, ?_⟩
  · intro e he
    rcases List.mem_append.mp he with he | he
    · exact (h.entries e he).mono (Ext.append l ns)
    · exact hent e he
  · rw [List.pairwise_append]
    refine ⟨h.order, hord, ?_⟩
    intro e1 h1 e2 h2 _ i hi hn
    obtain ⟨e0, h0, hn0⟩ := List.mem_map.mp (items_names_mem (h.entries e1 h1) i hi)
    exact hdisj e0 h0 e2 h2 (hn0.trans hn)
  · intro e he
    rcases List.mem_append.mp he with he | he
    · exact h.irrefl e he
    · exact hirr e he
  · intro e he k hk
    rcases List.mem_append.mp he with he | he
    · exact h.fresh e he k (by omega)
    · exact hfresh e he k hk

/-! ### flag-only updates (`inStrand`, `inStructure`) -/

def FlagOnly (f : SeqE → SeqE) : Prop :=
  ∀ e, (f e).name = e.name ∧ (f e).isSup = e.isSup ∧ (f e).len = e.len ∧ (f e).const = e.const ∧
    (f e).items = e.items ∧ (f e).bases = e.bases

theorem viewBases_map {f : SeqE → SeqE} (hf : FlagOnly f) (l : List SeqE) (i : ItemRef) :
    viewBases (l.map f) i = viewBases l i := by
  simp only [viewBases, findE_map f (fun e => (hf e).1)]
  cases findE l i.name with
  | none => rfl
  | some ie => simp [basesOfView, (hf ie).2.2.2.2.2]

theorem ItemOk_map {f : SeqE → SeqE} (hf : FlagOnly f) (l : List SeqE) (i : ItemRef) :
    ItemOk (l.map f) i ↔ ItemOk l i := by
  simp only [ItemOk, findE_map f (fun e => (hf e).1)]
  constructor
  · rintro ⟨ie, h1, h2⟩
    cases h : findE l i.name with
    | none => simp [h] at h1
    | some ie0 =>
      simp only [h, Option.map_some, Option.some.injEq] at h1
      exact ⟨ie0, rfl, by rw [h2, ← h1, (hf ie0).2.2.1]⟩
  · rintro ⟨ie, h1, h2⟩
    exact ⟨f ie, by simp [h1], by rw [h2, (hf ie).2.2.1]⟩

theorem EntryWF_map {f : SeqE → SeqE} (hf : FlagOnly f) {l : List SeqE} {e : SeqE} (he : EntryWF l e) :
    EntryWF (l.map f) (f e) := by
  obtain ⟨h1, h2, h3, h4, h5, h6⟩ := hf e
  refine ⟨by rw [h3, h6]; exact he.lenB, by rw [h1]; exact he.nameOk, ?_, ?_⟩
  · intro hs
    rw [h2] at hs
    rw [h1, h3, h4, h5, h6]
    exact he.base hs
  · intro hs
    rw [h2] at hs
    obtain ⟨g1, g2, g3, g4⟩ := he.sup hs
    rw [h3, h4, h5, h6]
    refine ⟨fun i hi => (ItemOk_map hf l i).mpr (g1 i hi), ?_, g3, g4⟩
    rw [g2]
    congr 1
    funext i
    exact (viewBases_map hf l i).symm

theorem WFSeqs_map {f : SeqE → SeqE} (hf : FlagOnly f) {a : Nat} {l : List SeqE} (h : WFSeqs a l) :
    WFSeqs a (l.map f) := by
  refine ⟨?_, ?_, ?_, ?_, ?_⟩
  · rw [List.map_map]
    have : ((fun x => x.name) ∘ f) = (fun x => x.name) := by funext e; exact (hf e).1
    rw [this]; exact h.nodup
  · intro e he
    obtain ⟨e0, h0, rfl⟩ := List.mem_map.mp he
    exact EntryWF_map hf (h.entries e0 h0)
  · rw [List.pairwise_map]
    refine h.order.imp ?_
    intro e1 e2 hr hs i hi
    rw [(hf e2).2.1] at hs
    rw [(hf e1).2.2.2.2.1] at hi
    rw [(hf e2).1]
    exact hr hs i hi
  · intro e he i hi
    obtain ⟨e0, h0, rfl⟩ := List.mem_map.mp he
    rw [(hf e0).2.2.2.2.1] at hi
    rw [(hf e0).1]
    exact h.irrefl e0 h0 i hi
  · intro e he k hk
    obtain ⟨e0, h0, rfl⟩ := List.mem_map.mp he
    rw [(hf e0).1]
    exact h.fresh e0 h0 k hk

theorem StrandWF_map {f : SeqE → SeqE} (hf : FlagOnly f) {l : List SeqE} {t : StrandE} (ht : StrandWF l t) :
    StrandWF (l.map f) t := by
  refine ⟨fun i hi => (ItemOk_map hf l i).mpr (ht.items i hi), ?_, ht.len⟩
  rw [ht.bases]
  congr 1
  funext i
  exact (viewBases_map hf l i).symm

/-! ### `cleanConst` -/

/-- what `cleanConst` guarantees of an object item -/
def CObjOk (l : List SeqE) (i : ItemRef) (bs : List BaseRef) : Prop :=
  ∃ ie, findE l i.name = some ie ∧ i.len = ie.len ∧ bs = basesOfView ie i.rev

theorem CObjOk.mono {l l' : List SeqE} (h : Ext l l') {i : ItemRef} {bs : List BaseRef} (hi : CObjOk l i bs) :
    CObjOk l' i bs := by
  obtain ⟨ie, h1, h2, h3⟩ := hi
  exact ⟨ie, h _ _ h1, h2, h3⟩

theorem mem_itemsOfView {e : SeqE} {st : Bool} {i : ItemRef} (h : i ∈ itemsOfView e st) :
    ∃ j ∈ e.items, i.name = j.name ∧ i.len = j.len := by
  cases st with
  | false => exact ⟨i, by simpa [itemsOfView] using h, rfl, rfl⟩
  | true =>
    simp only [itemsOfView, if_true, List.mem_map, List.mem_reverse] at h
    obtain ⟨j, hj, rfl⟩ := h
    exact ⟨j, hj, rfl, rfl⟩

theorem cleanConst_ok {s : St} (hent : ∀ e ∈ s.seqs, EntryWF s.seqs e) {items : List SrcItem} {cs : List CItem}
    (h : cleanConst s items = .ok cs) : ∀ i bs, CItem.obj i bs ∈ cs → CObjOk s.seqs i bs := by
  induction items generalizing cs with
  | nil => simp [cleanConst] at h; subst h; simp
  | cons it r ih =>
    cases it with
    | nuc text =>
      obtain ⟨rest, hr, rfl⟩ := cleanConst_nuc h
      intro i bs hm
      simp only [List.mem_cons, reduceCtorEq, false_or] at hm
      exact ih hr i bs hm
    | ref n st =>
      obtain ⟨e, rest, he, hr, rfl⟩ := cleanConst_ref h
      intro i bs hm
      simp only [List.mem_cons, CItem.obj.injEq] at hm
      rcases hm with ⟨rfl, rfl⟩ | hm
      · have hn := (findE_some he).2
        exact ⟨e, by simpa [hn] using he, rfl, rfl⟩
      · exact ih hr i bs hm
    | domains n st =>
      obtain ⟨e, objs, rest, he, hs, hobjs, hr, rfl⟩ := cleanConst_domains h
      intro i bs hm
      rcases List.mem_append.mp hm with hm | hm
      · have hmap := mapM_ok_inv hobjs
        have : Except.ok (CItem.obj i bs) ∈ objs.map (Except.ok (ε := Err)) := List.mem_map.mpr ⟨_, hm, rfl⟩
        rw [← hmap] at this
        obtain ⟨i0, hi0, hf⟩ := List.mem_map.mp this
        obtain ⟨j, hj, hjn, hjl⟩ := mem_itemsOfView hi0
        obtain ⟨ie, hie, hlen⟩ := ((hent e (findE_some he).1).sup hs).1 j hj
        rw [findSeq_eq, hjn, hie] at hf
        simp only [pure, Except.pure, Except.ok.injEq, CItem.obj.injEq] at hf
        obtain ⟨rfl, rfl⟩ := hf
        exact ⟨ie, by rw [hjn]; exact hie, by rw [hjl]; exact hlen, rfl⟩
      · exact ih hr i bs hm

/-- every quoted region of the cleaned list is a quoted region of the source -/
theorem cleanConst_nucs {s : St} {items : List SrcItem} {cs : List CItem}
    (h : cleanConst s items = .ok cs) : ∀ p, CItem.nuc p ∈ cs → ∃ text, SrcItem.nuc text ∈ items ∧ p = parseQuoted text := by
  induction items generalizing cs with
  | nil => simp [cleanConst] at h; subst h; simp
  | cons it r ih =>
    cases it with
    | nuc text =>
      obtain ⟨rest, hr, rfl⟩ := cleanConst_nuc h
      intro p hm
      simp only [List.mem_cons, CItem.nuc.injEq] at hm
      rcases hm with rfl | hm
      · exact ⟨text, by simp, rfl⟩
      · obtain ⟨t, ht, hp⟩ := ih hr p hm
        exact ⟨t, by simp [ht], hp⟩
    | ref n st =>
      obtain ⟨e, rest, he, hr, rfl⟩ := cleanConst_ref h
      intro p hm
      simp only [List.mem_cons, reduceCtorEq, false_or] at hm
      obtain ⟨t, ht, hp⟩ := ih hr p hm
      exact ⟨t, by simp [ht], hp⟩
    | domains n st =>
      obtain ⟨e, objs, rest, he, hs, hobjs, hr, rfl⟩ := cleanConst_domains h
      intro p hm
      rcases List.mem_append.mp hm with hm | hm
      · have hmap := mapM_ok_inv hobjs
        have : Except.ok (CItem.nuc p) ∈ objs.map (Except.ok (ε := Err)) := List.mem_map.mpr ⟨_, hm, rfl⟩
        rw [← hmap] at this
        obtain ⟨i0, hi0, hf⟩ := List.mem_map.mp this
        split at hf
        · simp [pure, Except.pure] at hf
        · simp [throw, throwThe, MonadExceptOf.throw] at hf
      · obtain ⟨t, ht, hp⟩ := ih hr p hm
        exact ⟨t, by simp [ht], hp⟩

/-! ### segments against the final table -/

theorem wildFree_mem {cs : List CItem} (h : wildFree cs = true) {p : List (Mult × Char)} (hp : CItem.nuc p ∈ cs) :
    wildCount p = 0 := by
  induction cs with
  | nil => simp at hp
  | cons c r ih =>
    cases c with
    | obj i bs =>
      simp only [List.mem_cons, reduceCtorEq, false_or] at hp
      exact ih (by simpa [wildFree] using h) hp
    | nuc q =>
      simp only [wildFree, Bool.and_eq_true, beq_iff_eq] at h
      simp only [List.mem_cons, CItem.nuc.injEq] at hp
      rcases hp with rfl | hp
      · exact h.1
      · exact ih h.2 hp

structure SegOk (l' : List SeqE) (k : Nat) (cs : List CItem) : Prop where
  objs : ∀ i bs, CItem.obj i bs ∈ cs → CObjOk l' i bs
  anons : ∀ e ∈ anonsFrom k cs, findE l' e.name = some e

theorem SegOk.tail_obj {l' : List SeqE} {k : Nat} {i : ItemRef} {bs : List BaseRef} {r : List CItem}
    (h : SegOk l' k (.obj i bs :: r)) : SegOk l' k r :=
  ⟨fun j b hj => h.objs j b (List.mem_cons_of_mem _ hj), fun e he => h.anons e (by simpa [anonsFrom] using he)⟩

theorem SegOk.tail_nuc {l' : List SeqE} {k : Nat} {p : List (Mult × Char)} {r : List CItem}
    (h : SegOk l' k (.nuc p :: r)) : SegOk l' (k + 1) r :=
  ⟨fun j b hj => h.objs j b (List.mem_cons_of_mem _ hj), fun e he => h.anons e (by simp [anonsFrom, he])⟩

theorem seg_items_ok {l' : List SeqE} {k : Nat} {cs : List CItem} (h : SegOk l' k cs) :
    ∀ i ∈ refsFrom k cs, ItemOk l' i := by
  induction cs generalizing k with
  | nil => simp [refsFrom]
  | cons c r ih =>
    cases c with
    | obj i bs =>
      intro j hj
      simp only [refsFrom, List.mem_cons] at hj
      rcases hj with rfl | hj
      · obtain ⟨ie, h1, h2, _⟩ := h.objs j bs (by simp)
        exact ⟨ie, h1, h2⟩
      · exact ih h.tail_obj j hj
    | nuc p =>
      intro j hj
      simp only [refsFrom, List.mem_cons] at hj
      rcases hj with rfl | hj
      · have := h.anons (mkAnon k (fixedSum p) (expand 0 p)) (by simp [anonsFrom])
        exact ⟨_, by simpa [mkAnon] using this, rfl⟩
      · exact ih h.tail_nuc j hj

theorem seg_bases {l' : List SeqE} {k : Nat} {cs : List CItem} (h : SegOk l' k cs) :
    (refsFrom k cs).flatMap (viewBases l') = basesFrom k cs := by
  induction cs generalizing k with
  | nil => simp [refsFrom, basesFrom]
  | cons c r ih =>
    cases c with
    | obj i bs =>
      obtain ⟨ie, h1, _, h3⟩ := h.objs i bs (by simp)
      simp only [refsFrom, basesFrom, List.flatMap_cons, ih h.tail_obj]
      simp [viewBases, h1, h3]
    | nuc p =>
      have := h.anons (mkAnon k (fixedSum p) (expand 0 p)) (by simp [anonsFrom])
      simp only [mkAnon] at this
      simp only [refsFrom, basesFrom, List.flatMap_cons, ih h.tail_nuc]
      simp [viewBases, this, basesOfView]

theorem seg_lens {k : Nat} {cs : List CItem}
    (h : ∀ i bs, CItem.obj i bs ∈ cs → (bs.map (·.len)).sum = i.len) :
    ((basesFrom k cs).map (·.len)).sum = lenSum cs := by
  induction cs generalizing k with
  | nil => simp [basesFrom, lenSum]
  | cons c r ih =>
    cases c with
    | obj i bs =>
      simp only [basesFrom, lenSum, List.map_append, List.sum_append,
        ih (fun j b hj => h j b (List.mem_cons_of_mem _ hj)), h i bs (by simp)]
    | nuc p => simp [basesFrom, lenSum, ih (fun j b hj => h j b (List.mem_cons_of_mem _ hj))]

theorem sg_items_ok {l' : List SeqE} {sg : Segs} (h : ∀ x ∈ sg, SegOk l' x.1 x.2) : ∀ i ∈ sgRefs sg, ItemOk l' i := by
  intro i hi
  simp only [sgRefs, List.mem_flatMap] at hi
  obtain ⟨x, hx, hi⟩ := hi
  exact seg_items_ok (h x hx) i hi

theorem sg_bases {l' : List SeqE} {sg : Segs} (h : ∀ x ∈ sg, SegOk l' x.1 x.2) :
    (sgRefs sg).flatMap (viewBases l') = sgBases sg := by
  induction sg with
  | nil => rfl
  | cons x r ih =>
    simp only [sgRefs, sgBases, List.flatMap_cons, List.flatMap_append] at ih ⊢
    rw [seg_bases (h x (by simp)), ih (fun y hy => h y (by simp [hy]))]

theorem sg_lens {sg : Segs} (h : ∀ i bs, CItem.obj i bs ∈ sgItems sg → (bs.map (·.len)).sum = i.len) :
    ((sgBases sg).map (·.len)).sum = sgLen sg := by
  induction sg with
  | nil => rfl
  | cons x r ih =>
    simp only [sgBases, sgLen, sgItems, List.flatMap_cons, List.map_append, List.sum_append, List.map_cons,
      List.sum_cons, List.mem_append] at ih h ⊢
    rw [seg_lens (fun i bs hi => h i bs (Or.inl hi)), ih (fun i bs hi => h i bs (Or.inr hi))]

theorem sg_refs_lens (sg : Segs) : ((sgRefs sg).map (·.len)).sum = sgLen sg := by
  induction sg with
  | nil => rfl
  | cons x r ih =>
    simp only [sgRefs, sgLen, List.flatMap_cons, List.map_append, List.sum_append, List.map_cons, List.sum_cons] at ih ⊢
    rw [refsFrom_lenSum, ih]

/-! ### an accepted region (`cleanConst` then `buildSuper`) in a well-formed state -/

structure RegionNF (s : St) (a : Nat) (items : List SrcItem) (len : Option Nat) (cs : List CItem) (b : Built)
    (sg : Segs) : Prop where
  clean : cleanConst s items = .ok cs
  build : buildSuper a cs len = .ok b
  nf : BuildNF a b sg
  objs : ∀ i bs, CItem.obj i bs ∈ sgItems sg → CObjOk s.seqs i bs
  nucs : ∀ p, CItem.nuc p ∈ sgItems sg → ∃ text, SrcItem.nuc text ∈ items ∧
    (p = parseQuoted text ∨ ∃ x, p = explicit x (parseQuoted text))
  shape : SgShape a cs len sg

theorem region_nf {s : St} {a : Nat} (hent : ∀ e ∈ s.seqs, EntryWF s.seqs e) {items : List SrcItem}
    {len : Option Nat} {cs : List CItem} {b : Built}
    (hc : cleanConst s items = .ok cs) (hb : buildSuper a cs len = .ok b) : ∃ sg, RegionNF s a items len cs b sg := by
  obtain ⟨sg, nf, hobj, hnuc, hshape⟩ := buildSuper_nf hb
  refine ⟨sg, hc, hb, nf, fun i bs h => cleanConst_ok hent hc i bs (hobj i bs h), ?_, hshape⟩
  intro p hp
  rcases hnuc p hp with h | ⟨w, x, hw, rfl⟩
  · obtain ⟨t, ht, rfl⟩ := cleanConst_nucs hc p h
    exact ⟨t, ht, Or.inl rfl⟩
  · obtain ⟨t, ht, rfl⟩ := cleanConst_nucs hc w hw
    exact ⟨t, ht, Or.inr ⟨x, rfl⟩⟩

theorem mem_sgAnons {sg : Segs} {e : SeqE} (h : e ∈ sgAnons sg) : ∃ x ∈ sg, e ∈ anonsFrom x.1 x.2 := by
  simpa [sgAnons, List.mem_flatMap] using h

theorem sgAnons_name {sg : Segs} {e : SeqE} (h : e ∈ sgAnons sg) : ∃ j ∈ sgNums sg, e.name = anonName j := by
  have : e.name ∈ (sgAnons sg).map (·.name) := List.mem_map.mpr ⟨e, h, rfl⟩
  rw [sgAnons_names] at this
  obtain ⟨j, hj, hn⟩ := List.mem_map.mp this
  exact ⟨j, hj, hn.symm⟩

/-- everything later proofs need about the table after the anonymous sequences of a region were registered
    (`x` = the entries appended before them: nothing, or the new super-sequence) -/
structure RegionFinal (s : St) (a : Nat) (b : Built) (sg : Segs) (x : List SeqE) : Prop where
  nodup : ((s.seqs ++ x ++ sgAnons sg).map (·.name)).Nodup
  segs : ∀ y ∈ sg, SegOk (s.seqs ++ x ++ sgAnons sg) y.1 y.2
  anons : ∀ e ∈ sgAnons sg, EntryWF (s.seqs ++ x ++ sgAnons sg) e ∧ e.isSup = false ∧ e.items = [] ∧
    ∃ j, a ≤ j ∧ j < b.anon ∧ e.name = anonName j
  itemsOk : ∀ i ∈ b.items, ItemOk (s.seqs ++ x ++ sgAnons sg) i
  bases : b.bases = b.items.flatMap (viewBases (s.seqs ++ x ++ sgAnons sg))
  len : b.len = (b.items.map (·.len)).sum
  lenB : b.len = (b.bases.map (·.len)).sum
  reg : ∀ s1 : St, s1.seqs = s.seqs ++ x → registerAnon s1 b = { s1 with seqs := s.seqs ++ x ++ sgAnons sg }
  itemNames : ∀ i ∈ b.items, i.name ∈ s.seqs.map (·.name) ∨ ∃ j, a ≤ j ∧ i.name = anonName j

theorem region_final {s : St} {a : Nat} (hw : WFSeqs a s.seqs) {items : List SrcItem} {len : Option Nat}
    {cs : List CItem} {b : Built} {sg : Segs} (R : RegionNF s a items len cs b sg) (x : List SeqE)
    (hx : ∀ e ∈ x, okName e.name = true) (hnd : ((s.seqs ++ x).map (·.name)).Nodup) :
    RegionFinal s a b sg x := by
  have hnd' : ((s.seqs ++ x ++ sgAnons sg).map (·.name)).Nodup := by
    rw [List.map_append, List.nodup_append]
    refine ⟨hnd, ?_, ?_⟩
    · rw [sgAnons_names]; exact nodup_names_of_nums R.nf.nums
    · intro n1 h1 n2 h2 hn
      obtain ⟨e2, he2, rfl⟩ := List.mem_map.mp h2
      obtain ⟨j, hj, hnj⟩ := sgAnons_name he2
      obtain ⟨e1, he1, rfl⟩ := List.mem_map.mp h1
      rcases List.mem_append.mp he1 with he1 | he1
      · exact hw.fresh e1 he1 j (R.nf.range j hj).1 (hn.trans hnj)
      · exact okName_ne_anon (hx e1 he1) j (hn.trans hnj)
  have hext : Ext s.seqs (s.seqs ++ x ++ sgAnons sg) := by
    rw [List.append_assoc]; exact Ext.append _ _
  have hsegs : ∀ y ∈ sg, SegOk (s.seqs ++ x ++ sgAnons sg) y.1 y.2 := by
    intro y hy
    refine ⟨fun i bs hi => (R.objs i bs ?_).mono hext, fun e he => findE_of_mem hnd' ?_⟩
    · simp only [sgItems, List.mem_flatMap]; exact ⟨y, hy, hi⟩
    · apply List.mem_append_right
      simp only [sgAnons, List.mem_flatMap]; exact ⟨y, hy, he⟩
  have hobjlen : ∀ i bs, CItem.obj i bs ∈ sgItems sg → (bs.map (·.len)).sum = i.len := by
    intro i bs hi
    obtain ⟨ie, h1, h2, h3⟩ := R.objs i bs hi
    rw [h3, view_lens (hw.entries ie (findE_some h1).1), h2]
  refine ⟨hnd', hsegs, ?_, ?_, ?_, ?_, ?_, ?_, ?_⟩
  · intro e he
    obtain ⟨y, hy, hey⟩ := mem_sgAnons he
    obtain ⟨j, p, h1, h2, h3, rfl⟩ := mem_anonsFrom hey
    have hw0 := wildFree_mem (R.nf.free y hy) h3
    obtain ⟨j', hj', hn⟩ := sgAnons_name he
    refine ⟨⟨by simp [mkAnon], by simp [mkAnon, endsOk_anonName], fun _ => ⟨by simp [mkAnon], by simp [mkAnon, hw0], by simp [mkAnon]⟩,
      fun h => by simp [mkAnon] at h⟩, by simp [mkAnon], by simp [mkAnon], j', (R.nf.range j' hj').1, (R.nf.range j' hj').2, hn⟩
  · rw [R.nf.items]; exact sg_items_ok hsegs
  · rw [R.nf.items, R.nf.bases, sg_bases hsegs]
  · rw [R.nf.items, R.nf.len, sg_refs_lens]
  · rw [R.nf.bases, R.nf.len, sg_lens hobjlen]
  · intro s1 hs1
    rw [registerAnon_nf R.nf s1, hs1]
    · intro i bs hi
      obtain ⟨ie, h1, _⟩ := R.objs i bs hi
      rw [hs1, findE_append_of_some h1]; rfl
    · intro j hj
      rw [hs1, findE_eq_none]
      intro e he
      rcases List.mem_append.mp he with he | he
      · exact hw.fresh e he j hj
      · exact okName_ne_anon (hx e he) j
  · intro i hi
    rw [R.nf.items] at hi
    simp only [sgRefs, List.mem_flatMap] at hi
    obtain ⟨y, hy, hi⟩ := hi
    clear hsegs
    have hyobj : ∀ i bs, CItem.obj i bs ∈ y.2 → CItem.obj i bs ∈ sgItems sg := by
      intro i bs h; simp only [sgItems, List.mem_flatMap]; exact ⟨y, hy, h⟩
    have hyr : ∀ j ∈ List.range' y.1 (nucCount y.2), a ≤ j := by
      intro j hj; exact (R.nf.range j (by simp only [sgNums, List.mem_flatMap]; exact ⟨y, hy, hj⟩)).1
    obtain ⟨k, cs'⟩ := y
    simp only at hi hyobj hyr
    clear hy
    induction cs' generalizing k with
    | nil => simp [refsFrom] at hi
    | cons c r ih =>
      cases c with
      | obj i0 bs =>
        simp only [refsFrom, List.mem_cons] at hi
        rcases hi with rfl | hi
        · obtain ⟨ie, h1, _⟩ := R.objs i bs (hyobj i bs (by simp))
          obtain ⟨hm, hn⟩ := findE_some h1
          exact Or.inl (List.mem_map.mpr ⟨ie, hm, hn⟩)
        · exact ih k hi (fun i bs h => hyobj i bs (List.mem_cons_of_mem _ h)) (by simpa [nucCount] using hyr)
      | nuc p =>
        simp only [refsFrom, List.mem_cons] at hi
        rcases hi with rfl | hi
        · exact Or.inr ⟨k, hyr k (by simp [nucCount, List.mem_range'_1]), rfl⟩
        · refine ih (k + 1) hi (fun i bs h => hyobj i bs (List.mem_cons_of_mem _ h)) ?_
          intro j hj
          apply hyr
          simp only [nucCount, List.mem_range'_1] at hj ⊢
          omega

end Pepper.Comp
