import PepperProofs.EndToEndMain
import PepperProofs.ParsePilNames
/-!
# C06 end to end, at the level of the `.mfe` TEXT: the records a compiled program's `.mfe` carries are readable

`Finish.wfRec α` is what the `.mfe` reader (`nupack_out_grammar.document`) needs of a record: header number over
digits, name over `alphanums+"_-*"`, a NON-EMPTY sequence over the reader's sequence alphabet, valid numeric fields,
non-empty structure lines over `.()+`.  This file derives it for the records `mfeRecs` of a compiled program.

1. `SpecReadable spec` — the (decidable) condition on a loaded specification: every sequence and structure name is
   non-empty over `[A-Za-z0-9_-]`, NO sequence and NO strand has length 0, every structure has a strand and a
   non-empty text over `.()+`.  `recs_readable`: under it every record (with valid float tokens in the GC field) is
   `wfRec`; `recs_readable_conv`: the zero-length clause is necessary.
2. `load_readable` — `Pil.load` produces a readable specification from readable statements (`stmtReadable`).
3. `compStmts_readable`, `instStmts_readable` — the statements a compiled component / tree emits are readable:
   names from `compNamesOk` / `instNamesOk`; zero-length sequences are NOT emitted (`Emit.compStmts` filters them, as
   `compiler.py` does), a super-sequence / strand of non-zero length has a non-dummy item, strands of length 0 and
   signals of length 0 are refused by the compiler (`load_strandsNonzero`, `SysInv.lensPos`).
4. `finish_text_tokens` — finishing the rendered text (one float token per record) is finishing the record list.
-/
set_option linter.unusedSimpArgs false
namespace Pepper.EndToEndText
open Pepper Pepper.Pil Pepper.ConstraintGen Pepper.LinkSpec Pepper.EndToEnd

/-! ## 1. readable specifications give readable records -/

/-- **what the `.mfe` reader needs of a loaded specification** (decidable): every sequence name and structure name is
    non-empty over `[A-Za-z0-9_-]`; no sequence and no strand has length 0; every structure has a strand and a
    non-empty text over `.()+` -/
def specReadable (spec : Spec) : Bool :=
  spec.seqs.all (fun o => ParsePil.nameOk o.name && o.len != 0) &&
  spec.strands.all (fun o => o.len != 0) &&
  spec.structs.all (fun so => ParsePil.nameOk so.name && !so.strands.isEmpty && !so.struct.isEmpty &&
    so.struct.all Finish.isStructChar)

structure SpecReadable (spec : Spec) : Prop where
  seqs : ∀ o ∈ spec.seqs, ParsePil.nameOk o.name = true ∧ o.len ≠ 0
  strands : ∀ o ∈ spec.strands, o.len ≠ 0
  structs : ∀ so ∈ spec.structs, ParsePil.nameOk so.name = true ∧ so.strands ≠ [] ∧ so.struct ≠ [] ∧
    so.struct.all Finish.isStructChar = true

theorem specReadable_iff {spec : Spec} : specReadable spec = true ↔ SpecReadable spec := by
  simp only [specReadable, Bool.and_eq_true, List.all_eq_true, bne_iff_ne, ne_eq, Bool.not_eq_true',
    List.isEmpty_eq_false_iff]
  constructor
  · rintro ⟨⟨h1, h2⟩, h3⟩
    exact ⟨h1, h2, fun so hso => ⟨(h3 so hso).1.1.1, (h3 so hso).1.1.2, (h3 so hso).1.2, List.all_eq_true.2 (h3 so hso).2⟩⟩
  · rintro ⟨h1, h2, h3⟩
    exact ⟨⟨h1, h2⟩, fun so hso => ⟨⟨⟨(h3 so hso).1, (h3 so hso).2.1⟩, (h3 so hso).2.2.1⟩, List.all_eq_true.1 (h3 so hso).2.2.2⟩⟩

/-- the record with the float token `g` in its GC-content field -/
def withGC (x : List Char × Finish.Rec) (g : List Char) : List Char × Finish.Rec :=
  (x.1, { x.2 with fields := ["0.000000".toList, g, "0".toList] })

/-- the records with ONE FLOAT TOKEN PER RECORD in the GC-content field (`gc i` for the `i`-th record of the file) -/
def mfeRecsTok (t : CodeTable) (spec : Spec) (asg : Var → Base) (gc : Nat → List Char) :
    List (List Char × Finish.Rec) :=
  (mfeRecs t spec asg).mapIdx (fun i x => withGC x (gc i))

theorem mapIdx_const {α β : Type} (f : α → β) (l : List α) : l.mapIdx (fun _ x => f x) = l.map f := by
  induction l with
  | nil => rfl
  | cons a r ih => simp [List.mapIdx_cons, ih]

theorem map_mapIdx' {α β γ : Type} (g : β → γ) (h : α → γ) : ∀ (l : List α) (f : Nat → α → β),
    (∀ i x, g (f i x) = h x) → (l.mapIdx f).map g = l.map h
  | [], _, _ => rfl
  | a :: r, f, hf => by
    rw [List.mapIdx_cons, List.map_cons, List.map_cons, hf 0 a, map_mapIdx' g h r _ (fun i x => hf (i + 1) x)]

theorem mfeRecsGC_eq (t : CodeTable) (spec : Spec) (asg : Var → Base) (g : List Char) :
    mfeRecsGC t spec asg g = mfeRecsTok t spec asg (fun _ => g) := by
  unfold mfeRecsGC mfeRecsTok withGC
  rw [mapIdx_const]

theorem mfeRecsTok_design (t : CodeTable) (spec : Spec) (asg : Var → Base) (gc : Nat → List Char) :
    (mfeRecsTok t spec asg gc).map (fun x => (x.2.name, x.2.seq)) = mfeDesign t spec asg := by
  unfold mfeRecsTok mfeDesign
  exact map_mapIdx' _ _ _ _ (fun _ _ => rfl)

/-! ### the pieces of a record -/

theorem okWord_nat (n : Nat) : Finish.okWord Char.isDigit (toString n).toList = true := by
  rw [Finish.okWord_iff]
  have h : (toString n).toList = Nat.toDigits 10 n := Nat.toList_repr
  rw [h]
  exact ⟨Nat.toDigits_ne_nil, fun c hc => Nat.isDigit_of_mem_toDigits (by omega) (by omega) hc⟩

theorem nameChar_var {c : Char} (h : ParsePil.isNameChar c = true) : Finish.isVarChar c = true := by
  simp only [ParsePil.isNameChar, Finish.isVarChar, Bool.or_eq_true] at h ⊢
  exact Or.inl h

/-- a name over `[A-Za-z0-9_-]`, plain or starred, is a word of the reader's name alphabet `alphanums+"_-*"` -/
theorem okWord_name {s : String} (h : ParsePil.nameOk s = true) (star : Bool) :
    Finish.okWord Finish.isVarChar (if star then s ++ "*" else s).toList = true := by
  simp only [ParsePil.nameOk, Bool.and_eq_true, Bool.not_eq_true', List.isEmpty_eq_false_iff, List.all_eq_true] at h
  rw [Finish.okWord_iff]
  cases star
  · exact ⟨h.1, fun c hc => nameChar_var (h.2 c hc)⟩
  · simp only [if_true, String.toList_append]
    refine ⟨fun hn => h.1 (List.append_eq_nil_iff.1 hn).1, fun c hc => ?_⟩
    rcases List.mem_append.1 hc with hc | hc
    · exact nameChar_var (h.2 c hc)
    · have : ∀ c ∈ "*".toList, Finish.isVarChar c = true := by decide
      exact this c hc

theorem code_alpha : ∀ c ∈ Generated.pilTable.codes, Generated.alphaMfeSeq.contains c = true := by decide

/-- every code of the designer's table is a letter of the reader's sequence alphabet -/
theorem isCode_alpha {c : Char} (h : Generated.pilTable.isCode c = true) : Generated.alphaMfeSeq.contains c = true :=
  code_alpha c (ParsePil.assoc_isSome_mem _ c h)

theorem base_alpha (b : Base) : Generated.alphaMfeSeq.contains b.toChar = true := by cases b <;> decide

theorem mem_joinPlus {c : Char} : ∀ {l : List (List Char)}, c ∈ Mfe.joinPlus l → c = '+' ∨ ∃ x ∈ l, c ∈ x
  | [], h => nomatch h
  | [x], h => Or.inr ⟨x, by simp, h⟩
  | x :: y :: r, h => by
    simp only [Mfe.joinPlus, List.mem_append, List.mem_cons] at h
    rcases h with h | h | h
    · exact Or.inr ⟨x, by simp, h⟩
    · exact Or.inl h
    · rcases mem_joinPlus (l := y :: r) h with h | ⟨z, hz, hc⟩
      · exact Or.inl h
      · exact Or.inr ⟨z, List.mem_cons_of_mem _ hz, hc⟩

theorem joinPlus_ne_nil {l : List (List Char)} (hl : l ≠ []) (h : ∀ x ∈ l, x ≠ []) : Mfe.joinPlus l ≠ [] := by
  cases l with
  | nil => exact absurd rfl hl
  | cons x r =>
    cases r with
    | nil => exact h x (by simp)
    | cons y r' => simp [Mfe.joinPlus]

theorem strandVal_ne_nil {spec : Spec} (wf : SpecWF spec) (hz : ∀ o ∈ spec.strands, o.len ≠ 0) (asg : Var → Base)
    {sn : String} (hs : (spec.findStrand sn).isSome = true) : strandVal spec asg sn ≠ [] := by
  obtain ⟨st, hst⟩ := Option.isSome_iff_exists.1 hs
  have hm := (findStrand_mem hst).1
  intro hnil
  have hl := congrArg List.length hnil
  unfold strandVal at hl
  rw [spell_length, strandNucs_denote, hst] at hl
  simp only [List.length_nil] at hl
  rw [wf.strandLen st hm] at hl
  exact hz st hm hl

/-- the records, without the arithmetic of their numbers -/
theorem mem_mfeRecs {t : CodeTable} {spec : Spec} {asg : Var → Base} {x : List Char × Finish.Rec}
    (h : x ∈ mfeRecs t spec asg) :
    (∃ (n : Nat) (so : StructObj), so ∈ spec.structs ∧ x = ((toString n).toList,
        (⟨so.name.toList, Mfe.joinPlus (so.strands.map (strandVal spec asg)), mfeFields, so.struct, so.struct⟩ :
          Finish.Rec))) ∨
    (∃ (n : Nat) (o : SeqObj) (star : Bool), o ∈ spec.seqs ∧ x = ((toString n).toList,
        (⟨(if star then o.name ++ "*" else o.name).toList, spellT t (Pil.denote spec) asg (viewNucs o star), mfeFields,
          List.replicate o.len '.', List.replicate o.len '.'⟩ : Finish.Rec))) := by
  unfold mfeRecs at h
  rcases List.mem_append.1 h with h | h
  · obtain ⟨p, hp, rfl⟩ := List.mem_map.1 h
    exact Or.inl ⟨p.1, p.2, (List.of_mem_zip hp).2, rfl⟩
  · obtain ⟨p, hp, hx⟩ := List.mem_flatMap.1 h
    simp only [List.mem_cons, List.mem_nil_iff, or_false] at hx
    rcases hx with rfl | rfl
    · exact Or.inr ⟨p.1 + spec.structs.length, p.2, false, (List.of_mem_zip hp).2, rfl⟩
    · exact Or.inr ⟨0, p.2, true, (List.of_mem_zip hp).2, rfl⟩

theorem fields_ok {g : List Char} (hg1 : Finish.okWord Finish.isNumChar g = true) (hg2 : Finish.validFloat g = true) :
    (((Finish.okWord Finish.isNumChar "0.000000".toList = true ∧ Finish.validFloat "0.000000".toList = true) ∧
        Finish.okWord Finish.isNumChar g = true) ∧ Finish.validFloat g = true) ∧
      Finish.okWord Char.isDigit "0".toList = true :=
  ⟨⟨⟨⟨by decide, by decide⟩, hg1⟩, hg2⟩, by decide⟩

/-- **Readable records.**  For a well-formed specification with templates over the designer's table that is
    `SpecReadable`, every record of `mfeRecs`, with ANY valid float token in its GC-content field, is a record the
    `.mfe` reader reads back (`wfRec` over the reader's sequence alphabet). -/
theorem rec_readable {spec : Spec} (wf : SpecWF spec) (ok : SpecCodes Generated.pilTable spec)
    (hr : SpecReadable spec) (asg : Var → Base) {x : List Char × Finish.Rec}
    (hx : x ∈ mfeRecs Generated.pilTable spec asg) {g : List Char}
    (hg1 : Finish.okWord Finish.isNumChar g = true) (hg2 : Finish.validFloat g = true) :
    Finish.wfRec Generated.alphaMfeSeq (withGC x g) = true := by
  rcases mem_mfeRecs hx with ⟨n, so, hso, rfl⟩ | ⟨n, o, star, ho, rfl⟩
  · obtain ⟨hname, hne, hs1, hs2⟩ := hr.structs so hso
    simp only [Finish.wfRec, withGC, Bool.and_eq_true]
    refine ⟨⟨⟨⟨⟨okWord_nat n, okWord_name hname false⟩, ?_⟩, fields_ok hg1 hg2⟩, ?_⟩, ?_⟩
    · rw [Finish.okWord_iff]
      refine ⟨joinPlus_ne_nil (by simpa using hne) ?_, ?_⟩
      · intro v hv
        obtain ⟨sn, hsn, rfl⟩ := List.mem_map.1 hv
        exact strandVal_ne_nil wf hr.strands asg ((wf.struct so hso).1 sn hsn)
      · intro c hc
        rcases mem_joinPlus hc with rfl | ⟨v, hv, hcv⟩
        · decide
        · obtain ⟨sn, _, rfl⟩ := List.mem_map.1 hv
          simp only [strandVal, spell, List.mem_map] at hcv
          obtain ⟨m, _, rfl⟩ := hcv
          exact base_alpha _
    · exact Finish.okWord_iff.2 ⟨hs1, List.all_eq_true.1 hs2⟩
    · exact Finish.okWord_iff.2 ⟨hs1, List.all_eq_true.1 hs2⟩
  · obtain ⟨hname, hlen⟩ := hr.seqs o ho
    have hdots : Finish.okWord Finish.isStructChar (List.replicate o.len '.') = true := by
      rw [Finish.okWord_iff]
      refine ⟨fun h => hlen (by simpa using congrArg List.length h), fun c hc => ?_⟩
      rw [List.eq_of_mem_replicate hc]; decide
    simp only [Finish.wfRec, withGC, Bool.and_eq_true]
    refine ⟨⟨⟨⟨⟨okWord_nat n, okWord_name hname star⟩, ?_⟩, fields_ok hg1 hg2⟩, hdots⟩, hdots⟩
    rw [Finish.okWord_iff]
    constructor
    · intro h
      have := congrArg List.length h
      rw [spellT_length, viewNucs_length, wf.seqLen o ho] at this
      exact hlen this
    · intro c hc
      simp only [spellT, List.mem_map] at hc
      obtain ⟨m, hm, rfl⟩ := hc
      exact isCode_alpha (letter_isCode pilLawful pil_complBases asg (known_viewNucs wf ok ho star m hm))

/-- the same for the whole list, one token per record -/
theorem recs_readable {spec : Spec} (wf : SpecWF spec) (ok : SpecCodes Generated.pilTable spec)
    (hr : SpecReadable spec) (asg : Var → Base) {gc : Nat → List Char}
    (hgc : ∀ i, Finish.okWord Finish.isNumChar (gc i) = true ∧ Finish.validFloat (gc i) = true) :
    ∀ x ∈ mfeRecsTok Generated.pilTable spec asg gc, Finish.wfRec Generated.alphaMfeSeq x = true := by
  intro x hx
  unfold mfeRecsTok at hx
  obtain ⟨i, hi, rfl⟩ := List.mem_mapIdx.1 hx
  exact rec_readable wf ok hr asg (List.getElem_mem hi) (hgc i).1 (hgc i).2

/-- **the zero-length clause is necessary**: a sequence of length 0 in the specification makes its record unreadable
    (the reader's `seq = Word(…)` needs one letter; and the real `Convert.output` divides by `seq.length`) -/
theorem unreadable_of_zero {spec : Spec} (wf : SpecWF spec) {o : SeqObj} (ho : o ∈ spec.seqs) (hz : o.len = 0)
    (t : CodeTable) (asg : Var → Base) (g : List Char) :
    ∃ x ∈ mfeRecsGC t spec asg g, Finish.wfRec Generated.alphaMfeSeq x = false := by
  obtain ⟨k, hk⟩ := List.getElem?_of_mem ho
  have hlt : k < spec.seqs.length := (List.getElem?_eq_some_iff.1 hk).1
  have hzip : (k, o) ∈ List.zip (List.range spec.seqs.length) spec.seqs := by
    have hk' : spec.seqs[k] = o := (List.getElem?_eq_some_iff.1 hk).2
    have : (List.zip (List.range spec.seqs.length) spec.seqs)[k]'(by simp [List.length_zip]; exact hlt) = (k, o) := by
      rw [List.getElem_zip]; simp [hk']
    rw [← this]; exact List.getElem_mem _
  refine ⟨withGC ((toString (k + spec.structs.length)).toList,
      (⟨o.name.toList, spellT t (Pil.denote spec) asg (viewNucs o false), mfeFields,
        List.replicate o.len '.', List.replicate o.len '.'⟩ : Finish.Rec)) g, ?_, ?_⟩
  · unfold mfeRecsGC
    refine List.mem_map.2 ⟨_, ?_, rfl⟩
    unfold mfeRecs
    exact List.mem_append_right _ (List.mem_flatMap.2 ⟨(k, o), hzip, by simp⟩)
  · have hnil : spellT t (Pil.denote spec) asg (viewNucs o false) = [] := by
      apply List.eq_nil_of_length_eq_zero
      rw [spellT_length, wf.seqLen o ho, hz]
    simp [Finish.wfRec, withGC, hnil, Finish.okWord]

/-! ## 2. `Pil.load` keeps specifications readable -/

/-- what the `.mfe` needs of a PIL statement: a declared sequence / structure name is non-empty over `[A-Za-z0-9_-]`,
    a template is not empty, a super-sequence / strand has an item, a structure text is not empty -/
def stmtReadable : Pil.Stmt → Bool
  | .seq n t => ParsePil.nameOk n && !t.isEmpty
  | .sup n its => ParsePil.nameOk n && !its.isEmpty
  | .strand _ _ its => !its.isEmpty
  | .struct n _ _ st => ParsePil.nameOk n && !st.isEmpty
  | _ => true

theorem resolveItems_ne_nil {s : Spec} {items : List String} {R : List (ItemRef × SeqObj)}
    (h : resolveItems s items = .ok R) (hne : items ≠ []) : R ≠ [] := by
  cases items with
  | nil => exact absurd rfl hne
  | cons x xs =>
    simp only [resolveItems, bind, Except.bind] at h
    cases h1 : resolveItem s x with
    | error e => rw [h1] at h; cases h
    | ok y =>
      rw [h1] at h
      simp only at h
      cases h2 : resolveItems s xs with
      | error e => rw [h2] at h; cases h
      | ok ys =>
        rw [h2] at h
        simp only [pure, Except.pure, Except.ok.injEq] at h
        subst h
        simp

/-- the summed length of resolved items, all of non-zero length, is non-zero -/
theorem sum_lens_ne_zero {s : Spec} (hs : ∀ o ∈ s.seqs, o.len ≠ 0) {items : List String}
    {R : List (ItemRef × SeqObj)} (h : resolveItems s items = .ok R) (hne : items ≠ []) :
    (R.map (fun x => x.2.len)).sum ≠ 0 := by
  have hR := resolveItems_ne_nil h hne
  have hmem := resolveItems_ok h
  cases R with
  | nil => exact absurd rfl hR
  | cons p r =>
    have := hs p.2 (findSeq_mem (hmem p (by simp))).1
    simp only [List.map_cons, List.sum_cons]
    omega

theorem add_readable {tbl : CodeTable} {s s' : Spec} {st : Stmt} (hr : SpecReadable s)
    (hst : stmtReadable st = true) (h : s.add tbl st = .ok s') : SpecReadable s' := by
  cases st with
  | seq name template =>
    simp only [stmtReadable, Bool.and_eq_true, Bool.not_eq_true', List.isEmpty_eq_false_iff] at hst
    simp only [Pil.Spec.add] at h
    split at h
    · cases h
    · split at h
      · cases h
      · simp only [Except.ok.injEq] at h
        subst h
        refine ⟨?_, hr.strands, hr.structs⟩
        intro o ho
        rcases List.mem_append.1 ho with ho | ho
        · exact hr.seqs o ho
        · simp only [List.mem_singleton] at ho
          subst ho
          exact ⟨hst.1, fun hz => hst.2 (List.eq_nil_of_length_eq_zero hz)⟩
  | sup name items =>
    simp only [stmtReadable, Bool.and_eq_true, Bool.not_eq_true', List.isEmpty_eq_false_iff] at hst
    simp only [Pil.Spec.add, bind, Except.bind] at h
    split at h
    · cases h
    · cases hR : Pil.resolveItems s items with
      | error e => rw [hR] at h; cases h
      | ok R =>
        rw [hR] at h
        simp only [pure, Except.pure, Except.ok.injEq] at h
        subst h
        refine ⟨?_, hr.strands, hr.structs⟩
        intro o ho
        rcases List.mem_append.1 ho with ho | ho
        · exact hr.seqs o ho
        · simp only [List.mem_singleton] at ho
          subst ho
          exact ⟨hst.1, sum_lens_ne_zero (fun o ho => (hr.seqs o ho).2) hR hst.2⟩
  | strand name dummy items =>
    simp only [stmtReadable, Bool.not_eq_true', List.isEmpty_eq_false_iff] at hst
    simp only [Pil.Spec.add, bind, Except.bind] at h
    split at h
    · cases h
    · cases hR : Pil.resolveItems s items with
      | error e => rw [hR] at h; cases h
      | ok R =>
        rw [hR] at h
        simp only [pure, Except.pure, Except.ok.injEq] at h
        subst h
        refine ⟨hr.seqs, ?_, hr.structs⟩
        intro o ho
        rcases List.mem_append.1 ho with ho | ho
        · exact hr.strands o ho
        · simp only [List.mem_singleton] at ho
          subst ho
          exact sum_lens_ne_zero (fun o ho => (hr.seqs o ho).2) hR hst
  | struct name params strands x =>
    simp only [stmtReadable, Bool.and_eq_true, Bool.not_eq_true', List.isEmpty_eq_false_iff] at hst
    obtain ⟨hch, hss⟩ := ParsePil.add_struct_shape h
    simp only [Pil.Spec.add, bind, Except.bind] at h
    split at h
    · cases h
    · split at h
      · cases h
      · split at h
        · cases h
        · split at h
          · cases h
          · split at h
            · cases h
            · split at h
              · cases h
              · simp only [pure, Except.pure, Except.ok.injEq] at h
                subst h
                refine ⟨hr.seqs, hr.strands, ?_⟩
                intro so hso
                rcases List.mem_append.1 hso with hso | hso
                · exact hr.structs so hso
                · simp only [List.mem_singleton] at hso
                  subst hso
                  exact ⟨hst.1, by simpa using hss, hst.2, hch⟩
  | equal items =>
    simp only [Pil.Spec.add, bind, Except.bind] at h
    cases hR : Pil.resolveItems s items with
    | error e => rw [hR] at h; cases h
    | ok R =>
      rw [hR] at h
      simp only at h
      cases R with
      | nil => cases h
      | cons y ys =>
        simp only at h
        split at h
        · cases h
        · simp only [pure, Except.pure, Except.ok.injEq] at h
          subst h
          exact ⟨hr.seqs, hr.strands, hr.structs⟩
  | kinetic =>
    simp only [Pil.Spec.add, pure, Except.pure, Except.ok.injEq] at h
    subst h
    exact hr

/-- **`Pil.load` produces a readable specification from readable statements** -/
theorem load_readable {tbl : CodeTable} : ∀ (ys : List Stmt) (s0 s1 : Spec), Pil.load tbl ys s0 = .ok s1 →
    (∀ st ∈ ys, stmtReadable st = true) → SpecReadable s0 → SpecReadable s1 := by
  intro ys
  induction ys with
  | nil =>
    intro s0 s1 h _ hr
    simp only [Pil.load, Except.ok.injEq] at h
    subst h
    exact hr
  | cons x r ih =>
    intro s0 s1 h hst hr
    simp only [Pil.load] at h
    cases ha : s0.add tbl x with
    | error e => rw [ha] at h; cases h
    | ok sa =>
      rw [ha] at h
      exact ih sa s1 h (fun st hm => hst st (List.mem_cons_of_mem _ hm)) (add_readable hr (hst x (by simp)) ha)

theorem specReadable_empty : SpecReadable {} :=
  ⟨fun _ h => (nomatch h), fun _ h => (nomatch h), fun _ h => (nomatch h)⟩

/-! ## 3. the statements of a compiled component / tree are readable -/

/-- **every strand of a loaded component has a positive length, every structure a non-empty text**
    (`component_class.py`: "Strand … was defined with length 0") -/
theorem load_NZ {src : Comp.Src} {n : Nat} {pfx : String} {a : Nat} {st : Comp.St} {a' : Nat}
    (h : Comp.load src n pfx a = .ok (st, a')) : ParsePil.NZ st := by
  obtain ⟨s, hadd, hio⟩ := Comp.load_inv h
  have hz0 : ParsePil.NZ { name := src.name, pfx := pfx, params := src.params } :=
    And.intro (fun _ hm => nomatch hm) (fun _ hm => nomatch hm)
  have hz : ParsePil.NZ s := ParsePil.addStmts_NZ src.stmts hz0 hadd
  obtain ⟨⟨_, _, hst, hsu, _⟩, _⟩ := Comp.addIO_inv hio
  exact ⟨by rw [hst]; exact hz.1, by rw [hsu]; exact hz.2⟩

/-- a list of items of non-zero total length has a non-dummy item -/
theorem items_ne_nil {l : List Comp.ItemRef} (h : (l.map (·.len)).sum ≠ 0) : l.filter (!·.dummy) ≠ [] := by
  induction l with
  | nil => exact absurd rfl h
  | cons i r ih =>
    by_cases hi : i.len = 0
    · have : (r.map (·.len)).sum ≠ 0 := by simpa [hi] using h
      have hd : (!i.dummy) = false := by simp [Comp.ItemRef.dummy, hi]
      rw [List.filter_cons, hd]
      exact ih this
    · have hd : (!i.dummy) = true := by simp [Comp.ItemRef.dummy, hi]
      rw [List.filter_cons, hd]
      simp

/-- the statements a loaded component emits are readable: zero-length sequences are not emitted, an emitted
    super-sequence / strand has a non-dummy item, an emitted template / structure text is not empty -/
theorem compStmts_readable {s : Comp.St} {a : Nat} (hw : Comp.WF s a) (hn : ParsePil.compNamesOk s = true)
    (hz : ParsePil.NZ s) : ∀ st ∈ Emit.compStmts s, stmtReadable st = true := by
  simp only [ParsePil.compNamesOk, Bool.and_eq_true, List.all_eq_true] at hn
  obtain ⟨⟨⟨⟨h1, h2⟩, _⟩, h4⟩, _⟩ := hn
  intro st hst
  simp only [Emit.compStmts, List.mem_append, List.mem_map] at hst
  rcases hst with ((⟨e, he, rfl⟩ | ⟨e, he, rfl⟩) | ⟨t, ht, rfl⟩) | ⟨e, he, rfl⟩
  · obtain ⟨hel, hb, hlen⟩ := (Comp.mem_baseF s e).mp he
    obtain ⟨_, hc, _⟩ := (hw.seqs.entries e hel).base hb
    simp only [stmtReadable, Bool.and_eq_true, Bool.not_eq_true', List.isEmpty_eq_false_iff]
    refine ⟨h1 e he, fun hnil => hlen ?_⟩
    rw [← hc, hnil]; rfl
  · obtain ⟨hel, hsup, hlen⟩ := (Comp.mem_supF s e).mp he
    obtain ⟨_, _, hsum, _⟩ := (hw.seqs.entries e hel).sup hsup
    simp only [stmtReadable, Bool.and_eq_true, Bool.not_eq_true', List.isEmpty_eq_false_iff]
    refine ⟨(h2 e he).1, ?_⟩
    intro hnil
    exact items_ne_nil (by rw [← hsum]; exact hlen) (List.map_eq_nil_iff.1 hnil)
  · simp only [stmtReadable, Bool.not_eq_true', List.isEmpty_eq_false_iff]
    intro hnil
    exact items_ne_nil (by rw [← (hw.strands t ht).len]; exact hz.1 t ht) (List.map_eq_nil_iff.1 hnil)
  · simp only [stmtReadable, Bool.and_eq_true, Bool.not_eq_true', List.isEmpty_eq_false_iff]
    exact ⟨(h4 e he).1.1, hz.2 e he⟩

theorem instNamesOk_of_mem : ∀ {comps : List (String × Sys.Inst)}, ParsePil.compsNamesOk comps = true →
    ∀ c ∈ comps, ParsePil.instNamesOk c.2 = true
  | [], _, _, hc => nomatch hc
  | (n, i) :: r, h, c, hc => by
    simp only [ParsePil.compsNamesOk, Bool.and_eq_true] at h
    rcases List.mem_cons.1 hc with rfl | hc
    · exact h.1
    · exact instNamesOk_of_mem h.2 c hc

open Pepper.Sys Pepper.LoadInv in
/-- the statements a loaded tree emits are readable: the components' statements, and for every signal a connector
    sequence `pfx ++ signal` of the signal's length, which is not 0 (`system_class.py`: "Dummy signals are not
    allowed") -/
theorem instStmts_readable {Q : Sys.SSrc → Prop} {pfx : String} {inst : Sys.Inst}
    (hL : Loaded (fun c => StmtNamesOk c = true) Q pfx inst) :
    ParsePil.instNamesOk inst = true → ∀ st ∈ Emit.instStmts inst, stmtReadable st = true := by
  induction hL with
  | comp hP hload =>
    intro hn st hst
    rw [SysProofs.instStmts_comp] at hst
    simp only [ParsePil.instNamesOk] at hn
    exact compStmts_readable (load_inv_all hload hP).1.wf hn (load_NZ hload) st hst
  | sys hQ hsub hinv hio ih =>
    rename_i s path name pfx tm sg lens comps
    intro hn st hst
    simp only [ParsePil.instNamesOk, ParsePil.sysNamesOk, Bool.and_eq_true] at hn
    rw [SysProofs.instStmts_sys, SysProofs.sysStmts_eq] at hst
    simp only [Sys.SysSt.components, Sys.SysSt.signals, Sys.SysSt.pfx, Sys.SysSt.lengths] at hst
    rcases List.mem_append.1 hst with hst | hst
    · obtain ⟨c, hc, hs⟩ := mem_compsStmts hst
      exact ih c hc (instNamesOk_of_mem hn.1 c hc) st hs
    · simp only [List.mem_flatMap] at hst
      obtain ⟨x, hx, hsx⟩ := hst
      simp only [SysProofs.sigStmts, List.mem_cons, List.mem_nil_iff, or_false] at hsx
      rcases hsx with rfl | rfl
      · have hname : ParsePil.nameOk (pfx ++ x.1) = true := by
          have := hn.2
          simp only [ParsePil.signalsEmitOk, List.all_eq_true, Bool.and_eq_true] at this
          exact (this x hx).1
        have hk : x.1 ∈ lens.map (·.1) := by rw [hinv.keys]; exact List.mem_map.2 ⟨x, hx, rfl⟩
        obtain ⟨l, hl⟩ := Option.isSome_iff_exists.1 (lookup_isSome_iff.2 hk)
        have hl0 : l ≠ 0 := hinv.lensPos _ (lookup_mem hl)
        simp only [stmtReadable, hl, Option.getD_some, Bool.and_eq_true, Bool.not_eq_true',
          List.isEmpty_eq_false_iff]
        refine ⟨hname, fun hnil => hl0 ?_⟩
        simpa using congrArg List.length hnil
      · rfl

/-! ## 4. assembly -/

open Pepper.Sys Pepper.LoadInv in
/-- **the specification a compiled tree loads to is readable**, given the names predicate `instNamesOk` on the tree -/
theorem specReadable_of_tree {tbl : CodeTable} {Q : Sys.SSrc → Prop} {pfx : String} {inst : Sys.Inst}
    (hL : Loaded (fun c => StmtNamesOk c = true) Q pfx inst) (hn : ParsePil.instNamesOk inst = true)
    {spec : Spec} (hload : Pil.load tbl (Emit.instStmts inst) {} = .ok spec) : SpecReadable spec :=
  load_readable _ _ _ hload (instStmts_readable hL hn) specReadable_empty

/-- **Through the file, one float token per record**: for a readable specification, finishing the rendered TEXT of the
    records — with ANY valid float token `gc i` in the GC-content field of the `i`-th record — is finishing the record
    list -/
theorem finish_text_tokens {tF : CodeTable} {spec : Spec} (wf : SpecWF spec)
    (ok : SpecCodes Generated.pilTable spec) (hr : SpecReadable spec) (asg : Var → Base) {gc : Nat → List Char}
    (hgc : ∀ i, Finish.okWord Finish.isNumChar (gc i) = true ∧ Finish.validFloat (gc i) = true)
    (inst : Sys.Inst) (out : Finish.Out) :
    Finish.finishText tF Generated.alphaMfeSeq inst
        (Finish.render (mfeRecsTok Generated.pilTable spec asg gc) "0.000000".toList) = .ok out ↔
      Finish.apply tF inst (mfeDesign Generated.pilTable spec asg) = .ok out := by
  rw [Finish.finishText_ok_iff, Finish.readDesign_render (by decide) (by decide) (by decide) _
    (recs_readable wf ok hr asg hgc), mfeRecsTok_design]
  simp

end Pepper.EndToEndText
