import PepperModel.FixSpec
import PepperProofs.Codes
/-!
# Proofs about fixed sequences (C12): the code path `Fix.fixItem` / `fixList` / `fixStrand` / `fixStruct` /
`fixSignal` against the specification `FixSpec.specFix` (positions read off `base_seqs`, one `narrow` per letter)

Outline: (A) algebra of code intersection for a lawful table; (B) `narrow` at two positions commutes, hence
folds of `narrow` are invariant under permutation; (C) a fix only changes constraint strings (`skel`) and
preserves the invariant `wfB`; (D) the atomic case; (E) the main induction over the reference depth.
-/
namespace Pepper.FixSpec
open Pepper.Comp Pepper.Fix Pepper.CodeTable Pepper.Sys

theorem complC_eq (t : CodeTable) (c : Char) : complC t c = t.complD c := rfl

theorem isCode_of_maskC_ne_zero {t : CodeTable} {c : Char} (h : t.maskC c ≠ 0) : t.isCode c = true := by
  unfold maskC at h
  unfold isCode
  cases hg : t.groupOf c with
  | none => simp [hg] at h
  | some g => rfl

theorem intersect_isCode {t : CodeTable} {c d e : Char} (h : t.intersect c d = .ok e) :
    t.isCode c = true ∧ t.isCode d = true := by
  unfold intersect at h
  unfold isCode
  cases hc : t.groupOf c <;> cases hd : t.groupOf d <;> simp [hc, hd] at h ⊢

/-- `intersect` succeeds exactly with the code of the intersection of the two base sets -/
theorem intersect_eq_ok_iff {t : CodeTable} (hl : t.lawful = true) {c d e : Char} :
    t.intersect c d = .ok e ↔
      t.isCode c = true ∧ t.isCode d = true ∧ t.isCode e = true ∧ t.maskC e = t.maskC c &&& t.maskC d := by
  constructor
  · intro h
    obtain ⟨hc, hd⟩ := intersect_isCode h
    by_cases h0 : t.maskC c &&& t.maskC d = 0
    · rw [intersect_empty hl hc hd h0] at h; cases h
    · obtain ⟨e', he', hm⟩ := intersect_ok hl hc hd h0
      rw [he'] at h
      cases h
      exact ⟨hc, hd, isCode_of_maskC_ne_zero (by rw [hm]; exact h0), hm⟩
  · rintro ⟨hc, hd, he, hm⟩
    have h0 : t.maskC c &&& t.maskC d ≠ 0 := by
      rw [← hm]; exact Nat.ne_of_gt (maskC_pos hl he).1
    obtain ⟨e', he', hm'⟩ := intersect_ok hl hc hd h0
    have : e' = e := maskC_inj hl (isCode_of_maskC_ne_zero (by rw [hm']; exact h0)) he (by rw [hm', hm])
    rw [he', this]

theorem interO_eq_some_iff {t : CodeTable} (hl : t.lawful = true) {c d e : Char} :
    interO t c d = some e ↔
      t.isCode c = true ∧ t.isCode d = true ∧ t.isCode e = true ∧ t.maskC e = t.maskC c &&& t.maskC d := by
  rw [← intersect_eq_ok_iff hl]
  unfold interO
  cases t.intersect c d <;> simp

theorem interO_eq_none_iff {t : CodeTable} (hl : t.lawful = true) {c d : Char}
    (hc : t.isCode c = true) (hd : t.isCode d = true) :
    interO t c d = none ↔ t.maskC c &&& t.maskC d = 0 := by
  constructor
  · intro h
    apply Decidable.byContradiction
    intro h0
    obtain ⟨e, he, _⟩ := intersect_ok hl hc hd h0
    simp [interO, he] at h
  · intro h0
    simp [interO, intersect_empty hl hc hd h0]

theorem interO_bind_iff {t : CodeTable} (hl : t.lawful = true) {x d d' e : Char} :
    (interO t x d).bind (interO t · d') = some e ↔
      t.isCode x = true ∧ t.isCode d = true ∧ t.isCode d' = true ∧ t.isCode e = true ∧
      t.maskC e = t.maskC x &&& t.maskC d &&& t.maskC d' := by
  constructor
  · intro h
    obtain ⟨y, hy, hye⟩ := Option.bind_eq_some_iff.1 h
    obtain ⟨hx, hd, _, hm⟩ := (interO_eq_some_iff hl).1 hy
    obtain ⟨_, hd', he, hm'⟩ := (interO_eq_some_iff hl).1 hye
    exact ⟨hx, hd, hd', he, by rw [hm', hm]⟩
  · rintro ⟨hx, hd, hd', he, hm⟩
    have hpos := (maskC_pos hl he).1
    have h0 : t.maskC x &&& t.maskC d ≠ 0 := by
      intro h0; rw [h0, Nat.zero_and] at hm; omega
    obtain ⟨y, hy, hmy⟩ := intersect_ok hl hx hd h0
    have hyc : t.isCode y = true := isCode_of_maskC_ne_zero (by rw [hmy]; exact h0)
    have h1 : interO t x d = some y := by simp [interO, hy]
    rw [h1, Option.bind_some]
    exact (interO_eq_some_iff hl).2 ⟨hyc, hd', he, by rw [hm, hmy]⟩

/-- narrowing by two letters does not depend on their order -/
theorem interO_comm3 {t : CodeTable} (hl : t.lawful = true) (x d d' : Char) :
    (interO t x d).bind (interO t · d') = (interO t x d').bind (interO t · d) := by
  apply Option.ext
  intro e
  rw [interO_bind_iff hl, interO_bind_iff hl]
  have hc : t.maskC x &&& t.maskC d &&& t.maskC d' = t.maskC x &&& t.maskC d' &&& t.maskC d := by
    rw [Nat.and_assoc, Nat.and_comm (t.maskC d), ← Nat.and_assoc]
  rw [hc]
  constructor <;> (rintro ⟨a, b, c, d, e⟩; exact ⟨a, c, b, d, e⟩)

theorem complC_mask {t : CodeTable} (hl : t.lawful = true) {c : Char} (hc : t.isCode c = true) :
    t.maskC (complC t c) = complMask (t.maskC c) :=
  complOf_mask hl (complOf_eq_complD hl hc)


/-! ### narrowing one constraint string -/

theorem narrowC_length {t : CodeTable} {cs cs' : List Char} {i : Nat} {d : Char}
    (h : narrowC t cs i d = some cs') : cs'.length = cs.length := by
  unfold narrowC at h
  obtain ⟨x, _, h⟩ := Option.bind_eq_some_iff.1 h
  obtain ⟨y, _, h⟩ := Option.map_eq_some_iff.1 h
  subst h; simp

theorem narrowC_comm {t : CodeTable} (hl : t.lawful = true) (cs : List Char) (i j : Nat) (d d' : Char) :
    (narrowC t cs i d).bind (narrowC t · j d') = (narrowC t cs j d').bind (narrowC t · i d) := by
  by_cases hij : i = j
  · subst hij
    unfold narrowC
    cases hx : cs[i]? with
    | none => simp
    | some x =>
      have hi : i < cs.length := by
        rcases Nat.lt_or_ge i cs.length with h | h
        · exact h
        · rw [List.getElem?_eq_none h] at hx; cases hx
      have key := interO_comm3 hl x d d'
      cases h1 : interO t x d <;> cases h2 : interO t x d' <;>
        simp only [h1, h2, Option.bind_some, Option.bind_none, Option.map_some, Option.map_none,
          List.getElem?_set_self hi, List.set_set] at key ⊢
      · rename_i y; simp [← key]
      · rename_i y; simp [key]
      · rename_i y y'
        cases h3 : interO t y d' <;> cases h4 : interO t y' d <;> simp_all
  · unfold narrowC
    cases hx : cs[i]? <;> cases hy : cs[j]? <;> simp only [Option.bind_some, Option.bind_none]
    · rename_i y
      cases interO t y d' <;> simp [List.getElem?_set_ne (Ne.symm hij), hx]
    · rename_i x
      cases interO t x d <;> simp [List.getElem?_set_ne hij, hy]
    · rename_i x y
      cases h1 : interO t x d <;> cases h2 : interO t y d' <;>
        simp [List.getElem?_set_ne hij, List.getElem?_set_ne (Ne.symm hij), hx, hy, h1, h2]
      exact List.set_comm _ _ hij


/-! ### `setConst` and lookups -/

/-- the per-entry update `setConst` performs -/
def upd (n : String) (c : List Char) (e : SeqE) : SeqE := if e.name == n then { e with const := c } else e

theorem setConst_seqs (st : St) (n : String) (c : List Char) :
    (setConst st n c).seqs = st.seqs.map (upd n c) := rfl

@[simp] theorem upd_name (n : String) (c : List Char) (e : SeqE) : (upd n c e).name = e.name := by
  unfold upd; split <;> rfl

theorem findSeq_setConst (st : St) (n m : String) (c : List Char) :
    (setConst st n c).findSeq m = (st.findSeq m).map (upd n c) := by
  unfold St.findSeq
  rw [setConst_seqs, List.find?_map]
  congr 1
  congr 1
  funext x
  simp

theorem findSeq_name {st : St} {n : String} {e : SeqE} (h : st.findSeq n = some e) : e.name = n := by
  have := List.find?_some h
  simpa using this

theorem findSeq_mem {st : St} {n : String} {e : SeqE} (h : st.findSeq n = some e) : e ∈ st.seqs :=
  List.mem_of_find?_eq_some h

theorem setConst_setConst (st : St) (n : String) (c c' : List Char) :
    setConst (setConst st n c) n c' = setConst st n c' := by
  unfold setConst
  simp only [List.map_map]
  congr 1
  apply List.map_congr_left
  intro e _
  simp only [Function.comp]
  by_cases h : e.name == n <;> simp [h]

theorem setConst_comm (st : St) {n m : String} (h : n ≠ m) (c c' : List Char) :
    setConst (setConst st n c) m c' = setConst (setConst st m c') n c := by
  unfold setConst
  simp only [List.map_map]
  congr 1
  apply List.map_congr_left
  intro e _
  simp only [Function.comp]
  by_cases h1 : e.name == n <;> by_cases h2 : e.name == m <;> simp [h1, h2]
  exact absurd ((eq_of_beq h1).symm.trans (eq_of_beq h2)) h

/-- with distinct names, writing back the constraint an entry already has changes nothing -/
theorem setConst_self {st : St} (hn : (st.seqs.map (·.name)).Nodup) {n : String} {e : SeqE}
    (h : st.findSeq n = some e) : setConst st n e.const = st := by
  unfold setConst
  have : st.seqs.map (fun e' => if e'.name == n then { e' with const := e.const } else e') = st.seqs := by
    conv => rhs; rw [← List.map_id st.seqs]
    apply List.map_congr_left
    intro e' he'
    by_cases h1 : e'.name == n
    · have : e' = e := nodup_map_inj (f := fun x : SeqE => x.name) hn he' (findSeq_mem h)
        ((eq_of_beq h1).trans (findSeq_name h).symm)
      subst this; simp [h1]
    · simp [h1]
  rw [this]

/-! ### narrowing commutes -/

theorem narrow_comm {t : CodeTable} (hl : t.lawful = true) (st : St) (p q : Pos) (c d : Char) :
    (narrow t st p c).bind (narrow t · q d) = (narrow t st q d).bind (narrow t · p c) := by
  obtain ⟨n, i, f⟩ := p
  obtain ⟨m, j, g⟩ := q
  unfold narrow
  simp only
  by_cases hnm : n = m
  · subst hnm
    cases he : st.findSeq n with
    | none => simp
    | some e =>
      have hname := findSeq_name he
      have hu : ∀ c', upd n c' e = { e with const := c' } := by
        intro c'; unfold upd; simp [hname]
      have key := narrowC_comm hl e.const i j (codeFor t (n, i, f) c) (codeFor t (n, j, g) d)
      simp only [Option.bind_some]
      cases h1 : narrowC t e.const i (codeFor t (n, i, f) c) <;>
        cases h2 : narrowC t e.const j (codeFor t (n, j, g) d) <;>
        simp only [h1, h2, Option.bind_some, Option.bind_none, Option.map_some, Option.map_none,
          findSeq_setConst, he, hu] at key ⊢
      · rw [← key]; simp
      · rw [key]; simp
      · rw [key]
        have : ∀ a b : List Char, setConst (setConst st n a) n = setConst (setConst st n b) n := by
          intro a b; funext x; rw [setConst_setConst, setConst_setConst]
        rw [this]
  · cases he : st.findSeq n <;> cases he' : st.findSeq m <;>
      simp only [Option.bind_some, Option.bind_none]
    · rename_i e'
      cases narrowC t e'.const j (codeFor t (m, j, g) d) <;> simp [findSeq_setConst, he]
    · rename_i e
      cases narrowC t e.const i (codeFor t (n, i, f) c) <;> simp [findSeq_setConst, he']
    · rename_i e e'
      have hne : ∀ c', upd n c' e' = e' := by
        intro c'; unfold upd
        have : (e'.name == n) = false := by
          rw [findSeq_name he']; exact beq_false_of_ne (Ne.symm hnm)
        simp [this]
      have hme : ∀ c', upd m c' e = e := by
        intro c'; unfold upd
        have : (e.name == m) = false := by
          rw [findSeq_name he]; exact beq_false_of_ne hnm
        simp [this]
      cases h1 : narrowC t e.const i (codeFor t (n, i, f) c) <;>
        cases h2 : narrowC t e'.const j (codeFor t (m, j, g) d) <;>
        simp [findSeq_setConst, he, he', hne, hme, h1, h2]
      exact setConst_comm st hnm _ _


/-! ### folds of `narrow` -/

theorem specFold_cons (t : CodeTable) (st : St) (p : Pos) (c : Char) (r : List (Pos × Char)) :
    specFold t st ((p, c) :: r) = (narrow t st p c).bind fun st' => specFold t st' r := rfl

theorem specFold_append (t : CodeTable) (st : St) (l1 l2 : List (Pos × Char)) :
    specFold t st (l1 ++ l2) = (specFold t st l1).bind (specFold t · l2) := by
  induction l1 generalizing st with
  | nil => rfl
  | cons a r ih =>
    obtain ⟨p, c⟩ := a
    simp only [List.cons_append, specFold_cons]
    cases narrow t st p c with
    | none => rfl
    | some st' => simp [ih]

/-- one more narrowing may be done first instead of last -/
theorem specFold_move {t : CodeTable} (hl : t.lawful = true) (st : St) (l : List (Pos × Char)) (p : Pos) (c : Char) :
    (specFold t st l).bind (narrow t · p c) = (narrow t st p c).bind (specFold t · l) := by
  induction l generalizing st with
  | nil => simp [specFold]
  | cons a r ih =>
    obtain ⟨q, d⟩ := a
    simp only [specFold_cons]
    rw [Option.bind_assoc]
    have h1 : (narrow t st q d).bind (fun st' => (specFold t st' r).bind (narrow t · p c))
        = (narrow t st q d).bind (fun st' => (narrow t st' p c).bind (specFold t · r)) := by
      congr 1; funext st'; exact ih st'
    rw [h1, ← Option.bind_assoc, narrow_comm hl, Option.bind_assoc]

theorem specFold_perm {t : CodeTable} (hl : t.lawful = true) {l1 l2 : List (Pos × Char)} (h : l1.Perm l2)
    (st : St) : specFold t st l1 = specFold t st l2 := by
  induction h generalizing st with
  | nil => rfl
  | cons a _ ih =>
    obtain ⟨p, c⟩ := a
    simp only [specFold_cons]
    congr 1; funext st'; exact ih st'
  | swap a b l =>
    obtain ⟨p, c⟩ := a
    obtain ⟨q, d⟩ := b
    simp only [specFold_cons]
    rw [← Option.bind_assoc, ← Option.bind_assoc, narrow_comm hl]
  | trans _ _ ih1 ih2 => rw [ih1, ih2]

theorem specFold_reverse {t : CodeTable} (hl : t.lawful = true) (st : St) (l : List (Pos × Char)) :
    specFold t st l.reverse = specFold t st l :=
  specFold_perm hl (List.reverse_perm l) st

/-- two folds commute -/
theorem specFold_comm {t : CodeTable} (hl : t.lawful = true) (st : St) (l1 l2 : List (Pos × Char)) :
    (specFold t st l1).bind (specFold t · l2) = (specFold t st l2).bind (specFold t · l1) := by
  rw [← specFold_append, ← specFold_append]
  exact specFold_perm hl List.perm_append_comm st


/-! ### the skeleton (everything but the constraint strings) -/

@[simp] theorem sk_name (e : SeqE) : (sk e).name = e.name := rfl
@[simp] theorem sk_bases (e : SeqE) : (sk e).bases = e.bases := rfl
@[simp] theorem sk_items (e : SeqE) : (sk e).items = e.items := rfl
@[simp] theorem sk_len (e : SeqE) : (sk e).len = e.len := rfl
@[simp] theorem sk_isSup (e : SeqE) : (sk e).isSup = e.isSup := rfl
@[simp] theorem skel_strands (st : St) : (skel st).strands = st.strands := rfl
@[simp] theorem skel_structs (st : St) : (skel st).structs = st.structs := rfl
theorem skel_seqs (st : St) : (skel st).seqs = st.seqs.map sk := rfl

theorem findSeq_skel (st : St) (n : String) : (skel st).findSeq n = (st.findSeq n).map sk := by
  unfold St.findSeq
  rw [skel_seqs, List.find?_map]
  rfl

theorem findStrand_skel (st : St) (n : String) : (skel st).findStrand n = st.findStrand n := rfl

theorem idxOf_skel (st : St) (n : String) : idxOf (skel st) n = idxOf st n := by
  unfold idxOf
  rw [skel_seqs]
  generalize st.seqs = l
  induction l with
  | nil => rfl
  | cons a r ih => simp [List.findIdx_cons, ih]

theorem basesOfView_sk (e : SeqE) (r : Bool) : basesOfView (sk e) r = basesOfView e r := rfl

theorem basesOfItem_skel (st : St) (i : ItemRef) : basesOfItem (skel st) i = basesOfItem st i := by
  unfold basesOfItem
  rw [findSeq_skel]
  cases st.findSeq i.name <;> rfl

theorem itemOK_skel (st : St) (b : Nat) (i : ItemRef) : itemOK (skel st) b i = itemOK st b i := by
  unfold itemOK
  rw [findSeq_skel, idxOf_skel]
  cases st.findSeq i.name <;> rfl

theorem seqOK_skel (st : St) (e : SeqE) : seqOK (skel st) (sk e) = seqOK st e := by
  unfold seqOK
  simp only [sk_bases, sk_len, sk_isSup, sk_items, sk_name, idxOf_skel]
  have h1 : itemOK (skel st) (idxOf st e.name) = itemOK st (idxOf st e.name) := by
    funext i; exact itemOK_skel st _ i
  have h2 : basesOfItem (skel st) = basesOfItem st := by
    funext i; exact basesOfItem_skel st i
  rw [h1, h2]
  rfl

theorem strandOK_skel (st : St) (s : StrandE) : strandOK (skel st) s = strandOK st s := by
  unfold strandOK
  have h1 : itemOK (skel st) (skel st).seqs.length = itemOK st st.seqs.length := by
    funext i; rw [skel_seqs, List.length_map]; exact itemOK_skel st _ i
  have h2 : basesOfItem (skel st) = basesOfItem st := by
    funext i; exact basesOfItem_skel st i
  rw [h1, h2]

theorem structOK_skel (st : St) (x : StructE) : structOK (skel st) x = structOK st x := rfl

theorem shapeB_skel (st : St) : shapeB (skel st) = shapeB st := by
  unfold shapeB
  have h0 : (skel st).seqs.map (·.name) = st.seqs.map (·.name) := by
    rw [skel_seqs, List.map_map]; rfl
  have h1 : (skel st).seqs.all (seqOK (skel st)) = st.seqs.all (seqOK st) := by
    rw [skel_seqs, List.all_map]
    congr 1; funext e; exact seqOK_skel st e
  have h2 : strandOK (skel st) = strandOK st := by funext s; exact strandOK_skel st s
  have h3 : structOK (skel st) = structOK st := by funext s; exact structOK_skel st s
  rw [h0, h1, h2, h3]; rfl

theorem posOfView_skel (st : St) (n : String) (r : Bool) : posOfView (skel st) n r = posOfView st n r := by
  unfold posOfView
  rw [findSeq_skel]
  cases st.findSeq n <;> rfl

theorem skel_setConst (st : St) (n : String) (c : List Char) : skel (setConst st n c) = skel st := by
  unfold skel setConst
  simp only [List.map_map]
  congr 1
  apply List.map_congr_left
  intro e _
  simp only [Function.comp]
  by_cases h : e.name == n <;> simp [h, sk]

theorem narrow_skel {t : CodeTable} {st st' : St} {p : Pos} {c : Char} (h : narrow t st p c = some st') :
    skel st' = skel st := by
  unfold narrow at h
  obtain ⟨e, _, h⟩ := Option.bind_eq_some_iff.1 h
  obtain ⟨c', _, h⟩ := Option.map_eq_some_iff.1 h
  subst h
  exact skel_setConst _ _ _

theorem specFold_skel {t : CodeTable} {st st' : St} {l : List (Pos × Char)} (h : specFold t st l = some st') :
    skel st' = skel st := by
  induction l generalizing st with
  | nil => simp [specFold] at h; rw [h]
  | cons a r ih =>
    obtain ⟨p, c⟩ := a
    rw [specFold_cons] at h
    obtain ⟨s1, h1, h2⟩ := Option.bind_eq_some_iff.1 h
    rw [ih h2, narrow_skel h1]

/-- anything that only reads the skeleton -/
theorem posOfView_congr {st st' : St} (h : skel st' = skel st) (n : String) (r : Bool) :
    posOfView st' n r = posOfView st n r := by
  rw [← posOfView_skel st', h, posOfView_skel]

theorem itemOK_congr {st st' : St} (h : skel st' = skel st) (b : Nat) (i : ItemRef) :
    itemOK st' b i = itemOK st b i := by
  rw [← itemOK_skel st', h, itemOK_skel]

theorem seqs_length_congr {st st' : St} (h : skel st' = skel st) : st'.seqs.length = st.seqs.length := by
  have := congrArg (fun s : St => s.seqs.length) h
  simpa [skel_seqs] using this

theorem strands_congr {st st' : St} (h : skel st' = skel st) : st'.strands = st.strands :=
  congrArg St.strands h |>.symm |> fun x => by simpa using x.symm

theorem structs_congr {st st' : St} (h : skel st' = skel st) : st'.structs = st.structs :=
  congrArg St.structs h |>.symm |> fun x => by simpa using x.symm

theorem findSeq_congr {st st' : St} (h : skel st' = skel st) (n : String) :
    (st'.findSeq n).map sk = (st.findSeq n).map sk := by
  rw [← findSeq_skel, h, findSeq_skel]

/-! ### well-formedness is preserved -/

theorem wfB_shape {t : CodeTable} {st : St} (h : wfB t st = true) : shapeB st = true := by
  unfold wfB at h; simp only [Bool.and_eq_true] at h; exact h.1

theorem wfB_nodup {t : CodeTable} {st : St} (h : wfB t st = true) : (st.seqs.map (·.name)).Nodup := by
  have := wfB_shape h
  unfold shapeB at this
  simp only [Bool.and_eq_true, decide_eq_true_eq] at this
  exact this.1.1.1

theorem wfB_constOK {t : CodeTable} {st : St} (h : wfB t st = true) {e : SeqE} (he : e ∈ st.seqs) :
    (∀ c ∈ e.const, t.isCode c = true) ∧ (e.isSup = false → e.const.length = e.len) := by
  unfold wfB at h
  simp only [Bool.and_eq_true, List.all_eq_true] at h
  have := h.2 e he
  unfold constOK at this
  simp only [Bool.and_eq_true, List.all_eq_true, Bool.or_eq_true, beq_iff_eq] at this
  refine ⟨this.1, fun hs => ?_⟩
  rcases this.2 with h | h
  · rw [hs] at h; cases h
  · exact h

theorem narrow_wf {t : CodeTable} (hl : t.lawful = true) {st st' : St} {p : Pos} {c : Char}
    (hw : wfB t st = true) (h : narrow t st p c = some st') : wfB t st' = true := by
  have hsk := narrow_skel h
  have hn := wfB_nodup hw
  unfold narrow at h
  obtain ⟨e, he, h⟩ := Option.bind_eq_some_iff.1 h
  obtain ⟨c', hc', h⟩ := Option.map_eq_some_iff.1 h
  subst h
  unfold wfB
  rw [← shapeB_skel, hsk, shapeB_skel, wfB_shape hw, Bool.true_and, List.all_eq_true]
  intro e1 he1
  rw [setConst_seqs] at he1
  obtain ⟨e0, he0, rfl⟩ := List.mem_map.1 he1
  have h0 := wfB_constOK hw he0
  unfold upd
  by_cases hname : e0.name == p.1
  · have : e0 = e := nodup_map_inj (f := fun x : SeqE => x.name) hn he0 (findSeq_mem he)
      ((eq_of_beq hname).trans (findSeq_name he).symm)
    subst this
    simp only [hname, if_true]
    unfold constOK
    simp only [Bool.and_eq_true, List.all_eq_true, Bool.or_eq_true, beq_iff_eq]
    unfold narrowC at hc'
    obtain ⟨x, hx, hc'⟩ := Option.bind_eq_some_iff.1 hc'
    obtain ⟨y, hy, hc'⟩ := Option.map_eq_some_iff.1 hc'
    subst hc'
    have hyc := ((interO_eq_some_iff hl).1 hy).2.2.1
    refine ⟨?_, ?_⟩
    · intro a ha
      rcases List.mem_or_eq_of_mem_set ha with h | h
      · exact h0.1 a h
      · rw [h]; exact hyc
    · cases hs : e0.isSup
      · right; simp; exact h0.2 hs
      · left; rfl
  · have hname' : (e0.name == p.1) = false := by simpa using hname
    simp only [hname', Bool.false_eq_true, if_false]
    unfold constOK
    simp only [Bool.and_eq_true, List.all_eq_true, Bool.or_eq_true, beq_iff_eq]
    refine ⟨h0.1, ?_⟩
    cases hs : e0.isSup
    · right; exact h0.2 hs
    · left; rfl

theorem specFold_wf {t : CodeTable} (hl : t.lawful = true) {st st' : St} {l : List (Pos × Char)}
    (hw : wfB t st = true) (h : specFold t st l = some st') : wfB t st' = true := by
  induction l generalizing st with
  | nil => simp [specFold] at h; rw [← h]; exact hw
  | cons a r ih =>
    obtain ⟨p, c⟩ := a
    rw [specFold_cons] at h
    obtain ⟨s1, h1, h2⟩ := Option.bind_eq_some_iff.1 h
    exact ih (narrow_wf hl hw h1) h2


/-! ### the atomic case: `Sequence.fix_seq` is a fold of `narrow` -/

/-- fold of `narrowC` over (index, letter) pairs -/
def foldC (t : CodeTable) (cs : List Char) : List (Nat × Char) → Option (List Char)
  | [] => some cs
  | (i, d) :: r => (narrowC t cs i d).bind fun cs' => foldC t cs' r

def fixConstO (t : CodeTable) (cs f : List Char) : Option (List Char) :=
  match fixConst t cs f with
  | .ok c => some c
  | .error _ => none

theorem names_setConst (st : St) (n : String) (c : List Char) :
    (setConst st n c).seqs.map (·.name) = st.seqs.map (·.name) := by
  rw [setConst_seqs, List.map_map]
  apply List.map_congr_left
  intro e _
  simp

theorem specFold_base {t : CodeTable} {st : St} {n : String} {e : SeqE}
    (hn : (st.seqs.map (·.name)).Nodup) (he : st.findSeq n = some e) (l : List (Nat × Char)) :
    specFold t st (l.map fun x => ((n, x.1, false), x.2)) = (foldC t e.const l).map (setConst st n) := by
  induction l generalizing st e with
  | nil => simp [specFold, foldC, setConst_self hn he]
  | cons a r ih =>
    obtain ⟨i, d⟩ := a
    simp only [List.map_cons, specFold_cons, foldC]
    have h1 : narrow t st (n, i, false) d = (narrowC t e.const i d).map (setConst st n) := by
      simp [narrow, he, codeFor]
    rw [h1]
    cases hc : narrowC t e.const i d with
    | none => simp
    | some c1 =>
      simp only [Option.map_some, Option.bind_some]
      have he1 : (setConst st n c1).findSeq n = some { e with const := c1 } := by
        rw [findSeq_setConst, he]; simp [upd, findSeq_name he]
      rw [ih (by rw [names_setConst]; exact hn) he1]
      congr 1
      funext x
      exact setConst_setConst st n c1 x

theorem foldC_asc (t : CodeTable) (pre cs f : List Char) (hlen : cs.length = f.length) :
    foldC t (pre ++ cs) ((List.range' pre.length cs.length).zip f) = (fixConstO t cs f).map (pre ++ ·) := by
  induction cs generalizing pre f with
  | nil =>
    cases f with
    | nil => simp [foldC, fixConstO, fixConst]
    | cons _ _ => simp at hlen
  | cons x cs ih =>
    cases f with
    | nil => simp at hlen
    | cons y f =>
      simp only [List.length_cons, Nat.add_right_cancel_iff] at hlen
      simp only [List.length_cons, List.range'_succ, List.zip_cons_cons, foldC]
      have hget : (pre ++ x :: cs)[pre.length]? = some x := by simp
      have hset : ∀ z, (pre ++ x :: cs).set pre.length z = (pre ++ [z]) ++ cs := by intro z; simp
      unfold narrowC
      rw [hget, Option.bind_some]
      unfold fixConstO fixConst interO
      cases hi : t.intersect x y with
      | error err => cases err <;> simp
      | ok z =>
        simp only [Option.map_some, Option.bind_some, hset]
        have := ih (pre ++ [z]) f hlen
        simp only [List.length_append, List.length_cons, List.length_nil, Nat.zero_add] at this
        rw [this]
        unfold fixConstO
        cases fixConst t cs f <;> simp [Except.map]

/-- with codes on both sides and equal lengths, `fixConst` can only fail with `empty` -/
theorem fixConst_class {t : CodeTable} (hl : t.lawful = true) {cs f : List Char}
    (hc : ∀ c ∈ cs, t.isCode c = true) (hf : ∀ c ∈ f, t.isCode c = true) (hlen : cs.length = f.length) :
    fixConst t cs f = match fixConstO t cs f with | some c => .ok c | none => .error .empty := by
  induction cs generalizing f with
  | nil =>
    cases f with
    | nil => simp [fixConstO, fixConst]
    | cons _ _ => simp at hlen
  | cons x cs ih =>
    cases f with
    | nil => simp at hlen
    | cons y f =>
      simp only [List.length_cons, Nat.add_right_cancel_iff] at hlen
      have hx := hc x List.mem_cons_self
      have hy := hf y List.mem_cons_self
      have ih' := ih (fun c h => hc c (List.mem_cons_of_mem _ h)) (fun c h => hf c (List.mem_cons_of_mem _ h)) hlen
      unfold fixConstO at ih' ⊢
      unfold fixConst
      by_cases h0 : t.maskC x &&& t.maskC y = 0
      · rw [intersect_empty hl hx hy h0]
      · obtain ⟨z, hz, _⟩ := intersect_ok hl hx hy h0
        rw [hz]
        simp only
        rw [ih']
        cases fixConst t cs f <;> simp [Except.map]


/-! ### positions -/

theorem flipPos_flipPos (p : Pos) : flipPos (flipPos p) = p := by
  obtain ⟨n, i, f⟩ := p; simp [flipPos]

theorem map_flip_flip (l : List Pos) : (l.map flipPos).map flipPos = l := by
  rw [List.map_map]
  conv => rhs; rw [← List.map_id l]
  apply List.map_congr_left
  intro p _; exact flipPos_flipPos p

theorem posOfBase_length (b : BaseRef) : (posOfBase b).length = b.len := by
  unfold posOfBase; split <;> simp

theorem posOfBases_length (bs : List BaseRef) : (posOfBases bs).length = (bs.map (·.len)).sum := by
  unfold posOfBases
  induction bs with
  | nil => rfl
  | cons b r ih => simp [List.flatMap_cons, posOfBase_length, ih]

theorem posOfBase_inv (b : BaseRef) : posOfBase b.inv = (posOfBase b).reverse.map flipPos := by
  obtain ⟨n, r, l⟩ := b
  cases r <;> simp [posOfBase, BaseRef.inv, flipPos, List.map_reverse, Function.comp_def]

theorem posOfBases_rev (bs : List BaseRef) :
    posOfBases (bs.reverse.map BaseRef.inv) = (posOfBases bs).reverse.map flipPos := by
  unfold posOfBases
  rw [List.reverse_flatMap, List.map_flatMap, List.flatMap_map]
  congr 1
  funext b
  simp [posOfBase_inv]

theorem posOfView_found {st : St} {n : String} {e : SeqE} (he : st.findSeq n = some e) (r : Bool) :
    posOfView st n r = posOfBases (basesOfView e r) := by
  unfold posOfView basesOfView
  rw [he]
  cases r
  · rfl
  · simp only [if_true]
    rw [posOfBases_rev]

theorem posOfBases_basesOfItem (st : St) (i : ItemRef) : posOfBases (basesOfItem st i) = posOfItem st i := by
  unfold basesOfItem posOfItem
  cases he : st.findSeq i.name with
  | none => simp [posOfView, he, posOfBases]
  | some e => rw [posOfView_found he]

theorem posOfItem_inv (st : St) (i : ItemRef) : posOfItem st i.inv = (posOfItem st i).reverse.map flipPos := by
  unfold posOfItem posOfView ItemRef.inv
  simp only
  cases st.findSeq i.name with
  | none => rfl
  | some e =>
    cases i.rev
    · rfl
    · simp only [Bool.not_true, Bool.false_eq_true, if_false, if_true]
      simp [List.map_reverse, Function.comp_def, flipPos_flipPos]

theorem zip_reverse' {α β} (l1 : List α) (l2 : List β) (h : l1.length = l2.length) :
    (l1.zip l2).reverse = l1.reverse.zip l2.reverse := by
  induction l1 generalizing l2 with
  | nil => cases l2 <;> simp
  | cons a r ih =>
    cases l2 with
    | nil => simp at h
    | cons b r2 =>
      simp only [List.length_cons, Nat.add_right_cancel_iff] at h
      simp only [List.zip_cons_cons, List.reverse_cons]
      rw [ih r2 h, List.zip_append (by simp [h])]
      rfl

theorem narrow_flip {t : CodeTable} (hl : t.lawful = true) (st : St) (p : Pos) {c : Char}
    (hc : t.isCode c = true) : narrow t st (flipPos p) c = narrow t st p (complC t c) := by
  obtain ⟨n, i, f⟩ := p
  unfold narrow flipPos codeFor
  cases f
  · rfl
  · simp only [Bool.not_true, Bool.false_eq_true, if_false, if_true]
    rw [complC_eq, complC_eq, complD_complD hl hc]

theorem specFold_flip {t : CodeTable} (hl : t.lawful = true) (st : St) (pos : List Pos) (s : List Char)
    (hs : ∀ c ∈ s, t.isCode c = true) :
    specFold t st ((pos.map flipPos).zip s) = specFold t st (pos.zip (s.map (complC t))) := by
  induction pos generalizing st s with
  | nil => rfl
  | cons p r ih =>
    cases s with
    | nil => rfl
    | cons c s =>
      simp only [List.map_cons, List.zip_cons_cons, specFold_cons]
      rw [narrow_flip hl st p (hs c List.mem_cons_self)]
      congr 1
      funext st'
      exact ih st' s (fun c h => hs c (List.mem_cons_of_mem _ h))

/-- fixing the starred view to `str` narrows exactly as fixing the unstarred view to the reverse complement -/
theorem specFold_rev {t : CodeTable} (hl : t.lawful = true) (st : St) (pos : List Pos) (str : List Char)
    (hs : ∀ c ∈ str, t.isCode c = true) (hlen : pos.length = str.length) :
    specFold t st ((pos.reverse.map flipPos).zip str) = specFold t st (pos.zip (str.reverse.map (complC t))) := by
  rw [List.map_reverse]
  have h1 : (pos.map flipPos).reverse.zip str = ((pos.map flipPos).zip str.reverse).reverse := by
    rw [zip_reverse' _ _ (by simp [hlen]), List.reverse_reverse]
  rw [h1, specFold_reverse hl, specFold_flip hl st pos str.reverse (fun c h => hs c (List.mem_reverse.1 h))]


/-! ### unfolding the model -/

theorem fixItem_zero (t : CodeTable) (s : St) (name : String) (rev : Bool) (str : List Char) :
    fixItem t 0 s name rev str = .error .key := by
  rw [fixItem]

theorem fixItem_succ (t : CodeTable) (fuel : Nat) (s : St) (name : String) (rev : Bool) (str : List Char) :
    fixItem t (fuel + 1) s name rev str =
      match s.findSeq name with
      | none => .error .key
      | some e =>
        if !e.isSup then
          match (if rev then t.wcStr str else some str) with
          | none => .error .key
          | some f =>
            if f.length != e.len then .error .length
            else match fixConst t e.const f with
              | .ok c => .ok (setConst s name c)
              | .error x => .error x
        else
          if str.length != e.len then .error .length
          else fixList t fuel s (itemsOfView e rev) str := by
  rw [fixItem]
  rfl

theorem fixList_nil (t : CodeTable) (fuel : Nat) (s : St) (str : List Char) :
    fixList t fuel s [] str = .ok s := by
  rw [fixList]

theorem fixList_cons (t : CodeTable) (fuel : Nat) (s : St) (i : ItemRef) (r : List ItemRef) (str : List Char) :
    fixList t fuel s (i :: r) str =
      match fixItem t fuel s i.name i.rev (str.take i.len) with
      | .ok s' => fixList t fuel s' r (str.drop i.len)
      | .error x => .error x := by
  rw [fixList]
  rfl

/-! ### reading the invariant -/

theorem wfB_seqOK {t : CodeTable} {st : St} (h : wfB t st = true) {e : SeqE} (he : e ∈ st.seqs) :
    seqOK st e = true := by
  have := wfB_shape h
  unfold shapeB at this
  simp only [Bool.and_eq_true, List.all_eq_true] at this
  exact this.1.1.2 e he

theorem wfB_strandOK {t : CodeTable} {st : St} (h : wfB t st = true) {s : StrandE} (hs : s ∈ st.strands) :
    strandOK st s = true := by
  have := wfB_shape h
  unfold shapeB at this
  simp only [Bool.and_eq_true, List.all_eq_true] at this
  exact this.1.2 s hs

theorem wfB_structOK {t : CodeTable} {st : St} (h : wfB t st = true) {x : StructE} (hx : x ∈ st.structs) :
    structOK st x = true := by
  have := wfB_shape h
  unfold shapeB at this
  simp only [Bool.and_eq_true, List.all_eq_true] at this
  exact this.2 x hx

theorem seqOK_bases_len {st : St} {e : SeqE} (h : seqOK st e = true) : (e.bases.map (·.len)).sum = e.len := by
  unfold seqOK at h
  simp only [Bool.and_eq_true, beq_iff_eq] at h
  exact h.1

theorem seqOK_base {st : St} {e : SeqE} (h : seqOK st e = true) (hs : e.isSup = false) :
    e.bases = [⟨e.name, false, e.len⟩] := by
  unfold seqOK at h
  simp only [Bool.and_eq_true, hs, Bool.false_eq_true, if_false, decide_eq_true_eq] at h
  exact h.2

theorem seqOK_sup {st : St} {e : SeqE} (h : seqOK st e = true) (hs : e.isSup = true) :
    (∀ i ∈ e.items, itemOK st (idxOf st e.name) i = true) ∧ e.bases = e.items.flatMap (basesOfItem st) ∧
      e.len = (e.items.map (·.len)).sum := by
  unfold seqOK at h
  simp only [Bool.and_eq_true, hs, if_true, decide_eq_true_eq, List.all_eq_true, beq_iff_eq] at h
  exact ⟨h.2.1.1, h.2.1.2, h.2.2⟩

theorem itemOK_spec {st : St} {b : Nat} {i : ItemRef} (h : itemOK st b i = true) :
    ∃ e', st.findSeq i.name = some e' ∧ e'.len = i.len ∧ e'.isSup = i.isSup ∧
      (e'.isSup = true → idxOf st i.name < b) := by
  unfold itemOK at h
  cases he : st.findSeq i.name with
  | none => simp [he] at h
  | some e' =>
    simp only [he, Bool.and_eq_true, beq_iff_eq, Bool.or_eq_true, Bool.not_eq_true', decide_eq_true_eq] at h
    refine ⟨e', rfl, h.1.1, h.1.2, fun hs => ?_⟩
    rcases h.2 with h2 | h2
    · rw [hs] at h2; cases h2
    · exact h2

theorem itemOK_inv (st : St) (b : Nat) (i : ItemRef) : itemOK st b i.inv = itemOK st b i := rfl

theorem posOfView_length {t : CodeTable} {st : St} (hw : wfB t st = true) {n : String} {e : SeqE}
    (he : st.findSeq n = some e) (r : Bool) : (posOfView st n r).length = e.len := by
  have h1 := seqOK_bases_len (wfB_seqOK hw (findSeq_mem he))
  unfold posOfView
  rw [he]
  cases r <;> simp [posOfBases_length, h1]

theorem posOfItem_length {t : CodeTable} {st : St} (hw : wfB t st = true) {b : Nat} {i : ItemRef}
    (h : itemOK st b i = true) : (posOfItem st i).length = i.len := by
  obtain ⟨e', he', hl', _⟩ := itemOK_spec h
  unfold posOfItem
  rw [posOfView_length hw he', hl']

theorem posOfBases_flatMap {α} (l : List α) (f : α → List BaseRef) :
    posOfBases (l.flatMap f) = l.flatMap (fun x => posOfBases (f x)) := by
  unfold posOfBases
  rw [List.flatMap_assoc]

theorem posOfView_sup {st : St} {n : String} {e : SeqE} (he : st.findSeq n = some e)
    (hb : e.bases = e.items.flatMap (basesOfItem st)) (r : Bool) :
    posOfView st n r = (itemsOfView e r).flatMap (posOfItem st) := by
  have hf : posOfBases e.bases = e.items.flatMap (posOfItem st) := by
    rw [hb, posOfBases_flatMap]
    congr 1
    funext i
    exact posOfBases_basesOfItem st i
  unfold posOfView itemsOfView
  rw [he]
  cases r
  · simpa using hf
  · simp only [if_true]
    rw [hf, List.reverse_flatMap, List.map_flatMap, List.flatMap_map]
    congr 1
    funext i
    simp [posOfItem_inv]

theorem zip_append_take_drop {α β} (a b : List α) (s : List β) (h : a.length ≤ s.length) :
    (a ++ b).zip s = a.zip (s.take a.length) ++ b.zip (s.drop a.length) := by
  conv => lhs; rw [← List.take_append_drop a.length s]
  rw [List.zip_append]
  simp [Nat.min_eq_left h]

/-! ### the main induction: `fix_seq` through `seqs` is `specFix` over the positions -/

/-- body of `Sequence.fix_seq` against the specification, for the unstarred view -/
theorem base_body {t : CodeTable} (hl : t.lawful = true) {st : St} (hw : wfB t st = true) {n : String} {e : SeqE}
    (he : st.findSeq n = some e) (hs : e.isSup = false) (f : List Char) (hf : ∀ c ∈ f, t.isCode c = true) :
    (if f.length != e.len then (Except.error Fix.Err.length : Except Fix.Err St)
     else match fixConst t e.const f with
       | .ok c => .ok (setConst st n c)
       | .error x => .error x) = specFix t st (posOfView st n false) f := by
  have hmem := findSeq_mem he
  have hname := findSeq_name he
  have hco := wfB_constOK hw hmem
  have hbase := seqOK_base (wfB_seqOK hw hmem) hs
  have hpos : posOfView st n false = (List.range e.len).map (fun i => ((n, i, false) : Pos)) := by
    unfold posOfView
    rw [he]
    simp [hbase, posOfBases, posOfBase, hname]
  unfold specFix
  rw [hpos]
  simp only [List.length_map, List.length_range]
  by_cases hlen : f.length = e.len
  · have h1 : (f.length != e.len) = false := by simp [hlen]
    have h2 : (e.len != f.length) = false := by simp [hlen]
    rw [h1, h2]
    simp only [Bool.false_eq_true, if_false]
    have hz : ((List.range e.len).map (fun i => ((n, i, false) : Pos))).zip f
        = ((List.range e.len).zip f).map (fun x => ((n, x.1, false), x.2)) := by
      rw [List.zip_map_left]; rfl
    rw [hz, specFold_base (wfB_nodup hw) he]
    have hcl : e.const.length = f.length := by rw [hco.2 hs, hlen]
    have hasc := foldC_asc t [] e.const f hcl
    simp only [List.nil_append, List.length_nil] at hasc
    rw [← List.range_eq_range', hco.2 hs] at hasc
    have hmap : (fun x : List Char => x) = id := rfl
    rw [hasc, fixConst_class hl hco.1 hf hcl]
    cases fixConstO t e.const f <;> simp
  · have h1 : (f.length != e.len) = true := by simp [hlen]
    have h2 : (e.len != f.length) = true := by simp [Ne.symm hlen]
    rw [h1, h2]
    rfl

theorem fixList_spec {t : CodeTable} (hl : t.lawful = true) (fuel : Nat)
    (P : ∀ (st : St) (n : String) (rev : Bool) (str : List Char) (e : SeqE), wfB t st = true →
      st.findSeq n = some e → (if e.isSup then idxOf st n + 1 else 0) < fuel →
      (∀ c ∈ str, t.isCode c = true) →
      fixItem t fuel st n rev str = specFix t st (posOfView st n rev) str) :
    ∀ (items : List ItemRef) (st : St) (str : List Char) (bound : Nat), wfB t st = true → bound < fuel →
      (∀ i ∈ items, itemOK st bound i = true) → str.length = (items.map (·.len)).sum →
      (∀ c ∈ str, t.isCode c = true) →
      fixList t fuel st items str =
        match specFold t st ((items.flatMap (posOfItem st)).zip str) with
        | some s => .ok s
        | none => .error .empty := by
  intro items
  induction items with
  | nil =>
    intro st str bound _ _ _ _ _
    rw [fixList_nil]
    simp [specFold]
  | cons i r ih =>
    intro st str bound hw hb hok hlen hcodes
    rw [fixList_cons]
    have hoki := hok i List.mem_cons_self
    obtain ⟨e', he', hl', hs', hidx⟩ := itemOK_spec hoki
    have hrank : (if e'.isSup then idxOf st i.name + 1 else 0) < fuel := by
      split
      · rename_i h; have := hidx h; omega
      · omega
    have hlen' : i.len ≤ str.length := by
      simp only [List.map_cons, List.sum_cons] at hlen; omega
    have htake : (str.take i.len).length = i.len := by simp [Nat.min_eq_left hlen']
    have hposl : (posOfItem st i).length = i.len := posOfItem_length hw hoki
    rw [P st i.name i.rev (str.take i.len) e' hw he' hrank (fun c h => hcodes c (List.mem_of_mem_take h))]
    have hz : ((i :: r).flatMap (posOfItem st)).zip str
        = (posOfItem st i).zip (str.take i.len) ++ (r.flatMap (posOfItem st)).zip (str.drop i.len) := by
      rw [List.flatMap_cons, zip_append_take_drop _ _ _ (by rw [hposl]; exact hlen'), hposl]
    rw [hz, specFold_append]
    unfold specFix
    have hne : ((posOfView st i.name i.rev).length != (str.take i.len).length) = false := by
      have : (posOfView st i.name i.rev).length = i.len := hposl
      simp [this, htake]
    rw [hne]
    simp only [Bool.false_eq_true, if_false]
    change (match (match specFold t st ((posOfItem st i).zip (str.take i.len)) with
        | some st' => Except.ok st' | none => Except.error Fix.Err.empty) with
      | .ok s' => fixList t fuel s' r (str.drop i.len)
      | .error x => .error x) = _
    cases h1 : specFold t st ((posOfItem st i).zip (str.take i.len)) with
    | none => rfl
    | some s' =>
      simp only [Option.bind_some]
      have hsk := specFold_skel h1
      have hw' := specFold_wf hl hw h1
      have hdrop : (str.drop i.len).length = (r.map (·.len)).sum := by
        simp only [List.map_cons, List.sum_cons] at hlen
        simp; omega
      rw [ih s' (str.drop i.len) bound hw' hb
        (fun j hj => by rw [itemOK_congr hsk]; exact hok j (List.mem_cons_of_mem _ hj)) hdrop
        (fun c h => hcodes c (List.mem_of_mem_drop h))]
      have : r.flatMap (posOfItem s') = r.flatMap (posOfItem st) := by
        congr 1; funext j; exact posOfView_congr hsk j.name j.rev
      rw [this]

theorem fixItem_spec {t : CodeTable} (hl : t.lawful = true) : ∀ (fuel : Nat) (st : St) (n : String) (rev : Bool)
    (str : List Char) (e : SeqE), wfB t st = true → st.findSeq n = some e →
    (if e.isSup then idxOf st n + 1 else 0) < fuel → (∀ c ∈ str, t.isCode c = true) →
    fixItem t fuel st n rev str = specFix t st (posOfView st n rev) str := by
  intro fuel
  induction fuel with
  | zero => intro st n rev str e _ _ h; omega
  | succ fuel ih =>
    intro st n rev str e hw he hrank hcodes
    rw [fixItem_succ, he]
    simp only
    have hmem := findSeq_mem he
    have hname := findSeq_name he
    cases hs : e.isSup
    · -- atomic sequence
      simp only [Bool.not_false, if_true]
      cases rev
      · simp only [Bool.false_eq_true, if_false]
        exact base_body hl hw he hs str hcodes
      · simp only [if_true]
        rw [wcStr_eq hl str hcodes]
        simp only
        have hwc : ∀ c ∈ str.reverse.map t.complD, t.isCode c = true := by
          intro c hc
          obtain ⟨a, ha, rfl⟩ := List.mem_map.1 hc
          exact complD_isCode hl (hcodes a (List.mem_reverse.1 ha))
        rw [base_body hl hw he hs _ hwc]
        unfold specFix
        have hpl := posOfView_length hw he
        rw [hpl false, hpl true]
        simp only [List.length_map, List.length_reverse]
        split
        · rfl
        · rename_i hne
          have hlen : e.len = str.length := by simpa using hne
          have hpv : posOfView st n true = (posOfView st n false).reverse.map flipPos := by
            unfold posOfView; rw [he]; rfl
          rw [hpv, specFold_rev hl st _ str hcodes (by rw [hpl false, hlen])]
          rfl
    · -- super-sequence
      simp only [Bool.not_true, Bool.false_eq_true, if_false]
      rw [hs] at hrank
      simp only [if_true] at hrank
      obtain ⟨hitems, hbases, hsum⟩ := seqOK_sup (wfB_seqOK hw hmem) hs
      rw [hname] at hitems
      unfold specFix
      rw [posOfView_length hw he rev]
      by_cases hlen : str.length = e.len
      · have h1 : (str.length != e.len) = false := by simp [hlen]
        have h2 : (e.len != str.length) = false := by simp [hlen]
        rw [h1, h2]
        simp only [Bool.false_eq_true, if_false]
        have hok : ∀ i ∈ itemsOfView e rev, itemOK st (idxOf st n) i = true := by
          intro i hi
          unfold itemsOfView at hi
          cases rev
          · exact hitems i hi
          · simp only [if_true, List.mem_map, List.mem_reverse] at hi
            obtain ⟨j, hj, rfl⟩ := hi
            rw [itemOK_inv]; exact hitems j hj
        have hsum' : str.length = ((itemsOfView e rev).map (·.len)).sum := by
          rw [hlen, hsum]
          unfold itemsOfView
          cases rev
          · rfl
          · simp only [if_true, List.map_map, List.map_reverse]
            rw [List.sum_reverse]
            rfl
        rw [fixList_spec hl fuel ih (itemsOfView e rev) st str (idxOf st n) hw (by omega) hok hsum' hcodes,
          posOfView_sup he hbases rev]
        rfl
      · have h1 : (str.length != e.len) = true := by simp [hlen]
        have h2 : (e.len != str.length) = true := by simp [Ne.symm hlen]
        rw [h1, h2]
        rfl

/-! ### top-level fuel, strands, structures -/

theorem idxOf_lt {st : St} {n : String} {e : SeqE} (he : st.findSeq n = some e) : idxOf st n < st.seqs.length := by
  unfold idxOf
  apply List.findIdx_lt_length_of_exists
  exact ⟨e, findSeq_mem he, by simp [findSeq_name he]⟩

/-- `x.fix_seq(str)` with the fuel the compile driver supplies -/
theorem fixItem_top {t : CodeTable} (hl : t.lawful = true) {st : St} (hw : wfB t st = true) {n : String} {e : SeqE}
    (he : st.findSeq n = some e) (fuel : Nat) (hfuel : st.seqs.length < fuel) (rev : Bool) (str : List Char)
    (hcodes : ∀ c ∈ str, t.isCode c = true) :
    fixItem t fuel st n rev str = specFix t st (posOfView st n rev) str := by
  apply fixItem_spec hl fuel st n rev str e hw he _ hcodes
  have := idxOf_lt he
  split <;> omega

theorem strandOK_spec {st : St} {s : StrandE} (h : strandOK st s = true) :
    (∀ i ∈ s.items, itemOK st st.seqs.length i = true) ∧ s.bases = s.items.flatMap (basesOfItem st) ∧
      s.len = (s.items.map (·.len)).sum ∧ (s.bases.map (·.len)).sum = s.len := by
  unfold strandOK at h
  simp only [Bool.and_eq_true, decide_eq_true_eq, List.all_eq_true, beq_iff_eq] at h
  exact ⟨h.1.1.1, h.1.1.2, h.1.2, h.2⟩

theorem posOfBases_strand {st : St} {s : StrandE} (h : strandOK st s = true) :
    posOfBases s.bases = s.items.flatMap (posOfItem st) := by
  rw [(strandOK_spec h).2.1, posOfBases_flatMap]
  congr 1
  funext i
  exact posOfBases_basesOfItem st i

/-- `Strand.fix_seq` -/
theorem fixStrand_spec {t : CodeTable} (hl : t.lawful = true) {st : St} (hw : wfB t st = true) {s : StrandE}
    (hs : s ∈ st.strands) (str : List Char) (hcodes : ∀ c ∈ str, t.isCode c = true) :
    fixStrand t st s str = specFix t st (posOfBases s.bases) str := by
  have hok := wfB_strandOK hw hs
  obtain ⟨hitems, _, hsum, hbl⟩ := strandOK_spec hok
  unfold fixStrand fixItems specFix
  rw [posOfBases_length, hbl]
  by_cases hlen : str.length = s.len
  · have h1 : (str.length != s.len) = false := by simp [hlen]
    have h2 : (s.len != str.length) = false := by simp [hlen]
    rw [h1, h2]
    simp only [Bool.false_eq_true, if_false]
    rw [fixList_spec hl (st.seqs.length + 1) (fun st' n rev str' e hw' he hr hc => fixItem_spec hl _ st' n rev str' e hw' he hr hc)
      s.items st str st.seqs.length hw (by omega) hitems (by rw [hlen, hsum]) hcodes, posOfBases_strand hok]
    rfl
  · have h1 : (str.length != s.len) = true := by simp [hlen]
    have h2 : (s.len != str.length) = true := by simp [Ne.symm hlen]
    rw [h1, h2]
    rfl

theorem findStrand_mem {st : St} {n : String} {s : StrandE} (h : st.findStrand n = some s) : s ∈ st.strands :=
  List.mem_of_find?_eq_some h

/-- the loop of `Structure.fix_seq` -/
def strandStep (t : CodeTable) (acc : St) (np : String × List Char) : Except Fix.Err St :=
  match acc.findStrand np.1 with
  | some se => fixStrand t acc se np.2
  | none => .error .key

theorem fixStruct_unfold (t : CodeTable) (st : St) (x : StructE) (str : List Char) :
    fixStruct t st x str =
      if (Notation.splitOn '+' str).length != x.strands.length then .error .strandCount
      else (List.zip x.strands (Notation.splitOn '+' str)).foldlM (strandStep t) st := rfl

theorem foldlM_cons_except {ε σ α} (f : σ → α → Except ε σ) (s : σ) (a : α) (r : List α) :
    (a :: r).foldlM f s = match f s a with | .ok s' => r.foldlM f s' | .error e => .error e := by
  rw [List.foldlM_cons]
  cases f s a <;> rfl

theorem strands_fold_ok {t : CodeTable} (hl : t.lawful = true) :
    ∀ (l : List (String × List Char)) (st : St), wfB t st = true →
      (∀ np ∈ l, ∃ s, st.findStrand np.1 = some s ∧ s.len = np.2.length ∧ ∀ c ∈ np.2, t.isCode c = true) →
      l.foldlM (strandStep t) st =
        match specFold t st ((l.flatMap (fun np => posOfStrandName st np.1)).zip (l.flatMap (·.2))) with
        | some s => .ok s
        | none => .error .empty := by
  intro l
  induction l with
  | nil => intro st _ _; simp [specFold]; rfl
  | cons np r ih =>
    intro st hw hall
    obtain ⟨s, hs, hlen, hc⟩ := hall np List.mem_cons_self
    rw [foldlM_cons_except]
    have hstep : strandStep t st np = specFix t st (posOfBases s.bases) np.2 := by
      unfold strandStep; rw [hs]; exact fixStrand_spec hl hw (findStrand_mem hs) np.2 hc
    have hpl : (posOfBases s.bases).length = np.2.length := by
      rw [posOfBases_length, (strandOK_spec (wfB_strandOK hw (findStrand_mem hs))).2.2.2, hlen]
    have hpn : posOfStrandName st np.1 = posOfBases s.bases := by unfold posOfStrandName; rw [hs]
    rw [hstep, List.flatMap_cons, List.flatMap_cons, hpn, List.zip_append hpl, specFold_append]
    unfold specFix
    have hne : ((posOfBases s.bases).length != np.2.length) = false := by simp [hpl]
    rw [hne]
    simp only [Bool.false_eq_true, if_false]
    cases h1 : specFold t st ((posOfBases s.bases).zip np.2) with
    | none => rfl
    | some s' =>
      simp only [Option.bind_some]
      have hsk := specFold_skel h1
      have hst : ∀ n, s'.findStrand n = st.findStrand n := by
        intro n; unfold St.findStrand; rw [strands_congr hsk]
      rw [ih s' (specFold_wf hl hw h1) (fun q hq => by
        obtain ⟨s2, h2, h3⟩ := hall q (List.mem_cons_of_mem _ hq)
        exact ⟨s2, by rw [hst]; exact h2, h3⟩)]
      have : (fun np : String × List Char => posOfStrandName s' np.1) = fun np => posOfStrandName st np.1 := by
        funext q; unfold posOfStrandName; rw [hst]
      rw [this]

theorem strands_fold_bad {t : CodeTable} (hl : t.lawful = true) :
    ∀ (l : List (String × List Char)) (st : St), wfB t st = true →
      (∀ np ∈ l, ∃ s, st.findStrand np.1 = some s ∧ ∀ c ∈ np.2, t.isCode c = true) →
      (∃ np ∈ l, ∀ s, st.findStrand np.1 = some s → s.len ≠ np.2.length) →
      ∃ err, l.foldlM (strandStep t) st = .error err := by
  intro l
  induction l with
  | nil => intro st _ _ h; obtain ⟨_, h, _⟩ := h; cases h
  | cons np r ih =>
    intro st hw hall hbad
    obtain ⟨s, hs, hc⟩ := hall np List.mem_cons_self
    rw [foldlM_cons_except]
    have hstep : strandStep t st np = specFix t st (posOfBases s.bases) np.2 := by
      unfold strandStep; rw [hs]; exact fixStrand_spec hl hw (findStrand_mem hs) np.2 hc
    rw [hstep]
    cases h1 : specFix t st (posOfBases s.bases) np.2 with
    | error e => exact ⟨e, rfl⟩
    | ok s' =>
      simp only
      unfold specFix at h1
      split at h1
      · cases h1
      · rename_i hlen
        have hlen' : (posOfBases s.bases).length = np.2.length := by simpa using hlen
        cases h2 : specFold t st ((posOfBases s.bases).zip np.2) with
        | none => rw [h2] at h1; cases h1
        | some s2 =>
          rw [h2] at h1
          simp only [Except.ok.injEq] at h1
          subst h1
          have hsk := specFold_skel h2
          have hst : ∀ n, s2.findStrand n = st.findStrand n := by
            intro n; unfold St.findStrand; rw [strands_congr hsk]
          apply ih s2 (specFold_wf hl hw h2)
          · intro q hq
            obtain ⟨s3, h3, h4⟩ := hall q (List.mem_cons_of_mem _ hq)
            exact ⟨s3, by rw [hst]; exact h3, h4⟩
          · obtain ⟨q, hq, hq2⟩ := hbad
            rcases List.mem_cons.1 hq with rfl | hq'
            · exfalso
              apply hq2 s hs
              rw [← hlen', posOfBases_length, (strandOK_spec (wfB_strandOK hw (findStrand_mem hs))).2.2.2]
            · exact ⟨q, hq', fun s3 h3 => hq2 s3 (by rw [← hst]; exact h3)⟩

theorem splitOn_spec (c : Char) (s : List Char) :
    Notation.splitOn c s ≠ [] ∧ ∀ p ∈ Notation.splitOn c s, ∀ x ∈ p, x ∈ s ∧ x ≠ c := by
  induction s with
  | nil => simp [Notation.splitOn]
  | cons d r ih =>
    unfold Notation.splitOn
    cases h : Notation.splitOn c r with
    | nil => exact absurd h ih.1
    | cons hd tl =>
      simp only
      rw [h] at ih
      by_cases hdc : d = c
      · simp only [hdc, beq_self_eq_true, if_true]
        refine ⟨by simp, ?_⟩
        intro p hp x hx
        rcases List.mem_cons.1 hp with rfl | hp
        · cases hx
        · have := ih.2 p hp x hx
          exact ⟨List.mem_cons_of_mem _ this.1, this.2⟩
      · have : (d == c) = false := by simpa using hdc
        simp only [this, Bool.false_eq_true, if_false]
        refine ⟨by simp, ?_⟩
        intro p hp x hx
        rcases List.mem_cons.1 hp with rfl | hp
        · rcases List.mem_cons.1 hx with rfl | hx
          · exact ⟨List.mem_cons_self, hdc⟩
          · have := ih.2 hd List.mem_cons_self x hx
            exact ⟨List.mem_cons_of_mem _ this.1, this.2⟩
        · have := ih.2 p (List.mem_cons_of_mem _ hp) x hx
          exact ⟨List.mem_cons_of_mem _ this.1, this.2⟩


theorem flatMap_snd_zip {α β} (a : List α) (b : List (List β)) (h : b.length ≤ a.length) :
    (a.zip b).flatMap (·.2) = b.flatten := by
  induction a generalizing b with
  | nil => cases b <;> simp_all
  | cons x r ih =>
    cases b with
    | nil => simp
    | cons y s =>
      simp only [List.length_cons, Nat.add_le_add_iff_right] at h
      simp [List.flatMap_cons, ih s h]

theorem structOK_spec {st : St} {x : StructE} (h : structOK st x = true) :
    ∀ n ∈ x.strands, ∃ s, st.findStrand n = some s := by
  unfold structOK at h
  simp only [List.all_eq_true] at h
  intro n hn
  exact Option.isSome_iff_exists.1 (h n hn)

/-- `Structure.fix_seq`: wrong number of parts -/
theorem fixStruct_count (t : CodeTable) (st : St) (x : StructE) (str : List Char)
    (h : (Notation.splitOn '+' str).length ≠ x.strands.length) :
    fixStruct t st x str = .error .strandCount ∧ specFixStruct t st x str = .error .strandCount := by
  have : ((Notation.splitOn '+' str).length != x.strands.length) = true := by simpa using h
  constructor
  · rw [fixStruct_unfold, this]; rfl
  · unfold specFixStruct; simp only [this, if_true]

theorem struct_hall {t : CodeTable} {st : St} (hw : wfB t st = true) {x : StructE} (hx : x ∈ st.structs)
    {str : List Char} (hcodes : ∀ c ∈ str, c = '+' ∨ t.isCode c = true) :
    ∀ np ∈ x.strands.zip (Notation.splitOn '+' str),
      ∃ s, st.findStrand np.1 = some s ∧ ∀ c ∈ np.2, t.isCode c = true := by
  intro np hnp
  obtain ⟨h1, h2⟩ := List.of_mem_zip hnp
  obtain ⟨s, hs⟩ := structOK_spec (wfB_structOK hw hx) np.1 h1
  refine ⟨s, hs, fun c hc => ?_⟩
  obtain ⟨hm, hne⟩ := (splitOn_spec '+' str).2 np.2 h2 c hc
  rcases hcodes c hm with h | h
  · exact absurd h hne
  · exact h

theorem posOfStrandName_length {t : CodeTable} {st : St} (hw : wfB t st = true) {n : String} {s : StrandE}
    (hs : st.findStrand n = some s) : (posOfStrandName st n).length = s.len := by
  unfold posOfStrandName
  rw [hs, posOfBases_length, (strandOK_spec (wfB_strandOK hw (findStrand_mem hs))).2.2.2]

/-- `Structure.fix_seq`: right number of parts, every part of its strand's length -/
theorem fixStruct_exact {t : CodeTable} (hl : t.lawful = true) {st : St} (hw : wfB t st = true) {x : StructE}
    (hx : x ∈ st.structs) (str : List Char) (hcodes : ∀ c ∈ str, c = '+' ∨ t.isCode c = true)
    (hcount : (Notation.splitOn '+' str).length = x.strands.length)
    (hlens : ∀ np ∈ x.strands.zip (Notation.splitOn '+' str), (posOfStrandName st np.1).length = np.2.length) :
    fixStruct t st x str = specFixStruct t st x str := by
  have hc : ((Notation.splitOn '+' str).length != x.strands.length) = false := by simp [hcount]
  have hall := struct_hall hw hx hcodes
  rw [fixStruct_unfold, hc]
  unfold specFixStruct
  simp only [hc, Bool.false_eq_true, if_false]
  have hallB : (x.strands.zip (Notation.splitOn '+' str)).all
      (fun np => (posOfStrandName st np.1).length == np.2.length) = true := by
    rw [List.all_eq_true]; intro np hnp; simpa using hlens np hnp
  rw [hallB]
  simp only [Bool.not_true, Bool.false_eq_true, if_false]
  rw [strands_fold_ok hl _ st hw (fun np hnp => by
    obtain ⟨s, hs, hcs⟩ := hall np hnp
    exact ⟨s, hs, by rw [← posOfStrandName_length hw hs]; exact hlens np hnp, hcs⟩)]
  rw [flatMap_snd_zip _ _ (by omega)]
  unfold specFix
  have hlen : ((x.strands.zip (Notation.splitOn '+' str)).flatMap (fun np => posOfStrandName st np.1)).length
      = (Notation.splitOn '+' str).flatten.length := by
    rw [← flatMap_snd_zip x.strands _ (by omega)]
    generalize x.strands.zip (Notation.splitOn '+' str) = l at hlens
    induction l with
    | nil => rfl
    | cons a r ih =>
      simp only [List.flatMap_cons, List.length_append]
      rw [hlens a List.mem_cons_self, ih (fun np h => hlens np (List.mem_cons_of_mem _ h))]
  have : (((x.strands.zip (Notation.splitOn '+' str)).flatMap (fun np => posOfStrandName st np.1)).length
      != (Notation.splitOn '+' str).flatten.length) = false := by simp [hlen]
  rw [this]
  rfl

/-- `Structure.fix_seq`: some part has the wrong length -/
theorem fixStruct_length {t : CodeTable} (hl : t.lawful = true) {st : St} (hw : wfB t st = true) {x : StructE}
    (hx : x ∈ st.structs) (str : List Char) (hcodes : ∀ c ∈ str, c = '+' ∨ t.isCode c = true)
    (hcount : (Notation.splitOn '+' str).length = x.strands.length)
    (hbad : ∃ np ∈ x.strands.zip (Notation.splitOn '+' str), (posOfStrandName st np.1).length ≠ np.2.length) :
    (∃ err, fixStruct t st x str = .error err) ∧ specFixStruct t st x str = .error .length := by
  have hc : ((Notation.splitOn '+' str).length != x.strands.length) = false := by simp [hcount]
  have hall := struct_hall hw hx hcodes
  constructor
  · rw [fixStruct_unfold, hc]
    simp only [Bool.false_eq_true, if_false]
    apply strands_fold_bad hl _ st hw hall
    obtain ⟨np, hnp, hne⟩ := hbad
    refine ⟨np, hnp, fun s hs h => hne ?_⟩
    rw [posOfStrandName_length hw hs, h]
  · unfold specFixStruct
    simp only [hc, Bool.false_eq_true, if_false]
    have : (x.strands.zip (Notation.splitOn '+' str)).all
        (fun np => (posOfStrandName st np.1).length == np.2.length) = false := by
      rw [List.all_eq_false]
      obtain ⟨np, hnp, hne⟩ := hbad
      exact ⟨np, hnp, by simpa using hne⟩
    rw [this]
    rfl

/-! ### frame and narrowing -/

/-- the code at index `i` of base sequence `n` -/
def charAt (st : St) (n : String) (i : Nat) : Option Char := (st.findSeq n).bind (·.const[i]?)

/-- its base set as a mask (`0` when there is no such position) -/
def maskAt (t : CodeTable) (st : St) (n : String) (i : Nat) : Nat :=
  match charAt st n i with
  | some c => t.maskC c
  | none => 0

theorem narrow_charAt {t : CodeTable} {st st' : St} {p : Pos} {c : Char} (h : narrow t st p c = some st')
    (n : String) (i : Nat) :
    charAt st' n i =
      if n = p.1 ∧ i = p.2.1 then (charAt st n i).bind (interO t · (codeFor t p c)) else charAt st n i := by
  unfold narrow at h
  obtain ⟨e, he, h⟩ := Option.bind_eq_some_iff.1 h
  obtain ⟨c', hc', h⟩ := Option.map_eq_some_iff.1 h
  subst h
  unfold narrowC at hc'
  obtain ⟨x, hx, hc'⟩ := Option.bind_eq_some_iff.1 hc'
  obtain ⟨y, hy, hc'⟩ := Option.map_eq_some_iff.1 hc'
  subst hc'
  unfold charAt
  rw [findSeq_setConst]
  by_cases hn : n = p.1
  · subst hn
    rw [he]
    simp only [Option.map_some, Option.bind_some, true_and]
    have : upd p.1 (e.const.set p.2.1 y) e = { e with const := e.const.set p.2.1 y } := by
      unfold upd; simp [findSeq_name he]
    rw [this]
    simp only
    by_cases hi : i = p.2.1
    · subst hi
      have hlt : p.2.1 < e.const.length := by
        rcases Nat.lt_or_ge p.2.1 e.const.length with h | h
        · exact h
        · rw [List.getElem?_eq_none h] at hx; cases hx
      simp [List.getElem?_set_self hlt, hx, hy]
    · simp [hi, List.getElem?_set_ne (Ne.symm hi)]
  · simp only [hn, false_and, if_false]
    cases h1 : st.findSeq n with
    | none => rfl
    | some e1 =>
      have : upd p.1 (e.const.set p.2.1 y) e1 = e1 := by
        unfold upd
        have : (e1.name == p.1) = false := by rw [findSeq_name h1]; exact beq_false_of_ne hn
        simp [this]
      simp [this]

/-- a fold of `narrow` leaves every position it does not mention alone -/
theorem specFold_frame {t : CodeTable} {st st' : St} {l : List (Pos × Char)} (h : specFold t st l = some st')
    (n : String) (i : Nat) (hni : ∀ pc ∈ l, ¬ (pc.1.1 = n ∧ pc.1.2.1 = i)) : charAt st' n i = charAt st n i := by
  induction l generalizing st with
  | nil => simp [specFold] at h; rw [h]
  | cons a r ih =>
    obtain ⟨p, c⟩ := a
    rw [specFold_cons] at h
    obtain ⟨s1, h1, h2⟩ := Option.bind_eq_some_iff.1 h
    rw [ih h2 (fun pc hpc => hni pc (List.mem_cons_of_mem _ hpc)), narrow_charAt h1]
    have := hni (p, c) List.mem_cons_self
    have : ¬ (n = p.1 ∧ i = p.2.1) := fun ⟨a, b⟩ => this ⟨a.symm, b.symm⟩
    simp [this]

/-- the masks of the letters that land on position `(n, i)`, complemented where the position is flagged -/
def hits (t : CodeTable) (l : List (Pos × Char)) (n : String) (i : Nat) : List Nat :=
  l.filterMap fun pc =>
    if pc.1.1 = n ∧ pc.1.2.1 = i then some (if pc.1.2.2 then complMask (t.maskC pc.2) else t.maskC pc.2) else none

theorem maskC_codeFor {t : CodeTable} (hl : t.lawful = true) (p : Pos) {c : Char} (hc : t.isCode c = true) :
    t.maskC (codeFor t p c) = if p.2.2 then complMask (t.maskC c) else t.maskC c := by
  unfold codeFor
  split
  · exact complC_mask hl hc
  · rfl

/-- after a fold of `narrow`, the base set at every position is the old set intersected with all the letters
    that landed on it -/
theorem specFold_masks {t : CodeTable} (hl : t.lawful = true) {st st' : St} {l : List (Pos × Char)}
    (h : specFold t st l = some st') (hc : ∀ pc ∈ l, t.isCode pc.2 = true) (n : String) (i : Nat) :
    maskAt t st' n i = (hits t l n i).foldl (· &&& ·) (maskAt t st n i) := by
  induction l generalizing st with
  | nil => simp [specFold] at h; rw [h]; rfl
  | cons a r ih =>
    obtain ⟨p, c⟩ := a
    rw [specFold_cons] at h
    obtain ⟨s1, h1, h2⟩ := Option.bind_eq_some_iff.1 h
    rw [ih h2 (fun pc hpc => hc pc (List.mem_cons_of_mem _ hpc))]
    have hch := narrow_charAt h1 n i
    unfold hits
    rw [List.filterMap_cons]
    by_cases hni : p.1 = n ∧ p.2.1 = i
    · simp only [hni, and_self, if_true, List.foldl_cons]
      congr 1
      have hni' : n = p.1 ∧ i = p.2.1 := ⟨hni.1.symm, hni.2.symm⟩
      rw [if_pos hni'] at hch
      -- the narrowing succeeded, so the position exists and the intersection is a code
      unfold narrow at h1
      obtain ⟨e, he, h1⟩ := Option.bind_eq_some_iff.1 h1
      obtain ⟨c', hc', _⟩ := Option.map_eq_some_iff.1 h1
      unfold narrowC at hc'
      obtain ⟨x, hx, hc'⟩ := Option.bind_eq_some_iff.1 hc'
      obtain ⟨y, hy, _⟩ := Option.map_eq_some_iff.1 hc'
      have hcx : charAt st n i = some x := by
        unfold charAt; rw [hni'.1, hni'.2, he]; exact hx
      rw [hcx, Option.bind_some, hy] at hch
      unfold maskAt
      rw [hch, hcx]
      simp only
      rw [((interO_eq_some_iff hl).1 hy).2.2.2, maskC_codeFor hl p (hc (p, c) List.mem_cons_self)]
    · have hni' : ¬ (n = p.1 ∧ i = p.2.1) := fun ⟨a, b⟩ => hni ⟨a.symm, b.symm⟩
      rw [if_neg hni'] at hch
      simp only [hni, if_false]
      unfold maskAt
      rw [hch]

theorem specFix_ok {t : CodeTable} {st st' : St} {pos : List Pos} {str : List Char}
    (h : specFix t st pos str = .ok st') : pos.length = str.length ∧ specFold t st (pos.zip str) = some st' := by
  unfold specFix at h
  split at h
  · cases h
  · rename_i hlen
    refine ⟨by simpa using hlen, ?_⟩
    cases h2 : specFold t st (pos.zip str) with
    | none => rw [h2] at h; cases h
    | some s2 => rw [h2] at h; simp only [Except.ok.injEq] at h; rw [h]

/-- the specification fails with `empty` exactly when some intersection along the way is empty -/
theorem specFix_error {t : CodeTable} {st : St} {pos : List Pos} {str : List Char} {err : Fix.Err}
    (h : specFix t st pos str = .error err) :
    (err = .length ∧ pos.length ≠ str.length) ∨
    (err = .empty ∧ pos.length = str.length ∧ specFold t st (pos.zip str) = none) := by
  unfold specFix at h
  split at h
  · rename_i hlen
    left; exact ⟨by cases h; rfl, by simpa using hlen⟩
  · rename_i hlen
    right
    cases h2 : specFold t st (pos.zip str) with
    | none => rw [h2] at h; exact ⟨by cases h; rfl, by simpa using hlen, rfl⟩
    | some s2 => rw [h2] at h; cases h

/-- under the invariant, a single `narrow` fails only on an empty intersection -/
theorem narrow_none_iff {t : CodeTable} (hl : t.lawful = true) {st : St} (hw : wfB t st = true) {p : Pos} {c : Char}
    (hc : t.isCode c = true) {x : Char} (hx : charAt st p.1 p.2.1 = some x) :
    narrow t st p c = none ↔ t.maskC x &&& (if p.2.2 then complMask (t.maskC c) else t.maskC c) = 0 := by
  unfold charAt at hx
  obtain ⟨e, he, hx⟩ := Option.bind_eq_some_iff.1 hx
  have hxc : t.isCode x = true := (wfB_constOK hw (findSeq_mem he)).1 x (List.mem_of_getElem? hx)
  have hcc : t.isCode (codeFor t p c) = true := by
    unfold codeFor; split
    · exact complD_isCode hl hc
    · exact hc
  rw [← maskC_codeFor hl p hc, ← interO_eq_none_iff hl hxc hcc]
  unfold narrow narrowC
  rw [he]
  simp only [Option.bind_some, hx]
  cases interO t x (codeFor t p c) <;> simp

/-! ### order independence -/

theorem toOption_bind {ε α β} (x : Except ε α) (f : α → Except ε β) :
    (x.bind f).toOption = x.toOption.bind (fun a => (f a).toOption) := by
  cases x <;> rfl

theorem specFix_toOption (t : CodeTable) (st : St) (pos : List Pos) (str : List Char) :
    (specFix t st pos str).toOption = if pos.length = str.length then specFold t st (pos.zip str) else none := by
  unfold specFix
  by_cases h : pos.length = str.length
  · have : (pos.length != str.length) = false := by simp [h]
    rw [this]; simp only [Bool.false_eq_true, if_false, h, if_true]
    cases specFold t st (pos.zip str) <;> rfl
  · have : (pos.length != str.length) = true := by simp [h]
    rw [this]; simp only [if_true, h, if_false]; rfl

/-- two fixes commute: same final state, or both orders fail -/
theorem specFix_comm {t : CodeTable} (hl : t.lawful = true) (st : St) (p1 p2 : List Pos) (s1 s2 : List Char) :
    ((specFix t st p1 s1).bind (fun st' => specFix t st' p2 s2)).toOption =
    ((specFix t st p2 s2).bind (fun st' => specFix t st' p1 s1)).toOption := by
  rw [toOption_bind, toOption_bind, specFix_toOption, specFix_toOption]
  simp only [specFix_toOption]
  by_cases h1 : p1.length = s1.length <;> by_cases h2 : p2.length = s2.length <;>
    simp only [h1, h2, if_true, if_false, Option.bind_none]
  · exact specFold_comm hl st _ _
  · cases specFold t st (p1.zip s1) <;> rfl
  · cases specFold t st (p2.zip s2) <;> rfl

/-- a whole list of fixes, in order -/
def specFixAll (t : CodeTable) (st : St) (l : List (List Pos × List Char)) : Except Fix.Err St :=
  l.foldlM (fun s x => specFix t s x.1 x.2) st

theorem specFixAll_toOption (t : CodeTable) (st : St) (l : List (List Pos × List Char)) :
    (specFixAll t st l).toOption =
      if l.all (fun x => x.1.length == x.2.length) then specFold t st (l.flatMap fun x => x.1.zip x.2) else none := by
  unfold specFixAll
  induction l generalizing st with
  | nil => simp [specFold]; rfl
  | cons x r ih =>
    rw [foldlM_cons_except]
    have hx := specFix_toOption t st x.1 x.2
    cases h : specFix t st x.1 x.2 with
    | error e =>
      rw [h] at hx
      simp only [List.all_cons, List.flatMap_cons, specFold_append]
      by_cases hl : x.1.length = x.2.length
      · simp only [hl, if_true] at hx
        rw [← hx]
        simp [Except.toOption]
      · simp [hl, Except.toOption]
    | ok s' =>
      rw [h] at hx
      simp only [List.all_cons, List.flatMap_cons, specFold_append]
      by_cases hl : x.1.length = x.2.length
      · simp only [hl, if_true] at hx
        have hb : (x.1.length == x.2.length) = true := by simp [hl]
        rw [← hx, ih s', hb, Bool.true_and]
        rfl
      · simp [hl, Except.toOption] at hx

/-- the outcome of a list of fixes does not depend on their order -/
theorem specFixAll_perm {t : CodeTable} (hl : t.lawful = true) (st : St) {l1 l2 : List (List Pos × List Char)}
    (h : l1.Perm l2) : (specFixAll t st l1).toOption = (specFixAll t st l2).toOption := by
  rw [specFixAll_toOption, specFixAll_toOption, h.all_eq,
    specFold_perm hl (h.flatMap_right _) st]

/-! ### names that do not exist -/

theorem fixNamed_comp_unknown_seq (t : CodeTable) (fuel : Nat) (s : St) (name : String) (str : List Char)
    (h : s.findSeq name = none) : fixNamed t .sequence (fuel + 1) (.comp s) name str = .ok none := by
  simp [fixNamed, h]

theorem fixNamed_comp_unknown_strand (t : CodeTable) (fuel : Nat) (s : St) (name : String) (str : List Char)
    (h : s.findStrand name = none) : fixNamed t .strand (fuel + 1) (.comp s) name str = .ok none := by
  simp [fixNamed, h]

theorem fixNamed_comp_unknown_struct (t : CodeTable) (fuel : Nat) (s : St) (name : String) (str : List Char)
    (h : s.findStruct name = none) : fixNamed t .structure (fuel + 1) (.comp s) name str = .ok none := by
  simp [fixNamed, h]

theorem fixNamed_sys_no_dash (t : CodeTable) (k : Kind) (fuel : Nat) (st : SysSt) (name : String) (str : List Char)
    (h : splitFirstDash name = none) : fixNamed t k (fuel + 1) (.sys st) name str = .ok none := by
  cases st
  simp [fixNamed, h]

theorem fixNamed_sys_unknown_inst (t : CodeTable) (k : Kind) (fuel : Nat) (st : SysSt) (name cn rest : String)
    (str : List Char) (h : splitFirstDash name = some (cn, rest)) (h2 : st.components.lookup cn = none) :
    fixNamed t k (fuel + 1) (.sys st) name str = .ok none := by
  cases st
  simp only [SysSt.components] at h2
  simp [fixNamed, h, h2]

theorem fixNamed_sys_unknown_below (t : CodeTable) (k : Kind) (fuel : Nat) (st : SysSt) (name cn rest : String)
    (str : List Char) (sub : Inst) (h : splitFirstDash name = some (cn, rest))
    (h2 : st.components.lookup cn = some sub) (h3 : fixNamed t k fuel sub rest str = .ok none) :
    fixNamed t k (fuel + 1) (.sys st) name str = .ok none := by
  cases st
  simp only [SysSt.components] at h2
  simp [fixNamed, h, h2, h3]

theorem fixSignal_unknown (t : CodeTable) (fuel : Nat) (st : SysSt) (name : String) (str : List Char)
    (h : st.signals.lookup name = none) : fixSignal t (fuel + 1) st name str = .ok none := by
  simp [fixSignal, h]

/-! ### signals: one binding -/

theorem wcStr_eq_wc {t : CodeTable} (hl : t.lawful = true) (s : List Char) (h : ∀ c ∈ s, t.isCode c = true) :
    t.wcStr s = some (wc t s) := wcStr_eq hl s h

theorem wc_codes {t : CodeTable} (hl : t.lawful = true) {s : List Char} (h : ∀ c ∈ s, t.isCode c = true) :
    ∀ c ∈ wc t s, t.isCode c = true := by
  intro c hc
  obtain ⟨a, ha, rfl⟩ := List.mem_map.1 hc
  exact complD_isCode hl (h a (List.mem_reverse.1 ha))

theorem wc_wc {t : CodeTable} (hl : t.lawful = true) (s : List Char) (h : ∀ c ∈ s, t.isCode c = true) :
    wc t (wc t s) = s := by
  have := wcStr_wcStr hl s h
  rw [wcStr_eq_wc hl s h, Option.bind_some, wcStr_eq_wc hl _ (wc_codes hl h)] at this
  simpa using this

/-- fixing the starred view of a sequence to `str` is fixing the sequence itself to the reverse complement -/
theorem specFix_star {t : CodeTable} (hl : t.lawful = true) {st : St} (hw : wfB t st = true) {n : String} {e : SeqE}
    (he : st.findSeq n = some e) (str : List Char) (hc : ∀ c ∈ str, t.isCode c = true) :
    specFix t st (posOfView st n true) str = specFix t st (posOfView st n false) (wc t str) := by
  unfold specFix
  have hpl := posOfView_length hw he
  rw [hpl false, hpl true]
  have : (wc t str).length = str.length := by simp [wc]
  rw [this]
  split
  · rfl
  · rename_i hne
    have hlen : e.len = str.length := by simpa using hne
    have hpv : posOfView st n true = (posOfView st n false).reverse.map flipPos := by
      unfold posOfView; rw [he]; rfl
    rw [hpv, specFold_rev hl st _ str hc (by rw [hpl false, hlen])]
    rfl

/-- one leaf binding of a signal: the port's sequence (unstarred) is fixed to `str` when the parity flag is
    false and to the reverse complement of `str` when it is true -/
theorem fix_port {t : CodeTable} (hl : t.lawful = true) {cs : St} (hw : wfB t cs = true) {n : String} {e : SeqE}
    (he : cs.findSeq n = some e) (parity : Bool) (str : List Char) (hc : ∀ c ∈ str, t.isCode c = true) :
    fixItem t (cs.seqs.length + 1) cs n parity str =
      specFix t cs (posOfView cs n false) (if parity then wc t str else str) := by
  rw [fixItem_top hl hw he _ (Nat.lt_succ_self _) parity str hc]
  cases parity
  · rfl
  · exact specFix_star hl hw he str hc

/-! ### signals through nested systems -/

/-- the loop body of `fix_signal` as the model has it -/
def sigStep (t : CodeTable) (fuel : Nat) (str : List Char) (acc : SysSt) (e : SigEntry) : Except Fix.Err SysSt :=
  match acc with
  | .mk p n pf tm sg l comps i o =>
    match comps.lookup e.comp with
    | none => Except.error Err.key
    | some sub =>
      let upd (sub' : Inst) : SysSt := .mk p n pf tm sg l (comps.map (fun (c, x) => if c == e.comp then (c, sub') else (c, x))) i o
      match e.port, sub with
      | .seq it _, .comp cs =>
        (fixItem t (cs.seqs.length + 1) cs it.name e.wc str).map (fun cs' => upd (.comp cs'))
      | .sig sn, .sys ss =>
        let str' := if e.wc then t.wcStr str else some str
        match str' with
        | none => Except.error Err.key
        | some f => match fixSignal t fuel ss sn f with
          | .error x => Except.error x
          | .ok none => Except.error Err.key
          | .ok (some ss') => Except.ok (upd (.sys ss'))
      | _, _ => Except.error Err.key

theorem fixSignal_succ (t : CodeTable) (fuel : Nat) (st : SysSt) (name : String) (str : List Char) :
    fixSignal t (fuel + 1) st name str =
      match st.signals.lookup name with
      | none => .ok none
      | some entries => (entries.foldlM (sigStep t fuel str) st).map some := rfl


def CompsWF (t : CodeTable) (fuel : Nat) (st : SysSt) : Prop := ∀ p ∈ st.components, wfInst t fuel p.2 = true

theorem wfInst_comp (t : CodeTable) (fuel : Nat) (s : St) : wfInst t fuel (.comp s) = wfB t s := by
  cases fuel <;> rfl

theorem wfInst_sys_succ (t : CodeTable) (fuel : Nat) (st : SysSt) :
    wfInst t (fuel + 1) (.sys st) = true ↔ CompsWF t fuel st := by
  unfold CompsWF
  simp [wfInst, List.all_eq_true]

theorem lookup_mem' {β} {l : List (String × β)} {k : String} {v : β} (h : l.lookup k = some v) : (k, v) ∈ l := by
  induction l with
  | nil => simp [List.lookup] at h
  | cons a r ih =>
    obtain ⟨k', v'⟩ := a
    simp only [List.lookup] at h
    split at h
    · rename_i hk
      have := eq_of_beq hk
      simp only [Option.some.injEq] at h
      subst h; subst this; exact List.mem_cons_self
    · exact List.mem_cons_of_mem _ (ih h)

theorem updComp_components (st : SysSt) (cn : String) (sub' : Inst) :
    (updComp st cn sub').components = st.components.map (fun (c, x) => if c == cn then (c, sub') else (c, x)) := by
  cases st; rfl

theorem CompsWF_updComp {t : CodeTable} {fuel : Nat} {st : SysSt} (h : CompsWF t fuel st) (cn : String) {sub' : Inst}
    (hs : wfInst t fuel sub' = true) : CompsWF t fuel (updComp st cn sub') := by
  intro p hp
  rw [updComp_components] at hp
  obtain ⟨⟨c, x⟩, hq, rfl⟩ := List.mem_map.1 hp
  simp only
  split
  · exact hs
  · exact h (c, x) hq

theorem sigStep_eq {t : CodeTable} (hl : t.lawful = true) (fuel : Nat) (str : List Char)
    (hc : ∀ c ∈ str, t.isCode c = true) (acc : SysSt) (hinv : CompsWF t fuel acc) (e : SigEntry) :
    sigStep t fuel str acc e = sigStepSpec t fuel str acc e := by
  obtain ⟨p, n, pf, tm, sg, l, comps, i, o⟩ := acc
  unfold sigStep sigStepSpec
  simp only [SysSt.components]
  cases hlk : comps.lookup e.comp with
  | none => rfl
  | some sub =>
    have hmem := lookup_mem' hlk
    have hwf := hinv _ hmem
    simp only
    cases hp : e.port with
    | seq it bs =>
      cases sub with
      | comp cs =>
        simp only
        rw [wfInst_comp] at hwf
        cases hf : cs.findSeq it.name with
        | none =>
          rw [fixItem_succ, hf]
          rfl
        | some e' =>
          rw [FixSpec.fix_port hl hwf hf e.wc str hc]
          rfl
      | sys ss => rfl
    | sig sn =>
      cases sub with
      | comp cs => rfl
      | sys ss =>
        simp only
        cases hwc : e.wc
        · rfl
        · simp only [if_true]
          rw [wcStr_eq_wc hl str hc]
          rfl

theorem sigStepSpec_wf {t : CodeTable} (hl : t.lawful = true) (fuel : Nat)
    (IH : ∀ (st : SysSt) (name : String) (str : List Char) (st' : SysSt), (∀ c ∈ str, t.isCode c = true) →
      wfInst t fuel (.sys st) = true → fixSignal t fuel st name str = .ok (some st') → wfInst t fuel (.sys st') = true)
    (str : List Char) (hc : ∀ c ∈ str, t.isCode c = true) (acc acc' : SysSt) (hinv : CompsWF t fuel acc)
    (e : SigEntry) (h : sigStepSpec t fuel str acc e = .ok acc') : CompsWF t fuel acc' := by
  unfold sigStepSpec at h
  simp only at h
  have hc' : ∀ c ∈ (if e.wc then wc t str else str), t.isCode c = true := by
    split
    · exact wc_codes hl hc
    · exact hc
  cases hlk : acc.components.lookup e.comp with
  | none => rw [hlk] at h; cases h
  | some sub =>
    rw [hlk] at h
    have hwf := hinv _ (lookup_mem' hlk)
    simp only at h
    cases hp : e.port with
    | seq it bs =>
      rw [hp] at h
      cases sub with
      | comp cs =>
        simp only at h
        rw [wfInst_comp] at hwf
        split at h
        · cases hx : specFix t cs (posOfView cs it.name false) (if e.wc then wc t str else str) with
          | error err => rw [hx] at h; cases h
          | ok cs' =>
            rw [hx] at h
            simp only [Except.map, Except.ok.injEq] at h
            subst h
            apply CompsWF_updComp hinv
            rw [wfInst_comp]
            exact specFold_wf hl hwf (specFix_ok hx).2
        · cases h
      | sys ss => cases h
    | sig sn =>
      rw [hp] at h
      cases sub with
      | comp cs => cases h
      | sys ss =>
        simp only at h
        cases hx : fixSignal t fuel ss sn (if e.wc then wc t str else str) with
        | error err => rw [hx] at h; cases h
        | ok r =>
          rw [hx] at h
          cases r with
          | none => cases h
          | some ss' =>
            simp only [Except.ok.injEq] at h
            subst h
            exact CompsWF_updComp hinv _ (IH ss sn _ ss' hc' hwf hx)

theorem fold_sig {t : CodeTable} (hl : t.lawful = true) (fuel : Nat)
    (IH : ∀ (st : SysSt) (name : String) (str : List Char) (st' : SysSt), (∀ c ∈ str, t.isCode c = true) →
      wfInst t fuel (.sys st) = true → fixSignal t fuel st name str = .ok (some st') → wfInst t fuel (.sys st') = true)
    (str : List Char) (hc : ∀ c ∈ str, t.isCode c = true) :
    ∀ (entries : List SigEntry) (acc : SysSt), CompsWF t fuel acc →
      entries.foldlM (sigStep t fuel str) acc = entries.foldlM (sigStepSpec t fuel str) acc ∧
      ∀ acc', entries.foldlM (sigStepSpec t fuel str) acc = .ok acc' → CompsWF t fuel acc' := by
  intro entries
  induction entries with
  | nil =>
    intro acc hinv
    refine ⟨rfl, fun acc' h => ?_⟩
    simp only [List.foldlM_nil] at h
    cases h
    exact hinv
  | cons e r ih =>
    intro acc hinv
    rw [foldlM_cons_except, foldlM_cons_except, sigStep_eq hl fuel str hc acc hinv e]
    cases hx : sigStepSpec t fuel str acc e with
    | error err => exact ⟨rfl, fun acc' h => by cases h⟩
    | ok acc1 => exact ih acc1 (sigStepSpec_wf hl fuel IH str hc acc acc1 hinv e hx)

/-- `fix_signal` keeps every component of the tree well-formed -/
theorem fixSignal_wf {t : CodeTable} (hl : t.lawful = true) : ∀ (fuel : Nat) (st : SysSt) (name : String)
    (str : List Char) (st' : SysSt), (∀ c ∈ str, t.isCode c = true) → wfInst t fuel (.sys st) = true →
    fixSignal t fuel st name str = .ok (some st') → wfInst t fuel (.sys st') = true := by
  intro fuel
  induction fuel with
  | zero => intro st name str st' _ _ h; cases h
  | succ fuel ih =>
    intro st name str st' hc hw h
    rw [fixSignal_succ] at h
    rw [wfInst_sys_succ] at hw ⊢
    cases hlk : st.signals.lookup name with
    | none => rw [hlk] at h; cases h
    | some entries =>
      rw [hlk] at h
      simp only at h
      obtain ⟨heq, hwf⟩ := fold_sig hl fuel ih str hc entries st hw
      rw [heq] at h
      cases hx : entries.foldlM (sigStepSpec t fuel str) st with
      | error err => rw [hx] at h; cases h
      | ok acc' =>
        rw [hx] at h
        simp only [Except.map, Except.ok.injEq, Option.some.injEq] at h
        subst h
        exact hwf acc' hx

/-- `fix_signal` against its specification -/
theorem fixSignal_spec {t : CodeTable} (hl : t.lawful = true) (fuel : Nat) (st : SysSt) (name : String)
    (str : List Char) (hc : ∀ c ∈ str, t.isCode c = true) (hw : wfInst t (fuel + 1) (.sys st) = true) :
    fixSignal t (fuel + 1) st name str =
      match st.signals.lookup name with
      | none => .ok none
      | some entries => (entries.foldlM (sigStepSpec t fuel str) st).map some := by
  rw [fixSignal_succ]
  cases hlk : st.signals.lookup name with
  | none => rfl
  | some entries =>
    simp only
    rw [(fold_sig hl fuel (fixSignal_wf hl fuel) str hc entries st ((wfInst_sys_succ t fuel st).1 hw)).1]

end Pepper.FixSpec
