import PepperModel.Constraint
/-!
# Helper lemmas about `Constraint.resolve` (C10, C01)
-/
namespace Pepper.Constraint

deriving instance DecidableEq for Except

@[simp] theorem expand_length (w : Nat) (parts : List (Mult × Char)) :
    (expand w parts).length = fixedSum parts + w * wildCount parts := by
  induction parts with
  | nil => simp [expand, fixedSum, wildCount]
  | cons p r ih =>
    obtain ⟨m, c⟩ := p
    cases m with
    | num n => simp [expand, fixedSum, wildCount, ih]; omega
    | wild => simp [expand, fixedSum, wildCount, ih, Nat.mul_add]; omega

theorem wildCount_explicit (w : Nat) (parts : List (Mult × Char)) : wildCount (explicit w parts) = 0 := by
  induction parts with
  | nil => simp [explicit, wildCount]
  | cons p r ih => obtain ⟨m, c⟩ := p; cases m <;> simp [explicit, wildCount, ih]

theorem fixedSum_explicit (w : Nat) (parts : List (Mult × Char)) :
    fixedSum (explicit w parts) = fixedSum parts + w * wildCount parts := by
  induction parts with
  | nil => simp [explicit, fixedSum, wildCount]
  | cons p r ih =>
    obtain ⟨m, c⟩ := p
    cases m with
    | num n => simp [explicit, fixedSum, wildCount, ih]; omega
    | wild => simp [explicit, fixedSum, wildCount, ih, Nat.mul_add]; omega

theorem expand_explicit (w v : Nat) (parts : List (Mult × Char)) :
    expand v (explicit w parts) = expand w parts := by
  induction parts with
  | nil => simp [explicit, expand]
  | cons p r ih => obtain ⟨m, c⟩ := p; cases m <;> simp [explicit, expand, ih]

theorem length_explicit (w : Nat) (parts : List (Mult × Char)) : (explicit w parts).length = parts.length := by
  induction parts with
  | nil => simp [explicit]
  | cons p r ih => obtain ⟨m, c⟩ := p; cases m <;> simp [explicit, ih]

theorem explicit_getElem? (w : Nat) (parts : List (Mult × Char)) (i : Nat) :
    (explicit w parts)[i]? = parts[i]?.map (fun p => match p with
      | (.num n, c) => (.num n, c)
      | (.wild, c) => (.num w, c)) := by
  induction parts generalizing i with
  | nil => simp [explicit]
  | cons p r ih =>
    obtain ⟨m, c⟩ := p
    cases i with
    | zero => cases m <;> simp [explicit]
    | succ i => cases m <;> simp [explicit, ih]

/-- when the parts are wildcard-free the expansion does not depend on the wildcard width -/
theorem expand_of_wildCount_zero {parts : List (Mult × Char)} (h : wildCount parts = 0) (w v : Nat) :
    expand w parts = expand v parts := by
  induction parts with
  | nil => simp [expand]
  | cons p r ih =>
    obtain ⟨m, c⟩ := p
    cases m with
    | num n => simp [expand, wildCount] at h ⊢; exact ih h
    | wild => simp [wildCount] at h

theorem resolve_none_of_zero {parts : List (Mult × Char)} (h : wildCount parts = 0) :
    resolve parts none = .ok (fixedSum parts, expand 0 parts) := by
  simp [resolve, h]

theorem resolve_none_of_one {parts : List (Mult × Char)} (h : wildCount parts = 1) :
    resolve parts none = .error .wildNoLength := by
  simp [resolve, h]

theorem resolve_of_two {parts : List (Mult × Char)} (h : 2 ≤ wildCount parts) (l : Option Nat) :
    resolve parts l = .error .tooManyWild := by
  have : wildCount parts > 1 := h
  simp [resolve, this]

theorem resolve_some_of_one {parts : List (Mult × Char)} (h : wildCount parts = 1) {L : Nat}
    (hle : fixedSum parts ≤ L) : resolve parts (some L) = .ok (L, expand (L - fixedSum parts) parts) := by
  have : ¬ L < fixedSum parts := by omega
  simp [resolve, h, this]

/-- `resolve … none` succeeds exactly on wildcard-free parts -/
theorem resolve_none_ok_iff {parts : List (Mult × Char)} {r : Nat × List Char} :
    resolve parts none = .ok r ↔ wildCount parts = 0 ∧ r = (fixedSum parts, expand 0 parts) := by
  unfold resolve
  by_cases h2 : wildCount parts > 1
  · simp [h2]; omega
  · by_cases h0 : wildCount parts = 0
    · simp [h0]; exact eq_comm
    · simp [h2, h0]

theorem resolve_none_wild_iff {parts : List (Mult × Char)} :
    resolve parts none = .error .wildNoLength ↔ wildCount parts = 1 := by
  unfold resolve
  by_cases h2 : wildCount parts > 1
  · simp [h2]; omega
  · by_cases h0 : wildCount parts = 0
    · simp [h0]
    · simp [h2, h0]; omega

/-- the resolved constraint has exactly the resolved length -/
theorem resolve_length {parts : List (Mult × Char)} {l : Option Nat} {n : Nat} {c : List Char}
    (h : resolve parts l = .ok (n, c)) : c.length = n := by
  unfold resolve at h
  by_cases h2 : wildCount parts > 1
  · simp [h2] at h
  · by_cases h0 : wildCount parts = 0
    · cases l with
      | none => simp [h0] at h; obtain ⟨rfl, rfl⟩ := h; simp [h0]
      | some L =>
        simp [h0] at h
        split at h
        · simp at h; obtain ⟨rfl, rfl⟩ := h; simp [h0]; omega
        · simp at h
    · have h1 : wildCount parts = 1 := by omega
      cases l with
      | none => simp [h1] at h
      | some L =>
        simp [h1] at h
        split at h
        · simp at h
        · simp at h; obtain ⟨rfl, rfl⟩ := h; simp [h1]; omega

end Pepper.Constraint
