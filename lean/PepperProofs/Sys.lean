import PepperModel.Sys
import PepperModel.Denote
import PepperModel.Emit
import PepperModel.Pil
/-!
# Proofs about systems (C02): import resolution, the binding loop, orientation of signal members,
instance prefixes
-/
namespace Pepper.SysProofs
open Pepper.Comp Pepper.Sys

/-! ### import resolution -/

/-- does `base.sys` or `base.comp` exist in directory `d`? -/
def sysAt (probe : String → Bool) (base d : String) : Bool := probe (pathJoin d base ++ ".sys")
def compAt (probe : String → Bool) (base d : String) : Bool := probe (pathJoin d base ++ ".comp")

/-- what `load_file` does once it stands in the first directory that has a candidate -/
def hitResult (probe : String → Bool) (base d : String) : Except Sys.Err (String × Bool × String) :=
  if sysAt probe base d && compAt probe base d then .error .ambiguous
  else if sysAt probe base d then .ok (pathJoin d base ++ ".sys", true, dirname (pathJoin d base))
  else .ok (pathJoin d base ++ ".comp", false, dirname (pathJoin d base))

theorem go_spec (probe : String → Bool) (base : String) (dirs : List String) :
    (∃ i, ∃ h : i < dirs.length,
        (∀ j (hj : j < i), sysAt probe base (dirs[j]'(Nat.lt_trans hj h)) = false ∧
                           compAt probe base (dirs[j]'(Nat.lt_trans hj h)) = false) ∧
        (sysAt probe base dirs[i] = true ∨ compAt probe base dirs[i] = true) ∧
        resolveImport.go probe base dirs = hitResult probe base dirs[i])
    ∨ ((∀ d ∈ dirs, sysAt probe base d = false ∧ compAt probe base d = false) ∧
        (match resolveImport.go probe base dirs with | .error .missing => True | _ => False)) := by
  induction dirs with
  | nil =>
    right
    refine ⟨fun d h => (nomatch h), ?_⟩
    simp [resolveImport.go]
  | cons d r ih =>
    by_cases hs : sysAt probe base d = true
    · left
      refine ⟨0, by simp, fun j hj => by omega, Or.inl hs, ?_⟩
      unfold sysAt at hs
      simp only [resolveImport.go, hitResult, sysAt, compAt, hs, List.getElem_cons_zero]
      cases probe (pathJoin d base ++ ".comp") <;> simp
    · by_cases hc : compAt probe base d = true
      · left
        refine ⟨0, by simp, fun j hj => by omega, Or.inr hc, ?_⟩
        unfold sysAt at hs
        unfold compAt at hc
        simp only [resolveImport.go, hitResult, sysAt, compAt, hs, hc, List.getElem_cons_zero]
        simp
      · have hs' : sysAt probe base d = false := by simpa using hs
        have hc' : compAt probe base d = false := by simpa using hc
        have hgo : resolveImport.go probe base (d :: r) = resolveImport.go probe base r := by
          unfold sysAt at hs'; unfold compAt at hc'
          simp [resolveImport.go, hs', hc']
        rcases ih with ⟨i, h, hbefore, hhit, hres⟩ | ⟨hnone, hmiss⟩
        · left
          refine ⟨i + 1, by simp; omega, ?_, by simpa using hhit, by rw [hgo]; simpa using hres⟩
          intro j hj
          cases j with
          | zero => exact ⟨hs', hc'⟩
          | succ j => simpa using hbefore j (by omega)
        · right
          refine ⟨?_, by rw [hgo]; exact hmiss⟩
          intro x hx
          rcases List.mem_cons.1 hx with rfl | hx
          · exact ⟨hs', hc'⟩
          · exact hnone x hx

/-! ### unfolding `load_file` / the statement loop -/

theorem loadFile_zero (b : Bundle) (base : String) (args : Nat) (argKey pfx path : String) (includes : List String) (anon : Nat) :
    ∃ e, loadFile b 0 base args argKey pfx path includes anon = .error e := by
  rw [loadFile]; exact ⟨_, rfl⟩

theorem loadFile_succ (b : Bundle) (fuel : Nat) (base : String) (args : Nat) (argKey pfx path : String)
    (includes : List String) (anon : Nat) :
    loadFile b (fuel + 1) base args argKey pfx path includes anon =
      match resolveImport (fun p => b.exists_.contains (normPath p)) base path includes with
      | .error e => .error e
      | .ok (fname, issys, newPath) =>
        match b.files.lookup (normPath fname ++ argKey) with
        | none => .error .missing
        | some (.comp c) =>
          if issys then .error .wrongKind else
          match Comp.load c args pfx anon with
          | .ok (st, a) => .ok (.comp st, a)
          | .error e => .error (.comp e)
        | some (.sys s) =>
          if !issys then .error .wrongKind else
          if s.params.length != args then .error .arity else
          match loadStmts b fuel includes s.stmts (.mk newPath s.name pfx [] [] [] [] [] []) anon with
          | .error e => .error e
          | .ok (st, a) =>
            if !(s.inputs ++ s.outputs).all (fun r => (st.signals.lookup r.name).isSome) then .error .undefinedSignal
            else match st with
              | .mk p n pf t sg l c _ _ => .ok (.sys (.mk p n pf t sg l c s.inputs s.outputs), a) := by
  rw [loadFile]
  rfl

/-! ### the binding loop of `add_component`, named -/

def bindStep (cname : String) (acc : List (String × List SigEntry) × List (String × Nat))
    (gp : SigRef × (Sys.Port × Bool × Nat × Bool)) : Except Sys.Err (List (String × List SigEntry) × List (String × Nat)) :=
  match acc.2.lookup gp.1.name with
  | none => if gp.2.2.2.2 then .error .dummySignal
            else .ok (addSig acc.1 gp.1.name ⟨gp.2.1, cname, gp.1.star != gp.2.2.1⟩, acc.2 ++ [(gp.1.name, gp.2.2.2.1)])
  | some l0 => if l0 != gp.2.2.2.1 then .error .signalLength
               else .ok (addSig acc.1 gp.1.name ⟨gp.2.1, cname, gp.1.star != gp.2.2.1⟩, acc.2)

def bindSigs (cname : String) (sigs : List (String × List SigEntry)) (lens : List (String × Nat))
    (globs : List SigRef) (ports : List (Sys.Port × Bool × Nat × Bool)) :
    Except Sys.Err (List (String × List SigEntry) × List (String × Nat)) :=
  (List.zip globs ports).foldlM (bindStep cname) (sigs, lens)

/-- the ports of a component instance: the *unstarred* sequence object, the star of the declaration, … -/
def compPorts (cst : Comp.St) : List (Sys.Port × Bool × Nat × Bool) :=
  (cst.inputSeqs ++ cst.outputSeqs).map (fun (i : ItemRef) =>
    let fwdRef : ItemRef := { i with rev := false }
    let bases := match cst.findSeq i.name with | some e => e.bases | none => []
    (Sys.Port.seq fwdRef bases, i.rev, i.len, i.len == 0))

/-- the ports of a sub-system instance: its declared signals and the stars of the declaration -/
def sysPorts (sst : SysSt) : List (Sys.Port × Bool × Nat × Bool) :=
  (sst.inputSeqs ++ sst.outputSeqs).map (fun (r : SigRef) =>
    (Sys.Port.sig r.name, r.star, (sst.lengths.lookup r.name).getD 0, false))

def instPorts : Inst → List (Sys.Port × Bool × Nat × Bool)
  | .comp cst => compPorts cst
  | .sys sst => sysPorts sst

def instArity : Inst → Nat × Nat
  | .comp cst => (cst.inputSeqs.length, cst.outputSeqs.length)
  | .sys sst => (sst.inputSeqs.length, sst.outputSeqs.length)

def addComp (st : SysSt) (sg : List (String × List SigEntry)) (l : List (String × Nat)) (cname : String) (inst : Inst) : SysSt :=
  match st with
  | .mk p n pf t _ _ c i o => .mk p n pf t sg l (c ++ [(cname, inst)]) i o

theorem loadStmts_nil (b : Bundle) (fuel : Nat) (includes : List String) (st : SysSt) (a : Nat) :
    loadStmts b fuel includes [] st a = .ok (st, a) := by
  rw [loadStmts]

theorem loadStmts_component (b : Bundle) (fuel : Nat) (includes : List String) (cname templ : String) (args : Nat)
    (ins outs : List SigRef) (r : List SStmt) (st : SysSt) (a : Nat) :
    loadStmts b fuel includes (.component cname templ args ins outs :: r) st a =
      match st.template.lookup templ with
      | none => .error .unknownTemplate
      | some tpath =>
        if (st.components.lookup cname).isSome then .error .dupComponent else
        match loadFile b fuel tpath args ("@" ++ st.pfx ++ cname) (st.pfx ++ cname ++ "-") st.path includes a with
        | .error e => .error e
        | .ok (inst, a') =>
          if ins.length != (instArity inst).1 || outs.length != (instArity inst).2 then .error .portCount else
          match bindSigs cname st.signals st.lengths (ins ++ outs) (instPorts inst) with
          | .error e => .error e
          | .ok (sg, l) => loadStmts b fuel includes r (addComp st sg l cname inst) a' := by
  rw [loadStmts]
  obtain ⟨p, n, pf, t, sg0, l0, c0, i0, o0⟩ := st
  cases (SysSt.mk p n pf t sg0 l0 c0 i0 o0).template.lookup templ with
  | none => rfl
  | some tpath =>
    simp only
    split
    · rfl
    · cases loadFile b fuel tpath args ("@" ++ (SysSt.mk p n pf t sg0 l0 c0 i0 o0).pfx ++ cname) ((SysSt.mk p n pf t sg0 l0 c0 i0 o0).pfx ++ cname ++ "-") (SysSt.mk p n pf t sg0 l0 c0 i0 o0).path includes a with
      | error e => rfl
      | ok x =>
        obtain ⟨inst, a'⟩ := x
        cases inst <;> rfl


/-! ### orientation -/

/-- every entry the binding loop adds carries `wc = (star on the binding ≠ star on the declaration)` -/
theorem bindSigs_spec (cname : String) :
    ∀ (zs : List (SigRef × (Sys.Port × Bool × Nat × Bool))) (acc acc' : List (String × List SigEntry) × List (String × Nat)),
      zs.foldlM (bindStep cname) acc = .ok acc' →
      acc'.1 = zs.foldl (fun s gp => addSig s gp.1.name ⟨gp.2.1, cname, gp.1.star != gp.2.2.1⟩) acc.1 := by
  intro zs
  induction zs with
  | nil => intro acc acc' h; simp only [List.foldlM_nil] at h; cases h; rfl
  | cons z r ih =>
    intro acc acc' h
    rw [List.foldlM_cons] at h
    cases hz : bindStep cname acc z with
    | error e => rw [hz] at h; cases h
    | ok acc1 =>
      rw [hz] at h
      have := ih acc1 acc' h
      rw [this, List.foldl_cons]
      congr 1
      unfold bindStep at hz
      split at hz <;> split at hz <;> first | (cases hz; done) | (simp only [Except.ok.injEq] at hz; rw [← hz])

theorem rc_rc (l : List Nuc) : rc (rc l) = l := by
  unfold rc
  have hf : ∀ n : Nuc, n.flip.flip = n := by intro n; cases n; simp [Nuc.flip]
  simp [List.map_reverse, Function.comp_def, hf]

theorem rc_append (a b : List Nuc) : rc (a ++ b) = rc b ++ rc a := by
  unfold rc; simp

/-- parities compose by xor -/
theorem rc_parity (a b : Bool) (x : List Nuc) :
    (if a then rc (if b then rc x else x) else (if b then rc x else x)) = if (a != b) then rc x else x := by
  cases a <;> cases b <;> simp [rc_rc]

theorem nucsOfBase_inv (b : Pil.BaseRef) : Pil.nucsOfBase b.inv = rc (Pil.nucsOfBase b) := by
  obtain ⟨n, r, l⟩ := b
  cases r <;> simp [Pil.nucsOfBase, Pil.BaseRef.inv, rc_rc]

theorem nucsOfBases_rev (bs : List Pil.BaseRef) :
    Pil.nucsOfBases (bs.reverse.map Pil.BaseRef.inv) = rc (Pil.nucsOfBases bs) := by
  induction bs with
  | nil => rfl
  | cons b r ih =>
    have : Pil.nucsOfBases (b :: r) = Pil.nucsOfBase b ++ Pil.nucsOfBases r := by
      simp [Pil.nucsOfBases]
    rw [this, rc_append, ← ih]
    simp [Pil.nucsOfBases, nucsOfBase_inv]

/-- under `Pil.denote`, the starred view of an object is the reverse complement of the object -/
theorem pil_star_region (o : Pil.SeqObj) (rev : Bool) :
    Pil.nucsOfBases (Pil.basesOfView o rev) = if rev then rc (Pil.nucsOfBases o.bases) else Pil.nucsOfBases o.bases := by
  cases rev
  · rfl
  · simp only [Pil.basesOfView, if_true]
    exact nucsOfBases_rev o.bases

/-- reading `name*` gives the starred view of `name` -/
theorem resolveItem_star (s : Pil.Spec) (nm : String) (o : Pil.SeqObj) (h : s.findSeq nm = some o) :
    Pil.resolveItem s (nm ++ "*") = .ok (⟨nm, true⟩, o) := by
  unfold Pil.resolveItem
  have : (nm ++ "*").toList.reverse = '*' :: nm.toList.reverse := by
    rw [String.toList_append]; simp
  simp only [this, List.reverse_reverse, String.ofList_toList, h]

/-! ### the specification side: `Denote.bindPorts` -/

/-- loop body of `Denote.bindPorts` -/
def bpStep (a : Denote.SigAcc) (gp : SigRef × (List Nuc × Bool)) : Except Denote.Err Denote.SigAcc :=
  let g := gp.1
  let x := gp.2.1
  let region := if g.star != gp.2.2 then rc x else x
  match a.len.lookup g.name with
  | none =>
    if x.isEmpty then Except.error Denote.Err.length
    else Except.ok { order := a.order ++ [g.name], len := a.len ++ [(g.name, x.length)],
                     members := a.members ++ [(g.name, [region])] }
  | some l =>
    if l != x.length then Except.error Denote.Err.length
    else Except.ok { a with members := a.members.map (fun (k, v) => if k == g.name then (k, v ++ [region]) else (k, v)) }

theorem bindPorts_eq (acc : Denote.SigAcc) (globs : List SigRef) (ports : List (List Nuc × Bool)) :
    Denote.bindPorts acc globs ports = (List.zip globs ports).foldlM bpStep acc := rfl

/-- the region a binding contributes to its signal: the port's nucleotides when the stars on binding and
    declaration agree, their reverse complement when they differ -/
theorem bpStep_region (a a' : Denote.SigAcc) (gp : SigRef × (List Nuc × Bool)) (h : bpStep a gp = .ok a') :
    let region := if gp.1.star != gp.2.2 then rc gp.2.1 else gp.2.1
    a'.members = a.members ++ [(gp.1.name, [region])] ∨
    a'.members = a.members.map (fun (k, v) => if k == gp.1.name then (k, v ++ [region]) else (k, v)) := by
  unfold bpStep at h
  simp only at h
  split at h <;> split at h <;> first | (cases h; done) | skip
  · simp only [Except.ok.injEq] at h; subst h; left; rfl
  · simp only [Except.ok.injEq] at h; subst h; right; rfl

/-! ### declaration stars reach the port lists unchanged -/

theorem mapM_except_map {α β ε} (f : α → Except ε β) : ∀ (l : List α) (r : List β), l.mapM f = .ok r →
    r.length = l.length ∧ ∀ k (hk : k < l.length) (hk' : k < r.length), f l[k] = .ok r[k] := by
  intro l
  induction l with
  | nil => intro r h; simp [List.mapM_nil, pure, Except.pure] at h; subst h; exact ⟨rfl, fun k hk => absurd hk (by simp)⟩
  | cons a t ih =>
    intro r h
    rw [List.mapM_cons] at h
    cases ha : f a with
    | error e => rw [ha] at h; cases h
    | ok b =>
      rw [ha] at h
      cases ht : t.mapM f with
      | error e => rw [ht] at h; cases h
      | ok r' =>
        rw [ht] at h
        simp only [bind, Except.bind, pure, Except.pure, Except.ok.injEq] at h
        subst h
        obtain ⟨hl, hk⟩ := ih r' ht
        refine ⟨by simp [hl], ?_⟩
        intro k hk1 hk2
        cases k with
        | zero => simpa using ha
        | succ k => simpa using hk k (by simpa using hk1) (by simpa using hk2)


/-- `add_IO`, one port -/
def portOf (s : Comp.St) (p : Comp.Port) : Except Comp.Err (ItemRef × Option String) := do
  match s.findSeq p.seq with
  | none => throw Comp.Err.undefinedSeq
  | some e =>
    match p.struct with
    | some sn => if (s.findStruct sn).isNone then throw Comp.Err.undefinedStruct
    | none => pure ()
    pure ((⟨e.name, p.star, e.len, e.isSup⟩ : ItemRef), p.struct)

theorem addIO_eq (s : Comp.St) (inputs outputs : List Comp.Port) :
    Comp.addIO s inputs outputs = (do
      let ins ← inputs.mapM (portOf s)
      let outs ← outputs.mapM (portOf s)
      pure { s with inputSeqs := ins.map (·.1), inputStructs := ins.map (·.2),
                    outputSeqs := outs.map (·.1), outputStructs := outs.map (·.2) }) := rfl

theorem portOf_spec {s : Comp.St} {p : Comp.Port} {r : ItemRef × Option String} (h : portOf s p = .ok r) :
    r.1.name = p.seq ∧ r.1.rev = p.star ∧ ∃ e, s.findSeq p.seq = some e ∧ r.1.len = e.len ∧ r.1.isSup = e.isSup := by
  unfold portOf at h
  cases he : s.findSeq p.seq with
  | none => rw [he] at h; cases h
  | some e =>
    rw [he] at h
    have hname : e.name = p.seq := by
      have := List.find?_some he; simpa using this
    cases hs : p.struct with
    | none =>
      simp only [hs, pure, Except.pure, Except.ok.injEq] at h
      subst h
      exact ⟨hname, rfl, e, rfl, rfl, rfl⟩
    | some sn =>
      simp only [hs, bind, Except.bind, pure, Except.pure] at h
      split at h
      · cases h
      · simp only [Except.ok.injEq] at h
        subst h
        exact ⟨hname, rfl, e, rfl, rfl, rfl⟩

theorem mapM_portOf {s : Comp.St} {ps : List Comp.Port} {rs : List (ItemRef × Option String)}
    (h : ps.mapM (portOf s) = .ok rs) :
    rs.map (fun r => (r.1.name, r.1.rev)) = ps.map (fun p => (p.seq, p.star)) := by
  obtain ⟨hl, hk⟩ := mapM_except_map (portOf s) ps rs h
  apply List.ext_getElem (by simp [hl])
  intro k h1 h2
  simp only [List.getElem_map]
  simp only [List.length_map] at h1 h2
  have := portOf_spec (hk k h2 h1)
  rw [this.1, this.2.1]

/-- the port list of a loaded component carries the names and the stars of the `declare` line, in order -/
theorem addIO_stars {s s' : Comp.St} {inputs outputs : List Comp.Port} (h : Comp.addIO s inputs outputs = .ok s') :
    (s'.inputSeqs ++ s'.outputSeqs).map (fun i => (i.name, i.rev)) =
      (inputs ++ outputs).map (fun p => (p.seq, p.star)) := by
  rw [addIO_eq] at h
  cases hi : inputs.mapM (portOf s) with
  | error e => rw [hi] at h; cases h
  | ok ins =>
    rw [hi] at h
    cases ho : outputs.mapM (portOf s) with
    | error e => rw [ho] at h; cases h
    | ok outs =>
      rw [ho] at h
      simp only [bind, Except.bind, pure, Except.pure, Except.ok.injEq] at h
      subst h
      simp only [List.map_append, List.map_map]
      rw [← mapM_portOf hi, ← mapM_portOf ho]
      simp [Function.comp_def]

theorem load_stars {src : Comp.Src} {args : Nat} {pfx : String} {anon : Nat} {st : Comp.St} {a : Nat}
    (h : Comp.load src args pfx anon = .ok (st, a)) :
    src.params.length = args ∧
    (st.inputSeqs ++ st.outputSeqs).map (fun i => (i.name, i.rev)) =
      (src.inputs ++ src.outputs).map (fun p => (p.seq, p.star)) := by
  unfold Comp.load at h
  by_cases hp : src.params.length = args
  · have : (src.params.length != args) = false := by simp [hp]
    simp only [this, Bool.false_eq_true, if_false, bind, Except.bind, pure, Except.pure] at h
    refine ⟨hp, ?_⟩
    cases h1 : Comp.addStmts { name := src.name, pfx := pfx, params := src.params } anon src.stmts with
    | error e => rw [h1] at h; cases h
    | ok r =>
      obtain ⟨s1, a1⟩ := r
      rw [h1] at h
      simp only at h
      cases h2 : Comp.addIO s1 src.inputs src.outputs with
      | error e => rw [h2] at h; cases h
      | ok s2 =>
        rw [h2] at h
        simp only [Except.ok.injEq, Prod.mk.injEq] at h
        rw [← h.1]
        exact addIO_stars h2
  · have : (src.params.length != args) = true := by simp [hp]
    simp only [this, if_true, bind, Except.bind, throw, throwThe, MonadExceptOf.throw] at h
    cases h


open Pepper.Denote in
section
/-! ### instance prefixes -/

/-- `p` is a prefix of `s` (on the characters) -/
def HasPfx (p s : String) : Prop := p.toList <+: s.toList

theorem HasPfx.refl (p : String) : HasPfx p p := List.prefix_refl _
theorem HasPfx.append (p x : String) : HasPfx p (p ++ x) := by
  unfold HasPfx; rw [String.toList_append]; exact List.prefix_append _ _
theorem HasPfx.trans {p q s : String} (h1 : HasPfx p q) (h2 : HasPfx q s) : HasPfx p s := List.IsPrefix.trans h1 h2
theorem HasPfx.of_append {p x s : String} (h : HasPfx (p ++ x) s) : HasPfx p s := (HasPfx.append p x).trans h
theorem HasPfx.append2 (p x y : String) : HasPfx p (p ++ x ++ y) := (HasPfx.append p x).trans (HasPfx.append _ y)

def NucsP (P : String → Prop) (l : List Nuc) : Prop := ∀ n ∈ l, P n.var.dom

theorem NucsP.nil {P} : NucsP P [] := fun _ h => nomatch h
theorem NucsP.append {P} {a b : List Nuc} (ha : NucsP P a) (hb : NucsP P b) : NucsP P (a ++ b) := by
  intro n hn; rcases List.mem_append.1 hn with h | h; exact ha n h; exact hb n h
theorem NucsP.rc {P} {a : List Nuc} (ha : NucsP P a) : NucsP P (rc a) := by
  intro n hn
  unfold Pepper.rc at hn
  obtain ⟨m, hm, rfl⟩ := List.mem_map.1 hn
  exact ha m (List.mem_reverse.1 hm)
theorem NucsP.fwd {P : String → Prop} {name : String} (h : P name) (len : Nat) : NucsP P (fwd name len) := by
  intro n hn
  unfold Pepper.fwd at hn
  obtain ⟨k, _, rfl⟩ := List.mem_map.1 hn
  exact h
theorem NucsP.flatten {P} {l : List (List Nuc)} (h : ∀ s ∈ l, NucsP P s) : NucsP P l.flatten := by
  intro n hn
  obtain ⟨s, hs, hns⟩ := List.mem_flatten.1 hn
  exact h s hs n hns
theorem NucsP.mono {P Q : String → Prop} (hpq : ∀ s, P s → Q s) {l : List Nuc} (h : NucsP P l) : NucsP Q l :=
  fun n hn => hpq _ (h n hn)

structure DesignP (P : String → Prop) (d : Design) : Prop where
  domains : ∀ x ∈ d.domains, P x.1
  seqs : ∀ x ∈ d.seqs, P x.1 ∧ NucsP P x.2
  strands : ∀ x ∈ d.strands, P x.1 ∧ NucsP P x.2.2
  structs : ∀ x ∈ d.structs, P x.name ∧ ∀ s ∈ x.strands, P s
  kinetics : ∀ k ∈ d.kinetics, (∀ s ∈ k.inputs, P s) ∧ (∀ s ∈ k.outputs, P s)
  equals : ∀ e ∈ d.equals, ∀ r ∈ e, NucsP P r

theorem DesignP.empty {P} : DesignP P Design.empty :=
  ⟨fun _ h => (nomatch h), fun _ h => (nomatch h), fun _ h => (nomatch h), fun _ h => (nomatch h),
   fun _ h => (nomatch h), fun _ h => (nomatch h)⟩

theorem DesignP.append {P} {a b : Design} (ha : DesignP P a) (hb : DesignP P b) : DesignP P (Design.append a b) := by
  constructor <;> intro x hx <;> simp only [Design.append, List.mem_append] at hx <;> rcases hx with h | h
  · exact ha.domains x h
  · exact hb.domains x h
  · exact ha.seqs x h
  · exact hb.seqs x h
  · exact ha.strands x h
  · exact hb.strands x h
  · exact ha.structs x h
  · exact hb.structs x h
  · exact ha.kinetics x h
  · exact hb.kinetics x h
  · exact ha.equals x h
  · exact hb.equals x h

theorem DesignP.mono {P Q : String → Prop} (hpq : ∀ s, P s → Q s) {d : Design} (h : DesignP P d) : DesignP Q d :=
  ⟨fun x hx => hpq _ (h.domains x hx),
   fun x hx => ⟨hpq _ (h.seqs x hx).1, (h.seqs x hx).2.mono hpq⟩,
   fun x hx => ⟨hpq _ (h.strands x hx).1, (h.strands x hx).2.mono hpq⟩,
   fun x hx => ⟨hpq _ (h.structs x hx).1, fun s hs => hpq _ ((h.structs x hx).2 s hs)⟩,
   fun k hk => ⟨fun s hs => hpq _ ((h.kinetics k hk).1 s hs), fun s hs => hpq _ ((h.kinetics k hk).2 s hs)⟩,
   fun e he r hr => (h.equals e he r hr).mono hpq⟩

theorem lookup_mem {β} {l : List (String × β)} {k : String} {v : β} (h : l.lookup k = some v) : (k, v) ∈ l := by
  induction l with
  | nil => simp [List.lookup] at h
  | cons a r ih =>
    obtain ⟨k', v'⟩ := a
    simp only [List.lookup] at h
    split at h
    · rename_i hk
      have := eq_of_beq hk
      simp only [Option.some.injEq] at h
      subst h; subst this; exact List.mem_cons_self
    · exact List.mem_cons_of_mem _ (ih h)

/-- the environment of a component denotation only mentions domains with property `P` -/
structure EnvP (P : String → Prop) (env : Env) : Prop where
  seqs : ∀ x ∈ env.seqs, NucsP P x.2.nucs ∧ ∀ s ∈ x.2.segs, NucsP P s
  strands : ∀ x ∈ env.strands, NucsP P x.2.1 ∧ ∀ s ∈ x.2.2, NucsP P s

structure AccP (P : String → Prop) (a : ItemsAcc) : Prop where
  segs : ∀ s ∈ a.segs, NucsP P s
  doms : ∀ d ∈ a.newDomains, P d.2.1

theorem rcSegs_P {P} {segs : List (List Nuc)} (h : ∀ s ∈ segs, NucsP P s) : ∀ s ∈ rcSegs segs, NucsP P s := by
  intro s hs
  unfold rcSegs at hs
  obtain ⟨x, hx, rfl⟩ := List.mem_map.1 hs
  exact (h x (List.mem_reverse.1 hx)).rc

theorem denoteItems_P {pfx : String} {env : Env} (he : EnvP (HasPfx pfx) env) :
    ∀ (items : List SrcItem) (a a' : ItemsAcc), AccP (HasPfx pfx) a → denoteItems pfx env items a = .ok a' →
      AccP (HasPfx pfx) a' := by
  intro items
  induction items with
  | nil => intro a a' ha h; simp only [denoteItems, Except.ok.injEq] at h; subst h; exact ha
  | cons it r ih =>
    intro a a' ha h
    cases it with
    | ref n star =>
      simp only [denoteItems] at h
      cases hl : env.seqs.lookup n with
      | none => rw [hl] at h; cases h
      | some b =>
        rw [hl] at h
        simp only at h
        have hb := (he.seqs _ (lookup_mem hl)).1
        refine ih _ a' ?_ h
        refine ⟨?_, ha.doms⟩
        intro s hs
        simp only [List.mem_append, List.mem_singleton] at hs
        rcases hs with hs | rfl
        · exact ha.segs s hs
        · split
          · exact hb.rc
          · exact hb
    | domains n star =>
      simp only [denoteItems] at h
      cases hl : env.seqs.lookup n with
      | none => rw [hl] at h; cases h
      | some b =>
        rw [hl] at h
        have hb := (he.seqs _ (lookup_mem hl)).2
        simp only at h
        split at h
        · cases h
        · refine ih _ a' ?_ h
          refine ⟨?_, ha.doms⟩
          intro s hs
          simp only [List.mem_append] at hs
          rcases hs with hs | hs
          · exact ha.segs s hs
          · split at hs
            · exact rcSegs_P hb s hs
            · exact hb s hs
    | nuc text =>
      simp only [denoteItems] at h
      split at h
      · rename_i l c _
        refine ih _ a' ?_ h
        refine ⟨?_, ?_⟩
        · intro s hs
          simp only [List.mem_append, List.mem_singleton] at hs
          rcases hs with hs | rfl
          · exact ha.segs s hs
          · exact NucsP.fwd (HasPfx.append2 pfx _ _) l
        · intro d hd
          simp only [List.mem_append, List.mem_singleton] at hd
          rcases hd with hd | rfl
          · exact ha.doms d hd
          · exact HasPfx.append2 pfx _ _
      · split at h
        · cases h
        · refine ih _ a' ?_ h
          refine ⟨?_, ha.doms⟩
          intro s hs
          simp only [List.mem_append, List.mem_singleton] at hs
          rcases hs with hs | rfl
          · exact ha.segs s hs
          · exact NucsP.nil
      · cases h


theorem setAt_mem {α} {l : List α} {i : Nat} {x y : α} (h : y ∈ setAt l i x) : y ∈ l ∨ y = x := by
  unfold setAt at h
  simp only [List.mem_append, List.mem_cons] at h
  rcases h with h | h | h
  · exact Or.inl (List.mem_of_mem_take h)
  · exact Or.inr h
  · exact Or.inl (List.mem_of_mem_drop h)

theorem denoteRegion_P {pfx : String} {env : Env} (he : EnvP (HasPfx pfx) env) {items : List SrcItem}
    {length : Option Nat} {segs : List (List Nuc)} {doms : List (String × List Char)} {anon : Nat}
    (h : denoteRegion pfx env items length = .ok (segs, doms, anon)) :
    (∀ s ∈ segs, NucsP (HasPfx pfx) s) ∧ (∀ d ∈ doms, HasPfx pfx d.1) := by
  unfold denoteRegion at h
  cases ha : denoteItems pfx env items { anon := env.anon } with
  | error e => rw [ha] at h; cases h
  | ok a =>
    rw [ha] at h
    have h0 : AccP (HasPfx pfx) ({ anon := env.anon } : ItemsAcc) := by
      constructor
      · intro s hs; cases hs
      · intro d hd; cases hd
    have hA : AccP (HasPfx pfx) a := denoteItems_P he items _ a h0 ha
    have hdoms : ∀ d ∈ a.newDomains.map (·.2), HasPfx pfx d.1 := by
      intro d hd
      obtain ⟨x, hx, rfl⟩ := List.mem_map.1 hd
      exact hA.doms x hx
    simp only [bind, Except.bind] at h
    cases hw : a.wild with
    | none =>
      rw [hw] at h
      simp only at h
      cases length with
      | none =>
        simp only [pure, Except.pure, Except.ok.injEq, Prod.mk.injEq] at h
        obtain ⟨rfl, rfl, _⟩ := h
        exact ⟨hA.segs, hdoms⟩
      | some l =>
        simp only at h
        split at h
        · cases h
        · simp only [pure, Except.pure, Except.ok.injEq, Prod.mk.injEq] at h
          obtain ⟨rfl, rfl, _⟩ := h
          exact ⟨hA.segs, hdoms⟩
    | some ip =>
      obtain ⟨i, parts⟩ := ip
      rw [hw] at h
      simp only at h
      cases length with
      | none => cases h
      | some l =>
        simp only at h
        split at h
        · cases h
        · split at h
          · cases h
          · rename_i wl c _
            simp only [pure, Except.pure, Except.ok.injEq, Prod.mk.injEq] at h
            obtain ⟨rfl, rfl, _⟩ := h
            refine ⟨?_, ?_⟩
            · intro s hs
              rcases setAt_mem hs with hs | rfl
              · exact hA.segs s hs
              · exact NucsP.fwd (HasPfx.append2 pfx _ _) wl
            · intro d hd
              simp only [List.mem_append, List.mem_cons] at hd
              rcases hd with hd | rfl | hd
              · exact hdoms d (List.mem_of_mem_take hd)
              · exact HasPfx.append2 pfx _ _
              · exact hdoms d (List.mem_of_mem_drop hd)


structure OutP (P : String → Prop) (o : Out) : Prop where
  domains : ∀ x ∈ o.domains, P x.1
  baseSeqs : ∀ x ∈ o.baseSeqs, P x.1 ∧ NucsP P x.2
  supSeqs : ∀ x ∈ o.supSeqs, P x.1 ∧ NucsP P x.2
  strands : ∀ x ∈ o.strands, P x.1 ∧ NucsP P x.2.2
  structs : ∀ x ∈ o.structs, P x.name ∧ ∀ s ∈ x.strands, P s
  kinetics : ∀ k ∈ o.kinetics, (∀ s ∈ k.inputs, P s) ∧ (∀ s ∈ k.outputs, P s)

theorem OutP.design {P} {o : Out} (h : OutP P o) : DesignP P (o.design []) := by
  refine ⟨h.domains, ?_, h.strands, h.structs, h.kinetics, fun e he => (nomatch he)⟩
  intro x hx
  simp only [Out.design, List.mem_append] at hx
  rcases hx with hx | hx
  · exact h.baseSeqs x hx
  · exact h.supSeqs x hx

theorem withNewDomains_P {P : String → Prop} {o : Out} (ho : OutP P o) {doms : List (String × List Char)}
    (hd : ∀ d ∈ doms, P d.1) : OutP P (withNewDomains o doms) := by
  unfold withNewDomains
  refine ⟨?_, ?_, ho.supSeqs, ho.strands, ho.structs, ho.kinetics⟩
  · intro x hx
    simp only [List.mem_append, List.mem_filter] at hx
    rcases hx with hx | hx
    · exact ho.domains x hx
    · exact hd x hx.1
  · intro x hx
    simp only [List.mem_append, List.mem_map, List.mem_filter] at hx
    rcases hx with hx | ⟨d, hd', rfl⟩
    · exact ho.baseSeqs x hx
    · exact ⟨hd d hd'.1, NucsP.fwd (hd d hd'.1) _⟩

theorem mapM_mem {α β ε} (f : α → Except ε β) : ∀ (l : List α) (r : List β), l.mapM f = .ok r →
    ∀ y ∈ r, ∃ x ∈ l, f x = .ok y := by
  intro l r h y hy
  obtain ⟨hl, hk⟩ := mapM_except_map f l r h
  obtain ⟨k, hk2, rfl⟩ := List.getElem_of_mem hy
  exact ⟨l[k]'(by omega), List.getElem_mem _, hk k (by omega) hk2⟩

theorem denoteStmt_P {pfx : String} {env env' : Env} {o o' : Out} (he : EnvP (HasPfx pfx) env)
    (ho : OutP (HasPfx pfx) o) (st : Stmt) (h : denoteStmt pfx env o st = .ok (env', o')) :
    EnvP (HasPfx pfx) env' ∧ OutP (HasPfx pfx) o' := by
  have hp : ∀ x : String, HasPfx pfx (pfx ++ x) := HasPfx.append pfx
  have sup_case : ∀ (name : String) (items : List SrcItem) (length : Option Nat),
      (do
        if (env.seqs.lookup name).isSome then throw Denote.Err.duplicate
        let (segs, doms, anon) ← denoteRegion pfx env items length
        let nucs := segs.flatten
        let o1 := withNewDomains o doms
        pure ({ env with seqs := env.seqs ++ [(name, ⟨nucs, segs, true⟩)], anon := anon },
              if nucs.isEmpty then o1 else { o1 with supSeqs := o1.supSeqs ++ [(pfx ++ name, nucs)] }) : Except Denote.Err (Env × Out))
        = .ok (env', o') → EnvP (HasPfx pfx) env' ∧ OutP (HasPfx pfx) o' := by
    intro name items length h
    split at h
    · cases h
    · simp only [bind, Except.bind, pure, Except.pure] at h
      cases hr : denoteRegion pfx env items length with
      | error e => rw [hr] at h; cases h
      | ok r =>
        obtain ⟨segs, doms, anon⟩ := r
        rw [hr] at h
        simp only [Except.ok.injEq, Prod.mk.injEq] at h
        obtain ⟨rfl, rfl⟩ := h
        obtain ⟨hsegs, hdoms⟩ := denoteRegion_P he hr
        have ho1 := withNewDomains_P ho hdoms
        refine ⟨⟨?_, he.strands⟩, ?_⟩
        · intro x hx
          simp only [List.mem_append, List.mem_singleton] at hx
          rcases hx with hx | rfl
          · exact he.seqs x hx
          · exact ⟨NucsP.flatten hsegs, hsegs⟩
        · split
          · exact ho1
          · refine ⟨ho1.domains, ho1.baseSeqs, ?_, ho1.strands, ho1.structs, ho1.kinetics⟩
            intro x hx
            simp only [List.mem_append, List.mem_singleton] at hx
            rcases hx with hx | rfl
            · exact ho1.supSeqs x hx
            · exact ⟨hp _, NucsP.flatten hsegs⟩
  cases st with
  | seq name items length =>
    -- atomic definition `name = "…"` or a composite
    by_cases hsingle : ∃ text, items = [.nuc text]
    · obtain ⟨text, rfl⟩ := hsingle
      simp only [denoteStmt] at h
      split at h
      · cases h
      · split at h
        · cases h
        · rename_i l c _
          simp only [Except.ok.injEq, Prod.mk.injEq] at h
          obtain ⟨rfl, rfl⟩ := h
          refine ⟨⟨?_, he.strands⟩, ?_⟩
          · intro x hx
            simp only [List.mem_append, List.mem_singleton] at hx
            rcases hx with hx | rfl
            · exact he.seqs x hx
            · refine ⟨NucsP.fwd (hp _) l, ?_⟩
              intro s hs
              simp only [List.mem_singleton] at hs
              subst hs
              exact NucsP.fwd (hp _) l
          · split
            · exact ho
            · refine ⟨?_, ?_, ho.supSeqs, ho.strands, ho.structs, ho.kinetics⟩
              · intro x hx
                simp only [List.mem_append, List.mem_singleton] at hx
                rcases hx with hx | rfl
                · exact ho.domains x hx
                · exact hp _
              · intro x hx
                simp only [List.mem_append, List.mem_singleton] at hx
                rcases hx with hx | rfl
                · exact ho.baseSeqs x hx
                · exact ⟨hp _, NucsP.fwd (hp _) l⟩
    · apply sup_case name items length
      rw [← h]
      match items, hsingle with
      | [], _ => simp only [denoteStmt]
      | [.ref _ _], _ => simp only [denoteStmt]
      | [.domains _ _], _ => simp only [denoteStmt]
      | [.nuc text], hs => exact absurd ⟨text, rfl⟩ hs
      | _ :: _ :: _, _ => simp only [denoteStmt]
  | strand dummy name items length =>
    simp only [denoteStmt] at h
    split at h
    · cases h
    · simp only [bind, Except.bind, pure, Except.pure] at h
      cases hr : denoteRegion pfx env items length with
      | error e => rw [hr] at h; cases h
      | ok r =>
        obtain ⟨segs, doms, anon⟩ := r
        rw [hr] at h
        simp only at h
        split at h
        · cases h
        · simp only [Except.ok.injEq, Prod.mk.injEq] at h
          obtain ⟨rfl, rfl⟩ := h
          obtain ⟨hsegs, hdoms⟩ := denoteRegion_P he hr
          have ho1 := withNewDomains_P ho hdoms
          refine ⟨⟨he.seqs, ?_⟩, ?_⟩
          · intro x hx
            simp only [List.mem_append, List.mem_singleton] at hx
            rcases hx with hx | rfl
            · exact he.strands x hx
            · exact ⟨NucsP.flatten hsegs, hsegs⟩
          · refine ⟨ho1.domains, ho1.baseSeqs, ho1.supSeqs, ?_, ho1.structs, ho1.kinetics⟩
            intro x hx
            simp only [List.mem_append, List.mem_singleton] at hx
            rcases hx with hx | rfl
            · exact ho1.strands x hx
            · exact ⟨hp _, NucsP.flatten hsegs⟩
  | struct opt name strands domain text =>
    have struct_ok : ∀ (full : List Char) (ov : Opt), OutP (HasPfx pfx)
        { o with structs := o.structs ++ [⟨pfx ++ name, strands.map (pfx ++ ·), full, ov⟩] } := by
      intro full ov
      refine ⟨ho.domains, ho.baseSeqs, ho.supSeqs, ho.strands, ?_, ho.kinetics⟩
      intro x hx
      simp only [List.mem_append, List.mem_singleton] at hx
      rcases hx with hx | rfl
      · exact ho.structs x hx
      · refine ⟨hp _, ?_⟩
        intro s hs
        obtain ⟨y, _, rfl⟩ := List.mem_map.1 hs
        exact hp _
    simp only [denoteStmt, bind, Except.bind, pure, Except.pure, throw, throwThe, MonadExceptOf.throw] at h
    repeat' (split at h)
    all_goals first
      | (cases h; done)
      | (simp only [Except.ok.injEq, Prod.mk.injEq] at h
         obtain ⟨rfl, rfl⟩ := h
         exact ⟨he, struct_ok _ _⟩)
  | kinetic low high ins outs =>
    simp only [denoteStmt, bind, Except.bind, pure, Except.pure] at h
    split at h
    · cases h
    · split at h
      · cases h
      · rename_i k hk
        simp only [Except.ok.injEq, Prod.mk.injEq] at h
        obtain ⟨rfl, rfl⟩ := h
        refine ⟨he, ho.domains, ho.baseSeqs, ho.supSeqs, ho.strands, ho.structs, ?_⟩
        intro x hx
        simp only [List.mem_append, List.mem_singleton] at hx
        rcases hx with hx | rfl
        · exact ho.kinetics x hx
        · unfold kinOf at hk
          simp only [bind, Except.bind, pure, Except.pure] at hk
          split at hk
          · cases hk
          · split at hk
            · cases hk
            · simp only [Except.ok.injEq] at hk
              subst hk
              constructor
              · intro s hs; obtain ⟨y, _, rfl⟩ := List.mem_map.1 hs; exact hp _
              · intro s hs; obtain ⟨y, _, rfl⟩ := List.mem_map.1 hs; exact hp _


theorem denoteStmts_P {pfx : String} : ∀ (stmts : List Stmt) (env env' : Env) (o o' : Out),
    EnvP (HasPfx pfx) env → OutP (HasPfx pfx) o → denoteStmts pfx stmts env o = .ok (env', o') →
    EnvP (HasPfx pfx) env' ∧ OutP (HasPfx pfx) o' := by
  intro stmts
  induction stmts with
  | nil => intro env env' o o' he ho h; simp only [denoteStmts, Except.ok.injEq, Prod.mk.injEq] at h; obtain ⟨rfl, rfl⟩ := h; exact ⟨he, ho⟩
  | cons st r ih =>
    intro env env' o o' he ho h
    simp only [denoteStmts] at h
    cases hs : denoteStmt pfx env o st with
    | error e => rw [hs] at h; cases h
    | ok x =>
      obtain ⟨e1, o1⟩ := x
      rw [hs] at h
      obtain ⟨he1, ho1⟩ := denoteStmt_P he ho st hs
      exact ih e1 env' o1 o' he1 ho1 h

/-- every domain a component denotation mentions carries the instance prefix -/
theorem denoteComp_P {src : Src} {pfx : String} {anon : Nat} {o : Out} {ports : List (List Nuc × Bool)} {a : Nat}
    (h : denoteComp src pfx anon = .ok (o, ports, a)) :
    DesignP (HasPfx pfx) (o.design []) ∧ ∀ p ∈ ports, NucsP (HasPfx pfx) p.1 := by
  unfold denoteComp at h
  simp only [bind, Except.bind] at h
  cases hs : denoteStmts pfx src.stmts { anon := anon } {} with
  | error e => rw [hs] at h; cases h
  | ok x =>
    obtain ⟨env, o1⟩ := x
    rw [hs] at h
    simp only at h
    have he0 : EnvP (HasPfx pfx) ({ anon := anon } : Env) := by
      constructor
      · intro x hx; cases hx
      · intro x hx; cases hx
    have ho0 : OutP (HasPfx pfx) ({} : Out) := by
      constructor <;> (intro x hx; cases hx)
    obtain ⟨he, ho⟩ := denoteStmts_P src.stmts _ env _ o1 he0 ho0 hs
    split at h
    · cases h
    · rename_i ps hps
      simp only [pure, Except.pure, Except.ok.injEq, Prod.mk.injEq] at h
      obtain ⟨rfl, rfl, _⟩ := h
      refine ⟨ho.design, ?_⟩
      intro p hp
      obtain ⟨x, _, hx⟩ := mapM_mem _ _ _ hps p hp
      cases hl : env.seqs.lookup x.seq with
      | none => rw [hl] at hx; cases hx
      | some b =>
        rw [hl] at hx
        have hb := (he.seqs _ (lookup_mem hl)).1
        simp only at hx
        split at hx
        · split at hx
          · simp only [pure, Except.pure, Except.ok.injEq] at hx; subst hx; exact hb
          · cases hx
        · simp only [pure, Except.pure, Except.ok.injEq] at hx; subst hx; exact hb


/-! ### systems -/

theorem denoteFile_succ (b : Bundle) (fuel : Nat) (base : String) (args : Nat) (argKey pfx path : String)
    (includes : List String) (anon : Nat) :
    denoteFile b (fuel + 1) base args argKey pfx path includes anon =
      match resolveImport (fun p => b.exists_.contains (normPath p)) base path includes with
      | .error _ => .error .undefined
      | .ok (fname, issys, newPath) =>
        match b.files.lookup (normPath fname ++ argKey) with
        | none => .error .undefined
        | some (.comp c) =>
          if issys || c.params.length != args then .error .undefined else
          match denoteComp c pfx anon with
          | .error e => .error e
          | .ok (o, ports, a) => .ok (o.design [], ports, a)
        | some (.sys s) =>
          if !issys || s.params.length != args then .error .undefined else
          match denoteSysStmts b fuel includes newPath pfx s.stmts [] Design.empty {} anon with
          | .error e => .error e
          | .ok (d, sa, a) =>
            if !(s.inputs ++ s.outputs).all (fun r => sa.order.contains r.name) then .error .undefined else
            let sigDesign : Design :=
              { Design.empty with
                domains := sa.order.map (fun n => (pfx ++ n, List.replicate ((sa.len.lookup n).getD 0) 'N'))
                seqs := sa.order.map (fun n => (pfx ++ n, fwd (pfx ++ n) ((sa.len.lookup n).getD 0)))
                equals := sa.order.map (fun n => fwd (pfx ++ n) ((sa.len.lookup n).getD 0) :: (sa.members.lookup n).getD []) }
            .ok (Design.append d sigDesign,
                 (s.inputs ++ s.outputs).map (fun r => (fwd (pfx ++ r.name) ((sa.len.lookup r.name).getD 0), r.star)), a) := by
  rw [denoteFile]
  rfl

theorem denoteFile_zero (b : Bundle) (base : String) (args : Nat) (argKey pfx path : String)
    (includes : List String) (anon : Nat) :
    denoteFile b 0 base args argKey pfx path includes anon = .error .undefined := by
  rw [denoteFile]

theorem denoteSysStmts_nil (b : Bundle) (fuel : Nat) (includes : List String) (path pfx : String)
    (tmpl : List (String × String)) (d : Design) (sa : SigAcc) (a : Nat) :
    denoteSysStmts b fuel includes path pfx [] tmpl d sa a = .ok (d, sa, a) := by
  rw [denoteSysStmts]

/-- how `denoteSysStmts` extends the import table -/
def addImportsD (items : List (String × Option String)) (tmpl : List (String × String)) : Option (List (String × String)) :=
  items.foldl (fun (acc : Option (List (String × String))) (it : String × Option String) =>
      match acc with
      | none => none
      | some t =>
        let name := match it.2 with
          | some n => n
          | none => match (splitSlash it.1).reverse with | x :: _ => x | [] => it.1
        if (t.lookup name).isSome then none else some (t ++ [(name, it.1)])) (some tmpl)

theorem denoteSysStmts_imports (b : Bundle) (fuel : Nat) (includes : List String) (path pfx : String)
    (items : List (String × Option String)) (r : List SStmt)
    (tmpl : List (String × String)) (d : Design) (sa : SigAcc) (a : Nat) :
    denoteSysStmts b fuel includes path pfx (.imports items :: r) tmpl d sa a =
      match addImportsD items tmpl with
      | none => .error .duplicate
      | some t => denoteSysStmts b fuel includes path pfx r t d sa a := by
  rw [denoteSysStmts]
  rfl

theorem denoteSysStmts_component (b : Bundle) (fuel : Nat) (includes : List String) (path pfx : String)
    (cname templ : String) (args : Nat) (ins outs : List SigRef) (r : List SStmt)
    (tmpl : List (String × String)) (d : Design) (sa : SigAcc) (a : Nat) :
    denoteSysStmts b fuel includes path pfx (.component cname templ args ins outs :: r) tmpl d sa a =
      match tmpl.lookup templ with
      | none => .error .undefined
      | some tpath =>
        match denoteFile b fuel tpath args ("@" ++ pfx ++ cname) (pfx ++ cname ++ "-") path includes a with
        | .error e => .error e
        | .ok (d', ports, a') =>
          if ports.length != ins.length + outs.length then .error .length else
          match bindPorts sa (ins ++ outs) ports with
          | .error e => .error e
          | .ok sa' => denoteSysStmts b fuel includes path pfx r tmpl (Design.append d d') sa' a' := by
  rw [denoteSysStmts]
  rfl


/-- the regions collected for the signals only mention domains with property `P` -/
def SigP (P : String → Prop) (sa : SigAcc) : Prop := ∀ x ∈ sa.members, ∀ r ∈ x.2, NucsP P r

theorem bpStep_P {P : String → Prop} {a a' : SigAcc} {gp : SigRef × (List Nuc × Bool)} (ha : SigP P a)
    (hp : NucsP P gp.2.1) (h : bpStep a gp = .ok a') : SigP P a' := by
  have hreg : NucsP P (if gp.1.star != gp.2.2 then rc gp.2.1 else gp.2.1) := by
    split
    · exact hp.rc
    · exact hp
  rcases bpStep_region a a' gp h with hm | hm
  · intro x hx r hr
    rw [hm] at hx
    simp only [List.mem_append, List.mem_singleton] at hx
    rcases hx with hx | rfl
    · exact ha x hx r hr
    · simp only [List.mem_singleton] at hr; subst hr; exact hreg
  · intro x hx r hr
    rw [hm] at hx
    obtain ⟨⟨k, v⟩, hkv, rfl⟩ := List.mem_map.1 hx
    simp only at hr
    split at hr
    · simp only [List.mem_append, List.mem_singleton] at hr
      rcases hr with hr | rfl
      · exact ha (k, v) hkv r hr
      · exact hreg
    · exact ha (k, v) hkv r hr

theorem bindPorts_P {P : String → Prop} : ∀ (zs : List (SigRef × (List Nuc × Bool))) (a a' : SigAcc), SigP P a →
    (∀ z ∈ zs, NucsP P z.2.1) → zs.foldlM bpStep a = .ok a' → SigP P a' := by
  intro zs
  induction zs with
  | nil => intro a a' ha _ h; simp only [List.foldlM_nil] at h; cases h; exact ha
  | cons z r ih =>
    intro a a' ha hz h
    rw [List.foldlM_cons] at h
    cases h1 : bpStep a z with
    | error e => rw [h1] at h; cases h
    | ok a1 =>
      rw [h1] at h
      exact ih a1 a' (bpStep_P ha (hz z List.mem_cons_self) h1) (fun y hy => hz y (List.mem_cons_of_mem _ hy)) h

theorem denoteSysStmts_P (b : Bundle) (fuel : Nat) (includes : List String) (path pfx : String)
    (IH : ∀ base args argKey pfx' path includes anon d ports a,
      denoteFile b fuel base args argKey pfx' path includes anon = .ok (d, ports, a) →
      DesignP (HasPfx pfx') d ∧ ∀ p ∈ ports, NucsP (HasPfx pfx') p.1) :
    ∀ (stmts : List SStmt) (tmpl : List (String × String)) (d : Design) (sa : SigAcc) (a : Nat) (d' : Design)
      (sa' : SigAcc) (a' : Nat), DesignP (HasPfx pfx) d → SigP (HasPfx pfx) sa →
      denoteSysStmts b fuel includes path pfx stmts tmpl d sa a = .ok (d', sa', a') →
      DesignP (HasPfx pfx) d' ∧ SigP (HasPfx pfx) sa' := by
  intro stmts
  induction stmts with
  | nil =>
    intro tmpl d sa a d' sa' a' hd hs h
    rw [denoteSysStmts_nil] at h
    simp only [Except.ok.injEq, Prod.mk.injEq] at h
    obtain ⟨rfl, rfl, _⟩ := h
    exact ⟨hd, hs⟩
  | cons st r ih =>
    intro tmpl d sa a d' sa' a' hd hs h
    cases st with
    | imports items =>
      rw [denoteSysStmts_imports] at h
      cases hi : addImportsD items tmpl with
      | none => rw [hi] at h; cases h
      | some t => rw [hi] at h; exact ih t d sa a d' sa' a' hd hs h
    | component cname templ args ins outs =>
      rw [denoteSysStmts_component] at h
      cases hl : tmpl.lookup templ with
      | none => rw [hl] at h; cases h
      | some tpath =>
        rw [hl] at h
        simp only at h
        cases hf : denoteFile b fuel tpath args ("@" ++ pfx ++ cname) (pfx ++ cname ++ "-") path includes a with
        | error e => rw [hf] at h; cases h
        | ok x =>
          obtain ⟨d1, ports, a1⟩ := x
          rw [hf] at h
          simp only at h
          split at h
          · cases h
          · obtain ⟨hd1, hports⟩ := IH _ _ _ _ _ _ _ _ _ _ hf
            have hmono : ∀ s, HasPfx (pfx ++ cname ++ "-") s → HasPfx pfx s :=
              fun s hs => HasPfx.of_append (HasPfx.of_append hs)
            cases hb : bindPorts sa (ins ++ outs) ports with
            | error e => rw [hb] at h; cases h
            | ok sa1 =>
              rw [hb] at h
              rw [bindPorts_eq] at hb
              have hs1 : SigP (HasPfx pfx) sa1 := bindPorts_P _ sa sa1 hs (fun z hz =>
                (hports z.2 (List.of_mem_zip hz).2).mono hmono) hb
              exact ih tmpl _ sa1 a1 d' sa' a' (hd.append (hd1.mono hmono)) hs1 h

/-- **prefixes**: every name and every nucleotide of the design of an instance carries the instance's prefix -/
theorem denoteFile_P (b : Bundle) : ∀ (fuel : Nat) base args argKey pfx path includes anon d ports a,
    denoteFile b fuel base args argKey pfx path includes anon = .ok (d, ports, a) →
    DesignP (HasPfx pfx) d ∧ ∀ p ∈ ports, NucsP (HasPfx pfx) p.1 := by
  intro fuel
  induction fuel with
  | zero => intro base args argKey pfx path includes anon d ports a h; rw [denoteFile_zero] at h; cases h
  | succ fuel ih =>
    intro base args argKey pfx path includes anon d ports a h
    rw [denoteFile_succ] at h
    cases hr : resolveImport (fun p => b.exists_.contains (normPath p)) base path includes with
    | error e => rw [hr] at h; cases h
    | ok x =>
      obtain ⟨fname, issys, newPath⟩ := x
      rw [hr] at h
      simp only at h
      cases hl : b.files.lookup (normPath fname ++ argKey) with
      | none => rw [hl] at h; cases h
      | some fs =>
        rw [hl] at h
        cases fs with
        | comp c =>
          simp only at h
          split at h
          · cases h
          · cases hc : denoteComp c pfx anon with
            | error e => rw [hc] at h; cases h
            | ok y =>
              obtain ⟨o, ps, a1⟩ := y
              rw [hc] at h
              simp only [Except.ok.injEq, Prod.mk.injEq] at h
              obtain ⟨rfl, rfl, _⟩ := h
              exact denoteComp_P hc
        | sys s =>
          simp only at h
          split at h
          · cases h
          · cases hs : denoteSysStmts b fuel includes newPath pfx s.stmts [] Design.empty {} anon with
            | error e => rw [hs] at h; cases h
            | ok y =>
              obtain ⟨d1, sa, a1⟩ := y
              rw [hs] at h
              simp only at h
              split at h
              · cases h
              · simp only [Except.ok.injEq, Prod.mk.injEq] at h
                obtain ⟨rfl, rfl, _⟩ := h
                have hsig0 : SigP (HasPfx pfx) ({} : SigAcc) := by intro x hx; cases hx
                obtain ⟨hd1, hsa⟩ := denoteSysStmts_P b fuel includes newPath pfx ih s.stmts [] Design.empty {} anon d1 sa a1
                  DesignP.empty hsig0 hs
                refine ⟨hd1.append ⟨?_, ?_, ?_, ?_, ?_, ?_⟩, ?_⟩
                · intro x hx
                  obtain ⟨n, _, rfl⟩ := List.mem_map.1 hx
                  exact HasPfx.append pfx n
                · intro x hx
                  obtain ⟨n, _, rfl⟩ := List.mem_map.1 hx
                  exact ⟨HasPfx.append pfx n, NucsP.fwd (HasPfx.append pfx n) _⟩
                · intro x hx; cases hx
                · intro x hx; cases hx
                · intro x hx; cases hx
                · intro e he r hr
                  obtain ⟨n, _, rfl⟩ := List.mem_map.1 he
                  simp only [List.mem_cons] at hr
                  rcases hr with rfl | hr
                  · exact NucsP.fwd (HasPfx.append pfx n) _
                  · cases hm : sa.members.lookup n with
                    | none => rw [hm] at hr; cases hr
                    | some v =>
                      rw [hm] at hr
                      exact hsa _ (lookup_mem hm) r hr
                · intro p hp
                  obtain ⟨r, _, rfl⟩ := List.mem_map.1 hp
                  exact NucsP.fwd (HasPfx.append pfx r.name) _


/-! ### sibling prefixes are incomparable -/

theorem dash_split {c1 c2 r1 r2 : List Char} (h1 : '-' ∉ c1) (h2 : '-' ∉ c2)
    (h : c1 ++ '-' :: r1 = c2 ++ '-' :: r2) : c1 = c2 := by
  induction c1 generalizing c2 with
  | nil =>
    cases c2 with
    | nil => rfl
    | cons y t =>
      simp only [List.nil_append, List.cons_append, List.cons.injEq] at h
      exact absurd (h.1 ▸ List.mem_cons_self) h2
  | cons x s ih =>
    cases c2 with
    | nil =>
      simp only [List.nil_append, List.cons_append, List.cons.injEq] at h
      exact absurd (h.1 ▸ List.mem_cons_self) h1
    | cons y t =>
      simp only [List.cons_append, List.cons.injEq] at h
      rw [h.1, ih (fun hm => h1 (List.mem_cons_of_mem _ hm)) (fun hm => h2 (List.mem_cons_of_mem _ hm)) h.2]

/-- two sibling instances `pfx ++ c1 ++ "-"` and `pfx ++ c2 ++ "-"` (instance names without dash, `c1 ≠ c2`) have
    no name in common: nothing carries both prefixes -/
theorem sibling_prefixes_disjoint (pfx c1 c2 : String) (h1 : '-' ∉ c1.toList) (h2 : '-' ∉ c2.toList) (hne : c1 ≠ c2)
    (s : String) : ¬ (HasPfx (pfx ++ c1 ++ "-") s ∧ HasPfx (pfx ++ c2 ++ "-") s) := by
  rintro ⟨⟨r1, hr1⟩, ⟨r2, hr2⟩⟩
  simp only [String.toList_append] at hr1 hr2
  have hd : "-".toList = ['-'] := rfl
  rw [hd] at hr1 hr2
  have : pfx.toList ++ (c1.toList ++ '-' :: r1) = pfx.toList ++ (c2.toList ++ '-' :: r2) := by
    simp only [List.append_assoc, List.singleton_append] at hr1 hr2
    rw [hr1, hr2]
  have := dash_split h1 h2 (List.append_cancel_left this)
  exact hne (String.toList_inj.1 this)

/-- the variables (nucleotides up to complement) a design mentions -/
def designVars (d : Design) : List Var :=
  (d.seqs.flatMap (fun x => x.2.map (·.var))) ++ (d.strands.flatMap (fun x => x.2.2.map (·.var))) ++
  (d.equals.flatMap (fun e => e.flatMap (fun r => r.map (·.var))))

theorem designVars_P {P : String → Prop} {d : Design} (h : DesignP P d) : ∀ v ∈ designVars d, P v.dom := by
  intro v hv
  simp only [designVars, List.mem_append, List.mem_flatMap, List.mem_map] at hv
  rcases hv with (⟨x, hx, n, hn, rfl⟩ | ⟨x, hx, n, hn, rfl⟩) | ⟨e, he, r, hr, n, hn, rfl⟩
  · exact (h.seqs x hx).2 n hn
  · exact (h.strands x hx).2 n hn
  · exact h.equals e he r hr n hn


/-! ### the compile path and the specification wire signals identically -/

/-- nucleotides of a compile-path `base_seqs` member of an instance loaded under prefix `pfxc` -/
def baseNucs (pfxc : String) (b : Comp.BaseRef) : List Nuc :=
  if b.rev then rc (fwd (pfxc ++ b.name) b.len) else fwd (pfxc ++ b.name) b.len

def basesNucs (pfxc : String) (bs : List Comp.BaseRef) : List Nuc := bs.flatMap (baseNucs pfxc)

/-- what a port of an instance loaded under `pfxc` denotes (the unstarred object) -/
def portNucs (pfxc : String) (p : Sys.Port × Bool × Nat × Bool) : List Nuc :=
  match p.1 with
  | .seq _ bases => basesNucs pfxc bases
  | .sig n => fwd (pfxc ++ n) p.2.2.1

/-- a compile-path port list and a specification port list describe the same ports -/
def PortsAgree (pfxc : String) (ip : List (Sys.Port × Bool × Nat × Bool)) (dp : List (List Nuc × Bool)) : Prop :=
  ip.length = dp.length ∧
  ∀ x ∈ ip.zip dp, x.2.1 = portNucs pfxc x.1 ∧ x.2.2 = x.1.2.1 ∧ x.2.1.length = x.1.2.2.1 ∧ x.1.2.2.2 = x.2.1.isEmpty

/-- the unstarred nucleotides of the port an entry of signal (of length `len`) refers to -/
def entryNucs (pfx : String) (len : Nat) (e : SigEntry) : List Nuc :=
  match e.port with
  | .seq _ bases => basesNucs (pfx ++ e.comp ++ "-") bases
  | .sig n => fwd (pfx ++ e.comp ++ "-" ++ n) len

/-- the region the entry constrains equal to the signal: reverse complement exactly when `wc` -/
def entryRegion (pfx : String) (len : Nat) (e : SigEntry) : List Nuc :=
  if e.wc then rc (entryNucs pfx len e) else entryNucs pfx len e

/-- the signal tables of the compile path (`signals`, `lengths`) and of the specification (`SigAcc`) agree: same
    signals in the same order with the same lengths, and the specification's member regions are exactly the
    regions of the compile path's entries -/
structure TablesAgree (pfx : String) (sigs : List (String × List SigEntry)) (lens : List (String × Nat))
    (sa : SigAcc) : Prop where
  len : sa.len = lens
  order : sa.order = lens.map (·.1)
  keys : sigs.map (·.1) = lens.map (·.1)
  members : sa.members = sigs.map (fun x => (x.1, x.2.map (entryRegion pfx ((lens.lookup x.1).getD 0))))
  pos : ∀ x ∈ lens, 0 < x.2

theorem lookup_isSome_of_keys {α β} {l1 : List (String × α)} {l2 : List (String × β)}
    (h : l1.map (·.1) = l2.map (·.1)) (n : String) : (l1.lookup n).isSome = (l2.lookup n).isSome := by
  induction l1 generalizing l2 with
  | nil => cases l2 with
    | nil => rfl
    | cons _ _ => simp at h
  | cons a r ih =>
    cases l2 with
    | nil => simp at h
    | cons b t =>
      obtain ⟨k, v⟩ := a
      obtain ⟨k', v'⟩ := b
      simp only [List.map_cons, List.cons.injEq] at h
      obtain ⟨rfl, ht⟩ := h
      simp only [List.lookup]
      cases hk : n == k
      · exact ih ht
      · rfl

theorem lookup_append_new {β} (l : List (String × β)) (k n : String) (v : β) (h : (l.lookup n).isSome = true) :
    (l ++ [(k, v)]).lookup n = l.lookup n := by
  induction l with
  | nil => simp at h
  | cons a r ih =>
    obtain ⟨k', v'⟩ := a
    simp only [List.cons_append, List.lookup] at h ⊢
    cases hk : n == k'
    · simp only [hk] at h; exact ih h
    · rfl

theorem lookup_append_self {β} (l : List (String × β)) (k : String) (v : β) (h : l.lookup k = none) :
    (l ++ [(k, v)]).lookup k = some v := by
  induction l with
  | nil => simp
  | cons a r ih =>
    obtain ⟨k', v'⟩ := a
    simp only [List.cons_append, List.lookup] at h ⊢
    cases hk : k == k'
    · simp only [hk] at h; exact ih h
    · simp [hk] at h

theorem mem_keys_lookup {β} {l : List (String × β)} {x : String × β} (hx : x ∈ l) : (l.lookup x.1).isSome = true := by
  induction l with
  | nil => cases hx
  | cons a r ih =>
    obtain ⟨k', v'⟩ := a
    simp only [List.lookup]
    cases hk : x.1 == k'
    · rcases List.mem_cons.1 hx with rfl | h
      · simp at hk
      · exact ih h
    · rfl

/-- one binding: if the compile path accepts it, so does the specification, and the tables still agree -/
theorem bind_step_agree {pfx cname : String} {sigs sigs' : List (String × List SigEntry)}
    {lens lens' : List (String × Nat)} {sa : SigAcc} {g : SigRef} {ip : Sys.Port × Bool × Nat × Bool}
    {dp : List Nuc × Bool} (ht : TablesAgree pfx sigs lens sa)
    (hp : dp.1 = portNucs (pfx ++ cname ++ "-") ip ∧ dp.2 = ip.2.1 ∧ dp.1.length = ip.2.2.1 ∧ ip.2.2.2 = dp.1.isEmpty)
    (h : bindStep cname (sigs, lens) (g, ip) = .ok (sigs', lens')) :
    ∃ sa', bpStep sa (g, dp) = .ok sa' ∧ TablesAgree pfx sigs' lens' sa' := by
  obtain ⟨hp1, hp2, hp3, hp4⟩ := hp
  unfold bindStep at h
  simp only at h
  unfold bpStep
  simp only [ht.len]
  -- the region both sides add
  have hreg : ∀ len, len = ip.2.2.1 →
      (if (g.star != dp.2) = true then rc dp.1 else dp.1) = entryRegion pfx len ⟨ip.1, cname, g.star != ip.2.1⟩ := by
    intro len hlen
    unfold entryRegion entryNucs
    simp only [hp2]
    have : dp.1 = (match ip.1 with
        | .seq _ bases => basesNucs (pfx ++ cname ++ "-") bases
        | .sig n => fwd (pfx ++ cname ++ "-" ++ n) len) := by
      rw [hp1, hlen]; unfold portNucs; rfl
    rw [← this]
  cases hl : lens.lookup g.name with
  | none =>
    rw [hl] at h
    simp only at h
    split at h
    · cases h
    · rename_i hd
      simp only [Except.ok.injEq, Prod.mk.injEq] at h
      obtain ⟨rfl, rfl⟩ := h
      have hne : dp.1.isEmpty = false := by rw [← hp4]; simpa using hd
      simp only [hne, Bool.false_eq_true, if_false]
      refine ⟨_, rfl, ?_⟩
      have hsl : sigs.lookup g.name = none := by
        have := lookup_isSome_of_keys ht.keys g.name
        rw [hl] at this
        cases hs : sigs.lookup g.name with
        | none => rfl
        | some v => rw [hs] at this; cases this
      have hadd : addSig sigs g.name ⟨ip.1, cname, g.star != ip.2.1⟩ = sigs ++ [(g.name, [⟨ip.1, cname, g.star != ip.2.1⟩])] := by
        unfold addSig; simp [hsl]
      constructor
      · simp only [hp3]
      · simp only [ht.order, List.map_append, List.map_cons, List.map_nil]
      · rw [hadd]; simp only [List.map_append, List.map_cons, List.map_nil, ht.keys]
      · rw [hadd, ht.members]
        simp only [List.map_append, List.map_cons, List.map_nil]
        congr 1
        · apply List.map_congr_left
          intro x hx
          have : (lens.lookup x.1).isSome = true := by
            rw [← lookup_isSome_of_keys ht.keys]; exact mem_keys_lookup hx
          rw [lookup_append_new lens g.name x.1 ip.2.2.1 this]
        · rw [lookup_append_self lens g.name ip.2.2.1 hl]
          simp only [Option.getD_some, List.cons.injEq, and_true, Prod.mk.injEq, true_and]
          exact hreg _ rfl
      · intro x hx
        simp only [List.mem_append, List.mem_singleton] at hx
        rcases hx with hx | rfl
        · exact ht.pos x hx
        · simp only
          rw [← hp3]
          cases hd1 : dp.1 with
          | nil => rw [hd1] at hne; simp at hne
          | cons _ _ => simp
  | some l0 =>
    rw [hl] at h
    simp only at h
    split at h
    · cases h
    · rename_i hd
      simp only [Except.ok.injEq, Prod.mk.injEq] at h
      obtain ⟨rfl, rfl⟩ := h
      have hl0 : l0 = ip.2.2.1 := by simpa using hd
      have : (l0 != dp.1.length) = false := by rw [hp3]; simp [hl0]
      simp only [this, Bool.false_eq_true, if_false]
      refine ⟨_, rfl, ?_⟩
      have hsl : (sigs.lookup g.name).isSome = true := by
        rw [lookup_isSome_of_keys ht.keys, hl]; rfl
      have hadd : addSig sigs g.name ⟨ip.1, cname, g.star != ip.2.1⟩
          = sigs.map (fun (k, v) => if k == g.name then (k, v ++ [⟨ip.1, cname, g.star != ip.2.1⟩]) else (k, v)) := by
        unfold addSig; simp [hsl]
      constructor
      · first | rfl | exact ht.len
      · exact ht.order
      · rw [hadd, ← ht.keys, List.map_map]
        apply List.map_congr_left
        intro x _
        obtain ⟨k, v⟩ := x
        simp only [Function.comp]
        split <;> rfl
      · rw [hadd, ht.members, List.map_map, List.map_map]
        apply List.map_congr_left
        intro x _
        obtain ⟨k, v⟩ := x
        simp only [Function.comp]
        by_cases hk : k == g.name
        · simp only [hk, if_true, List.map_append, List.map_cons, List.map_nil, Prod.mk.injEq, true_and]
          congr 1
          have hkg : k = g.name := eq_of_beq hk
          rw [hkg, hl]
          simp only [Option.getD_some, List.cons.injEq, and_true]
          exact hreg _ hl0
        · simp only [hk, Bool.false_eq_true, if_false]
      · exact ht.pos


theorem bind_agree {pfx cname : String} : ∀ (globs : List SigRef) (ips : List (Sys.Port × Bool × Nat × Bool))
    (dps : List (List Nuc × Bool)) (sigs sigs' : List (String × List SigEntry)) (lens lens' : List (String × Nat))
    (sa : SigAcc), TablesAgree pfx sigs lens sa → PortsAgree (pfx ++ cname ++ "-") ips dps →
    (List.zip globs ips).foldlM (bindStep cname) (sigs, lens) = .ok (sigs', lens') →
    ∃ sa', (List.zip globs dps).foldlM bpStep sa = .ok sa' ∧ TablesAgree pfx sigs' lens' sa' := by
  intro globs
  induction globs with
  | nil =>
    intro ips dps sigs sigs' lens lens' sa ht _ h
    simp only [List.zip_nil_left, List.foldlM_nil, pure, Except.pure, Except.ok.injEq, Prod.mk.injEq] at h
    obtain ⟨rfl, rfl⟩ := h
    exact ⟨sa, rfl, ht⟩
  | cons g gr ih =>
    intro ips dps sigs sigs' lens lens' sa ht hp h
    obtain ⟨hlen, hall⟩ := hp
    cases ips with
    | nil =>
      cases dps with
      | nil =>
        simp only [List.zip_nil_right, List.foldlM_nil, pure, Except.pure, Except.ok.injEq, Prod.mk.injEq] at h
        obtain ⟨rfl, rfl⟩ := h
        exact ⟨sa, rfl, ht⟩
      | cons _ _ => simp at hlen
    | cons ip ir =>
      cases dps with
      | nil => simp at hlen
      | cons dp dr =>
        simp only [List.zip_cons_cons, List.foldlM_cons] at h ⊢
        cases h1 : bindStep cname (sigs, lens) (g, ip) with
        | error e => rw [h1] at h; cases h
        | ok acc1 =>
          obtain ⟨sigs1, lens1⟩ := acc1
          rw [h1] at h
          obtain ⟨sa1, hs1, ht1⟩ := bind_step_agree ht (hall (ip, dp) (by simp)) h1
          rw [hs1]
          exact ih ir dr sigs1 sigs' lens1 lens' sa1 ht1
            ⟨by simpa using hlen, fun x hx => hall x (by simp only [List.zip_cons_cons, List.mem_cons]; exact Or.inr hx)⟩ h

/-! ### imports -/

def importName (it : String × Option String) : String :=
  match it.2 with
  | some n => n
  | none => match (splitSlash it.1).reverse with | x :: _ => x | [] => it.1

def impStep (acc : Option (List (String × String))) (it : String × Option String) : Option (List (String × String)) :=
  match acc with
  | none => none
  | some t =>
    let name := match it.2 with
      | some n => n
      | none => match (splitSlash it.1).reverse with | x :: _ => x | [] => it.1
    if (t.lookup name).isSome then none else some (t ++ [(name, it.1)])

theorem addImportsD_eq (items : List (String × Option String)) (t : List (String × String)) :
    addImportsD items t = items.foldl impStep (some t) := rfl

theorem foldl_impStep_none (l : List (String × Option String)) : l.foldl impStep none = none := by
  induction l with
  | nil => rfl
  | cons _ _ ih => exact ih

theorem addImports_agree : ∀ (items : List (String × Option String)) (t : List (String × String)),
    (match loadStmts.addImports items t with | .ok t' => some t' | .error _ => none) = addImportsD items t := by
  intro items
  induction items with
  | nil => intro t; simp [loadStmts.addImports, addImportsD]
  | cons it r ih =>
    intro t
    obtain ⟨p, al⟩ := it
    rw [addImportsD_eq, List.foldl_cons]
    have hstep : impStep (some t) (p, al) =
        if (t.lookup (importName (p, al))).isSome then none else some (t ++ [(importName (p, al), p)]) := rfl
    have hadd : loadStmts.addImports ((p, al) :: r) t =
        if (t.lookup (importName (p, al))).isSome then .error .dupImport
        else loadStmts.addImports r (t ++ [(importName (p, al), p)]) := by
      simp only [loadStmts.addImports]; rfl
    rw [hstep, hadd]
    cases (t.lookup (importName (p, al))).isSome
    · simp only [Bool.false_eq_true, if_false]
      rw [ih, addImportsD_eq]
    · simp only [if_true]
      rw [foldl_impStep_none]

theorem loadStmts_imports (b : Bundle) (fuel : Nat) (includes : List String) (items : List (String × Option String))
    (r : List SStmt) (st : SysSt) (a : Nat) :
    loadStmts b fuel includes (.imports items :: r) st a =
      match loadStmts.addImports items st.template with
      | .error e => .error e
      | .ok t => match st with
        | .mk p n pf _ sg l c i o => loadStmts b fuel includes r (.mk p n pf t sg l c i o) a := by
  rw [loadStmts]
  obtain ⟨p, n, pf, t0, sg, l, c, i, o⟩ := st
  rfl


/-! ### the induction over the instance tree -/

/-- the component-level fact the system-level agreement rests on, for the component sources satisfying `good`:
    whatever `Comp.load` accepts, `denoteComp` accepts with the same anonymous counter and the same ports.
    It is a consequence of the component theorem C01 for `good c := UserNamesOk c` (`SysPil.compAccept`). -/
def CompAcceptOn (good : Comp.Src → Prop) : Prop :=
  ∀ (c : Comp.Src) (args : Nat) (pfx : String) (anon : Nat) (st : Comp.St) (a : Nat), good c →
    Comp.load c args pfx anon = .ok (st, a) →
    ∃ o ports, denoteComp c pfx anon = .ok (o, ports, a) ∧ PortsAgree pfx (compPorts st) ports

/-- every component source stored in the bundle satisfies `good` -/
def BundleComps (good : Comp.Src → Prop) (b : Bundle) : Prop :=
  ∀ k c, b.files.lookup k = some (.comp c) → good c

theorem instPorts_length (inst : Inst) : (instPorts inst).length = (instArity inst).1 + (instArity inst).2 := by
  cases inst <;> simp [instPorts, instArity, compPorts, sysPorts]

theorem contains_keys {β} (l : List (String × β)) (n : String) : (l.map (·.1)).contains n = (l.lookup n).isSome := by
  induction l with
  | nil => rfl
  | cons a r ih =>
    obtain ⟨k, v⟩ := a
    simp only [List.map_cons, List.contains_cons, List.lookup]
    cases hk : n == k
    · simpa using ih
    · rfl

theorem fwd_length (name : String) (len : Nat) : (fwd name len).length = len := by simp [fwd]

theorem mem_zip_map_map {α β γ} (l : List α) (f : α → β) (g : α → γ) {x : β × γ}
    (h : x ∈ (l.map f).zip (l.map g)) : ∃ r ∈ l, x = (f r, g r) := by
  induction l with
  | nil => simp at h
  | cons a t ih =>
    simp only [List.map_cons, List.zip_cons_cons, List.mem_cons] at h
    rcases h with rfl | h
    · exact ⟨a, List.mem_cons_self, rfl⟩
    · obtain ⟨r, hr, hx⟩ := ih h
      exact ⟨r, List.mem_cons_of_mem _ hr, hx⟩

/-- agreement carried along the statement loop -/
theorem stmts_agree (b : Bundle) (fuel : Nat) (includes : List String)
    (IH : ∀ base args argKey pfx path includes anon inst a',
      loadFile b fuel base args argKey pfx path includes anon = .ok (inst, a') →
      ∃ d ports, denoteFile b fuel base args argKey pfx path includes anon = .ok (d, ports, a') ∧
        PortsAgree pfx (instPorts inst) ports) :
    ∀ (stmts : List SStmt) (st st' : SysSt) (a a' : Nat) (d : Design) (sa : SigAcc),
      loadStmts b fuel includes stmts st a = .ok (st', a') →
      TablesAgree st.pfx st.signals st.lengths sa →
      ∃ d' sa', denoteSysStmts b fuel includes st.path st.pfx stmts st.template d sa a = .ok (d', sa', a') ∧
        TablesAgree st'.pfx st'.signals st'.lengths sa' ∧ st'.pfx = st.pfx := by
  intro stmts
  induction stmts with
  | nil =>
    intro st st' a a' d sa h ht
    rw [loadStmts_nil] at h
    simp only [Except.ok.injEq, Prod.mk.injEq] at h
    obtain ⟨rfl, rfl⟩ := h
    exact ⟨d, sa, denoteSysStmts_nil _ _ _ _ _ _ _ _ _, ht, rfl⟩
  | cons s r ih =>
    intro st st' a a' d sa h ht
    cases s with
    | imports items =>
      rw [loadStmts_imports] at h
      have hag := addImports_agree items st.template
      cases hi : loadStmts.addImports items st.template with
      | error e => rw [hi] at h; cases h
      | ok t =>
        rw [hi] at h hag
        simp only at h hag
        obtain ⟨p, n, pf, t0, sg, l, c, i, o⟩ := st
        simp only at h
        obtain ⟨d', sa', hd, ht', hp⟩ := ih (.mk p n pf t sg l c i o) st' a a' d sa h ht
        refine ⟨d', sa', ?_, ht', hp⟩
        rw [denoteSysStmts_imports]
        simp only [SysSt.template] at hag
        simp only [SysSt.template, ← hag]
        exact hd
    | component cname templ args ins outs =>
      rw [loadStmts_component] at h
      rw [denoteSysStmts_component]
      cases hl : st.template.lookup templ with
      | none => rw [hl] at h; cases h
      | some tpath =>
        rw [hl] at h
        simp only at h ⊢
        split at h
        · cases h
        · cases hf : loadFile b fuel tpath args ("@" ++ st.pfx ++ cname) (st.pfx ++ cname ++ "-") st.path includes a with
          | error e => rw [hf] at h; cases h
          | ok x =>
            obtain ⟨inst, a1⟩ := x
            rw [hf] at h
            simp only at h
            obtain ⟨d1, ports, hdf, hpa⟩ := IH _ _ _ _ _ _ _ _ _ hf
            rw [hdf]
            simp only
            split at h
            · cases h
            · rename_i hcount
              have hcount' : ins.length = (instArity inst).1 ∧ outs.length = (instArity inst).2 := by
                simpa using hcount
              have hpl : ports.length = ins.length + outs.length := by
                rw [← hpa.1, instPorts_length, hcount'.1, hcount'.2]
              have : (ports.length != ins.length + outs.length) = false := by simp [hpl]
              rw [this]
              simp only [Bool.false_eq_true, if_false]
              cases hb : bindSigs cname st.signals st.lengths (ins ++ outs) (instPorts inst) with
              | error e => rw [hb] at h; cases h
              | ok y =>
                obtain ⟨sg, l⟩ := y
                rw [hb] at h
                simp only at h
                obtain ⟨sa1, hbp, ht1⟩ := bind_agree (ins ++ outs) (instPorts inst) ports st.signals sg st.lengths l sa ht hpa hb
                rw [bindPorts_eq, hbp]
                simp only
                obtain ⟨p, n, pf, t0, sg0, l0, c, i, o⟩ := st
                exact ih (addComp (.mk p n pf t0 sg0 l0 c i o) sg l cname inst) st' a1 a' _ sa1 h ht1

/-- **the two walks agree**: whatever `load_file` accepts, the specification `denoteFile` accepts, with the same
    anonymous counter and the same ports (names, declaration stars, lengths) — for every instance tree -/
theorem wiring_agrees {good : Comp.Src → Prop} (hc : CompAcceptOn good) (b : Bundle) (hb : BundleComps good b) : ∀ (fuel : Nat) base args argKey pfx path includes anon inst a',
    loadFile b fuel base args argKey pfx path includes anon = .ok (inst, a') →
    ∃ d ports, denoteFile b fuel base args argKey pfx path includes anon = .ok (d, ports, a') ∧
      PortsAgree pfx (instPorts inst) ports := by
  intro fuel
  induction fuel with
  | zero =>
    intro base args argKey pfx path includes anon inst a' h
    obtain ⟨e, he⟩ := loadFile_zero b base args argKey pfx path includes anon
    rw [he] at h; cases h
  | succ fuel ih =>
    intro base args argKey pfx path includes anon inst a' h
    rw [loadFile_succ] at h
    rw [denoteFile_succ]
    cases hr : resolveImport (fun p => b.exists_.contains (normPath p)) base path includes with
    | error e => rw [hr] at h; cases h
    | ok x =>
      obtain ⟨fname, issys, newPath⟩ := x
      rw [hr] at h
      simp only at h ⊢
      cases hl : b.files.lookup (normPath fname ++ argKey) with
      | none => rw [hl] at h; cases h
      | some fs =>
        rw [hl] at h
        cases fs with
        | comp c =>
          simp only at h ⊢
          cases issys with
          | true => cases h
          | false =>
            simp only [Bool.false_eq_true, if_false, Bool.false_or] at h ⊢
            cases hcl : Comp.load c args pfx anon with
            | error e => rw [hcl] at h; cases h
            | ok y =>
              obtain ⟨st, a1⟩ := y
              rw [hcl] at h
              simp only [Except.ok.injEq, Prod.mk.injEq] at h
              obtain ⟨rfl, rfl⟩ := h
              obtain ⟨o, ports, hd, hp⟩ := hc c args pfx anon st a1 (hb _ c hl) hcl
              have hpar : (c.params.length != args) = false := by simp [(load_stars hcl).1]
              rw [hpar, hd]
              exact ⟨_, _, rfl, hp⟩
        | sys s =>
          simp only at h ⊢
          cases issys with
          | false => cases h
          | true =>
            simp only [Bool.not_true, Bool.false_eq_true, if_false, Bool.false_or] at h ⊢
            split at h
            · cases h
            · rename_i hpar
              have hpar' : (s.params.length != args) = false := by simpa using hpar
              rw [hpar']
              simp only [Bool.false_eq_true, if_false]
              cases hs : loadStmts b fuel includes s.stmts (.mk newPath s.name pfx [] [] [] [] [] []) anon with
              | error e => rw [hs] at h; cases h
              | ok y =>
                obtain ⟨st, a1⟩ := y
                rw [hs] at h
                simp only at h
                have ht0 : TablesAgree pfx [] [] ({} : SigAcc) :=
                  ⟨rfl, rfl, rfl, rfl, fun x hx => (nomatch hx)⟩
                obtain ⟨d1, sa, hd, ht, hpf⟩ := stmts_agree b fuel includes ih s.stmts _ st anon a1 Design.empty {} hs ht0
                have hpf' : st.pfx = pfx := hpf
                simp only [SysSt.path, SysSt.pfx, SysSt.template] at hd
                rw [hd]
                simp only
                rw [hpf'] at ht
                split at h
                · cases h
                · rename_i hio
                  obtain ⟨p, n, pf, t, sg, l, c, i, o⟩ := st
                  simp only [Except.ok.injEq, Prod.mk.injEq] at h
                  obtain ⟨rfl, rfl⟩ := h
                  simp only [SysSt.signals, SysSt.lengths] at ht hio
                  have hio' : (s.inputs ++ s.outputs).all (fun r => (sg.lookup r.name).isSome) = true := by simpa using hio
                  have hall : (s.inputs ++ s.outputs).all (fun r => sa.order.contains r.name) = true := by
                    rw [List.all_eq_true] at hio' ⊢
                    intro r hr
                    rw [ht.order, contains_keys, ← lookup_isSome_of_keys ht.keys]
                    exact hio' r hr
                  rw [hall]
                  simp only [Bool.not_true, Bool.false_eq_true, if_false]
                  refine ⟨_, _, rfl, ?_⟩
                  constructor
                  · simp [instPorts, sysPorts, SysSt.inputSeqs, SysSt.outputSeqs]
                  · intro x hx
                    simp only [instPorts, sysPorts, SysSt.inputSeqs, SysSt.outputSeqs, SysSt.lengths] at hx
                    obtain ⟨r, hr, rfl⟩ := mem_zip_map_map _ _ _ hx
                    have hsome : (l.lookup r.name).isSome = true := by
                      rw [← lookup_isSome_of_keys ht.keys]
                      rw [List.all_eq_true] at hio'
                      exact hio' r hr
                    obtain ⟨v, hv⟩ := Option.isSome_iff_exists.1 hsome
                    have hvpos : 0 < v := ht.pos (r.name, v) (lookup_mem hv)
                    simp only [portNucs, ht.len, hv, Option.getD_some, fwd_length, true_and]
                    cases v with
                    | zero => omega
                    | succ v => simp [fwd, List.range_succ]


/-- the signal tables of a loaded system agree with the specification's: same signals, same order, same
    lengths, and each member region of the specification is the region of the corresponding compile-path entry
    (`rc` of the port's nucleotides exactly when the entry's `wc` flag is set) -/
theorem sys_tables_agree {good : Comp.Src → Prop} (hc : CompAcceptOn good) (b : Bundle) (hb : BundleComps good b) (fuel : Nat) (includes : List String) (stmts : List SStmt)
    (newPath name pfx : String) (anon : Nat) (st : SysSt) (a1 : Nat)
    (hs : loadStmts b fuel includes stmts (.mk newPath name pfx [] [] [] [] [] []) anon = .ok (st, a1)) :
    ∃ d1 sa, denoteSysStmts b fuel includes newPath pfx stmts [] Design.empty {} anon = .ok (d1, sa, a1) ∧
      TablesAgree pfx st.signals st.lengths sa := by
  have ht0 : TablesAgree pfx [] [] ({} : SigAcc) := ⟨rfl, rfl, rfl, rfl, fun x hx => (nomatch hx)⟩
  obtain ⟨d1, sa, hd, ht, hpf⟩ := stmts_agree b fuel includes (wiring_agrees hc b hb fuel) stmts _ st anon a1 Design.empty {} hs ht0
  have hpf' : st.pfx = pfx := hpf
  rw [hpf'] at ht
  exact ⟨d1, sa, hd, ht⟩


end
end Pepper.SysProofs
