import PepperProofs.ParseCompRenderCons
/-!
# `parse_render` for `sequence` and `strand` statements
-/
namespace Pepper.ParseComp
open Pepper.Comp

/-! ### gaps -/

theorem SpOkL.ne {sp : Nat → Str} (h : SpOkL sp) (i : Nat) : sp i ≠ [] := (h i).1
theorem SpOkL.blank {sp : Nat → Str} (h : SpOkL sp) (i : Nat) : ∀ c ∈ sp i, isBlank c = true := (h i).2
theorem SpOkL.sp {sp : Nat → Str} (h : SpOkL sp) (i : Nat) : ∀ c ∈ sp i, isSp c = true :=
  fun c hc => blank_isSp ((h i).2 c hc)

/-- a gap followed by anything: the head is a blank -/
theorem SpOkL.headNot {sp : Nat → Str} (h : SpOkL sp) (i : Nat) {cls : Char → Bool} (hc : ∀ c, isBlank c = true → cls c = false)
    (rest : Str) : HeadNot cls (sp i ++ rest) :=
  headNot_append (h.ne i) (headNot_of_all (h.blank i) hc)

/-- a gap is its last character after the rest -/
theorem SpOkL.split {sp : Nat → Str} (h : SpOkL sp) (i : Nat) :
    ∃ c, sp i = (sp i).dropLast ++ [c] ∧ isBlank c = true ∧ ∀ x ∈ (sp i).dropLast, isBlank x = true := by
  refine ⟨(sp i).getLast (h.ne i), (List.dropLast_concat_getLast (h.ne i)).symm, h.blank i _ (List.getLast_mem _), ?_⟩
  intro x hx
  exact h.blank i x ((List.dropLast_sublist _).subset hx)

/-! ### rendered item lists -/

theorem renderItem_notColon {it : SrcItem} (hw : wfItem it = true) : ∀ c ∈ renderItemL it, notColon c = true := by
  cases it with
  | nuc t =>
    simp only [wfItem, Bool.and_eq_true, List.all_eq_true] at hw
    intro c hc
    simp only [renderItemL, List.mem_cons, List.mem_append, List.not_mem_nil, or_false] at hc
    rcases hc with rfl | hc | rfl
    · decide
    · exact body_notColon (hw.2 c hc)
    · decide
  | ref n st =>
    simp only [wfItem, nameOk] at hw
    obtain ⟨_, hall⟩ := nameOkL_iff.mp hw
    intro c hc
    simp only [renderItemL, List.mem_append] at hc
    rcases hc with hc | hc
    · exact name_notColon (hall c hc)
    · cases st <;> simp [starL] at hc
      subst hc; decide
  | domains n st =>
    simp only [wfItem, nameOk] at hw
    obtain ⟨_, hall⟩ := nameOkL_iff.mp hw
    intro c hc
    simp only [renderItemL, domainsLit, List.mem_append, List.mem_cons, List.not_mem_nil, or_false] at hc
    rcases hc with hc | hc | hc | rfl
    · rcases hc with rfl | rfl | rfl | rfl | rfl | rfl | rfl | rfl <;> decide
    · exact name_notColon (hall c hc)
    · cases st <;> simp [starL] at hc
      subst hc; decide
    · decide

theorem joinSp_notColon {sp : Nat → Str} (hsp : SpOkL sp) (items : List SrcItem) (hw : ∀ x ∈ items, wfItem x = true) (i : Nat) :
    ∀ c ∈ joinSp sp i (items.map renderItemL), notColon c = true := by
  induction items generalizing i with
  | nil => simp [joinSp]
  | cons it r ih =>
    cases r with
    | nil => simpa [joinSp] using renderItem_notColon (hw it (by simp))
    | cons it2 more =>
      intro c hc
      simp only [List.map_cons, joinSp, List.mem_append] at hc
      rcases hc with hc | hc | hc
      · exact renderItem_notColon (hw it (by simp)) c hc
      · exact blank_notColon (hsp.blank i c hc)
      · exact ih (fun x hx => hw x (by simp [hx])) (i + 1) c (by simpa [List.map_cons] using hc)

theorem joinSp_head {sp : Nat → Str} (items : List SrcItem) (hne : items ≠ []) (hw : ∀ x ∈ items, wfItem x = true) (i : Nat) :
    ∃ c r, joinSp sp i (items.map renderItemL) = c :: r ∧ isSp c = false := by
  cases items with
  | nil => exact absurd rfl hne
  | cons it r =>
    obtain ⟨c, r', e, h⟩ := render_head (hw it (by simp))
    cases r with
    | nil => exact ⟨c, r', by simp [joinSp, e], h⟩
    | cons it2 more =>
      refine ⟨c, r' ++ (sp i ++ joinSp sp (i + 1) ((it2 :: more).map renderItemL)), ?_, h⟩
      simp only [List.map_cons, joinSp, e, List.cons_append]

/-! ### the declared length -/

/-- what `[^:]+` captures beyond the items: the gap in front of `:` without its last character -/
def trailOf (sp : Nat → Str) : Option Nat → Str
  | none => []
  | some _ => (sp 3).dropLast

theorem trailOf_blank {sp : Nat → Str} (hsp : SpOkL sp) (len : Option Nat) : ∀ c ∈ trailOf sp len, isBlank c = true := by
  cases len with
  | none => simp [trailOf]
  | some n =>
    obtain ⟨_, _, _, h⟩ := hsp.split 3
    exact h

/-- `([^:]+)( : (\d+))?` + `\s*\Z` on `X [gap : gap digits]` -/
theorem lenTail_render {α : Type} {sp : Nat → Str} (hsp : SpOkL sp) (g : Str → Option Str → α) {X : Str} (hne : X ≠ [])
    (hX : ∀ c ∈ X, notColon c = true) (len : Option Nat) :
    plus notColon (fun cons => lenTail (g cons)) (X ++ lenPartL sp len) =
      some (g (X ++ trailOf sp len) (len.map (fun n => (Nat.repr n).toList))) := by
  cases len with
  | none =>
    simp only [lenPartL, trailOf, List.append_nil, Option.map_none]
    have := plus_greedy (cls := notColon) (k := fun cons => lenTail (g cons)) (run := X) (rest := []) (v := g X none) hne hX
      headNot_nil (by
        unfold lenTail
        rw [alt_right (sp1_none_head headNot_nil)]
        rfl)
    simpa using this
  | some n =>
    obtain ⟨c, hsplit, hc, hdl⟩ := hsp.split 3
    simp only [lenPartL, trailOf, Option.map_some]
    rw [hsplit]
    have hassoc : X ++ (((sp 3).dropLast ++ [c]) ++ (':' :: (sp 4 ++ (Nat.repr n).toList))) =
        (X ++ (sp 3).dropLast) ++ ([c] ++ (':' :: (sp 4 ++ (Nat.repr n).toList))) := by simp
    rw [hassoc]
    apply plus_first (by simp [hne])
    · intro x hx
      rcases List.mem_append.mp hx with hx | hx
      · exact hX x hx
      · exact blank_notColon (hdl x hx)
    · intro x hx
      simp only [List.mem_singleton] at hx
      subst hx
      exact blank_notColon hc
    · exact headNot_cons (by decide)
    · intro b1 b2 e hb1
      have : b2 = [] := by
        have hlen := congrArg List.length e
        have hpos := List.length_pos_iff.mpr hb1
        simp only [List.length_cons, List.length_nil, List.length_append] at hlen
        exact List.length_eq_zero_iff.mp (by omega)
      subst this
      simp only [List.nil_append]
      unfold lenTail
      exact alt_none (sp1_none_head (headNot_cons (by decide))) (endZ_none_head _ (by decide))
    · unfold lenTail
      apply alt_left
      apply sp1_greedy (by simp) (by simpa using blank_isSp hc) (headNot_cons (by decide))
      simp only [lit_cons_cons, if_true, lit_nil]
      apply sp1_greedy (hsp.ne 4) (hsp.sp 4)
      · exact headNot_of_all (repr_digits n) (fun c hc => dig_notSp hc)
      · have := plus_greedy (cls := isDig) (k := fun len => endZ (g (X ++ (sp 3).dropLast) (some len)))
          (run := (Nat.repr n).toList) (rest := []) (v := g (X ++ (sp 3).dropLast) (some (Nat.repr n).toList))
          (repr_ne_nil n) (repr_digits n) headNot_nil rfl
        simpa using this

/-! ### keywords -/

theorem kw_notSp_sequence : ∀ c ∈ sSequence, isSp c = false := by decide
theorem kw_notSp_strand : ∀ c ∈ sStrand, isSp c = false := by decide

/-- a gap in front of anything does not start with a non-blank -/
theorem SpOkL.headNot_nsp {sp : Nat → Str} (h : SpOkL sp) (i : Nat) (rest : Str) :
    HeadNot (fun c => !isSp c) (sp i ++ rest) :=
  h.headNot i (fun c hc => by simp [blank_isSp hc]) rest

theorem name_headNot_sp {n : Str} (hne : n ≠ []) (hall : ∀ c ∈ n, isName c = true) (rest : Str) : HeadNot isSp (n ++ rest) :=
  headNot_append hne (headNot_of_all hall (fun _ h => name_notSp h))

/-! ### `sequence` -/

theorem reSeq_render {sp : Nat → Str} (hsp : SpOkL sp) (n : String) (items : List SrcItem) (len : Option Nat)
    (hn : nameOk n = true) (hne : items ≠ []) (hw : ∀ x ∈ items, wfItem x = true) :
    reSeq (renderStmtL sp (.seq n items len)) =
      some (n.toList, joinSp sp 5 (items.map renderItemL) ++ trailOf sp len, len.map (fun n => (Nat.repr n).toList)) := by
  obtain ⟨hnne, hnall⟩ := nameOkL_iff.mp hn
  obtain ⟨c, r, hX, hc⟩ := joinSp_head (sp := sp) items hne hw 5
  unfold reSeq
  simp only [renderStmtL]
  rw [lit_append]
  apply sp1_greedy (hsp.ne 0) (hsp.sp 0) (name_headNot_sp hnne hnall _)
  apply plus_greedy hnne hnall (hsp.headNot 1 (fun c hc => blank_notName hc) _)
  apply sp1_greedy (hsp.ne 1) (hsp.sp 1) (headNot_cons (by decide))
  simp only [lit_cons_cons, if_true, lit_nil]
  apply sp1_greedy (hsp.ne 2) (hsp.sp 2)
  · rw [hX]; exact headNot_cons hc
  · exact lenTail_render hsp (fun cons len => (n.toList, cons, len)) (by rw [hX]; simp)
      (joinSp_notColon hsp items hw 5) len

theorem wfStmt_seq {n : String} {items : List SrcItem} {len : Option Nat} (h : wfStmt (.seq n items len) = true) :
    nameOk n = true ∧ items ≠ [] ∧ ∀ x ∈ items, wfItem x = true := by
  have e : wfStmt (.seq n items len) = (nameOk n && !items.isEmpty && items.all wfItem) := rfl
  rw [e] at h
  simp only [Bool.and_eq_true, Bool.not_eq_true', List.isEmpty_eq_false_iff, List.all_eq_true] at h
  exact ⟨h.1.1, h.1.2, h.2⟩

theorem map_digits_repr (len : Option Nat) : (len.map (fun n => (Nat.repr n).toList)).map digitsToNat = len := by
  cases len with
  | none => rfl
  | some n => simp only [Option.map_some, digitsToNat_repr]

theorem parseLineL_seq {sp : Nat → Str} (hsp : SpOkL sp) (n : String) (items : List SrcItem) (len : Option Nat)
    (h : wfStmt (.seq n items len) = true) : parseLineL (renderStmtL sp (.seq n items len)) = .ok (.seq n items len) := by
  obtain ⟨hn, hne, hw⟩ := wfStmt_seq h
  have hfw : firstWord (renderStmtL sp (.seq n items len)) = some sSequence := by
    simp only [renderStmtL]
    exact firstWord_kw (by decide) kw_notSp_sequence (hsp.headNot_nsp 0 _)
  unfold parseLineL
  rw [hfw]
  simp only
  rw [if_neg (by decide), if_pos trivial]
  unfold parseSeq
  rw [reSeq_render hsp n items len hn hne hw]
  simp only
  rw [parseConstraints_render hsp items hne hw 5 _ (trailOf_blank hsp len)]
  simp only [String.ofList_toList, map_digits_repr]

/-! ### `strand` -/

theorem reStrand_render {sp : Nat → Str} (hsp : SpOkL sp) (d : Bool) (n : String) (items : List SrcItem) (len : Option Nat)
    (hn : nameOk n = true) (hne : items ≠ []) (hw : ∀ x ∈ items, wfItem x = true) :
    reStrand (renderStmtL sp (.strand d n items len)) =
      some (d, n.toList, joinSp sp 7 (items.map renderItemL) ++ trailOf sp len, len.map (fun n => (Nat.repr n).toList)) := by
  obtain ⟨hnne, hnall⟩ := nameOkL_iff.mp hn
  obtain ⟨c, r, hX, hc⟩ := joinSp_head (sp := sp) items hne hw 7
  have htail : ∀ (d : Bool),
      (plus isName fun name => sp1 <| lit ['='] <| sp1 <| plus notColon fun cons => lenTail fun len => (d, name, cons, len))
        (n.toList ++ (sp 1 ++ ('=' :: (sp 2 ++ (joinSp sp 7 (items.map renderItemL) ++ lenPartL sp len))))) =
      some (d, n.toList, joinSp sp 7 (items.map renderItemL) ++ trailOf sp len, len.map (fun n => (Nat.repr n).toList)) := by
    intro d
    apply plus_greedy hnne hnall (hsp.headNot 1 (fun c hc => blank_notName hc) _)
    apply sp1_greedy (hsp.ne 1) (hsp.sp 1) (headNot_cons (by decide))
    simp only [lit_cons_cons, if_true, lit_nil]
    apply sp1_greedy (hsp.ne 2) (hsp.sp 2)
    · rw [hX]; exact headNot_cons hc
    · exact lenTail_render hsp (fun cons len => (d, n.toList, cons, len)) (by rw [hX]; simp)
        (joinSp_notColon hsp items hw 7) len
  unfold reStrand
  simp only [renderStmtL]
  rw [lit_append]
  cases d with
  | true =>
    simp only [if_true, List.append_assoc]
    apply sp1_greedy (hsp.ne 0) (hsp.sp 0) (by exact headNot_cons (by decide))
    apply alt_left
    rw [lit_append]
    apply sp1_greedy (hsp.ne 6) (hsp.sp 6) (name_headNot_sp hnne hnall _)
    exact htail true
  | false =>
    simp only [Bool.false_eq_true, if_false, List.nil_append]
    apply sp1_greedy (hsp.ne 0) (hsp.sp 0) (name_headNot_sp hnne hnall _)
    rw [alt_right]
    · exact htail false
    · apply lit_none_head
      apply headNot_append hnne
      exact headNot_of_all hnall (fun c hc => by
        simp only [beq_eq_false_iff_ne, ne_eq]
        exact name_ne hc (by decide))

theorem parseLineL_strand {sp : Nat → Str} (hsp : SpOkL sp) (d : Bool) (n : String) (items : List SrcItem) (len : Option Nat)
    (h : wfStmt (.strand d n items len) = true) :
    parseLineL (renderStmtL sp (.strand d n items len)) = .ok (.strand d n items len) := by
  have h' : nameOk n = true ∧ items ≠ [] ∧ ∀ x ∈ items, wfItem x = true := by
    have e : wfStmt (.strand d n items len) = (nameOk n && !items.isEmpty && items.all wfItem) := rfl
    rw [e] at h
    simp only [Bool.and_eq_true, Bool.not_eq_true', List.isEmpty_eq_false_iff, List.all_eq_true] at h
    exact ⟨h.1.1, h.1.2, h.2⟩
  obtain ⟨hn, hne, hw⟩ := h'
  have hfw : firstWord (renderStmtL sp (.strand d n items len)) = some sStrand := by
    simp only [renderStmtL]
    exact firstWord_kw (by decide) kw_notSp_strand (hsp.headNot_nsp 0 _)
  unfold parseLineL
  rw [hfw]
  simp only
  rw [if_neg (by decide), if_neg (by decide), if_neg (by decide), if_pos trivial]
  unfold parseStrand
  rw [reStrand_render hsp d n items len hn hne hw]
  simp only
  rw [parseConstraints_render hsp items hne hw 7 _ (trailOf_blank hsp len)]
  simp only [String.ofList_toList, map_digits_repr]

end Pepper.ParseComp
