import PepperProofs.ParseCompChars
/-!
# `parse_constraints` on a rendered item list
-/
namespace Pepper.ParseComp
open Pepper.Comp

theorem domainsLit : sDomainsP = ['d', 'o', 'm', 'a', 'i', 'n', 's', '('] := rfl

/-- the rest of the input after an item: nothing, or it starts with a blank -/
def AfterItem (rest : Str) : Prop := ∀ c r, rest = c :: r → isBlank c = true

theorem afterItem_nil : AfterItem [] := fun _ _ h => nomatch h

theorem afterItem_blanks {g rest : Str} (hne : g ≠ []) (hg : ∀ c ∈ g, isBlank c = true) : AfterItem (g ++ rest) := by
  cases g with
  | nil => exact absurd rfl hne
  | cons c r =>
    intro c' r' e
    simp only [List.cons_append, List.cons.injEq] at e
    exact e.1 ▸ hg c (by simp)

theorem afterItem_allBlank {g : Str} (hg : ∀ c ∈ g, isBlank c = true) : AfterItem g := by
  intro c r e
  subst e
  exact hg c (by simp)

theorem AfterItem.headNot {rest : Str} (h : AfterItem rest) {cls : Char → Bool} (hc : ∀ c, isBlank c = true → cls c = false) :
    HeadNot cls rest := fun c r e => hc c (h c r e)

theorem nameOkL_iff {n : Str} : nameOkL n = true ↔ n ≠ [] ∧ ∀ c ∈ n, isName c = true := by
  cases n <;> simp [nameOkL]

theorem starL_headNot_name {st : Bool} {rest : Str} (h : AfterItem rest) : HeadNot isName (starL st ++ rest) := by
  cases st with
  | true =>
    show HeadNot isName ('*' :: rest)
    exact headNot_cons (by decide)
  | false => simpa [starL] using h.headNot (fun c hc => blank_notName hc)

/-- the matched text of an item is the item (first complete match in the order of the alternatives) -/
theorem reItem_render {α : Type} {k : Str → K α} {it : SrcItem} (hw : wfItem it = true) {rest : Str} (hrest : AfterItem rest)
    {v : α} (hk : k (renderItemL it) rest = some v) : reItem k (renderItemL it ++ rest) = some v := by
  cases it with
  | nuc t =>
    simp only [wfItem, Bool.and_eq_true, Bool.not_eq_true', List.isEmpty_eq_false_iff, List.all_eq_true] at hw
    obtain ⟨hne, hall⟩ := hw
    unfold reItem
    apply alt_left
    simp only [renderItemL, List.cons_append, lit_cons_cons, if_true, lit_nil]
    rw [List.append_assoc]
    apply plus_greedy hne hall (headNot_cons (by decide))
    simp only [List.cons_append, List.nil_append, lit_cons_cons, if_true, lit_nil]
    exact hk
  | ref n st =>
    simp only [wfItem, nameOk] at hw
    obtain ⟨hne, hall⟩ := nameOkL_iff.mp hw
    unfold reItem
    simp only [renderItemL, List.append_assoc] at hk ⊢
    have hhead : ∀ c r, n.toList ++ (starL st ++ rest) = c :: r → isName c = true := by
      intro c r e
      cases hn : n.toList with
      | nil => exact absurd hn hne
      | cons x xs =>
        rw [hn] at e
        simp only [List.cons_append, List.cons.injEq] at e
        exact e.1 ▸ hall x (by rw [hn]; simp)
    rw [alt_right (lit_none_head (fun c r e => by
      have := hhead c r e
      simp only [beq_eq_false_iff_ne, ne_eq]
      exact name_ne this (by decide)))]
    rw [alt_right (by
      rw [domainsLit]
      apply lit_none_class (cls := isName) hall ⟨'(', by simp, by decide⟩
      intro c r e
      cases st with
      | true =>
        simp only [starL, if_true, List.cons_append, List.nil_append, List.cons.injEq] at e
        rw [← e.1]; decide
      | false =>
        simp only [starL, Bool.false_eq_true, if_false, List.nil_append] at e
        rcases isBlank_cases (hrest c r e) with rfl | rfl <;> decide)]
    apply plus_greedy hne hall (starL_headNot_name hrest)
    cases st with
    | true =>
      apply alt_left
      simp only [starL, if_true, List.cons_append, List.nil_append, lit_cons_cons, lit_nil]
      simpa [starL] using hk
    | false =>
      simp only [starL, Bool.false_eq_true, if_false, List.nil_append, List.append_nil] at hk ⊢
      rw [alt_right (lit_none_head (hrest.headNot (fun c hc => by
        rcases isBlank_cases hc with rfl | rfl <;> decide)))]
      exact hk
  | domains n st =>
    simp only [wfItem, nameOk] at hw
    obtain ⟨hne, hall⟩ := nameOkL_iff.mp hw
    unfold reItem
    simp only [renderItemL, List.append_assoc] at hk ⊢
    rw [alt_right (by rw [domainsLit]; rfl)]
    apply alt_left
    rw [lit_append]
    apply plus_greedy hne hall
    · cases st with
      | true => exact headNot_cons (by decide)
      | false => exact headNot_cons (by decide)
    · cases st with
      | true =>
        apply alt_left
        simp only [starL, if_true, List.cons_append, List.nil_append, lit_cons_cons, lit_nil]
        simpa [starL] using hk
      | false =>
        simp only [starL, Bool.false_eq_true, if_false, List.nil_append] at hk ⊢
        rw [alt_right (by simp [lit_cons_cons])]
        simp only [List.cons_append, List.nil_append, lit_cons_cons, if_true, lit_nil]
        simpa using hk

theorem reItem_nil {α : Type} (k : Str → K α) : reItem k [] = none := by
  unfold reItem
  rw [domainsLit]
  rfl

/-- no item starts with a blank -/
theorem reItem_blank {α : Type} (k : Str → K α) {c : Char} (r : Str) (hc : isBlank c = true) : reItem k (c :: r) = none := by
  unfold reItem
  rw [domainsLit]
  apply alt_none
  · simp only [lit_cons_cons]
    rw [if_neg]
    exact blank_ne hc (by decide)
  · apply alt_none
    · simp only [lit_cons_cons]
      rw [if_neg]
      exact blank_ne hc (by decide)
    · exact plus_none_head (headNot_cons (blank_notName hc))

/-- a rendered item is not empty and starts with a non-blank character -/
theorem render_head {it : SrcItem} (hw : wfItem it = true) : ∃ c r, renderItemL it = c :: r ∧ isSp c = false := by
  cases it with
  | nuc t => exact ⟨'"', _, rfl, by decide⟩
  | ref n st =>
    simp only [wfItem, nameOk] at hw
    obtain ⟨hne, hall⟩ := nameOkL_iff.mp hw
    cases hn : n.toList with
    | nil => exact absurd hn hne
    | cons x xs => exact ⟨x, xs ++ starL st, by simp [renderItemL, hn], name_notSp (hall x (by rw [hn]; simp))⟩
  | domains n st =>
    refine ⟨'d', ['o', 'm', 'a', 'i', 'n', 's', '('] ++ (n.toList ++ (starL st ++ [')'])), ?_, by decide⟩
    rw [renderItemL, domainsLit]
    rfl

theorem render_headNot_sp {it : SrcItem} (hw : wfItem it = true) (rest : Str) : HeadNot isSp (renderItemL it ++ rest) := by
  obtain ⟨c, r, e, h⟩ := render_head hw
  rw [e]
  exact headNot_cons h

theorem atEnd_none_of_ne {α : Type} {k : K α} {s : Str} (h : s ≠ []) : atEnd k s = none := by
  cases s with
  | nil => exact absurd rfl h
  | cons c r => rfl

theorem consLoop_succ (f : Nat) :
    consLoop (f + 1) = alt (reItem fun _ => alt (atEnd (consLoop f)) (sp1 (consLoop f))) (atEnd (endZ ())) := rfl

theorem consLoop_nil (f : Nat) : consLoop (f + 1) [] = some () := by
  rw [consLoop_succ]
  rw [alt_right (reItem_nil _)]
  rfl

/-- the full-match test of `parse_constraints` on items separated by blank runs, with optional trailing blanks -/
theorem consLoop_render {sp : Nat → Str} (hsp : SpOkL sp) (items : List SrcItem) :
    ∀ (it : SrcItem) (i : Nat) (trail : Str) (f : Nat), wfItem it = true → (∀ x ∈ items, wfItem x = true) →
      (∀ c ∈ trail, isBlank c = true) → items.length + 2 ≤ f →
      consLoop f (joinSp sp i ((it :: items).map renderItemL) ++ trail) = some () := by
  induction items with
  | nil =>
    intro it i trail f hw _ htr hf
    obtain ⟨f', rfl⟩ : ∃ f', f = f' + 1 := ⟨f - 1, by omega⟩
    obtain ⟨f'', rfl⟩ : ∃ f'', f' = f'' + 1 := ⟨f' - 1, by omega⟩
    simp only [List.map_cons, List.map_nil, joinSp]
    rw [consLoop_succ]
    apply alt_left
    apply reItem_render hw (afterItem_allBlank htr)
    cases trail with
    | nil =>
      apply alt_left
      simp only [atEnd_nil]
      exact consLoop_nil f''
    | cons c r =>
      rw [alt_right (by rfl)]
      have := sp1_greedy (k := consLoop (f'' + 1)) (run := c :: r) (rest := []) (v := ()) (by simp)
        (fun x hx => blank_isSp (htr x hx)) headNot_nil (consLoop_nil f'')
      simpa using this
  | cons it2 more ih =>
    intro it i trail f hw hall htr hf
    obtain ⟨f', rfl⟩ : ∃ f', f = f' + 1 := ⟨f - 1, by simp at hf; omega⟩
    simp only [List.map_cons, joinSp, List.append_assoc]
    rw [consLoop_succ]
    apply alt_left
    apply reItem_render hw (afterItem_blanks (hsp i).1 (hsp i).2)
    rw [alt_right (atEnd_none_of_ne (by simp [(hsp i).1]))]
    apply sp1_greedy (hsp i).1 (fun c hc => blank_isSp ((hsp i).2 c hc))
    · have := render_headNot_sp (hall it2 (by simp)) (match more.map renderItemL with
        | [] => trail
        | b :: r => sp (i + 1) ++ joinSp sp (i + 1 + 1) (b :: r) ++ trail)
      cases hm : more.map renderItemL with
      | nil => rw [hm] at this; simpa [joinSp] using this
      | cons b r => rw [hm] at this; simpa [joinSp, List.append_assoc] using this
    · have := ih it2 (i + 1) trail f' (hall it2 (by simp)) (fun x hx => hall x (by simp [hx])) htr (by simp at hf ⊢; omega)
      simpa [List.map_cons, List.append_assoc] using this

/-! ### `re.findall` -/

theorem findItems_nil (f : Nat) : findItems f [] = [] := by cases f <;> rfl

theorem findItems_blanks {g : Str} (hg : ∀ c ∈ g, isBlank c = true) (rest : Str) (f : Nat) :
    findItems (f + g.length) (g ++ rest) = findItems f rest := by
  induction g with
  | nil => rfl
  | cons c r ih =>
    have : f + (c :: r).length = (f + r.length) + 1 := by simp; omega
    rw [this]
    simp only [List.cons_append, findItems]
    rw [reItem_blank _ _ (hg c (by simp))]
    exact ih (fun x hx => hg x (by simp [hx]))

theorem findItems_item {it : SrcItem} (hw : wfItem it = true) {rest : Str} (hrest : AfterItem rest) (f : Nat) :
    findItems (f + 1) (renderItemL it ++ rest) = renderItemL it :: findItems f rest := by
  have h := reItem_render (k := fun m r => some (m, r)) hw hrest (v := (renderItemL it, rest)) rfl
  obtain ⟨c, r, e, _⟩ := render_head hw
  rw [e] at h ⊢
  simp only [List.cons_append] at h ⊢
  simp only [findItems]
  rw [h]

theorem findItems_render {sp : Nat → Str} (hsp : SpOkL sp) (items : List SrcItem) :
    ∀ (it : SrcItem) (i : Nat) (trail : Str) (f : Nat), wfItem it = true → (∀ x ∈ items, wfItem x = true) →
      (∀ c ∈ trail, isBlank c = true) → (joinSp sp i ((it :: items).map renderItemL) ++ trail).length < f →
      findItems f (joinSp sp i ((it :: items).map renderItemL) ++ trail) = (it :: items).map renderItemL := by
  induction items with
  | nil =>
    intro it i trail f hw _ htr hf
    simp only [List.map_cons, List.map_nil, joinSp] at hf ⊢
    obtain ⟨f', rfl⟩ : ∃ f', f = f' + 1 := ⟨f - 1, by omega⟩
    rw [findItems_item hw (afterItem_allBlank htr)]
    simp only [List.length_append] at hf
    obtain ⟨f'', rfl⟩ : ∃ f'', f' = f'' + trail.length := ⟨f' - trail.length, by omega⟩
    have := findItems_blanks htr [] f''
    simp only [List.append_nil] at this
    rw [this, findItems_nil]
  | cons it2 more ih =>
    intro it i trail f hw hall htr hf
    simp only [List.map_cons, joinSp, List.append_assoc] at hf ⊢
    obtain ⟨f', rfl⟩ : ∃ f', f = f' + 1 := ⟨f - 1, by omega⟩
    rw [findItems_item hw (afterItem_blanks (hsp i).1 (hsp i).2)]
    simp only [List.length_append] at hf
    obtain ⟨f'', rfl⟩ : ∃ f'', f' = f'' + (sp i).length := ⟨f' - (sp i).length, by omega⟩
    rw [findItems_blanks (hsp i).2]
    have hpos : 1 ≤ (renderItemL it).length := by
      obtain ⟨c, r, e, _⟩ := render_head hw
      simp [e]
    have := ih it2 (i + 1) trail f'' (hall it2 (by simp)) (fun x hx => hall x (by simp [hx])) htr (by
      simp only [List.map_cons, List.length_append]
      cases hm : more.map renderItemL with
      | nil => rw [hm] at hf; simp only [joinSp, List.length_append] at hf ⊢; omega
      | cons b r => rw [hm] at hf; simp only [joinSp, List.length_append] at hf ⊢; omega)
    simp only [List.map_cons] at this
    rw [this]

/-! ### `parse_constraint` -/

theorem parseConstraint_render {it : SrcItem} (hw : wfItem it = true) : parseConstraint (renderItemL it) = some it := by
  cases it with
  | nuc t =>
    simp only [wfItem, Bool.and_eq_true, Bool.not_eq_true', List.isEmpty_eq_false_iff, List.all_eq_true] at hw
    obtain ⟨hne, hall⟩ := hw
    have h1 : reC1 (renderItemL (.nuc t)) = some t := by
      unfold reC1
      simp only [renderItemL, lit_cons_cons, if_true, lit_nil]
      apply plus_greedy hne (fun c hc => body_isBody2 (hall c hc)) (headNot_cons (by decide))
      simp
    simp only [parseConstraint, h1]
  | ref n st =>
    simp only [wfItem, nameOk] at hw
    obtain ⟨hne, hall⟩ := nameOkL_iff.mp hw
    have h1 : reC1 (renderItemL (.ref n st)) = none := by
      unfold reC1
      apply lit_none_head
      simp only [renderItemL]
      apply headNot_append hne
      exact headNot_of_all hall (fun c hc => by
        simp only [beq_eq_false_iff_ne, ne_eq]
        exact name_ne hc (by decide))
    have h2 : reC2 (renderItemL (.ref n st)) = some (n.toList, st) := by
      unfold reC2
      simp only [renderItemL]
      cases st with
      | true =>
        apply plus_greedy hne hall (headNot_cons (by decide))
        apply alt_left
        simp [starL]
      | false =>
        have := plus_greedy (cls := isName) (k := fun n => alt (lit ['*'] <| endZ (n, true)) (endZ (n, false)))
          (run := n.toList) (rest := []) (v := (n.toList, false)) hne hall headNot_nil (by
            rw [alt_right (by rfl)]
            rfl)
        simpa [starL] using this
    simp only [parseConstraint, h1, h2, String.ofList_toList]
  | domains n st =>
    simp only [wfItem, nameOk] at hw
    obtain ⟨hne, hall⟩ := nameOkL_iff.mp hw
    have h1 : reC1 (renderItemL (.domains n st)) = none := by
      unfold reC1
      simp only [renderItemL, domainsLit]
      rfl
    have h2 : reC2 (renderItemL (.domains n st)) = none := by
      unfold reC2
      simp only [renderItemL, domainsLit]
      have hrun : ∀ c ∈ ['d', 'o', 'm', 'a', 'i', 'n', 's'], isName c = true := by decide
      have := plus_none (cls := isName) (k := fun n => alt (lit ['*'] <| endZ (n, true)) (endZ (n, false)))
        (run := ['d', 'o', 'm', 'a', 'i', 'n', 's']) (rest := '(' :: (n.toList ++ (starL st ++ [')']))) hrun
        (headNot_cons (by decide)) (by
          intro b1 b2 e _
          -- the rest starts with a letter of `domains` or with `(`: neither `*` nor white space nor the end
          have hh : ∃ c r, b2 ++ '(' :: (n.toList ++ (starL st ++ [')'])) = c :: r ∧ c ≠ '*' ∧ isSp c = false := by
            cases b2 with
            | nil => exact ⟨'(', _, rfl, by decide, by decide⟩
            | cons c r =>
              refine ⟨c, _, rfl, ?_⟩
              have hc : c ∈ ['d', 'o', 'm', 'a', 'i', 'n', 's'] := by rw [e]; simp
              have hall7 : ∀ c ∈ ['d', 'o', 'm', 'a', 'i', 'n', 's'], c ≠ '*' ∧ isSp c = false := by decide
              exact hall7 c hc
          obtain ⟨c, r, e2, hc1, hc2⟩ := hh
          rw [e2]
          apply alt_none
          · simp only [lit_cons_cons]
            rw [if_neg hc1]
          · exact endZ_none_head _ hc2)
      simpa using this
    have h3 : reC3 (renderItemL (.domains n st)) = some (n.toList, st) := by
      unfold reC3
      simp only [renderItemL]
      rw [lit_append]
      cases st with
      | true =>
        apply plus_greedy hne hall (headNot_cons (by decide))
        apply alt_left
        simp [starL]
      | false =>
        apply plus_greedy hne hall (headNot_cons (by decide))
        rw [alt_right (by simp [starL])]
        simp [starL]
    simp only [parseConstraint, h1, h2, h3, String.ofList_toList]

theorem mapM_parseConstraint_render (items : List SrcItem) (hw : ∀ x ∈ items, wfItem x = true) :
    (items.map renderItemL).mapM parseConstraint = some items := by
  induction items with
  | nil => rfl
  | cons it r ih =>
    simp only [List.map_cons, List.mapM_cons, parseConstraint_render (hw it (by simp)),
      ih (fun x hx => hw x (by simp [hx]))]
    rfl

/-- `parse_constraints` on a rendered, non-empty item list with optional trailing blanks -/
theorem parseConstraints_render {sp : Nat → Str} (hsp : SpOkL sp) (items : List SrcItem) (hne : items ≠ [])
    (hw : ∀ x ∈ items, wfItem x = true) (i : Nat) (trail : Str) (htr : ∀ c ∈ trail, isBlank c = true) :
    parseConstraints (joinSp sp i (items.map renderItemL) ++ trail) = .ok items := by
  cases items with
  | nil => exact absurd rfl hne
  | cons it r =>
    unfold parseConstraints consOk
    have hlen : r.length + 2 ≤ (joinSp sp i ((it :: r).map renderItemL) ++ trail).length + 1 := by
      -- every item and every gap has at least one character
      clear hne
      induction r generalizing it i with
      | nil =>
        obtain ⟨c, r', e, _⟩ := render_head (hw it (by simp))
        simp [joinSp, e]
      | cons it2 more ih =>
        have := ih (i + 1) it2 (fun x hx => hw x (by simp [hx]))
        obtain ⟨c, r', e, _⟩ := render_head (hw it (by simp))
        simp only [List.map_cons, joinSp, List.length_append, List.length_cons, e] at this ⊢
        omega
    rw [consLoop_render hsp r it i trail _ (hw it (by simp)) (fun x hx => hw x (by simp [hx])) htr hlen]
    rw [findItems_render hsp r it i trail _ (hw it (by simp)) (fun x hx => hw x (by simp [hx])) htr (by omega)]
    rw [mapM_parseConstraint_render _ hw]
    rfl

end Pepper.ParseComp
