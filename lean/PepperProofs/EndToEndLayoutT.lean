import PepperProofs.EndToEndLayout
/-!
# C06 end to end: where `process_results` reads the strands (structure layout)

`strand_start` of the structure layout puts a strand at the place of its first listing in a structure
(`strandStart_struct`); `strandPos_struct` says that `strand_start[k] + x` is a position of the layout table carrying
the `x`-th nucleotide of the strand.  Positions are keys of the seeded graph below `P`, hence inside the arrays and
non-blank (`GraphExact.bound`, `GraphExact.key`).  So the string read there spells the strand under the assignment
of stage 1 (`StartOk`).
-/
namespace Pepper.EndToEnd
open Pepper Pepper.Pil Pepper.ConstraintGen Pepper.LinkSpec

/-- the start of a strand that is listed in some structure -/
theorem startOf_struct {spec : Spec} (wf : SpecWF spec) {k : Nat} {st : StrandObj} (hk : spec.strands[k]? = some st)
    {p0 : Nat} (hp0 : (layStruct spec).strandStart.getD k none = some p0) :
    startOf .struct spec st = some p0 := by
  unfold startOf
  rw [strandIdx_of_mem wf hk]
  exact hp0

/-- **Layout, structure mode**: when every strand is non-empty and occurs in some structure, every strand has a start
    (the place of its first listing in a structure) and the string read there spells the strand. -/
theorem startOk_struct {stmts : List Stmt} {spec : Spec} (hload : Pil.load Generated.nupackTable stmts {} = .ok spec)
    (hp : Placed spec) (hne : ∀ o ∈ spec.strands, o.len ≠ 0)
    {a : Arrays} (ha : getConstraints .struct spec = .ok a) {nts : List Char} {asg : Var → Base}
    (hasg : ∀ (i : Nat) (m : Nuc), denOf .struct spec i = some m → (∃ ch, a.2.2[i]? = some (some ch)) →
      nts[i]? = some (val asg m).toChar) :
    StartOk spec (startOf .struct spec) nts asg := by
  have wf := load_wf hload
  have ok := load_specCodes hload
  obtain ⟨s, c, hs, hb⟩ := seeding_total_struct wf hp
  have G := C04.arrays_exact_graph pilLawful ok hs hb ha
  have SS := seedSound wf ok hs hb
  have hsP : s.P = (layStruct spec).total := by
    obtain ⟨_, _, _, _, _, _, _, _, _, _, _, _, h⟩ := seeds_ok hs
    rw [h]; rfl
  intro st hst
  obtain ⟨k, hlt, hk⟩ := List.getElem_of_mem hst
  have hk' : spec.strands[k]? = some st := by rw [List.getElem?_eq_getElem hlt, hk]
  have hq : (k, st) ∈ enum spec.strands := mem_enum_of_getElem? hk'
  obtain ⟨so, hso, hin⟩ := placed_structStrands wf hp hq (hne st hst)
  obtain ⟨p0, hp0⟩ := strandStart_defined wf hso hin
  simp only at hp0
  refine ⟨p0, startOf_struct wf hk' hp0, ?_⟩
  have hlen : (nucsOfBases st.bases).length = st.len := wf.strandLen st hst
  apply List.ext_getElem?
  intro x
  by_cases hx : x < st.len
  · have hgi : getIndexStrand (layStruct spec) k st.len x = .ok (p0 + x) := by
      unfold getIndexStrand
      rw [if_pos hx, hp0]
    obtain ⟨_, m, hm, hpm⟩ := strandPos_struct wf hq hgi
    have hden : denOf .struct spec (p0 + x) = some m := den_pos SS.D hpm
    have hmemK : p0 + x ∈ (posTabStruct spec).map (·.1) := List.mem_map.2 ⟨(p0 + x, m), hpm, rfl⟩
    have hkey : p0 + x ∈ c.keys := by
      rw [SS.keys]
      exact List.mem_append_left _ hmemK
    have hP : p0 + x < s.P := by
      rw [hsP]; exact posKeysT_lt_P wf _ hmemK
    have hinA : p0 + x < a.1.length := G.bound _ hkey hP
    obtain ⟨_, _, ch, hch, _⟩ := G.key _ hinA hkey
    have := hasg _ m hden ⟨ch, hch⟩
    rw [List.getElem?_take, if_pos hx, List.getElem?_drop, this]
    simp [spell, hm]
  · rw [List.getElem?_take, if_neg hx]
    symm
    rw [List.getElem?_eq_none_iff, spell_length]
    omega

end Pepper.EndToEnd
