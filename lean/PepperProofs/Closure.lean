import PepperProofs.ClosureClass
/-!
# `propagate_constraints`: the outer loop

`ClosureClass` proves that one class (`classOf`) is exactly the parity-reachable set.  This file lifts
it to the whole function: lemmas about the result dictionary (`Res.get`/`Res.set`), algebra of `Reach`
under the symmetry precondition, and the outer-loop invariant of `resolveAll`.
-/
namespace Pepper.Closure

/-! ### the result dictionary -/

theorem lookup_map_set (r : Res) (y z : Item) (v : List Item × List Item) :
    (r.map (fun (k, w) => if k == y then (k, v) else (k, w))).lookup z
      = if z = y then (r.lookup y).map (fun _ => v) else r.lookup z := by
  induction r with
  | nil => simp
  | cons a r ih =>
    obtain ⟨k, w⟩ := a
    simp only [List.map_cons, List.lookup_cons]
    by_cases hzy : z = y <;> by_cases hk : k = y <;> by_cases hkz : z = k <;> simp_all
    all_goals grind

theorem lookup_mem {β} (g : List (Item × β)) (y : Item) (l : β) (h : g.lookup y = some l) :
    (y, l) ∈ g := by
  induction g with
  | nil => simp at h
  | cons a g ih =>
    obtain ⟨k, w⟩ := a
    simp only [List.lookup_cons] at h
    split at h
    · simp_all
    · simp [ih h]

theorem Res.has_eq (r : Res) (x : Item) : r.has x = (r.get x).isSome := rfl

/-- `d[y] = v; d.get(z)` -/
theorem Res.get_set (r : Res) (y z : Item) (v : List Item × List Item) :
    (r.set y v).get z = if z = y then some v else r.get z := by
  unfold Res.set Res.get Res.has
  by_cases h : (r.lookup y).isSome = true
  · rw [if_pos h, lookup_map_set]
    split
    · obtain ⟨w, hw⟩ := Option.isSome_iff_exists.1 h
      simp [hw]
    · rfl
  · rw [if_neg h, List.lookup_append]
    have hn : r.lookup y = none := by
      cases hl : r.lookup y with
      | none => rfl
      | some w => simp [hl] at h
    by_cases hzy : z = y
    · subst hzy; simp [hn]
    · have : (z == y) = false := by simpa using hzy
      simp [hzy, List.lookup_cons, this]

/-- `for y in l: d[y] = v` -/
theorem Res.get_foldl_set (l : List Item) (v : List Item × List Item) (r : Res) (z : Item) :
    (l.foldl (fun r y => r.set y v) r).get z = if z ∈ l then some v else r.get z := by
  induction l generalizing r with
  | nil => simp
  | cons a l ih =>
    simp only [List.foldl_cons, ih, Res.get_set, List.mem_cons]
    by_cases h1 : z ∈ l <;> by_cases h2 : z = a <;> simp [h1, h2]

theorem get_storeClass (r : Res) (s : St) (z : Item) :
    (storeClass r s).get z =
      if z ∈ s.W then some (s.W, s.E) else if z ∈ s.E then some (s.E, s.W) else r.get z := by
  simp only [storeClass, Res.get_foldl_set]

/-! ### algebra of parity reachability -/

theorem Reach.trans {eq wc : Adj} {x y z : Item} {p q : Bool}
    (h1 : Reach eq wc x p y) (h2 : Reach eq wc y q z) : Reach eq wc x (p ^^ q) z := by
  induction h2 with
  | refl => simpa using h1
  | eqStep _ hz ih => exact Reach.eqStep ih hz
  | @wcStep q y' z' _ hz ih =>
    have := Reach.wcStep ih hz
    have e : (p ^^ !q) = !(p ^^ q) := by cases p <;> cases q <;> rfl
    rw [e]; exact this

theorem Reach.symm {eq wc : Adj} (hE : ∀ y z, z ∈ nb eq y → y ∈ nb eq z)
    (hW : ∀ y z, z ∈ nb wc y → y ∈ nb wc z) {x y : Item} {p : Bool}
    (h : Reach eq wc x p y) : Reach eq wc y p x := by
  induction h with
  | refl => exact Reach.refl
  | @eqStep p y z _ hz ih =>
    have s : Reach eq wc z false y := Reach.eqStep Reach.refl (hE y z hz)
    simpa using s.trans ih
  | @wcStep p y z _ hz ih =>
    have s : Reach eq wc z true y := by simpa using Reach.wcStep Reach.refl (hW y z hz)
    simpa using s.trans ih

/-- the class of a member is the class of `x`, with the two sets swapped when the member is a complement -/
theorem Reach.shift {eq wc : Adj} (hE : ∀ y z, z ∈ nb eq y → y ∈ nb eq z)
    (hW : ∀ y z, z ∈ nb wc y → y ∈ nb wc z) {x z : Item} {p : Bool}
    (h : Reach eq wc x p z) (q : Bool) (y : Item) :
    Reach eq wc z q y ↔ Reach eq wc x (p ^^ q) y := by
  constructor
  · exact fun h2 => h.trans h2
  · intro h2
    have := (h.symm hE hW).trans h2
    have e : (p ^^ (p ^^ q)) = q := by cases p <;> cases q <;> rfl
    rwa [e] at this

theorem Reach.mem_keys {eq wc : Adj} {K : List Item} (kc : KeyClosed eq wc K) {x y : Item} {p : Bool}
    (h : Reach eq wc x p y) (hx : x ∈ K) : y ∈ K := by
  induction h with
  | refl => exact hx
  | eqStep _ hz _ => exact kc.eqK _ _ hz
  | wcStep _ hz _ => exact kc.wcK _ _ hz

/-- `Reach` only depends on membership in the adjacency lists -/
theorem Reach.congr {eq wc eq' wc' : Adj} (he : ∀ x y, y ∈ nb eq x ↔ y ∈ nb eq' x)
    (hw : ∀ x y, y ∈ nb wc x ↔ y ∈ nb wc' x) {x y : Item} {p : Bool}
    (h : Reach eq wc x p y) : Reach eq' wc' x p y := by
  induction h with
  | refl => exact Reach.refl
  | eqStep _ hz ih => exact Reach.eqStep ih ((he _ _).1 hz)
  | wcStep _ hz ih => exact Reach.wcStep ih ((hw _ _).1 hz)

theorem Pre.keyClosed {eq wc : Adj} (h : Pre eq wc) : KeyClosed eq wc (keys eq) :=
  ⟨h.eqClosed, h.wcClosed⟩

/-! ### the outer loop -/

/-- invariant of the `for x in keys` loop -/
structure OInv (eq wc : Adj) (r : Res) : Prop where
  isKey : ∀ x, r.has x = true → x ∈ keys eq
  exact : ∀ x E W, r.get x = some (E, W) →
    (∀ y, y ∈ E ↔ Reach eq wc x false y) ∧ (∀ y, y ∈ W ↔ Reach eq wc x true y)
  closed : ∀ x p y, r.has x = true → Reach eq wc x p y → r.has y = true

theorem oinv_nil (eq wc : Adj) : OInv eq wc [] where
  isKey := by intro x h; simp [Res.has] at h
  exact := by intro x E W h; simp [Res.get] at h
  closed := by intro x p y h; simp [Res.has] at h

theorem has_storeClass (r : Res) (s : St) (z : Item) :
    (storeClass r s).has z = true ↔ z ∈ s.W ∨ z ∈ s.E ∨ r.has z = true := by
  rw [Res.has_eq, get_storeClass, Res.has_eq]
  by_cases h1 : z ∈ s.W <;> by_cases h2 : z ∈ s.E <;> simp [h1, h2]

theorem resolve_ok {eq wc : Adj} (h : Pre eq wc) {r : Res} (hi : OInv eq wc r) {x : Item}
    (hx : x ∈ keys eq) :
    ∃ r', resolve eq wc r x = .ok r' ∧ OInv eq wc r' ∧ r'.has x = true ∧
      ∀ z, r.has z = true → r'.has z = true := by
  unfold resolve
  by_cases hr : r.has x = true
  · exact ⟨r, by simp [hr], hi, hr, fun _ hz => hz⟩
  · rw [if_neg hr]
    have kc := h.keyClosed
    have cE : ∀ y, y ∈ (classOf eq wc x).E ↔ Reach eq wc x false y := fun y => (classOf_exact kc hx y).1
    have cW : ∀ y, y ∈ (classOf eq wc x).W ↔ Reach eq wc x true y := fun y => (classOf_exact kc hx y).2
    -- membership in the class, uniformly in the parity
    have cM : ∀ y, y ∈ (classOf eq wc x).W ∨ y ∈ (classOf eq wc x).E ↔ ∃ p, Reach eq wc x p y := by
      intro y; rw [cE, cW]
      constructor
      · rintro (hy | hy); exact ⟨_, hy⟩; exact ⟨_, hy⟩
      · rintro ⟨p, hp⟩; cases p; exact Or.inr hp; exact Or.inl hp
    have nb : classBad eq r (classOf eq wc x) = false := by
      unfold classBad
      rw [List.any_eq_false]
      intro y hy
      have : ∃ p, Reach eq wc x p y := by
        apply (cM y).1
        rcases List.mem_append.1 hy with hy | hy
        · exact Or.inr hy
        · exact Or.inl hy
      obtain ⟨p, hp⟩ := this
      have yk : y ∈ keys eq := hp.mem_keys kc hx
      have yn : ¬ r.has y = true := fun c => hr (hi.closed y p x c (hp.symm h.eqSymm h.wcSymm))
      simp [yk, yn]
    simp only [nb, Bool.false_eq_true, if_false]
    refine ⟨_, rfl, ?_, ?_, ?_⟩
    · constructor
      · intro z hz
        rcases (has_storeClass _ _ _).1 hz with hz | hz | hz
        · exact ((cW z).1 hz).mem_keys kc hx
        · exact ((cE z).1 hz).mem_keys kc hx
        · exact hi.isKey z hz
      · intro z E W hg
        rw [get_storeClass] at hg
        split at hg
        · rename_i hz
          have rz := (cW z).1 hz
          cases hg
          refine ⟨fun y => ?_, fun y => ?_⟩
          · rw [cW, Reach.shift h.eqSymm h.wcSymm rz]; simp
          · rw [cE, Reach.shift h.eqSymm h.wcSymm rz]; simp
        · split at hg
          · rename_i hz
            have rz := (cE z).1 hz
            cases hg
            refine ⟨fun y => ?_, fun y => ?_⟩
            · rw [cE, Reach.shift h.eqSymm h.wcSymm rz]; simp
            · rw [cW, Reach.shift h.eqSymm h.wcSymm rz]; simp
          · exact hi.exact z E W hg
      · intro z p y hz hzy
        rw [has_storeClass] at hz ⊢
        rw [← or_assoc, cM] at hz ⊢
        rcases hz with ⟨q, hq⟩ | hz
        · exact Or.inl ⟨_, hq.trans hzy⟩
        · exact Or.inr (hi.closed z p y hz hzy)
    · exact (has_storeClass _ _ _).2 (Or.inr (Or.inl ((cE x).2 Reach.refl)))
    · intro z hz
      exact (has_storeClass _ _ _).2 (Or.inr (Or.inr hz))

theorem resolveAll_ok {eq wc : Adj} (h : Pre eq wc) (xs : List Item) (hxs : ∀ x ∈ xs, x ∈ keys eq)
    {r : Res} (hi : OInv eq wc r) :
    ∃ r', resolveAll eq wc xs r = .ok r' ∧ OInv eq wc r' ∧ (∀ x ∈ xs, r'.has x = true) ∧
      ∀ z, r.has z = true → r'.has z = true := by
  induction xs generalizing r with
  | nil => exact ⟨r, rfl, hi, by simp, fun _ hz => hz⟩
  | cons x xs ih =>
    obtain ⟨r1, e1, i1, hx1, m1⟩ := resolve_ok h hi (hxs x (by simp))
    obtain ⟨r2, e2, i2, hx2, m2⟩ := ih (fun y hy => hxs y (by simp [hy])) i1
    refine ⟨r2, by simp [resolveAll, e1, e2], i2, ?_, fun z hz => m2 z (m1 z hz)⟩
    intro y hy
    rcases List.mem_cons.1 hy with rfl | hy
    · exact m2 _ hx1
    · exact hx2 y hy

theorem propagate_ok {eq wc : Adj} (h : Pre eq wc) :
    ∃ r, propagate eq wc = .ok r ∧ OInv eq wc r ∧ ∀ x ∈ keys eq, r.has x = true := by
  obtain ⟨r, e, i, hx, _⟩ := resolveAll_ok h (keys eq) (fun _ hx => hx) (oinv_nil eq wc)
  refine ⟨r, ?_, i, hx⟩
  unfold propagate
  simp [← h.sameKeys, e]

/-! ### the executable precondition -/

theorem mem_nb {g : Adj} {y z : Item} (h : z ∈ nb g y) : ∃ l, (y, l) ∈ g ∧ z ∈ l ∧ nb g y = l := by
  unfold nb at h ⊢
  split at h
  · rename_i l hl
    exact ⟨l, lookup_mem g y l hl, h, rfl⟩
  · cases h

/-- the executable check `preB` implies the documented precondition -/
theorem Pre.of_preB {eq wc : Adj} (h : preB eq wc = true) : Pre eq wc := by
  unfold preB at h
  simp only [Bool.and_eq_true, beq_iff_eq, decide_eq_true_eq, List.all_eq_true, List.contains_iff_mem] at h
  obtain ⟨⟨⟨hk, hn⟩, he⟩, hw⟩ := h
  have E : ∀ y z, z ∈ nb eq y → z ∈ keys eq ∧ y ∈ nb eq z := by
    intro y z hz
    obtain ⟨l, hl, hzl, _⟩ := mem_nb hz
    exact he (y, l) hl z hzl
  have W : ∀ y z, z ∈ nb wc y → z ∈ keys eq ∧ y ∈ nb wc z := by
    intro y z hz
    obtain ⟨l, hl, hzl, _⟩ := mem_nb hz
    exact hw (y, l) hl z hzl
  exact ⟨hk, hn, fun y z hz => (E y z hz).1, fun y z hz => (W y z hz).1,
    fun y z hz => (E y z hz).2, fun y z hz => (W y z hz).2⟩

/-! ### the naive oracle is sound -/

def NSound (eq wc : Adj) (x : Item) (s : List (Item × Bool)) : Prop := ∀ q ∈ s, Reach eq wc x q.2 q.1

theorem nsound_add {eq wc : Adj} {x : Item} {a : List (Item × Bool)} {q : Item × Bool}
    (ha : NSound eq wc x a) (hq : Reach eq wc x q.2 q.1) :
    NSound eq wc x (if a.contains q then a else a ++ [q]) := by
  split
  · exact ha
  · intro q' hq'
    rcases List.mem_append.1 hq' with hq' | hq'
    · exact ha q' hq'
    · simp at hq'; subst hq'; exact hq

theorem nsound_step {eq wc : Adj} {x : Item} {s : List (Item × Bool)} (h : NSound eq wc x s) :
    NSound eq wc x (naiveStep eq wc s) := by
  unfold naiveStep
  apply foldl_inv (NSound eq wc x) _ s s h
  rintro acc ⟨y, p⟩ hyp hacc
  have ry : Reach eq wc x p y := h _ hyp
  dsimp only
  apply foldl_inv (NSound eq wc x) _ (nb wc y)
  · apply foldl_inv (NSound eq wc x) _ (nb eq y) acc hacc
    intro a z hz ha
    exact nsound_add ha (Reach.eqStep ry hz)
  · intro a z hz ha
    exact nsound_add ha (Reach.wcStep ry hz)

theorem nsound_iter {eq wc : Adj} {x : Item} (n : Nat) {s : List (Item × Bool)} (h : NSound eq wc x s) :
    NSound eq wc x (naiveIter eq wc n s) := by
  induction n generalizing s with
  | zero => exact h
  | succ n ih => exact ih (nsound_step h)

theorem naiveClass_sound (eq wc : Adj) (x y : Item) :
    (y ∈ (naiveClass eq wc x).1 → Reach eq wc x false y) ∧
    (y ∈ (naiveClass eq wc x).2 → Reach eq wc x true y) := by
  have h0 : NSound eq wc x [(x, false)] := by
    intro q hq; simp at hq; subst hq; exact Reach.refl
  have h := nsound_iter (2 * (keys eq).length + 2) h0
  unfold naiveClass
  constructor
  · intro hy
    simp only [List.mem_map, List.mem_filter] at hy
    obtain ⟨⟨z, p⟩, ⟨hm, hp⟩, rfl⟩ := hy
    have := h _ hm
    simp at hp; subst hp; exact this
  · intro hy
    simp only [List.mem_map, List.mem_filter] at hy
    obtain ⟨⟨z, p⟩, ⟨hm, hp⟩, rfl⟩ := hy
    have := h _ hm
    simp at hp; subst hp; exact this

end Pepper.Closure
