import PepperProofs.ParsePil
import PepperProofs.CompInv
import PepperProofs.CompStep
import PepperProofs.Comp
import PepperProofs.LoadInvSys
/-!
# `structsNonempty` follows from `Comp.load`

The round trip of `PepperProofs/ParsePil.lean` needs every emitted structure text to be non-empty (a line
`structure [1nt] X = s : ` loses its last blank to `strip()` and then ends in `:`, which the reader's regex rejects).
The compiler never writes one: a strand of length 0 is refused (`zeroStrand`), a structure needs one `+`-segment per
strand and at least one segment exists.
-/
namespace Pepper.ParsePil
open Pepper Pepper.Comp

/-- every strand has a positive length, every structure a non-empty text -/
def NZ (s : St) : Prop := (∀ t ∈ s.strands, t.len ≠ 0) ∧ (∀ e ∈ s.structs, e.struct ≠ [])

theorem registerAnon_fields (s : St) (b : Built) :
    (registerAnon s b).strands = s.strands ∧ (registerAnon s b).structs = s.structs ∧
      (registerAnon s b).kins = s.kins := by
  unfold registerAnon
  generalize b.items = its
  induction its generalizing s with
  | nil => exact ⟨rfl, rfl, rfl⟩
  | cons i r ih =>
    simp only [List.foldl_cons]
    split
    · exact ih s
    · split
      · rename_i e _
        obtain ⟨h1, h2, h3⟩ := ih { s with seqs := s.seqs ++ [e] }
        exact ⟨h1, h2, h3⟩
      · exact ih s

theorem sizesOk_nonempty {full : List Char} {lens : List Nat} (h : Notation.sizesOk full lens = true)
    (hl : ∀ n ∈ lens, n ≠ 0) : full ≠ [] := by
  rintro rfl
  simp only [Notation.sizesOk, Notation.splitOn, Bool.and_eq_true, beq_iff_eq] at h
  obtain ⟨h1, h2⟩ := h
  cases lens with
  | nil => simp at h1
  | cons n r =>
    simp only [List.zip_cons_cons, List.all_cons, Bool.and_eq_true, beq_iff_eq, List.length_nil] at h2
    exact hl n (by simp) h2.1.symm

theorem addStmt_NZ {s : St} {a : Nat} {stmt : Stmt} {s' : St} {a' : Nat} (hz : NZ s)
    (h : addStmt s a stmt = .ok (s', a')) : NZ s' := by
  cases stmt with
  | seq name items len =>
    by_cases hb : ∃ text, items = [.nuc text]
    · obtain ⟨text, rfl⟩ := hb
      obtain ⟨_, l, c, _, rfl, _⟩ := addStmt_seq_base h
      exact hz
    · obtain ⟨_, cs, b, _, _, rfl, _⟩ := addStmt_seq_sup (fun t ht => hb ⟨t, ht⟩) h
      obtain ⟨h1, h2, _⟩ := registerAnon_fields { s with seqs := s.seqs ++ [⟨name, true, false, b.len, [], b.items, b.bases, false⟩] } b
      exact ⟨by rw [h1]; exact hz.1, by rw [h2]; exact hz.2⟩
  | strand dummy name items len =>
    obtain ⟨_, cs, b, _, _, hne, rfl, _⟩ := addStmt_strand h
    obtain ⟨h1, h2, _⟩ := registerAnon_fields { s with strands := s.strands ++ [⟨name, dummy, b.len, b.items, b.bases, false⟩] } b
    rw [markInStrand_eq]
    refine ⟨?_, ?_⟩
    · show ∀ t ∈ (registerAnon _ b).strands, t.len ≠ 0
      rw [h1]
      intro t ht
      rcases List.mem_append.mp ht with ht | ht
      · exact hz.1 t ht
      · simp only [List.mem_singleton] at ht; subst ht; exact hne
    · show ∀ e ∈ (registerAnon _ b).structs, e.struct ≠ []
      rw [h2]; exact hz.2
  | struct opt name strands domain text =>
    obtain ⟨_, objs, dp, full, optv, hobjs, _, _, hsz, _, rfl, _⟩ := addStmt_struct h
    obtain ⟨_, hobj⟩ := strands_mapM hobjs
    refine ⟨?_, ?_⟩
    · intro t ht
      simp only [List.mem_map] at ht
      obtain ⟨o, ho, rfl⟩ := ht
      split
      · exact hz.1 o ho
      · exact hz.1 o ho
    · intro e he
      rcases List.mem_append.mp he with he | he
      · exact hz.2 e he
      · simp only [List.mem_singleton] at he
        subst he
        apply sizesOk_nonempty hsz
        intro n hn
        simp only [List.mem_map] at hn
        obtain ⟨o, ho, rfl⟩ := hn
        rw [hobj] at ho
        obtain ⟨nm, _, hf⟩ := List.mem_filterMap.mp ho
        have : o ∈ s.strands := by
          unfold findT at hf
          exact List.mem_of_find?_eq_some hf
        exact hz.1 o this
  | kinetic low high ins outs =>
    obtain ⟨_, lo, hi, _, _, rfl, _⟩ := addStmt_kinetic h
    exact hz

theorem addStmts_NZ : ∀ (stmts : List Stmt) {s : St} {a : Nat} {s' : St} {a' : Nat}, NZ s →
    addStmts s a stmts = .ok (s', a') → NZ s'
  | [], s, a, s', a', hz, h => by
    simp only [addStmts, Except.ok.injEq, Prod.mk.injEq] at h
    obtain ⟨rfl, rfl⟩ := h
    exact hz
  | x :: r, s, a, s', a', hz, h => by
    simp only [addStmts] at h
    cases h1 : addStmt s a x with
    | error e => rw [h1] at h; cases h
    | ok v =>
      obtain ⟨s2, a2⟩ := v
      rw [h1] at h
      exact addStmts_NZ r (addStmt_NZ hz h1) h

/-- **every state `Comp.load` returns has `structsNonempty`** -/
theorem load_structsNonempty {src : Src} {n : Nat} {pfx : String} {a : Nat} {st : St} {a' : Nat}
    (h : Comp.load src n pfx a = .ok (st, a')) : structsNonempty st = true := by
  obtain ⟨s, hadd, hio⟩ := load_inv h
  have hz0 : NZ { name := src.name, pfx := pfx, params := src.params } :=
    And.intro (fun _ hm => nomatch hm) (fun _ hm => nomatch hm)
  have hz : NZ s := addStmts_NZ src.stmts hz0 hadd
  obtain ⟨⟨_, _, _, hsu, _⟩, _⟩ := addIO_inv hio
  simp only [structsNonempty, List.all_eq_true, Bool.not_eq_true', List.isEmpty_eq_false_iff]
  rw [hsu]
  exact hz.2

theorem compsStructsNonempty_of : ∀ (c : List (String × Sys.Inst)),
    (∀ x ∈ c, instStructsNonempty x.2 = true) → compsStructsNonempty c = true
  | [], _ => rfl
  | (n, i) :: r, h => by
    simp only [compsStructsNonempty, Bool.and_eq_true]
    exact ⟨h (n, i) (by simp), compsStructsNonempty_of r (fun x hx => h x (List.mem_cons_of_mem _ hx))⟩

theorem Loaded.structsNonempty {P : Comp.Src → Prop} {Q : Sys.SSrc → Prop} {pfx : String} {inst : Sys.Inst}
    (hL : LoadInv.Loaded P Q pfx inst) : instStructsNonempty inst = true := by
  induction hL with
  | comp hP hload =>
    simp only [instStructsNonempty]
    exact load_structsNonempty hload
  | sys hQ hsub hinv hio ih =>
    simp only [instStructsNonempty, sysStructsNonempty]
    exact compsStructsNonempty_of _ ih

/-- **every tree `Sys.loadFile` returns has `structsNonempty` at every component** -/
theorem loadFile_structsNonempty {b : Sys.Bundle} {fuel : Nat} {base : String} {args : Nat}
    {argKey pfx path : String} {includes : List String} {anon : Nat} {inst : Sys.Inst} {a' : Nat}
    (h : Sys.loadFile b fuel base args argKey pfx path includes anon = .ok (inst, a')) :
    instStructsNonempty inst = true :=
  Loaded.structsNonempty (LoadInv.loadFile_loaded (P := fun _ => True) (Q := fun _ => True) (fun _ _ _ => trivial)
    (fun _ _ _ => trivial) _ _ _ _ _ _ _ _ _ _ h)

end Pepper.ParsePil
