import PepperModel.Denote
import PepperModel.Emit
import PepperProofs.CompShift
/-!
# Zero-length domains are inert (C14): the specification side, index-free

`Denote.denoteItems` / `denoteRegion` keep positions (segment indices of the new domains and of the wildcard
placeholder).  Here the same computation is described without indices: an item list yields a list of
*blocks* (`blocks`): a plain segment, a resolved quoted region (its domain name, template and nucleotides) or
the wildcard placeholder; `finishB` resolves the wildcard.  `denoteRegion_eq_blocks` proves the two
descriptions equal.  On blocks, inserting a zero-length item is inserting one block with an empty segment,
the renumbering of later anonymous regions is a `map`, and a change of the *segmentation* of bound names (not
of their nucleotides) only re-chunks plain blocks.
-/
set_option linter.unusedSimpArgs false
namespace Pepper.DenoteZero
open Pepper Pepper.Comp Pepper.Constraint Pepper.Denote

/-! ### blocks -/

inductive Blk
  | plain (seg : List Nuc)
  | anon (name : String) (c : List Char) (seg : List Nuc)
  | wild (parts : List (Mult × Char))
deriving Repr

def Blk.seg : Blk → List Nuc
  | .plain s => s
  | .anon _ _ s => s
  | .wild _ => []

def Blk.isWild : Blk → Bool
  | .wild _ => true
  | _ => false

def hasWild (bs : List Blk) : Bool := bs.any Blk.isWild

/-- the new blocks of an item list, and the counter afterwards; `w`: a wildcard region was already seen -/
def blocks (pfx : String) (env : Env) : List SrcItem → Nat → Bool → Except Denote.Err (List Blk × Nat)
  | [], n, _ => .ok ([], n)
  | .ref x star :: r, n, w =>
    match env.seqs.lookup x with
    | none => .error .undefined
    | some b =>
      match blocks pfx env r n w with
      | .error e => .error e
      | .ok p => .ok (.plain (if star then rc b.nucs else b.nucs) :: p.1, p.2)
  | .domains x star :: r, n, w =>
    match env.seqs.lookup x with
    | none => .error .undefined
    | some b =>
      if !b.isSup then .error .undefined
      else match blocks pfx env r n w with
        | .error e => .error e
        | .ok p => .ok ((if star then rcSegs b.segs else b.segs).map .plain ++ p.1, p.2)
  | .nuc text :: r, n, w =>
    match resolve (parseQuoted text) none with
    | .ok (l, c) =>
      (match blocks pfx env r (n + 1) w with
       | .error e => .error e
       | .ok p => .ok (.anon (pfx ++ "_Anon" ++ toString n) c (fwd (pfx ++ "_Anon" ++ toString n) l) :: p.1, p.2))
    | .error .wildNoLength =>
      if w then .error .wildcard
      else (match blocks pfx env r n true with
        | .error e => .error e
        | .ok p => .ok (.wild (parseQuoted text) :: p.1, p.2))
    | .error _ => .error .wildcard

/-! ### the accumulator of `denoteItems` read off a block list -/

def domsAt : Nat → List Blk → List (Nat × String × List Char)
  | _, [] => []
  | k, .anon nm c _ :: r => (k, nm, c) :: domsAt (k + 1) r
  | k, .plain _ :: r => domsAt (k + 1) r
  | k, .wild _ :: r => domsAt (k + 1) r

def wildAt : Nat → List Blk → Option (Nat × List (Mult × Char))
  | _, [] => none
  | k, .wild p :: _ => some (k, p)
  | k, .plain _ :: r => wildAt (k + 1) r
  | k, .anon _ _ _ :: r => wildAt (k + 1) r

def toAcc (bs : List Blk) (n : Nat) : ItemsAcc := ⟨bs.map Blk.seg, domsAt 0 bs, wildAt 0 bs, n⟩

theorem domsAt_append : ∀ (k : Nat) (xs ys : List Blk),
    domsAt k (xs ++ ys) = domsAt k xs ++ domsAt (k + xs.length) ys
  | k, [], ys => by simp [domsAt]
  | k, .anon nm c s :: r, ys => by
    simp only [List.cons_append, domsAt, domsAt_append (k + 1) r ys, List.length_cons]
    congr 3; omega
  | k, .plain s :: r, ys => by
    simp only [List.cons_append, domsAt, domsAt_append (k + 1) r ys, List.length_cons]
    congr 2; omega
  | k, .wild p :: r, ys => by
    simp only [List.cons_append, domsAt, domsAt_append (k + 1) r ys, List.length_cons]
    congr 2; omega

theorem wildAt_append : ∀ (k : Nat) (xs ys : List Blk),
    wildAt k (xs ++ ys) = (wildAt k xs).or (wildAt (k + xs.length) ys)
  | k, [], ys => by simp [wildAt]
  | k, .wild p :: r, ys => by simp [wildAt]
  | k, .plain s :: r, ys => by
    simp only [List.cons_append, wildAt, wildAt_append (k + 1) r ys, List.length_cons]
    congr 2; omega
  | k, .anon nm c s :: r, ys => by
    simp only [List.cons_append, wildAt, wildAt_append (k + 1) r ys, List.length_cons]
    congr 2; omega

theorem wildAt_isSome : ∀ (k : Nat) (bs : List Blk), (wildAt k bs).isSome = hasWild bs
  | _, [] => rfl
  | k, .wild p :: r => by simp [wildAt, hasWild, Blk.isWild]
  | k, .plain s :: r => by
    have := wildAt_isSome (k + 1) r
    simpa [wildAt, hasWild, Blk.isWild] using this
  | k, .anon nm c s :: r => by
    have := wildAt_isSome (k + 1) r
    simpa [wildAt, hasWild, Blk.isWild] using this

theorem domsAt_plain (k : Nat) (segs : List (List Nuc)) : domsAt k (segs.map .plain) = [] := by
  induction segs generalizing k with
  | nil => rfl
  | cons s r ih => simp [domsAt, ih]

theorem wildAt_plain (k : Nat) (segs : List (List Nuc)) : wildAt k (segs.map .plain) = none := by
  induction segs generalizing k with
  | nil => rfl
  | cons s r ih => simp [wildAt, ih]

theorem seg_plain (segs : List (List Nuc)) : (segs.map Blk.plain).map Blk.seg = segs := by
  induction segs with
  | nil => rfl
  | cons s r ih => simp [Blk.seg, ih]

theorem hasWild_append (xs ys : List Blk) : hasWild (xs ++ ys) = (hasWild xs || hasWild ys) := by
  simp [hasWild]

theorem hasWild_plain (segs : List (List Nuc)) : hasWild (segs.map .plain) = false := by
  rw [← wildAt_isSome 0, wildAt_plain]; rfl

theorem seg_plain' (segs : List (List Nuc)) : List.map (Blk.seg ∘ Blk.plain) segs = segs := by
  induction segs with
  | nil => rfl
  | cons s r ih => simp [Blk.seg, ih]

theorem hasWild_snoc_plain (bs : List Blk) (s : List Nuc) : hasWild (bs ++ [.plain s]) = hasWild bs := by
  simp [hasWild, Blk.isWild]
theorem hasWild_snoc_anon (bs : List Blk) (nm : String) (c : List Char) (s : List Nuc) :
    hasWild (bs ++ [.anon nm c s]) = hasWild bs := by
  simp [hasWild, Blk.isWild]
theorem hasWild_snoc_wild (bs : List Blk) (p : List (Mult × Char)) : hasWild (bs ++ [.wild p]) = true := by
  simp [hasWild, Blk.isWild]

/-- `denoteItems` from the accumulator of `bs` is the accumulator of `bs` followed by the new blocks -/
theorem denoteItems_blocks (pfx : String) (env : Env) :
    ∀ (items : List SrcItem) (bs : List Blk) (n : Nat),
      denoteItems pfx env items (toAcc bs n) =
        (blocks pfx env items n (hasWild bs)).map (fun p => toAcc (bs ++ p.1) p.2)
  | [], bs, n => by simp [denoteItems, blocks, Except.map]
  | .ref x star :: r, bs, n => by
    simp only [denoteItems, blocks]
    cases env.seqs.lookup x with
    | none => rfl
    | some b =>
      dsimp only
      have ih := denoteItems_blocks pfx env r (bs ++ [.plain (if star then rc b.nucs else b.nucs)]) n
      have e1 : (⟨(toAcc bs n).segs ++ [if star then rc b.nucs else b.nucs], (toAcc bs n).newDomains,
            (toAcc bs n).wild, (toAcc bs n).anon⟩ : ItemsAcc) =
          toAcc (bs ++ [.plain (if star then rc b.nucs else b.nucs)]) n := by
        simp [toAcc, domsAt_append, wildAt_append, domsAt, wildAt, Blk.seg]
      rw [e1, ih, hasWild_snoc_plain]
      cases blocks pfx env r n (hasWild bs) with
      | error e => rfl
      | ok p => simp [Except.map]
  | .domains x star :: r, bs, n => by
    simp only [denoteItems, blocks]
    cases env.seqs.lookup x with
    | none => rfl
    | some b =>
      dsimp only
      by_cases hs : b.isSup = true
      · simp only [hs, Bool.not_true, Bool.false_eq_true, if_false]
        have ih := denoteItems_blocks pfx env r (bs ++ (if star then rcSegs b.segs else b.segs).map .plain) n
        have e1 : (⟨(toAcc bs n).segs ++ (if star then rcSegs b.segs else b.segs), (toAcc bs n).newDomains,
              (toAcc bs n).wild, (toAcc bs n).anon⟩ : ItemsAcc) =
            toAcc (bs ++ (if star then rcSegs b.segs else b.segs).map .plain) n := by
          simp [toAcc, domsAt_append, wildAt_append, domsAt_plain, wildAt_plain, seg_plain']
        rw [e1, ih, hasWild_append, hasWild_plain, Bool.or_false]
        cases blocks pfx env r n (hasWild bs) with
        | error e => rfl
        | ok p => simp [Except.map]
      · have hs : b.isSup = false := by simpa using hs
        simp [hs, Except.map]
  | .nuc text :: r, bs, n => by
    have hlen : (toAcc bs n).segs.length = bs.length := by simp [toAcc]
    have hanon : (toAcc bs n).anon = n := rfl
    cases hres : resolve (parseQuoted text) none with
    | ok lc =>
      obtain ⟨l, c⟩ := lc
      simp only [denoteItems, blocks, hres]
      have ih := denoteItems_blocks pfx env r
        (bs ++ [.anon (pfx ++ "_Anon" ++ toString n) c (fwd (pfx ++ "_Anon" ++ toString n) l)]) (n + 1)
      have e1 : (⟨(toAcc bs n).segs ++ [fwd (pfx ++ "_Anon" ++ toString (toAcc bs n).anon) l],
            (toAcc bs n).newDomains ++ [((toAcc bs n).segs.length, pfx ++ "_Anon" ++ toString (toAcc bs n).anon, c)],
            (toAcc bs n).wild, (toAcc bs n).anon + 1⟩ : ItemsAcc) =
          toAcc (bs ++ [.anon (pfx ++ "_Anon" ++ toString n) c (fwd (pfx ++ "_Anon" ++ toString n) l)]) (n + 1) := by
        simp [toAcc, domsAt_append, wildAt_append, domsAt, wildAt, Blk.seg]
      rw [e1, ih, hasWild_snoc_anon]
      cases blocks pfx env r (n + 1) (hasWild bs) with
      | error e => rfl
      | ok p => simp [Except.map]
    | error e =>
      cases e with
      | wildNoLength =>
        simp only [denoteItems, blocks, hres]
        have hw : (toAcc bs n).wild.isSome = hasWild bs := wildAt_isSome 0 bs
        rw [hw]
        by_cases hh : hasWild bs = true
        · simp [hh, Except.map]
        · have hh : hasWild bs = false := by simpa using hh
          simp only [hh, Bool.false_eq_true, if_false]
          have ih := denoteItems_blocks pfx env r (bs ++ [.wild (parseQuoted text)]) n
          have e1 : (⟨(toAcc bs n).segs ++ [[]], (toAcc bs n).newDomains,
                some ((toAcc bs n).segs.length, parseQuoted text), (toAcc bs n).anon⟩ : ItemsAcc) =
              toAcc (bs ++ [.wild (parseQuoted text)]) n := by
            have hn : wildAt 0 bs = none := by
              have := wildAt_isSome 0 bs
              rw [hh] at this
              cases h : wildAt 0 bs with
              | none => rfl
              | some x => simp [h] at this
            simp [toAcc, domsAt_append, wildAt_append, domsAt, wildAt, Blk.seg, hn]
          rw [e1, ih, hasWild_snoc_wild]
          cases blocks pfx env r n true with
          | error e => rfl
          | ok p => simp [Except.map]
      | tooManyWild => simp [denoteItems, blocks, hres, Except.map]
      | mismatch => simp [denoteItems, blocks, hres, Except.map]
      | tooShort => simp [denoteItems, blocks, hres, Except.map]

/-! ### resolving the wildcard, index-free -/

def wildParts : List Blk → Option (List (Mult × Char))
  | [] => none
  | .wild p :: _ => some p
  | .plain _ :: r => wildParts r
  | .anon _ _ _ :: r => wildParts r

/-- the segments, with the wildcard placeholder filled by `x` -/
def fillSegs (x : List Nuc) : List Blk → List (List Nuc)
  | [] => []
  | .wild _ :: r => x :: fillSegs x r
  | .plain s :: r => s :: fillSegs x r
  | .anon _ _ s :: r => s :: fillSegs x r

/-- the new domains in item order -/
def domsOf : List Blk → List (String × List Char)
  | [] => []
  | .anon nm c _ :: r => (nm, c) :: domsOf r
  | .plain _ :: r => domsOf r
  | .wild _ :: r => domsOf r

/-- the new domains in item order, the wildcard region's domain `wd` at the place of its item -/
def fillDoms (wd : String × List Char) : List Blk → List (String × List Char)
  | [] => []
  | .anon nm c _ :: r => (nm, c) :: fillDoms wd r
  | .plain _ :: r => fillDoms wd r
  | .wild _ :: r => wd :: fillDoms wd r

def fixedLen (bs : List Blk) : Nat := ((bs.map Blk.seg).map List.length).sum

def finishB (pfx : String) (bs : List Blk) (n : Nat) (length : Option Nat) :
    Except Denote.Err (List (List Nuc) × List (String × List Char) × Nat) :=
  match wildParts bs with
  | none =>
    match length with
    | some l => if l != fixedLen bs then .error .length else .ok (bs.map Blk.seg, domsOf bs, n)
    | none => .ok (bs.map Blk.seg, domsOf bs, n)
  | some parts =>
    match length with
    | none => .error .wildcard
    | some l =>
      if l < fixedLen bs then .error .length
      else match resolve parts (some (l - fixedLen bs)) with
        | .error _ => .error .length
        | .ok (wl, c) =>
          .ok (fillSegs (fwd (pfx ++ "_Anon" ++ toString n) wl) bs,
               fillDoms (pfx ++ "_Anon" ++ toString n, c) bs, n + 1)

theorem domsAt_snd : ∀ (k : Nat) (bs : List Blk), (domsAt k bs).map (·.2) = domsOf bs
  | _, [] => rfl
  | k, .anon nm c s :: r => by simp [domsAt, domsOf, domsAt_snd (k + 1) r]
  | k, .plain s :: r => by simp [domsAt, domsOf, domsAt_snd (k + 1) r]
  | k, .wild p :: r => by simp [domsAt, domsOf, domsAt_snd (k + 1) r]

theorem domsAt_range : ∀ (k : Nat) (bs : List Blk), ∀ d ∈ domsAt k bs, k ≤ d.1 ∧ d.1 < k + bs.length
  | _, [], d, h => nomatch h
  | k, .anon nm c s :: r, d, h => by
    simp only [domsAt, List.mem_cons] at h
    rcases h with rfl | h
    · simp
    · have := domsAt_range (k + 1) r d h
      simp only [List.length_cons]; omega
  | k, .plain s :: r, d, h => by
    have := domsAt_range (k + 1) r d h
    simp only [List.length_cons]; omega
  | k, .wild p :: r, d, h => by
    have := domsAt_range (k + 1) r d h
    simp only [List.length_cons]; omega

theorem wildAt_none_iff : ∀ (k : Nat) (bs : List Blk), wildAt k bs = none ↔ hasWild bs = false := by
  intro k bs
  have := wildAt_isSome k bs
  cases h : wildAt k bs with
  | none => simp [h] at this; simp [this]
  | some x => simp [h] at this; simp [this]

theorem wildAt_decomp : ∀ (k : Nat) (bs : List Blk) {i : Nat} {p : List (Mult × Char)}, wildAt k bs = some (i, p) →
    ∃ pre post, bs = pre ++ .wild p :: post ∧ i = k + pre.length ∧ hasWild pre = false
  | _, [], _, _, h => nomatch h
  | k, .wild q :: r, i, p, h => by
    simp only [wildAt, Option.some.injEq, Prod.mk.injEq] at h
    obtain ⟨rfl, rfl⟩ := h
    exact ⟨[], r, rfl, rfl, rfl⟩
  | k, .plain s :: r, i, p, h => by
    obtain ⟨pre, post, e1, e2, e3⟩ := wildAt_decomp (k + 1) r h
    refine ⟨.plain s :: pre, post, by rw [e1]; rfl, by simp only [List.length_cons]; omega, ?_⟩
    simpa [hasWild, Blk.isWild] using e3
  | k, .anon nm c s :: r, i, p, h => by
    obtain ⟨pre, post, e1, e2, e3⟩ := wildAt_decomp (k + 1) r h
    refine ⟨.anon nm c s :: pre, post, by rw [e1]; rfl, by simp only [List.length_cons]; omega, ?_⟩
    simpa [hasWild, Blk.isWild] using e3

theorem noWild_facts : ∀ (bs : List Blk), hasWild bs = false →
    wildParts bs = none ∧ (∀ x, fillSegs x bs = bs.map Blk.seg) ∧ (∀ wd, fillDoms wd bs = domsOf bs)
  | [], _ => ⟨rfl, fun _ => rfl, fun _ => rfl⟩
  | .wild p :: r, h => by simp [hasWild, Blk.isWild] at h
  | .plain s :: r, h => by
    have h' : hasWild r = false := by simpa [hasWild, Blk.isWild] using h
    obtain ⟨a, b, c⟩ := noWild_facts r h'
    exact ⟨by simp [wildParts, a], fun x => by simp [fillSegs, b, Blk.seg], fun wd => by simp [fillDoms, domsOf, c]⟩
  | .anon nm c0 s :: r, h => by
    have h' : hasWild r = false := by simpa [hasWild, Blk.isWild] using h
    obtain ⟨a, b, c⟩ := noWild_facts r h'
    exact ⟨by simp [wildParts, a], fun x => by simp [fillSegs, b, Blk.seg], fun wd => by simp [fillDoms, domsOf, c]⟩

theorem wildParts_append_noWild (pre : List Blk) (h : hasWild pre = false) (rest : List Blk) :
    wildParts (pre ++ rest) = wildParts rest := by
  induction pre with
  | nil => rfl
  | cons b r ih =>
    cases b with
    | wild p => simp [hasWild, Blk.isWild] at h
    | plain s => simpa [wildParts] using ih (by simpa [hasWild, Blk.isWild] using h)
    | anon nm c s => simpa [wildParts] using ih (by simpa [hasWild, Blk.isWild] using h)

theorem fillSegs_append (x : List Nuc) (a b : List Blk) : fillSegs x (a ++ b) = fillSegs x a ++ fillSegs x b := by
  induction a with
  | nil => rfl
  | cons h t ih => cases h <;> simp [fillSegs, ih]

theorem fillDoms_append (wd : String × List Char) (a b : List Blk) :
    fillDoms wd (a ++ b) = fillDoms wd a ++ fillDoms wd b := by
  induction a with
  | nil => rfl
  | cons h t ih => cases h <;> simp [fillDoms, ih]

theorem domsOf_append (a b : List Blk) : domsOf (a ++ b) = domsOf a ++ domsOf b := by
  induction a with
  | nil => rfl
  | cons h t ih => cases h <;> simp [domsOf, ih]

theorem drop_len_succ {α} {a : List α} {n : Nat} (h : a.length = n) (x : α) (b : List α) :
    (a ++ x :: b).drop (n + 1) = b := by
  subst h
  induction a with
  | nil => rfl
  | cons h t ih => simpa using ih

/-- at most one wildcard block -/
def OneWild (bs : List Blk) : Prop := bs.countP Blk.isWild ≤ 1

theorem countP_zero_iff (bs : List Blk) : bs.countP Blk.isWild = 0 ↔ hasWild bs = false := by
  simp [hasWild, List.countP_eq_zero]

/-- the tail of `denoteRegion`, evaluated on the accumulator of a block list with at most one wildcard -/
theorem finish_toAcc (pfx : String) (bs : List Blk) (n : Nat) (length : Option Nat) (h1 : OneWild bs) :
    (let a := toAcc bs n
     let fixedLen := (a.segs.map List.length).sum
     match a.wild with
     | none =>
       (match length with
        | some l => if l != fixedLen then throw Denote.Err.length else pure ()
        | none => pure ()) >>= fun _ =>
       (pure (a.segs, a.newDomains.map (·.2), a.anon) : Except Denote.Err _)
     | some (i, parts) =>
       match length with
       | none => throw .wildcard
       | some l =>
         if l < fixedLen then throw .length
         else match resolve parts (some (l - fixedLen)) with
         | .error _ => throw .length
         | .ok (wl, c) =>
           let name := pfx ++ "_Anon" ++ toString a.anon
           let k := (a.newDomains.filter (fun d => d.1 < i)).length
           let doms := a.newDomains.map (·.2)
           pure (setAt a.segs i (fwd name wl), doms.take k ++ (name, c) :: doms.drop k, a.anon + 1))
    = finishB pfx bs n length := by
  simp only [toAcc]
  cases hw : wildAt 0 bs with
  | none =>
    have hn := (wildAt_none_iff 0 bs).1 hw
    obtain ⟨wp, _, _⟩ := noWild_facts bs hn
    simp only [finishB, wp, domsAt_snd, fixedLen]
    cases length with
    | none => rfl
    | some l =>
      by_cases hl : (l != ((bs.map Blk.seg).map List.length).sum) = true
      · simp only [hl, if_true]; rfl
      · simp only [hl, Bool.false_eq_true, if_false]; rfl
  | some ip =>
    obtain ⟨i, parts⟩ := ip
    obtain ⟨pre, post, e1, e2, e3⟩ := wildAt_decomp 0 bs hw
    have hpost : hasWild post = false := by
      unfold OneWild at h1
      rw [e1, List.countP_append, List.countP_cons] at h1
      simp only [Blk.isWild, if_true] at h1
      rw [← countP_zero_iff]
      omega
    obtain ⟨_, fs1, fd1⟩ := noWild_facts pre e3
    obtain ⟨_, fs2, fd2⟩ := noWild_facts post hpost
    have wp : wildParts bs = some parts := by
      rw [e1, wildParts_append_noWild pre e3]; rfl
    simp only [finishB, wp, domsAt_snd, fixedLen]
    cases length with
    | none => rfl
    | some l =>
      dsimp only
      by_cases hl : l < ((bs.map Blk.seg).map List.length).sum
      · simp only [hl, if_true]; rfl
      · simp only [hl, if_false]
        cases resolve parts (some (l - ((bs.map Blk.seg).map List.length).sum)) with
        | error e => rfl
        | ok r =>
          obtain ⟨wl, c⟩ := r
          simp only [pure, Except.pure]
          have hi : i = pre.length := by omega
          subst hi
          congr 2
          · -- segments
            rw [e1]
            simp only [List.map_append, List.map_cons, setAt, fillSegs_append, fillSegs, fs1, fs2]
            rw [List.take_left' (by simp), drop_len_succ (by simp)]
          · congr 1
            -- domains
            have hk : ((domsAt 0 bs).filter (fun d => d.1 < pre.length)).length = (domsOf pre).length := by
              rw [e1, domsAt_append, List.filter_append]
              have ha : (domsAt 0 pre).filter (fun d => decide (d.1 < pre.length)) = domsAt 0 pre := by
                rw [List.filter_eq_self]
                intro d hd
                have := domsAt_range 0 pre d hd
                simp; omega
              have hb : (domsAt (0 + pre.length) (.wild parts :: post)).filter (fun d => decide (d.1 < pre.length)) = [] := by
                rw [List.filter_eq_nil_iff]
                intro d hd
                have := domsAt_range _ _ d hd
                simp; omega
              rw [ha, hb, List.append_nil, ← domsAt_snd 0 pre, List.length_map]
            rw [hk, e1, domsOf_append, fillDoms_append]
            simp only [domsOf, fillDoms, fd1, fd2]
            rw [List.take_left' rfl, List.drop_left' rfl]

end Pepper.DenoteZero
