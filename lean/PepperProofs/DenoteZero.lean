import PepperModel.Denote
import PepperModel.Emit
import PepperProofs.CompShift
/-!
# Zero-length domains are inert (C14): the specification side, index-free

`Denote.denoteItems` / `denoteRegion` keep positions (segment indices of the new domains and of the wildcard
placeholder).  Here the same computation is described without indices: an item list yields a list of
*blocks* (`blocks`): a plain segment, a resolved quoted region (its domain name, template and nucleotides) or
the wildcard placeholder; `finishB` resolves the wildcard.  `denoteRegion_eq_blocks` proves the two
descriptions equal.  On blocks, inserting a zero-length item is inserting one block with an empty segment,
the renumbering of later anonymous regions is a `map`, and a change of the *segmentation* of bound names (not
of their nucleotides) only re-chunks plain blocks.
-/
set_option linter.unusedSimpArgs false
namespace Pepper.DenoteZero
open Pepper Pepper.Comp Pepper.Constraint Pepper.Denote

/-! ### blocks -/

inductive Blk
  | plain (seg : List Nuc)
  | anon (name : String) (c : List Char) (seg : List Nuc)
  | wild (parts : List (Mult × Char))
deriving Repr

def Blk.seg : Blk → List Nuc
  | .plain s => s
  | .anon _ _ s => s
  | .wild _ => []

def Blk.isWild : Blk → Bool
  | .wild _ => true
  | _ => false

def hasWild (bs : List Blk) : Bool := bs.any Blk.isWild

/-- the new blocks of an item list, and the counter afterwards; `w`: a wildcard region was already seen -/
def blocks (pfx : String) (env : Env) : List SrcItem → Nat → Bool → Except Denote.Err (List Blk × Nat)
  | [], n, _ => .ok ([], n)
  | .ref x star :: r, n, w =>
    match env.seqs.lookup x with
    | none => .error .undefined
    | some b =>
      match blocks pfx env r n w with
      | .error e => .error e
      | .ok p => .ok (.plain (if star then rc b.nucs else b.nucs) :: p.1, p.2)
  | .domains x star :: r, n, w =>
    match env.seqs.lookup x with
    | none => .error .undefined
    | some b =>
      if !b.isSup then .error .undefined
      else match blocks pfx env r n w with
        | .error e => .error e
        | .ok p => .ok ((if star then rcSegs b.segs else b.segs).map .plain ++ p.1, p.2)
  | .nuc text :: r, n, w =>
    match resolve (parseQuoted text) none with
    | .ok (l, c) =>
      (match blocks pfx env r (n + 1) w with
       | .error e => .error e
       | .ok p => .ok (.anon (pfx ++ "_Anon" ++ toString n) c (fwd (pfx ++ "_Anon" ++ toString n) l) :: p.1, p.2))
    | .error .wildNoLength =>
      if w then .error .wildcard
      else (match blocks pfx env r n true with
        | .error e => .error e
        | .ok p => .ok (.wild (parseQuoted text) :: p.1, p.2))
    | .error _ => .error .wildcard

/-! ### the accumulator of `denoteItems` read off a block list -/

def domsAt : Nat → List Blk → List (Nat × String × List Char)
  | _, [] => []
  | k, .anon nm c _ :: r => (k, nm, c) :: domsAt (k + 1) r
  | k, .plain _ :: r => domsAt (k + 1) r
  | k, .wild _ :: r => domsAt (k + 1) r

def wildAt : Nat → List Blk → Option (Nat × List (Mult × Char))
  | _, [] => none
  | k, .wild p :: _ => some (k, p)
  | k, .plain _ :: r => wildAt (k + 1) r
  | k, .anon _ _ _ :: r => wildAt (k + 1) r

def toAcc (bs : List Blk) (n : Nat) : ItemsAcc := ⟨bs.map Blk.seg, domsAt 0 bs, wildAt 0 bs, n⟩

theorem domsAt_append : ∀ (k : Nat) (xs ys : List Blk),
    domsAt k (xs ++ ys) = domsAt k xs ++ domsAt (k + xs.length) ys
  | k, [], ys => by simp [domsAt]
  | k, .anon nm c s :: r, ys => by
    simp only [List.cons_append, domsAt, domsAt_append (k + 1) r ys, List.length_cons]
    congr 3; omega
  | k, .plain s :: r, ys => by
    simp only [List.cons_append, domsAt, domsAt_append (k + 1) r ys, List.length_cons]
    congr 2; omega
  | k, .wild p :: r, ys => by
    simp only [List.cons_append, domsAt, domsAt_append (k + 1) r ys, List.length_cons]
    congr 2; omega

theorem wildAt_append : ∀ (k : Nat) (xs ys : List Blk),
    wildAt k (xs ++ ys) = (wildAt k xs).or (wildAt (k + xs.length) ys)
  | k, [], ys => by simp [wildAt]
  | k, .wild p :: r, ys => by simp [wildAt]
  | k, .plain s :: r, ys => by
    simp only [List.cons_append, wildAt, wildAt_append (k + 1) r ys, List.length_cons]
    congr 2; omega
  | k, .anon nm c s :: r, ys => by
    simp only [List.cons_append, wildAt, wildAt_append (k + 1) r ys, List.length_cons]
    congr 2; omega

theorem wildAt_isSome : ∀ (k : Nat) (bs : List Blk), (wildAt k bs).isSome = hasWild bs
  | _, [] => rfl
  | k, .wild p :: r => by simp [wildAt, hasWild, Blk.isWild]
  | k, .plain s :: r => by
    have := wildAt_isSome (k + 1) r
    simpa [wildAt, hasWild, Blk.isWild] using this
  | k, .anon nm c s :: r => by
    have := wildAt_isSome (k + 1) r
    simpa [wildAt, hasWild, Blk.isWild] using this

theorem domsAt_plain (k : Nat) (segs : List (List Nuc)) : domsAt k (segs.map .plain) = [] := by
  induction segs generalizing k with
  | nil => rfl
  | cons s r ih => simp [domsAt, ih]

theorem wildAt_plain (k : Nat) (segs : List (List Nuc)) : wildAt k (segs.map .plain) = none := by
  induction segs generalizing k with
  | nil => rfl
  | cons s r ih => simp [wildAt, ih]

theorem seg_plain (segs : List (List Nuc)) : (segs.map Blk.plain).map Blk.seg = segs := by
  induction segs with
  | nil => rfl
  | cons s r ih => simp [Blk.seg, ih]

theorem hasWild_append (xs ys : List Blk) : hasWild (xs ++ ys) = (hasWild xs || hasWild ys) := by
  simp [hasWild]

theorem hasWild_plain (segs : List (List Nuc)) : hasWild (segs.map .plain) = false := by
  rw [← wildAt_isSome 0, wildAt_plain]; rfl

theorem seg_plain' (segs : List (List Nuc)) : List.map (Blk.seg ∘ Blk.plain) segs = segs := by
  induction segs with
  | nil => rfl
  | cons s r ih => simp [Blk.seg, ih]

theorem hasWild_snoc_plain (bs : List Blk) (s : List Nuc) : hasWild (bs ++ [.plain s]) = hasWild bs := by
  simp [hasWild, Blk.isWild]
theorem hasWild_snoc_anon (bs : List Blk) (nm : String) (c : List Char) (s : List Nuc) :
    hasWild (bs ++ [.anon nm c s]) = hasWild bs := by
  simp [hasWild, Blk.isWild]
theorem hasWild_snoc_wild (bs : List Blk) (p : List (Mult × Char)) : hasWild (bs ++ [.wild p]) = true := by
  simp [hasWild, Blk.isWild]

/-- `denoteItems` from the accumulator of `bs` is the accumulator of `bs` followed by the new blocks -/
theorem denoteItems_blocks (pfx : String) (env : Env) :
    ∀ (items : List SrcItem) (bs : List Blk) (n : Nat),
      denoteItems pfx env items (toAcc bs n) =
        (blocks pfx env items n (hasWild bs)).map (fun p => toAcc (bs ++ p.1) p.2)
  | [], bs, n => by simp [denoteItems, blocks, Except.map]
  | .ref x star :: r, bs, n => by
    simp only [denoteItems, blocks]
    cases env.seqs.lookup x with
    | none => rfl
    | some b =>
      dsimp only
      have ih := denoteItems_blocks pfx env r (bs ++ [.plain (if star then rc b.nucs else b.nucs)]) n
      have e1 : (⟨(toAcc bs n).segs ++ [if star then rc b.nucs else b.nucs], (toAcc bs n).newDomains,
            (toAcc bs n).wild, (toAcc bs n).anon⟩ : ItemsAcc) =
          toAcc (bs ++ [.plain (if star then rc b.nucs else b.nucs)]) n := by
        simp [toAcc, domsAt_append, wildAt_append, domsAt, wildAt, Blk.seg]
      rw [e1, ih, hasWild_snoc_plain]
      cases blocks pfx env r n (hasWild bs) with
      | error e => rfl
      | ok p => simp [Except.map]
  | .domains x star :: r, bs, n => by
    simp only [denoteItems, blocks]
    cases env.seqs.lookup x with
    | none => rfl
    | some b =>
      dsimp only
      by_cases hs : b.isSup = true
      · simp only [hs, Bool.not_true, Bool.false_eq_true, if_false]
        have ih := denoteItems_blocks pfx env r (bs ++ (if star then rcSegs b.segs else b.segs).map .plain) n
        have e1 : (⟨(toAcc bs n).segs ++ (if star then rcSegs b.segs else b.segs), (toAcc bs n).newDomains,
              (toAcc bs n).wild, (toAcc bs n).anon⟩ : ItemsAcc) =
            toAcc (bs ++ (if star then rcSegs b.segs else b.segs).map .plain) n := by
          simp [toAcc, domsAt_append, wildAt_append, domsAt_plain, wildAt_plain, seg_plain']
        rw [e1, ih, hasWild_append, hasWild_plain, Bool.or_false]
        cases blocks pfx env r n (hasWild bs) with
        | error e => rfl
        | ok p => simp [Except.map]
      · have hs : b.isSup = false := by simpa using hs
        simp [hs, Except.map]
  | .nuc text :: r, bs, n => by
    have hlen : (toAcc bs n).segs.length = bs.length := by simp [toAcc]
    have hanon : (toAcc bs n).anon = n := rfl
    cases hres : resolve (parseQuoted text) none with
    | ok lc =>
      obtain ⟨l, c⟩ := lc
      simp only [denoteItems, blocks, hres]
      have ih := denoteItems_blocks pfx env r
        (bs ++ [.anon (pfx ++ "_Anon" ++ toString n) c (fwd (pfx ++ "_Anon" ++ toString n) l)]) (n + 1)
      have e1 : (⟨(toAcc bs n).segs ++ [fwd (pfx ++ "_Anon" ++ toString (toAcc bs n).anon) l],
            (toAcc bs n).newDomains ++ [((toAcc bs n).segs.length, pfx ++ "_Anon" ++ toString (toAcc bs n).anon, c)],
            (toAcc bs n).wild, (toAcc bs n).anon + 1⟩ : ItemsAcc) =
          toAcc (bs ++ [.anon (pfx ++ "_Anon" ++ toString n) c (fwd (pfx ++ "_Anon" ++ toString n) l)]) (n + 1) := by
        simp [toAcc, domsAt_append, wildAt_append, domsAt, wildAt, Blk.seg]
      rw [e1, ih, hasWild_snoc_anon]
      cases blocks pfx env r (n + 1) (hasWild bs) with
      | error e => rfl
      | ok p => simp [Except.map]
    | error e =>
      cases e with
      | wildNoLength =>
        simp only [denoteItems, blocks, hres]
        have hw : (toAcc bs n).wild.isSome = hasWild bs := wildAt_isSome 0 bs
        rw [hw]
        by_cases hh : hasWild bs = true
        · simp [hh, Except.map]
        · have hh : hasWild bs = false := by simpa using hh
          simp only [hh, Bool.false_eq_true, if_false]
          have ih := denoteItems_blocks pfx env r (bs ++ [.wild (parseQuoted text)]) n
          have e1 : (⟨(toAcc bs n).segs ++ [[]], (toAcc bs n).newDomains,
                some ((toAcc bs n).segs.length, parseQuoted text), (toAcc bs n).anon⟩ : ItemsAcc) =
              toAcc (bs ++ [.wild (parseQuoted text)]) n := by
            have hn : wildAt 0 bs = none := by
              have := wildAt_isSome 0 bs
              rw [hh] at this
              cases h : wildAt 0 bs with
              | none => rfl
              | some x => simp [h] at this
            simp [toAcc, domsAt_append, wildAt_append, domsAt, wildAt, Blk.seg, hn]
          rw [e1, ih, hasWild_snoc_wild]
          cases blocks pfx env r n true with
          | error e => rfl
          | ok p => simp [Except.map]
      | tooManyWild => simp [denoteItems, blocks, hres, Except.map]
      | mismatch => simp [denoteItems, blocks, hres, Except.map]
      | tooShort => simp [denoteItems, blocks, hres, Except.map]

/-! ### resolving the wildcard, index-free -/

def wildParts : List Blk → Option (List (Mult × Char))
  | [] => none
  | .wild p :: _ => some p
  | .plain _ :: r => wildParts r
  | .anon _ _ _ :: r => wildParts r

/-- the segments, with the wildcard placeholder filled by `x` -/
def fillSegs (x : List Nuc) : List Blk → List (List Nuc)
  | [] => []
  | .wild _ :: r => x :: fillSegs x r
  | .plain s :: r => s :: fillSegs x r
  | .anon _ _ s :: r => s :: fillSegs x r

/-- the new domains in item order -/
def domsOf : List Blk → List (String × List Char)
  | [] => []
  | .anon nm c _ :: r => (nm, c) :: domsOf r
  | .plain _ :: r => domsOf r
  | .wild _ :: r => domsOf r

/-- the new domains in item order, the wildcard region's domain `wd` at the place of its item -/
def fillDoms (wd : String × List Char) : List Blk → List (String × List Char)
  | [] => []
  | .anon nm c _ :: r => (nm, c) :: fillDoms wd r
  | .plain _ :: r => fillDoms wd r
  | .wild _ :: r => wd :: fillDoms wd r

def fixedLen (bs : List Blk) : Nat := ((bs.map Blk.seg).map List.length).sum

def finishB (pfx : String) (bs : List Blk) (n : Nat) (length : Option Nat) :
    Except Denote.Err (List (List Nuc) × List (String × List Char) × Nat) :=
  match wildParts bs with
  | none =>
    match length with
    | some l => if l != fixedLen bs then .error .length else .ok (bs.map Blk.seg, domsOf bs, n)
    | none => .ok (bs.map Blk.seg, domsOf bs, n)
  | some parts =>
    match length with
    | none => .error .wildcard
    | some l =>
      if l < fixedLen bs then .error .length
      else match resolve parts (some (l - fixedLen bs)) with
        | .error _ => .error .length
        | .ok (wl, c) =>
          .ok (fillSegs (fwd (pfx ++ "_Anon" ++ toString n) wl) bs,
               fillDoms (pfx ++ "_Anon" ++ toString n, c) bs, n + 1)

theorem domsAt_snd : ∀ (k : Nat) (bs : List Blk), (domsAt k bs).map (·.2) = domsOf bs
  | _, [] => rfl
  | k, .anon nm c s :: r => by simp [domsAt, domsOf, domsAt_snd (k + 1) r]
  | k, .plain s :: r => by simp [domsAt, domsOf, domsAt_snd (k + 1) r]
  | k, .wild p :: r => by simp [domsAt, domsOf, domsAt_snd (k + 1) r]

theorem domsAt_range : ∀ (k : Nat) (bs : List Blk), ∀ d ∈ domsAt k bs, k ≤ d.1 ∧ d.1 < k + bs.length
  | _, [], d, h => nomatch h
  | k, .anon nm c s :: r, d, h => by
    simp only [domsAt, List.mem_cons] at h
    rcases h with rfl | h
    · simp
    · have := domsAt_range (k + 1) r d h
      simp only [List.length_cons]; omega
  | k, .plain s :: r, d, h => by
    have := domsAt_range (k + 1) r d h
    simp only [List.length_cons]; omega
  | k, .wild p :: r, d, h => by
    have := domsAt_range (k + 1) r d h
    simp only [List.length_cons]; omega

theorem wildAt_none_iff : ∀ (k : Nat) (bs : List Blk), wildAt k bs = none ↔ hasWild bs = false := by
  intro k bs
  have := wildAt_isSome k bs
  cases h : wildAt k bs with
  | none => simp [h] at this; simp [this]
  | some x => simp [h] at this; simp [this]

theorem wildAt_decomp : ∀ (k : Nat) (bs : List Blk) {i : Nat} {p : List (Mult × Char)}, wildAt k bs = some (i, p) →
    ∃ pre post, bs = pre ++ .wild p :: post ∧ i = k + pre.length ∧ hasWild pre = false
  | _, [], _, _, h => nomatch h
  | k, .wild q :: r, i, p, h => by
    simp only [wildAt, Option.some.injEq, Prod.mk.injEq] at h
    obtain ⟨rfl, rfl⟩ := h
    exact ⟨[], r, rfl, rfl, rfl⟩
  | k, .plain s :: r, i, p, h => by
    obtain ⟨pre, post, e1, e2, e3⟩ := wildAt_decomp (k + 1) r h
    refine ⟨.plain s :: pre, post, by rw [e1]; rfl, by simp only [List.length_cons]; omega, ?_⟩
    simpa [hasWild, Blk.isWild] using e3
  | k, .anon nm c s :: r, i, p, h => by
    obtain ⟨pre, post, e1, e2, e3⟩ := wildAt_decomp (k + 1) r h
    refine ⟨.anon nm c s :: pre, post, by rw [e1]; rfl, by simp only [List.length_cons]; omega, ?_⟩
    simpa [hasWild, Blk.isWild] using e3

theorem noWild_facts : ∀ (bs : List Blk), hasWild bs = false →
    wildParts bs = none ∧ (∀ x, fillSegs x bs = bs.map Blk.seg) ∧ (∀ wd, fillDoms wd bs = domsOf bs)
  | [], _ => ⟨rfl, fun _ => rfl, fun _ => rfl⟩
  | .wild p :: r, h => by simp [hasWild, Blk.isWild] at h
  | .plain s :: r, h => by
    have h' : hasWild r = false := by simpa [hasWild, Blk.isWild] using h
    obtain ⟨a, b, c⟩ := noWild_facts r h'
    exact ⟨by simp [wildParts, a], fun x => by simp [fillSegs, b, Blk.seg], fun wd => by simp [fillDoms, domsOf, c]⟩
  | .anon nm c0 s :: r, h => by
    have h' : hasWild r = false := by simpa [hasWild, Blk.isWild] using h
    obtain ⟨a, b, c⟩ := noWild_facts r h'
    exact ⟨by simp [wildParts, a], fun x => by simp [fillSegs, b, Blk.seg], fun wd => by simp [fillDoms, domsOf, c]⟩

theorem wildParts_append_noWild (pre : List Blk) (h : hasWild pre = false) (rest : List Blk) :
    wildParts (pre ++ rest) = wildParts rest := by
  induction pre with
  | nil => rfl
  | cons b r ih =>
    cases b with
    | wild p => simp [hasWild, Blk.isWild] at h
    | plain s => simpa [wildParts] using ih (by simpa [hasWild, Blk.isWild] using h)
    | anon nm c s => simpa [wildParts] using ih (by simpa [hasWild, Blk.isWild] using h)

theorem fillSegs_append (x : List Nuc) (a b : List Blk) : fillSegs x (a ++ b) = fillSegs x a ++ fillSegs x b := by
  induction a with
  | nil => rfl
  | cons h t ih => cases h <;> simp [fillSegs, ih]

theorem fillDoms_append (wd : String × List Char) (a b : List Blk) :
    fillDoms wd (a ++ b) = fillDoms wd a ++ fillDoms wd b := by
  induction a with
  | nil => rfl
  | cons h t ih => cases h <;> simp [fillDoms, ih]

theorem domsOf_append (a b : List Blk) : domsOf (a ++ b) = domsOf a ++ domsOf b := by
  induction a with
  | nil => rfl
  | cons h t ih => cases h <;> simp [domsOf, ih]

theorem drop_len_succ {α} {a : List α} {n : Nat} (h : a.length = n) (x : α) (b : List α) :
    (a ++ x :: b).drop (n + 1) = b := by
  subst h
  induction a with
  | nil => rfl
  | cons h t ih => simp [ih]

/-- at most one wildcard block -/
def OneWild (bs : List Blk) : Prop := bs.countP Blk.isWild ≤ 1

theorem countP_zero_iff (bs : List Blk) : bs.countP Blk.isWild = 0 ↔ hasWild bs = false := by
  simp [hasWild, List.countP_eq_zero]

theorem blocks_oneWild (pfx : String) (env : Env) :
    ∀ (items : List SrcItem) (n : Nat) (w : Bool) {bs : List Blk} {n' : Nat},
      blocks pfx env items n w = .ok (bs, n') → bs.countP Blk.isWild + (if w then 1 else 0) ≤ 1
  | [], n, w, bs, n', h => by
    simp only [blocks, Except.ok.injEq, Prod.mk.injEq] at h
    obtain ⟨rfl, _⟩ := h
    cases w <;> simp
  | .ref x star :: r, n, w, bs, n', h => by
    simp only [blocks] at h
    cases hl : env.seqs.lookup x with
    | none => simp [hl] at h
    | some b =>
      simp only [hl] at h
      cases hb : blocks pfx env r n w with
      | error e => simp [hb] at h
      | ok p =>
        simp only [hb, Except.ok.injEq, Prod.mk.injEq] at h
        obtain ⟨rfl, _⟩ := h
        have := blocks_oneWild pfx env r n w (bs := p.1) (n' := p.2) hb
        simpa [List.countP_cons, Blk.isWild] using this
  | .domains x star :: r, n, w, bs, n', h => by
    simp only [blocks] at h
    cases hl : env.seqs.lookup x with
    | none => simp [hl] at h
    | some b =>
      simp only [hl] at h
      split at h
      · cases h
      · cases hb : blocks pfx env r n w with
        | error e => simp [hb] at h
        | ok p =>
          simp only [hb, Except.ok.injEq, Prod.mk.injEq] at h
          obtain ⟨rfl, _⟩ := h
          have := blocks_oneWild pfx env r n w (bs := p.1) (n' := p.2) hb
          have h0 : List.countP Blk.isWild ((if star then rcSegs b.segs else b.segs).map Blk.plain) = 0 := by
            rw [countP_zero_iff, hasWild_plain]
          rw [List.countP_append, h0]
          omega
  | .nuc text :: r, n, w, bs, n', h => by
    simp only [blocks] at h
    split at h
    · cases hb : blocks pfx env r (n + 1) w with
      | error e => simp [hb] at h
      | ok p =>
        simp only [hb, Except.ok.injEq, Prod.mk.injEq] at h
        obtain ⟨rfl, _⟩ := h
        have := blocks_oneWild pfx env r (n + 1) w (bs := p.1) (n' := p.2) hb
        simpa [List.countP_cons, Blk.isWild] using this
    · cases w with
      | true => simp at h
      | false =>
        simp only [Bool.false_eq_true, if_false] at h
        cases hb : blocks pfx env r n true with
        | error e => simp [hb] at h
        | ok p =>
          simp only [hb, Except.ok.injEq, Prod.mk.injEq] at h
          obtain ⟨rfl, _⟩ := h
          have := blocks_oneWild pfx env r n true (bs := p.1) (n' := p.2) hb
          simp only [if_true] at this
          simp only [List.countP_cons, Blk.isWild, if_true, Bool.false_eq_true, if_false]
          omega
    · cases h

/-- `denoteRegion`, index-free: the blocks of the item list, then `finishB` -/
theorem denoteRegion_eq_blocks (pfx : String) (env : Env) (items : List SrcItem) (length : Option Nat) :
    denoteRegion pfx env items length =
      match blocks pfx env items env.anon false with
      | .error e => .error e
      | .ok p => finishB pfx p.1 p.2 length := by
  unfold denoteRegion
  have h0 : ({ anon := env.anon } : ItemsAcc) = toAcc [] env.anon := rfl
  rw [h0, denoteItems_blocks]
  have hw0 : hasWild [] = false := rfl
  rw [hw0]
  cases hb : blocks pfx env items env.anon false with
  | error e => rfl
  | ok p =>
    obtain ⟨bs, n⟩ := p
    have h1 : OneWild bs := by
      have := blocks_oneWild pfx env items env.anon false hb
      simpa [OneWild] using this
    simp only [Except.map, List.nil_append, bind, Except.bind]
    simp only [toAcc]
    cases hw : wildAt 0 bs with
    | none =>
      have hn := (wildAt_none_iff 0 bs).1 hw
      obtain ⟨wp, _, _⟩ := noWild_facts bs hn
      simp only [finishB, wp, domsAt_snd, fixedLen]
      cases length with
      | none => rfl
      | some l =>
        by_cases hl : (l != ((bs.map Blk.seg).map List.length).sum) = true
        · simp only [hl, if_true]; rfl
        · simp only [hl, Bool.false_eq_true, if_false]; rfl
    | some ip =>
      obtain ⟨i, parts⟩ := ip
      obtain ⟨pre, post, e1, e2, e3⟩ := wildAt_decomp 0 bs hw
      have hpost : hasWild post = false := by
        unfold OneWild at h1
        rw [e1, List.countP_append, List.countP_cons] at h1
        simp only [Blk.isWild, if_true] at h1
        rw [← countP_zero_iff]
        omega
      obtain ⟨_, fs1, fd1⟩ := noWild_facts pre e3
      obtain ⟨_, fs2, fd2⟩ := noWild_facts post hpost
      have wp : wildParts bs = some parts := by
        rw [e1, wildParts_append_noWild pre e3]; rfl
      simp only [finishB, wp, domsAt_snd, fixedLen]
      cases length with
      | none => rfl
      | some l =>
        dsimp only
        by_cases hl : l < ((bs.map Blk.seg).map List.length).sum
        · simp only [hl, if_true]; rfl
        · simp only [hl, if_false]
          cases resolve parts (some (l - ((bs.map Blk.seg).map List.length).sum)) with
          | error e => rfl
          | ok r =>
            obtain ⟨wl, c⟩ := r
            simp only [pure, Except.pure]
            have hi : i = pre.length := by omega
            subst hi
            congr 2
            · -- segments
              rw [e1]
              simp only [List.map_append, List.map_cons, setAt, fillSegs_append, fillSegs, fs1, fs2]
              rw [List.take_left' (by simp), drop_len_succ (by simp)]
            · congr 1
              -- domains
              have hk : ((domsAt 0 bs).filter (fun d => d.1 < pre.length)).length = (domsOf pre).length := by
                rw [e1, domsAt_append, List.filter_append]
                have ha : (domsAt 0 pre).filter (fun d => decide (d.1 < pre.length)) = domsAt 0 pre := by
                  rw [List.filter_eq_self]
                  intro d hd
                  have := domsAt_range 0 pre d hd
                  simp; omega
                have hb : (domsAt (0 + pre.length) (.wild parts :: post)).filter (fun d => decide (d.1 < pre.length)) = [] := by
                  rw [List.filter_eq_nil_iff]
                  intro d hd
                  have := domsAt_range _ _ d hd
                  simp; omega
                rw [ha, hb, List.append_nil, ← domsAt_snd 0 pre, List.length_map]
              rw [hk, e1, domsOf_append, fillDoms_append]
              simp only [domsOf, fillDoms, fd1, fd2]
              rw [List.take_left' rfl, List.drop_left' rfl]

/-! ### splitting an item list -/

theorem blocks_append (pfx : String) (env : Env) :
    ∀ (xs ys : List SrcItem) (n : Nat) (w : Bool),
      blocks pfx env (xs ++ ys) n w =
        match blocks pfx env xs n w with
        | .error e => .error e
        | .ok p =>
          match blocks pfx env ys p.2 (w || hasWild p.1) with
          | .error e => .error e
          | .ok q => .ok (p.1 ++ q.1, q.2)
  | [], ys, n, w => by
    simp only [List.nil_append, blocks, hasWild, List.any_nil, Bool.or_false]
    cases blocks pfx env ys n w <;> rfl
  | .ref x star :: r, ys, n, w => by
    simp only [List.cons_append, blocks]
    cases env.seqs.lookup x with
    | none => rfl
    | some b =>
      simp only [blocks_append pfx env r ys n w]
      cases blocks pfx env r n w with
      | error e => rfl
      | ok p =>
        have : hasWild (Blk.plain (if star then rc b.nucs else b.nucs) :: p.1) = hasWild p.1 := by
          simp [hasWild, Blk.isWild]
        simp only [this]
        cases blocks pfx env ys p.2 (w || hasWild p.1) <;> rfl
  | .domains x star :: r, ys, n, w => by
    simp only [List.cons_append, blocks]
    cases env.seqs.lookup x with
    | none => rfl
    | some b =>
      dsimp only
      split
      · rfl
      · simp only [blocks_append pfx env r ys n w]
        cases blocks pfx env r n w with
        | error e => rfl
        | ok p =>
          have : hasWild ((if star then rcSegs b.segs else b.segs).map Blk.plain ++ p.1) = hasWild p.1 := by
            rw [hasWild_append, hasWild_plain, Bool.false_or]
          simp only [this]
          cases blocks pfx env ys p.2 (w || hasWild p.1) with
          | error e => rfl
          | ok q => simp
  | .nuc text :: r, ys, n, w => by
    simp only [List.cons_append, blocks]
    split
    · simp only [blocks_append pfx env r ys (n + 1) w]
      cases blocks pfx env r (n + 1) w with
      | error e => rfl
      | ok p =>
        rename_i l c _
        have : hasWild (Blk.anon (pfx ++ "_Anon" ++ toString n) c (fwd (pfx ++ "_Anon" ++ toString n) l) :: p.1)
            = hasWild p.1 := by simp [hasWild, Blk.isWild]
        simp only [this]
        cases blocks pfx env ys p.2 (w || hasWild p.1) <;> rfl
    · cases w with
      | true => rfl
      | false =>
        simp only [Bool.false_eq_true, if_false, blocks_append pfx env r ys n true]
        cases blocks pfx env r n true with
        | error e => rfl
        | ok p =>
          have : hasWild (Blk.wild (parseQuoted text) :: p.1) = true := by simp [hasWild, Blk.isWild]
          simp only [this, Bool.true_or, Bool.false_or]
          cases blocks pfx env ys p.2 true <;> rfl
    · rfl

/-- number of blocks (= segments) an item list contributes -/
def blkCount (env : Env) : List SrcItem → Nat
  | [] => 0
  | .ref _ _ :: r => 1 + blkCount env r
  | .nuc _ :: r => 1 + blkCount env r
  | .domains x _ :: r => (match env.seqs.lookup x with | some b => b.segs.length | none => 0) + blkCount env r

theorem blocks_length (pfx : String) (env : Env) :
    ∀ (items : List SrcItem) (n : Nat) (w : Bool) {bs : List Blk} {n' : Nat},
      blocks pfx env items n w = .ok (bs, n') → bs.length = blkCount env items
  | [], n, w, bs, n', h => by
    simp only [blocks, Except.ok.injEq, Prod.mk.injEq] at h
    obtain ⟨rfl, _⟩ := h
    rfl
  | .ref x star :: r, n, w, bs, n', h => by
    simp only [blocks] at h
    cases hl : env.seqs.lookup x with
    | none => simp [hl] at h
    | some b =>
      simp only [hl] at h
      cases hb : blocks pfx env r n w with
      | error e => simp [hb] at h
      | ok p =>
        simp only [hb, Except.ok.injEq, Prod.mk.injEq] at h
        obtain ⟨rfl, _⟩ := h
        have := blocks_length pfx env r n w (bs := p.1) (n' := p.2) hb
        simp [blkCount, this]; omega
  | .domains x star :: r, n, w, bs, n', h => by
    simp only [blocks] at h
    cases hl : env.seqs.lookup x with
    | none => simp [hl] at h
    | some b =>
      simp only [hl] at h
      split at h
      · cases h
      · cases hb : blocks pfx env r n w with
        | error e => simp [hb] at h
        | ok p =>
          simp only [hb, Except.ok.injEq, Prod.mk.injEq] at h
          obtain ⟨rfl, _⟩ := h
          have := blocks_length pfx env r n w (bs := p.1) (n' := p.2) hb
          cases star <;> simp [blkCount, this, hl, rcSegs]
  | .nuc text :: r, n, w, bs, n', h => by
    simp only [blocks] at h
    split at h
    · cases hb : blocks pfx env r (n + 1) w with
      | error e => simp [hb] at h
      | ok p =>
        simp only [hb, Except.ok.injEq, Prod.mk.injEq] at h
        obtain ⟨rfl, _⟩ := h
        have := blocks_length pfx env r (n + 1) w (bs := p.1) (n' := p.2) hb
        simp [blkCount, this]; omega
    · cases w with
      | true => simp at h
      | false =>
        simp only [Bool.false_eq_true, if_false] at h
        cases hb : blocks pfx env r n true with
        | error e => simp [hb] at h
        | ok p =>
          simp only [hb, Except.ok.injEq, Prod.mk.injEq] at h
          obtain ⟨rfl, _⟩ := h
          have := blocks_length pfx env r n true (bs := p.1) (n' := p.2) hb
          simp [blkCount, this]; omega
    · cases h

/-! ### inserting a block with an empty segment -/

theorem wildParts_append (a b : List Blk) : wildParts (a ++ b) = (wildParts a).or (wildParts b) := by
  induction a with
  | nil => simp [wildParts]
  | cons h t ih => cases h <;> simp [wildParts, ih]

theorem fixedLen_append (a b : List Blk) : fixedLen (a ++ b) = fixedLen a + fixedLen b := by
  simp [fixedLen, List.sum_append]

theorem fillSegs_length (x : List Nuc) (bs : List Blk) : (fillSegs x bs).length = bs.length := by
  induction bs with
  | nil => rfl
  | cons h t ih => cases h <;> simp [fillSegs, ih]

theorem insertAt_append_left {α} (a b : List α) (x : α) {j : Nat} (h : a.length = j) :
    insertAt (a ++ b) j x = a ++ x :: b := by
  subst h
  simp [insertAt]

/-- result of a region with one empty segment inserted at position `j` -/
def insSeg (j : Nat) (r : List (List Nuc) × List (String × List Char) × Nat) :
    List (List Nuc) × List (String × List Char) × Nat := (insertAt r.1 j [], r.2.1, r.2.2)

theorem finishB_insert_plain (pfx : String) (bp bq : List Blk) (n : Nat) (length : Option Nat) :
    finishB pfx (bp ++ .plain [] :: bq) n length = (finishB pfx (bp ++ bq) n length).map (insSeg bp.length) := by
  have hw : wildParts (bp ++ .plain [] :: bq) = wildParts (bp ++ bq) := by
    simp [wildParts_append, wildParts]
  have hf : fixedLen (bp ++ .plain [] :: bq) = fixedLen (bp ++ bq) := by
    simp [fixedLen, Blk.seg]
  have hd : domsOf (bp ++ .plain [] :: bq) = domsOf (bp ++ bq) := by
    simp [domsOf_append, domsOf]
  have hs : (bp ++ .plain [] :: bq).map Blk.seg = insertAt ((bp ++ bq).map Blk.seg) bp.length [] := by
    rw [List.map_append, List.map_append, insertAt_append_left _ _ _ (by simp)]
    rfl
  have hfs : ∀ x, fillSegs x (bp ++ .plain [] :: bq) = insertAt (fillSegs x (bp ++ bq)) bp.length [] := by
    intro x
    rw [fillSegs_append, fillSegs_append, insertAt_append_left _ _ _ (fillSegs_length x bp)]
    rfl
  have hfd : ∀ wd, fillDoms wd (bp ++ .plain [] :: bq) = fillDoms wd (bp ++ bq) := by
    intro wd
    simp [fillDoms_append, fillDoms]
  unfold finishB
  rw [hw, hf, hd, hs]
  cases wildParts (bp ++ bq) with
  | none =>
    cases length with
    | none => rfl
    | some l => dsimp only; split <;> rfl
  | some parts =>
    cases length with
    | none => rfl
    | some l =>
      dsimp only
      split
      · rfl
      · cases resolve parts (some (l - fixedLen (bp ++ bq))) with
        | error e => rfl
        | ok r =>
          obtain ⟨wl, c⟩ := r
          simp only [hfs, hfd, Except.map, insSeg]

/-- (a), named reference: inserting a reference `z` / `z*` to a name bound to no nucleotides at position `i`
    of an item list leaves the outcome of `denoteRegion` unchanged — same error, or the same new domains and
    counter and the same segments with one empty segment inserted after the segments of the first `i` items -/
theorem denoteRegion_insert_ref (pfx : String) (env : Env) (items : List SrcItem) (i : Nat) (z : String)
    (star : Bool) (length : Option Nat) {b : Denote.Bind} (hz : env.seqs.lookup z = some b) (hb : b.nucs = []) :
    denoteRegion pfx env (items.take i ++ [.ref z star] ++ items.drop i) length =
      (denoteRegion pfx env items length).map (insSeg (blkCount env (items.take i))) := by
  rw [denoteRegion_eq_blocks, denoteRegion_eq_blocks]
  have hsplit : blocks pfx env items env.anon false =
      blocks pfx env (items.take i ++ items.drop i) env.anon false := by rw [List.take_append_drop]
  rw [hsplit, List.append_assoc, blocks_append, blocks_append]
  cases hp : blocks pfx env (items.take i) env.anon false with
  | error e => rfl
  | ok p =>
    have hlen := blocks_length pfx env (items.take i) env.anon false (bs := p.1) (n' := p.2) hp
    have hnil : (if star then rc b.nucs else b.nucs) = [] := by cases star <;> simp [hb, rc]
    simp only [List.singleton_append, blocks, hz, hnil]
    cases blocks pfx env (items.drop i) p.2 (false || hasWild p.1) with
    | error e => rfl
    | ok q =>
      simp only
      rw [finishB_insert_plain, hlen]

/-! ### forgetting the segmentation -/

inductive FItem
  | n (x : Nuc)
  | d (name : String) (c : List Char)
  | w (parts : List (Mult × Char))

/-- a block list as a sequence of nucleotides, domain introductions and wildcard placeholders -/
def flat : List Blk → List FItem
  | [] => []
  | .plain s :: r => s.map .n ++ flat r
  | .anon nm c s :: r => .d nm c :: (s.map .n ++ flat r)
  | .wild p :: r => .w p :: flat r

def fNucs (x : List Nuc) : List FItem → List Nuc
  | [] => []
  | .n y :: r => y :: fNucs x r
  | .d _ _ :: r => fNucs x r
  | .w _ :: r => x ++ fNucs x r

def fDoms (wd : String × List Char) : List FItem → List (String × List Char)
  | [] => []
  | .n _ :: r => fDoms wd r
  | .d nm c :: r => (nm, c) :: fDoms wd r
  | .w _ :: r => wd :: fDoms wd r

def fWild : List FItem → Option (List (Mult × Char))
  | [] => none
  | .w p :: _ => some p
  | .n _ :: r => fWild r
  | .d _ _ :: r => fWild r

def fLen : List FItem → Nat
  | [] => 0
  | .n _ :: r => fLen r + 1
  | .d _ _ :: r => fLen r
  | .w _ :: r => fLen r

theorem flat_append (a b : List Blk) : flat (a ++ b) = flat a ++ flat b := by
  induction a with
  | nil => rfl
  | cons h t ih => cases h <;> simp [flat, ih]

theorem fNucs_append (x : List Nuc) (a b : List FItem) : fNucs x (a ++ b) = fNucs x a ++ fNucs x b := by
  induction a with
  | nil => rfl
  | cons h t ih => cases h <;> simp [fNucs, ih]

theorem fDoms_append (wd : String × List Char) (a b : List FItem) : fDoms wd (a ++ b) = fDoms wd a ++ fDoms wd b := by
  induction a with
  | nil => rfl
  | cons h t ih => cases h <;> simp [fDoms, ih]

theorem fWild_append (a b : List FItem) : fWild (a ++ b) = (fWild a).or (fWild b) := by
  induction a with
  | nil => simp [fWild]
  | cons h t ih => cases h <;> simp [fWild, ih]

theorem fLen_append (a b : List FItem) : fLen (a ++ b) = fLen a + fLen b := by
  induction a with
  | nil => simp [fLen]
  | cons h t ih => cases h <;> simp [fLen, ih] <;> omega

theorem fNucs_n (x s : List Nuc) : fNucs x (s.map .n) = s := by
  induction s with
  | nil => rfl
  | cons h t ih => simp [fNucs, ih]
theorem fDoms_n (wd : String × List Char) (s : List Nuc) : fDoms wd (s.map .n) = [] := by
  induction s with
  | nil => rfl
  | cons h t ih => simp [fDoms, ih]
theorem fWild_n (s : List Nuc) : fWild (s.map .n) = none := by
  induction s with
  | nil => rfl
  | cons h t ih => simp [fWild, ih]
theorem fLen_n (s : List Nuc) : fLen (s.map .n) = s.length := by
  induction s with
  | nil => rfl
  | cons h t ih => simp [fLen, ih]

theorem fillSegs_flat (x : List Nuc) : ∀ bs : List Blk, (fillSegs x bs).flatten = fNucs x (flat bs)
  | [] => rfl
  | .plain s :: r => by simp [fillSegs, flat, fNucs_append, fNucs_n, fillSegs_flat x r]
  | .anon nm c s :: r => by simp [fillSegs, flat, fNucs, fNucs_append, fNucs_n, fillSegs_flat x r]
  | .wild p :: r => by simp [fillSegs, flat, fNucs, fillSegs_flat x r]

theorem segs_flat : ∀ bs : List Blk, (bs.map Blk.seg).flatten = fNucs [] (flat bs)
  | [] => rfl
  | .plain s :: r => by simp [Blk.seg, flat, fNucs_append, fNucs_n, segs_flat r]
  | .anon nm c s :: r => by simp [Blk.seg, flat, fNucs, fNucs_append, fNucs_n, segs_flat r]
  | .wild p :: r => by simp [Blk.seg, flat, fNucs, segs_flat r]

theorem fillDoms_flat (wd : String × List Char) : ∀ bs : List Blk, fillDoms wd bs = fDoms wd (flat bs)
  | [] => rfl
  | .plain s :: r => by simp [fillDoms, flat, fDoms_append, fDoms_n, fillDoms_flat wd r]
  | .anon nm c s :: r => by simp [fillDoms, flat, fDoms, fDoms_append, fDoms_n, fillDoms_flat wd r]
  | .wild p :: r => by simp [fillDoms, flat, fDoms, fillDoms_flat wd r]

theorem wildParts_flat : ∀ bs : List Blk, wildParts bs = fWild (flat bs)
  | [] => rfl
  | .plain s :: r => by simp [wildParts, flat, fWild_append, fWild_n, wildParts_flat r]
  | .anon nm c s :: r => by simp [wildParts, flat, fWild, fWild_append, fWild_n, wildParts_flat r]
  | .wild p :: r => by simp [wildParts, flat, fWild]

theorem fixedLen_flat : ∀ bs : List Blk, fixedLen bs = fLen (flat bs)
  | [] => rfl
  | .plain s :: r => by
    have := fixedLen_flat r
    simp only [fixedLen, List.map_map] at this
    simp [fixedLen, Blk.seg, flat, fLen_append, fLen_n, this]
  | .anon nm c s :: r => by
    have := fixedLen_flat r
    simp only [fixedLen, List.map_map] at this
    simp [fixedLen, Blk.seg, flat, fLen, fLen_append, fLen_n, this]
  | .wild p :: r => by
    have := fixedLen_flat r
    simp only [fixedLen, List.map_map] at this
    simp [fixedLen, Blk.seg, flat, fLen, this]

theorem wildParts_none_iff (bs : List Blk) : wildParts bs = none ↔ hasWild bs = false := by
  induction bs with
  | nil => simp [wildParts, hasWild]
  | cons h t ih => cases h <;> simp_all [wildParts, hasWild, Blk.isWild]

/-- a region result with the segmentation forgotten -/
def flat3 (r : List (List Nuc) × List (String × List Char) × Nat) : List Nuc × List (String × List Char) × Nat :=
  (r.1.flatten, r.2.1, r.2.2)

def finishF (pfx : String) (fl : List FItem) (n : Nat) (length : Option Nat) :
    Except Denote.Err (List Nuc × List (String × List Char) × Nat) :=
  match fWild fl with
  | none =>
    match length with
    | some l => if l != fLen fl then .error .length else .ok (fNucs [] fl, fDoms ("", []) fl, n)
    | none => .ok (fNucs [] fl, fDoms ("", []) fl, n)
  | some parts =>
    match length with
    | none => .error .wildcard
    | some l =>
      if l < fLen fl then .error .length
      else match resolve parts (some (l - fLen fl)) with
        | .error _ => .error .length
        | .ok (wl, c) =>
          .ok (fNucs (fwd (pfx ++ "_Anon" ++ toString n) wl) fl, fDoms (pfx ++ "_Anon" ++ toString n, c) fl, n + 1)

theorem finishB_flat (pfx : String) (bs : List Blk) (n : Nat) (length : Option Nat) :
    (finishB pfx bs n length).map flat3 = finishF pfx (flat bs) n length := by
  unfold finishB finishF
  rw [← wildParts_flat, ← fixedLen_flat]
  cases hw : wildParts bs with
  | none =>
    have hn := (wildParts_none_iff bs).1 hw
    obtain ⟨_, _, fd⟩ := noWild_facts bs hn
    have e1 : domsOf bs = fDoms ("", []) (flat bs) := by rw [← fillDoms_flat, fd]
    cases length with
    | none => simp [Except.map, flat3, segs_flat, e1]
    | some l =>
      dsimp only
      split
      · rfl
      · simp [Except.map, flat3, segs_flat, e1]
  | some parts =>
    cases length with
    | none => rfl
    | some l =>
      dsimp only
      split
      · rfl
      · cases resolve parts (some (l - fixedLen bs)) with
        | error e => rfl
        | ok r =>
          obtain ⟨wl, c⟩ := r
          simp [Except.map, flat3, fillSegs_flat, fillDoms_flat]

/-- `denoteRegion` with the segmentation forgotten, index-free -/
theorem denoteRegion_flat (pfx : String) (env : Env) (items : List SrcItem) (length : Option Nat) :
    (denoteRegion pfx env items length).map flat3 =
      match blocks pfx env items env.anon false with
      | .error e => .error e
      | .ok p => finishF pfx (flat p.1) p.2 length := by
  rw [denoteRegion_eq_blocks]
  cases blocks pfx env items env.anon false with
  | error e => rfl
  | ok p => exact finishB_flat pfx p.1 p.2 length

/-! ### renaming domains -/

def rnNuc (ρ : String → String) (x : Nuc) : Nuc := ⟨⟨ρ x.var.dom, x.var.idx⟩, x.comp⟩
def rnSeg (ρ : String → String) (s : List Nuc) : List Nuc := s.map (rnNuc ρ)
def rnF (ρ : String → String) : FItem → FItem
  | .n x => .n (rnNuc ρ x)
  | .d nm c => .d (ρ nm) c
  | .w p => .w p

theorem rnSeg_rc (ρ : String → String) (s : List Nuc) : rnSeg ρ (rc s) = rc (rnSeg ρ s) := by
  simp [rnSeg, rc, List.map_reverse, Function.comp_def, rnNuc, Nuc.flip]

theorem rnSeg_fwd (ρ : String → String) (nm : String) (l : Nat) : rnSeg ρ (fwd nm l) = fwd (ρ nm) l := by
  simp [rnSeg, fwd, rnNuc, Function.comp_def]

theorem rnSeg_append (ρ : String → String) (a b : List Nuc) : rnSeg ρ (a ++ b) = rnSeg ρ a ++ rnSeg ρ b := by
  simp [rnSeg]

theorem rnSeg_id (s : List Nuc) : rnSeg id s = s := by
  have : rnNuc id = id := by funext x; rfl
  simp [rnSeg, this]

theorem rcSegs_flatten (segs : List (List Nuc)) : (rcSegs segs).flatten = rc segs.flatten := by
  induction segs with
  | nil => rfl
  | cons h t ih =>
    simp only [rcSegs, List.reverse_cons, List.map_append, List.map_cons, List.map_nil, List.flatten_append,
      List.flatten_cons, List.flatten_nil, List.append_nil] at ih ⊢
    rw [ih]
    simp [rc, List.reverse_append]

theorem flat_plain (segs : List (List Nuc)) : flat (segs.map .plain) = segs.flatten.map .n := by
  induction segs with
  | nil => rfl
  | cons h t ih => simp [flat, ih]

theorem map_rnF_n (ρ : String → String) (s : List Nuc) : (s.map FItem.n).map (rnF ρ) = (rnSeg ρ s).map .n := by
  simp [rnSeg, rnF, Function.comp_def]

/-- `ρ` renumbers the anonymous domains under prefix `pfx` from `n0` on by `k` -/
def RenumP (ρ : String → String) (pfx : String) (n0 k : Nat) : Prop :=
  ∀ m, n0 ≤ m → ρ (pfx ++ "_Anon" ++ toString m) = pfx ++ "_Anon" ++ toString (m + k)

def BindRel (ρ : String → String) (b b' : Denote.Bind) : Prop :=
  b'.nucs = rnSeg ρ b.nucs ∧ b'.isSup = b.isSup ∧ b'.segs.flatten = rnSeg ρ b.segs.flatten

/-- two tables bind the same names, to the same nucleotides up to `ρ`; the segmentations may differ -/
def SeqsRel (ρ : String → String) (l l' : List (String × Denote.Bind)) : Prop :=
  ∀ x, match l.lookup x, l'.lookup x with
    | none, none => True
    | some b, some b' => BindRel ρ b b'
    | _, _ => False

theorem map_eq_error {ε α β} {f : α → β} {x : Except ε α} {e : ε} (h : x.map f = .error e) : x = .error e := by
  cases x with
  | error e' => simpa [Except.map] using h
  | ok a => simp [Except.map] at h

theorem map_eq_ok {ε α β} {f : α → β} {x : Except ε α} {y : β} (h : x.map f = .ok y) : ∃ z, x = .ok z ∧ f z = y := by
  cases x with
  | error e' => simp [Except.map] at h
  | ok a => exact ⟨a, rfl, by simpa [Except.map] using h⟩

/-- the blocks of an item list in two related environments, the second run with the counter shifted by `k`:
    same failure, or the same flattened blocks up to `ρ` and the counter shifted -/
theorem blocks_rel (pfx : String) {ρ : String → String} {n0 k : Nat} (hr : RenumP ρ pfx n0 k) (e e' : Env)
    (hs : SeqsRel ρ e.seqs e'.seqs) :
    ∀ (items : List SrcItem) (n : Nat) (w : Bool), n0 ≤ n →
      (blocks pfx e' items (n + k) w).map (fun p => (flat p.1, p.2)) =
        (blocks pfx e items n w).map (fun p => ((flat p.1).map (rnF ρ), p.2 + k))
  | [], n, w, _ => by simp [blocks, Except.map, flat]
  | .ref x star :: r, n, w, hn => by
    have ih := blocks_rel pfx hr e e' hs r n w hn
    have hx := hs x
    simp only [blocks]
    cases h1 : e.seqs.lookup x with
    | none =>
      cases h2 : e'.seqs.lookup x with
      | none => rfl
      | some b' => simp [h1, h2] at hx
    | some b =>
      cases h2 : e'.seqs.lookup x with
      | none => simp [h1, h2] at hx
      | some b' =>
        simp only [h1, h2] at hx
        obtain ⟨hnuc, _, _⟩ := hx
        dsimp only
        cases hb : blocks pfx e r n w with
        | error err =>
          rw [hb] at ih
          rw [map_eq_error ih]
          rfl
        | ok p =>
          rw [hb] at ih
          obtain ⟨p', hp', hf⟩ := map_eq_ok ih
          rw [hp']
          simp only [Prod.mk.injEq] at hf
          have hseg : (if star then rc b'.nucs else b'.nucs) = rnSeg ρ (if star then rc b.nucs else b.nucs) := by
            cases star <;> simp [hnuc, rnSeg_rc]
          simp only [Except.map, flat, hseg, hf.1, hf.2, List.map_append, map_rnF_n]
  | .domains x star :: r, n, w, hn => by
    have ih := blocks_rel pfx hr e e' hs r n w hn
    have hx := hs x
    simp only [blocks]
    cases h1 : e.seqs.lookup x with
    | none =>
      cases h2 : e'.seqs.lookup x with
      | none => rfl
      | some b' => simp [h1, h2] at hx
    | some b =>
      cases h2 : e'.seqs.lookup x with
      | none => simp [h1, h2] at hx
      | some b' =>
        simp only [h1, h2] at hx
        obtain ⟨_, hsup, hsegs⟩ := hx
        dsimp only
        rw [hsup]
        split
        · rfl
        · cases hb : blocks pfx e r n w with
          | error err =>
            rw [hb] at ih
            rw [map_eq_error ih]
            rfl
          | ok p =>
            rw [hb] at ih
            obtain ⟨p', hp', hf⟩ := map_eq_ok ih
            rw [hp']
            simp only [Prod.mk.injEq] at hf
            have hseg : (if star then rcSegs b'.segs else b'.segs).flatten =
                rnSeg ρ (if star then rcSegs b.segs else b.segs).flatten := by
              cases star <;> simp [hsegs, rcSegs_flatten, rnSeg_rc]
            simp only [Except.map, flat_append, flat_plain, hseg, hf.1, hf.2, List.map_append, map_rnF_n]
  | .nuc text :: r, n, w, hn => by
    simp only [blocks]
    split
    · rename_i l c _
      have ih := blocks_rel pfx hr e e' hs r (n + 1) w (Nat.le_succ_of_le hn)
      have e1 : n + k + 1 = n + 1 + k := by omega
      rw [e1]
      cases hb : blocks pfx e r (n + 1) w with
      | error err =>
        rw [hb] at ih
        rw [map_eq_error ih]
        rfl
      | ok p =>
        rw [hb] at ih
        obtain ⟨p', hp', hf⟩ := map_eq_ok ih
        rw [hp']
        simp only [Prod.mk.injEq] at hf
        simp only [Except.map, flat, hf.1, hf.2, List.map_cons, List.map_append, map_rnF_n, rnF, rnSeg_fwd, hr n hn]
    · cases w with
      | true => rfl
      | false =>
        have ih := blocks_rel pfx hr e e' hs r n true hn
        simp only [Bool.false_eq_true, if_false]
        cases hb : blocks pfx e r n true with
        | error err =>
          rw [hb] at ih
          rw [map_eq_error ih]
          rfl
        | ok p =>
          rw [hb] at ih
          obtain ⟨p', hp', hf⟩ := map_eq_ok ih
          rw [hp']
          simp only [Prod.mk.injEq] at hf
          simp only [Except.map, flat, hf.1, hf.2, List.map_cons, rnF]
    · rfl

theorem blocks_counter_le (pfx : String) (env : Env) :
    ∀ (items : List SrcItem) (n : Nat) (w : Bool) {bs : List Blk} {n' : Nat},
      blocks pfx env items n w = .ok (bs, n') → n ≤ n'
  | [], n, w, bs, n', h => by
    simp only [blocks, Except.ok.injEq, Prod.mk.injEq] at h
    omega
  | .ref x star :: r, n, w, bs, n', h => by
    simp only [blocks] at h
    cases hl : env.seqs.lookup x with
    | none => simp [hl] at h
    | some b =>
      simp only [hl] at h
      cases hb : blocks pfx env r n w with
      | error e => simp [hb] at h
      | ok p =>
        simp only [hb, Except.ok.injEq, Prod.mk.injEq] at h
        have := blocks_counter_le pfx env r n w (bs := p.1) (n' := p.2) hb
        omega
  | .domains x star :: r, n, w, bs, n', h => by
    simp only [blocks] at h
    cases hl : env.seqs.lookup x with
    | none => simp [hl] at h
    | some b =>
      simp only [hl] at h
      split at h
      · cases h
      · cases hb : blocks pfx env r n w with
        | error e => simp [hb] at h
        | ok p =>
          simp only [hb, Except.ok.injEq, Prod.mk.injEq] at h
          have := blocks_counter_le pfx env r n w (bs := p.1) (n' := p.2) hb
          omega
  | .nuc text :: r, n, w, bs, n', h => by
    simp only [blocks] at h
    split at h
    · cases hb : blocks pfx env r (n + 1) w with
      | error e => simp [hb] at h
      | ok p =>
        simp only [hb, Except.ok.injEq, Prod.mk.injEq] at h
        have := blocks_counter_le pfx env r (n + 1) w (bs := p.1) (n' := p.2) hb
        omega
    · cases w with
      | true => simp at h
      | false =>
        simp only [Bool.false_eq_true, if_false] at h
        cases hb : blocks pfx env r n true with
        | error e => simp [hb] at h
        | ok p =>
          simp only [hb, Except.ok.injEq, Prod.mk.injEq] at h
          have := blocks_counter_le pfx env r n true (bs := p.1) (n' := p.2) hb
          omega
    · cases h

/-- a flattened region result renamed, the counter shifted -/
def rn3 (ρ : String → String) (k : Nat) (r : List Nuc × List (String × List Char) × Nat) :
    List Nuc × List (String × List Char) × Nat :=
  (rnSeg ρ r.1, r.2.1.map (fun d => (ρ d.1, d.2)), r.2.2 + k)

theorem fNucs_rn (ρ : String → String) (x : List Nuc) (fl : List FItem) :
    fNucs (rnSeg ρ x) (fl.map (rnF ρ)) = rnSeg ρ (fNucs x fl) := by
  induction fl with
  | nil => rfl
  | cons h t ih => cases h <;> simp_all [fNucs, rnF, rnSeg]

theorem fDoms_rn (ρ : String → String) (wd : String × List Char) (fl : List FItem) :
    fDoms (ρ wd.1, wd.2) (fl.map (rnF ρ)) = (fDoms wd fl).map (fun d => (ρ d.1, d.2)) := by
  induction fl with
  | nil => rfl
  | cons h t ih => cases h <;> simp_all [fDoms, rnF]

theorem fWild_rn (ρ : String → String) (fl : List FItem) : fWild (fl.map (rnF ρ)) = fWild fl := by
  induction fl with
  | nil => rfl
  | cons h t ih => cases h <;> simp_all [fWild, rnF]

theorem fLen_rn (ρ : String → String) (fl : List FItem) : fLen (fl.map (rnF ρ)) = fLen fl := by
  induction fl with
  | nil => rfl
  | cons h t ih => cases h <;> simp_all [fLen, rnF]

theorem fDoms_irrel (wd wd' : String × List Char) (fl : List FItem) (h : fWild fl = none) :
    fDoms wd fl = fDoms wd' fl := by
  induction fl with
  | nil => rfl
  | cons x t ih => cases x <;> simp_all [fDoms, fWild]

theorem finishF_rn (pfx : String) (ρ : String → String) (k n : Nat)
    (hn : ρ (pfx ++ "_Anon" ++ toString n) = pfx ++ "_Anon" ++ toString (n + k)) (fl : List FItem) (length : Option Nat) :
    finishF pfx (fl.map (rnF ρ)) (n + k) length = (finishF pfx fl n length).map (rn3 ρ k) := by
  unfold finishF
  rw [fWild_rn, fLen_rn]
  cases hw : fWild fl with
  | none =>
    have e0 : fNucs [] (fl.map (rnF ρ)) = rnSeg ρ (fNucs [] fl) := fNucs_rn ρ [] fl
    have e1 : fDoms ("", []) (fl.map (rnF ρ)) = (fDoms ("", []) fl).map (fun d => (ρ d.1, d.2)) := by
      rw [fDoms_irrel ("", []) (ρ "", []) _ (by rw [fWild_rn]; exact hw)]
      exact fDoms_rn ρ ("", []) fl
    cases length with
    | none => simp [Except.map, rn3, e0, e1]
    | some l =>
      dsimp only
      split
      · rfl
      · simp [Except.map, rn3, e0, e1]
  | some parts =>
    cases length with
    | none => rfl
    | some l =>
      dsimp only
      split
      · rfl
      · cases resolve parts (some (l - fLen fl)) with
        | error e => rfl
        | ok r =>
          obtain ⟨wl, c⟩ := r
          have e0 := fNucs_rn ρ (fwd (pfx ++ "_Anon" ++ toString n) wl) fl
          have e1 := fDoms_rn ρ (pfx ++ "_Anon" ++ toString n, c) fl
          rw [rnSeg_fwd, hn] at e0
          simp only [hn] at e1
          simp only [Except.map, rn3, e0, e1]
          congr 3
          omega

/-- two related environments, the second with the counter shifted by `k`: `denoteRegion` fails alike or
    yields the same nucleotides and new domains up to `ρ` and the counter shifted -/
theorem denoteRegion_rel (pfx : String) {ρ : String → String} {k : Nat} (e e' : Env)
    (hr : RenumP ρ pfx e.anon k) (hs : SeqsRel ρ e.seqs e'.seqs) (ha : e'.anon = e.anon + k)
    (items : List SrcItem) (length : Option Nat) :
    (denoteRegion pfx e' items length).map flat3 =
      (denoteRegion pfx e items length).map (fun r => rn3 ρ k (flat3 r)) := by
  have hcomp : (denoteRegion pfx e items length).map (fun r => rn3 ρ k (flat3 r)) =
      ((denoteRegion pfx e items length).map flat3).map (rn3 ρ k) := by
    cases denoteRegion pfx e items length <;> rfl
  rw [hcomp, denoteRegion_flat, denoteRegion_flat, ha]
  have hb := blocks_rel pfx hr e e' hs items e.anon false (Nat.le_refl _)
  cases h1 : blocks pfx e items e.anon false with
  | error err =>
    rw [h1] at hb
    rw [map_eq_error hb]
    rfl
  | ok p =>
    rw [h1] at hb
    obtain ⟨p', hp', hf⟩ := map_eq_ok hb
    rw [hp']
    simp only [Prod.mk.injEq] at hf
    dsimp only
    rw [hf.1, hf.2]
    exact finishF_rn pfx ρ k p.2 (hr p.2 (blocks_counter_le pfx e items e.anon false h1)) (flat p.1) length

/-! ### inserting a zero-length quoted region -/

/-- number of quoted regions of fixed length (no wildcard) in an item list: the anonymous names it consumes -/
def fixedNucs : List SrcItem → Nat
  | [] => 0
  | .nuc text :: r => (match resolve (parseQuoted text) none with | .ok _ => 1 | .error _ => 0) + fixedNucs r
  | .ref _ _ :: r => fixedNucs r
  | .domains _ _ :: r => fixedNucs r

theorem blocks_counter (pfx : String) (env : Env) :
    ∀ (items : List SrcItem) (n : Nat) (w : Bool) {bs : List Blk} {n' : Nat},
      blocks pfx env items n w = .ok (bs, n') → n' = n + fixedNucs items
  | [], n, w, bs, n', h => by
    simp only [blocks, Except.ok.injEq, Prod.mk.injEq] at h
    simp [fixedNucs]; omega
  | .ref x star :: r, n, w, bs, n', h => by
    simp only [blocks] at h
    cases hl : env.seqs.lookup x with
    | none => simp [hl] at h
    | some b =>
      simp only [hl] at h
      cases hb : blocks pfx env r n w with
      | error e => simp [hb] at h
      | ok p =>
        simp only [hb, Except.ok.injEq, Prod.mk.injEq] at h
        have := blocks_counter pfx env r n w (bs := p.1) (n' := p.2) hb
        simp only [fixedNucs]; omega
  | .domains x star :: r, n, w, bs, n', h => by
    simp only [blocks] at h
    cases hl : env.seqs.lookup x with
    | none => simp [hl] at h
    | some b =>
      simp only [hl] at h
      split at h
      · cases h
      · cases hb : blocks pfx env r n w with
        | error e => simp [hb] at h
        | ok p =>
          simp only [hb, Except.ok.injEq, Prod.mk.injEq] at h
          have := blocks_counter pfx env r n w (bs := p.1) (n' := p.2) hb
          simp only [fixedNucs]; omega
  | .nuc text :: r, n, w, bs, n', h => by
    simp only [blocks] at h
    split at h
    · rename_i l c hres
      cases hb : blocks pfx env r (n + 1) w with
      | error e => simp [hb] at h
      | ok p =>
        simp only [hb, Except.ok.injEq, Prod.mk.injEq] at h
        have := blocks_counter pfx env r (n + 1) w (bs := p.1) (n' := p.2) hb
        simp only [fixedNucs, hres]; omega
    · rename_i hres
      cases w with
      | true => simp at h
      | false =>
        simp only [Bool.false_eq_true, if_false] at h
        cases hb : blocks pfx env r n true with
        | error e => simp [hb] at h
        | ok p =>
          simp only [hb, Except.ok.injEq, Prod.mk.injEq] at h
          have := blocks_counter pfx env r n true (bs := p.1) (n' := p.2) hb
          simp only [fixedNucs, hres]; omega
    · cases h

/-- a renaming that fixes what the environment binds and the anonymous names a run creates fixes its blocks -/
theorem blocks_fixed (pfx : String) {ρ : String → String} (e : Env) (hs : SeqsRel ρ e.seqs e.seqs) :
    ∀ (items : List SrcItem) (n : Nat) (w : Bool) {bs : List Blk} {n' : Nat},
      blocks pfx e items n w = .ok (bs, n') →
      (∀ m, n ≤ m → m < n' → ρ (pfx ++ "_Anon" ++ toString m) = pfx ++ "_Anon" ++ toString m) →
      (flat bs).map (rnF ρ) = flat bs
  | [], n, w, bs, n', h, _ => by
    simp only [blocks, Except.ok.injEq, Prod.mk.injEq] at h
    obtain ⟨rfl, _⟩ := h
    rfl
  | .ref x star :: r, n, w, bs, n', h, hfix => by
    simp only [blocks] at h
    have hx := hs x
    cases hl : e.seqs.lookup x with
    | none => simp [hl] at h
    | some b =>
      simp only [hl] at h hx
      cases hb : blocks pfx e r n w with
      | error e => simp [hb] at h
      | ok p =>
        simp only [hb, Except.ok.injEq, Prod.mk.injEq] at h
        obtain ⟨rfl, rfl⟩ := h
        have ih := blocks_fixed pfx e hs r n w (bs := p.1) (n' := p.2) hb hfix
        have hseg : rnSeg ρ (if star then rc b.nucs else b.nucs) = (if star then rc b.nucs else b.nucs) := by
          cases star <;> simp [rnSeg_rc, ← hx.1]
        simp only [flat, List.map_append, map_rnF_n, hseg, ih]
  | .domains x star :: r, n, w, bs, n', h, hfix => by
    simp only [blocks] at h
    have hx := hs x
    cases hl : e.seqs.lookup x with
    | none => simp [hl] at h
    | some b =>
      simp only [hl] at h hx
      split at h
      · cases h
      · cases hb : blocks pfx e r n w with
        | error e => simp [hb] at h
        | ok p =>
          simp only [hb, Except.ok.injEq, Prod.mk.injEq] at h
          obtain ⟨rfl, rfl⟩ := h
          have ih := blocks_fixed pfx e hs r n w (bs := p.1) (n' := p.2) hb hfix
          have hseg : rnSeg ρ (if star then rcSegs b.segs else b.segs).flatten =
              (if star then rcSegs b.segs else b.segs).flatten := by
            cases star <;> simp [rcSegs_flatten, rnSeg_rc, ← hx.2.2]
          simp only [flat_append, flat_plain, List.map_append, map_rnF_n, hseg, ih]
  | .nuc text :: r, n, w, bs, n', h, hfix => by
    simp only [blocks] at h
    split at h
    · cases hb : blocks pfx e r (n + 1) w with
      | error e => simp [hb] at h
      | ok p =>
        simp only [hb, Except.ok.injEq, Prod.mk.injEq] at h
        obtain ⟨rfl, rfl⟩ := h
        have hle := blocks_counter_le pfx e r (n + 1) w (bs := p.1) (n' := p.2) hb
        have ih := blocks_fixed pfx e hs r (n + 1) w (bs := p.1) (n' := p.2) hb
          (fun m h1 h2 => hfix m (by omega) h2)
        have hn := hfix n (Nat.le_refl _) (by omega)
        simp only [flat, List.map_cons, List.map_append, map_rnF_n, rnF, rnSeg_fwd, hn, ih]
    · cases w with
      | true => simp at h
      | false =>
        simp only [Bool.false_eq_true, if_false] at h
        cases hb : blocks pfx e r n true with
        | error e => simp [hb] at h
        | ok p =>
          simp only [hb, Except.ok.injEq, Prod.mk.injEq] at h
          obtain ⟨rfl, rfl⟩ := h
          have ih := blocks_fixed pfx e hs r n true (bs := p.1) (n' := p.2) hb hfix
          simp only [flat, List.map_cons, rnF, ih]
    · cases h

/-- a flattened region result without its zero-length new domains (what `withNewDomains` keeps) -/
def nz3 (r : List Nuc × List (String × List Char) × Nat) : List Nuc × List (String × List Char) × Nat :=
  (r.1, r.2.1.filter (fun d => d.2.length != 0), r.2.2)

theorem finishF_insert_zero_dom (pfx : String) (fa fb : List FItem) (nm : String) (n : Nat) (length : Option Nat) :
    (finishF pfx (fa ++ .d nm [] :: fb) n length).map nz3 = (finishF pfx (fa ++ fb) n length).map nz3 := by
  have hw : fWild (fa ++ .d nm [] :: fb) = fWild (fa ++ fb) := by simp [fWild_append, fWild]
  have hl : fLen (fa ++ .d nm [] :: fb) = fLen (fa ++ fb) := by simp [fLen_append, fLen]
  have hn : ∀ x, fNucs x (fa ++ .d nm [] :: fb) = fNucs x (fa ++ fb) := by intro x; simp [fNucs_append, fNucs]
  have hd : ∀ wd, (fDoms wd (fa ++ .d nm [] :: fb)).filter (fun d => d.2.length != 0) =
      (fDoms wd (fa ++ fb)).filter (fun d => d.2.length != 0) := by
    intro wd; simp [fDoms_append, fDoms, List.filter_cons]
  unfold finishF
  rw [hw, hl]
  cases fWild (fa ++ fb) with
  | none =>
    cases length with
    | none => simp [Except.map, nz3, hn, hd]
    | some l =>
      dsimp only
      split
      · rfl
      · simp [Except.map, nz3, hn, hd]
  | some parts =>
    cases length with
    | none => rfl
    | some l =>
      dsimp only
      split
      · rfl
      · cases resolve parts (some (l - fLen (fa ++ fb))) with
        | error e => rfl
        | ok r =>
          obtain ⟨wl, c⟩ := r
          simp [Except.map, nz3, hn, hd]

/-- (a), quoted region: inserting a zero-length quoted region at position `i` consumes one more anonymous
    name; up to the renumbering `ρ` of the later ones the outcome is unchanged: same error, or the same
    nucleotides, the same non-empty new domains, the counter one higher.  `ρ` is any renaming that fixes what
    the environment binds (`SeqsRel ρ env.seqs env.seqs`) and the anonymous names created before the
    insertion point, and maps `_Anon m ↦ _Anon (m+1)` from the insertion point on. -/
theorem denoteRegion_insert_quoted (pfx : String) (env : Env) (items : List SrcItem) (i : Nat) (text : List Char)
    (length : Option Nat) (hq : resolve (parseQuoted text) none = .ok (0, []))
    {ρ : String → String} (hs : SeqsRel ρ env.seqs env.seqs)
    (hlt : ∀ m, m < env.anon + fixedNucs (items.take i) → ρ (pfx ++ "_Anon" ++ toString m) = pfx ++ "_Anon" ++ toString m)
    (hr : RenumP ρ pfx (env.anon + fixedNucs (items.take i)) 1) :
    (denoteRegion pfx env (items.take i ++ [.nuc text] ++ items.drop i) length).map (fun r => nz3 (flat3 r)) =
      (denoteRegion pfx env items length).map (fun r => nz3 (rn3 ρ 1 (flat3 r))) := by
  have hc1 : ∀ x : Except Denote.Err (List (List Nuc) × List (String × List Char) × Nat),
      x.map (fun r => nz3 (flat3 r)) = (x.map flat3).map nz3 := by intro x; cases x <;> rfl
  have hc2 : ∀ x : Except Denote.Err (List (List Nuc) × List (String × List Char) × Nat),
      x.map (fun r => nz3 (rn3 ρ 1 (flat3 r))) = ((x.map flat3).map (rn3 ρ 1)).map nz3 := by intro x; cases x <;> rfl
  rw [hc1, hc2, denoteRegion_flat, denoteRegion_flat]
  have hsplit : blocks pfx env items env.anon false =
      blocks pfx env (items.take i ++ items.drop i) env.anon false := by rw [List.take_append_drop]
  rw [hsplit, List.append_assoc, blocks_append, blocks_append]
  cases hp : blocks pfx env (items.take i) env.anon false with
  | error e => rfl
  | ok p =>
    have hcnt := blocks_counter pfx env (items.take i) env.anon false (bs := p.1) (n' := p.2) hp
    rw [← hcnt] at hlt hr
    have hfixp := blocks_fixed pfx env hs (items.take i) env.anon false (bs := p.1) (n' := p.2) hp
      (fun m _ h2 => hlt m h2)
    simp only [List.singleton_append, blocks, hq]
    have hrel := blocks_rel pfx hr env env hs (items.drop i) p.2 (false || hasWild p.1) (Nat.le_refl _)
    cases hq2 : blocks pfx env (items.drop i) p.2 (false || hasWild p.1) with
    | error err =>
      rw [hq2] at hrel
      rw [map_eq_error hrel]
      rfl
    | ok q =>
      rw [hq2] at hrel
      obtain ⟨q', hq', hf⟩ := map_eq_ok hrel
      rw [hq']
      simp only [Prod.mk.injEq] at hf
      dsimp only
      have hfl : flat (p.1 ++ Blk.anon (pfx ++ "_Anon" ++ toString p.2) [] (fwd (pfx ++ "_Anon" ++ toString p.2) 0) :: q'.1) =
          (flat p.1).map (rnF ρ) ++ FItem.d (pfx ++ "_Anon" ++ toString p.2) [] :: (flat q.1).map (rnF ρ) := by
        rw [flat_append, hfixp]
        simp [flat, fwd, hf.1]
      rw [hfl, finishF_insert_zero_dom, ← List.map_append, ← flat_append, hf.2]
      rw [finishF_rn pfx ρ 1 q.2 (hr q.2 (blocks_counter_le pfx env (items.drop i) p.2 _ hq2))]

/-! ### statements: unfolding equations -/

def seqResult (pfx : String) (env : Env) (o : Out) (name : String)
    (r : List (List Nuc) × List (String × List Char) × Nat) : Env × Out :=
  ({ env with seqs := env.seqs ++ [(name, ⟨r.1.flatten, r.1, true⟩)], anon := r.2.2 },
   if r.1.flatten.isEmpty then withNewDomains o r.2.1
   else { withNewDomains o r.2.1 with supSeqs := (withNewDomains o r.2.1).supSeqs ++ [(pfx ++ name, r.1.flatten)] })

def strandResult (pfx : String) (env : Env) (o : Out) (dummy : Bool) (name : String)
    (r : List (List Nuc) × List (String × List Char) × Nat) : Env × Out :=
  ({ env with strands := env.strands ++ [(name, r.1.flatten, r.1)], anon := r.2.2 },
   { withNewDomains o r.2.1 with strands := (withNewDomains o r.2.1).strands ++ [(pfx ++ name, dummy, r.1.flatten)] })

def atomResult (pfx : String) (env : Env) (o : Out) (name : String) (l : Nat) (c : List Char) : Env × Out :=
  ({ env with seqs := env.seqs ++ [(name, ⟨fwd (pfx ++ name) l, [fwd (pfx ++ name) l], false⟩)] },
   if l == 0 then o else { o with domains := o.domains ++ [(pfx ++ name, c)],
                                  baseSeqs := o.baseSeqs ++ [(pfx ++ name, fwd (pfx ++ name) l)] })

theorem denoteStmt_atom (pfx : String) (env : Env) (o : Out) (name : String) (text : List Char) (len : Option Nat) :
    denoteStmt pfx env o (.seq name [.nuc text] len) =
      if (env.seqs.lookup name).isSome then .error .duplicate else
      match resolve (parseQuoted text) len with
      | .error _ => .error .length
      | .ok (l, c) => .ok (atomResult pfx env o name l c) := by
  rw [denoteStmt]
  rfl

theorem denoteStmt_seq (pfx : String) (env : Env) (o : Out) (name : String) (items : List SrcItem) (len : Option Nat)
    (h : ∀ t, items ≠ [.nuc t]) :
    denoteStmt pfx env o (.seq name items len) =
      if (env.seqs.lookup name).isSome then .error .duplicate else
      match denoteRegion pfx env items len with
      | .error e => .error e
      | .ok r => .ok (seqResult pfx env o name r) := by
  unfold denoteStmt
  split
  · rename_i heq
    injection heq with _ h2 _
    exact absurd h2 (h _)
  · rename_i heq
    injection heq with h1 h2 h3
    subst h1 h2 h3
    by_cases hd : (List.lookup name env.seqs).isSome = true
    · simp [hd, throw, throwThe, MonadExceptOf.throw, bind, Except.bind]
    · simp only [hd, Bool.false_eq_true, if_false, bind, Except.bind]
      cases denoteRegion pfx env items len with
      | error e => rfl
      | ok r => rfl
  all_goals (rename_i heq; cases heq)

theorem denoteStmt_strand (pfx : String) (env : Env) (o : Out) (dummy : Bool) (name : String) (items : List SrcItem)
    (len : Option Nat) :
    denoteStmt pfx env o (.strand dummy name items len) =
      if (env.strands.lookup name).isSome then .error .duplicate else
      match denoteRegion pfx env items len with
      | .error e => .error e
      | .ok r => if r.1.flatten.isEmpty then .error .zeroStrand else .ok (strandResult pfx env o dummy name r) := by
  rw [denoteStmt]
  by_cases hd : (List.lookup name env.strands).isSome = true
  · simp [hd, throw, throwThe, MonadExceptOf.throw, bind, Except.bind]
  · simp only [hd, Bool.false_eq_true, if_false, bind, Except.bind]
    cases denoteRegion pfx env items len with
    | error e => rfl
    | ok r =>
      obtain ⟨segs, doms, anon⟩ := r
      dsimp only
      by_cases hz : segs.flatten.isEmpty = true
      · simp [hz, throw, throwThe, MonadExceptOf.throw]
      · simp only [hz, Bool.false_eq_true, if_false]
        rfl

def lookupStrand (env : Env) (n : String) : Except Denote.Err (List Nuc × List (List Nuc)) :=
  match env.strands.lookup n with
  | some x => pure x
  | none => throw .undefined

def lookupStrands (env : Env) (l : List String) : Except Denote.Err (List (List Nuc × List (List Nuc))) :=
  l.mapM (lookupStrand env)

theorem lookupStrands_canon (env : Env) (l : List String)
    (f : String → Except Denote.Err (List Nuc × List (List Nuc)))
    (h : ∀ n, f n = lookupStrand env n) : List.mapM f l = lookupStrands env l := by
  unfold lookupStrands; rw [funext h]

/-- what a non-domain-level structure statement adds, given the strands it names -/
def structOut (pfx : String) (o : Out) (opt : OptSrc) (name : String) (strands : List String) (text : List Char)
    (objs : List (List Nuc × List (List Nuc))) : Except Denote.Err Out :=
  match Notation.compileStruct text with
  | none => .error .notation
  | some dp =>
    if !Notation.sizesOk dp (objs.map (fun x => x.1.length)) then .error .length
    else match optOf opt with
      | .error e => .error e
      | .ok ov => .ok { o with structs := o.structs ++ [⟨pfx ++ name, strands.map (pfx ++ ·), dp, ov⟩] }

theorem denoteStmt_struct_plain (pfx : String) (env : Env) (o : Out) (opt : OptSrc) (name : String)
    (strands : List String) (text : List Char) :
    denoteStmt pfx env o (.struct opt name strands false text) =
      if o.structs.any (·.name == pfx ++ name) then .error .duplicate else
      match lookupStrands env strands with
      | .error e => .error e
      | .ok objs =>
        match structOut pfx o opt name strands text objs with
        | .error e => .error e
        | .ok o' => .ok (env, o') := by
  rw [denoteStmt]
  simp (disch := (intro n; unfold lookupStrand; cases List.lookup n env.strands <;> rfl)) only
    [lookupStrands_canon env]
  by_cases hd : (o.structs.any fun x => x.name == pfx ++ name) = true
  · simp [hd, throw, throwThe, MonadExceptOf.throw, bind, Except.bind]
  · simp only [hd, Bool.false_eq_true, if_false, bind, Except.bind]
    cases lookupStrands env strands with
    | error e => rfl
    | ok objs =>
      simp only [structOut]
      cases Notation.compileStruct text with
      | none => rfl
      | some dp =>
        simp only [pure, Except.pure]
        by_cases hs : Notation.sizesOk dp (objs.map (fun x => x.1.length)) = true
        · simp only [hs, Bool.not_true, Bool.false_eq_true, if_false]
          cases optOf opt <;> rfl
        · simp [hs, throw, throwThe, MonadExceptOf.throw]

theorem denoteStmt_kinetic (pfx : String) (env : Env) (o : Out) (lo hi : Option String) (ins outs : List String) :
    denoteStmt pfx env o (.kinetic lo hi ins outs) =
      if !(ins ++ outs).all (fun n => o.structs.any (·.name == pfx ++ n)) then .error .undefined else
      match kinOf pfx lo hi ins outs with
      | .error e => .error e
      | .ok k => .ok (env, { o with kinetics := o.kinetics ++ [k] }) := by
  rw [denoteStmt]
  split
  · simp [throw, throwThe, MonadExceptOf.throw, bind, Except.bind]
  · simp only [bind, Except.bind]
    cases kinOf pfx lo hi ins outs <;> rfl

/-! ### simulation: two related environments run the same statements -/

def ExRel {ε α β} (R : α → β → Prop) : Except ε α → Except ε β → Prop
  | .error a, .error b => a = b
  | .ok a, .ok b => R a b
  | _, _ => False

/-- rename the domains an `Out` mentions: names of `domains`, names and nucleotides of atomic and
    super-sequences, nucleotides of strands (strand, structure names are in other name spaces) -/
def rnOut (ρ : String → String) (o : Out) : Out :=
  { domains := o.domains.map (fun d => (ρ d.1, d.2)),
    baseSeqs := o.baseSeqs.map (fun d => (ρ d.1, rnSeg ρ d.2)),
    supSeqs := o.supSeqs.map (fun d => (ρ d.1, rnSeg ρ d.2)),
    strands := o.strands.map (fun s => (s.1, s.2.1, rnSeg ρ s.2.2)),
    structs := o.structs, kinetics := o.kinetics }

def StrandsRel (ρ : String → String) (l l' : List (String × List Nuc × List (List Nuc))) : Prop :=
  ∀ x, match l.lookup x, l'.lookup x with
    | none, none => True
    | some t, some t' => t'.1 = rnSeg ρ t.1
    | _, _ => False

structure EnvRel (ρ : String → String) (k : Nat) (e e' : Env) : Prop where
  anon : e'.anon = e.anon + k
  seqs : SeqsRel ρ e.seqs e'.seqs
  strands : StrandsRel ρ e.strands e'.strands

def StRel (ρ : String → String) (k : Nat) (p q : Env × Out) : Prop := EnvRel ρ k p.1 q.1 ∧ q.2 = rnOut ρ p.2

/-- what the simulation needs of a statement: `ρ` fixes the full name of a sequence it defines; a structure
    is not domain-level (a domain-level structure counts the segments of its strands) -/
def stmtOk (ρ : String → String) (pfx : String) : Stmt → Prop
  | .seq name _ _ => ρ (pfx ++ name) = pfx ++ name
  | .struct _ _ _ domain _ => domain = false
  | _ => True

theorem SeqsRel.isSome {ρ : String → String} {l l' : List (String × Denote.Bind)} (h : SeqsRel ρ l l') (x : String) :
    (l'.lookup x).isSome = (l.lookup x).isSome := by
  have := h x
  cases h1 : l.lookup x <;> cases h2 : l'.lookup x <;> simp_all

theorem StrandsRel.isSome {ρ : String → String} {l l' : List (String × List Nuc × List (List Nuc))}
    (h : StrandsRel ρ l l') (x : String) : (l'.lookup x).isSome = (l.lookup x).isSome := by
  have := h x
  cases h1 : l.lookup x <;> cases h2 : l'.lookup x <;> simp_all

theorem SeqsRel.snoc {ρ : String → String} {l l' : List (String × Denote.Bind)} (h : SeqsRel ρ l l')
    (name : String) {b b' : Denote.Bind} (hb : BindRel ρ b b') : SeqsRel ρ (l ++ [(name, b)]) (l' ++ [(name, b')]) := by
  intro x
  have := h x
  simp only [List.lookup_append]
  cases h1 : l.lookup x <;> cases h2 : l'.lookup x <;> simp_all
  simp only [List.lookup]
  cases x == name <;> simp [hb]

theorem StrandsRel.snoc {ρ : String → String} {l l' : List (String × List Nuc × List (List Nuc))}
    (h : StrandsRel ρ l l') (name : String) {t t' : List Nuc × List (List Nuc)} (hb : t'.1 = rnSeg ρ t.1) :
    StrandsRel ρ (l ++ [(name, t)]) (l' ++ [(name, t')]) := by
  intro x
  have := h x
  simp only [List.lookup_append]
  cases h1 : l.lookup x <;> cases h2 : l'.lookup x <;> simp_all
  simp only [List.lookup]
  cases x == name <;> simp [hb]

theorem RenumP.mono {ρ : String → String} {pfx : String} {n0 n k : Nat} (h : RenumP ρ pfx n0 k) (hn : n0 ≤ n) :
    RenumP ρ pfx n k := fun m hm => h m (Nat.le_trans hn hm)

theorem rnOut_withNewDomains (ρ : String → String) (o : Out) (doms : List (String × List Char)) :
    withNewDomains (rnOut ρ o) (doms.map (fun d => (ρ d.1, d.2))) = rnOut ρ (withNewDomains o doms) := by
  simp [withNewDomains, rnOut, List.filter_map, Function.comp_def, rnSeg_fwd]

/-- the two regions, case by case -/
theorem region_cases (pfx : String) {ρ : String → String} {n0 k : Nat} (hr : RenumP ρ pfx n0 k) {e e' : Env}
    (he : EnvRel ρ k e e') (hn : n0 ≤ e.anon) (items : List SrcItem) (len : Option Nat) :
    ExRel (fun r r' => r'.1.flatten = rnSeg ρ r.1.flatten ∧ r'.2.1 = r.2.1.map (fun d => (ρ d.1, d.2)) ∧
                       r'.2.2 = r.2.2 + k)
      (denoteRegion pfx e items len) (denoteRegion pfx e' items len) := by
  have h := denoteRegion_rel pfx e e' (hr.mono hn) he.seqs he.anon items len
  cases h1 : denoteRegion pfx e items len with
  | error err =>
    rw [h1] at h
    rw [map_eq_error h]
    rfl
  | ok r =>
    rw [h1] at h
    obtain ⟨r', hr', hf⟩ := map_eq_ok h
    rw [hr']
    simp only [flat3, rn3, Prod.mk.injEq] at hf
    exact hf

theorem lookupStrands_rel {ρ : String → String}
    (e e' : Env) (h : StrandsRel ρ e.strands e'.strands) (strands : List String) :
    ExRel (fun objs objs' => objs'.map (fun x => x.1.length) = objs.map (fun x => x.1.length))
      (lookupStrands e strands) (lookupStrands e' strands) := by
  unfold lookupStrands
  induction strands with
  | nil => simp [List.mapM_nil, ExRel, pure, Except.pure]
  | cons x r ih =>
    simp only [List.mapM_cons, lookupStrand]
    have hx := h x
    cases h1 : e.strands.lookup x with
    | none =>
      cases h2 : e'.strands.lookup x with
      | none => simp [ExRel, throw, throwThe, MonadExceptOf.throw, bind, Except.bind]
      | some t' => simp [h1, h2] at hx
    | some t =>
      cases h2 : e'.strands.lookup x with
      | none => simp [h1, h2] at hx
      | some t' =>
        simp only [h1, h2] at hx
        simp only [pure, Except.pure, bind, Except.bind]
        cases h3 : List.mapM (lookupStrand e) r with
        | error err =>
          rw [h3] at ih
          cases h4 : List.mapM (lookupStrand e') r with
          | error err' => rw [h4] at ih; simpa [ExRel] using ih
          | ok v => rw [h4] at ih; simp [ExRel] at ih
        | ok v =>
          rw [h3] at ih
          cases h4 : List.mapM (lookupStrand e') r with
          | error err' => rw [h4] at ih; simp [ExRel] at ih
          | ok v' =>
            rw [h4] at ih
            simp only [ExRel] at ih ⊢
            simp [ih, hx, rnSeg]

theorem rnSeg_isEmpty (ρ : String → String) (s : List Nuc) : (rnSeg ρ s).isEmpty = s.isEmpty := by
  cases s <;> rfl

theorem rnSeg_length (ρ : String → String) (s : List Nuc) : (rnSeg ρ s).length = s.length := by
  simp [rnSeg]

/-- one statement in two related environments (`k`: shift of the anonymous counter, `ρ`: renaming) -/
theorem denoteStmt_rel (pfx : String) {ρ : String → String} {n0 k : Nat} (hr : RenumP ρ pfx n0 k) {e e' : Env}
    (o : Out) (he : EnvRel ρ k e e') (hn : n0 ≤ e.anon) (st : Stmt) (hst : stmtOk ρ pfx st) :
    ExRel (StRel ρ k) (denoteStmt pfx e o st) (denoteStmt pfx e' (rnOut ρ o) st) := by
  cases st with
  | seq name items len =>
    have hfix : ρ (pfx ++ name) = pfx ++ name := hst
    by_cases hat : ∃ t, items = [.nuc t]
    · obtain ⟨text, rfl⟩ := hat
      rw [denoteStmt_atom, denoteStmt_atom, he.seqs.isSome]
      by_cases hd : (e.seqs.lookup name).isSome = true
      · simp [hd, ExRel]
      · simp only [hd, Bool.false_eq_true, if_false]
        cases resolve (parseQuoted text) len with
        | error err => simp [ExRel]
        | ok r =>
          obtain ⟨l, c⟩ := r
          simp only [ExRel, StRel, atomResult]
          refine ⟨⟨he.anon, he.seqs.snoc name ⟨?_, rfl, ?_⟩, he.strands⟩, ?_⟩
          · rw [rnSeg_fwd, hfix]
          · simp [rnSeg_fwd, hfix]
          · cases l == 0
            · simp [rnOut, hfix, rnSeg_fwd]
            · rfl
    · have hat' : ∀ t, items ≠ [.nuc t] := fun t h => hat ⟨t, h⟩
      rw [denoteStmt_seq _ _ _ _ _ _ hat', denoteStmt_seq _ _ _ _ _ _ hat', he.seqs.isSome]
      by_cases hd : (e.seqs.lookup name).isSome = true
      · simp [hd, ExRel]
      · simp only [hd, Bool.false_eq_true, if_false]
        have hreg := region_cases pfx hr he hn items len
        cases h1 : denoteRegion pfx e items len with
        | error err =>
          rw [h1] at hreg
          cases h2 : denoteRegion pfx e' items len with
          | error err' => rw [h2] at hreg; simpa [ExRel] using hreg
          | ok r' => rw [h2] at hreg; simp [ExRel] at hreg
        | ok r =>
          rw [h1] at hreg
          cases h2 : denoteRegion pfx e' items len with
          | error err' => rw [h2] at hreg; simp [ExRel] at hreg
          | ok r' =>
            rw [h2] at hreg
            simp only [ExRel] at hreg
            obtain ⟨hf, hdm, han⟩ := hreg
            simp only [ExRel, StRel, seqResult]
            refine ⟨⟨han, he.seqs.snoc name ⟨hf, rfl, hf⟩, he.strands⟩, ?_⟩
            rw [hf, hdm, rnSeg_isEmpty, rnOut_withNewDomains]
            cases r.1.flatten.isEmpty
            · simp [rnOut, hfix]
            · rfl
  | strand dummy name items len =>
    rw [denoteStmt_strand, denoteStmt_strand, he.strands.isSome]
    by_cases hd : (e.strands.lookup name).isSome = true
    · simp [hd, ExRel]
    · simp only [hd, Bool.false_eq_true, if_false]
      have hreg := region_cases pfx hr he hn items len
      cases h1 : denoteRegion pfx e items len with
      | error err =>
        rw [h1] at hreg
        cases h2 : denoteRegion pfx e' items len with
        | error err' => rw [h2] at hreg; simpa [ExRel] using hreg
        | ok r' => rw [h2] at hreg; simp [ExRel] at hreg
      | ok r =>
        rw [h1] at hreg
        cases h2 : denoteRegion pfx e' items len with
        | error err' => rw [h2] at hreg; simp [ExRel] at hreg
        | ok r' =>
          rw [h2] at hreg
          simp only [ExRel] at hreg
          obtain ⟨hf, hdm, han⟩ := hreg
          dsimp only
          rw [hf, rnSeg_isEmpty]
          cases hz : r.1.flatten.isEmpty
          · simp only [Bool.false_eq_true, if_false, ExRel, StRel, strandResult]
            refine ⟨⟨han, he.seqs, he.strands.snoc name hf⟩, ?_⟩
            rw [hdm, rnOut_withNewDomains, hf]
            simp [rnOut]
          · simp [ExRel]
  | struct opt name strands domain text =>
    have hdom : domain = false := hst
    subst hdom
    rw [denoteStmt_struct_plain, denoteStmt_struct_plain]
    have ho : (rnOut ρ o).structs = o.structs := rfl
    rw [ho]
    by_cases hd : (o.structs.any fun x => x.name == pfx ++ name) = true
    · simp [hd, ExRel]
    · simp only [hd, Bool.false_eq_true, if_false]
      have hl := lookupStrands_rel e e' he.strands strands
      cases h1 : lookupStrands e strands with
      | error err =>
        rw [h1] at hl
        cases h2 : lookupStrands e' strands with
        | error err' => rw [h2] at hl; simpa [ExRel] using hl
        | ok r' => rw [h2] at hl; simp [ExRel] at hl
      | ok objs =>
        rw [h1] at hl
        cases h2 : lookupStrands e' strands with
        | error err' => rw [h2] at hl; simp [ExRel] at hl
        | ok objs' =>
          rw [h2] at hl
          simp only [ExRel] at hl
          simp only [structOut, hl, ho]
          cases Notation.compileStruct text with
          | none => simp [ExRel]
          | some dp =>
            dsimp only
            by_cases hz : Notation.sizesOk dp (objs.map (fun x => x.1.length)) = true
            · simp only [hz, Bool.not_true, Bool.false_eq_true, if_false]
              cases optOf opt with
              | error err => simp [ExRel]
              | ok ov => exact ⟨he, rfl⟩
            · simp [hz, ExRel]
  | kinetic lo hi ins outs =>
    rw [denoteStmt_kinetic, denoteStmt_kinetic]
    have ho : (rnOut ρ o).structs = o.structs := rfl
    rw [ho]
    split
    · simp [ExRel]
    · cases kinOf pfx lo hi ins outs with
      | error err => simp [ExRel]
      | ok kd => exact ⟨he, rfl⟩

theorem finishB_counter {pfx : String} {bs : List Blk} {n : Nat} {length : Option Nat}
    {r : List (List Nuc) × List (String × List Char) × Nat} (h : finishB pfx bs n length = .ok r) : n ≤ r.2.2 := by
  unfold finishB at h
  split at h
  · split at h
    · split at h
      · cases h
      · injection h with h; subst h; exact Nat.le_refl _
    · injection h with h; subst h; exact Nat.le_refl _
  · split at h
    · cases h
    · split at h
      · cases h
      · split at h
        · cases h
        · injection h with h; subst h; exact Nat.le_succ _

theorem denoteRegion_anon_le {pfx : String} {env : Env} {items : List SrcItem} {length : Option Nat}
    {r : List (List Nuc) × List (String × List Char) × Nat} (h : denoteRegion pfx env items length = .ok r) :
    env.anon ≤ r.2.2 := by
  rw [denoteRegion_eq_blocks] at h
  cases hb : blocks pfx env items env.anon false with
  | error e => simp [hb] at h
  | ok p =>
    simp only [hb] at h
    exact Nat.le_trans (blocks_counter_le pfx env items env.anon false hb) (finishB_counter h)

theorem denoteStmt_anon_le {pfx : String} {ρ : String → String} {e e1 : Env} {o o1 : Out} {st : Stmt}
    (hst : stmtOk ρ pfx st) (h : denoteStmt pfx e o st = .ok (e1, o1)) : e.anon ≤ e1.anon := by
  cases st with
  | seq name items len =>
    by_cases hat : ∃ t, items = [.nuc t]
    · obtain ⟨text, rfl⟩ := hat
      rw [denoteStmt_atom] at h
      split at h
      · cases h
      · split at h
        · cases h
        · injection h with h
          simp only [atomResult, Prod.mk.injEq] at h
          rw [← h.1]
          exact Nat.le_refl _
    · have hat' : ∀ t, items ≠ [.nuc t] := fun t h => hat ⟨t, h⟩
      rw [denoteStmt_seq _ _ _ _ _ _ hat'] at h
      split at h
      · cases h
      · cases hr : denoteRegion pfx e items len with
        | error err => simp [hr] at h
        | ok r =>
          simp only [hr, Except.ok.injEq, seqResult, Prod.mk.injEq] at h
          rw [← h.1]
          exact denoteRegion_anon_le hr
  | strand dummy name items len =>
    rw [denoteStmt_strand] at h
    split at h
    · cases h
    · cases hr : denoteRegion pfx e items len with
      | error err => simp [hr] at h
      | ok r =>
        simp only [hr] at h
        split at h
        · cases h
        · simp only [Except.ok.injEq, strandResult, Prod.mk.injEq] at h
          rw [← h.1]
          exact denoteRegion_anon_le hr
  | struct opt name strands domain text =>
    have hdom : domain = false := hst
    subst hdom
    rw [denoteStmt_struct_plain] at h
    split at h
    · cases h
    · split at h
      · cases h
      · split at h
        · cases h
        · injection h with h
          injection h with h _
          rw [h]
          exact Nat.le_refl _
  | kinetic lo hi ins outs =>
    rw [denoteStmt_kinetic] at h
    split at h
    · cases h
    · split at h
      · cases h
      · injection h with h
        injection h with h _
        rw [h]
        exact Nat.le_refl _

/-- a statement list in two related environments -/
theorem denoteStmts_rel (pfx : String) {ρ : String → String} {n0 k : Nat} (hr : RenumP ρ pfx n0 k) :
    ∀ (stmts : List Stmt) {e e' : Env} (o : Out), EnvRel ρ k e e' → n0 ≤ e.anon → (∀ st ∈ stmts, stmtOk ρ pfx st) →
      ExRel (StRel ρ k) (denoteStmts pfx stmts e o) (denoteStmts pfx stmts e' (rnOut ρ o))
  | [], e, e', o, he, _, _ => by
    simp only [denoteStmts, ExRel]
    exact ⟨he, rfl⟩
  | st :: r, e, e', o, he, hn, hok => by
    have h1 := denoteStmt_rel pfx hr o he hn st (hok st List.mem_cons_self)
    simp only [denoteStmts]
    cases hs : denoteStmt pfx e o st with
    | error err =>
      rw [hs] at h1
      cases hs' : denoteStmt pfx e' (rnOut ρ o) st with
      | error err' => rw [hs'] at h1; simpa [ExRel] using h1
      | ok x => rw [hs'] at h1; simp [ExRel] at h1
    | ok p =>
      rw [hs] at h1
      cases hs' : denoteStmt pfx e' (rnOut ρ o) st with
      | error err' => rw [hs'] at h1; simp [ExRel] at h1
      | ok q =>
        rw [hs'] at h1
        obtain ⟨e1, o1⟩ := p
        obtain ⟨e1', o1'⟩ := q
        simp only [ExRel, StRel] at h1
        obtain ⟨he1, ho1⟩ := h1
        subst ho1
        exact denoteStmts_rel pfx hr r o1 he1
          (Nat.le_trans hn (denoteStmt_anon_le (hok st List.mem_cons_self) hs))
          (fun s hs => hok s (List.mem_cons_of_mem _ hs))

theorem denoteStmts_append (pfx : String) : ∀ (xs ys : List Stmt) (e : Env) (o : Out),
    denoteStmts pfx (xs ++ ys) e o =
      match denoteStmts pfx xs e o with
      | .error err => .error err
      | .ok p => denoteStmts pfx ys p.1 p.2
  | [], ys, e, o => rfl
  | x :: r, ys, e, o => by
    simp only [List.cons_append, denoteStmts]
    cases denoteStmt pfx e o x with
    | error err => rfl
    | ok p => exact denoteStmts_append pfx r ys p.1 p.2

/-! ### components -/

def portOf (pfx : String) (env : Env) (o : Out) (p : Comp.Port) : Except Denote.Err (List Nuc × Bool) :=
  match env.seqs.lookup p.seq with
  | none => throw Denote.Err.undefined
  | some b =>
    match p.struct with
    | some sn => if o.structs.any (·.name == pfx ++ sn) then pure (b.nucs, p.star) else throw Denote.Err.undefined
    | none => pure (b.nucs, p.star)

def portsOf (pfx : String) (env : Env) (o : Out) (ps : List Comp.Port) : Except Denote.Err (List (List Nuc × Bool)) :=
  ps.mapM (portOf pfx env o)

theorem portsOf_canon (pfx : String) (env : Env) (o : Out) (ps : List Comp.Port)
    (f : Comp.Port → Except Denote.Err (List Nuc × Bool)) (h : ∀ p, f p = portOf pfx env o p) :
    List.mapM f ps = portsOf pfx env o ps := by
  unfold portsOf; rw [funext h]

theorem denoteComp_eq (src : Src) (pfx : String) (a : Nat) :
    denoteComp src pfx a =
      match denoteStmts pfx src.stmts { anon := a } {} with
      | .error e => .error e
      | .ok p =>
        match portsOf pfx p.1 p.2 (src.inputs ++ src.outputs) with
        | .error e => .error e
        | .ok ports => .ok (p.2, ports, p.1.anon) := by
  unfold denoteComp
  simp only [bind, Except.bind]
  cases denoteStmts pfx src.stmts { anon := a } {} with
  | error e => rfl
  | ok p =>
    obtain ⟨env, o⟩ := p
    dsimp only
    simp (disch := (intro p; unfold portOf; cases List.lookup p.seq env.seqs <;> (try rfl); cases p.struct <;> rfl)) only
      [portsOf_canon pfx env o]
    cases portsOf pfx env o (src.inputs ++ src.outputs) <;> rfl

/-- results of two component denotations related by a renaming and a counter shift -/
def CompRel (ρ : String → String) (k : Nat) (r r' : Out × List (List Nuc × Bool) × Nat) : Prop :=
  r'.1 = rnOut ρ r.1 ∧ r'.2.1 = r.2.1.map (fun x => (rnSeg ρ x.1, x.2)) ∧ r'.2.2 = r.2.2 + k

theorem portsOf_rel (pfx : String) {ρ : String → String} {k : Nat} {e e' : Env} (o : Out) (he : EnvRel ρ k e e')
    (ps : List Comp.Port) :
    ExRel (fun l l' => l' = l.map (fun x => (rnSeg ρ x.1, x.2))) (portsOf pfx e o ps) (portsOf pfx e' (rnOut ρ o) ps) := by
  unfold portsOf
  induction ps with
  | nil => simp [List.mapM_nil, ExRel, pure, Except.pure]
  | cons p r ih =>
    simp only [List.mapM_cons]
    have hp : ExRel (fun x x' => x' = (rnSeg ρ x.1, x.2)) (portOf pfx e o p) (portOf pfx e' (rnOut ρ o) p) := by
      unfold portOf
      have hx := he.seqs p.seq
      have ho : (rnOut ρ o).structs = o.structs := rfl
      rw [ho]
      cases h1 : e.seqs.lookup p.seq with
      | none =>
        cases h2 : e'.seqs.lookup p.seq with
        | none => simp [ExRel, throw, throwThe, MonadExceptOf.throw]
        | some b' => simp [h1, h2] at hx
      | some b =>
        cases h2 : e'.seqs.lookup p.seq with
        | none => simp [h1, h2] at hx
        | some b' =>
          simp only [h1, h2] at hx
          dsimp only
          cases p.struct with
          | none => simp [ExRel, pure, Except.pure, hx.1]
          | some sn =>
            dsimp only
            split
            · simp [ExRel, pure, Except.pure, hx.1]
            · simp [ExRel, throw, throwThe, MonadExceptOf.throw]
    cases h1 : portOf pfx e o p with
    | error err =>
      rw [h1] at hp
      cases h2 : portOf pfx e' (rnOut ρ o) p with
      | error err' => rw [h2] at hp; simpa [ExRel, bind, Except.bind] using hp
      | ok x => rw [h2] at hp; simp [ExRel] at hp
    | ok x =>
      rw [h1] at hp
      cases h2 : portOf pfx e' (rnOut ρ o) p with
      | error err' => rw [h2] at hp; simp [ExRel] at hp
      | ok x' =>
        rw [h2] at hp
        simp only [ExRel] at hp
        simp only [bind, Except.bind, pure, Except.pure]
        cases h3 : List.mapM (portOf pfx e o) r with
        | error err =>
          rw [h3] at ih
          cases h4 : List.mapM (portOf pfx e' (rnOut ρ o)) r with
          | error err' => rw [h4] at ih; simpa [ExRel] using ih
          | ok v => rw [h4] at ih; simp [ExRel] at ih
        | ok v =>
          rw [h3] at ih
          cases h4 : List.mapM (portOf pfx e' (rnOut ρ o)) r with
          | error err' => rw [h4] at ih; simp [ExRel] at ih
          | ok v' =>
            rw [h4] at ih
            simp only [ExRel] at ih ⊢
            simp [ih, hp]

/-- replace one statement of a component: if the replaced statement simulates the original one in every
    environment the earlier statements can produce, and the later statements are `stmtOk`, the two
    components denote related results -/
theorem comp_rel (pfx : String) {ρ : String → String} {n0 k : Nat} (hr : RenumP ρ pfx n0 k) (src src' : Src)
    (pre post : List Stmt) (st st' : Stmt) (a : Nat)
    (h1 : src.stmts = pre ++ st :: post) (h2 : src'.stmts = pre ++ st' :: post)
    (hin : src'.inputs = src.inputs) (hout : src'.outputs = src.outputs)
    (hpost : ∀ s ∈ post, stmtOk ρ pfx s)
    (hst : ∀ env o, denoteStmts pfx pre { anon := a } {} = .ok (env, o) →
      ExRel (fun p q => StRel ρ k p q ∧ n0 ≤ p.1.anon) (denoteStmt pfx env o st) (denoteStmt pfx env o st')) :
    ExRel (CompRel ρ k) (denoteComp src pfx a) (denoteComp src' pfx a) := by
  rw [denoteComp_eq, denoteComp_eq, h1, h2, hin, hout, denoteStmts_append, denoteStmts_append]
  cases hp : denoteStmts pfx pre { anon := a } {} with
  | error err => simp [ExRel]
  | ok p =>
    obtain ⟨env, o⟩ := p
    have hs := hst env o hp
    simp only [denoteStmts]
    cases hs1 : denoteStmt pfx env o st with
    | error err =>
      rw [hs1] at hs
      cases hs2 : denoteStmt pfx env o st' with
      | error err' => rw [hs2] at hs; simpa [ExRel] using hs
      | ok x => rw [hs2] at hs; simp [ExRel] at hs
    | ok x =>
      rw [hs1] at hs
      cases hs2 : denoteStmt pfx env o st' with
      | error err' => rw [hs2] at hs; simp [ExRel] at hs
      | ok x' =>
        rw [hs2] at hs
        obtain ⟨e1, o1⟩ := x
        obtain ⟨e1', o1'⟩ := x'
        simp only [ExRel, StRel] at hs
        obtain ⟨⟨he1, ho1⟩, hn1⟩ := hs
        subst ho1
        dsimp only
        have hrest := denoteStmts_rel pfx hr post o1 he1 hn1 hpost
        cases hr1 : denoteStmts pfx post e1 o1 with
        | error err =>
          rw [hr1] at hrest
          cases hr2 : denoteStmts pfx post e1' (rnOut ρ o1) with
          | error err' => rw [hr2] at hrest; simpa [ExRel] using hrest
          | ok y => rw [hr2] at hrest; simp [ExRel] at hrest
        | ok y =>
          rw [hr1] at hrest
          cases hr2 : denoteStmts pfx post e1' (rnOut ρ o1) with
          | error err' => rw [hr2] at hrest; simp [ExRel] at hrest
          | ok y' =>
            rw [hr2] at hrest
            obtain ⟨e2, o2⟩ := y
            obtain ⟨e2', o2'⟩ := y'
            simp only [ExRel, StRel] at hrest
            obtain ⟨he2, ho2⟩ := hrest
            subst ho2
            dsimp only
            have hports := portsOf_rel pfx o2 he2 (src.inputs ++ src.outputs)
            cases hq1 : portsOf pfx e2 o2 (src.inputs ++ src.outputs) with
            | error err =>
              rw [hq1] at hports
              cases hq2 : portsOf pfx e2' (rnOut ρ o2) (src.inputs ++ src.outputs) with
              | error err' => rw [hq2] at hports; simpa [ExRel] using hports
              | ok z => rw [hq2] at hports; simp [ExRel] at hports
            | ok z =>
              rw [hq1] at hports
              cases hq2 : portsOf pfx e2' (rnOut ρ o2) (src.inputs ++ src.outputs) with
              | error err' => rw [hq2] at hports; simp [ExRel] at hports
              | ok z' =>
                rw [hq2] at hports
                simp only [ExRel] at hports
                simp only [ExRel, CompRel]
                exact ⟨trivial, hports, he2.anon⟩

/-! ### one insertion into one statement -/

def insItems (items : List SrcItem) (i : Nat) (it : SrcItem) : List SrcItem := items.take i ++ [it] ++ items.drop i

/-- `st'` is the super-sequence or strand statement `st` with the item `it` inserted at position `i` of its item
    list (for a `sequence` statement neither item list may be a single quoted region: that is the notation
    for an *atomic* sequence, a different kind of object) -/
inductive InsStmt (i : Nat) (it : SrcItem) : Stmt → Stmt → Prop
  | seq (name : String) (items : List SrcItem) (len : Option Nat) :
      (∀ t, items ≠ [.nuc t]) → (∀ t, insItems items i it ≠ [.nuc t]) →
      InsStmt i it (.seq name items len) (.seq name (insItems items i it) len)
  | strand (d : Bool) (name : String) (items : List SrcItem) (len : Option Nat) :
      InsStmt i it (.strand d name items len) (.strand d name (insItems items i it) len)

/-- `src'` is `src` with the item `it` inserted at position `i` of the item list of statement number `t` -/
structure InsertZero (src src' : Src) (t i : Nat) (it : SrcItem) : Prop where
  inputs : src'.inputs = src.inputs
  outputs : src'.outputs = src.outputs
  stmts : ∃ pre st st' post, src.stmts = pre ++ st :: post ∧ src'.stmts = pre ++ st' :: post ∧
            pre.length = t ∧ InsStmt i it st st'

theorem SeqsRel.refl_id (l : List (String × Denote.Bind)) : SeqsRel id l l := by
  intro x
  cases l.lookup x with
  | none => trivial
  | some b => exact ⟨(rnSeg_id _).symm, rfl, (rnSeg_id _).symm⟩

theorem StrandsRel.refl_id (l : List (String × List Nuc × List (List Nuc))) : StrandsRel id l l := by
  intro x
  cases l.lookup x with
  | none => trivial
  | some b => exact (rnSeg_id _).symm

theorem rnOut_id (o : Out) : rnOut id o = o := by
  have : rnSeg id = id := by funext s; exact rnSeg_id s
  simp [rnOut, this]

theorem insertAt_flatten_nil (l : List (List Nuc)) (j : Nat) : (insertAt l j []).flatten = l.flatten := by
  unfold insertAt
  rw [List.flatten_append, List.flatten_cons, List.nil_append, ← List.flatten_append, List.take_append_drop]

/-- the statement with a zero-length reference inserted simulates the original one (identity renaming) -/
theorem stmt_ref_rel (pfx : String) (env : Env) (o : Out) {i : Nat} {z : String} {star : Bool} {st st' : Stmt}
    (hins : InsStmt i (.ref z star) st st') {b : Denote.Bind} (hz : env.seqs.lookup z = some b) (hb : b.nucs = []) :
    ExRel (fun p q => StRel id 0 p q ∧ 0 ≤ p.1.anon) (denoteStmt pfx env o st) (denoteStmt pfx env o st') := by
  cases hins with
  | seq name items len h1 h2 =>
    rw [denoteStmt_seq _ _ _ _ _ _ h1, denoteStmt_seq _ _ _ _ _ _ h2]
    by_cases hd : (env.seqs.lookup name).isSome = true
    · simp [hd, ExRel]
    · simp only [hd, Bool.false_eq_true, if_false, insItems]
      rw [denoteRegion_insert_ref pfx env items i z star len hz hb]
      cases denoteRegion pfx env items len with
      | error err => simp [ExRel, Except.map]
      | ok r =>
        simp only [ExRel, Except.map, StRel, seqResult, insSeg, insertAt_flatten_nil, rnOut_id]
        refine ⟨⟨⟨rfl, ?_, StrandsRel.refl_id _⟩, trivial⟩, Nat.zero_le _⟩
        exact (SeqsRel.refl_id _).snoc name ⟨(rnSeg_id _).symm, rfl, by
          simp only [insertAt_flatten_nil]; exact (rnSeg_id _).symm⟩
  | strand d name items len =>
    rw [denoteStmt_strand, denoteStmt_strand]
    by_cases hd : (env.strands.lookup name).isSome = true
    · simp [hd, ExRel]
    · simp only [hd, Bool.false_eq_true, if_false, insItems]
      rw [denoteRegion_insert_ref pfx env items i z star len hz hb]
      cases denoteRegion pfx env items len with
      | error err => simp [ExRel, Except.map]
      | ok r =>
        simp only [Except.map, insSeg, insertAt_flatten_nil]
        cases r.1.flatten.isEmpty
        · simp only [Bool.false_eq_true, if_false, ExRel, StRel, strandResult, insertAt_flatten_nil, rnOut_id]
          refine ⟨⟨⟨rfl, SeqsRel.refl_id _, ?_⟩, trivial⟩, Nat.zero_le _⟩
          exact (StrandsRel.refl_id _).snoc name (rnSeg_id _).symm
        · simp [ExRel]

theorem CompRel_id_eq {x y : Except Denote.Err (Out × List (List Nuc × Bool) × Nat)}
    (h : ExRel (CompRel id 0) x y) : y = x := by
  cases x with
  | error e =>
    cases y with
    | error e' => simp only [ExRel] at h; rw [h]
    | ok r => simp [ExRel] at h
  | ok r =>
    cases y with
    | error e' => simp [ExRel] at h
    | ok r' =>
      simp only [ExRel, CompRel, rnOut_id] at h
      obtain ⟨h1, h2, h3⟩ := h
      have : rnSeg id = id := by funext s; exact rnSeg_id s
      simp only [this, id, Nat.add_zero] at h2
      have h2' : r'.2.1 = r.2.1 := by rw [h2]; simp
      obtain ⟨a, b, c⟩ := r
      obtain ⟨a', b', c'⟩ := r'
      simp only at h1 h2' h3
      subst h1 h2' h3
      rfl

/-- **Inertness, named reference.**  Inserting a reference to a zero-length sequence into one
    super-sequence or strand statement of a component leaves what the component denotes unchanged — same
    error, or the same `Out`, ports and counter — provided no later structure statement is domain-level
    (a domain-level structure counts the segments of its strands, so its notation has to change with them). -/
theorem inert_ref (pfx : String) (a : Nat) (src src' : Src) (t i : Nat) (z : String) (star : Bool)
    (h : InsertZero src src' t i (.ref z star))
    (hz : ∀ env o, denoteStmts pfx (src.stmts.take t) { anon := a } {} = .ok (env, o) →
      ∃ b, env.seqs.lookup z = some b ∧ b.nucs = [])
    (hplain : ∀ s ∈ src.stmts.drop (t + 1), ∀ opt name strands domain text,
      s = .struct opt name strands domain text → domain = false) :
    denoteComp src' pfx a = denoteComp src pfx a := by
  obtain ⟨pre, st, st', post, h1, h2, hlen, hins⟩ := h.stmts
  have htake : src.stmts.take t = pre := by rw [h1, ← hlen]; simp
  have hdrop : src.stmts.drop (t + 1) = post := by
    rw [h1, ← hlen]
    simp
  apply CompRel_id_eq
  refine comp_rel pfx (ρ := id) (n0 := 0) (k := 0) (fun m _ => rfl) src src' pre post st st' a h1 h2
    h.inputs h.outputs ?_ ?_
  · intro s hs
    cases s with
    | seq name items len => rfl
    | strand d name items len => trivial
    | struct opt name strands domain text =>
      exact hplain _ (hdrop ▸ hs) opt name strands domain text rfl
    | kinetic lo hi ins outs => trivial
  · intro env o hpre
    obtain ⟨b, hzb, hb⟩ := hz env o (htake ▸ hpre)
    exact stmt_ref_rel pfx env o hins hzb hb

/-! ### the quoted case -/

theorem fixedNucs_take_le (items : List SrcItem) (i : Nat) : fixedNucs (items.take i) ≤ fixedNucs items := by
  induction items generalizing i with
  | nil => simp [fixedNucs]
  | cons x r ih =>
    cases i with
    | zero => simp [fixedNucs]
    | succ j =>
      have := ih j
      cases x <;> simp [List.take, fixedNucs] <;> omega

theorem denoteRegion_counter_ge {pfx : String} {env : Env} {items : List SrcItem} {length : Option Nat}
    {r : List (List Nuc) × List (String × List Char) × Nat} (h : denoteRegion pfx env items length = .ok r) :
    env.anon + fixedNucs items ≤ r.2.2 := by
  rw [denoteRegion_eq_blocks] at h
  cases hb : blocks pfx env items env.anon false with
  | error e => simp [hb] at h
  | ok p =>
    simp only [hb] at h
    have := blocks_counter pfx env items env.anon false (bs := p.1) (n' := p.2) hb
    have := finishB_counter h
    omega

theorem withNewDomains_congr (o : Out) {d1 d2 : List (String × List Char)}
    (h : d1.filter (fun d => d.2.length != 0) = d2.filter (fun d => d.2.length != 0)) :
    withNewDomains o d1 = withNewDomains o d2 := by
  simp only [withNewDomains, h]

/-- the two regions of a quoted insertion, case by case -/
theorem region_quoted_cases (pfx : String) (env : Env) (items : List SrcItem) (i : Nat) (text : List Char)
    (length : Option Nat) (hq : resolve (parseQuoted text) none = .ok (0, []))
    {ρ : String → String} (hs : SeqsRel ρ env.seqs env.seqs)
    (hlt : ∀ m, m < env.anon + fixedNucs (items.take i) → ρ (pfx ++ "_Anon" ++ toString m) = pfx ++ "_Anon" ++ toString m)
    (hr : RenumP ρ pfx (env.anon + fixedNucs (items.take i)) 1) :
    ExRel (fun r r' => r'.1.flatten = rnSeg ρ r.1.flatten ∧
        r'.2.1.filter (fun d => d.2.length != 0) = (r.2.1.map (fun d => (ρ d.1, d.2))).filter (fun d => d.2.length != 0) ∧
        r'.2.2 = r.2.2 + 1)
      (denoteRegion pfx env items length) (denoteRegion pfx env (insItems items i (.nuc text)) length) := by
  have h := denoteRegion_insert_quoted pfx env items i text length hq hs hlt hr
  unfold insItems
  cases h1 : denoteRegion pfx env items length with
  | error err =>
    rw [h1] at h
    rw [map_eq_error h]
    rfl
  | ok r =>
    rw [h1] at h
    obtain ⟨r', hr', hf⟩ := map_eq_ok h
    rw [hr']
    simp only [flat3, rn3, nz3, Prod.mk.injEq] at hf
    exact hf

/-- the statement with a zero-length quoted region inserted simulates the original one, the anonymous
    domains from the insertion point on renumbered by one -/
theorem stmt_quoted_rel (pfx : String) (env : Env) (o : Out) {i : Nat} {text : List Char} {st st' : Stmt}
    (hins : InsStmt i (.nuc text) st st') (hq : resolve (parseQuoted text) none = .ok (0, []))
    {ρ : String → String} {n1 : Nat}
    (hs : SeqsRel ρ env.seqs env.seqs) (hstr : StrandsRel ρ env.strands env.strands) (ho : rnOut ρ o = o)
    (hfix : stmtOk ρ pfx st)
    (hn1 : ∀ name items len, (st = .seq name items len ∨ ∃ d, st = .strand d name items len) →
      n1 = env.anon + fixedNucs (items.take i))
    (hlt : ∀ m, m < n1 → ρ (pfx ++ "_Anon" ++ toString m) = pfx ++ "_Anon" ++ toString m)
    (hr : RenumP ρ pfx n1 1) :
    ExRel (fun p q => StRel ρ 1 p q ∧ n1 ≤ p.1.anon) (denoteStmt pfx env o st) (denoteStmt pfx env o st') := by
  cases hins with
  | seq name items len h1 h2 =>
    have hn := hn1 name items len (Or.inl rfl)
    subst hn
    have hname : ρ (pfx ++ name) = pfx ++ name := hfix
    rw [denoteStmt_seq _ _ _ _ _ _ h1, denoteStmt_seq _ _ _ _ _ _ h2]
    by_cases hd : (env.seqs.lookup name).isSome = true
    · simp [hd, ExRel]
    · simp only [hd, Bool.false_eq_true, if_false]
      have hreg := region_quoted_cases pfx env items i text len hq hs hlt hr
      cases h1 : denoteRegion pfx env items len with
      | error err =>
        rw [h1] at hreg
        cases h2 : denoteRegion pfx env (insItems items i (.nuc text)) len with
        | error err' => rw [h2] at hreg; simpa [ExRel] using hreg
        | ok r' => rw [h2] at hreg; simp [ExRel] at hreg
      | ok r =>
        rw [h1] at hreg
        cases h2 : denoteRegion pfx env (insItems items i (.nuc text)) len with
        | error err' => rw [h2] at hreg; simp [ExRel] at hreg
        | ok r' =>
          rw [h2] at hreg
          simp only [ExRel] at hreg
          obtain ⟨hf, hdm, han⟩ := hreg
          have hge := denoteRegion_counter_ge h1
          have hle := fixedNucs_take_le items i
          simp only [ExRel, StRel, seqResult]
          refine ⟨⟨⟨han, hs.snoc name ⟨hf, rfl, hf⟩, hstr⟩, ?_⟩, by omega⟩
          rw [hf, rnSeg_isEmpty, withNewDomains_congr o hdm]
          conv => lhs; rw [← ho]
          rw [rnOut_withNewDomains]
          cases r.1.flatten.isEmpty
          · simp [rnOut, hname]
          · rfl
  | strand d name items len =>
    have hn := hn1 name items len (Or.inr ⟨d, rfl⟩)
    subst hn
    rw [denoteStmt_strand, denoteStmt_strand]
    by_cases hd : (env.strands.lookup name).isSome = true
    · simp [hd, ExRel]
    · simp only [hd, Bool.false_eq_true, if_false]
      have hreg := region_quoted_cases pfx env items i text len hq hs hlt hr
      cases h1 : denoteRegion pfx env items len with
      | error err =>
        rw [h1] at hreg
        cases h2 : denoteRegion pfx env (insItems items i (.nuc text)) len with
        | error err' => rw [h2] at hreg; simpa [ExRel] using hreg
        | ok r' => rw [h2] at hreg; simp [ExRel] at hreg
      | ok r =>
        rw [h1] at hreg
        cases h2 : denoteRegion pfx env (insItems items i (.nuc text)) len with
        | error err' => rw [h2] at hreg; simp [ExRel] at hreg
        | ok r' =>
          rw [h2] at hreg
          simp only [ExRel] at hreg
          obtain ⟨hf, hdm, han⟩ := hreg
          have hge := denoteRegion_counter_ge h1
          have hle := fixedNucs_take_le items i
          dsimp only
          rw [hf, rnSeg_isEmpty]
          cases hz : r.1.flatten.isEmpty
          · simp only [Bool.false_eq_true, if_false, ExRel, StRel, strandResult]
            refine ⟨⟨⟨han, hs, hstr.snoc name hf⟩, ?_⟩, by omega⟩
            rw [withNewDomains_congr o hdm]
            conv => lhs; rw [← ho]
            rw [rnOut_withNewDomains, hf]
            simp [rnOut]
          · simp [ExRel]

/-- **Inertness, quoted region.**  Inserting a zero-length quoted region into one super-sequence or strand
    statement consumes one anonymous name; the component then denotes the same thing with the later anonymous
    domains renumbered: same error, or `Out`, ports and counter related by `CompRel ρ 1`.  `ρ` is any renaming
    that fixes everything the statements before the insertion point have produced (`hpre`), the anonymous names
    below the insertion point `n1`, the full names of later sequence definitions, and maps
    `_Anon m ↦ _Anon (m+1)` from `n1` on; no later structure statement may be domain-level. -/
theorem inert_quoted (pfx : String) (a : Nat) (src src' : Src) (t i : Nat) (text : List Char)
    (h : InsertZero src src' t i (.nuc text)) (hq : resolve (parseQuoted text) none = .ok (0, []))
    (ρ : String → String) (n1 : Nat)
    (hpre : ∀ env o, denoteStmts pfx (src.stmts.take t) { anon := a } {} = .ok (env, o) →
      SeqsRel ρ env.seqs env.seqs ∧ StrandsRel ρ env.strands env.strands ∧ rnOut ρ o = o ∧
      ∀ name items len, (src.stmts[t]? = some (.seq name items len) ∨ ∃ d, src.stmts[t]? = some (.strand d name items len)) →
        n1 = env.anon + fixedNucs (items.take i))
    (hlt : ∀ m, m < n1 → ρ (pfx ++ "_Anon" ++ toString m) = pfx ++ "_Anon" ++ toString m)
    (hr : RenumP ρ pfx n1 1)
    (hok : ∀ s ∈ src.stmts.drop t, stmtOk ρ pfx s) :
    ExRel (CompRel ρ 1) (denoteComp src pfx a) (denoteComp src' pfx a) := by
  obtain ⟨pre, st, st', post, h1, h2, hlen, hins⟩ := h.stmts
  have htake : src.stmts.take t = pre := by rw [h1, ← hlen]; simp
  have hdrop : src.stmts.drop t = st :: post := by rw [h1, ← hlen]; simp
  have hget : src.stmts[t]? = some st := by rw [h1, ← hlen]; simp
  refine comp_rel pfx hr src src' pre post st st' a h1 h2 h.inputs h.outputs ?_ ?_
  · intro s hs
    exact hok s (by rw [hdrop]; exact List.mem_cons_of_mem _ hs)
  · intro env o hp
    obtain ⟨hs, hstr, ho, hn⟩ := hpre env o (htake ▸ hp)
    refine stmt_quoted_rel pfx env o hins hq hs hstr ho (hok st (by rw [hdrop]; exact List.mem_cons_self)) ?_ hlt hr
    intro name items len hst
    apply hn name items len
    rcases hst with rfl | ⟨d, rfl⟩
    · exact Or.inl hget
    · exact Or.inr ⟨d, hget⟩

/-! ### defining a zero-length atomic sequence -/

/-- a zero-length atomic definition only binds the name: nothing is added to `Out`, the counter stays -/
theorem denoteStmt_zero_atom (pfx : String) (env : Env) (o : Out) (z : String) (text : List Char) (len : Option Nat)
    {c : List Char} (hq : resolve (parseQuoted text) len = .ok (0, c)) (hnew : env.seqs.lookup z = none) :
    denoteStmt pfx env o (.seq z [.nuc text] len) =
      .ok ({ env with seqs := env.seqs ++ [(z, ⟨[], [[]], false⟩)] }, o) := by
  rw [denoteStmt_atom, hnew, hq]
  simp [atomResult, fwd]

theorem portsOf_snoc_fresh (pfx : String) (env : Env) (o : Out) (z : String) (b : Denote.Bind) (ps : List Comp.Port)
    (hz : ∀ p ∈ ps, p.seq ≠ z) :
    portsOf pfx { env with seqs := env.seqs ++ [(z, b)] } o ps = portsOf pfx env o ps := by
  unfold portsOf
  induction ps with
  | nil => rfl
  | cons p r ih =>
    have hp : portOf pfx { env with seqs := env.seqs ++ [(z, b)] } o p = portOf pfx env o p := by
      unfold portOf
      have hne : (p.seq == z) = false := by simpa using hz p List.mem_cons_self
      simp only [List.lookup_append, List.lookup, hne]
      cases env.seqs.lookup p.seq <;> rfl
    simp only [List.mapM_cons, hp, ih (fun q hq => hz q (List.mem_cons_of_mem _ hq))]

/-- a zero-length atomic definition as the last statement of a component changes nothing the component
    denotes (the name is new and is not a port) -/
theorem zero_definition_last (src : Src) (pfx : String) (a : Nat) (z : String) (text : List Char) (len : Option Nat)
    {c : List Char} (hq : resolve (parseQuoted text) len = .ok (0, c))
    (hnew : ∀ env o, denoteStmts pfx src.stmts { anon := a } {} = .ok (env, o) → env.seqs.lookup z = none)
    (hport : ∀ p ∈ src.inputs ++ src.outputs, p.seq ≠ z) :
    denoteComp { src with stmts := src.stmts ++ [.seq z [.nuc text] len] } pfx a = denoteComp src pfx a := by
  rw [denoteComp_eq, denoteComp_eq]
  simp only [denoteStmts_append]
  cases hp : denoteStmts pfx src.stmts { anon := a } {} with
  | error e => rfl
  | ok p =>
    obtain ⟨env, o⟩ := p
    simp only [denoteStmts, denoteStmt_zero_atom pfx env o z text len hq (hnew env o hp)]
    rw [portsOf_snoc_fresh pfx env o z _ _ hport]

/-- statement level, named reference: the contribution to `Out` and the counter are unchanged; the new
    environment binds the same names to the same nucleotides -/
theorem stmt_insert_ref_out (pfx : String) (env : Env) (o : Out) {i : Nat} {z : String} {star : Bool} {st st' : Stmt}
    (hins : InsStmt i (.ref z star) st st') {b : Denote.Bind} (hz : env.seqs.lookup z = some b) (hb : b.nucs = []) :
    (denoteStmt pfx env o st').map (fun p => (p.2, p.1.anon)) = (denoteStmt pfx env o st).map (fun p => (p.2, p.1.anon)) := by
  have h := stmt_ref_rel pfx env o hins hz hb
  cases h1 : denoteStmt pfx env o st with
  | error e =>
    rw [h1] at h
    cases h2 : denoteStmt pfx env o st' with
    | error e' => rw [h2] at h; simp only [ExRel] at h; rw [h]
    | ok q => rw [h2] at h; simp [ExRel] at h
  | ok p =>
    rw [h1] at h
    cases h2 : denoteStmt pfx env o st' with
    | error e' => rw [h2] at h; simp [ExRel] at h
    | ok q =>
      rw [h2] at h
      simp only [ExRel, StRel, rnOut_id] at h
      obtain ⟨⟨he, ho⟩, _⟩ := h
      simp only [Except.map, ho, he.anon, Nat.add_zero]

instance instDecEqExcept {ε α} [DecidableEq ε] [DecidableEq α] : DecidableEq (Except ε α)
  | .ok a, .ok b => if h : a = b then isTrue (by rw [h]) else isFalse (fun c => h (by injection c))
  | .error a, .error b => if h : a = b then isTrue (by rw [h]) else isFalse (fun c => h (by injection c))
  | .ok _, .error _ => isFalse (fun c => nomatch c)
  | .error _, .ok _ => isFalse (fun c => nomatch c)

/-- a decidable view of what a component denotes (for the examples) -/
structure Obs where
  domains : List (String × List Char)
  baseSeqs : List (String × List Nuc)
  supSeqs : List (String × List Nuc)
  strands : List (String × Bool × List Nuc)
  structs : List StructD
  ports : List (List Nuc × Bool)
  anon : Nat
deriving DecidableEq

def obsComp (r : Except Denote.Err (Out × List (List Nuc × Bool) × Nat)) : Option Obs :=
  match r with
  | .ok (o, ports, n) => some ⟨o.domains, o.baseSeqs, o.supSeqs, o.strands, o.structs, ports, n⟩
  | .error _ => none

/-! ### a concrete renumbering of full names -/
section concrete
open Pepper.CompShift

/-- the renumbering of full names under prefix `pfx`: `pfx ++ x ↦ pfx ++ shift n k x`, names without the prefix
    unchanged -/
def shiftFull (pfx : String) (n k : Nat) (s : String) : String :=
  if pfx.toList.isPrefixOf s.toList then pfx ++ shift n k (String.ofList (s.toList.drop pfx.toList.length)) else s

theorem shiftFull_pfx (pfx : String) (n k : Nat) (x : String) : shiftFull pfx n k (pfx ++ x) = pfx ++ shift n k x := by
  unfold shiftFull
  have h1 : pfx.toList.isPrefixOf (pfx ++ x).toList = true := by
    rw [List.isPrefixOf_iff_prefix, String.toList_append]
    exact List.prefix_append _ _
  rw [if_pos h1, String.toList_append, List.drop_left, String.ofList_toList]

theorem pfxAnon_eq (pfx : String) (m : Nat) : pfx ++ "_Anon" ++ toString m = pfx ++ anonName m := by
  rw [String.append_assoc]; rfl

theorem shiftFull_renum (pfx : String) (n k : Nat) : RenumP (shiftFull pfx n k) pfx n k := by
  intro m hm
  rw [pfxAnon_eq, pfxAnon_eq, shiftFull_pfx, shift_anonName hm]

theorem shiftFull_lt (pfx : String) (n k : Nat) {m : Nat} (hm : m < n) :
    shiftFull pfx n k (pfx ++ "_Anon" ++ toString m) = pfx ++ "_Anon" ++ toString m := by
  rw [pfxAnon_eq, shiftFull_pfx, shift_anonName_lt hm]

theorem shiftFull_user (pfx : String) (n k : Nat) {x : String} (hx : isAnon x = false) :
    shiftFull pfx n k (pfx ++ x) = pfx ++ x := by
  rw [shiftFull_pfx, shift_user hx]

theorem shiftFull_injective (pfx : String) (n k : Nat) {s t : String}
    (h : shiftFull pfx n k s = shiftFull pfx n k t) : s = t := by
  have key : ∀ u : String, pfx.toList.isPrefixOf u.toList = true →
      u = pfx ++ String.ofList (u.toList.drop pfx.toList.length) := by
    intro u hu
    rw [List.isPrefixOf_iff_prefix, List.prefix_iff_eq_append] at hu
    apply String.toList_inj.1
    rw [String.toList_append, String.toList_ofList, hu]
  have hpre : ∀ y : String, pfx.toList.isPrefixOf (pfx ++ y).toList = true := by
    intro y
    rw [List.isPrefixOf_iff_prefix, String.toList_append]
    exact List.prefix_append _ _
  unfold shiftFull at h
  by_cases hs : pfx.toList.isPrefixOf s.toList = true <;> by_cases ht : pfx.toList.isPrefixOf t.toList = true
  · rw [if_pos hs, if_pos ht] at h
    have := shift_injective n k ((String.append_right_inj pfx).1 h)
    rw [key s hs, key t ht, this]
  · rw [if_pos hs, if_neg ht] at h
    rw [← h] at ht
    exact absurd (hpre _) ht
  · rw [if_neg hs, if_pos ht] at h
    rw [h] at hs
    exact absurd (hpre _) hs
  · rw [if_neg hs, if_neg ht] at h
    exact h

/-! #### what the earlier statements produced is fixed by a renaming that only moves later anonymous names -/

/-- `ρ` fixes everything bound in the environment and held in `Out` -/
structure FixInv (ρ : String → String) (e : Env) (o : Out) : Prop where
  seqs : SeqsRel ρ e.seqs e.seqs
  strands : StrandsRel ρ e.strands e.strands
  out : rnOut ρ o = o

theorem rnOut_fields {ρ : String → String} {o : Out} (h : rnOut ρ o = o) :
    o.domains.map (fun d => (ρ d.1, d.2)) = o.domains ∧ o.baseSeqs.map (fun d => (ρ d.1, rnSeg ρ d.2)) = o.baseSeqs ∧
    o.supSeqs.map (fun d => (ρ d.1, rnSeg ρ d.2)) = o.supSeqs ∧
    o.strands.map (fun s => (s.1, s.2.1, rnSeg ρ s.2.2)) = o.strands :=
  ⟨congrArg Out.domains h, congrArg Out.baseSeqs h, congrArg Out.supSeqs h, congrArg Out.strands h⟩

theorem fNucs_fixed {ρ : String → String} {fl : List FItem} (h : fl.map (rnF ρ) = fl) (x : List Nuc)
    (hx : rnSeg ρ x = x) : rnSeg ρ (fNucs x fl) = fNucs x fl := by
  have := fNucs_rn ρ x fl
  rw [h, hx] at this
  exact this.symm

theorem fDoms_fixed {ρ : String → String} {fl : List FItem} (h : fl.map (rnF ρ) = fl) (wd : String × List Char)
    (hx : ρ wd.1 = wd.1) : (fDoms wd fl).map (fun d => (ρ d.1, d.2)) = fDoms wd fl := by
  have := fDoms_rn ρ wd fl
  rw [h, hx] at this
  exact this.symm

theorem finishF_fixed {pfx : String} {ρ : String → String} {fl : List FItem} {n : Nat} {length : Option Nat}
    {r : List Nuc × List (String × List Char) × Nat} (hfl : fl.map (rnF ρ) = fl)
    (h : finishF pfx fl n length = .ok r)
    (hn : n < r.2.2 → ρ (pfx ++ "_Anon" ++ toString n) = pfx ++ "_Anon" ++ toString n) :
    rnSeg ρ r.1 = r.1 ∧ r.2.1.map (fun d => (ρ d.1, d.2)) = r.2.1 := by
  unfold finishF at h
  split at h
  · rename_i hw
    have e1 : (fDoms ("", []) fl).map (fun d => (ρ d.1, d.2)) = fDoms ("", []) fl := by
      have := fDoms_rn ρ ("", []) fl
      rw [hfl, fDoms_irrel (ρ "", []) ("", []) fl hw] at this
      exact this.symm
    have e0 := fNucs_fixed hfl [] rfl
    split at h
    · split at h
      · cases h
      · injection h with h; subst h; exact ⟨e0, e1⟩
    · injection h with h; subst h; exact ⟨e0, e1⟩
  · split at h
    · cases h
    · split at h
      · cases h
      · split at h
        · cases h
        · injection h with h
          subst h
          have hn' := hn (Nat.lt_succ_self n)
          exact ⟨fNucs_fixed hfl _ (by rw [rnSeg_fwd, hn']), fDoms_fixed hfl _ hn'⟩

theorem region_fixed {pfx : String} {ρ : String → String} {e : Env} (hs : SeqsRel ρ e.seqs e.seqs)
    {items : List SrcItem} {len : Option Nat} {r : List (List Nuc) × List (String × List Char) × Nat}
    (h : denoteRegion pfx e items len = .ok r)
    (hfix : ∀ m, e.anon ≤ m → m < r.2.2 → ρ (pfx ++ "_Anon" ++ toString m) = pfx ++ "_Anon" ++ toString m) :
    rnSeg ρ r.1.flatten = r.1.flatten ∧ r.2.1.map (fun d => (ρ d.1, d.2)) = r.2.1 := by
  have hf := denoteRegion_flat pfx e items len
  rw [h] at hf
  cases hb : blocks pfx e items e.anon false with
  | error err => simp [hb, Except.map] at hf
  | ok p =>
    simp only [hb, Except.map] at hf
    have hle := blocks_counter_le pfx e items e.anon false (bs := p.1) (n' := p.2) hb
    have hcnt : p.2 ≤ r.2.2 := by
      have := finishB_flat pfx p.1 p.2 len
      rw [denoteRegion_eq_blocks, hb] at h
      exact finishB_counter h
    have hfl := blocks_fixed pfx e hs items e.anon false (bs := p.1) (n' := p.2) hb
      (fun m h1 h2 => hfix m h1 (by omega))
    have := finishF_fixed (r := flat3 r) hfl hf.symm (fun hlt => hfix p.2 hle hlt)
    exact this

theorem denoteStmt_struct_inv {pfx : String} {e e1 : Env} {o o1 : Out} {opt : OptSrc} {name : String}
    {strands : List String} {domain : Bool} {text : List Char}
    (h : denoteStmt pfx e o (.struct opt name strands domain text) = .ok (e1, o1)) :
    e1 = e ∧ ∃ x, o1 = { o with structs := o.structs ++ [x] } := by
  rw [denoteStmt] at h
  simp only [bind, Except.bind, pure, Except.pure] at h
  repeat' split at h
  all_goals first
    | (cases h; done)
    | (simp [throw, throwThe, MonadExceptOf.throw] at h; done)
    | (simp only [Except.ok.injEq, Prod.mk.injEq] at h
       obtain ⟨h1, h2⟩ := h
       exact ⟨h1.symm, _, h2.symm⟩)

/-- the full name of a sequence the statement defines is fixed -/
def stmtNameFixed (ρ : String → String) (pfx : String) : Stmt → Prop
  | .seq name _ _ => ρ (pfx ++ name) = pfx ++ name
  | _ => True

theorem stmt_fixed {pfx : String} {ρ : String → String} {e e1 : Env} {o o1 : Out} {st : Stmt}
    (hI : FixInv ρ e o) (hname : stmtNameFixed ρ pfx st) (h : denoteStmt pfx e o st = .ok (e1, o1))
    (hfix : ∀ m, e.anon ≤ m → m < e1.anon → ρ (pfx ++ "_Anon" ++ toString m) = pfx ++ "_Anon" ++ toString m) :
    FixInv ρ e1 o1 ∧ e.anon ≤ e1.anon := by
  cases st with
  | seq name items len =>
    have hn : ρ (pfx ++ name) = pfx ++ name := hname
    by_cases hat : ∃ t, items = [.nuc t]
    · obtain ⟨text, rfl⟩ := hat
      rw [denoteStmt_atom] at h
      split at h
      · cases h
      · split at h
        · cases h
        · rename_i l c _
          injection h with h
          simp only [atomResult, Prod.mk.injEq] at h
          obtain ⟨rfl, rfl⟩ := h
          refine ⟨⟨hI.seqs.snoc name ⟨by rw [rnSeg_fwd, hn], rfl, by simp [rnSeg_fwd, hn]⟩, hI.strands, ?_⟩,
            Nat.le_refl _⟩
          cases l == 0
          · obtain ⟨d1, d2, d3, d4⟩ := rnOut_fields hI.out
            simp only [rnOut, Bool.false_eq_true, if_false, List.map_append, List.map_cons, List.map_nil, hn,
              rnSeg_fwd, d1, d2, d3, d4]
          · exact hI.out
    · have hat' : ∀ t, items ≠ [.nuc t] := fun t h => hat ⟨t, h⟩
      rw [denoteStmt_seq _ _ _ _ _ _ hat'] at h
      split at h
      · cases h
      · cases hr : denoteRegion pfx e items len with
        | error err => simp [hr] at h
        | ok r =>
          simp only [hr, Except.ok.injEq, seqResult, Prod.mk.injEq] at h
          obtain ⟨rfl, rfl⟩ := h
          obtain ⟨hf, hd⟩ := region_fixed hI.seqs hr hfix
          refine ⟨⟨hI.seqs.snoc name ⟨hf.symm, rfl, hf.symm⟩, hI.strands, ?_⟩, denoteRegion_anon_le hr⟩
          have hw : rnOut ρ (withNewDomains o r.2.1) = withNewDomains o r.2.1 := by
            rw [← rnOut_withNewDomains, hI.out, hd]
          cases r.1.flatten.isEmpty
          · obtain ⟨d1, d2, d3, d4⟩ := rnOut_fields hw
            simp only [rnOut, Bool.false_eq_true, if_false, List.map_append, List.map_cons, List.map_nil, hn, hf,
              d1, d2, d3, d4]
          · exact hw
  | strand dummy name items len =>
    rw [denoteStmt_strand] at h
    split at h
    · cases h
    · cases hr : denoteRegion pfx e items len with
      | error err => simp [hr] at h
      | ok r =>
        simp only [hr] at h
        split at h
        · cases h
        · simp only [Except.ok.injEq, strandResult, Prod.mk.injEq] at h
          obtain ⟨rfl, rfl⟩ := h
          obtain ⟨hf, hd⟩ := region_fixed hI.seqs hr hfix
          refine ⟨⟨hI.seqs, hI.strands.snoc name hf.symm, ?_⟩, denoteRegion_anon_le hr⟩
          have hw : rnOut ρ (withNewDomains o r.2.1) = withNewDomains o r.2.1 := by
            rw [← rnOut_withNewDomains, hI.out, hd]
          obtain ⟨d1, d2, d3, d4⟩ := rnOut_fields hw
          simp only [rnOut, List.map_append, List.map_cons, List.map_nil, hf, d1, d2, d3, d4]
  | struct opt name strands domain text =>
    obtain ⟨rfl, x, rfl⟩ := denoteStmt_struct_inv h
    refine ⟨⟨hI.seqs, hI.strands, ?_⟩, Nat.le_refl _⟩
    obtain ⟨d1, d2, d3, d4⟩ := rnOut_fields hI.out
    simp only [rnOut, d1, d2, d3, d4]
  | kinetic lo hi ins outs =>
    rw [denoteStmt_kinetic] at h
    split at h
    · cases h
    · split at h
      · cases h
      · injection h with h
        simp only [Prod.mk.injEq] at h
        obtain ⟨rfl, rfl⟩ := h
        refine ⟨⟨hI.seqs, hI.strands, ?_⟩, Nat.le_refl _⟩
        obtain ⟨d1, d2, d3, d4⟩ := rnOut_fields hI.out
        simp only [rnOut, d1, d2, d3, d4]

theorem stmts_fixed {pfx : String} {ρ : String → String} {e1 : Env} {o1 : Out} :
    ∀ (stmts : List Stmt) {e : Env} {o : Out}, FixInv ρ e o → (∀ st ∈ stmts, stmtNameFixed ρ pfx st) →
      denoteStmts pfx stmts e o = .ok (e1, o1) →
      (∀ m, e.anon ≤ m → m < e1.anon → ρ (pfx ++ "_Anon" ++ toString m) = pfx ++ "_Anon" ++ toString m) →
      FixInv ρ e1 o1 ∧ e.anon ≤ e1.anon
  | [], e, o, hI, _, h, _ => by
    simp only [denoteStmts, Except.ok.injEq, Prod.mk.injEq] at h
    obtain ⟨rfl, rfl⟩ := h
    exact ⟨hI, Nat.le_refl _⟩
  | st :: r, e, o, hI, hn, h, hfix => by
    simp only [denoteStmts] at h
    cases hs : denoteStmt pfx e o st with
    | error err => simp [hs] at h
    | ok p =>
      obtain ⟨e2, o2⟩ := p
      simp only [hs] at h
      -- monotonicity of the rest does not need fixedness: use the identity renaming
      have hmono : e2.anon ≤ e1.anon := by
        have hid : FixInv id e2 o2 := ⟨SeqsRel.refl_id _, StrandsRel.refl_id _, rnOut_id _⟩
        exact (stmts_fixed (ρ := id) r hid (fun s _ => by cases s <;> first | rfl | trivial) h (fun _ _ _ => rfl)).2
      have h1 := stmt_fixed hI (hn st List.mem_cons_self) hs (fun m h1 h2 => hfix m h1 (by omega))
      have h2 := stmts_fixed r h1.1 (fun s hs => hn s (List.mem_cons_of_mem _ hs)) h
        (fun m h3 h4 => hfix m (by omega) h4)
      exact ⟨h2.1, by omega⟩

def stmtItems : Stmt → List SrcItem
  | .seq _ items _ => items
  | .strand _ _ items _ => items
  | _ => []

/-- **Inertness, quoted region, with the renaming constructed.**  For a source whose defined sequence names
    are not of the reserved form and with no domain-level structure after the changed statement: there is a
    counter value `n1` (the counter at the insertion point) such that the component with a zero-length quoted
    region inserted denotes what the original denotes with `pfx ++ _Anon m ↦ pfx ++ _Anon (m+1)` for `m ≥ n1`
    (`shiftFull pfx n1 1`, an injective renaming that moves nothing else) and the counter one higher. -/
theorem inert_quoted_concrete (pfx : String) (a : Nat) (src src' : Src) (t i : Nat) (text : List Char)
    (h : InsertZero src src' t i (.nuc text)) (hq : resolve (parseQuoted text) none = .ok (0, []))
    (hnames : ∀ name items len, Stmt.seq name items len ∈ src.stmts → isAnon name = false)
    (hplain : ∀ s ∈ src.stmts.drop (t + 1), ∀ opt name strands domain text,
      s = .struct opt name strands domain text → domain = false) :
    ∃ n1, ExRel (CompRel (shiftFull pfx n1 1) 1) (denoteComp src pfx a) (denoteComp src' pfx a) := by
  obtain ⟨pre, st, st', post, h1, h2, hlen, hins⟩ := h.stmts
  have htake : src.stmts.take t = pre := by rw [h1, ← hlen]; simp
  have hdrop : src.stmts.drop t = st :: post := by rw [h1, ← hlen]; simp
  have hdrop1 : src.stmts.drop (t + 1) = post := by rw [h1, ← hlen]; simp
  have hget : src.stmts[t]? = some st := by rw [h1, ← hlen]; simp
  have hstNotStruct : ∀ opt name strands domain text, st ≠ .struct opt name strands domain text := by
    intro opt name strands domain text hc
    cases hins <;> cases hc
  -- every statement from `t` on is fine for any `shiftFull`
  have hokAll : ∀ n1, ∀ s ∈ src.stmts.drop t, stmtOk (shiftFull pfx n1 1) pfx s := by
    intro n1 s hs
    have hsm : s ∈ src.stmts := List.mem_of_mem_drop hs
    cases s with
    | seq name items len => exact shiftFull_user pfx n1 1 (hnames name items len hsm)
    | strand d name items len => trivial
    | struct opt name strands domain text =>
      rw [hdrop] at hs
      rcases List.mem_cons.1 hs with hs | hs
      · exact absurd hs.symm (hstNotStruct opt name strands domain text)
      · exact hplain _ (hdrop1 ▸ hs) opt name strands domain text rfl
    | kinetic lo hi ins outs => trivial
  cases hp : denoteStmts pfx pre { anon := a } {} with
  | error err =>
    refine ⟨0, inert_quoted pfx a src src' t i text h hq _ 0 ?_ (fun m hm => absurd hm (Nat.not_lt_zero m))
      (shiftFull_renum pfx 0 1) (hokAll 0)⟩
    intro env o hpre
    rw [htake, hp] at hpre
    cases hpre
  | ok p =>
    obtain ⟨env, o⟩ := p
    let n1 := env.anon + fixedNucs ((stmtItems st).take i)
    refine ⟨n1, inert_quoted pfx a src src' t i text h hq _ n1 ?_ (fun m hm => shiftFull_lt pfx n1 1 hm)
      (shiftFull_renum pfx n1 1) (hokAll n1)⟩
    intro env' o' hpre
    rw [htake, hp] at hpre
    injection hpre with hpre
    injection hpre with he ho
    subst he ho
    have h0 : FixInv (shiftFull pfx n1 1) ({ anon := a } : Env) ({} : Out) :=
      ⟨fun x => trivial, fun x => trivial, rfl⟩
    have hfx := stmts_fixed (ρ := shiftFull pfx n1 1) pre h0
      (fun s hs => by
        have hsm : s ∈ src.stmts := by rw [h1]; exact List.mem_append_left _ hs
        cases s with
        | seq name items len => exact shiftFull_user pfx n1 1 (hnames name items len hsm)
        | strand d name items len => trivial
        | struct opt name strands domain text => trivial
        | kinetic lo hi ins outs => trivial)
      hp
      (fun m _ h2 => shiftFull_lt pfx n1 1 (by
        show m < env.anon + fixedNucs ((stmtItems st).take i)
        omega))
    refine ⟨hfx.1.seqs, hfx.1.strands, hfx.1.out, ?_⟩
    intro name items len hst
    rcases hst with hst | ⟨d, hst⟩
    · rw [hget] at hst
      injection hst with hst
      subst hst
      rfl
    · rw [hget] at hst
      injection hst with hst
      subst hst
      rfl

end concrete

/-! ### the model side: nothing of length zero is emitted -/
section emitted
open Pepper.CompShift

theorem expand_length (w : Nat) : ∀ parts : List (Mult × Char),
    (expand w parts).length = fixedSum parts + w * wildCount parts
  | [] => rfl
  | (.num n, c) :: r => by simp [expand, fixedSum, wildCount, expand_length w r]; omega
  | (.wild, c) :: r => by simp [expand, fixedSum, wildCount, expand_length w r, Nat.mul_add]; omega

/-- the constraint string `resolve` returns has the length it returns -/
theorem resolve_length {parts : List (Mult × Char)} {len : Option Nat} {l : Nat} {c : List Char}
    (h : resolve parts len = .ok (l, c)) : c.length = l := by
  unfold resolve at h
  split at h
  · cases h
  · split at h
    · rename_i h0
      cases len with
      | none =>
        simp only [Except.ok.injEq, Prod.mk.injEq] at h
        obtain ⟨rfl, rfl⟩ := h
        simp [expand_length, h0]
      | some l0 =>
        dsimp only at h
        split at h
        · simp only [Except.ok.injEq, Prod.mk.injEq] at h
          obtain ⟨rfl, rfl⟩ := h
          rename_i heq
          simp [expand_length, h0, heq]
        · cases h
    · rename_i h1 h0
      have hw : wildCount parts = 1 := by omega
      cases len with
      | none => cases h
      | some l0 =>
        dsimp only at h
        split at h
        · cases h
        · simp only [Except.ok.injEq, Prod.mk.injEq] at h
          obtain ⟨rfl, rfl⟩ := h
          simp [expand_length, hw]; omega

/-- the item refers to an entry of the table and carries its length -/
def ItemOk (l : List SeqE) (i : ItemRef) : Prop := ∃ e ∈ l, e.name = i.name ∧ e.len = i.len

theorem ItemOk.mono {l : List SeqE} {i : ItemRef} (h : ItemOk l i) (x : List SeqE) : ItemOk (l ++ x) i := by
  obtain ⟨e, he, h1, h2⟩ := h
  exact ⟨e, List.mem_append_left _ he, h1, h2⟩

theorem ItemOk.map {l : List SeqE} {i : ItemRef} (h : ItemOk l i) (f : SeqE → SeqE)
    (hf : ∀ e, (f e).name = e.name ∧ (f e).len = e.len) : ItemOk (l.map f) i := by
  obtain ⟨e, he, h1, h2⟩ := h
  exact ⟨f e, List.mem_map_of_mem he, by rw [(hf e).1, h1], by rw [(hf e).2, h2]⟩

/-- the invariant of the elaboration loop used here (`a`: the anonymous counter) -/
structure Inv (s : St) (a : Nat) : Prop where
  fresh : ∀ e ∈ s.seqs, ∀ k, a ≤ k → e.name ≠ anonName k
  constLen : ∀ e ∈ s.seqs, e.isSup = false → e.const.length = e.len
  seqItems : ∀ e ∈ s.seqs, ∀ i ∈ e.items, ItemOk s.seqs i
  strandItems : ∀ t ∈ s.strands, ∀ i ∈ t.items, ItemOk s.seqs i

theorem findSeq_some {s : St} {n : String} {e : SeqE} (h : s.findSeq n = some e) : e ∈ s.seqs ∧ e.name = n := by
  unfold St.findSeq at h
  exact ⟨List.mem_of_find?_eq_some h, by simpa using List.find?_some h⟩

theorem mapM_mem {α β ε} {f : α → Except ε β} : ∀ {l : List α} {r : List β}, l.mapM f = .ok r →
    ∀ y ∈ r, ∃ x ∈ l, f x = .ok y
  | [], r, h, y, hy => by
    simp only [List.mapM_nil, pure, Except.pure, Except.ok.injEq] at h
    subst h
    cases hy
  | x :: t, r, h, y, hy => by
    simp only [List.mapM_cons, bind, Except.bind] at h
    cases hx : f x with
    | error e => simp [hx] at h
    | ok b =>
      simp only [hx] at h
      cases ht : List.mapM f t with
      | error e => simp [ht] at h
      | ok bs =>
        simp only [ht, pure, Except.pure, Except.ok.injEq] at h
        subst h
        rcases List.mem_cons.1 hy with rfl | hy
        · exact ⟨x, List.mem_cons_self, hx⟩
        · obtain ⟨x', hx', hfx⟩ := mapM_mem ht y hy
          exact ⟨x', List.mem_cons_of_mem _ hx', hfx⟩

theorem cleanConst_itemOk {s : St} (hit : ∀ e ∈ s.seqs, ∀ i ∈ e.items, ItemOk s.seqs i) :
    ∀ {items : List SrcItem} {cs : List CItem}, cleanConst s items = .ok cs →
      ∀ i bs, CItem.obj i bs ∈ cs → ItemOk s.seqs i
  | [], cs, h, i, bs, hm => by
    simp only [cleanConst, Except.ok.injEq] at h
    subst h
    cases hm
  | .nuc text :: r, cs, h, i, bs, hm => by
    simp only [cleanConst, bind, Except.bind, pure, Except.pure] at h
    cases hr : cleanConst s r with
    | error e => simp [hr] at h
    | ok rest =>
      simp only [hr, Except.ok.injEq] at h
      subst h
      rcases List.mem_cons.1 hm with hm | hm
      · cases hm
      · exact cleanConst_itemOk hit hr i bs hm
  | .ref n star :: r, cs, h, i, bs, hm => by
    simp only [cleanConst, bind, Except.bind, pure, Except.pure] at h
    cases hf : s.findSeq n with
    | none => simp [hf, throw, throwThe, MonadExceptOf.throw] at h
    | some e =>
      simp only [hf] at h
      cases hr : cleanConst s r with
      | error e => simp [hr] at h
      | ok rest =>
        simp only [hr, Except.ok.injEq] at h
        subst h
        rcases List.mem_cons.1 hm with hm | hm
        · injection hm with h1 _
          subst h1
          exact ⟨e, (findSeq_some hf).1, rfl, rfl⟩
        · exact cleanConst_itemOk hit hr i bs hm
  | .domains n star :: r, cs, h, i, bs, hm => by
    simp only [cleanConst, bind, Except.bind, pure, Except.pure] at h
    cases hf : s.findSeq n with
    | none => simp [hf, throw, throwThe, MonadExceptOf.throw] at h
    | some e =>
      simp only [hf] at h
      split at h
      · simp [throw, throwThe, MonadExceptOf.throw] at h
      · split at h
        · cases h
        · rename_i objs hobjs
          cases hr : cleanConst s r with
          | error e => simp [hr] at h
          | ok rest =>
            simp only [hr, Except.ok.injEq] at h
            subst h
            rcases List.mem_append.1 hm with hm | hm
            · obtain ⟨x, hx, hfx⟩ := mapM_mem hobjs _ hm
              split at hfx
              · injection hfx with hfx
                injection hfx with h1 _
                subst h1
                -- `x` is an item of a view of `e`
                have hxe : ∃ y ∈ e.items, y.name = x.name ∧ y.len = x.len := by
                  unfold itemsOfView at hx
                  split at hx
                  · simp only [List.mem_map, List.mem_reverse] at hx
                    obtain ⟨y, hy, rfl⟩ := hx
                    exact ⟨y, hy, rfl, rfl⟩
                  · exact ⟨x, hx, rfl, rfl⟩
                obtain ⟨y, hy, hn, hl⟩ := hxe
                obtain ⟨e', he', h1, h2⟩ := hit e (findSeq_some hf).1 y hy
                exact ⟨e', he', by rw [h1, hn], by rw [h2, hl]⟩
              · simp [throw, throwThe, MonadExceptOf.throw] at hfx
            · exact cleanConst_itemOk hit hr i bs hm

/-- what a built item list refers to: entries of the table or the anonymous sequences created with it -/
structure AccOk (l : List SeqE) (a0 : Nat) (items : List ItemRef) (newAnon : List SeqE) (anon : Nat) : Prop where
  items : ∀ i ∈ items, ItemOk l i ∨ ∃ e ∈ newAnon, e.name = i.name ∧ e.len = i.len
  anons : ∀ e ∈ newAnon, e.isSup = false ∧ e.const.length = e.len ∧ e.items = [] ∧
            ∃ k, a0 ≤ k ∧ k < anon ∧ e.name = anonName k
  nodup : (newAnon.map (·.name)).Nodup

theorem AccOk.addAnon {l : List SeqE} {a0 : Nat} {items : List ItemRef} {newAnon : List SeqE} {anon : Nat}
    (h : AccOk l a0 items newAnon anon) (ha : a0 ≤ anon) {len : Nat} {c : List Char} (hc : c.length = len)
    (items' : List ItemRef) (hi : ∀ i ∈ items', i ∈ items ∨ i = (mkAnon anon len c).ref) :
    AccOk l a0 items' (newAnon ++ [mkAnon anon len c]) (anon + 1) := by
  refine ⟨?_, ?_, ?_⟩
  · intro i hi'
    rcases hi i hi' with hm | rfl
    · rcases h.items i hm with h1 | ⟨e, he, h1, h2⟩
      · exact Or.inl h1
      · exact Or.inr ⟨e, List.mem_append_left _ he, h1, h2⟩
    · exact Or.inr ⟨mkAnon anon len c, by simp, rfl, rfl⟩
  · intro e he
    rcases List.mem_append.1 he with he | he
    · obtain ⟨h1, h2, h3, k, hk1, hk2, hk3⟩ := h.anons e he
      exact ⟨h1, h2, h3, k, hk1, by omega, hk3⟩
    · simp only [List.mem_singleton] at he
      subst he
      exact ⟨rfl, hc, rfl, anon, ha, by omega, rfl⟩
  · simp only [List.map_append, List.map_cons, List.map_nil]
    apply nodup_append_singleton h.nodup
    intro hm
    obtain ⟨e, he, hn⟩ := List.mem_map.1 hm
    obtain ⟨_, _, _, k, _, hk2, hk3⟩ := h.anons e he
    have : anonName k = anonName anon := by rw [← hk3, hn]; rfl
    have := anonName_inj this
    omega

theorem buildStep_ok {l : List SeqE} {a0 : Nat} {acc acc' : Acc} {c : CItem}
    (hc : ∀ i bs, c = .obj i bs → ItemOk l i)
    (h : AccOk l a0 acc.items acc.newAnon acc.anon) (ha : a0 ≤ acc.anon) (hs : buildStep acc c = .ok acc') :
    AccOk l a0 acc'.items acc'.newAnon acc'.anon := by
  cases c with
  | obj i bs =>
    simp only [buildStep, Except.ok.injEq] at hs
    subst hs
    refine ⟨?_, h.anons, h.nodup⟩
    intro j hj
    rcases List.mem_append.1 hj with hj | hj
    · exact h.items j hj
    · simp only [List.mem_singleton] at hj
      rw [hj]
      exact Or.inl (hc i bs rfl)
  | nuc parts =>
    simp only [buildStep] at hs
    split at hs
    · rename_i len c hres
      injection hs with hs
      subst hs
      exact h.addAnon ha (resolve_length hres) _ (fun i hi => by
        rcases List.mem_append.1 hi with hi | hi
        · exact Or.inl hi
        · exact Or.inr (by simpa using hi))
    · split at hs
      · cases hs
      · injection hs with hs
        subst hs
        exact h
    · cases hs

theorem buildFold_ok {l : List SeqE} {a0 : Nat} : ∀ {cs : List CItem} {acc acc' : Acc},
    (∀ i bs, CItem.obj i bs ∈ cs → ItemOk l i) →
    AccOk l a0 acc.items acc.newAnon acc.anon → a0 ≤ acc.anon → buildFold cs acc = .ok acc' →
    AccOk l a0 acc'.items acc'.newAnon acc'.anon
  | [], acc, acc', _, h, _, hs => by
    simp only [buildFold, Except.ok.injEq] at hs
    subst hs
    exact h
  | c :: r, acc, acc', hc, h, ha, hs => by
    simp only [buildFold] at hs
    cases h1 : buildStep acc c with
    | error e => simp [h1] at hs
    | ok acc1 =>
      simp only [h1] at hs
      have hok := buildStep_ok (fun i bs hcc => hc i bs (hcc ▸ List.mem_cons_self)) h ha h1
      exact buildFold_ok (fun i bs hm => hc i bs (List.mem_cons_of_mem _ hm)) hok
        (Nat.le_trans ha (buildStep_anon_le h1)) hs

theorem mem_insertAt {α} {l : List α} {i : Nat} {x y : α} (h : y ∈ insertAt l i x) : y ∈ l ∨ y = x := by
  unfold insertAt at h
  rcases List.mem_append.1 h with h | h
  · exact Or.inl (List.mem_of_mem_take h)
  · rcases List.mem_cons.1 h with h | h
    · exact Or.inr h
    · exact Or.inl (List.mem_of_mem_drop h)

theorem buildSuper_ok {l : List SeqE} {a : Nat} {cs : List CItem} {len : Option Nat} {b : Built}
    (hc : ∀ i bs, CItem.obj i bs ∈ cs → ItemOk l i) (hs : buildSuper a cs len = .ok b) :
    AccOk l a b.items b.newAnon b.anon := by
  simp only [buildSuper, bind, Except.bind] at hs
  cases hb : buildFold cs { anon := a } with
  | error e => simp [hb] at hs
  | ok acc =>
    have h0 : AccOk l a ({ anon := a } : Acc).items ({ anon := a } : Acc).newAnon ({ anon := a } : Acc).anon :=
      AccOk.mk (fun i hi => nomatch hi) (fun e he => nomatch he) List.nodup_nil
    have hok := buildFold_ok hc h0 (Nat.le_refl _) hb
    have hle : a ≤ acc.anon := buildFold_anon_le hb
    simp only [hb] at hs
    split at hs
    · split at hs
      · split at hs
        · injection hs with hs; subst hs; exact hok
        · cases hs
      · injection hs with hs; subst hs; exact hok
    · split at hs
      · cases hs
      · split at hs
        · cases hs
        · split at hs
          · cases hs
          · rename_i wl c hres
            injection hs with hs
            subst hs
            exact hok.addAnon hle (resolve_length hres) _ (fun i hi => mem_insertAt hi)

theorem findSeq_isSome_iff {s : St} {n : String} : (s.findSeq n).isSome = true ↔ ∃ e ∈ s.seqs, e.name = n := by
  unfold St.findSeq
  rw [List.find?_isSome]
  simp

def regStep (new : List SeqE) (s : St) (i : ItemRef) : St :=
  if (s.findSeq i.name).isSome then s
  else match new.find? (·.name == i.name) with
    | some e => { s with seqs := s.seqs ++ [e] }
    | none => s

theorem registerAnon_eq_fold (s : St) (b : Built) : registerAnon s b = b.items.foldl (regStep b.newAnon) s := rfl

theorem regFold_spec (new : List SeqE) : ∀ (its : List ItemRef) (s : St),
    (∃ X, (its.foldl (regStep new) s).seqs = s.seqs ++ X ∧ ∀ e ∈ X, e ∈ new) ∧
    (∀ i ∈ its, ((∃ e ∈ s.seqs, e.name = i.name) ∨ ∃ e ∈ new, e.name = i.name) →
      ∃ e' ∈ (its.foldl (regStep new) s).seqs, e'.name = i.name) ∧
    (its.foldl (regStep new) s).strands = s.strands
  | [], s => ⟨⟨[], by simp, (fun e he => nomatch he)⟩, (fun i hi _ => nomatch hi), rfl⟩
  | i :: r, s => by
    simp only [List.foldl_cons]
    by_cases hs : (s.findSeq i.name).isSome = true
    · have hstep : regStep new s i = s := by simp [regStep, hs]
      rw [hstep]
      obtain ⟨⟨X, hX, hXn⟩, hnames, hstr⟩ := regFold_spec new r s
      refine ⟨⟨X, hX, hXn⟩, ?_, hstr⟩
      intro j hj hcase
      rcases List.mem_cons.1 hj with rfl | hj
      · obtain ⟨e, he, hn⟩ := findSeq_isSome_iff.1 hs
        exact ⟨e, by rw [hX]; exact List.mem_append_left _ he, hn⟩
      · exact hnames j hj hcase
    · cases hf : new.find? (·.name == i.name) with
      | none =>
        have hstep : regStep new s i = s := by simp [regStep, hs, hf]
        rw [hstep]
        obtain ⟨⟨X, hX, hXn⟩, hnames, hstr⟩ := regFold_spec new r s
        refine ⟨⟨X, hX, hXn⟩, ?_, hstr⟩
        intro j hj hcase
        rcases List.mem_cons.1 hj with rfl | hj
        · rcases hcase with ⟨e, he, hn⟩ | ⟨e, he, hn⟩
          · exact absurd (findSeq_isSome_iff.2 ⟨e, he, hn⟩) hs
          · have := List.find?_eq_none.1 hf e he
            simp [hn] at this
        · exact hnames j hj hcase
      | some e0 =>
        have he0 : e0.name = i.name := by simpa using List.find?_some hf
        have he0m : e0 ∈ new := List.mem_of_find?_eq_some hf
        have hstep : regStep new s i = { s with seqs := s.seqs ++ [e0] } := by simp [regStep, hs, hf]
        rw [hstep]
        obtain ⟨⟨X, hX, hXn⟩, hnames, hstr⟩ := regFold_spec new r { s with seqs := s.seqs ++ [e0] }
        refine ⟨⟨e0 :: X, by rw [hX]; simp, ?_⟩, ?_, hstr⟩
        · intro e he
          rcases List.mem_cons.1 he with rfl | he
          · exact he0m
          · exact hXn e he
        · intro j hj hcase
          rcases List.mem_cons.1 hj with rfl | hj
          · exact ⟨e0, by rw [hX]; simp, he0⟩
          · apply hnames j hj
            rcases hcase with ⟨e, he, hn⟩ | h2
            · exact Or.inl ⟨e, List.mem_append_left _ he, hn⟩
            · exact Or.inr h2

/-- registering the anonymous sequences of a built object: the table grows by some of them, every item of
    the object is then an entry of the table with the length the item records -/
theorem registerAnon_ok {s : St} {a : Nat} {b : Built} (hfresh : ∀ e ∈ s.seqs, ∀ k, a ≤ k → e.name ≠ anonName k)
    (hb : AccOk s.seqs a b.items b.newAnon b.anon) :
    (∃ X, (registerAnon s b).seqs = s.seqs ++ X ∧ ∀ e ∈ X, e ∈ b.newAnon) ∧
    (∀ i ∈ b.items, ItemOk (registerAnon s b).seqs i) ∧ (registerAnon s b).strands = s.strands := by
  rw [registerAnon_eq_fold]
  obtain ⟨⟨X, hX, hXn⟩, hnames, hstr⟩ := regFold_spec b.newAnon b.items s
  refine ⟨⟨X, hX, hXn⟩, ?_, hstr⟩
  intro i hi
  rcases hb.items i hi with hok | ⟨e, he, hn, hl⟩
  · rw [hX]
    exact hok.mono X
  · obtain ⟨e', he', hn'⟩ := hnames i hi (Or.inr ⟨e, he, hn⟩)
    refine ⟨e', he', hn', ?_⟩
    rw [hX] at he'
    obtain ⟨_, _, _, k, hk1, _, hk3⟩ := hb.anons e he
    rcases List.mem_append.1 he' with he' | he'
    · exfalso
      exact hfresh e' he' k hk1 (by rw [hn', ← hn, hk3])
    · have := eq_of_nodup_map hb.nodup (hXn e' he') he (by rw [hn', hn])
      rw [this, hl]

theorem AccOk.mono {l : List SeqE} {a0 : Nat} {items : List ItemRef} {newAnon : List SeqE} {anon : Nat}
    (h : AccOk l a0 items newAnon anon) (x : List SeqE) : AccOk (l ++ x) a0 items newAnon anon :=
  ⟨fun i hi => (h.items i hi).imp (fun hk => hk.mono x) id, h.anons, h.nodup⟩

/-- a sequence statement defines a name that is not of the reserved form -/
def stmtNameOk : Stmt → Prop
  | .seq name _ _ => isAnon name = false
  | _ => True

theorem Inv.of_map {s s' : St} {a : Nat} (h : Inv s a) (f : SeqE → SeqE)
    (hf : ∀ e, (f e).name = e.name ∧ (f e).len = e.len ∧ (f e).isSup = e.isSup ∧ (f e).const = e.const ∧
               (f e).items = e.items)
    (hseqs : s'.seqs = s.seqs.map f) (hstr : s'.strands = s.strands) : Inv s' a := by
  refine ⟨?_, ?_, ?_, ?_⟩
  · intro e he k hk
    rw [hseqs] at he
    obtain ⟨e0, he0, rfl⟩ := List.mem_map.1 he
    rw [(hf e0).1]
    exact h.fresh e0 he0 k hk
  · intro e he hsup
    rw [hseqs] at he
    obtain ⟨e0, he0, rfl⟩ := List.mem_map.1 he
    rw [(hf e0).2.2.2.1, (hf e0).2.1]
    exact h.constLen e0 he0 (by rw [← (hf e0).2.2.1]; exact hsup)
  · intro e he i hi
    rw [hseqs] at he ⊢
    obtain ⟨e0, he0, rfl⟩ := List.mem_map.1 he
    rw [(hf e0).2.2.2.2] at hi
    exact (h.seqItems e0 he0 i hi).map f (fun e => ⟨(hf e).1, (hf e).2.1⟩)
  · intro t ht i hi
    rw [hstr] at ht
    rw [hseqs]
    exact (h.strandItems t ht i hi).map f (fun e => ⟨(hf e).1, (hf e).2.1⟩)

/-- the table after a super-sequence / strand was built and its anonymous sequences registered -/
theorem Inv.after_build {s : St} {a : Nat} (h : Inv s a) {cs : List CItem} {items : List SrcItem}
    (hc : cleanConst s items = .ok cs) {len : Option Nat} {b : Built} (hb : buildSuper a cs len = .ok b)
    (s1 : St) (extra : List SeqE) (hs1 : s1.seqs = s.seqs ++ extra)
    (hextra : ∀ e ∈ extra, (∀ k, e.name ≠ anonName k) ∧ e.isSup = true ∧ e.items = b.items) :
    (∀ e ∈ (registerAnon s1 b).seqs, ∀ k, b.anon ≤ k → e.name ≠ anonName k) ∧
    (∀ e ∈ (registerAnon s1 b).seqs, e.isSup = false → e.const.length = e.len) ∧
    (∀ e ∈ (registerAnon s1 b).seqs, ∀ i ∈ e.items, ItemOk (registerAnon s1 b).seqs i) ∧
    (∀ i ∈ b.items, ItemOk (registerAnon s1 b).seqs i) ∧
    (∀ t ∈ s.strands, ∀ i ∈ t.items, ItemOk (registerAnon s1 b).seqs i) ∧
    (registerAnon s1 b).strands = s1.strands := by
  have hle : a ≤ b.anon := buildSuper_anon_le hb
  have hacc : AccOk s1.seqs a b.items b.newAnon b.anon := by
    rw [hs1]
    exact (buildSuper_ok (cleanConst_itemOk h.seqItems hc) hb).mono extra
  have hfresh1 : ∀ e ∈ s1.seqs, ∀ k, a ≤ k → e.name ≠ anonName k := by
    intro e he k hk
    rw [hs1] at he
    rcases List.mem_append.1 he with he | he
    · exact h.fresh e he k hk
    · exact (hextra e he).1 k
  obtain ⟨⟨X, hX, hXn⟩, hitems, hstr⟩ := registerAnon_ok hfresh1 hacc
  have hmem : ∀ e ∈ (registerAnon s1 b).seqs, e ∈ s.seqs ∨ e ∈ extra ∨ e ∈ X := by
    intro e he
    rw [hX, hs1] at he
    rcases List.mem_append.1 he with he | he
    · rcases List.mem_append.1 he with he | he
      · exact Or.inl he
      · exact Or.inr (Or.inl he)
    · exact Or.inr (Or.inr he)
  have hmono : ∀ i, ItemOk s.seqs i → ItemOk (registerAnon s1 b).seqs i := by
    intro i hi
    rw [hX, hs1, List.append_assoc]
    exact hi.mono _
  refine ⟨?_, ?_, ?_, hitems, ?_, hstr⟩
  · intro e he k hk
    rcases hmem e he with he | he | he
    · exact h.fresh e he k (Nat.le_trans hle hk)
    · exact (hextra e he).1 k
    · obtain ⟨_, _, _, k0, _, hk2, hk3⟩ := hacc.anons e (hXn e he)
      rw [hk3]
      intro hc
      have := anonName_inj hc
      omega
  · intro e he hsup
    rcases hmem e he with he | he | he
    · exact h.constLen e he hsup
    · rw [(hextra e he).2.1] at hsup; cases hsup
    · exact (hacc.anons e (hXn e he)).2.1
  · intro e he i hi
    rcases hmem e he with he | he | he
    · exact hmono i (h.seqItems e he i hi)
    · rw [(hextra e he).2.2] at hi
      exact hitems i hi
    · rw [(hacc.anons e (hXn e he)).2.2.1] at hi
      cases hi
  · intro t ht i hi
    exact hmono i (h.strandItems t ht i hi)

theorem addStmt_inv {s s' : St} {a a' : Nat} (h : Inv s a) :
    ∀ {st : Stmt}, stmtNameOk st → addStmt s a st = .ok (s', a') → Inv s' a'
  | .seq name items len, hname, hs => by
    have hname' : ∀ k, name ≠ anonName k := fun k => not_isAnon_ne hname k
    unfold addStmt at hs
    by_cases hd : (s.findSeq name).isSome = true
    · simp [hd] at hs
    · simp only [hd, Bool.false_eq_true, if_false] at hs
      split at hs
      · split at hs
        · rename_i l c hres
          injection hs with hs; injection hs with hs ha; subst hs ha
          refine ⟨?_, ?_, ?_, ?_⟩
          · intro e he k hk
            rcases List.mem_append.1 he with he | he
            · exact h.fresh e he k hk
            · simp only [List.mem_singleton] at he
              subst he
              exact hname' k
          · intro e he hsup
            rcases List.mem_append.1 he with he | he
            · exact h.constLen e he hsup
            · simp only [List.mem_singleton] at he
              subst he
              exact resolve_length hres
          · intro e he i hi
            rcases List.mem_append.1 he with he | he
            · exact (h.seqItems e he i hi).mono _
            · simp only [List.mem_singleton] at he
              subst he
              cases hi
          · intro t ht i hi
            exact (h.strandItems t ht i hi).mono _
        · cases hs
      · cases hc : cleanConst s items with
        | error e => simp [hc, bind, Except.bind] at hs
        | ok cs =>
          cases hb : buildSuper a cs len with
          | error e => simp [hc, hb, bind, Except.bind] at hs
          | ok b =>
            simp only [hc, hb, bind, Except.bind, pure, Except.pure] at hs
            injection hs with hs; injection hs with hs ha; subst hs ha
            obtain ⟨h1, h2, h3, _, h5, h6⟩ := h.after_build hc hb
              { s with seqs := s.seqs ++ [⟨name, true, false, b.len, [], b.items, b.bases, false⟩] }
              [⟨name, true, false, b.len, [], b.items, b.bases, false⟩] rfl
              (fun e he => by
                simp only [List.mem_singleton] at he
                subst he
                exact ⟨hname', rfl, rfl⟩)
            exact ⟨h1, h2, h3, fun t ht i hi => h5 t (by rw [h6] at ht; exact ht) i hi⟩
  | .strand dummy name items len, _, hs => by
    unfold addStmt at hs
    by_cases hd : (s.findStrand name).isSome = true
    · simp [hd, throw, throwThe, MonadExceptOf.throw, bind, Except.bind] at hs
    · simp only [hd, Bool.false_eq_true, if_false] at hs
      cases hc : cleanConst s items with
      | error e => simp [hc, bind, Except.bind] at hs
      | ok cs =>
        cases hb : buildSuper a cs len with
        | error e => simp [hc, hb, bind, Except.bind] at hs
        | ok b =>
          simp only [hc, hb, bind, Except.bind, pure, Except.pure] at hs
          split at hs
          · simp [throw, throwThe, MonadExceptOf.throw] at hs
          · simp only [Except.ok.injEq, Prod.mk.injEq] at hs
            obtain ⟨hs, ha⟩ := hs
            subst hs ha
            obtain ⟨h1, h2, h3, h4, h5, h6⟩ := h.after_build hc hb
              { s with strands := s.strands ++ [⟨name, dummy, b.len, b.items, b.bases, false⟩] } [] (by simp)
              (fun e he => nomatch he)
            have hI2 : Inv (registerAnon { s with strands := s.strands ++ [⟨name, dummy, b.len, b.items, b.bases, false⟩] } b) b.anon := by
              refine ⟨h1, h2, h3, ?_⟩
              intro t ht i hi
              rw [h6] at ht
              rcases List.mem_append.1 ht with ht | ht
              · exact h5 t ht i hi
              · simp only [List.mem_singleton] at ht
                subst ht
                exact h4 i hi
            refine hI2.of_map (fun e => if b.bases.any (·.name == e.name) then { e with inStrand := true } else e)
              ?_ rfl rfl
            intro e
            split <;> exact ⟨rfl, rfl, rfl, rfl, rfl⟩
  | .struct opt name strands domain text, _, hs => by
    have hstr : ∀ t ∈ s.strands.map (fun (o : StrandE) => if strands.contains o.name then { o with inStructure := true } else o),
        ∀ i ∈ t.items, ItemOk s.seqs i := by
      intro t ht i hi
      obtain ⟨t0, ht0, rfl⟩ := List.mem_map.1 ht
      have : (if strands.contains t0.name then { t0 with inStructure := true } else t0).items = t0.items := by
        split <;> rfl
      rw [this] at hi
      exact h.strandItems t0 ht0 i hi
    unfold addStmt at hs
    simp only [bind, Except.bind, pure, Except.pure] at hs
    repeat' split at hs
    all_goals first
      | (cases hs; done)
      | (simp [throw, throwThe, MonadExceptOf.throw] at hs; done)
      | (simp only [Except.ok.injEq, Prod.mk.injEq] at hs
         obtain ⟨hs, ha⟩ := hs
         subst hs ha
         exact ⟨h.fresh, h.constLen, h.seqItems, hstr⟩)
  | .kinetic low high ins outs, _, hs => by
    unfold addStmt at hs
    simp only [bind, Except.bind, pure, Except.pure] at hs
    repeat' split at hs
    all_goals first
      | (cases hs; done)
      | (simp [throw, throwThe, MonadExceptOf.throw] at hs; done)
      | (simp only [Except.ok.injEq, Prod.mk.injEq] at hs
         obtain ⟨hs, ha⟩ := hs
         subst hs ha
         exact ⟨h.fresh, h.constLen, h.seqItems, h.strandItems⟩)

theorem addStmts_inv {s' : St} {a' : Nat} : ∀ (stmts : List Stmt) (s : St) (a : Nat), Inv s a →
    (∀ st ∈ stmts, stmtNameOk st) → addStmts s a stmts = .ok (s', a') → Inv s' a'
  | [], s, a, h, _, hs => by
    simp only [addStmts, Except.ok.injEq, Prod.mk.injEq] at hs
    obtain ⟨rfl, rfl⟩ := hs
    exact h
  | st :: r, s, a, h, hn, hs => by
    simp only [addStmts] at hs
    cases h1 : addStmt s a st with
    | error e => simp [h1] at hs
    | ok res =>
      obtain ⟨s1, a1⟩ := res
      simp only [h1] at hs
      exact addStmts_inv r s1 a1 (addStmt_inv h (hn st List.mem_cons_self) h1)
        (fun x hx => hn x (List.mem_cons_of_mem _ hx)) hs

theorem userNamesOk_stmt {src : Src} (hu : UserNamesOk src) : ∀ st ∈ src.stmts, stmtNameOk st := by
  intro st hst
  cases st with
  | seq name items len =>
    unfold UserNamesOk userNamesOk at hu
    simp only [List.all_eq_true, Bool.not_eq_true'] at hu
    apply hu
    simp only [srcSeqNames, List.mem_append, List.mem_flatMap]
    exact Or.inl ⟨_, hst, by simp [stmtSeqNames]⟩
  | strand d name items len => trivial
  | struct opt name strands domain text => trivial
  | kinetic lo hi ins outs => trivial

theorem load_inv {src : Src} (hu : UserNamesOk src) {n : Nat} {pfx : String} {a : Nat} {st : St} {a' : Nat}
    (h : load src n pfx a = .ok (st, a')) : Inv st a' := by
  unfold load at h
  by_cases hn : (src.params.length != n) = true
  · simp [hn, throw, throwThe, MonadExceptOf.throw, bind, Except.bind] at h
  · simp only [hn, Bool.false_eq_true, if_false, bind, Except.bind, pure, Except.pure] at h
    cases hs : addStmts { name := src.name, pfx := pfx, params := src.params } a src.stmts with
    | error e => simp [hs] at h
    | ok res =>
      obtain ⟨s1, a1⟩ := res
      simp only [hs] at h
      cases hio : addIO s1 src.inputs src.outputs with
      | error e => simp [hio] at h
      | ok s2 =>
        simp only [hio, Except.ok.injEq, Prod.mk.injEq] at h
        obtain ⟨rfl, rfl⟩ := h
        have h0 : Inv { name := src.name, pfx := pfx, params := src.params } a :=
          ⟨(fun e he => nomatch he), (fun e he => nomatch he), (fun e he => nomatch he), (fun t ht => nomatch ht)⟩
        have h1 := addStmts_inv src.stmts _ a h0 (userNamesOk_stmt hu) hs
        obtain ⟨e1, e2, _, _⟩ := addIO_tables hio
        refine ⟨?_, ?_, ?_, ?_⟩
        · rw [e1]; exact h1.fresh
        · rw [e1]; exact h1.constLen
        · rw [e1]; exact h1.seqItems
        · rw [e1, e2]; exact h1.strandItems

theorem itemRaw_cases (p : String) (i : ItemRef) :
    Emit.itemRaw p i = p ++ i.name ∨ Emit.itemRaw p i = p ++ i.name ++ "*" := by
  unfold Emit.itemRaw fullName
  cases i.rev
  · left; simp
  · right; rfl

theorem raw_items_ok {s : St} {items : List ItemRef} (h : ∀ i ∈ items, ItemOk s.seqs i) :
    ∀ raw ∈ (items.filter (!·.dummy)).map (Emit.itemRaw s.pfx),
      ∃ e ∈ s.seqs, e.len ≠ 0 ∧ (raw = s.pfx ++ e.name ∨ raw = s.pfx ++ e.name ++ "*") := by
  intro raw hr
  obtain ⟨i, hi, rfl⟩ := List.mem_map.1 hr
  obtain ⟨hi1, hi2⟩ := List.mem_filter.1 hi
  obtain ⟨e, he, hn, hl⟩ := h i hi1
  refine ⟨e, he, ?_, ?_⟩
  · rw [hl]
    simpa [ItemRef.dummy] using hi2
  · rw [hn]
    exact itemRaw_cases s.pfx i

/-- nothing of length zero is emitted, and nothing emitted mentions an object of length zero -/
theorem compStmts_no_zero {s : St} {a : Nat} (hI : Inv s a) (hN : NamesNodup s) :
    (∀ name tmpl, Pil.Stmt.seq name tmpl ∈ Emit.compStmts s → tmpl ≠ []) ∧
    (∀ e ∈ s.seqs, e.len = 0 → s.pfx ++ e.name ∉ seqDeclNames (Emit.compStmts s)) ∧
    (∀ e ∈ s.seqs, e.len ≠ 0 → s.pfx ++ e.name ∈ seqDeclNames (Emit.compStmts s)) ∧
    (∀ name items, Pil.Stmt.sup name items ∈ Emit.compStmts s → ∀ raw ∈ items,
      ∃ e ∈ s.seqs, e.len ≠ 0 ∧ (raw = s.pfx ++ e.name ∨ raw = s.pfx ++ e.name ++ "*")) ∧
    (∀ name d items, Pil.Stmt.strand name d items ∈ Emit.compStmts s → ∀ raw ∈ items,
      ∃ e ∈ s.seqs, e.len ≠ 0 ∧ (raw = s.pfx ++ e.name ∨ raw = s.pfx ++ e.name ++ "*")) := by
  refine ⟨?_, ?_, ?_, ?_, ?_⟩
  · intro name tmpl hm
    simp only [Emit.compStmts, List.mem_append, List.mem_map, List.mem_filter, St.baseSeqs, St.supSeqs] at hm
    rcases hm with ((⟨e, ⟨⟨he, hsup⟩, hlen⟩, heq⟩ | ⟨e, _, heq⟩) | ⟨e, _, heq⟩) | ⟨e, _, heq⟩
    · injection heq with _ h2
      subst h2
      have hc := hI.constLen e he (by simpa using hsup)
      intro hnil
      rw [hnil] at hc
      simp at hlen
      exact hlen hc.symm
    · cases heq
    · cases heq
    · cases heq
  · intro e he hlen hm
    rw [seqDeclNames_compStmts] at hm
    obtain ⟨e', he', hn⟩ := List.mem_map.1 hm
    have hn' : e'.name = e.name := (String.append_right_inj s.pfx).1 hn
    have he'm : e' ∈ s.seqs ∧ e'.len ≠ 0 := by
      rcases List.mem_append.1 he' with h | h
      · obtain ⟨h1, h2⟩ := List.mem_filter.1 h
        exact ⟨h1, by simp at h2; exact h2.1⟩
      · obtain ⟨h1, h2⟩ := List.mem_filter.1 h
        exact ⟨h1, by simp at h2; exact h2.1⟩
    have := eq_of_nodup_map hN.seqs he'm.1 he hn'
    rw [this] at he'm
    exact he'm.2 hlen
  · intro e he hlen
    rw [seqDeclNames_compStmts]
    apply List.mem_map.2
    refine ⟨e, ?_, rfl⟩
    apply List.mem_append.2
    cases hsup : e.isSup
    · left; exact List.mem_filter.2 ⟨he, by simp [hlen, hsup]⟩
    · right; exact List.mem_filter.2 ⟨he, by simp [hlen, hsup]⟩
  · intro name items hm
    simp only [Emit.compStmts, List.mem_append, List.mem_map, List.mem_filter, St.baseSeqs, St.supSeqs] at hm
    rcases hm with ((⟨e, _, heq⟩ | ⟨e, ⟨⟨he, _⟩, _⟩, heq⟩) | ⟨e, _, heq⟩) | ⟨e, _, heq⟩
    · cases heq
    · injection heq with _ h2
      subst h2
      exact raw_items_ok (hI.seqItems e he)
    · cases heq
    · cases heq
  · intro name d items hm
    simp only [Emit.compStmts, List.mem_append, List.mem_map, List.mem_filter, St.baseSeqs, St.supSeqs] at hm
    rcases hm with ((⟨e, _, heq⟩ | ⟨e, _, heq⟩) | ⟨e, he, heq⟩) | ⟨e, _, heq⟩
    · cases heq
    · cases heq
    · injection heq with _ _ h3
      subst h3
      exact raw_items_ok (hI.strandItems e he)
    · cases heq

end emitted

end Pepper.DenoteZero
