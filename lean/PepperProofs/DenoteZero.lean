import PepperModel.Denote
import PepperModel.Emit
import PepperProofs.CompShift
/-!
# Zero-length domains are inert (C14): the specification side, index-free

`Denote.denoteItems` / `denoteRegion` keep positions (segment indices of the new domains and of the wildcard
placeholder).  Here the same computation is described without indices: an item list yields a list of
*blocks* (`blocks`): a plain segment, a resolved quoted region (its domain name, template and nucleotides) or
the wildcard placeholder; `finishB` resolves the wildcard.  `denoteRegion_eq_blocks` proves the two
descriptions equal.  On blocks, inserting a zero-length item is inserting one block with an empty segment,
the renumbering of later anonymous regions is a `map`, and a change of the *segmentation* of bound names (not
of their nucleotides) only re-chunks plain blocks.
-/
set_option linter.unusedSimpArgs false
namespace Pepper.DenoteZero
open Pepper Pepper.Comp Pepper.Constraint Pepper.Denote

/-! ### blocks -/

inductive Blk
  | plain (seg : List Nuc)
  | anon (name : String) (c : List Char) (seg : List Nuc)
  | wild (parts : List (Mult × Char))
deriving Repr

def Blk.seg : Blk → List Nuc
  | .plain s => s
  | .anon _ _ s => s
  | .wild _ => []

def Blk.isWild : Blk → Bool
  | .wild _ => true
  | _ => false

def hasWild (bs : List Blk) : Bool := bs.any Blk.isWild

/-- the new blocks of an item list, and the counter afterwards; `w`: a wildcard region was already seen -/
def blocks (pfx : String) (env : Env) : List SrcItem → Nat → Bool → Except Denote.Err (List Blk × Nat)
  | [], n, _ => .ok ([], n)
  | .ref x star :: r, n, w =>
    match env.seqs.lookup x with
    | none => .error .undefined
    | some b =>
      match blocks pfx env r n w with
      | .error e => .error e
      | .ok p => .ok (.plain (if star then rc b.nucs else b.nucs) :: p.1, p.2)
  | .domains x star :: r, n, w =>
    match env.seqs.lookup x with
    | none => .error .undefined
    | some b =>
      if !b.isSup then .error .undefined
      else match blocks pfx env r n w with
        | .error e => .error e
        | .ok p => .ok ((if star then rcSegs b.segs else b.segs).map .plain ++ p.1, p.2)
  | .nuc text :: r, n, w =>
    match resolve (parseQuoted text) none with
    | .ok (l, c) =>
      (match blocks pfx env r (n + 1) w with
       | .error e => .error e
       | .ok p => .ok (.anon (pfx ++ "_Anon" ++ toString n) c (fwd (pfx ++ "_Anon" ++ toString n) l) :: p.1, p.2))
    | .error .wildNoLength =>
      if w then .error .wildcard
      else (match blocks pfx env r n true with
        | .error e => .error e
        | .ok p => .ok (.wild (parseQuoted text) :: p.1, p.2))
    | .error _ => .error .wildcard

/-! ### the accumulator of `denoteItems` read off a block list -/

def domsAt : Nat → List Blk → List (Nat × String × List Char)
  | _, [] => []
  | k, .anon nm c _ :: r => (k, nm, c) :: domsAt (k + 1) r
  | k, .plain _ :: r => domsAt (k + 1) r
  | k, .wild _ :: r => domsAt (k + 1) r

def wildAt : Nat → List Blk → Option (Nat × List (Mult × Char))
  | _, [] => none
  | k, .wild p :: _ => some (k, p)
  | k, .plain _ :: r => wildAt (k + 1) r
  | k, .anon _ _ _ :: r => wildAt (k + 1) r

def toAcc (bs : List Blk) (n : Nat) : ItemsAcc := ⟨bs.map Blk.seg, domsAt 0 bs, wildAt 0 bs, n⟩

theorem domsAt_append : ∀ (k : Nat) (xs ys : List Blk),
    domsAt k (xs ++ ys) = domsAt k xs ++ domsAt (k + xs.length) ys
  | k, [], ys => by simp [domsAt]
  | k, .anon nm c s :: r, ys => by
    simp only [List.cons_append, domsAt, domsAt_append (k + 1) r ys, List.length_cons]
    congr 3; omega
  | k, .plain s :: r, ys => by
    simp only [List.cons_append, domsAt, domsAt_append (k + 1) r ys, List.length_cons]
    congr 2; omega
  | k, .wild p :: r, ys => by
    simp only [List.cons_append, domsAt, domsAt_append (k + 1) r ys, List.length_cons]
    congr 2; omega

theorem wildAt_append : ∀ (k : Nat) (xs ys : List Blk),
    wildAt k (xs ++ ys) = (wildAt k xs).or (wildAt (k + xs.length) ys)
  | k, [], ys => by simp [wildAt]
  | k, .wild p :: r, ys => by simp [wildAt]
  | k, .plain s :: r, ys => by
    simp only [List.cons_append, wildAt, wildAt_append (k + 1) r ys, List.length_cons]
    congr 2; omega
  | k, .anon nm c s :: r, ys => by
    simp only [List.cons_append, wildAt, wildAt_append (k + 1) r ys, List.length_cons]
    congr 2; omega

theorem wildAt_isSome : ∀ (k : Nat) (bs : List Blk), (wildAt k bs).isSome = hasWild bs
  | _, [] => rfl
  | k, .wild p :: r => by simp [wildAt, hasWild, Blk.isWild]
  | k, .plain s :: r => by
    have := wildAt_isSome (k + 1) r
    simpa [wildAt, hasWild, Blk.isWild] using this
  | k, .anon nm c s :: r => by
    have := wildAt_isSome (k + 1) r
    simpa [wildAt, hasWild, Blk.isWild] using this

theorem domsAt_plain (k : Nat) (segs : List (List Nuc)) : domsAt k (segs.map .plain) = [] := by
  induction segs generalizing k with
  | nil => rfl
  | cons s r ih => simp [domsAt, ih]

theorem wildAt_plain (k : Nat) (segs : List (List Nuc)) : wildAt k (segs.map .plain) = none := by
  induction segs generalizing k with
  | nil => rfl
  | cons s r ih => simp [wildAt, ih]

theorem seg_plain (segs : List (List Nuc)) : (segs.map Blk.plain).map Blk.seg = segs := by
  induction segs with
  | nil => rfl
  | cons s r ih => simp [Blk.seg, ih]

theorem hasWild_append (xs ys : List Blk) : hasWild (xs ++ ys) = (hasWild xs || hasWild ys) := by
  simp [hasWild]

theorem hasWild_plain (segs : List (List Nuc)) : hasWild (segs.map .plain) = false := by
  rw [← wildAt_isSome 0, wildAt_plain]; rfl

theorem seg_plain' (segs : List (List Nuc)) : List.map (Blk.seg ∘ Blk.plain) segs = segs := by
  induction segs with
  | nil => rfl
  | cons s r ih => simp [Blk.seg, ih]

theorem hasWild_snoc_plain (bs : List Blk) (s : List Nuc) : hasWild (bs ++ [.plain s]) = hasWild bs := by
  simp [hasWild, Blk.isWild]
theorem hasWild_snoc_anon (bs : List Blk) (nm : String) (c : List Char) (s : List Nuc) :
    hasWild (bs ++ [.anon nm c s]) = hasWild bs := by
  simp [hasWild, Blk.isWild]
theorem hasWild_snoc_wild (bs : List Blk) (p : List (Mult × Char)) : hasWild (bs ++ [.wild p]) = true := by
  simp [hasWild, Blk.isWild]

/-- `denoteItems` from the accumulator of `bs` is the accumulator of `bs` followed by the new blocks -/
theorem denoteItems_blocks (pfx : String) (env : Env) :
    ∀ (items : List SrcItem) (bs : List Blk) (n : Nat),
      denoteItems pfx env items (toAcc bs n) =
        (blocks pfx env items n (hasWild bs)).map (fun p => toAcc (bs ++ p.1) p.2)
  | [], bs, n => by simp [denoteItems, blocks, Except.map]
  | .ref x star :: r, bs, n => by
    simp only [denoteItems, blocks]
    cases env.seqs.lookup x with
    | none => rfl
    | some b =>
      dsimp only
      have ih := denoteItems_blocks pfx env r (bs ++ [.plain (if star then rc b.nucs else b.nucs)]) n
      have e1 : (⟨(toAcc bs n).segs ++ [if star then rc b.nucs else b.nucs], (toAcc bs n).newDomains,
            (toAcc bs n).wild, (toAcc bs n).anon⟩ : ItemsAcc) =
          toAcc (bs ++ [.plain (if star then rc b.nucs else b.nucs)]) n := by
        simp [toAcc, domsAt_append, wildAt_append, domsAt, wildAt, Blk.seg]
      rw [e1, ih, hasWild_snoc_plain]
      cases blocks pfx env r n (hasWild bs) with
      | error e => rfl
      | ok p => simp [Except.map]
  | .domains x star :: r, bs, n => by
    simp only [denoteItems, blocks]
    cases env.seqs.lookup x with
    | none => rfl
    | some b =>
      dsimp only
      by_cases hs : b.isSup = true
      · simp only [hs, Bool.not_true, Bool.false_eq_true, if_false]
        have ih := denoteItems_blocks pfx env r (bs ++ (if star then rcSegs b.segs else b.segs).map .plain) n
        have e1 : (⟨(toAcc bs n).segs ++ (if star then rcSegs b.segs else b.segs), (toAcc bs n).newDomains,
              (toAcc bs n).wild, (toAcc bs n).anon⟩ : ItemsAcc) =
            toAcc (bs ++ (if star then rcSegs b.segs else b.segs).map .plain) n := by
          simp [toAcc, domsAt_append, wildAt_append, domsAt_plain, wildAt_plain, seg_plain']
        rw [e1, ih, hasWild_append, hasWild_plain, Bool.or_false]
        cases blocks pfx env r n (hasWild bs) with
        | error e => rfl
        | ok p => simp [Except.map]
      · have hs : b.isSup = false := by simpa using hs
        simp [hs, Except.map]
  | .nuc text :: r, bs, n => by
    have hlen : (toAcc bs n).segs.length = bs.length := by simp [toAcc]
    have hanon : (toAcc bs n).anon = n := rfl
    cases hres : resolve (parseQuoted text) none with
    | ok lc =>
      obtain ⟨l, c⟩ := lc
      simp only [denoteItems, blocks, hres]
      have ih := denoteItems_blocks pfx env r
        (bs ++ [.anon (pfx ++ "_Anon" ++ toString n) c (fwd (pfx ++ "_Anon" ++ toString n) l)]) (n + 1)
      have e1 : (⟨(toAcc bs n).segs ++ [fwd (pfx ++ "_Anon" ++ toString (toAcc bs n).anon) l],
            (toAcc bs n).newDomains ++ [((toAcc bs n).segs.length, pfx ++ "_Anon" ++ toString (toAcc bs n).anon, c)],
            (toAcc bs n).wild, (toAcc bs n).anon + 1⟩ : ItemsAcc) =
          toAcc (bs ++ [.anon (pfx ++ "_Anon" ++ toString n) c (fwd (pfx ++ "_Anon" ++ toString n) l)]) (n + 1) := by
        simp [toAcc, domsAt_append, wildAt_append, domsAt, wildAt, Blk.seg]
      rw [e1, ih, hasWild_snoc_anon]
      cases blocks pfx env r (n + 1) (hasWild bs) with
      | error e => rfl
      | ok p => simp [Except.map]
    | error e =>
      cases e with
      | wildNoLength =>
        simp only [denoteItems, blocks, hres]
        have hw : (toAcc bs n).wild.isSome = hasWild bs := wildAt_isSome 0 bs
        rw [hw]
        by_cases hh : hasWild bs = true
        · simp [hh, Except.map]
        · have hh : hasWild bs = false := by simpa using hh
          simp only [hh, Bool.false_eq_true, if_false]
          have ih := denoteItems_blocks pfx env r (bs ++ [.wild (parseQuoted text)]) n
          have e1 : (⟨(toAcc bs n).segs ++ [[]], (toAcc bs n).newDomains,
                some ((toAcc bs n).segs.length, parseQuoted text), (toAcc bs n).anon⟩ : ItemsAcc) =
              toAcc (bs ++ [.wild (parseQuoted text)]) n := by
            have hn : wildAt 0 bs = none := by
              have := wildAt_isSome 0 bs
              rw [hh] at this
              cases h : wildAt 0 bs with
              | none => rfl
              | some x => simp [h] at this
            simp [toAcc, domsAt_append, wildAt_append, domsAt, wildAt, Blk.seg, hn]
          rw [e1, ih, hasWild_snoc_wild]
          cases blocks pfx env r n true with
          | error e => rfl
          | ok p => simp [Except.map]
      | tooManyWild => simp [denoteItems, blocks, hres, Except.map]
      | mismatch => simp [denoteItems, blocks, hres, Except.map]
      | tooShort => simp [denoteItems, blocks, hres, Except.map]

/-! ### resolving the wildcard, index-free -/

def wildParts : List Blk → Option (List (Mult × Char))
  | [] => none
  | .wild p :: _ => some p
  | .plain _ :: r => wildParts r
  | .anon _ _ _ :: r => wildParts r

/-- the segments, with the wildcard placeholder filled by `x` -/
def fillSegs (x : List Nuc) : List Blk → List (List Nuc)
  | [] => []
  | .wild _ :: r => x :: fillSegs x r
  | .plain s :: r => s :: fillSegs x r
  | .anon _ _ s :: r => s :: fillSegs x r

/-- the new domains in item order -/
def domsOf : List Blk → List (String × List Char)
  | [] => []
  | .anon nm c _ :: r => (nm, c) :: domsOf r
  | .plain _ :: r => domsOf r
  | .wild _ :: r => domsOf r

/-- the new domains in item order, the wildcard region's domain `wd` at the place of its item -/
def fillDoms (wd : String × List Char) : List Blk → List (String × List Char)
  | [] => []
  | .anon nm c _ :: r => (nm, c) :: fillDoms wd r
  | .plain _ :: r => fillDoms wd r
  | .wild _ :: r => wd :: fillDoms wd r

def fixedLen (bs : List Blk) : Nat := ((bs.map Blk.seg).map List.length).sum

def finishB (pfx : String) (bs : List Blk) (n : Nat) (length : Option Nat) :
    Except Denote.Err (List (List Nuc) × List (String × List Char) × Nat) :=
  match wildParts bs with
  | none =>
    match length with
    | some l => if l != fixedLen bs then .error .length else .ok (bs.map Blk.seg, domsOf bs, n)
    | none => .ok (bs.map Blk.seg, domsOf bs, n)
  | some parts =>
    match length with
    | none => .error .wildcard
    | some l =>
      if l < fixedLen bs then .error .length
      else match resolve parts (some (l - fixedLen bs)) with
        | .error _ => .error .length
        | .ok (wl, c) =>
          .ok (fillSegs (fwd (pfx ++ "_Anon" ++ toString n) wl) bs,
               fillDoms (pfx ++ "_Anon" ++ toString n, c) bs, n + 1)

theorem domsAt_snd : ∀ (k : Nat) (bs : List Blk), (domsAt k bs).map (·.2) = domsOf bs
  | _, [] => rfl
  | k, .anon nm c s :: r => by simp [domsAt, domsOf, domsAt_snd (k + 1) r]
  | k, .plain s :: r => by simp [domsAt, domsOf, domsAt_snd (k + 1) r]
  | k, .wild p :: r => by simp [domsAt, domsOf, domsAt_snd (k + 1) r]

theorem domsAt_range : ∀ (k : Nat) (bs : List Blk), ∀ d ∈ domsAt k bs, k ≤ d.1 ∧ d.1 < k + bs.length
  | _, [], d, h => nomatch h
  | k, .anon nm c s :: r, d, h => by
    simp only [domsAt, List.mem_cons] at h
    rcases h with rfl | h
    · simp
    · have := domsAt_range (k + 1) r d h
      simp only [List.length_cons]; omega
  | k, .plain s :: r, d, h => by
    have := domsAt_range (k + 1) r d h
    simp only [List.length_cons]; omega
  | k, .wild p :: r, d, h => by
    have := domsAt_range (k + 1) r d h
    simp only [List.length_cons]; omega

theorem wildAt_none_iff : ∀ (k : Nat) (bs : List Blk), wildAt k bs = none ↔ hasWild bs = false := by
  intro k bs
  have := wildAt_isSome k bs
  cases h : wildAt k bs with
  | none => simp [h] at this; simp [this]
  | some x => simp [h] at this; simp [this]

theorem wildAt_decomp : ∀ (k : Nat) (bs : List Blk) {i : Nat} {p : List (Mult × Char)}, wildAt k bs = some (i, p) →
    ∃ pre post, bs = pre ++ .wild p :: post ∧ i = k + pre.length ∧ hasWild pre = false
  | _, [], _, _, h => nomatch h
  | k, .wild q :: r, i, p, h => by
    simp only [wildAt, Option.some.injEq, Prod.mk.injEq] at h
    obtain ⟨rfl, rfl⟩ := h
    exact ⟨[], r, rfl, rfl, rfl⟩
  | k, .plain s :: r, i, p, h => by
    obtain ⟨pre, post, e1, e2, e3⟩ := wildAt_decomp (k + 1) r h
    refine ⟨.plain s :: pre, post, by rw [e1]; rfl, by simp only [List.length_cons]; omega, ?_⟩
    simpa [hasWild, Blk.isWild] using e3
  | k, .anon nm c s :: r, i, p, h => by
    obtain ⟨pre, post, e1, e2, e3⟩ := wildAt_decomp (k + 1) r h
    refine ⟨.anon nm c s :: pre, post, by rw [e1]; rfl, by simp only [List.length_cons]; omega, ?_⟩
    simpa [hasWild, Blk.isWild] using e3

theorem noWild_facts : ∀ (bs : List Blk), hasWild bs = false →
    wildParts bs = none ∧ (∀ x, fillSegs x bs = bs.map Blk.seg) ∧ (∀ wd, fillDoms wd bs = domsOf bs)
  | [], _ => ⟨rfl, fun _ => rfl, fun _ => rfl⟩
  | .wild p :: r, h => by simp [hasWild, Blk.isWild] at h
  | .plain s :: r, h => by
    have h' : hasWild r = false := by simpa [hasWild, Blk.isWild] using h
    obtain ⟨a, b, c⟩ := noWild_facts r h'
    exact ⟨by simp [wildParts, a], fun x => by simp [fillSegs, b, Blk.seg], fun wd => by simp [fillDoms, domsOf, c]⟩
  | .anon nm c0 s :: r, h => by
    have h' : hasWild r = false := by simpa [hasWild, Blk.isWild] using h
    obtain ⟨a, b, c⟩ := noWild_facts r h'
    exact ⟨by simp [wildParts, a], fun x => by simp [fillSegs, b, Blk.seg], fun wd => by simp [fillDoms, domsOf, c]⟩

theorem wildParts_append_noWild (pre : List Blk) (h : hasWild pre = false) (rest : List Blk) :
    wildParts (pre ++ rest) = wildParts rest := by
  induction pre with
  | nil => rfl
  | cons b r ih =>
    cases b with
    | wild p => simp [hasWild, Blk.isWild] at h
    | plain s => simpa [wildParts] using ih (by simpa [hasWild, Blk.isWild] using h)
    | anon nm c s => simpa [wildParts] using ih (by simpa [hasWild, Blk.isWild] using h)

theorem fillSegs_append (x : List Nuc) (a b : List Blk) : fillSegs x (a ++ b) = fillSegs x a ++ fillSegs x b := by
  induction a with
  | nil => rfl
  | cons h t ih => cases h <;> simp [fillSegs, ih]

theorem fillDoms_append (wd : String × List Char) (a b : List Blk) :
    fillDoms wd (a ++ b) = fillDoms wd a ++ fillDoms wd b := by
  induction a with
  | nil => rfl
  | cons h t ih => cases h <;> simp [fillDoms, ih]

theorem domsOf_append (a b : List Blk) : domsOf (a ++ b) = domsOf a ++ domsOf b := by
  induction a with
  | nil => rfl
  | cons h t ih => cases h <;> simp [domsOf, ih]

theorem drop_len_succ {α} {a : List α} {n : Nat} (h : a.length = n) (x : α) (b : List α) :
    (a ++ x :: b).drop (n + 1) = b := by
  subst h
  induction a with
  | nil => rfl
  | cons h t ih => simp [ih]

/-- at most one wildcard block -/
def OneWild (bs : List Blk) : Prop := bs.countP Blk.isWild ≤ 1

theorem countP_zero_iff (bs : List Blk) : bs.countP Blk.isWild = 0 ↔ hasWild bs = false := by
  simp [hasWild, List.countP_eq_zero]

theorem blocks_oneWild (pfx : String) (env : Env) :
    ∀ (items : List SrcItem) (n : Nat) (w : Bool) {bs : List Blk} {n' : Nat},
      blocks pfx env items n w = .ok (bs, n') → bs.countP Blk.isWild + (if w then 1 else 0) ≤ 1
  | [], n, w, bs, n', h => by
    simp only [blocks, Except.ok.injEq, Prod.mk.injEq] at h
    obtain ⟨rfl, _⟩ := h
    cases w <;> simp
  | .ref x star :: r, n, w, bs, n', h => by
    simp only [blocks] at h
    cases hl : env.seqs.lookup x with
    | none => simp [hl] at h
    | some b =>
      simp only [hl] at h
      cases hb : blocks pfx env r n w with
      | error e => simp [hb] at h
      | ok p =>
        simp only [hb, Except.ok.injEq, Prod.mk.injEq] at h
        obtain ⟨rfl, _⟩ := h
        have := blocks_oneWild pfx env r n w (bs := p.1) (n' := p.2) hb
        simpa [List.countP_cons, Blk.isWild] using this
  | .domains x star :: r, n, w, bs, n', h => by
    simp only [blocks] at h
    cases hl : env.seqs.lookup x with
    | none => simp [hl] at h
    | some b =>
      simp only [hl] at h
      split at h
      · cases h
      · cases hb : blocks pfx env r n w with
        | error e => simp [hb] at h
        | ok p =>
          simp only [hb, Except.ok.injEq, Prod.mk.injEq] at h
          obtain ⟨rfl, _⟩ := h
          have := blocks_oneWild pfx env r n w (bs := p.1) (n' := p.2) hb
          have h0 : List.countP Blk.isWild ((if star then rcSegs b.segs else b.segs).map Blk.plain) = 0 := by
            rw [countP_zero_iff, hasWild_plain]
          rw [List.countP_append, h0]
          omega
  | .nuc text :: r, n, w, bs, n', h => by
    simp only [blocks] at h
    split at h
    · cases hb : blocks pfx env r (n + 1) w with
      | error e => simp [hb] at h
      | ok p =>
        simp only [hb, Except.ok.injEq, Prod.mk.injEq] at h
        obtain ⟨rfl, _⟩ := h
        have := blocks_oneWild pfx env r (n + 1) w (bs := p.1) (n' := p.2) hb
        simpa [List.countP_cons, Blk.isWild] using this
    · cases w with
      | true => simp at h
      | false =>
        simp only [Bool.false_eq_true, if_false] at h
        cases hb : blocks pfx env r n true with
        | error e => simp [hb] at h
        | ok p =>
          simp only [hb, Except.ok.injEq, Prod.mk.injEq] at h
          obtain ⟨rfl, _⟩ := h
          have := blocks_oneWild pfx env r n true (bs := p.1) (n' := p.2) hb
          simp only [if_true] at this
          simp only [List.countP_cons, Blk.isWild, if_true, Bool.false_eq_true, if_false]
          omega
    · cases h

/-- `denoteRegion`, index-free: the blocks of the item list, then `finishB` -/
theorem denoteRegion_eq_blocks (pfx : String) (env : Env) (items : List SrcItem) (length : Option Nat) :
    denoteRegion pfx env items length =
      match blocks pfx env items env.anon false with
      | .error e => .error e
      | .ok p => finishB pfx p.1 p.2 length := by
  unfold denoteRegion
  have h0 : ({ anon := env.anon } : ItemsAcc) = toAcc [] env.anon := rfl
  rw [h0, denoteItems_blocks]
  have hw0 : hasWild [] = false := rfl
  rw [hw0]
  cases hb : blocks pfx env items env.anon false with
  | error e => rfl
  | ok p =>
    obtain ⟨bs, n⟩ := p
    have h1 : OneWild bs := by
      have := blocks_oneWild pfx env items env.anon false hb
      simpa [OneWild] using this
    simp only [Except.map, List.nil_append, bind, Except.bind]
    simp only [toAcc]
    cases hw : wildAt 0 bs with
    | none =>
      have hn := (wildAt_none_iff 0 bs).1 hw
      obtain ⟨wp, _, _⟩ := noWild_facts bs hn
      simp only [finishB, wp, domsAt_snd, fixedLen]
      cases length with
      | none => rfl
      | some l =>
        by_cases hl : (l != ((bs.map Blk.seg).map List.length).sum) = true
        · simp only [hl, if_true]; rfl
        · simp only [hl, Bool.false_eq_true, if_false]; rfl
    | some ip =>
      obtain ⟨i, parts⟩ := ip
      obtain ⟨pre, post, e1, e2, e3⟩ := wildAt_decomp 0 bs hw
      have hpost : hasWild post = false := by
        unfold OneWild at h1
        rw [e1, List.countP_append, List.countP_cons] at h1
        simp only [Blk.isWild, if_true] at h1
        rw [← countP_zero_iff]
        omega
      obtain ⟨_, fs1, fd1⟩ := noWild_facts pre e3
      obtain ⟨_, fs2, fd2⟩ := noWild_facts post hpost
      have wp : wildParts bs = some parts := by
        rw [e1, wildParts_append_noWild pre e3]; rfl
      simp only [finishB, wp, domsAt_snd, fixedLen]
      cases length with
      | none => rfl
      | some l =>
        dsimp only
        by_cases hl : l < ((bs.map Blk.seg).map List.length).sum
        · simp only [hl, if_true]; rfl
        · simp only [hl, if_false]
          cases resolve parts (some (l - ((bs.map Blk.seg).map List.length).sum)) with
          | error e => rfl
          | ok r =>
            obtain ⟨wl, c⟩ := r
            simp only [pure, Except.pure]
            have hi : i = pre.length := by omega
            subst hi
            congr 2
            · -- segments
              rw [e1]
              simp only [List.map_append, List.map_cons, setAt, fillSegs_append, fillSegs, fs1, fs2]
              rw [List.take_left' (by simp), drop_len_succ (by simp)]
            · congr 1
              -- domains
              have hk : ((domsAt 0 bs).filter (fun d => d.1 < pre.length)).length = (domsOf pre).length := by
                rw [e1, domsAt_append, List.filter_append]
                have ha : (domsAt 0 pre).filter (fun d => decide (d.1 < pre.length)) = domsAt 0 pre := by
                  rw [List.filter_eq_self]
                  intro d hd
                  have := domsAt_range 0 pre d hd
                  simp; omega
                have hb : (domsAt (0 + pre.length) (.wild parts :: post)).filter (fun d => decide (d.1 < pre.length)) = [] := by
                  rw [List.filter_eq_nil_iff]
                  intro d hd
                  have := domsAt_range _ _ d hd
                  simp; omega
                rw [ha, hb, List.append_nil, ← domsAt_snd 0 pre, List.length_map]
              rw [hk, e1, domsOf_append, fillDoms_append]
              simp only [domsOf, fillDoms, fd1, fd2]
              rw [List.take_left' rfl, List.drop_left' rfl]

/-! ### splitting an item list -/

theorem blocks_append (pfx : String) (env : Env) :
    ∀ (xs ys : List SrcItem) (n : Nat) (w : Bool),
      blocks pfx env (xs ++ ys) n w =
        match blocks pfx env xs n w with
        | .error e => .error e
        | .ok p =>
          match blocks pfx env ys p.2 (w || hasWild p.1) with
          | .error e => .error e
          | .ok q => .ok (p.1 ++ q.1, q.2)
  | [], ys, n, w => by
    simp only [List.nil_append, blocks, hasWild, List.any_nil, Bool.or_false]
    cases blocks pfx env ys n w <;> rfl
  | .ref x star :: r, ys, n, w => by
    simp only [List.cons_append, blocks]
    cases env.seqs.lookup x with
    | none => rfl
    | some b =>
      simp only [blocks_append pfx env r ys n w]
      cases blocks pfx env r n w with
      | error e => rfl
      | ok p =>
        have : hasWild (Blk.plain (if star then rc b.nucs else b.nucs) :: p.1) = hasWild p.1 := by
          simp [hasWild, Blk.isWild]
        simp only [this]
        cases blocks pfx env ys p.2 (w || hasWild p.1) <;> rfl
  | .domains x star :: r, ys, n, w => by
    simp only [List.cons_append, blocks]
    cases env.seqs.lookup x with
    | none => rfl
    | some b =>
      dsimp only
      split
      · rfl
      · simp only [blocks_append pfx env r ys n w]
        cases blocks pfx env r n w with
        | error e => rfl
        | ok p =>
          have : hasWild ((if star then rcSegs b.segs else b.segs).map Blk.plain ++ p.1) = hasWild p.1 := by
            rw [hasWild_append, hasWild_plain, Bool.false_or]
          simp only [this]
          cases blocks pfx env ys p.2 (w || hasWild p.1) with
          | error e => rfl
          | ok q => simp
  | .nuc text :: r, ys, n, w => by
    simp only [List.cons_append, blocks]
    split
    · simp only [blocks_append pfx env r ys (n + 1) w]
      cases blocks pfx env r (n + 1) w with
      | error e => rfl
      | ok p =>
        rename_i l c _
        have : hasWild (Blk.anon (pfx ++ "_Anon" ++ toString n) c (fwd (pfx ++ "_Anon" ++ toString n) l) :: p.1)
            = hasWild p.1 := by simp [hasWild, Blk.isWild]
        simp only [this]
        cases blocks pfx env ys p.2 (w || hasWild p.1) <;> rfl
    · cases w with
      | true => rfl
      | false =>
        simp only [Bool.false_eq_true, if_false, blocks_append pfx env r ys n true]
        cases blocks pfx env r n true with
        | error e => rfl
        | ok p =>
          have : hasWild (Blk.wild (parseQuoted text) :: p.1) = true := by simp [hasWild, Blk.isWild]
          simp only [this, Bool.true_or, Bool.false_or]
          cases blocks pfx env ys p.2 true <;> rfl
    · rfl

/-- number of blocks (= segments) an item list contributes -/
def blkCount (env : Env) : List SrcItem → Nat
  | [] => 0
  | .ref _ _ :: r => 1 + blkCount env r
  | .nuc _ :: r => 1 + blkCount env r
  | .domains x _ :: r => (match env.seqs.lookup x with | some b => b.segs.length | none => 0) + blkCount env r

theorem blocks_length (pfx : String) (env : Env) :
    ∀ (items : List SrcItem) (n : Nat) (w : Bool) {bs : List Blk} {n' : Nat},
      blocks pfx env items n w = .ok (bs, n') → bs.length = blkCount env items
  | [], n, w, bs, n', h => by
    simp only [blocks, Except.ok.injEq, Prod.mk.injEq] at h
    obtain ⟨rfl, _⟩ := h
    rfl
  | .ref x star :: r, n, w, bs, n', h => by
    simp only [blocks] at h
    cases hl : env.seqs.lookup x with
    | none => simp [hl] at h
    | some b =>
      simp only [hl] at h
      cases hb : blocks pfx env r n w with
      | error e => simp [hb] at h
      | ok p =>
        simp only [hb, Except.ok.injEq, Prod.mk.injEq] at h
        obtain ⟨rfl, _⟩ := h
        have := blocks_length pfx env r n w (bs := p.1) (n' := p.2) hb
        simp [blkCount, this]; omega
  | .domains x star :: r, n, w, bs, n', h => by
    simp only [blocks] at h
    cases hl : env.seqs.lookup x with
    | none => simp [hl] at h
    | some b =>
      simp only [hl] at h
      split at h
      · cases h
      · cases hb : blocks pfx env r n w with
        | error e => simp [hb] at h
        | ok p =>
          simp only [hb, Except.ok.injEq, Prod.mk.injEq] at h
          obtain ⟨rfl, _⟩ := h
          have := blocks_length pfx env r n w (bs := p.1) (n' := p.2) hb
          cases star <;> simp [blkCount, this, hl, rcSegs]
  | .nuc text :: r, n, w, bs, n', h => by
    simp only [blocks] at h
    split at h
    · cases hb : blocks pfx env r (n + 1) w with
      | error e => simp [hb] at h
      | ok p =>
        simp only [hb, Except.ok.injEq, Prod.mk.injEq] at h
        obtain ⟨rfl, _⟩ := h
        have := blocks_length pfx env r (n + 1) w (bs := p.1) (n' := p.2) hb
        simp [blkCount, this]; omega
    · cases w with
      | true => simp at h
      | false =>
        simp only [Bool.false_eq_true, if_false] at h
        cases hb : blocks pfx env r n true with
        | error e => simp [hb] at h
        | ok p =>
          simp only [hb, Except.ok.injEq, Prod.mk.injEq] at h
          obtain ⟨rfl, _⟩ := h
          have := blocks_length pfx env r n true (bs := p.1) (n' := p.2) hb
          simp [blkCount, this]; omega
    · cases h

/-! ### inserting a block with an empty segment -/

theorem wildParts_append (a b : List Blk) : wildParts (a ++ b) = (wildParts a).or (wildParts b) := by
  induction a with
  | nil => simp [wildParts]
  | cons h t ih => cases h <;> simp [wildParts, ih]

theorem fixedLen_append (a b : List Blk) : fixedLen (a ++ b) = fixedLen a + fixedLen b := by
  simp [fixedLen, List.sum_append]

theorem fillSegs_length (x : List Nuc) (bs : List Blk) : (fillSegs x bs).length = bs.length := by
  induction bs with
  | nil => rfl
  | cons h t ih => cases h <;> simp [fillSegs, ih]

theorem insertAt_append_left {α} (a b : List α) (x : α) {j : Nat} (h : a.length = j) :
    insertAt (a ++ b) j x = a ++ x :: b := by
  subst h
  simp [insertAt]

/-- result of a region with one empty segment inserted at position `j` -/
def insSeg (j : Nat) (r : List (List Nuc) × List (String × List Char) × Nat) :
    List (List Nuc) × List (String × List Char) × Nat := (insertAt r.1 j [], r.2.1, r.2.2)

theorem finishB_insert_plain (pfx : String) (bp bq : List Blk) (n : Nat) (length : Option Nat) :
    finishB pfx (bp ++ .plain [] :: bq) n length = (finishB pfx (bp ++ bq) n length).map (insSeg bp.length) := by
  have hw : wildParts (bp ++ .plain [] :: bq) = wildParts (bp ++ bq) := by
    simp [wildParts_append, wildParts]
  have hf : fixedLen (bp ++ .plain [] :: bq) = fixedLen (bp ++ bq) := by
    simp [fixedLen, Blk.seg]
  have hd : domsOf (bp ++ .plain [] :: bq) = domsOf (bp ++ bq) := by
    simp [domsOf_append, domsOf]
  have hs : (bp ++ .plain [] :: bq).map Blk.seg = insertAt ((bp ++ bq).map Blk.seg) bp.length [] := by
    rw [List.map_append, List.map_append, insertAt_append_left _ _ _ (by simp)]
    rfl
  have hfs : ∀ x, fillSegs x (bp ++ .plain [] :: bq) = insertAt (fillSegs x (bp ++ bq)) bp.length [] := by
    intro x
    rw [fillSegs_append, fillSegs_append, insertAt_append_left _ _ _ (fillSegs_length x bp)]
    rfl
  have hfd : ∀ wd, fillDoms wd (bp ++ .plain [] :: bq) = fillDoms wd (bp ++ bq) := by
    intro wd
    simp [fillDoms_append, fillDoms]
  unfold finishB
  rw [hw, hf, hd, hs]
  cases wildParts (bp ++ bq) with
  | none =>
    cases length with
    | none => rfl
    | some l => dsimp only; split <;> rfl
  | some parts =>
    cases length with
    | none => rfl
    | some l =>
      dsimp only
      split
      · rfl
      · cases resolve parts (some (l - fixedLen (bp ++ bq))) with
        | error e => rfl
        | ok r =>
          obtain ⟨wl, c⟩ := r
          simp only [hfs, hfd, Except.map, insSeg]

/-- (a), named reference: inserting a reference `z` / `z*` to a name bound to no nucleotides at position `i`
    of an item list leaves the outcome of `denoteRegion` unchanged — same error, or the same new domains and
    counter and the same segments with one empty segment inserted after the segments of the first `i` items -/
theorem denoteRegion_insert_ref (pfx : String) (env : Env) (items : List SrcItem) (i : Nat) (z : String)
    (star : Bool) (length : Option Nat) {b : Denote.Bind} (hz : env.seqs.lookup z = some b) (hb : b.nucs = []) :
    denoteRegion pfx env (items.take i ++ [.ref z star] ++ items.drop i) length =
      (denoteRegion pfx env items length).map (insSeg (blkCount env (items.take i))) := by
  rw [denoteRegion_eq_blocks, denoteRegion_eq_blocks]
  have hsplit : blocks pfx env items env.anon false =
      blocks pfx env (items.take i ++ items.drop i) env.anon false := by rw [List.take_append_drop]
  rw [hsplit, List.append_assoc, blocks_append, blocks_append]
  cases hp : blocks pfx env (items.take i) env.anon false with
  | error e => rfl
  | ok p =>
    have hlen := blocks_length pfx env (items.take i) env.anon false (bs := p.1) (n' := p.2) hp
    have hnil : (if star then rc b.nucs else b.nucs) = [] := by cases star <;> simp [hb, rc]
    simp only [List.singleton_append, blocks, hz, hnil]
    cases blocks pfx env (items.drop i) p.2 (false || hasWild p.1) with
    | error e => rfl
    | ok q =>
      simp only
      rw [finishB_insert_plain, hlen]

/-! ### forgetting the segmentation -/

inductive FItem
  | n (x : Nuc)
  | d (name : String) (c : List Char)
  | w (parts : List (Mult × Char))

/-- a block list as a sequence of nucleotides, domain introductions and wildcard placeholders -/
def flat : List Blk → List FItem
  | [] => []
  | .plain s :: r => s.map .n ++ flat r
  | .anon nm c s :: r => .d nm c :: (s.map .n ++ flat r)
  | .wild p :: r => .w p :: flat r

def fNucs (x : List Nuc) : List FItem → List Nuc
  | [] => []
  | .n y :: r => y :: fNucs x r
  | .d _ _ :: r => fNucs x r
  | .w _ :: r => x ++ fNucs x r

def fDoms (wd : String × List Char) : List FItem → List (String × List Char)
  | [] => []
  | .n _ :: r => fDoms wd r
  | .d nm c :: r => (nm, c) :: fDoms wd r
  | .w _ :: r => wd :: fDoms wd r

def fWild : List FItem → Option (List (Mult × Char))
  | [] => none
  | .w p :: _ => some p
  | .n _ :: r => fWild r
  | .d _ _ :: r => fWild r

def fLen : List FItem → Nat
  | [] => 0
  | .n _ :: r => fLen r + 1
  | .d _ _ :: r => fLen r
  | .w _ :: r => fLen r

theorem flat_append (a b : List Blk) : flat (a ++ b) = flat a ++ flat b := by
  induction a with
  | nil => rfl
  | cons h t ih => cases h <;> simp [flat, ih]

theorem fNucs_append (x : List Nuc) (a b : List FItem) : fNucs x (a ++ b) = fNucs x a ++ fNucs x b := by
  induction a with
  | nil => rfl
  | cons h t ih => cases h <;> simp [fNucs, ih]

theorem fDoms_append (wd : String × List Char) (a b : List FItem) : fDoms wd (a ++ b) = fDoms wd a ++ fDoms wd b := by
  induction a with
  | nil => rfl
  | cons h t ih => cases h <;> simp [fDoms, ih]

theorem fWild_append (a b : List FItem) : fWild (a ++ b) = (fWild a).or (fWild b) := by
  induction a with
  | nil => simp [fWild]
  | cons h t ih => cases h <;> simp [fWild, ih]

theorem fLen_append (a b : List FItem) : fLen (a ++ b) = fLen a + fLen b := by
  induction a with
  | nil => simp [fLen]
  | cons h t ih => cases h <;> simp [fLen, ih] <;> omega

theorem fNucs_n (x s : List Nuc) : fNucs x (s.map .n) = s := by
  induction s with
  | nil => rfl
  | cons h t ih => simp [fNucs, ih]
theorem fDoms_n (wd : String × List Char) (s : List Nuc) : fDoms wd (s.map .n) = [] := by
  induction s with
  | nil => rfl
  | cons h t ih => simp [fDoms, ih]
theorem fWild_n (s : List Nuc) : fWild (s.map .n) = none := by
  induction s with
  | nil => rfl
  | cons h t ih => simp [fWild, ih]
theorem fLen_n (s : List Nuc) : fLen (s.map .n) = s.length := by
  induction s with
  | nil => rfl
  | cons h t ih => simp [fLen, ih]

theorem fillSegs_flat (x : List Nuc) : ∀ bs : List Blk, (fillSegs x bs).flatten = fNucs x (flat bs)
  | [] => rfl
  | .plain s :: r => by simp [fillSegs, flat, fNucs_append, fNucs_n, fillSegs_flat x r]
  | .anon nm c s :: r => by simp [fillSegs, flat, fNucs, fNucs_append, fNucs_n, fillSegs_flat x r]
  | .wild p :: r => by simp [fillSegs, flat, fNucs, fillSegs_flat x r]

theorem segs_flat : ∀ bs : List Blk, (bs.map Blk.seg).flatten = fNucs [] (flat bs)
  | [] => rfl
  | .plain s :: r => by simp [Blk.seg, flat, fNucs_append, fNucs_n, segs_flat r]
  | .anon nm c s :: r => by simp [Blk.seg, flat, fNucs, fNucs_append, fNucs_n, segs_flat r]
  | .wild p :: r => by simp [Blk.seg, flat, fNucs, segs_flat r]

theorem fillDoms_flat (wd : String × List Char) : ∀ bs : List Blk, fillDoms wd bs = fDoms wd (flat bs)
  | [] => rfl
  | .plain s :: r => by simp [fillDoms, flat, fDoms_append, fDoms_n, fillDoms_flat wd r]
  | .anon nm c s :: r => by simp [fillDoms, flat, fDoms, fDoms_append, fDoms_n, fillDoms_flat wd r]
  | .wild p :: r => by simp [fillDoms, flat, fDoms, fillDoms_flat wd r]

theorem wildParts_flat : ∀ bs : List Blk, wildParts bs = fWild (flat bs)
  | [] => rfl
  | .plain s :: r => by simp [wildParts, flat, fWild_append, fWild_n, wildParts_flat r]
  | .anon nm c s :: r => by simp [wildParts, flat, fWild, fWild_append, fWild_n, wildParts_flat r]
  | .wild p :: r => by simp [wildParts, flat, fWild]

theorem fixedLen_flat : ∀ bs : List Blk, fixedLen bs = fLen (flat bs)
  | [] => rfl
  | .plain s :: r => by
    have := fixedLen_flat r
    simp only [fixedLen, List.map_map] at this
    simp [fixedLen, Blk.seg, flat, fLen_append, fLen_n, this]
  | .anon nm c s :: r => by
    have := fixedLen_flat r
    simp only [fixedLen, List.map_map] at this
    simp [fixedLen, Blk.seg, flat, fLen, fLen_append, fLen_n, this]
  | .wild p :: r => by
    have := fixedLen_flat r
    simp only [fixedLen, List.map_map] at this
    simp [fixedLen, Blk.seg, flat, fLen, this]

theorem wildParts_none_iff (bs : List Blk) : wildParts bs = none ↔ hasWild bs = false := by
  induction bs with
  | nil => simp [wildParts, hasWild]
  | cons h t ih => cases h <;> simp_all [wildParts, hasWild, Blk.isWild]

/-- a region result with the segmentation forgotten -/
def flat3 (r : List (List Nuc) × List (String × List Char) × Nat) : List Nuc × List (String × List Char) × Nat :=
  (r.1.flatten, r.2.1, r.2.2)

def finishF (pfx : String) (fl : List FItem) (n : Nat) (length : Option Nat) :
    Except Denote.Err (List Nuc × List (String × List Char) × Nat) :=
  match fWild fl with
  | none =>
    match length with
    | some l => if l != fLen fl then .error .length else .ok (fNucs [] fl, fDoms ("", []) fl, n)
    | none => .ok (fNucs [] fl, fDoms ("", []) fl, n)
  | some parts =>
    match length with
    | none => .error .wildcard
    | some l =>
      if l < fLen fl then .error .length
      else match resolve parts (some (l - fLen fl)) with
        | .error _ => .error .length
        | .ok (wl, c) =>
          .ok (fNucs (fwd (pfx ++ "_Anon" ++ toString n) wl) fl, fDoms (pfx ++ "_Anon" ++ toString n, c) fl, n + 1)

theorem finishB_flat (pfx : String) (bs : List Blk) (n : Nat) (length : Option Nat) :
    (finishB pfx bs n length).map flat3 = finishF pfx (flat bs) n length := by
  unfold finishB finishF
  rw [← wildParts_flat, ← fixedLen_flat]
  cases hw : wildParts bs with
  | none =>
    have hn := (wildParts_none_iff bs).1 hw
    obtain ⟨_, _, fd⟩ := noWild_facts bs hn
    have e1 : domsOf bs = fDoms ("", []) (flat bs) := by rw [← fillDoms_flat, fd]
    cases length with
    | none => simp [Except.map, flat3, segs_flat, e1]
    | some l =>
      dsimp only
      split
      · rfl
      · simp [Except.map, flat3, segs_flat, e1]
  | some parts =>
    cases length with
    | none => rfl
    | some l =>
      dsimp only
      split
      · rfl
      · cases resolve parts (some (l - fixedLen bs)) with
        | error e => rfl
        | ok r =>
          obtain ⟨wl, c⟩ := r
          simp [Except.map, flat3, fillSegs_flat, fillDoms_flat]

/-- `denoteRegion` with the segmentation forgotten, index-free -/
theorem denoteRegion_flat (pfx : String) (env : Env) (items : List SrcItem) (length : Option Nat) :
    (denoteRegion pfx env items length).map flat3 =
      match blocks pfx env items env.anon false with
      | .error e => .error e
      | .ok p => finishF pfx (flat p.1) p.2 length := by
  rw [denoteRegion_eq_blocks]
  cases blocks pfx env items env.anon false with
  | error e => rfl
  | ok p => exact finishB_flat pfx p.1 p.2 length

/-! ### renaming domains -/

def rnNuc (ρ : String → String) (x : Nuc) : Nuc := ⟨⟨ρ x.var.dom, x.var.idx⟩, x.comp⟩
def rnSeg (ρ : String → String) (s : List Nuc) : List Nuc := s.map (rnNuc ρ)
def rnF (ρ : String → String) : FItem → FItem
  | .n x => .n (rnNuc ρ x)
  | .d nm c => .d (ρ nm) c
  | .w p => .w p

theorem rnSeg_rc (ρ : String → String) (s : List Nuc) : rnSeg ρ (rc s) = rc (rnSeg ρ s) := by
  simp [rnSeg, rc, List.map_reverse, Function.comp_def, rnNuc, Nuc.flip]

theorem rnSeg_fwd (ρ : String → String) (nm : String) (l : Nat) : rnSeg ρ (fwd nm l) = fwd (ρ nm) l := by
  simp [rnSeg, fwd, rnNuc, Function.comp_def]

theorem rnSeg_append (ρ : String → String) (a b : List Nuc) : rnSeg ρ (a ++ b) = rnSeg ρ a ++ rnSeg ρ b := by
  simp [rnSeg]

theorem rnSeg_id (s : List Nuc) : rnSeg id s = s := by
  have : rnNuc id = id := by funext x; rfl
  simp [rnSeg, this]

theorem rcSegs_flatten (segs : List (List Nuc)) : (rcSegs segs).flatten = rc segs.flatten := by
  induction segs with
  | nil => rfl
  | cons h t ih =>
    simp only [rcSegs, List.reverse_cons, List.map_append, List.map_cons, List.map_nil, List.flatten_append,
      List.flatten_cons, List.flatten_nil, List.append_nil] at ih ⊢
    rw [ih]
    simp [rc, List.reverse_append]

theorem flat_plain (segs : List (List Nuc)) : flat (segs.map .plain) = segs.flatten.map .n := by
  induction segs with
  | nil => rfl
  | cons h t ih => simp [flat, ih]

theorem map_rnF_n (ρ : String → String) (s : List Nuc) : (s.map FItem.n).map (rnF ρ) = (rnSeg ρ s).map .n := by
  simp [rnSeg, rnF, Function.comp_def]

/-- `ρ` renumbers the anonymous domains under prefix `pfx` from `n0` on by `k` -/
def RenumP (ρ : String → String) (pfx : String) (n0 k : Nat) : Prop :=
  ∀ m, n0 ≤ m → ρ (pfx ++ "_Anon" ++ toString m) = pfx ++ "_Anon" ++ toString (m + k)

def BindRel (ρ : String → String) (b b' : Denote.Bind) : Prop :=
  b'.nucs = rnSeg ρ b.nucs ∧ b'.isSup = b.isSup ∧ b'.segs.flatten = rnSeg ρ b.segs.flatten

/-- two tables bind the same names, to the same nucleotides up to `ρ`; the segmentations may differ -/
def SeqsRel (ρ : String → String) (l l' : List (String × Denote.Bind)) : Prop :=
  ∀ x, match l.lookup x, l'.lookup x with
    | none, none => True
    | some b, some b' => BindRel ρ b b'
    | _, _ => False

theorem map_eq_error {ε α β} {f : α → β} {x : Except ε α} {e : ε} (h : x.map f = .error e) : x = .error e := by
  cases x with
  | error e' => simpa [Except.map] using h
  | ok a => simp [Except.map] at h

theorem map_eq_ok {ε α β} {f : α → β} {x : Except ε α} {y : β} (h : x.map f = .ok y) : ∃ z, x = .ok z ∧ f z = y := by
  cases x with
  | error e' => simp [Except.map] at h
  | ok a => exact ⟨a, rfl, by simpa [Except.map] using h⟩

/-- the blocks of an item list in two related environments, the second run with the counter shifted by `k`:
    same failure, or the same flattened blocks up to `ρ` and the counter shifted -/
theorem blocks_rel (pfx : String) {ρ : String → String} {n0 k : Nat} (hr : RenumP ρ pfx n0 k) (e e' : Env)
    (hs : SeqsRel ρ e.seqs e'.seqs) :
    ∀ (items : List SrcItem) (n : Nat) (w : Bool), n0 ≤ n →
      (blocks pfx e' items (n + k) w).map (fun p => (flat p.1, p.2)) =
        (blocks pfx e items n w).map (fun p => ((flat p.1).map (rnF ρ), p.2 + k))
  | [], n, w, _ => by simp [blocks, Except.map, flat]
  | .ref x star :: r, n, w, hn => by
    have ih := blocks_rel pfx hr e e' hs r n w hn
    have hx := hs x
    simp only [blocks]
    cases h1 : e.seqs.lookup x with
    | none =>
      cases h2 : e'.seqs.lookup x with
      | none => rfl
      | some b' => simp [h1, h2] at hx
    | some b =>
      cases h2 : e'.seqs.lookup x with
      | none => simp [h1, h2] at hx
      | some b' =>
        simp only [h1, h2] at hx
        obtain ⟨hnuc, _, _⟩ := hx
        dsimp only
        cases hb : blocks pfx e r n w with
        | error err =>
          rw [hb] at ih
          rw [map_eq_error ih]
          rfl
        | ok p =>
          rw [hb] at ih
          obtain ⟨p', hp', hf⟩ := map_eq_ok ih
          rw [hp']
          simp only [Prod.mk.injEq] at hf
          have hseg : (if star then rc b'.nucs else b'.nucs) = rnSeg ρ (if star then rc b.nucs else b.nucs) := by
            cases star <;> simp [hnuc, rnSeg_rc]
          simp only [Except.map, flat, hseg, hf.1, hf.2, List.map_append, map_rnF_n]
  | .domains x star :: r, n, w, hn => by
    have ih := blocks_rel pfx hr e e' hs r n w hn
    have hx := hs x
    simp only [blocks]
    cases h1 : e.seqs.lookup x with
    | none =>
      cases h2 : e'.seqs.lookup x with
      | none => rfl
      | some b' => simp [h1, h2] at hx
    | some b =>
      cases h2 : e'.seqs.lookup x with
      | none => simp [h1, h2] at hx
      | some b' =>
        simp only [h1, h2] at hx
        obtain ⟨_, hsup, hsegs⟩ := hx
        dsimp only
        rw [hsup]
        split
        · rfl
        · cases hb : blocks pfx e r n w with
          | error err =>
            rw [hb] at ih
            rw [map_eq_error ih]
            rfl
          | ok p =>
            rw [hb] at ih
            obtain ⟨p', hp', hf⟩ := map_eq_ok ih
            rw [hp']
            simp only [Prod.mk.injEq] at hf
            have hseg : (if star then rcSegs b'.segs else b'.segs).flatten =
                rnSeg ρ (if star then rcSegs b.segs else b.segs).flatten := by
              cases star <;> simp [hsegs, rcSegs_flatten, rnSeg_rc]
            simp only [Except.map, flat_append, flat_plain, hseg, hf.1, hf.2, List.map_append, map_rnF_n]
  | .nuc text :: r, n, w, hn => by
    simp only [blocks]
    split
    · rename_i l c _
      have ih := blocks_rel pfx hr e e' hs r (n + 1) w (Nat.le_succ_of_le hn)
      have e1 : n + k + 1 = n + 1 + k := by omega
      rw [e1]
      cases hb : blocks pfx e r (n + 1) w with
      | error err =>
        rw [hb] at ih
        rw [map_eq_error ih]
        rfl
      | ok p =>
        rw [hb] at ih
        obtain ⟨p', hp', hf⟩ := map_eq_ok ih
        rw [hp']
        simp only [Prod.mk.injEq] at hf
        simp only [Except.map, flat, hf.1, hf.2, List.map_cons, List.map_append, map_rnF_n, rnF, rnSeg_fwd, hr n hn]
    · cases w with
      | true => rfl
      | false =>
        have ih := blocks_rel pfx hr e e' hs r n true hn
        simp only [Bool.false_eq_true, if_false]
        cases hb : blocks pfx e r n true with
        | error err =>
          rw [hb] at ih
          rw [map_eq_error ih]
          rfl
        | ok p =>
          rw [hb] at ih
          obtain ⟨p', hp', hf⟩ := map_eq_ok ih
          rw [hp']
          simp only [Prod.mk.injEq] at hf
          simp only [Except.map, flat, hf.1, hf.2, List.map_cons, rnF]
    · rfl

theorem blocks_counter_le (pfx : String) (env : Env) :
    ∀ (items : List SrcItem) (n : Nat) (w : Bool) {bs : List Blk} {n' : Nat},
      blocks pfx env items n w = .ok (bs, n') → n ≤ n'
  | [], n, w, bs, n', h => by
    simp only [blocks, Except.ok.injEq, Prod.mk.injEq] at h
    omega
  | .ref x star :: r, n, w, bs, n', h => by
    simp only [blocks] at h
    cases hl : env.seqs.lookup x with
    | none => simp [hl] at h
    | some b =>
      simp only [hl] at h
      cases hb : blocks pfx env r n w with
      | error e => simp [hb] at h
      | ok p =>
        simp only [hb, Except.ok.injEq, Prod.mk.injEq] at h
        have := blocks_counter_le pfx env r n w (bs := p.1) (n' := p.2) hb
        omega
  | .domains x star :: r, n, w, bs, n', h => by
    simp only [blocks] at h
    cases hl : env.seqs.lookup x with
    | none => simp [hl] at h
    | some b =>
      simp only [hl] at h
      split at h
      · cases h
      · cases hb : blocks pfx env r n w with
        | error e => simp [hb] at h
        | ok p =>
          simp only [hb, Except.ok.injEq, Prod.mk.injEq] at h
          have := blocks_counter_le pfx env r n w (bs := p.1) (n' := p.2) hb
          omega
  | .nuc text :: r, n, w, bs, n', h => by
    simp only [blocks] at h
    split at h
    · cases hb : blocks pfx env r (n + 1) w with
      | error e => simp [hb] at h
      | ok p =>
        simp only [hb, Except.ok.injEq, Prod.mk.injEq] at h
        have := blocks_counter_le pfx env r (n + 1) w (bs := p.1) (n' := p.2) hb
        omega
    · cases w with
      | true => simp at h
      | false =>
        simp only [Bool.false_eq_true, if_false] at h
        cases hb : blocks pfx env r n true with
        | error e => simp [hb] at h
        | ok p =>
          simp only [hb, Except.ok.injEq, Prod.mk.injEq] at h
          have := blocks_counter_le pfx env r n true (bs := p.1) (n' := p.2) hb
          omega
    · cases h

/-- a flattened region result renamed, the counter shifted -/
def rn3 (ρ : String → String) (k : Nat) (r : List Nuc × List (String × List Char) × Nat) :
    List Nuc × List (String × List Char) × Nat :=
  (rnSeg ρ r.1, r.2.1.map (fun d => (ρ d.1, d.2)), r.2.2 + k)

theorem fNucs_rn (ρ : String → String) (x : List Nuc) (fl : List FItem) :
    fNucs (rnSeg ρ x) (fl.map (rnF ρ)) = rnSeg ρ (fNucs x fl) := by
  induction fl with
  | nil => rfl
  | cons h t ih => cases h <;> simp_all [fNucs, rnF, rnSeg]

theorem fDoms_rn (ρ : String → String) (wd : String × List Char) (fl : List FItem) :
    fDoms (ρ wd.1, wd.2) (fl.map (rnF ρ)) = (fDoms wd fl).map (fun d => (ρ d.1, d.2)) := by
  induction fl with
  | nil => rfl
  | cons h t ih => cases h <;> simp_all [fDoms, rnF]

theorem fWild_rn (ρ : String → String) (fl : List FItem) : fWild (fl.map (rnF ρ)) = fWild fl := by
  induction fl with
  | nil => rfl
  | cons h t ih => cases h <;> simp_all [fWild, rnF]

theorem fLen_rn (ρ : String → String) (fl : List FItem) : fLen (fl.map (rnF ρ)) = fLen fl := by
  induction fl with
  | nil => rfl
  | cons h t ih => cases h <;> simp_all [fLen, rnF]

theorem fDoms_irrel (wd wd' : String × List Char) (fl : List FItem) (h : fWild fl = none) :
    fDoms wd fl = fDoms wd' fl := by
  induction fl with
  | nil => rfl
  | cons x t ih => cases x <;> simp_all [fDoms, fWild]

theorem finishF_rn (pfx : String) (ρ : String → String) (k n : Nat)
    (hn : ρ (pfx ++ "_Anon" ++ toString n) = pfx ++ "_Anon" ++ toString (n + k)) (fl : List FItem) (length : Option Nat) :
    finishF pfx (fl.map (rnF ρ)) (n + k) length = (finishF pfx fl n length).map (rn3 ρ k) := by
  unfold finishF
  rw [fWild_rn, fLen_rn]
  cases hw : fWild fl with
  | none =>
    have e0 : fNucs [] (fl.map (rnF ρ)) = rnSeg ρ (fNucs [] fl) := fNucs_rn ρ [] fl
    have e1 : fDoms ("", []) (fl.map (rnF ρ)) = (fDoms ("", []) fl).map (fun d => (ρ d.1, d.2)) := by
      rw [fDoms_irrel ("", []) (ρ "", []) _ (by rw [fWild_rn]; exact hw)]
      exact fDoms_rn ρ ("", []) fl
    cases length with
    | none => simp [Except.map, rn3, e0, e1]
    | some l =>
      dsimp only
      split
      · rfl
      · simp [Except.map, rn3, e0, e1]
  | some parts =>
    cases length with
    | none => rfl
    | some l =>
      dsimp only
      split
      · rfl
      · cases resolve parts (some (l - fLen fl)) with
        | error e => rfl
        | ok r =>
          obtain ⟨wl, c⟩ := r
          have e0 := fNucs_rn ρ (fwd (pfx ++ "_Anon" ++ toString n) wl) fl
          have e1 := fDoms_rn ρ (pfx ++ "_Anon" ++ toString n, c) fl
          rw [rnSeg_fwd, hn] at e0
          simp only [hn] at e1
          simp only [Except.map, rn3, e0, e1]
          congr 3
          omega

/-- two related environments, the second with the counter shifted by `k`: `denoteRegion` fails alike or
    yields the same nucleotides and new domains up to `ρ` and the counter shifted -/
theorem denoteRegion_rel (pfx : String) {ρ : String → String} {k : Nat} (e e' : Env)
    (hr : RenumP ρ pfx e.anon k) (hs : SeqsRel ρ e.seqs e'.seqs) (ha : e'.anon = e.anon + k)
    (items : List SrcItem) (length : Option Nat) :
    (denoteRegion pfx e' items length).map flat3 =
      (denoteRegion pfx e items length).map (fun r => rn3 ρ k (flat3 r)) := by
  have hcomp : (denoteRegion pfx e items length).map (fun r => rn3 ρ k (flat3 r)) =
      ((denoteRegion pfx e items length).map flat3).map (rn3 ρ k) := by
    cases denoteRegion pfx e items length <;> rfl
  rw [hcomp, denoteRegion_flat, denoteRegion_flat, ha]
  have hb := blocks_rel pfx hr e e' hs items e.anon false (Nat.le_refl _)
  cases h1 : blocks pfx e items e.anon false with
  | error err =>
    rw [h1] at hb
    rw [map_eq_error hb]
    rfl
  | ok p =>
    rw [h1] at hb
    obtain ⟨p', hp', hf⟩ := map_eq_ok hb
    rw [hp']
    simp only [Prod.mk.injEq] at hf
    dsimp only
    rw [hf.1, hf.2]
    exact finishF_rn pfx ρ k p.2 (hr p.2 (blocks_counter_le pfx e items e.anon false h1)) (flat p.1) length

/-! ### inserting a zero-length quoted region -/

/-- number of quoted regions of fixed length (no wildcard) in an item list: the anonymous names it consumes -/
def fixedNucs : List SrcItem → Nat
  | [] => 0
  | .nuc text :: r => (match resolve (parseQuoted text) none with | .ok _ => 1 | .error _ => 0) + fixedNucs r
  | .ref _ _ :: r => fixedNucs r
  | .domains _ _ :: r => fixedNucs r

theorem blocks_counter (pfx : String) (env : Env) :
    ∀ (items : List SrcItem) (n : Nat) (w : Bool) {bs : List Blk} {n' : Nat},
      blocks pfx env items n w = .ok (bs, n') → n' = n + fixedNucs items
  | [], n, w, bs, n', h => by
    simp only [blocks, Except.ok.injEq, Prod.mk.injEq] at h
    simp [fixedNucs]; omega
  | .ref x star :: r, n, w, bs, n', h => by
    simp only [blocks] at h
    cases hl : env.seqs.lookup x with
    | none => simp [hl] at h
    | some b =>
      simp only [hl] at h
      cases hb : blocks pfx env r n w with
      | error e => simp [hb] at h
      | ok p =>
        simp only [hb, Except.ok.injEq, Prod.mk.injEq] at h
        have := blocks_counter pfx env r n w (bs := p.1) (n' := p.2) hb
        simp only [fixedNucs]; omega
  | .domains x star :: r, n, w, bs, n', h => by
    simp only [blocks] at h
    cases hl : env.seqs.lookup x with
    | none => simp [hl] at h
    | some b =>
      simp only [hl] at h
      split at h
      · cases h
      · cases hb : blocks pfx env r n w with
        | error e => simp [hb] at h
        | ok p =>
          simp only [hb, Except.ok.injEq, Prod.mk.injEq] at h
          have := blocks_counter pfx env r n w (bs := p.1) (n' := p.2) hb
          simp only [fixedNucs]; omega
  | .nuc text :: r, n, w, bs, n', h => by
    simp only [blocks] at h
    split at h
    · rename_i l c hres
      cases hb : blocks pfx env r (n + 1) w with
      | error e => simp [hb] at h
      | ok p =>
        simp only [hb, Except.ok.injEq, Prod.mk.injEq] at h
        have := blocks_counter pfx env r (n + 1) w (bs := p.1) (n' := p.2) hb
        simp only [fixedNucs, hres]; omega
    · rename_i hres
      cases w with
      | true => simp at h
      | false =>
        simp only [Bool.false_eq_true, if_false] at h
        cases hb : blocks pfx env r n true with
        | error e => simp [hb] at h
        | ok p =>
          simp only [hb, Except.ok.injEq, Prod.mk.injEq] at h
          have := blocks_counter pfx env r n true (bs := p.1) (n' := p.2) hb
          simp only [fixedNucs, hres]; omega
    · cases h

/-- a renaming that fixes what the environment binds and the anonymous names a run creates fixes its blocks -/
theorem blocks_fixed (pfx : String) {ρ : String → String} (e : Env) (hs : SeqsRel ρ e.seqs e.seqs) :
    ∀ (items : List SrcItem) (n : Nat) (w : Bool) {bs : List Blk} {n' : Nat},
      blocks pfx e items n w = .ok (bs, n') →
      (∀ m, n ≤ m → m < n' → ρ (pfx ++ "_Anon" ++ toString m) = pfx ++ "_Anon" ++ toString m) →
      (flat bs).map (rnF ρ) = flat bs
  | [], n, w, bs, n', h, _ => by
    simp only [blocks, Except.ok.injEq, Prod.mk.injEq] at h
    obtain ⟨rfl, _⟩ := h
    rfl
  | .ref x star :: r, n, w, bs, n', h, hfix => by
    simp only [blocks] at h
    have hx := hs x
    cases hl : e.seqs.lookup x with
    | none => simp [hl] at h
    | some b =>
      simp only [hl] at h hx
      cases hb : blocks pfx e r n w with
      | error e => simp [hb] at h
      | ok p =>
        simp only [hb, Except.ok.injEq, Prod.mk.injEq] at h
        obtain ⟨rfl, rfl⟩ := h
        have ih := blocks_fixed pfx e hs r n w (bs := p.1) (n' := p.2) hb hfix
        have hseg : rnSeg ρ (if star then rc b.nucs else b.nucs) = (if star then rc b.nucs else b.nucs) := by
          cases star <;> simp [rnSeg_rc, ← hx.1]
        simp only [flat, List.map_append, map_rnF_n, hseg, ih]
  | .domains x star :: r, n, w, bs, n', h, hfix => by
    simp only [blocks] at h
    have hx := hs x
    cases hl : e.seqs.lookup x with
    | none => simp [hl] at h
    | some b =>
      simp only [hl] at h hx
      split at h
      · cases h
      · cases hb : blocks pfx e r n w with
        | error e => simp [hb] at h
        | ok p =>
          simp only [hb, Except.ok.injEq, Prod.mk.injEq] at h
          obtain ⟨rfl, rfl⟩ := h
          have ih := blocks_fixed pfx e hs r n w (bs := p.1) (n' := p.2) hb hfix
          have hseg : rnSeg ρ (if star then rcSegs b.segs else b.segs).flatten =
              (if star then rcSegs b.segs else b.segs).flatten := by
            cases star <;> simp [rcSegs_flatten, rnSeg_rc, ← hx.2.2]
          simp only [flat_append, flat_plain, List.map_append, map_rnF_n, hseg, ih]
  | .nuc text :: r, n, w, bs, n', h, hfix => by
    simp only [blocks] at h
    split at h
    · cases hb : blocks pfx e r (n + 1) w with
      | error e => simp [hb] at h
      | ok p =>
        simp only [hb, Except.ok.injEq, Prod.mk.injEq] at h
        obtain ⟨rfl, rfl⟩ := h
        have hle := blocks_counter_le pfx e r (n + 1) w (bs := p.1) (n' := p.2) hb
        have ih := blocks_fixed pfx e hs r (n + 1) w (bs := p.1) (n' := p.2) hb
          (fun m h1 h2 => hfix m (by omega) h2)
        have hn := hfix n (Nat.le_refl _) (by omega)
        simp only [flat, List.map_cons, List.map_append, map_rnF_n, rnF, rnSeg_fwd, hn, ih]
    · cases w with
      | true => simp at h
      | false =>
        simp only [Bool.false_eq_true, if_false] at h
        cases hb : blocks pfx e r n true with
        | error e => simp [hb] at h
        | ok p =>
          simp only [hb, Except.ok.injEq, Prod.mk.injEq] at h
          obtain ⟨rfl, rfl⟩ := h
          have ih := blocks_fixed pfx e hs r n true (bs := p.1) (n' := p.2) hb hfix
          simp only [flat, List.map_cons, rnF, ih]
    · cases h

/-- a flattened region result without its zero-length new domains (what `withNewDomains` keeps) -/
def nz3 (r : List Nuc × List (String × List Char) × Nat) : List Nuc × List (String × List Char) × Nat :=
  (r.1, r.2.1.filter (fun d => d.2.length != 0), r.2.2)

theorem finishF_insert_zero_dom (pfx : String) (fa fb : List FItem) (nm : String) (n : Nat) (length : Option Nat) :
    (finishF pfx (fa ++ .d nm [] :: fb) n length).map nz3 = (finishF pfx (fa ++ fb) n length).map nz3 := by
  have hw : fWild (fa ++ .d nm [] :: fb) = fWild (fa ++ fb) := by simp [fWild_append, fWild]
  have hl : fLen (fa ++ .d nm [] :: fb) = fLen (fa ++ fb) := by simp [fLen_append, fLen]
  have hn : ∀ x, fNucs x (fa ++ .d nm [] :: fb) = fNucs x (fa ++ fb) := by intro x; simp [fNucs_append, fNucs]
  have hd : ∀ wd, (fDoms wd (fa ++ .d nm [] :: fb)).filter (fun d => d.2.length != 0) =
      (fDoms wd (fa ++ fb)).filter (fun d => d.2.length != 0) := by
    intro wd; simp [fDoms_append, fDoms, List.filter_cons]
  unfold finishF
  rw [hw, hl]
  cases fWild (fa ++ fb) with
  | none =>
    cases length with
    | none => simp [Except.map, nz3, hn, hd]
    | some l =>
      dsimp only
      split
      · rfl
      · simp [Except.map, nz3, hn, hd]
  | some parts =>
    cases length with
    | none => rfl
    | some l =>
      dsimp only
      split
      · rfl
      · cases resolve parts (some (l - fLen (fa ++ fb))) with
        | error e => rfl
        | ok r =>
          obtain ⟨wl, c⟩ := r
          simp [Except.map, nz3, hn, hd]

/-- (a), quoted region: inserting a zero-length quoted region at position `i` consumes one more anonymous
    name; up to the renumbering `ρ` of the later ones the outcome is unchanged: same error, or the same
    nucleotides, the same non-empty new domains, the counter one higher.  `ρ` is any renaming that fixes what
    the environment binds (`SeqsRel ρ env.seqs env.seqs`) and the anonymous names created before the
    insertion point, and maps `_Anon m ↦ _Anon (m+1)` from the insertion point on. -/
theorem denoteRegion_insert_quoted (pfx : String) (env : Env) (items : List SrcItem) (i : Nat) (text : List Char)
    (length : Option Nat) (hq : resolve (parseQuoted text) none = .ok (0, []))
    {ρ : String → String} (hs : SeqsRel ρ env.seqs env.seqs)
    (hlt : ∀ m, m < env.anon + fixedNucs (items.take i) → ρ (pfx ++ "_Anon" ++ toString m) = pfx ++ "_Anon" ++ toString m)
    (hr : RenumP ρ pfx (env.anon + fixedNucs (items.take i)) 1) :
    (denoteRegion pfx env (items.take i ++ [.nuc text] ++ items.drop i) length).map (fun r => nz3 (flat3 r)) =
      (denoteRegion pfx env items length).map (fun r => nz3 (rn3 ρ 1 (flat3 r))) := by
  have hc1 : ∀ x : Except Denote.Err (List (List Nuc) × List (String × List Char) × Nat),
      x.map (fun r => nz3 (flat3 r)) = (x.map flat3).map nz3 := by intro x; cases x <;> rfl
  have hc2 : ∀ x : Except Denote.Err (List (List Nuc) × List (String × List Char) × Nat),
      x.map (fun r => nz3 (rn3 ρ 1 (flat3 r))) = ((x.map flat3).map (rn3 ρ 1)).map nz3 := by intro x; cases x <;> rfl
  rw [hc1, hc2, denoteRegion_flat, denoteRegion_flat]
  have hsplit : blocks pfx env items env.anon false =
      blocks pfx env (items.take i ++ items.drop i) env.anon false := by rw [List.take_append_drop]
  rw [hsplit, List.append_assoc, blocks_append, blocks_append]
  cases hp : blocks pfx env (items.take i) env.anon false with
  | error e => rfl
  | ok p =>
    have hcnt := blocks_counter pfx env (items.take i) env.anon false (bs := p.1) (n' := p.2) hp
    rw [← hcnt] at hlt hr
    have hfixp := blocks_fixed pfx env hs (items.take i) env.anon false (bs := p.1) (n' := p.2) hp
      (fun m _ h2 => hlt m h2)
    simp only [List.singleton_append, blocks, hq]
    have hrel := blocks_rel pfx hr env env hs (items.drop i) p.2 (false || hasWild p.1) (Nat.le_refl _)
    cases hq2 : blocks pfx env (items.drop i) p.2 (false || hasWild p.1) with
    | error err =>
      rw [hq2] at hrel
      rw [map_eq_error hrel]
      rfl
    | ok q =>
      rw [hq2] at hrel
      obtain ⟨q', hq', hf⟩ := map_eq_ok hrel
      rw [hq']
      simp only [Prod.mk.injEq] at hf
      dsimp only
      have hfl : flat (p.1 ++ Blk.anon (pfx ++ "_Anon" ++ toString p.2) [] (fwd (pfx ++ "_Anon" ++ toString p.2) 0) :: q'.1) =
          (flat p.1).map (rnF ρ) ++ FItem.d (pfx ++ "_Anon" ++ toString p.2) [] :: (flat q.1).map (rnF ρ) := by
        rw [flat_append, hfixp]
        simp [flat, fwd, hf.1]
      rw [hfl, finishF_insert_zero_dom, ← List.map_append, ← flat_append, hf.2]
      rw [finishF_rn pfx ρ 1 q.2 (hr q.2 (blocks_counter_le pfx env (items.drop i) p.2 _ hq2))]

/-! ### statements: unfolding equations -/

def seqResult (pfx : String) (env : Env) (o : Out) (name : String)
    (r : List (List Nuc) × List (String × List Char) × Nat) : Env × Out :=
  ({ env with seqs := env.seqs ++ [(name, ⟨r.1.flatten, r.1, true⟩)], anon := r.2.2 },
   if r.1.flatten.isEmpty then withNewDomains o r.2.1
   else { withNewDomains o r.2.1 with supSeqs := (withNewDomains o r.2.1).supSeqs ++ [(pfx ++ name, r.1.flatten)] })

def strandResult (pfx : String) (env : Env) (o : Out) (dummy : Bool) (name : String)
    (r : List (List Nuc) × List (String × List Char) × Nat) : Env × Out :=
  ({ env with strands := env.strands ++ [(name, r.1.flatten, r.1)], anon := r.2.2 },
   { withNewDomains o r.2.1 with strands := (withNewDomains o r.2.1).strands ++ [(pfx ++ name, dummy, r.1.flatten)] })

def atomResult (pfx : String) (env : Env) (o : Out) (name : String) (l : Nat) (c : List Char) : Env × Out :=
  ({ env with seqs := env.seqs ++ [(name, ⟨fwd (pfx ++ name) l, [fwd (pfx ++ name) l], false⟩)] },
   if l == 0 then o else { o with domains := o.domains ++ [(pfx ++ name, c)],
                                  baseSeqs := o.baseSeqs ++ [(pfx ++ name, fwd (pfx ++ name) l)] })

theorem denoteStmt_atom (pfx : String) (env : Env) (o : Out) (name : String) (text : List Char) (len : Option Nat) :
    denoteStmt pfx env o (.seq name [.nuc text] len) =
      if (env.seqs.lookup name).isSome then .error .duplicate else
      match resolve (parseQuoted text) len with
      | .error _ => .error .length
      | .ok (l, c) => .ok (atomResult pfx env o name l c) := by
  rw [denoteStmt]
  rfl

theorem denoteStmt_seq (pfx : String) (env : Env) (o : Out) (name : String) (items : List SrcItem) (len : Option Nat)
    (h : ∀ t, items ≠ [.nuc t]) :
    denoteStmt pfx env o (.seq name items len) =
      if (env.seqs.lookup name).isSome then .error .duplicate else
      match denoteRegion pfx env items len with
      | .error e => .error e
      | .ok r => .ok (seqResult pfx env o name r) := by
  unfold denoteStmt
  split
  · rename_i heq
    injection heq with _ h2 _
    exact absurd h2 (h _)
  · rename_i heq
    injection heq with h1 h2 h3
    subst h1 h2 h3
    by_cases hd : (List.lookup name env.seqs).isSome = true
    · simp [hd, throw, throwThe, MonadExceptOf.throw, bind, Except.bind]
    · simp only [hd, Bool.false_eq_true, if_false, bind, Except.bind]
      cases denoteRegion pfx env items len with
      | error e => rfl
      | ok r => rfl
  all_goals (rename_i heq; cases heq)

theorem denoteStmt_strand (pfx : String) (env : Env) (o : Out) (dummy : Bool) (name : String) (items : List SrcItem)
    (len : Option Nat) :
    denoteStmt pfx env o (.strand dummy name items len) =
      if (env.strands.lookup name).isSome then .error .duplicate else
      match denoteRegion pfx env items len with
      | .error e => .error e
      | .ok r => if r.1.flatten.isEmpty then .error .zeroStrand else .ok (strandResult pfx env o dummy name r) := by
  rw [denoteStmt]
  by_cases hd : (List.lookup name env.strands).isSome = true
  · simp [hd, throw, throwThe, MonadExceptOf.throw, bind, Except.bind]
  · simp only [hd, Bool.false_eq_true, if_false, bind, Except.bind]
    cases denoteRegion pfx env items len with
    | error e => rfl
    | ok r =>
      obtain ⟨segs, doms, anon⟩ := r
      dsimp only
      by_cases hz : segs.flatten.isEmpty = true
      · simp [hz, throw, throwThe, MonadExceptOf.throw]
      · simp only [hz, Bool.false_eq_true, if_false]
        rfl

end Pepper.DenoteZero
