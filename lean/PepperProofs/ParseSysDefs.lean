import PepperModel.ParseSys
/-!
# `.sys` text parser: the well-formedness predicates its theorems are stated with
(shared by `PepperProofs/ParseSys.lean` — rendering then parsing — and `PepperProofs/ParseSysInv.lean` — what
accepted text looks like)
-/
namespace Pepper.ParseSys
open Pepper.Sys

/-- `[A-Za-z][A-Za-z0-9_]*` -/
def nameOk (n : String) : Bool :=
  match n.toList with
  | c :: r => isVar0 c && r.all isVarC
  | [] => false

/-- non-empty over `[A-Za-z0-9._/~-]` -/
def pathOk (p : String) : Bool := !p.toList.isEmpty && p.toList.all isPathC

def sigsOk (l : List SigRef) : Bool := l.all (fun r => nameOk r.name)

def itemOk (it : String × Option String) : Bool :=
  pathOk it.1 && (match it.2 with | some a => nameOk a | none => true)

/-- every name of a statement is `[A-Za-z][A-Za-z0-9_]*`, every import path is non-empty over the path alphabet,
    an import statement has at least one item -/
def stmtNamesOk : SStmt → Bool
  | .imports items => !items.isEmpty && items.all itemOk
  | .component name templ _ ins outs => nameOk name && nameOk templ && sigsOk ins && sigsOk outs

def declNamesOk (d : Decl) : Bool := nameOk d.name && d.params.all nameOk && sigsOk d.inputs && sigsOk d.outputs

def srcNamesOk (s : SSrc) : Bool :=
  declNamesOk ⟨s.name, s.params, s.inputs, s.outputs⟩ && s.stmts.all stmtNamesOk

end Pepper.ParseSys
