import PepperModel.ParseComp
/-!
# The backtracking engine of `PepperModel/ParseComp.lean`: inversion and evaluation lemmas

*Inversion* (`…_some`): what a successful match tells about the input (used for `parse_names_wellformed`).
*Evaluation* (`…_greedy`, `…_first`, `…_none`): the first complete match on an input of known shape (used for
`parse_render`): a greedy repetition followed by a continuation that succeeds at the longest split returns that
result; if the continuation fails on every longer split the first shorter split on which it succeeds is returned.
-/
namespace Pepper.ParseComp

/-- the first character of `s`, if any, is not in the class -/
def HeadNot (cls : Char → Bool) (s : Str) : Prop := ∀ c r, s = c :: r → cls c = false

theorem headNot_nil {cls : Char → Bool} : HeadNot cls [] := fun _ _ h => nomatch h

theorem headNot_cons {cls : Char → Bool} {c : Char} {r : Str} (h : cls c = false) : HeadNot cls (c :: r) := by
  intro c' r' e
  cases e
  exact h

theorem headNot_append {cls : Char → Bool} {a b : Str} (hne : a ≠ []) (h : HeadNot cls a) : HeadNot cls (a ++ b) := by
  cases a with
  | nil => exact absurd rfl hne
  | cons c r =>
    intro c' r' e
    simp only [List.cons_append, List.cons.injEq] at e
    exact e.1 ▸ h c r rfl

theorem headNot_append_nil {cls : Char → Bool} {a b : Str} (ha : HeadNot cls a) (hb : HeadNot cls b) : HeadNot cls (a ++ b) := by
  cases a with
  | nil => simpa using hb
  | cons c r => exact headNot_append (by simp) ha

theorem headNot_of_all {cls cls' : Char → Bool} {a : Str} (h : ∀ c ∈ a, cls' c = true)
    (hd : ∀ c, cls' c = true → cls c = false) : HeadNot cls a := by
  intro c r e
  subst e
  exact hd c (h c (by simp))

/-! ### `lit` -/

@[simp] theorem lit_nil {α : Type} (k : K α) (s : Str) : lit [] k s = k s := by
  cases s <;> rfl

@[simp] theorem lit_cons_cons {α : Type} (p : Char) (ps : Str) (k : K α) (c : Char) (r : Str) :
    lit (p :: ps) k (c :: r) = if c = p then lit ps k r else none := rfl

@[simp] theorem lit_cons_nil {α : Type} (p : Char) (ps : Str) (k : K α) : lit (p :: ps) k [] = none := rfl

theorem lit_append {α : Type} (p : Str) (k : K α) (s : Str) : lit p k (p ++ s) = k s := by
  induction p with
  | nil => simp
  | cons c ps ih => simp [ih]

theorem lit_some {α : Type} {p : Str} {k : K α} {s : Str} {v : α} (h : lit p k s = some v) :
    ∃ r, s = p ++ r ∧ k r = some v := by
  induction p generalizing s with
  | nil => exact ⟨s, rfl, by simpa using h⟩
  | cons c ps ih =>
    cases s with
    | nil => simp at h
    | cons x r =>
      simp only [lit_cons_cons] at h
      split at h
      · rename_i hx
        obtain ⟨r', hr, hk⟩ := ih h
        exact ⟨r', by simp [hx, hr], hk⟩
      · cases h

/-- a literal whose first character differs from the first character of the input fails -/
theorem lit_none_head {α : Type} {p : Char} {ps : Str} {k : K α} {s : Str} (h : HeadNot (· == p) s) :
    lit (p :: ps) k s = none := by
  cases s with
  | nil => rfl
  | cons c r =>
    have := h c r rfl
    simp only [lit_cons_cons]
    rw [if_neg]
    intro e
    simp [e] at this

/-- a literal containing a character outside `cls` fails on `a ++ b` when `a` is inside `cls` and `b` does not
    start with a character of the literal -/
theorem lit_none_class {α : Type} {cls : Char → Bool} {p : Str} {k : K α} {a b : Str}
    (ha : ∀ c ∈ a, cls c = true) (hx : ∃ x ∈ p, cls x = false) (hb : ∀ c r, b = c :: r → c ∉ p) :
    lit p k (a ++ b) = none := by
  induction a generalizing p with
  | nil =>
    cases p with
    | nil => obtain ⟨x, hx, _⟩ := hx; cases hx
    | cons q ps =>
      cases b with
      | nil => rfl
      | cons c r =>
        have := hb c r rfl
        simp only [List.nil_append, lit_cons_cons]
        rw [if_neg]
        intro e
        exact this (by simp [e])
  | cons c a' ih =>
    cases p with
    | nil => obtain ⟨x, hx, _⟩ := hx; cases hx
    | cons q ps =>
      simp only [List.cons_append, lit_cons_cons]
      split
      · rename_i e
        apply ih (fun c hc => ha c (by simp [hc]))
        · obtain ⟨x, hxm, hxc⟩ := hx
          rcases List.mem_cons.mp hxm with rfl | hm
          · have := ha c (by simp)
            rw [e] at this
            rw [this] at hxc
            cases hxc
          · exact ⟨x, hm, hxc⟩
        · intro c' r' e'
          have := hb c' r' e'
          intro hm
          exact this (by simp [hm])
      · rfl

/-! ### `star`, `plus` -/

theorem star_nil {α : Type} (cls : Char → Bool) (k : Str → K α) (pre : Str) : star cls k pre [] = k pre [] := rfl

theorem star_cons {α : Type} (cls : Char → Bool) (k : Str → K α) (pre : Str) (c : Char) (r : Str) :
    star cls k pre (c :: r) =
      if cls c then (star cls k (pre ++ [c]) r).orElse (fun _ => k pre (c :: r)) else k pre (c :: r) := rfl

theorem star_some {α : Type} {cls : Char → Bool} {k : Str → K α} {pre s : Str} {v : α}
    (h : star cls k pre s = some v) :
    ∃ a r, s = a ++ r ∧ (∀ c ∈ a, cls c = true) ∧ k (pre ++ a) r = some v := by
  induction s generalizing pre with
  | nil => exact ⟨[], [], rfl, by simp, by simpa [star_nil] using h⟩
  | cons c r ih =>
    rw [star_cons] at h
    split at h
    · rename_i hc
      cases h1 : star cls k (pre ++ [c]) r with
      | some w =>
        rw [h1] at h
        simp only [Option.orElse_some, Option.some.injEq] at h
        subst h
        obtain ⟨a, r', hs, ha, hk⟩ := ih h1
        refine ⟨c :: a, r', by simp [hs], ?_, ?_⟩
        · intro x hx
          rcases List.mem_cons.mp hx with rfl | hx
          · exact hc
          · exact ha x hx
        · simpa using hk
      | none =>
        rw [h1] at h
        simp only [Option.orElse_none] at h
        exact ⟨[], c :: r, rfl, by simp, by simpa using h⟩
    · exact ⟨[], c :: r, rfl, by simp, by simpa using h⟩

theorem plus_some {α : Type} {cls : Char → Bool} {k : Str → K α} {s : Str} {v : α}
    (h : plus cls k s = some v) :
    ∃ a r, s = a ++ r ∧ a ≠ [] ∧ (∀ c ∈ a, cls c = true) ∧ k a r = some v := by
  cases s with
  | nil => cases h
  | cons c r =>
    simp only [plus] at h
    split at h
    · rename_i hc
      obtain ⟨a, r', hs, ha, hk⟩ := star_some h
      refine ⟨c :: a, r', by simp [hs], by simp, ?_, by simpa using hk⟩
      intro x hx
      rcases List.mem_cons.mp hx with rfl | hx
      · exact hc
      · exact ha x hx
    · cases h

/-- the run of the repetition is `run`, the rest of the input is `rest`: splits are tried from the longest -/
def starRun {α : Type} (k : Str → K α) (pre : Str) : Str → Str → Option α
  | [], rest => k pre rest
  | c :: r, rest => (starRun k (pre ++ [c]) r rest).orElse (fun _ => k pre (c :: r ++ rest))

theorem star_eq_starRun {α : Type} {cls : Char → Bool} (k : Str → K α) (pre run rest : Str)
    (hrun : ∀ c ∈ run, cls c = true) (hrest : HeadNot cls rest) :
    star cls k pre (run ++ rest) = starRun k pre run rest := by
  induction run generalizing pre with
  | nil =>
    cases rest with
    | nil => rfl
    | cons c r =>
      simp only [List.nil_append, star_cons, starRun]
      rw [if_neg]
      simp [hrest c r rfl]
  | cons c r ih =>
    simp only [List.cons_append, star_cons, starRun]
    rw [if_pos (hrun c (by simp)), ih _ (fun x hx => hrun x (by simp [hx]))]

/-- the longest split succeeds -/
theorem starRun_greedy {α : Type} {k : Str → K α} {pre run rest : Str} {v : α}
    (h : k (pre ++ run) rest = some v) : starRun k pre run rest = some v := by
  induction run generalizing pre with
  | nil => simpa [starRun] using h
  | cons c r ih =>
    simp only [starRun]
    rw [ih (by simpa using h)]
    rfl

/-- `run = a ++ b`: the continuation fails on every split inside `b` except the one in front of `b`, where it
    succeeds: that one is the match -/
theorem starRun_first {α : Type} {k : Str → K α} {pre a b rest : Str} {v : α}
    (hfail : ∀ b1 b2, b = b1 ++ b2 → b1 ≠ [] → k (pre ++ a ++ b1) (b2 ++ rest) = none)
    (h : k (pre ++ a) (b ++ rest) = some v) : starRun k pre (a ++ b) rest = some v := by
  induction a generalizing pre with
  | nil =>
    induction b generalizing pre with
    | nil => simpa [starRun] using h
    | cons c r ih =>
      simp only [List.nil_append, starRun]
      have hn : starRun k (pre ++ [c]) r rest = none := by
        -- every split of `r` fails too
        clear ih h
        induction r generalizing pre c with
        | nil =>
          simp only [starRun]
          have := hfail [c] [] rfl (by simp)
          simpa using this
        | cons d r' ih2 =>
          simp only [starRun]
          have h1 : starRun k (pre ++ [c] ++ [d]) r' rest = none := by
            have := ih2 (pre := pre ++ [c]) (c := d) (by
              intro b1 b2 e hne
              have := hfail (c :: b1) b2 (by simp [e]) (by simp)
              simpa using this)
            simpa using this
          rw [h1]
          have := hfail [c] (d :: r') rfl (by simp)
          simpa using this
      rw [hn]
      simpa using h
  | cons c r ih =>
    simp only [List.cons_append, starRun]
    rw [ih (pre := pre ++ [c]) (by
      intro b1 b2 e hne
      have := hfail b1 b2 e hne
      simpa using this) (by simpa using h)]
    rfl

/-- the continuation fails on every split: no match -/
theorem starRun_none {α : Type} {k : Str → K α} {pre run rest : Str}
    (hfail : ∀ b1 b2, run = b1 ++ b2 → k (pre ++ b1) (b2 ++ rest) = none) : starRun k pre run rest = none := by
  induction run generalizing pre with
  | nil => simpa [starRun] using hfail [] [] rfl
  | cons c r ih =>
    simp only [starRun]
    rw [ih (pre := pre ++ [c]) (by
      intro b1 b2 e
      have := hfail (c :: b1) b2 (by simp [e])
      simpa using this)]
    simpa using hfail [] (c :: r) rfl

theorem star_greedy {α : Type} {cls : Char → Bool} {k : Str → K α} {pre run rest : Str} {v : α}
    (hrun : ∀ c ∈ run, cls c = true) (hrest : HeadNot cls rest) (h : k (pre ++ run) rest = some v) :
    star cls k pre (run ++ rest) = some v := by
  rw [star_eq_starRun k pre run rest hrun hrest]
  exact starRun_greedy h

theorem star_first {α : Type} {cls : Char → Bool} {k : Str → K α} {pre a b rest : Str} {v : α}
    (ha : ∀ c ∈ a, cls c = true) (hb : ∀ c ∈ b, cls c = true) (hrest : HeadNot cls rest)
    (hfail : ∀ b1 b2, b = b1 ++ b2 → b1 ≠ [] → k (pre ++ a ++ b1) (b2 ++ rest) = none)
    (h : k (pre ++ a) (b ++ rest) = some v) : star cls k pre (a ++ (b ++ rest)) = some v := by
  rw [← List.append_assoc, star_eq_starRun k pre (a ++ b) rest (by
    intro c hc
    rcases List.mem_append.mp hc with hc | hc
    · exact ha c hc
    · exact hb c hc) hrest]
  exact starRun_first hfail h

theorem star_none {α : Type} {cls : Char → Bool} {k : Str → K α} {pre run rest : Str}
    (hrun : ∀ c ∈ run, cls c = true) (hrest : HeadNot cls rest)
    (hfail : ∀ b1 b2, run = b1 ++ b2 → k (pre ++ b1) (b2 ++ rest) = none) :
    star cls k pre (run ++ rest) = none := by
  rw [star_eq_starRun k pre run rest hrun hrest]
  exact starRun_none hfail

theorem plus_none_head {α : Type} {cls : Char → Bool} {k : Str → K α} {s : Str} (h : HeadNot cls s) :
    plus cls k s = none := by
  cases s with
  | nil => rfl
  | cons c r => simp [plus, h c r rfl]

theorem plus_greedy {α : Type} {cls : Char → Bool} {k : Str → K α} {run rest : Str} {v : α}
    (hne : run ≠ []) (hrun : ∀ c ∈ run, cls c = true) (hrest : HeadNot cls rest) (h : k run rest = some v) :
    plus cls k (run ++ rest) = some v := by
  cases run with
  | nil => exact absurd rfl hne
  | cons c r =>
    simp only [List.cons_append, plus]
    rw [if_pos (hrun c (by simp))]
    exact star_greedy (fun x hx => hrun x (by simp [hx])) hrest (by simpa using h)

/-- `[cls]+` over the run `a ++ b` (`a` not empty): the continuation fails on every longer split, succeeds in
    front of `b` -/
theorem plus_first {α : Type} {cls : Char → Bool} {k : Str → K α} {a b rest : Str} {v : α}
    (hne : a ≠ []) (ha : ∀ c ∈ a, cls c = true) (hb : ∀ c ∈ b, cls c = true) (hrest : HeadNot cls rest)
    (hfail : ∀ b1 b2, b = b1 ++ b2 → b1 ≠ [] → k (a ++ b1) (b2 ++ rest) = none)
    (h : k a (b ++ rest) = some v) : plus cls k (a ++ (b ++ rest)) = some v := by
  cases a with
  | nil => exact absurd rfl hne
  | cons c r =>
    simp only [List.cons_append, plus]
    rw [if_pos (ha c (by simp))]
    exact star_first (fun x hx => ha x (by simp [hx])) hb hrest (by simpa using hfail) (by simpa using h)

/-- `[cls]+` with a continuation that fails on every split of the run -/
theorem plus_none {α : Type} {cls : Char → Bool} {k : Str → K α} {run rest : Str}
    (hrun : ∀ c ∈ run, cls c = true) (hrest : HeadNot cls rest)
    (hfail : ∀ b1 b2, run = b1 ++ b2 → b1 ≠ [] → k b1 (b2 ++ rest) = none) :
    plus cls k (run ++ rest) = none := by
  cases run with
  | nil => simpa using plus_none_head hrest
  | cons c r =>
    simp only [List.cons_append, plus]
    rw [if_pos (hrun c (by simp))]
    apply star_none (fun x hx => hrun x (by simp [hx])) hrest
    intro b1 b2 e
    have := hfail (c :: b1) b2 (by simp [e]) (by simp)
    simpa using this

/-! ### `alt`, `atEnd`, `endZ`, `sp1` -/

theorem alt_left {α : Type} {a b : K α} {s : Str} {v : α} (h : a s = some v) : alt a b s = some v := by
  simp [alt, h]

theorem alt_right {α : Type} {a b : K α} {s : Str} (h : a s = none) : alt a b s = b s := by
  simp [alt, h]

theorem alt_some {α : Type} {a b : K α} {s : Str} {v : α} (h : alt a b s = some v) : a s = some v ∨ b s = some v := by
  unfold alt at h
  cases ha : a s with
  | some w => rw [ha] at h; exact Or.inl (by simpa using h)
  | none => rw [ha] at h; exact Or.inr (by simpa using h)

theorem alt_none {α : Type} {a b : K α} {s : Str} (ha : a s = none) (hb : b s = none) : alt a b s = none := by
  simp [alt, ha, hb]

@[simp] theorem atEnd_nil {α : Type} (k : K α) : atEnd k [] = k [] := rfl
@[simp] theorem atEnd_cons {α : Type} (k : K α) (c : Char) (r : Str) : atEnd k (c :: r) = none := rfl

theorem atEnd_some {α : Type} {k : K α} {s : Str} {v : α} (h : atEnd k s = some v) : s = [] ∧ k [] = some v := by
  cases s with
  | nil => exact ⟨rfl, h⟩
  | cons c r => cases h

theorem endZ_some {α : Type} {v w : α} {s : Str} (h : endZ v s = some w) : w = v ∧ ∀ c ∈ s, isSp c = true := by
  unfold endZ at h
  obtain ⟨a, r, hs, ha, hk⟩ := star_some h
  obtain ⟨hr, hv⟩ := atEnd_some hk
  subst hr
  simp only [List.append_nil] at hs
  subst hs
  exact ⟨by simpa using hv.symm, ha⟩

theorem endZ_ok {α : Type} (v : α) {s : Str} (h : ∀ c ∈ s, isSp c = true) : endZ v s = some v := by
  unfold endZ
  have := star_greedy (cls := isSp) (k := fun _ => atEnd (fun _ => some v)) (pre := []) (run := s) (rest := []) h
    headNot_nil (v := v) rfl
  simpa using this

@[simp] theorem endZ_nil {α : Type} (v : α) : endZ v [] = some v := rfl

theorem endZ_none {α : Type} (v : α) {s : Str} (h : ∃ c ∈ s, isSp c = false) : endZ v s = none := by
  cases hh : endZ v s with
  | none => rfl
  | some w =>
    obtain ⟨c, hc, hf⟩ := h
    have := (endZ_some hh).2 c hc
    rw [hf] at this
    cases this

/-- `\s*\Z` on an input that starts with a non-blank character -/
theorem endZ_none_head {α : Type} (v : α) {c : Char} {r : Str} (h : isSp c = false) : endZ v (c :: r) = none :=
  endZ_none v ⟨c, by simp, h⟩

theorem sp1_greedy {α : Type} {k : K α} {run rest : Str} {v : α}
    (hne : run ≠ []) (hrun : ∀ c ∈ run, isSp c = true) (hrest : HeadNot isSp rest) (h : k rest = some v) :
    sp1 k (run ++ rest) = some v :=
  plus_greedy hne hrun hrest h

theorem sp1_none_head {α : Type} {k : K α} {s : Str} (h : HeadNot isSp s) : sp1 k s = none := plus_none_head h

theorem sp1_some {α : Type} {k : K α} {s : Str} {v : α} (h : sp1 k s = some v) :
    ∃ a r, s = a ++ r ∧ a ≠ [] ∧ (∀ c ∈ a, isSp c = true) ∧ k r = some v := plus_some h

/-- `\s+` followed by a continuation that fails unless the input starts with a non-blank character: all of a blank run is taken -/
theorem sp1_none {α : Type} {k : K α} {run rest : Str}
    (hrun : ∀ c ∈ run, isSp c = true) (hrest : HeadNot isSp rest)
    (hk : k rest = none) (hks : ∀ c r, isSp c = true → k (c :: r) = none) : sp1 k (run ++ rest) = none := by
  apply plus_none hrun hrest
  intro b1 b2 e _
  cases b2 with
  | nil => simpa using hk
  | cons c r =>
    simp only [List.cons_append]
    apply hks
    apply hrun
    rw [e]
    simp

end Pepper.ParseComp
