import PepperProofs.WellFormed
import PepperProofs.ParseCompSound
import PepperProofs.ParseCompDoc
import PepperProofs.ParseCompRenderCons
/-!
# From document text to C09: what the parser accepts satisfies `UserNamesOk` up to the reserved names

C09's theorems carry the hypothesis `Comp.UserNamesOk src`: no sequence name the source defines or mentions is empty,
contains `*`, or has the compiler's reserved form `_Anon<digits>`.  For a source that comes out of `parseDoc` the first
two clauses are facts (`parse_names_wellformed`: every such name is non-empty over `[A-Za-z0-9_-]`); only the third one
remains a hypothesis on the text (`noAnonNames`), and it is necessary (F16: `sequence _Anon0 = "5N"` is accepted by the
parser).
-/
namespace Pepper.ParseComp
open Pepper.Comp

def itemNoAnon : SrcItem → Bool
  | .nuc _ => true
  | .ref n _ => !isAnonForm n
  | .domains n _ => !isAnonForm n

def stmtNoAnon : Stmt → Bool
  | .seq n items _ => !isAnonForm n && items.all itemNoAnon
  | .strand _ _ items _ => items.all itemNoAnon
  | _ => true

/-- no sequence name the source defines, mentions in an item list or lists as a port has the reserved form `_Anon<digits>` -/
def noAnonNames (src : Src) : Bool :=
  src.stmts.all stmtNoAnon && (src.inputs ++ src.outputs).all (fun p => !isAnonForm p.seq)

theorem okName_of_nameOk {n : String} (h : nameOk n = true) (ha : isAnonForm n = false) : okName n = true := by
  obtain ⟨hne, hall⟩ := nameOkL_iff.mp h
  unfold okName
  simp only [ha, Bool.not_false, Bool.true_and, Bool.and_eq_true, Bool.not_eq_true', bne_iff_ne, ne_eq]
  refine ⟨?_, hne⟩
  cases hc : n.toList.contains '*' with
  | false => rfl
  | true =>
    have hm : '*' ∈ n.toList := by simpa using hc
    exact absurd (hall '*' hm) (by decide)

theorem itemNamesOk_of {items : List SrcItem} (hw : ∀ x ∈ items, wfItem x = true) (ha : ∀ x ∈ items, itemNoAnon x = true) :
    itemNamesOk items = true := by
  unfold itemNamesOk
  rw [List.all_eq_true]
  intro x hx
  have h1 := hw x hx
  have h2 := ha x hx
  cases x with
  | nuc t => rfl
  | ref n st =>
    simp only [itemNoAnon, Bool.not_eq_true'] at h2
    exact okName_of_nameOk h1 h2
  | domains n st =>
    simp only [itemNoAnon, Bool.not_eq_true'] at h2
    exact okName_of_nameOk h1 h2

theorem stmtNamesOk_of {st : Stmt} (hacc : accStmt st = true) (ha : stmtNoAnon st = true) : stmtNamesOk st = true := by
  cases st with
  | seq n items len =>
    have e : accStmt (.seq n items len) = (nameOk n && items.all wfItem) := rfl
    rw [e] at hacc
    simp only [Bool.and_eq_true, List.all_eq_true] at hacc
    simp only [stmtNoAnon, Bool.and_eq_true, Bool.not_eq_true', List.all_eq_true] at ha
    simp only [stmtNamesOk, Bool.and_eq_true]
    exact ⟨okName_of_nameOk hacc.1 ha.1, itemNamesOk_of hacc.2 ha.2⟩
  | strand d n items len =>
    have e : accStmt (.strand d n items len) = (nameOk n && items.all wfItem) := rfl
    rw [e] at hacc
    simp only [Bool.and_eq_true, List.all_eq_true] at hacc
    simp only [stmtNoAnon, List.all_eq_true] at ha
    simp only [stmtNamesOk]
    exact itemNamesOk_of hacc.2 ha
  | struct opt n strands d text => rfl
  | kinetic lo hi ins outs => rfl

/-- what `parseDoc` accepts satisfies C09's hypothesis as soon as no name has the reserved form -/
theorem userNamesOk_of_parseDocL {text decl : Str} {src : Src} (h : parseDocL text decl = .ok src)
    (ha : noAnonNames src = true) : UserNamesOk src = true := by
  obtain ⟨d, hd, hsrc, hl⟩ := (parseDocL_ok_iff text decl src).mp h
  have hdacc := parseDeclareL_acc hd
  simp only [noAnonNames, Bool.and_eq_true, List.all_eq_true, Bool.not_eq_true'] at ha
  unfold UserNamesOk
  simp only [Bool.and_eq_true, List.all_eq_true]
  refine ⟨?_, ?_⟩
  · intro st hst
    have : (Except.ok st : Except Err Stmt) ∈ (docLinesL text).map parseLineL := by
      rw [hl]
      exact List.mem_map.mpr ⟨st, hst, rfl⟩
    obtain ⟨l, _, hp⟩ := List.mem_map.mp this
    exact stmtNamesOk_of (parseLineL_acc hp) (ha.1 st hst)
  · intro p hp
    have hports : ∀ q ∈ d.inputs ++ d.outputs, wfPort q = true := by
      have e : accDecl d = (nameOk d.name && d.params.all looseParam && d.inputs.all wfPort && d.outputs.all wfPort) := rfl
      rw [e] at hdacc
      simp only [Bool.and_eq_true, List.all_eq_true] at hdacc
      intro q hq
      rcases List.mem_append.mp hq with hq | hq
      · exact hdacc.1.2 q hq
      · exact hdacc.2 q hq
    have hp' : p ∈ d.inputs ++ d.outputs := by
      rw [hsrc] at hp
      exact hp
    have hw := hports p hp'
    simp only [wfPort, Bool.and_eq_true] at hw
    exact okName_of_nameOk hw.1 (ha.2 p hp)

end Pepper.ParseComp
