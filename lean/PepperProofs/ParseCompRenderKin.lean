import PepperProofs.ParseCompRenderSeq
/-!
# `parse_render` for `kinetic` statements

(all helper names carry the prefix `kin` so that this module can be imported next to its siblings)
-/
namespace Pepper.ParseComp
open Pepper.Comp

/-! ### `splitOn` -/

theorem kin_splitOn_none {d : Char} {x : Str} (hx : ∀ c ∈ x, c ≠ d) : splitOn d x = [x] := by
  induction x with
  | nil => rfl
  | cons y r ih =>
    have := ih (fun c hc => hx c (by simp [hc]))
    simp only [splitOn]
    rw [if_neg (hx y (by simp)), this]

theorem kin_splitOn_append {d : Char} {x : Str} (hx : ∀ c ∈ x, c ≠ d) (s : Str) :
    splitOn d (x ++ d :: s) = x :: splitOn d s := by
  induction x with
  | nil => simp [splitOn]
  | cons y r ih =>
    simp only [List.cons_append, splitOn]
    rw [if_neg (hx y (by simp)), ih (fun c hc => hx c (by simp [hc]))]

/-! ### the characters of a `+`-joined name list -/

/-- a name character, a blank or `+` -/
def KinCh (c : Char) : Prop := isName c = true ∨ isBlank c = true ∨ c = '+'

theorem KinCh.notBrGt {c : Char} (h : KinCh c) : notBrGt c = true := by
  rcases h with h | h | rfl
  · exact name_notBrGt h
  · exact blank_notBrGt h
  · decide

theorem KinCh.notNl {c : Char} (h : KinCh c) : notNl c = true := by
  rcases h with h | h | rfl
  · exact name_notNl h
  · exact blank_notNl h
  · decide

theorem kin_joinPlus_chars {sp : Nat → Str} (hsp : SpOkL sp) (names : List Str) (hn : ∀ n ∈ names, nameOkL n = true) (i : Nat) :
    ∀ c ∈ joinPlus sp i names, KinCh c := by
  induction names generalizing i with
  | nil => simp [joinPlus]
  | cons a r ih =>
    have ha := (nameOkL_iff.mp (hn a (by simp))).2
    cases r with
    | nil =>
      intro c hc
      simp only [joinPlus] at hc
      exact Or.inl (ha c hc)
    | cons b more =>
      intro c hc
      simp only [joinPlus, List.mem_append, List.mem_cons] at hc
      rcases hc with hc | hc | rfl | hc | hc
      · exact Or.inl (ha c hc)
      · exact Or.inr (Or.inl (hsp.blank i c hc))
      · exact Or.inr (Or.inr rfl)
      · exact Or.inr (Or.inl (hsp.blank (i + 1) c hc))
      · exact ih (fun n hn' => hn n (by simp [hn'])) (i + 2) c hc

theorem kin_joinPlus_head {sp : Nat → Str} (names : List Str) (hne : names ≠ []) (hn : ∀ n ∈ names, nameOkL n = true) (i : Nat) :
    ∃ c r, joinPlus sp i names = c :: r ∧ isName c = true := by
  cases names with
  | nil => exact absurd rfl hne
  | cons a r =>
    obtain ⟨hane, haall⟩ := nameOkL_iff.mp (hn a (by simp))
    cases ha : a with
    | nil => exact absurd ha hane
    | cons x xs =>
      have hx : isName x = true := haall x (by rw [ha]; simp)
      cases r with
      | nil => exact ⟨x, xs, by simp [joinPlus], hx⟩
      | cons b more => exact ⟨x, _, rfl, hx⟩

theorem kin_name_ne_plus {c : Char} (h : isName c = true) : c ≠ '+' := name_ne h (by decide)
theorem kin_blank_ne_plus {c : Char} (h : isBlank c = true) : c ≠ '+' := blank_ne h (by decide)

/-- `[x.strip() for x in text.split("+") if x.strip()]` on a `+`-joined list of names padded by blanks -/
theorem kin_split_joinPlus {sp : Nat → Str} (hsp : SpOkL sp) (names : List Str) (hn : ∀ n ∈ names, nameOkL n = true) :
    ∀ (i : Nat) (pre trail : Str), (∀ c ∈ pre, isBlank c = true) → (∀ c ∈ trail, isBlank c = true) →
      splitStripNonEmpty '+' (pre ++ (joinPlus sp i names ++ trail)) = names := by
  induction names with
  | nil =>
    intro i pre trail hpre htr
    have hall : ∀ c ∈ pre ++ trail, isBlank c = true := by
      intro c hc
      rcases List.mem_append.mp hc with hc | hc
      · exact hpre c hc
      · exact htr c hc
    simp only [joinPlus, List.nil_append, splitStripNonEmpty]
    rw [kin_splitOn_none (fun c hc => kin_blank_ne_plus (hall c hc))]
    simp only [List.map_cons, List.map_nil]
    rw [strip_allSp (fun c hc => blank_isSp (hall c hc))]
    rfl
  | cons a r ih =>
    intro i pre trail hpre htr
    obtain ⟨hane, haall⟩ := nameOkL_iff.mp (hn a (by simp))
    obtain ⟨hx1, hx2⟩ := headNot_sp_of_all haall (fun _ h => name_notSp h)
    have hfil : ∀ (l : List Str), List.filter (fun x => !x.isEmpty) (a :: l) = a :: List.filter (fun x => !x.isEmpty) l := by
      intro l
      rw [List.filter_cons_of_pos]
      cases a with
      | nil => exact absurd rfl hane
      | cons _ _ => rfl
    cases r with
    | nil =>
      simp only [joinPlus, splitStripNonEmpty]
      rw [kin_splitOn_none (by
        intro c hc
        simp only [List.mem_append] at hc
        rcases hc with hc | hc | hc
        · exact kin_blank_ne_plus (hpre c hc)
        · exact kin_name_ne_plus (haall c hc)
        · exact kin_blank_ne_plus (htr c hc))]
      simp only [List.map_cons, List.map_nil]
      rw [strip_pad (fun c hc => blank_isSp (hpre c hc)) (fun c hc => blank_isSp (htr c hc)) hane hx1 hx2, hfil]
      rfl
    | cons b more =>
      have hre : pre ++ (joinPlus sp i (a :: b :: more) ++ trail) =
          (pre ++ (a ++ sp i)) ++ '+' :: (sp (i + 1) ++ (joinPlus sp (i + 2) (b :: more) ++ trail)) := by
        simp [joinPlus]
      rw [hre]
      have := ih (fun n hn' => hn n (by simp [hn'])) (i + 2) (sp (i + 1)) trail (hsp.blank (i + 1)) htr
      unfold splitStripNonEmpty at this ⊢
      rw [kin_splitOn_append (by
        intro c hc
        simp only [List.mem_append] at hc
        rcases hc with hc | hc | hc
        · exact kin_blank_ne_plus (hpre c hc)
        · exact kin_name_ne_plus (haall c hc)
        · exact kin_blank_ne_plus (hsp.blank i c hc))]
      simp only [List.map_cons]
      rw [strip_pad (fun c hc => blank_isSp (hpre c hc)) (hsp.sp i) hane hx1 hx2, hfil, this]

theorem kin_split_ins {sp : Nat → Str} (hsp : SpOkL sp) (names : List Str) (hn : ∀ n ∈ names, nameOkL n = true) (i : Nat)
    (trail : Str) (htr : ∀ c ∈ trail, isBlank c = true) : splitStripNonEmpty '+' (joinPlus sp i names ++ trail) = names :=
  kin_split_joinPlus hsp names hn i [] trail (fun _ h => nomatch h) htr

theorem kin_split_outs {sp : Nat → Str} (hsp : SpOkL sp) (names : List Str) (hn : ∀ n ∈ names, nameOkL n = true) (i : Nat) :
    splitStripNonEmpty '+' (joinPlus sp i names) = names := by
  have := kin_split_ins hsp names hn i [] (fun _ h => nomatch h)
  rw [List.append_nil] at this
  exact this

/-! ### number texts -/

theorem knum_notSp {c : Char} (h : isKNum c = true) : isSp c = false := by
  simp only [isKNum, Bool.or_eq_true, beq_iff_eq] at h
  rcases h with ((h | rfl) | rfl) | rfl
  · exact dig_notSp h
  · decide
  · decide
  · decide

theorem knum_notBr {c : Char} (h : isKNum c = true) : notBr c = true := by
  simp only [isKNum, Bool.or_eq_true, beq_iff_eq] at h
  rcases h with ((h | rfl) | rfl) | rfl
  · exact name_notBr (dig_isName h)
  · decide
  · decide
  · decide

theorem blank_notKNum {c : Char} (h : isBlank c = true) : isKNum c = false := by
  rcases isBlank_cases h with rfl | rfl <;> decide

theorem pyFloatOk_ne_nil {s : Str} (h : pyFloatOk s = true) : s ≠ [] := by
  rintro rfl
  exact absurd h (by decide)

theorem kin_numOk {t : String} (h : numOk isKNum t = true) :
    t.toList ≠ [] ∧ (∀ c ∈ t.toList, isKNum c = true) ∧ pyFloatOk t.toList = true := by
  simp only [numOk, Bool.and_eq_true, List.all_eq_true] at h
  exact ⟨pyFloatOk_ne_nil h.2, h.1, h.2⟩

/-! ### the bracket text -/

/-- `k sp(4) OP sp(5) NUMBER sp(6) /M/s` -/
def kBodyL (sp : Nat → Str) (op : Char) (num : Str) : Str :=
  'k' :: (sp 4 ++ (op :: (sp 5 ++ (num ++ (sp 6 ++ sPerMs)))))

theorem kCmpL_eq (sp : Nat → Str) (op : Char) (num : Str) : kCmpL sp op num = kBodyL sp op num ++ [']'] := by
  simp [kCmpL, kBodyL, sPerMsB, sPerMs]

/-- the text between the brackets -/
def kinTextL (sp : Nat → Str) : Option String → Option String → Str
  | none, none => []
  | some l, none => kBodyL sp '>' l.toList
  | none, some h => kBodyL sp '<' h.toList
  | some l, some h => l.toList ++ (sp 7 ++ (sPerMs ++ (sp 8 ++ ('<' :: (sp 9 ++ kBodyL sp '<' h.toList)))))

theorem kinParL_eq (sp : Nat → Str) (lo hi : Option String) (hne : ¬ (lo = none ∧ hi = none)) (T : Str) :
    kinParL sp lo hi ++ T = sp 0 ++ ('[' :: (kinTextL sp lo hi ++ (']' :: T))) := by
  cases lo <;> cases hi <;> simp [kinParL, kinTextL, kCmpL_eq] at hne ⊢

theorem kBodyL_notBr {sp : Nat → Str} (hsp : SpOkL sp) {op : Char} (hop : notBr op = true) {num : Str}
    (hnum : ∀ c ∈ num, isKNum c = true) : ∀ c ∈ kBodyL sp op num, notBr c = true := by
  intro c hc
  simp only [kBodyL, List.mem_cons, List.mem_append] at hc
  rcases hc with rfl | hc | rfl | hc | hc | hc | hc
  · decide
  · exact blank_notBr (hsp.blank 4 c hc)
  · exact hop
  · exact blank_notBr (hsp.blank 5 c hc)
  · exact knum_notBr (hnum c hc)
  · exact blank_notBr (hsp.blank 6 c hc)
  · exact (by decide : ∀ c ∈ sPerMs, notBr c = true) c hc

theorem kinTextL_notBr {sp : Nat → Str} (hsp : SpOkL sp) (lo hi : Option String) (hlo : optNumOk isKNum lo = true)
    (hhi : optNumOk isKNum hi = true) : ∀ c ∈ kinTextL sp lo hi, notBr c = true := by
  cases lo with
  | none =>
    cases hi with
    | none => simp [kinTextL]
    | some h => exact kBodyL_notBr hsp (by decide) (kin_numOk hhi).2.1
  | some l =>
    cases hi with
    | none => exact kBodyL_notBr hsp (by decide) (kin_numOk hlo).2.1
    | some h =>
      intro c hc
      simp only [kinTextL, List.mem_cons, List.mem_append] at hc
      rcases hc with hc | hc | hc | hc | rfl | hc | hc
      · exact knum_notBr ((kin_numOk hlo).2.1 c hc)
      · exact blank_notBr (hsp.blank 7 c hc)
      · exact (by decide : ∀ c ∈ sPerMs, notBr c = true) c hc
      · exact blank_notBr (hsp.blank 8 c hc)
      · decide
      · exact blank_notBr (hsp.blank 9 c hc)
      · exact kBodyL_notBr hsp (by decide) (kin_numOk hhi).2.1 c hc

theorem kinTextL_ne_nil (sp : Nat → Str) (lo hi : Option String) (hlo : optNumOk isKNum lo = true)
    (hne : ¬ (lo = none ∧ hi = none)) : kinTextL sp lo hi ≠ [] := by
  cases lo with
  | none =>
    cases hi with
    | none => exact absurd ⟨rfl, rfl⟩ hne
    | some h => simp [kinTextL, kBodyL]
  | some l =>
    cases hi with
    | none => simp [kinTextL, kBodyL]
    | some h =>
      have := (kin_numOk hlo).1
      simp [kinTextL, this]

/-! ### `parseKinParams` -/

/-- `\s+([\deE.]+)\s+/M/s\s*\Z` -/
theorem kin_numTail {α : Type} {sp : Nat → Str} (hsp : SpOkL sp) {num : Str} (hne : num ≠ [])
    (hnum : ∀ c ∈ num, isKNum c = true) (f : Str → α) :
    (sp1 <| plus isKNum fun x => sp1 <| lit sPerMs <| endZ (f x)) (sp 5 ++ (num ++ (sp 6 ++ sPerMs))) = some (f num) := by
  apply sp1_greedy (hsp.ne 5) (hsp.sp 5) (headNot_append hne (headNot_of_all hnum (fun _ h => knum_notSp h)))
  apply plus_greedy hne hnum (hsp.headNot 6 (fun c hc => blank_notKNum hc) _)
  apply sp1_greedy (hsp.ne 6) (hsp.sp 6) (by exact headNot_cons (by decide))
  have := lit_append sPerMs (endZ (f num)) []
  rw [List.append_nil] at this
  rw [this]
  rfl

theorem kp1Tail_render {sp : Nat → Str} (hsp : SpOkL sp) (low : Option Str) {num : Str} (hne : num ≠ [])
    (hnum : ∀ c ∈ num, isKNum c = true) : kp1Tail low (kBodyL sp '<' num) = some (low, num) := by
  unfold kp1Tail kBodyL
  simp only [lit_cons_cons, if_true, lit_nil]
  apply sp1_greedy (hsp.ne 4) (hsp.sp 4) (headNot_cons (by decide))
  simp only [lit_cons_cons, if_true, lit_nil]
  exact kin_numTail hsp hne hnum (fun high => (low, high))

theorem kp1Tail_gt {sp : Nat → Str} (hsp : SpOkL sp) (low : Option Str) (num : Str) :
    kp1Tail low (kBodyL sp '>' num) = none := by
  unfold kp1Tail kBodyL
  simp only [lit_cons_cons, if_true, lit_nil]
  apply sp1_none (hsp.sp 4) (headNot_cons (by decide))
  · simp only [lit_cons_cons]
    rw [if_neg (by decide)]
  · intro c r hc
    simp only [lit_cons_cons]
    rw [if_neg]
    rintro rfl
    exact absurd hc (by decide)

theorem reKp1_body_lt {sp : Nat → Str} (hsp : SpOkL sp) {num : Str} (hne : num ≠ [])
    (hnum : ∀ c ∈ num, isKNum c = true) : reKp1 (kBodyL sp '<' num) = some (none, num) := by
  unfold reKp1
  rw [alt_right (plus_none_head (by unfold kBodyL; exact headNot_cons (by decide)))]
  exact kp1Tail_render hsp none hne hnum

theorem reKp1_body_gt {sp : Nat → Str} (hsp : SpOkL sp) (num : Str) : reKp1 (kBodyL sp '>' num) = none := by
  unfold reKp1
  rw [alt_right (plus_none_head (by unfold kBodyL; exact headNot_cons (by decide)))]
  exact kp1Tail_gt hsp none num

theorem reKp2_body_gt {sp : Nat → Str} (hsp : SpOkL sp) {num : Str} (hne : num ≠ [])
    (hnum : ∀ c ∈ num, isKNum c = true) : reKp2 (kBodyL sp '>' num) = some num := by
  unfold reKp2 kBodyL
  simp only [lit_cons_cons, if_true, lit_nil]
  apply sp1_greedy (hsp.ne 4) (hsp.sp 4) (headNot_cons (by decide))
  simp only [lit_cons_cons, if_true, lit_nil]
  exact kin_numTail hsp hne hnum (fun low => low)

theorem reKp1_both {sp : Nat → Str} (hsp : SpOkL sp) {l h : Str} (hlne : l ≠ []) (hl : ∀ c ∈ l, isKNum c = true)
    (hhne : h ≠ []) (hh : ∀ c ∈ h, isKNum c = true) :
    reKp1 (l ++ (sp 7 ++ (sPerMs ++ (sp 8 ++ ('<' :: (sp 9 ++ kBodyL sp '<' h)))))) = some (some l, h) := by
  unfold reKp1
  apply alt_left
  apply plus_greedy hlne hl (hsp.headNot 7 (fun c hc => blank_notKNum hc) _)
  apply sp1_greedy (hsp.ne 7) (hsp.sp 7) (by exact headNot_cons (by decide))
  rw [lit_append]
  apply sp1_greedy (hsp.ne 8) (hsp.sp 8) (headNot_cons (by decide))
  simp only [lit_cons_cons, if_true, lit_nil]
  apply sp1_greedy (hsp.ne 9) (hsp.sp 9) (by unfold kBodyL; exact headNot_cons (by decide))
  exact kp1Tail_render hsp (some l) hhne hh

theorem parseKinParams_render {sp : Nat → Str} (hsp : SpOkL sp) (lo hi : Option String) (hlo : optNumOk isKNum lo = true)
    (hhi : optNumOk isKNum hi = true) (hne : ¬ (lo = none ∧ hi = none)) :
    parseKinParams (kinTextL sp lo hi) = .ok (lo, hi) := by
  cases lo with
  | none =>
    cases hi with
    | none => exact absurd ⟨rfl, rfl⟩ hne
    | some h =>
      obtain ⟨h1, h2, h3⟩ := kin_numOk hhi
      unfold parseKinParams
      simp only [kinTextL]
      rw [reKp1_body_lt hsp h1 h2]
      simp only [h3, Bool.and_self, if_true, Option.map_none, String.ofList_toList]
  | some l =>
    obtain ⟨l1, l2, l3⟩ := kin_numOk hlo
    cases hi with
    | none =>
      unfold parseKinParams
      simp only [kinTextL]
      rw [reKp1_body_gt hsp, reKp2_body_gt hsp l1 l2]
      simp only [l3, if_true, String.ofList_toList]
    | some h =>
      obtain ⟨h1, h2, h3⟩ := kin_numOk hhi
      unfold parseKinParams
      simp only [kinTextL]
      rw [reKp1_both hsp l1 l2 h1 h2]
      simp only [l3, h3, Bool.and_self, if_true, Option.map_some, String.ofList_toList]

/-! ### the statement regex -/

/-- inputs `->` outputs -/
def kinIOL (sp : Nat → Str) (ins outs : List Str) : Str :=
  sp 1 ++ (joinPlus sp 10 ins ++ (sp 2 ++ ('-' :: '>' :: (sp 3 ++ joinPlus sp 40 outs))))

theorem kinTail_render {sp : Nat → Str} (hsp : SpOkL sp) (p : Option Str) (ins outs : List Str)
    (hine : ins ≠ []) (hin : ∀ n ∈ ins, nameOkL n = true) (hone : outs ≠ []) (hon : ∀ n ∈ outs, nameOkL n = true) :
    kinTail p (kinIOL sp ins outs) = some (p, joinPlus sp 10 ins ++ (sp 2).dropLast, joinPlus sp 40 outs) := by
  obtain ⟨ci, ri, hJI, hci⟩ := kin_joinPlus_head (sp := sp) ins hine hin 10
  obtain ⟨co, ro, hJO, hco⟩ := kin_joinPlus_head (sp := sp) outs hone hon 40
  have hIch := kin_joinPlus_chars hsp ins hin 10
  have hOch := kin_joinPlus_chars hsp outs hon 40
  obtain ⟨c, hsplit, hc, hdl⟩ := hsp.split 2
  generalize (sp 2).dropLast = D at hsplit hdl ⊢
  unfold kinTail kinIOL
  apply sp1_greedy (hsp.ne 1) (hsp.sp 1) (by rw [hJI]; exact headNot_cons (name_notSp hci))
  have hassoc : joinPlus sp 10 ins ++ (sp 2 ++ ('-' :: '>' :: (sp 3 ++ joinPlus sp 40 outs))) =
      (joinPlus sp 10 ins ++ D) ++ ([c, '-'] ++ ('>' :: (sp 3 ++ joinPlus sp 40 outs))) := by
    rw [hsplit]
    simp
  rw [hassoc]
  apply star_first
  · intro x hx
    rcases List.mem_append.mp hx with hx | hx
    · exact (hIch x hx).notBrGt
    · exact blank_notBrGt (hdl x hx)
  · intro x hx
    simp only [List.mem_cons, List.not_mem_nil, or_false] at hx
    rcases hx with rfl | rfl
    · exact blank_notBrGt hc
    · decide
  · exact headNot_cons (by decide)
  · intro b1 b2 e hb1
    have hb2 : HeadNot isSp (b2 ++ '>' :: (sp 3 ++ joinPlus sp 40 outs)) := by
      rcases b1 with _ | ⟨x, _ | ⟨y, b1'⟩⟩
      · exact absurd rfl hb1
      · simp only [List.cons_append, List.nil_append, List.cons.injEq] at e
        rw [← e.2]
        exact headNot_cons (by decide)
      · simp only [List.cons_append, List.cons.injEq] at e
        have h2 : b2 = [] := by
          have := e.2.2
          simp at this
          exact this.2
        subst h2
        exact headNot_cons (by decide)
    exact sp1_none_head hb2
  · show sp1 _ ([c] ++ ('-' :: '>' :: (sp 3 ++ joinPlus sp 40 outs))) = some _
    apply sp1_greedy (by simp) (by simpa using blank_isSp hc) (headNot_cons (by decide))
    simp only [lit_cons_cons, if_true, lit_nil]
    apply sp1_greedy (hsp.ne 3) (hsp.sp 3) (by rw [hJO]; exact headNot_cons (name_notSp hco))
    have h := star_greedy (cls := notNl) (k := fun outs' => endZ (p, [] ++ (joinPlus sp 10 ins ++ D), outs')) (pre := [])
      (run := joinPlus sp 40 outs) (rest := []) (v := (p, joinPlus sp 10 ins ++ D, joinPlus sp 40 outs))
      (fun x hx => (hOch x hx).notNl) headNot_nil rfl
    rw [List.append_nil] at h
    exact h

theorem reKin_render_plain {sp : Nat → Str} (hsp : SpOkL sp) (ins outs : List Str)
    (hine : ins ≠ []) (hin : ∀ n ∈ ins, nameOkL n = true) (hone : outs ≠ []) (hon : ∀ n ∈ outs, nameOkL n = true) :
    reKin (sKinetic ++ kinIOL sp ins outs) = some (none, joinPlus sp 10 ins ++ (sp 2).dropLast, joinPlus sp 40 outs) := by
  obtain ⟨ci, ri, hJI, hci⟩ := kin_joinPlus_head (sp := sp) ins hine hin 10
  unfold reKin
  rw [lit_append, alt_right]
  · exact kinTail_render hsp none ins outs hine hin hone hon
  · unfold kinIOL
    rw [hJI]
    apply sp1_none (hsp.sp 1) (headNot_cons (name_notSp hci))
    · simp only [lit_cons_cons]
      rw [if_neg (name_ne hci (by decide))]
    · intro c r hc
      simp only [lit_cons_cons]
      rw [if_neg]
      rintro rfl
      exact absurd hc (by decide)

theorem reKin_render_bracket {sp : Nat → Str} (hsp : SpOkL sp) (P : Str) (hP : ∀ c ∈ P, notBr c = true) (ins outs : List Str)
    (hine : ins ≠ []) (hin : ∀ n ∈ ins, nameOkL n = true) (hone : outs ≠ []) (hon : ∀ n ∈ outs, nameOkL n = true) :
    reKin (sKinetic ++ (sp 0 ++ ('[' :: (P ++ (']' :: kinIOL sp ins outs))))) =
      some (some P, joinPlus sp 10 ins ++ (sp 2).dropLast, joinPlus sp 40 outs) := by
  unfold reKin
  rw [lit_append]
  apply alt_left
  apply sp1_greedy (hsp.ne 0) (hsp.sp 0) (headNot_cons (by decide))
  simp only [lit_cons_cons, if_true, lit_nil]
  apply star_greedy hP (headNot_cons (by decide))
  simp only [List.nil_append, lit_cons_cons, if_true, lit_nil]
  exact kinTail_render hsp (some P) ins outs hine hin hone hon

/-! ### the statement -/

theorem kin_map_ofList_toList (l : List String) : (l.map String.toList).map String.ofList = l := by
  induction l with
  | nil => rfl
  | cons a r ih => simp only [List.map_cons, String.ofList_toList, ih]

theorem renderStmtL_kinetic (sp : Nat → Str) (lo hi : Option String) (ins outs : List String) :
    renderStmtL sp (.kinetic lo hi ins outs) =
      sKinetic ++ (kinParL sp lo hi ++ kinIOL sp (ins.map String.toList) (outs.map String.toList)) := rfl

theorem wfStmt_kinetic {lo hi : Option String} {ins outs : List String} (h : wfStmt (.kinetic lo hi ins outs) = true) :
    optNumOk isKNum lo = true ∧ optNumOk isKNum hi = true ∧
      ins.map String.toList ≠ [] ∧ (∀ n ∈ ins.map String.toList, nameOkL n = true) ∧
      outs.map String.toList ≠ [] ∧ (∀ n ∈ outs.map String.toList, nameOkL n = true) := by
  have e : wfStmt (.kinetic lo hi ins outs) =
      (optNumOk isKNum lo && optNumOk isKNum hi && !ins.isEmpty && ins.all nameOk && !outs.isEmpty && outs.all nameOk) := rfl
  rw [e] at h
  simp only [Bool.and_eq_true, Bool.not_eq_true', List.isEmpty_eq_false_iff, List.all_eq_true] at h
  obtain ⟨⟨⟨⟨⟨hlo, hhi⟩, hine⟩, hin⟩, hone⟩, hon⟩ := h
  refine ⟨hlo, hhi, by simpa using hine, ?_, by simpa using hone, ?_⟩
  · intro n hn
    obtain ⟨x, hx, rfl⟩ := List.mem_map.mp hn
    exact hin x hx
  · intro n hn
    obtain ⟨x, hx, rfl⟩ := List.mem_map.mp hn
    exact hon x hx

theorem parseKin_render {sp : Nat → Str} (hsp : SpOkL sp) (lo hi : Option String) (ins outs : List String)
    (h : wfStmt (.kinetic lo hi ins outs) = true) :
    parseKin (renderStmtL sp (.kinetic lo hi ins outs)) = .ok (.kinetic lo hi ins outs) := by
  obtain ⟨hlo, hhi, hine, hin, hone, hon⟩ := wfStmt_kinetic h
  obtain ⟨_, _, _, hdl⟩ := hsp.split 2
  rw [renderStmtL_kinetic]
  unfold parseKin
  by_cases hnn : lo = none ∧ hi = none
  · obtain ⟨rfl, rfl⟩ := hnn
    simp only [kinParL, List.nil_append]
    rw [reKin_render_plain hsp _ _ hine hin hone hon]
    simp only
    rw [kin_split_ins hsp _ hin 10 _ hdl, kin_split_outs hsp _ hon 40, kin_map_ofList_toList, kin_map_ofList_toList]
  · rw [kinParL_eq sp lo hi hnn, reKin_render_bracket hsp _ (kinTextL_notBr hsp lo hi hlo hhi) _ _ hine hin hone hon]
    simp only
    rw [kin_split_ins hsp _ hin 10 _ hdl, kin_split_outs hsp _ hon 40, kin_map_ofList_toList, kin_map_ofList_toList]
    have hP := kinTextL_ne_nil sp lo hi hlo hnn
    rw [if_neg (by simpa using hP), parseKinParams_render hsp lo hi hlo hhi hnn]

theorem kw_notSp_kinetic : ∀ c ∈ sKinetic, isSp c = false := by decide

theorem parseLineL_kinetic {sp : Nat → Str} (hsp : SpOkL sp) (lo hi : Option String) (ins outs : List String)
    (h : wfStmt (.kinetic lo hi ins outs) = true) :
    parseLineL (renderStmtL sp (.kinetic lo hi ins outs)) = .ok (.kinetic lo hi ins outs) := by
  have hfw : firstWord (renderStmtL sp (.kinetic lo hi ins outs)) = some sKinetic := by
    rw [renderStmtL_kinetic]
    apply firstWord_kw (by decide) kw_notSp_kinetic
    by_cases hnn : lo = none ∧ hi = none
    · obtain ⟨rfl, rfl⟩ := hnn
      simp only [kinParL, List.nil_append, kinIOL]
      exact hsp.headNot_nsp 1 _
    · rw [kinParL_eq sp lo hi hnn]
      exact hsp.headNot_nsp 0 _
  have hpk := parseKin_render hsp lo hi ins outs h
  unfold parseLineL
  rw [hfw]
  simp only
  rw [if_neg (by decide), if_neg (by decide), if_neg (by decide), if_neg (by decide), if_neg (by decide), if_pos trivial]
  exact hpk

end Pepper.ParseComp
