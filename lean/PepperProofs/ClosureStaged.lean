import PepperProofs.Closure
/-!
# `propagate_constraints`: re-using the result as the next basis

`design/constraint_load.py : Constraints.propagate` stores the *result* of `propagate_constraints`
back as the link collections (`self.eq, self.wc = propagate_constraints(self.eq, self.wc)`), after
which the store may be extended by fresh items (`init`), links among the fresh items, and propagated
again.  This file proves that this is sound: reading a result back as adjacency lists
(`Res.eqAdj`/`Res.wcAdj`) satisfies the documented precondition again, also after appending a
disjoint fresh basis, and the second propagation returns exactly the parity classes of the
*original* combined basis.

The keys of a result are a permutation of the keys of the input (classes are stored member by
member), so nothing here depends on the key order; duplicate-freeness of the result's keys is
proved from the code (`propagate_nodup`).
-/
namespace Pepper.Closure

/-- the result read back as the `eq` link lists: every item ↦ all its equals -/
def Res.eqAdj (r : Res) : Adj := r.map (fun e => (e.1, e.2.1))
/-- the result read back as the `wc` link lists: every item ↦ all its complements -/
def Res.wcAdj (r : Res) : Adj := r.map (fun e => (e.1, e.2.2))
/-- keys of the result dictionary, in insertion order -/
def Res.keys (r : Res) : List Item := r.map (·.1)

/-! ### association lists -/

theorem lookup_isSome_iff {β} (g : List (Item × β)) (x : Item) :
    (g.lookup x).isSome = true ↔ x ∈ g.map (·.1) := by
  induction g with
  | nil => simp
  | cons a g ih =>
    obtain ⟨k, w⟩ := a
    simp only [List.lookup_cons, List.map_cons, List.mem_cons]
    by_cases hk : x = k
    · subst hk; simp
    · have : (x == k) = false := by simpa using hk
      simp [this, hk, ih]

theorem lookup_map_val {β γ} (f : β → γ) (g : List (Item × β)) (x : Item) :
    (g.map (fun e => (e.1, f e.2))).lookup x = (g.lookup x).map f := by
  induction g with
  | nil => simp
  | cons a g ih =>
    obtain ⟨k, w⟩ := a
    simp only [List.map_cons, List.lookup_cons]
    split
    · simp
    · exact ih

theorem Res.has_iff_mem_keys (r : Res) (x : Item) : r.has x = true ↔ x ∈ r.keys :=
  lookup_isSome_iff r x

theorem mem_keys_iff (g : Adj) (x : Item) : x ∈ keys g ↔ (g.lookup x).isSome = true :=
  (lookup_isSome_iff g x).symm

theorem keys_append (a b : Adj) : keys (a ++ b) = keys a ++ keys b := by
  simp [keys]

theorem keys_eqAdj (r : Res) : keys r.eqAdj = r.keys := by
  simp [keys, Res.eqAdj, Res.keys]

theorem keys_wcAdj (r : Res) : keys r.wcAdj = r.keys := by
  simp [keys, Res.wcAdj, Res.keys]

theorem nb_eqAdj (r : Res) (x : Item) :
    nb r.eqAdj x = match r.get x with | some v => v.1 | none => [] := by
  unfold nb Res.eqAdj Res.get
  rw [lookup_map_val (fun v : List Item × List Item => v.1)]
  cases r.lookup x <;> rfl

theorem nb_wcAdj (r : Res) (x : Item) :
    nb r.wcAdj x = match r.get x with | some v => v.2 | none => [] := by
  unfold nb Res.wcAdj Res.get
  rw [lookup_map_val (fun v : List Item × List Item => v.2)]
  cases r.lookup x <;> rfl

theorem nb_append (a b : Adj) (y : Item) :
    nb (a ++ b) y = if y ∈ keys a then nb a y else nb b y := by
  unfold nb
  rw [List.lookup_append]
  cases h : a.lookup y with
  | none =>
    have : y ∉ keys a := by rw [mem_keys_iff, h]; simp
    simp [this]
  | some l =>
    have : y ∈ keys a := by rw [mem_keys_iff, h]; simp
    simp [this]

theorem key_of_mem_nb {g : Adj} {y z : Item} (h : z ∈ nb g y) : y ∈ keys g := by
  obtain ⟨l, hl, _, _⟩ := mem_nb h
  exact List.mem_map.2 ⟨(y, l), hl, rfl⟩

/-- neighbours in the concatenation of two bases with disjoint keys -/
theorem mem_nb_append {a b : Adj} (hd : ∀ x, x ∈ keys a → x ∉ keys b) (y z : Item) :
    z ∈ nb (a ++ b) y ↔ z ∈ nb a y ∨ z ∈ nb b y := by
  rw [nb_append]
  split
  · rename_i hy
    exact ⟨Or.inl, fun h => h.elim id (fun h => absurd (key_of_mem_nb h) (hd y hy))⟩
  · rename_i hy
    exact ⟨Or.inr, fun h => h.elim (fun h => absurd (key_of_mem_nb h) hy) id⟩

/-! ### the keys of a result are duplicate-free -/

theorem Res.set_nodup {r : Res} (h : r.keys.Nodup) (y : Item) (v : List Item × List Item) :
    (r.set y v).keys.Nodup := by
  unfold Res.set
  split
  · have : Res.keys (r.map (fun (k, w) => if k == y then (k, v) else (k, w))) = r.keys := by
      unfold Res.keys
      rw [List.map_map]
      apply List.map_congr_left
      rintro ⟨k, w⟩ _
      simp only [Function.comp]
      split <;> rfl
    rw [this]; exact h
  · rename_i hn
    have hy : y ∉ r.keys := fun c => hn ((r.has_iff_mem_keys y).2 c)
    unfold Res.keys at *
    rw [List.map_append, List.nodup_append]
    refine ⟨h, by simp, ?_⟩
    intro a ha b hb
    simp at hb
    subst hb
    intro c; subst c; exact hy ha

theorem storeClass_nodup {r : Res} (h : r.keys.Nodup) (s : St) : (storeClass r s).keys.Nodup := by
  unfold storeClass
  apply foldl_inv (fun r : Res => r.keys.Nodup)
  · apply foldl_inv (fun r : Res => r.keys.Nodup)
    · exact h
    · intro b a _ hb; exact Res.set_nodup hb _ _
  · intro b a _ hb; exact Res.set_nodup hb _ _

theorem resolve_nodup {eq wc : Adj} {r r' : Res} {x : Item} (h : r.keys.Nodup)
    (e : resolve eq wc r x = .ok r') : r'.keys.Nodup := by
  unfold resolve at e
  split at e
  · cases e; exact h
  · dsimp only at e
    split at e
    · cases e
    · cases e; exact storeClass_nodup h _

theorem resolveAll_nodup {eq wc : Adj} (xs : List Item) {r r' : Res} (h : r.keys.Nodup)
    (e : resolveAll eq wc xs r = .ok r') : r'.keys.Nodup := by
  induction xs generalizing r with
  | nil => cases e; exact h
  | cons x xs ih =>
    unfold resolveAll at e
    split at e
    · rename_i r1 e1
      exact ih (resolve_nodup h e1) e
    · cases e

/-- the result dictionary never has a key twice (no precondition needed) -/
theorem propagate_nodup {eq wc : Adj} {r : Res} (e : propagate eq wc = .ok r) : r.keys.Nodup := by
  unfold propagate at e
  split at e
  · cases e
  · exact resolveAll_nodup _ (by simp [Res.keys]) e

/-- everything the outer-loop invariant says about *the* result of a successful call -/
theorem propagate_res {eq wc : Adj} {r : Res} (h : Pre eq wc) (e : propagate eq wc = .ok r) :
    OInv eq wc r ∧ (∀ x, x ∈ r.keys ↔ x ∈ keys eq) ∧ r.keys.Nodup := by
  obtain ⟨r0, e0, i, hx⟩ := propagate_ok h
  rw [e] at e0
  cases e0
  refine ⟨i, fun x => ⟨fun hk => i.isKey x ((r.has_iff_mem_keys x).2 hk),
    fun hk => (r.has_iff_mem_keys x).1 (hx x hk)⟩, propagate_nodup e⟩

/-! ### more algebra of parity reachability -/

/-- if every edge of one graph is a path of the right parity in another, so is every path -/
theorem Reach.lift {eq wc eq' wc' : Adj}
    (he : ∀ y z, z ∈ nb eq y → Reach eq' wc' y false z)
    (hw : ∀ y z, z ∈ nb wc y → Reach eq' wc' y true z) {x y : Item} {p : Bool}
    (h : Reach eq wc x p y) : Reach eq' wc' x p y := by
  induction h with
  | refl => exact Reach.refl
  | eqStep _ hz ih => simpa using ih.trans (he _ _ hz)
  | wcStep _ hz ih => simpa using ih.trans (hw _ _ hz)

theorem Reach.mono {eq wc eq' wc' : Adj}
    (he : ∀ y z, z ∈ nb eq y → z ∈ nb eq' y)
    (hw : ∀ y z, z ∈ nb wc y → z ∈ nb wc' y) {x y : Item} {p : Bool}
    (h : Reach eq wc x p y) : Reach eq' wc' x p y := by
  induction h with
  | refl => exact Reach.refl
  | eqStep _ hz ih => exact Reach.eqStep ih (he _ _ hz)
  | wcStep _ hz ih => exact Reach.wcStep ih (hw _ _ hz)

/-- a path that starts inside a region closed under the edges only uses the edges of that region -/
theorem Reach.restrict {eq wc eq' wc' : Adj} (P : Item → Prop)
    (he : ∀ y z, P y → z ∈ nb eq y → z ∈ nb eq' y ∧ P z)
    (hw : ∀ y z, P y → z ∈ nb wc y → z ∈ nb wc' y ∧ P z) {x y : Item} {p : Bool}
    (hx : P x) (h : Reach eq wc x p y) : Reach eq' wc' x p y ∧ P y := by
  induction h with
  | refl => exact ⟨Reach.refl, hx⟩
  | eqStep _ hz ih => exact ⟨Reach.eqStep ih.1 (he _ _ ih.2 hz).1, (he _ _ ih.2 hz).2⟩
  | wcStep _ hz ih => exact ⟨Reach.wcStep ih.1 (hw _ _ ih.2 hz).1, (hw _ _ ih.2 hz).2⟩

/-! ### the stored result extended by a fresh basis -/

section staged
variable {eq wc eq2 wc2 : Adj} {r : Res}

/-- edges of the re-used store: a closure edge between old items or a basis edge between fresh ones -/
theorem mem_nb_eqAdj_append (h : Pre eq wc) (e : propagate eq wc = .ok r)
    (hd : ∀ x, x ∈ keys eq → x ∉ keys eq2) (y z : Item) :
    z ∈ nb (r.eqAdj ++ eq2) y ↔ (y ∈ keys eq ∧ Reach eq wc y false z) ∨ z ∈ nb eq2 y := by
  obtain ⟨i, hk, _⟩ := propagate_res h e
  rw [nb_append, keys_eqAdj]
  by_cases hy : y ∈ keys eq
  · have hyr := (hk y).2 hy
    rw [if_pos hyr, nb_eqAdj]
    obtain ⟨⟨E, W⟩, hg⟩ := Option.isSome_iff_exists.1 ((r.has_iff_mem_keys y).2 hyr)
    rw [show r.get y = some (E, W) from hg]
    have hE := (i.exact y E W hg).1 z
    exact ⟨fun hz => Or.inl ⟨hy, hE.1 hz⟩,
      fun hz => hz.elim (fun hz => hE.2 hz.2) (fun hz => absurd (key_of_mem_nb hz) (hd y hy))⟩
  · have hyr : y ∉ r.keys := fun c => hy ((hk y).1 c)
    rw [if_neg hyr]
    exact ⟨Or.inr, fun hz => hz.elim (fun hz => absurd hz.1 hy) id⟩

theorem mem_nb_wcAdj_append (h : Pre eq wc) (e : propagate eq wc = .ok r)
    (hd : ∀ x, x ∈ keys eq → x ∉ keys wc2) (y z : Item) :
    z ∈ nb (r.wcAdj ++ wc2) y ↔ (y ∈ keys eq ∧ Reach eq wc y true z) ∨ z ∈ nb wc2 y := by
  obtain ⟨i, hk, _⟩ := propagate_res h e
  rw [nb_append, keys_wcAdj]
  by_cases hy : y ∈ keys eq
  · have hyr := (hk y).2 hy
    rw [if_pos hyr, nb_wcAdj]
    obtain ⟨⟨E, W⟩, hg⟩ := Option.isSome_iff_exists.1 ((r.has_iff_mem_keys y).2 hyr)
    rw [show r.get y = some (E, W) from hg]
    have hW := (i.exact y E W hg).2 z
    exact ⟨fun hz => Or.inl ⟨hy, hW.1 hz⟩,
      fun hz => hz.elim (fun hz => hW.2 hz.2) (fun hz => absurd (key_of_mem_nb hz) (hd y hy))⟩
  · have hyr : y ∉ r.keys := fun c => hy ((hk y).1 c)
    rw [if_neg hyr]
    exact ⟨Or.inr, fun hz => hz.elim (fun hz => absurd hz.1 hy) id⟩

/-- the stored result, extended by a fresh basis, satisfies the documented precondition again -/
theorem pre_staged (h : Pre eq wc) (e : propagate eq wc = .ok r) (h2 : Pre eq2 wc2)
    (hd : ∀ x, x ∈ keys eq → x ∉ keys eq2) : Pre (r.eqAdj ++ eq2) (r.wcAdj ++ wc2) := by
  obtain ⟨i, hk, hn⟩ := propagate_res h e
  have hd' : ∀ x, x ∈ keys eq → x ∉ keys wc2 := by rw [← h2.sameKeys]; exact hd
  have mE := mem_nb_eqAdj_append h e hd
  have mW := mem_nb_wcAdj_append h e hd'
  have kc := h.keyClosed
  have kA : keys (r.eqAdj ++ eq2) = r.keys ++ keys eq2 := by rw [keys_append, keys_eqAdj]
  refine ⟨?_, ?_, ?_, ?_, ?_, ?_⟩
  · rw [kA, keys_append, keys_wcAdj, h2.sameKeys]
  · rw [kA, List.nodup_append]
    refine ⟨hn, h2.nodupKeys, ?_⟩
    intro a ha b hb c
    subst c
    exact hd a ((hk a).1 ha) hb
  · intro y z hz
    rw [kA, List.mem_append]
    rcases (mE y z).1 hz with ⟨hy, hr⟩ | hz
    · exact Or.inl ((hk z).2 (hr.mem_keys kc hy))
    · exact Or.inr (h2.eqClosed y z hz)
  · intro y z hz
    rw [kA, List.mem_append]
    rcases (mW y z).1 hz with ⟨hy, hr⟩ | hz
    · exact Or.inl ((hk z).2 (hr.mem_keys kc hy))
    · exact Or.inr (h2.wcClosed y z hz)
  · intro y z hz
    rcases (mE y z).1 hz with ⟨hy, hr⟩ | hz
    · exact (mE z y).2 (Or.inl ⟨hr.mem_keys kc hy, hr.symm h.eqSymm h.wcSymm⟩)
    · exact (mE z y).2 (Or.inr (h2.eqSymm y z hz))
  · intro y z hz
    rcases (mW y z).1 hz with ⟨hy, hr⟩ | hz
    · exact (mW z y).2 (Or.inl ⟨hr.mem_keys kc hy, hr.symm h.eqSymm h.wcSymm⟩)
    · exact (mW z y).2 (Or.inr (h2.wcSymm y z hz))

/-- reachability in the re-used store is reachability in the combined original basis -/
theorem reach_staged (h : Pre eq wc) (e : propagate eq wc = .ok r) (h2 : Pre eq2 wc2)
    (hd : ∀ x, x ∈ keys eq → x ∉ keys eq2) (x y : Item) (p : Bool) :
    Reach (r.eqAdj ++ eq2) (r.wcAdj ++ wc2) x p y ↔ Reach (eq ++ eq2) (wc ++ wc2) x p y := by
  have hd' : ∀ x, x ∈ keys eq → x ∉ keys wc2 := by rw [← h2.sameKeys]; exact hd
  have hdw : ∀ x, x ∈ keys wc → x ∉ keys wc2 := by rw [← h.sameKeys]; exact hd'
  have mE := mem_nb_eqAdj_append h e hd
  have mW := mem_nb_wcAdj_append h e hd'
  have gE := mem_nb_append hd
  have gW := mem_nb_append hdw
  have up : ∀ {a b : Item} {q : Bool}, Reach eq wc a q b → Reach (eq ++ eq2) (wc ++ wc2) a q b :=
    fun hr => hr.mono (fun y z hz => (gE y z).2 (Or.inl hz)) (fun y z hz => (gW y z).2 (Or.inl hz))
  constructor
  · apply Reach.lift
    · intro y z hz
      rcases (mE y z).1 hz with ⟨_, hr⟩ | hz
      · exact up hr
      · exact Reach.eqStep Reach.refl ((gE y z).2 (Or.inr hz))
    · intro y z hz
      rcases (mW y z).1 hz with ⟨_, hr⟩ | hz
      · exact up hr
      · simpa using Reach.wcStep Reach.refl ((gW y z).2 (Or.inr hz))
  · apply Reach.mono
    · intro y z hz
      rcases (gE y z).1 hz with hz | hz
      · exact (mE y z).2 (Or.inl ⟨key_of_mem_nb hz, Reach.eqStep Reach.refl hz⟩)
      · exact (mE y z).2 (Or.inr hz)
    · intro y z hz
      rcases (gW y z).1 hz with hz | hz
      · refine (mW y z).2 (Or.inl ⟨?_, by simpa using Reach.wcStep Reach.refl hz⟩)
        rw [h.sameKeys]; exact key_of_mem_nb hz
      · exact (mW y z).2 (Or.inr hz)

/-- in the combined basis an old item only reaches old items, along old edges -/
theorem reach_append_left (h : Pre eq wc) (h2 : Pre eq2 wc2)
    (hd : ∀ x, x ∈ keys eq → x ∉ keys eq2) {x : Item} (hx : x ∈ keys eq) (y : Item) (p : Bool) :
    Reach (eq ++ eq2) (wc ++ wc2) x p y ↔ Reach eq wc x p y := by
  have hdw : ∀ x, x ∈ keys wc → x ∉ keys wc2 := by
    rw [← h.sameKeys, ← h2.sameKeys]; exact hd
  have gE := mem_nb_append hd
  have gW := mem_nb_append hdw
  constructor
  · intro hr
    refine (hr.restrict (· ∈ keys eq) ?_ ?_ hx).1
    · intro y z hy hz
      rcases (gE y z).1 hz with hz | hz
      · exact ⟨hz, h.eqClosed y z hz⟩
      · exact absurd (key_of_mem_nb hz) (hd y hy)
    · intro y z hy hz
      rcases (gW y z).1 hz with hz | hz
      · exact ⟨hz, h.wcClosed y z hz⟩
      · exact absurd (key_of_mem_nb hz) (hdw y (h.sameKeys ▸ hy))
  · exact fun hr =>
      hr.mono (fun y z hz => (gE y z).2 (Or.inl hz)) (fun y z hz => (gW y z).2 (Or.inl hz))

/-- in the combined basis a fresh item only reaches fresh items, along fresh edges -/
theorem reach_append_right (h : Pre eq wc) (h2 : Pre eq2 wc2)
    (hd : ∀ x, x ∈ keys eq → x ∉ keys eq2) {x : Item} (hx : x ∈ keys eq2) (y : Item) (p : Bool) :
    Reach (eq ++ eq2) (wc ++ wc2) x p y ↔ Reach eq2 wc2 x p y := by
  have hdw : ∀ x, x ∈ keys wc → x ∉ keys wc2 := by
    rw [← h.sameKeys, ← h2.sameKeys]; exact hd
  have gE := mem_nb_append hd
  have gW := mem_nb_append hdw
  constructor
  · intro hr
    refine (hr.restrict (· ∈ keys eq2) ?_ ?_ hx).1
    · intro y z hy hz
      rcases (gE y z).1 hz with hz | hz
      · exact absurd hy (hd y (key_of_mem_nb hz))
      · exact ⟨hz, h2.eqClosed y z hz⟩
    · intro y z hy hz
      rcases (gW y z).1 hz with hz | hz
      · exact absurd (h2.sameKeys ▸ hy) (hdw y (key_of_mem_nb hz))
      · exact ⟨hz, h2.wcClosed y z hz⟩
  · exact fun hr =>
      hr.mono (fun y z hz => (gE y z).2 (Or.inr hz)) (fun y z hz => (gW y z).2 (Or.inr hz))

/-- Staged use of the store: propagate, keep the result as the new basis, add fresh items linked
    among themselves, propagate again.  The second call succeeds, has exactly the old and the fresh
    items as keys, and every item gets exactly its parity classes in the combined *original* basis;
    for an old item these are its classes in the old basis, for a fresh item its classes in the
    fresh basis. -/
theorem propagate_staged (h : Pre eq wc) (e : propagate eq wc = .ok r) (h2 : Pre eq2 wc2)
    (hd : ∀ x, x ∈ keys eq → x ∉ keys eq2) :
    Pre (r.eqAdj ++ eq2) (r.wcAdj ++ wc2) ∧
    ∃ r', propagate (r.eqAdj ++ eq2) (r.wcAdj ++ wc2) = .ok r' ∧
      (∀ x, r'.has x = true → x ∈ keys eq ++ keys eq2) ∧
      (∀ x ∈ keys eq ++ keys eq2, ∃ E W, r'.get x = some (E, W) ∧
        (∀ y, y ∈ E ↔ Reach (eq ++ eq2) (wc ++ wc2) x false y) ∧
        (∀ y, y ∈ W ↔ Reach (eq ++ eq2) (wc ++ wc2) x true y)) ∧
      (∀ x ∈ keys eq, ∃ E W, r'.get x = some (E, W) ∧
        (∀ y, y ∈ E ↔ Reach eq wc x false y) ∧ (∀ y, y ∈ W ↔ Reach eq wc x true y)) ∧
      (∀ x ∈ keys eq2, ∃ E W, r'.get x = some (E, W) ∧
        (∀ y, y ∈ E ↔ Reach eq2 wc2 x false y) ∧ (∀ y, y ∈ W ↔ Reach eq2 wc2 x true y)) := by
  have hp := pre_staged h e h2 hd
  obtain ⟨_, hk, _⟩ := propagate_res h e
  obtain ⟨r', e', i', hx'⟩ := propagate_ok hp
  have kA : ∀ x, x ∈ keys (r.eqAdj ++ eq2) ↔ x ∈ keys eq ++ keys eq2 := by
    intro x
    rw [keys_append, keys_eqAdj, List.mem_append, List.mem_append, hk x]
  have main : ∀ x ∈ keys eq ++ keys eq2, ∃ E W, r'.get x = some (E, W) ∧
      (∀ y, y ∈ E ↔ Reach (eq ++ eq2) (wc ++ wc2) x false y) ∧
      (∀ y, y ∈ W ↔ Reach (eq ++ eq2) (wc ++ wc2) x true y) := by
    intro x hx
    have hs := hx' x ((kA x).2 hx)
    rw [Res.has_eq] at hs
    obtain ⟨⟨E, W⟩, hg⟩ := Option.isSome_iff_exists.1 hs
    obtain ⟨hE, hW⟩ := i'.exact x E W hg
    exact ⟨E, W, hg, fun y => (hE y).trans (reach_staged h e h2 hd x y false),
      fun y => (hW y).trans (reach_staged h e h2 hd x y true)⟩
  refine ⟨hp, r', e', fun x hx => (kA x).1 (i'.isKey x hx), main, ?_, ?_⟩
  · intro x hx
    obtain ⟨E, W, hg, hE, hW⟩ := main x (List.mem_append.2 (Or.inl hx))
    exact ⟨E, W, hg, fun y => (hE y).trans (reach_append_left h h2 hd hx y false),
      fun y => (hW y).trans (reach_append_left h h2 hd hx y true)⟩
  · intro x hx
    obtain ⟨E, W, hg, hE, hW⟩ := main x (List.mem_append.2 (Or.inr hx))
    exact ⟨E, W, hg, fun y => (hE y).trans (reach_append_right h h2 hd hx y false),
      fun y => (hW y).trans (reach_append_right h h2 hd hx y true)⟩

theorem pre_nil : Pre [] [] :=
  ⟨rfl, List.nodup_nil, fun _ _ hz => by simp [nb] at hz, fun _ _ hz => by simp [nb] at hz,
    fun _ _ hz => by simp [nb] at hz, fun _ _ hz => by simp [nb] at hz⟩

/-- `propagate()` twice in a row: the stored result satisfies the documented precondition, the second
    call succeeds, has no other keys, and returns for every item the same two classes (as sets). -/
theorem propagate_idempotent (h : Pre eq wc) (e : propagate eq wc = .ok r) :
    Pre r.eqAdj r.wcAdj ∧
    ∃ r', propagate r.eqAdj r.wcAdj = .ok r' ∧
      (∀ x, r'.has x = true → x ∈ keys eq) ∧
      ∀ x ∈ keys eq, ∃ E' W', r'.get x = some (E', W') ∧
        (∀ y, y ∈ E' ↔ Reach eq wc x false y) ∧ (∀ y, y ∈ W' ↔ Reach eq wc x true y) := by
  obtain ⟨hp, r', e', hk', _, hold, _⟩ :=
    propagate_staged (eq2 := []) (wc2 := []) h e pre_nil (fun _ _ c => by simp [keys] at c)
  simp only [List.append_nil] at hp e'
  refine ⟨hp, r', e', fun x hx => ?_, hold⟩
  simpa [keys] using hk' x hx

end staged

/-! ### non-vacuity

First stage: an odd cycle (`0 ~ 1 ~ 2 ~ 0`), an isolated item (`3`) and a mixed chain
(`4 = 5 ~ 6 = 7`).  Second stage: two fresh items linked to each other (`8 ~ 9`) and a fresh isolated
item (`10`). -/

abbrev stagedEq : Adj := [(0, []), (1, []), (2, []), (3, []), (4, [5]), (5, [4]), (6, [7]), (7, [6])]
abbrev stagedWc : Adj :=
  [(0, [1, 2]), (1, [0, 2]), (2, [1, 0]), (3, []), (4, []), (5, [6]), (6, [5]), (7, [])]
abbrev stagedEq2 : Adj := [(8, []), (9, []), (10, [])]
abbrev stagedWc2 : Adj := [(8, [9]), (9, [8]), (10, [])]
/-- the result of the first stage (its keys are a permutation of the input's) -/
abbrev stagedRes : Res :=
  [(2, [0, 2, 1], [2, 1, 0]), (1, [0, 2, 1], [2, 1, 0]), (0, [0, 2, 1], [2, 1, 0]),
   (3, [3], []),
   (4, [4, 5], [7, 6]), (5, [4, 5], [7, 6]), (7, [7, 6], [4, 5]), (6, [7, 6], [4, 5])]

/-- the hypotheses of `propagate_staged` are satisfiable -/
example : Pre stagedEq stagedWc ∧ propagate stagedEq stagedWc = .ok stagedRes ∧
    Pre stagedEq2 stagedWc2 ∧ ∀ x, x ∈ keys stagedEq → x ∉ keys stagedEq2 :=
  ⟨Pre.of_preB (by decide), by rfl, Pre.of_preB (by decide), by decide⟩

/-- propagating the stored result again returns the same classes (as sets; the order differs) -/
example : propagate stagedRes.eqAdj stagedRes.wcAdj = .ok
    [(1, [0, 1, 2], [1, 2, 0]), (2, [0, 1, 2], [1, 2, 0]), (0, [0, 1, 2], [1, 2, 0]),
     (3, [3], []),
     (5, [5, 4], [6, 7]), (4, [5, 4], [6, 7]), (6, [6, 7], [5, 4]), (7, [6, 7], [5, 4])] := by rfl

/-- and after adding the fresh items the old classes are unchanged and the fresh ones exact -/
example : propagate (stagedRes.eqAdj ++ stagedEq2) (stagedRes.wcAdj ++ stagedWc2) = .ok
    [(1, [0, 1, 2], [1, 2, 0]), (2, [0, 1, 2], [1, 2, 0]), (0, [0, 1, 2], [1, 2, 0]),
     (3, [3], []),
     (5, [5, 4], [6, 7]), (4, [5, 4], [6, 7]), (6, [6, 7], [5, 4]), (7, [6, 7], [5, 4]),
     (8, [8], [9]), (9, [9], [8]), (10, [10], [])] := by rfl

end Pepper.Closure
