import PepperModel.Codes
/-!
# Proofs about lawful code tables (`CodeTable.lawful`), for an arbitrary table
-/
namespace Pepper

/-! ### association lists -/

theorem assoc_mem {α β} [BEq α] [LawfulBEq α] {l : List (α × β)} {k : α} {v : β}
    (h : assoc l k = some v) : (k, v) ∈ l := by
  induction l with
  | nil => simp [assoc] at h
  | cons p r ih =>
    obtain ⟨a, b⟩ := p
    simp only [assoc] at h
    split at h
    · rename_i hab
      have hk := eq_of_beq hab
      simp only [Option.some.injEq] at h
      subst hk; subst h; exact List.mem_cons_self
    · exact List.mem_cons_of_mem _ (ih h)

/-- lookup finds a member pair when the list is functional on keys -/
theorem assoc_of_mem {α β} [BEq α] [LawfulBEq α] {l : List (α × β)} {k : α} {v : β}
    (hf : ∀ p ∈ l, ∀ q ∈ l, p.1 = q.1 → p = q) (h : (k, v) ∈ l) : assoc l k = some v := by
  induction l with
  | nil => simp at h
  | cons p r ih =>
    obtain ⟨a, b⟩ := p
    simp only [assoc]
    split
    · rename_i hab
      have hk := eq_of_beq hab
      have := hf (a, b) List.mem_cons_self (k, v) h hk
      simp only [Prod.mk.injEq] at this
      rw [this.2]
    · rename_i hab
      rcases List.mem_cons.1 h with h | h
      · simp only [Prod.mk.injEq] at h
        exact absurd (by rw [h.1]; exact BEq.refl _) hab
      · exact ih (fun p hp q hq => hf p (List.mem_cons_of_mem _ hp) q (List.mem_cons_of_mem _ hq)) h

theorem nodup_map_inj {α β} {f : α → β} {l : List α} (hn : (l.map f).Nodup)
    {a b : α} (ha : a ∈ l) (hb : b ∈ l) (h : f a = f b) : a = b := by
  induction l with
  | nil => simp at ha
  | cons x r ih =>
    simp only [List.map_cons, List.nodup_cons, List.mem_map, not_exists, not_and] at hn
    rcases List.mem_cons.1 ha with ha' | ha' <;> rcases List.mem_cons.1 hb with hb' | hb'
    · rw [ha', hb']
    · subst ha'; exact absurd h.symm (hn.1 b hb')
    · subst hb'; exact absurd h (hn.1 a ha')
    · exact ih hn.2 ha' hb'

/-! ### finite facts about the 16 base sets -/

theorem baseBit_lt (c : Char) : baseBit c < 2 ^ 4 := by
  unfold baseBit; split <;> decide

theorem maskOf_lt (l : List Char) : maskOf l < 16 := by
  induction l with
  | nil => simp [maskOf]
  | cons c r ih => exact Nat.or_lt_two_pow (n := 4) (baseBit_lt c) ih

theorem inter_canon_fin : ∀ m n : Fin 16,
    CodeTable.sortDedup ((canonStr m).filter ((canonStr n).contains ·)) = canonStr (m.val &&& n.val) := by
  decide

theorem inter_canon {m n : Nat} (hm : m < 16) (hn : n < 16) :
    CodeTable.sortDedup ((canonStr m).filter ((canonStr n).contains ·)) = canonStr (m &&& n) :=
  inter_canon_fin ⟨m, hm⟩ ⟨n, hn⟩

theorem complMask_complMask {m : Nat} (hm : m < 16) : complMask (complMask m) = m :=
  (by decide : ∀ m : Fin 16, complMask (complMask m) = m.val) ⟨m, hm⟩

theorem canonStr_eq_nil {m : Nat} (hm : m < 16) (h : canonStr m = []) : m = 0 :=
  (by decide : ∀ m : Fin 16, canonStr m = [] → m.val = 0) ⟨m, hm⟩ h

namespace CodeTable

/-! ### unpacking `lawful` -/

theorem isCode_iff {t : CodeTable} {c : Char} : t.isCode c = true ↔ ∃ g, t.groupOf c = some g := by
  simp [isCode, Option.isSome_iff_exists]

theorem groupOf_mem {t : CodeTable} {c : Char} {g : List Char} (h : t.groupOf c = some g) :
    (c, g) ∈ t.group := assoc_mem h

theorem maskC_of_groupOf {t : CodeTable} {c : Char} {g : List Char} (h : t.groupOf c = some g) :
    t.maskC c = maskOf g := by simp [maskC, h]

structure Laws (t : CodeTable) : Prop where
  codesNodup : t.codes.Nodup
  complNodup : (t.compl.map (·.1)).Nodup
  complTotal : ∀ c ∈ t.codes, (t.complOf c).isSome = true
  complCodes : ∀ p ∈ t.compl, t.isCode p.1 = true ∧ t.isCode p.2 = true
  canon : ∀ p ∈ t.group, p.2 ≠ [] ∧ canonStr (maskOf p.2) = p.2
  masksNodup : (t.group.map (fun p => maskOf p.2)).Nodup
  rev_eq : t.rev = t.group.map (fun p => (p.2, p.1))
  complSet : ∀ p ∈ t.group, ∃ d, t.complOf p.1 = some d ∧ t.maskC d = complMask (maskOf p.2)
  closed : ∀ p ∈ t.group, ∀ q ∈ t.group, (maskOf p.2 &&& maskOf q.2) ≠ 0 →
    ∃ e ∈ t.group, maskOf e.2 = (maskOf p.2 &&& maskOf q.2)

theorem laws {t : CodeTable} (hl : t.lawful = true) : Laws t := by
  simp only [lawful, Bool.and_eq_true, decide_eq_true_eq, List.all_eq_true, List.any_eq_true,
    Bool.or_eq_true, beq_iff_eq, bne_iff_ne, Prod.forall, Prod.exists] at hl
  obtain ⟨⟨⟨⟨⟨⟨⟨⟨h1, h2⟩, h3⟩, h4⟩, h5⟩, h6⟩, h7⟩, h8⟩, h9⟩ := hl
  refine ⟨h1, h2, h3, fun p hp => h4 p.1 p.2 hp, fun p hp => h5 p.1 p.2 hp, h6, h7, ?_, ?_⟩
  · intro p hp
    have := h8 p.1 p.2 hp
    split at this
    · rename_i d hd
      exact ⟨d, hd, by simpa using this⟩
    · cases this
  · intro p hp q hq hne
    rcases h9 p.1 p.2 hp q.1 q.2 hq with h | ⟨a, b, hab, he⟩
    · exact absurd h hne
    · exact ⟨(a, b), hab, he⟩

/-! ### derived facts -/

theorem group_functional {t : CodeTable} (L : Laws t) :
    ∀ p ∈ t.group, ∀ q ∈ t.group, p.1 = q.1 → p = q :=
  fun _ hp _ hq h => nodup_map_inj (f := Prod.fst) (l := t.group) L.codesNodup hp hq h

theorem groupOf_of_mem {t : CodeTable} (L : Laws t) {c : Char} {g : List Char}
    (h : (c, g) ∈ t.group) : t.groupOf c = some g :=
  assoc_of_mem (group_functional L) h

theorem revOf_of_mem {t : CodeTable} (L : Laws t) {c : Char} {g : List Char}
    (h : (c, g) ∈ t.group) : t.revOf g = some c := by
  unfold revOf
  rw [L.rev_eq]
  apply assoc_of_mem
  · intro p hp q hq hpq
    obtain ⟨p', hp', rfl⟩ := List.mem_map.1 hp
    obtain ⟨q', hq', rfl⟩ := List.mem_map.1 hq
    have hpq : p'.2 = q'.2 := hpq
    have := nodup_map_inj (f := fun p => maskOf p.2) L.masksNodup hp' hq' (by simp only [hpq])
    rw [this]
  · exact List.mem_map.2 ⟨(c, g), h, rfl⟩

theorem maskC_pos {t : CodeTable} (hl : t.lawful = true) {c : Char} (hc : t.isCode c = true) :
    0 < t.maskC c ∧ t.maskC c < 16 := by
  have L := laws hl
  obtain ⟨g, hg⟩ := isCode_iff.1 hc
  rw [maskC_of_groupOf hg]
  refine ⟨?_, maskOf_lt g⟩
  have ⟨hne, hcan⟩ := L.canon _ (groupOf_mem hg)
  apply Nat.pos_of_ne_zero
  intro h0
  exact hne (hcan ▸ (by rw [h0]; rfl))

theorem maskC_inj {t : CodeTable} (hl : t.lawful = true) {c d : Char} (hc : t.isCode c = true)
    (hd : t.isCode d = true) (h : t.maskC c = t.maskC d) : c = d := by
  have L := laws hl
  obtain ⟨g, hg⟩ := isCode_iff.1 hc
  obtain ⟨g', hg'⟩ := isCode_iff.1 hd
  rw [maskC_of_groupOf hg, maskC_of_groupOf hg'] at h
  have := nodup_map_inj (f := fun p => maskOf p.2) L.masksNodup (groupOf_mem hg) (groupOf_mem hg') h
  exact congrArg Prod.fst this

theorem complOf_isCode {t : CodeTable} (hl : t.lawful = true) {c d : Char}
    (h : t.complOf c = some d) : t.isCode c = true ∧ t.isCode d = true :=
  (laws hl).complCodes _ (assoc_mem h)

theorem complOf_mask {t : CodeTable} (hl : t.lawful = true) {c d : Char}
    (h : t.complOf c = some d) : t.maskC d = complMask (t.maskC c) := by
  have L := laws hl
  obtain ⟨g, hg⟩ := isCode_iff.1 (complOf_isCode hl h).1
  obtain ⟨d', hd', hm⟩ := L.complSet _ (groupOf_mem hg)
  rw [maskC_of_groupOf hg]
  have : d' = d := by
    have := hd'.symm.trans h
    simpa using this
  exact this ▸ hm

theorem isCode_compl {t : CodeTable} (hl : t.lawful = true) {c : Char} (hc : t.isCode c = true) :
    ∃ d, t.complOf c = some d ∧ t.isCode d = true := by
  have L := laws hl
  obtain ⟨g, hg⟩ := isCode_iff.1 hc
  have hmem : c ∈ t.codes := List.mem_map.2 ⟨(c, g), groupOf_mem hg, rfl⟩
  obtain ⟨d, hd⟩ := Option.isSome_iff_exists.1 (L.complTotal c hmem)
  exact ⟨d, hd, (complOf_isCode hl hd).2⟩

theorem complOf_involutive {t : CodeTable} (hl : t.lawful = true) {c d : Char}
    (h : t.complOf c = some d) : t.complOf d = some c := by
  have ⟨hc, hd⟩ := complOf_isCode hl h
  obtain ⟨e, he, hec⟩ := isCode_compl hl hd
  have h1 := complOf_mask hl h
  have h2 := complOf_mask hl he
  rw [h1, complMask_complMask (maskC_pos hl hc).2] at h2
  rw [he, maskC_inj hl hec hc h2]

/-! ### reverse complement of strings -/

/-- total version of `complOf` (identity off the table) -/
def complD (t : CodeTable) (c : Char) : Char := (t.complOf c).getD c

theorem complOf_eq_complD {t : CodeTable} (hl : t.lawful = true) {c : Char} (hc : t.isCode c = true) :
    t.complOf c = some (t.complD c) := by
  obtain ⟨d, hd, _⟩ := isCode_compl hl hc
  simp [complD, hd]

theorem complD_isCode {t : CodeTable} (hl : t.lawful = true) {c : Char} (hc : t.isCode c = true) :
    t.isCode (t.complD c) = true :=
  (complOf_isCode hl (complOf_eq_complD hl hc)).2

theorem complD_complD {t : CodeTable} (hl : t.lawful = true) {c : Char} (hc : t.isCode c = true) :
    t.complD (t.complD c) = c := by
  have := complOf_involutive hl (complOf_eq_complD hl hc)
  rw [complOf_eq_complD hl (complD_isCode hl hc)] at this
  simpa using this

theorem mapM_complOf {t : CodeTable} (hl : t.lawful = true) (l : List Char)
    (h : ∀ c ∈ l, t.isCode c = true) : l.mapM t.complOf = some (l.map t.complD) := by
  induction l with
  | nil => rfl
  | cons a r ih =>
    rw [List.mapM_cons, complOf_eq_complD hl (h a List.mem_cons_self),
      ih (fun c hc => h c (List.mem_cons_of_mem _ hc))]
    rfl

theorem wcStr_eq {t : CodeTable} (hl : t.lawful = true) (s : List Char)
    (h : ∀ c ∈ s, t.isCode c = true) : t.wcStr s = some (s.reverse.map t.complD) :=
  mapM_complOf hl s.reverse (fun c hc => h c (List.mem_reverse.1 hc))

theorem wcStr_wcStr {t : CodeTable} (hl : t.lawful = true) (s : List Char)
    (h : ∀ c ∈ s, t.isCode c = true) : (t.wcStr s).bind t.wcStr = some s := by
  rw [wcStr_eq hl s h, Option.bind_some, wcStr_eq hl]
  · rw [← List.map_reverse, List.reverse_reverse, List.map_map]
    congr 1
    conv => rhs; rw [← List.map_id s]
    apply List.map_congr_left
    intro c hc
    exact complD_complD hl (h c hc)
  · intro c hc
    obtain ⟨a, ha, rfl⟩ := List.mem_map.1 hc
    exact complD_isCode hl (h a (List.mem_reverse.1 ha))

/-! ### intersection -/

theorem intersect_ok {t : CodeTable} (hl : t.lawful = true) {c d : Char} (hc : t.isCode c = true)
    (hd : t.isCode d = true) (hne : t.maskC c &&& t.maskC d ≠ 0) :
    ∃ e, t.intersect c d = .ok e ∧ t.maskC e = t.maskC c &&& t.maskC d := by
  have L := laws hl
  obtain ⟨g, hg⟩ := isCode_iff.1 hc
  obtain ⟨h, hh⟩ := isCode_iff.1 hd
  rw [maskC_of_groupOf hg, maskC_of_groupOf hh] at hne ⊢
  obtain ⟨⟨e, ge⟩, hemem, hemask⟩ := L.closed _ (groupOf_mem hg) _ (groupOf_mem hh) hne
  have hi : sortDedup (g.filter (h.contains ·)) = ge := by
    have h1 := inter_canon (maskOf_lt g) (maskOf_lt h)
    rw [(L.canon _ (groupOf_mem hg)).2, (L.canon _ (groupOf_mem hh)).2] at h1
    rw [h1, ← hemask]
    exact (L.canon _ hemem).2
  refine ⟨e, ?_, ?_⟩
  · simp only [intersect, hg, hh, hi, revOf_of_mem L hemem]
    have : ge ≠ [] := (L.canon _ hemem).1
    simp [this]
  · rw [maskC_of_groupOf (groupOf_of_mem L hemem)]; exact hemask

theorem intersect_empty {t : CodeTable} (hl : t.lawful = true) {c d : Char} (hc : t.isCode c = true)
    (hd : t.isCode d = true) (h0 : t.maskC c &&& t.maskC d = 0) :
    t.intersect c d = .error .empty := by
  have L := laws hl
  obtain ⟨g, hg⟩ := isCode_iff.1 hc
  obtain ⟨h, hh⟩ := isCode_iff.1 hd
  rw [maskC_of_groupOf hg, maskC_of_groupOf hh] at h0
  have hi : sortDedup (g.filter (h.contains ·)) = [] := by
    have h1 := inter_canon (maskOf_lt g) (maskOf_lt h)
    rw [(L.canon _ (groupOf_mem hg)).2, (L.canon _ (groupOf_mem hh)).2, h0] at h1
    exact h1
  simp only [intersect, hg, hh, hi]
  rfl

end CodeTable
end Pepper
