import PepperProofs.ConstraintGenTotal
/-!
# The seeding of the structure layout never raises when every non-empty strand occurs in a structure
-/
namespace Pepper.ConstraintGen
open Pepper Pepper.Pil Pepper.Closure Pepper.LinkSpec

/-! ## `strand_start` is defined for every strand listed in a structure -/

theorem layStructStrands_keep (l : List (Nat × StrandObj)) (ss : List (Option Nat)) (p : Nat) (k : Nat)
    (h : (ss.getD k none).isSome = true) : ((layStructStrands l ss p).1.getD k none).isSome = true := by
  induction l generalizing ss p with
  | nil => exact h
  | cons q l ih =>
    obtain ⟨i, o⟩ := q
    simp only [layStructStrands]
    apply ih
    split
    · rw [getD_set']
      split
      · rfl
      · exact h
    · exact h

theorem layStructStrands_defined (l : List (Nat × StrandObj)) (ss : List (Option Nat)) (p : Nat)
    {q : Nat × StrandObj} (hq : q ∈ l) (hlt : q.1 < ss.length) :
    ((layStructStrands l ss p).1.getD q.1 none).isSome = true := by
  induction l generalizing ss p with
  | nil => cases hq
  | cons a l ih =>
    obtain ⟨i, o⟩ := a
    simp only [layStructStrands]
    rcases List.mem_cons.1 hq with rfl | hq
    · apply layStructStrands_keep
      simp only at hlt
      cases h : ss.getD i none with
      | none =>
        simp only [Option.isNone_none, if_true, getD_set']
        simp [hlt]
      | some v =>
        simp only [Option.isNone_some, Bool.false_eq_true, if_false]
        rw [h]; rfl
    · apply ih _ _ hq
      split
      · rw [List.length_set]; exact hlt
      · exact hlt

theorem layStructAux_keep (spec : Spec) (l : List StructObj) (ss : List (Option Nat)) (p : Nat) (k : Nat)
    (h : (ss.getD k none).isSome = true) : ((layStructAux spec l ss p).2.1.getD k none).isSome = true := by
  induction l generalizing ss p with
  | nil => exact h
  | cons so l ih =>
    simp only [layStructAux]
    exact ih _ _ (layStructStrands_keep _ _ _ _ h)

theorem layStructAux_defined (spec : Spec) (l : List StructObj) (ss : List (Option Nat)) (p : Nat)
    {so : StructObj} (hso : so ∈ l) {q : Nat × StrandObj} (hq : q ∈ structStrands spec so) (hlt : q.1 < ss.length) :
    ((layStructAux spec l ss p).2.1.getD q.1 none).isSome = true := by
  induction l generalizing ss p with
  | nil => cases hso
  | cons a l ih =>
    simp only [layStructAux]
    rcases List.mem_cons.1 hso with rfl | hso
    · exact layStructAux_keep spec l _ _ _ (layStructStrands_defined _ _ _ hq hlt)
    · apply ih _ _ hso
      rw [(layStructStrands_spec _ _ _).1]; exact hlt

/-- every strand listed in some structure has a `strand_start` -/
theorem strandStart_defined {spec : Spec} (wf : SpecWF spec) {so : StructObj} (hso : so ∈ spec.structs)
    {q : Nat × StrandObj} (hq : q ∈ structStrands spec so) :
    ∃ p0, (layStruct spec).strandStart.getD q.1 none = some p0 := by
  have hlt : q.1 < (List.replicate spec.strands.length (none : Option Nat)).length := by
    simp; exact mem_enum_lt (structStrands_mem wf hq)
  have := layStructAux_defined spec spec.structs (List.replicate spec.strands.length none) 0 hso hq hlt
  exact Option.isSome_iff_exists.1 this

/-- every non-empty strand occurs in some structure -/
def Placed (spec : Spec) : Prop :=
  ∀ o ∈ spec.strands, o.len ≠ 0 → ∃ so ∈ spec.structs, o.name ∈ so.strands

theorem strands_index_unique {spec : Spec} (wf : SpecWF spec) {k k' : Nat} {o : StrandObj}
    (h : (k, o) ∈ enum spec.strands) (h' : (k', o) ∈ enum spec.strands) : k = k' :=
  nodup_getElem_inj (nodup_of_map _ wf.strandNames) (enum_getElem? h) (enum_getElem? h')

theorem placed_structStrands {spec : Spec} (wf : SpecWF spec) (hp : Placed spec) {k : Nat} {o : StrandObj}
    (hko : (k, o) ∈ enum spec.strands) (hlen : o.len ≠ 0) :
    ∃ so ∈ spec.structs, (k, o) ∈ structStrands spec so := by
  have hmem : o ∈ spec.strands := (mem_enum hko).1
  obtain ⟨so, hso, hn⟩ := hp o hmem hlen
  refine ⟨so, hso, ?_⟩
  have hf := wf.strandFind o hmem
  have hidx : ∃ k', strandIdx spec o.name = some k' := by
    cases hi : strandIdx spec o.name with
    | some k' => exact ⟨k', rfl⟩
    | none =>
      have := List.findIdx?_eq_none_iff.1 hi o hmem
      simp at this
  obtain ⟨k', hk'⟩ := hidx
  have hin : (k', o) ∈ structStrands spec so := by
    unfold structStrands
    rw [List.mem_filterMap]
    exact ⟨o.name, hn, by simp [hk', hf]⟩
  have := strands_index_unique wf (structStrands_mem wf hin) hko
  rw [← this]; exact hin

theorem getIndexStrand_struct_ok {spec : Spec} (wf : SpecWF spec) (hp : Placed spec) {k : Nat} {o : StrandObj}
    (hko : (k, o) ∈ enum spec.strands) {x : Nat} (hx : x < o.len) :
    ∃ a, getIndexStrand (layStruct spec) k o.len x = .ok a := by
  obtain ⟨so, hso, hq⟩ := placed_structStrands wf hp hko (by omega)
  obtain ⟨p0, hp0⟩ := strandStart_defined wf hso hq
  exact ⟨p0 + x, by unfold getIndexStrand; rw [if_pos hx]; simp only at hp0; rw [hp0]⟩

/-! ## `seeds` returns -/

theorem sqOf_total' {spec : Spec} (wf : SpecWF spec) (e : Enc) {it : ItemRef}
    (hres : (spec.findSeq it.name).isSome = true) (x : Nat) :
    ∃ num, numOf spec it = some num ∧ sqOf spec e it x = .ok (e.sq num x) := sqOf_total wf e hres x

theorem equalEdges_total {spec : Spec} (wf : SpecWF spec) (e : Enc) : ∃ ee, equalEdges spec e = .ok ee := by
  unfold equalEdges
  apply flatME_exists
  intro its hits
  obtain ⟨hne, hlen⟩ := wf.equalLen its hits
  cases its with
  | nil => exact absurd rfl hne
  | cons first rest =>
    simp only
    apply flatME_exists
    intro it hit
    have hl := hlen it (List.mem_cons_of_mem _ hit) first List.mem_cons_self
    simp only [hl, bne_self_eq_false, Bool.false_eq_true, if_false]
    apply mapME_exists
    intro x _
    obtain ⟨na, _, ha⟩ := sqOf_total wf e (wf.equal _ hits first List.mem_cons_self) x
    obtain ⟨nb, _, hb⟩ := sqOf_total wf e (wf.equal _ hits it (List.mem_cons_of_mem _ hit)) x
    exact ⟨(e.sq na x, e.sq nb x), by simp [ha, hb]⟩

theorem supEdges_total {spec : Spec} (wf : SpecWF spec) (e : Enc) : ∃ se, supEdges spec e = .ok se := by
  unfold supEdges
  apply flatME_exists
  rintro ⟨k, o⟩ hko
  apply flatME_exists
  rintro ⟨off, it⟩ hoff
  apply mapME_exists
  intro x _
  have hmem := mem_supSeqs (mem_enum hko).1
  obtain ⟨nb, _, hb⟩ := sqOf_total wf e ((wf.sup o hmem.1 hmem.2).resolve it (withOffsets_mem _ _ _ hoff)) x
  exact ⟨(e.sq (2 * spec.baseSeqs.length + 2 * k) (off + x), e.sq nb x), by simp [hb]⟩

/-- the structure layout: `seeds` returns when every non-empty strand is placed -/
theorem seeds_total_struct {spec : Spec} (wf : SpecWF spec) (hp : Placed spec) : ∃ s, seeds .struct spec = .ok s := by
  have hlay : layOf .struct spec = layStruct spec := rfl
  obtain ⟨ce, hce⟩ : ∃ ce, copyEdges .struct spec (layStruct spec) = .ok ce := by
    unfold copyEdges
    simp only
    apply flatME_exists
    rintro ⟨j, so⟩ hjso
    apply flatME_exists
    rintro ⟨off, k, o⟩ hoff
    apply mapME_exists
    intro x hx
    have hxl : x < o.len := List.mem_range.1 hx
    have hso : so ∈ spec.structs := (mem_enum hjso).1
    have hq := withOffsets_mem _ _ _ hoff
    obtain ⟨p0, hp0⟩ := strandStart_defined wf hso hq
    have hbd := withOffsets_bound (fun (q : Nat × StrandObj) => q.2.len) (structStrands spec so) 0 hoff
    simp only [Nat.zero_add] at hbd
    have hlt : off + x < so.len := by rw [wf.structLen so hso]; omega
    refine ⟨(p0 + x, stStart spec j + offT (structStrands spec so) (off + x)), ?_⟩
    simp only
    rw [getIndex_struct wf hso hlt]
    unfold getIndexStrand
    rw [if_pos hxl]
    simp only at hp0
    rw [hp0]
  obtain ⟨be, hbe⟩ : ∃ be, bondEdges .struct spec (layStruct spec) = .ok be := by
    unfold bondEdges
    apply flatME_exists
    rintro ⟨j, so⟩ hjso
    apply mapME_exists
    rintro ⟨x, y⟩ hxy
    have hso : so ∈ spec.structs := (mem_enum hjso).1
    obtain ⟨hx, hy⟩ := wf.bondsLt so hso (x, y) hxy
    simp only at hx hy
    exact ⟨_, by simp only; rw [getIndex_struct wf hso hx, getIndex_struct wf hso hy]⟩
  obtain ⟨ee, hee⟩ := equalEdges_total wf (encOf spec (layStruct spec))
  obtain ⟨se, hse⟩ := supEdges_total wf (encOf spec (layStruct spec))
  obtain ⟨te, hte⟩ : ∃ te, strandEdges spec (layStruct spec) (encOf spec (layStruct spec)) = .ok te := by
    unfold strandEdges
    apply flatME_exists
    rintro ⟨k, o⟩ hko
    apply flatME_exists
    rintro ⟨off, it⟩ hoff
    apply mapME_exists
    intro x hx
    have hmem : o ∈ spec.strands := (mem_enum hko).1
    have okI := wf.strand o hmem
    obtain ⟨_, hlt⟩ := items_index wf okI hoff (List.mem_range.1 hx)
    have hlen : off + x < o.len := by rw [← wf.strandLen o hmem]; exact hlt
    obtain ⟨nb, _, hb⟩ := sqOf_total wf (encOf spec (layStruct spec)) (okI.resolve it (withOffsets_mem _ _ _ hoff)) x
    obtain ⟨a, ha⟩ := getIndexStrand_struct_ok wf hp hko hlen
    exact ⟨(a, (encOf spec (layStruct spec)).sq nb x), by simp only; rw [ha, hb]⟩
  refine ⟨⟨(layStruct spec).total,
    (enum spec.structs).flatMap (fun (p : Nat × StructObj) =>
      (List.range p.2.len).map (fun x => (stStart spec p.1 + offT (structStrands spec p.2) x, 'N'))) ++
      seqInits spec (encOf spec (layStruct spec)),
    ce ++ ee ++ se ++ te, be ++ viewEdges spec (encOf spec (layStruct spec))⟩, ?_⟩
  unfold seeds
  simp only [hlay, layoutInits_struct wf, hce, hbe, hee, hse, hte]

/-! ## the keys of the structure layout are strictly increasing -/

/-- width of a structure on the line: its strands, each with its blank(s) -/
def widthT (l : List (Nat × StrandObj)) : Nat := (l.map (fun q => q.2.len + Generated.structGapStrands)).sum

theorem offT_lt (l : List (Nat × StrandObj)) {x : Nat} (hx : x < (l.map (fun q => q.2.len)).sum) :
    offT l x < widthT l := by
  induction l generalizing x with
  | nil => simp at hx
  | cons q l ih =>
    simp only [List.map_cons, List.sum_cons] at hx
    simp only [offT, widthT, List.map_cons, List.sum_cons]
    by_cases h : x ≥ q.2.len
    · simp only [h, if_true]
      have := ih (x := x - q.2.len) (by omega)
      unfold widthT at this
      omega
    · simp only [h, if_false]; omega

theorem offT_mono (l : List (Nat × StrandObj)) {x y : Nat} (hxy : x < y) (hy : y < (l.map (fun q => q.2.len)).sum) :
    offT l x < offT l y := by
  induction l generalizing x y with
  | nil => simp at hy
  | cons q l ih =>
    simp only [List.map_cons, List.sum_cons] at hy
    simp only [offT]
    by_cases hx : x ≥ q.2.len
    · have hy' : y ≥ q.2.len := by omega
      simp only [hx, hy', if_true]
      have := ih (x := x - q.2.len) (y := y - q.2.len) (by omega) (by omega)
      omega
    · simp only [hx, if_false]
      by_cases hy' : y ≥ q.2.len
      · simp only [hy', if_true]; omega
      · simp only [hy', if_false]; exact hxy

theorem layStructStrands_end (l : List (Nat × StrandObj)) (ss : List (Option Nat)) (p : Nat) :
    (layStructStrands l ss p).2 = p + widthT l := by
  induction l generalizing ss p with
  | nil => simp [layStructStrands, widthT]
  | cons q l ih =>
    obtain ⟨i, o⟩ := q
    simp only [layStructStrands, ih, widthT, List.map_cons, List.sum_cons]
    omega

theorem layStructAux_total_ge (spec : Spec) (l : List StructObj) (ss : List (Option Nat)) (p : Nat) :
    p ≤ (layStructAux spec l ss p).2.2 := by
  induction l generalizing ss p with
  | nil => simp [layStructAux]
  | cons so l ih =>
    simp only [layStructAux]
    refine Nat.le_trans ?_ (ih _ _)
    rw [layStructStrands_end]; omega

theorem layStructAux_starts (spec : Spec) (l : List StructObj) (ss : List (Option Nat)) (p : Nat) :
    (∀ j so, l[j]? = some so → p ≤ (layStructAux spec l ss p).1.getD j 0 ∧
      (layStructAux spec l ss p).1.getD j 0 + widthT (structStrands spec so) ≤ (layStructAux spec l ss p).2.2) ∧
    (∀ j j' so, j < j' → j' < l.length → l[j]? = some so →
      (layStructAux spec l ss p).1.getD j 0 + widthT (structStrands spec so) ≤ (layStructAux spec l ss p).1.getD j' 0) := by
  induction l generalizing ss p with
  | nil => simp
  | cons so0 l ih =>
    obtain ⟨ih1, ih2⟩ := ih (layStructStrands (structStrands spec so0) ss p).1
      ((layStructStrands (structStrands spec so0) ss p).2 + (Generated.structGapStructs - Generated.structGapStrands))
    have hend := layStructStrands_end (structStrands spec so0) ss p
    simp only [hend] at ih1 ih2
    constructor
    · intro j so hj
      cases j with
      | zero =>
        simp only [List.getElem?_cons_zero, Option.some.injEq] at hj
        subst hj
        simp only [layStructAux, List.getD_cons_zero, hend]
        refine ⟨Nat.le_refl _, ?_⟩
        refine Nat.le_trans ?_ (layStructAux_total_ge spec l _ _)
        omega
      | succ j =>
        simp only [List.getElem?_cons_succ] at hj
        obtain ⟨h1, h2⟩ := ih1 j so hj
        simp only [layStructAux, List.getD_cons_succ, hend]
        exact ⟨by omega, h2⟩
    · intro j j' so hjj hj' hj
      cases j' with
      | zero => omega
      | succ j' =>
        simp only [List.length_cons] at hj'
        cases j with
        | zero =>
          simp only [List.getElem?_cons_zero, Option.some.injEq] at hj
          subst hj
          simp only [layStructAux, List.getD_cons_zero, List.getD_cons_succ, hend]
          have hj'' : ∃ so', l[j']? = some so' := ⟨l[j'], List.getElem?_eq_getElem (by omega)⟩
          obtain ⟨so', hso'⟩ := hj''
          have := (ih1 j' so' hso').1
          omega
        | succ j =>
          simp only [List.getElem?_cons_succ] at hj
          simp only [layStructAux, List.getD_cons_succ, hend]
          exact ih2 j j' so (by omega) (by omega) hj

theorem stStart_facts {spec : Spec} {j : Nat} {so : StructObj} (hjso : (j, so) ∈ enum spec.structs) :
    stStart spec j + widthT (structStrands spec so) ≤ (layStruct spec).total ∧
    ∀ j' so', (j', so') ∈ enum spec.structs → j < j' →
      stStart spec j + widthT (structStrands spec so) ≤ stStart spec j' := by
  obtain ⟨h1, h2⟩ := layStructAux_starts spec spec.structs (List.replicate spec.strands.length none) 0
  exact ⟨(h1 j so (enum_getElem? hjso)).2,
    fun j' so' hj' hjj => h2 j j' so hjj (mem_enum_lt hj') (enum_getElem? hjso)⟩

/-- the keys the structure layout initialises -/
def keysStruct (spec : Spec) : List Nat :=
  (posTabStruct spec).map (·.1) ++ (seqInits spec (encOf spec (layStruct spec))).map (·.1)

theorem posKeysT_sorted {spec : Spec} (wf : SpecWF spec) : List.Pairwise (· < ·) ((posTabStruct spec).map (·.1)) := by
  rw [posTabStruct_keys, List.map_flatMap, List.pairwise_flatMap]
  constructor
  · rintro ⟨j, so⟩ hjso
    simp only [List.map_map, Function.comp_def]
    rw [List.pairwise_map]
    refine List.Pairwise.imp_of_mem ?_ List.pairwise_lt_range
    intro a b ha hb hab
    have hso : so ∈ spec.structs := (mem_enum hjso).1
    have := offT_mono (structStrands spec so) hab (by rw [← wf.structLen so hso]; exact List.mem_range.1 hb)
    omega
  · refine List.Pairwise.imp_of_mem ?_ (enum_pairwise spec.structs)
    rintro ⟨j1, so1⟩ ⟨j2, so2⟩ ha hb hab x hx y hy
    simp only [List.map_map, Function.comp_def, List.mem_map, List.mem_range] at hx hy
    obtain ⟨x', hx', rfl⟩ := hx
    obtain ⟨y', hy', rfl⟩ := hy
    have hso1 : so1 ∈ spec.structs := (mem_enum ha).1
    have h1 := offT_lt (structStrands spec so1) (x := x') (by rw [← wf.structLen so1 hso1]; exact hx')
    have h2 := (stStart_facts ha).2 j2 so2 hb hab
    omega

theorem posKeysT_lt_P {spec : Spec} (wf : SpecWF spec) :
    ∀ y ∈ (posTabStruct spec).map (·.1), y < (layStruct spec).total := by
  intro y hy
  rw [posTabStruct_keys] at hy
  obtain ⟨p, hp, rfl⟩ := List.mem_map.1 hy
  obtain ⟨⟨j, so⟩, hq, hp⟩ := List.mem_flatMap.1 hp
  obtain ⟨x, hx, rfl⟩ := List.mem_map.1 hp
  have hso : so ∈ spec.structs := (mem_enum hq).1
  have h1 := offT_lt (structStrands spec so) (x := x) (by rw [← wf.structLen so hso]; exact List.mem_range.1 hx)
  have h2 := (stStart_facts hq).1
  simp only
  omega

theorem keysStruct_nodup {spec : Spec} (wf : SpecWF spec) : (keysStruct spec).Nodup := by
  have : List.Pairwise (· < ·) (keysStruct spec) := by
    unfold keysStruct
    rw [List.pairwise_append]
    refine ⟨posKeysT_sorted wf, (seqKeys_sorted wf _).1, ?_⟩
    intro a ha b hb
    have h1 := posKeysT_lt_P wf a ha
    have h2 := (seqKeys_sorted wf _).2 b hb
    simp only [encOf] at h2
    omega
  exact List.Pairwise.imp (fun h => Nat.ne_of_lt h) this

/-! ## every link of the structure layout joins keys -/

theorem sqKeyT_item {spec : Spec} (wf : SpecWF spec) {it : ItemRef} {num x : Nat} (hn : numOf spec it = some num)
    (hx : x < lenOf spec it) : (encOf spec (layStruct spec)).sq num x ∈ keysStruct spec := by
  apply List.mem_append_right
  obtain ⟨o, ho, _, hf⟩ := numOf_spec wf hn
  have hlen : lenOf spec it = o.len := by simp [lenOf, hf]
  exact sq_mem_seqInits wf _ ho (hlen ▸ hx)

theorem sqKeyT_obj {spec : Spec} (wf : SpecWF spec) {num x : Nat} {o : SeqObj} (ho : objOfNum spec num = some o)
    (hx : x < o.len) : (encOf spec (layStruct spec)).sq num x ∈ keysStruct spec :=
  List.mem_append_right _ (sq_mem_seqInits wf _ ho hx)

theorem posKeyT_of_mem {spec : Spec} {a : Nat} {m : Nuc} (h : (a, m) ∈ posTabStruct spec) : a ∈ keysStruct spec :=
  List.mem_append_left _ (List.mem_map.2 ⟨(a, m), h, rfl⟩)

theorem posKeyT_index {spec : Spec} (wf : SpecWF spec) {j : Nat} {so : StructObj} (hjso : (j, so) ∈ enum spec.structs)
    {x : Nat} (hx : x < so.len) : stStart spec j + offT (structStrands spec so) x ∈ keysStruct spec := by
  have hso : so ∈ spec.structs := (mem_enum hjso).1
  obtain ⟨m, hm⟩ := getElem?_some_of_lt (l := structNucsM spec so) (i := x) (by rw [structNucsM_length wf hso]; exact hx)
  exact posKeyT_of_mem (posTabStruct_mem hjso hx hm)

theorem edges_keys_struct {spec : Spec} (wf : SpecWF spec) {s : Seeds} (hs : seeds .struct spec = .ok s) :
    s.inits.map (·.1) = keysStruct spec ∧
    (∀ e ∈ s.eqE, e.1 ∈ keysStruct spec ∧ e.2 ∈ keysStruct spec) ∧
    (∀ e ∈ s.wcE, e.1 ∈ keysStruct spec ∧ e.2 ∈ keysStruct spec) := by
  obtain ⟨li, ce, be, ee, se, te, h1, h2, h3, h4, h5, h6, rfl⟩ := seeds_ok hs
  rw [layOf_struct] at h1 h2 h3 h4 h5 h6
  have hli := layoutInits_struct wf
  rw [h1] at hli
  have hli := Except.ok.inj hli
  refine ⟨?_, ?_, ?_⟩
  · simp only [List.map_append]
    unfold keysStruct
    rw [hli, posTabStruct_keys]
    rfl
  · intro e he
    simp only [List.mem_append] at he
    rcases he with ((he | he) | he) | he
    · -- copies
      unfold copyEdges at h2
      simp only at h2
      obtain ⟨⟨j, so⟩, hjso, cs, hcs, hecs⟩ := (flatME_mem h2 e).1 he
      obtain ⟨⟨off, k, o⟩, hoff, cs', hcs', hecs'⟩ := (flatME_mem hcs e).1 hecs
      obtain ⟨x, hx, hxe⟩ := mapME_mem hcs' hecs'
      simp only at hxe
      have hxl : x < o.len := List.mem_range.1 hx
      have hso : so ∈ spec.structs := (mem_enum hjso).1
      have hko : (k, o) ∈ enum spec.strands := structStrands_mem wf (withOffsets_mem _ _ _ hoff)
      cases ha : getIndexStrand (layStruct spec) k o.len x with
      | error er => simp [ha] at hxe
      | ok a =>
        cases hb : getIndex .struct spec (layStruct spec) j so (off + x) with
        | error er => simp [ha, hb] at hxe
        | ok b =>
          simp only [ha, hb, Except.ok.injEq] at hxe
          subst hxe
          obtain ⟨_, m, _, hpos⟩ := strandPos_struct wf hko ha
          have hbd := withOffsets_bound (fun (q : Nat × StrandObj) => q.2.len) (structStrands spec so) 0 hoff
          simp only [Nat.zero_add] at hbd
          have hlt : off + x < so.len := by rw [wf.structLen so hso]; omega
          rw [getIndex_struct wf hso hlt] at hb
          cases hb
          exact ⟨posKeyT_of_mem hpos, posKeyT_index wf hjso hlt⟩
    · -- equal
      unfold equalEdges at h4
      obtain ⟨its, hits, cs, hcs, hecs⟩ := (flatME_mem h4 e).1 he
      cases its with
      | nil => simp at hcs
      | cons first rest =>
        simp only at hcs
        obtain ⟨it, hit, cs', hcs', hecs'⟩ := (flatME_mem hcs e).1 hecs
        by_cases hlen : (lenOf spec it != lenOf spec first) = true
        · simp [hlen] at hcs'
        · simp only [hlen, Bool.false_eq_true, if_false] at hcs'
          have hlen' : lenOf spec it = lenOf spec first := by simpa using hlen
          obtain ⟨x, hx, hxe⟩ := mapME_mem hcs' hecs'
          have hxl : x < lenOf spec it := List.mem_range.1 hx
          cases ha : sqOf spec (encOf spec (layStruct spec)) first x with
          | error er => simp [ha] at hxe
          | ok a =>
            cases hb : sqOf spec (encOf spec (layStruct spec)) it x with
            | error er => simp [ha, hb] at hxe
            | ok b =>
              simp only [ha, hb, Except.ok.injEq] at hxe
              subst hxe
              obtain ⟨na, hna, rfl⟩ := sqOf_ok ha
              obtain ⟨nb, hnb, rfl⟩ := sqOf_ok hb
              exact ⟨sqKeyT_item wf hna (by omega), sqKeyT_item wf hnb hxl⟩
    · -- sup
      unfold supEdges at h5
      obtain ⟨⟨k, o⟩, hko, cs, hcs, hecs⟩ := (flatME_mem h5 e).1 he
      obtain ⟨⟨off, it⟩, hoff, cs', hcs', hecs'⟩ := (flatME_mem hcs e).1 hecs
      obtain ⟨x, hx, hxe⟩ := mapME_mem hcs' hecs'
      simp only at hxe
      have hxl : x < lenOf spec it := List.mem_range.1 hx
      cases hb : sqOf spec (encOf spec (layStruct spec)) it x with
      | error er => simp [hb] at hxe
      | ok b =>
        simp only [hb, Except.ok.injEq] at hxe
        subst hxe
        obtain ⟨num, hn, rfl⟩ := sqOf_ok hb
        obtain ⟨ho1, _, _, _⟩ := objOfNum_sup hko
        have hmem := mem_supSeqs (mem_enum hko).1
        simp only at hmem
        have okI := wf.sup o hmem.1 hmem.2
        obtain ⟨_, hlt⟩ := items_index wf okI hoff hxl
        have hv : viewNucs o false = nucsOfBases o.bases := by simp [viewNucs, basesOfView]
        have hlen : off + x < o.len := by rw [← wf.seqLen o hmem.1, hv]; exact hlt
        exact ⟨sqKeyT_obj wf ho1 hlen, sqKeyT_item wf hn hxl⟩
    · -- strand
      unfold strandEdges at h6
      obtain ⟨⟨k, o⟩, hko, cs, hcs, hecs⟩ := (flatME_mem h6 e).1 he
      obtain ⟨⟨off, it⟩, hoff, cs', hcs', hecs'⟩ := (flatME_mem hcs e).1 hecs
      obtain ⟨x, hx, hxe⟩ := mapME_mem hcs' hecs'
      simp only at hxe
      have hxl : x < lenOf spec it := List.mem_range.1 hx
      cases ha : getIndexStrand (layStruct spec) k o.len (off + x) with
      | error er => simp [ha] at hxe
      | ok a =>
        cases hb : sqOf spec (encOf spec (layStruct spec)) it x with
        | error er => simp [ha, hb] at hxe
        | ok b =>
          simp only [ha, hb, Except.ok.injEq] at hxe
          subst hxe
          obtain ⟨num, hn, rfl⟩ := sqOf_ok hb
          obtain ⟨_, m, _, hpos⟩ := strandPos_struct wf hko ha
          exact ⟨posKeyT_of_mem hpos, sqKeyT_item wf hn hxl⟩
  · intro e he
    simp only [List.mem_append] at he
    rcases he with he | he
    · -- bonds
      unfold bondEdges at h3
      obtain ⟨⟨j, so⟩, hjso, cs, hcs, hecs⟩ := (flatME_mem h3 e).1 he
      obtain ⟨⟨x, y⟩, hxy, hxe⟩ := mapME_mem hcs hecs
      simp only at hxe
      have hso : so ∈ spec.structs := (mem_enum hjso).1
      obtain ⟨hx, hy⟩ := wf.bondsLt so hso (x, y) hxy
      simp only at hx hy
      rw [getIndex_struct wf hso hx, getIndex_struct wf hso hy] at hxe
      simp only [Except.ok.injEq] at hxe
      subst hxe
      exact ⟨posKeyT_index wf hjso hx, posKeyT_index wf hjso hy⟩
    · -- views
      unfold viewEdges at he
      rcases List.mem_append.1 he with he | he
      · obtain ⟨⟨k, o⟩, hko, he⟩ := List.mem_flatMap.1 he
        obtain ⟨x, hx, rfl⟩ := List.mem_map.1 he
        obtain ⟨h0, h1', _, _⟩ := objOfNum_base hko
        have hxl := List.mem_range.1 hx
        exact ⟨sqKeyT_obj wf h1' hxl, sqKeyT_obj wf h0 (by omega)⟩
      · obtain ⟨⟨k, o⟩, hko, he⟩ := List.mem_flatMap.1 he
        obtain ⟨x, hx, rfl⟩ := List.mem_map.1 he
        obtain ⟨h0, h1', _, _⟩ := objOfNum_sup hko
        have hxl := List.mem_range.1 hx
        exact ⟨sqKeyT_obj wf h1' hxl, sqKeyT_obj wf h0 (by omega)⟩

/-- **The structure layout never raises during the seeding when every non-empty strand occurs in a structure.** -/
theorem seeding_total_struct {spec : Spec} (wf : SpecWF spec) (hp : Placed spec) :
    ∃ s c, seeds .struct spec = .ok s ∧ build s = .ok c := by
  obtain ⟨s, hs⟩ := seeds_total_struct wf hp
  obtain ⟨hk, hE, hW⟩ := edges_keys_struct wf hs
  obtain ⟨c, hc⟩ := build_total s (hk ▸ keysStruct_nodup wf) (fun e he => hk ▸ hE e he) (fun e he => hk ▸ hW e he)
  exact ⟨s, c, hs, hc⟩

/-! ## the structure layout in closed form -/

theorem layStructAux_closed (spec : Spec) (l : List StructObj) (ss : List (Option Nat)) (p j : Nat)
    (hj : j < l.length) :
    (layStructAux spec l ss p).1.getD j 0 = p + ((l.take j).map (fun so =>
      widthT (structStrands spec so) + (Generated.structGapStructs - Generated.structGapStrands))).sum := by
  induction l generalizing ss p j with
  | nil => simp at hj
  | cons so l ih =>
    simp only [layStructAux]
    cases j with
    | zero => simp
    | succ j =>
      simp only [List.length_cons] at hj
      simp only [List.getD_cons_succ, List.take_succ_cons, List.map_cons, List.sum_cons]
      rw [ih _ _ j (by omega), layStructStrands_end]
      omega

/-- **Structure layout**: structure `j` starts after all earlier structures, each as wide as its strands with one
    blank each (`structGapStrands`) plus the extra blank(s) between structures. -/
theorem stStart_closed (spec : Spec) {j : Nat} (hj : j < spec.structs.length) :
    stStart spec j = ((spec.structs.take j).map (fun so =>
      widthT (structStrands spec so) + (Generated.structGapStructs - Generated.structGapStrands))).sum := by
  unfold stStart
  have : (layStruct spec).structStart = (layStructAux spec spec.structs (List.replicate spec.strands.length none) 0).1 := rfl
  rw [this, layStructAux_closed _ _ _ _ _ hj]
  simp

/-- the keys below `P` are exactly the structure positions -/
theorem key_iff_pos_struct {tbl : CodeTable} {spec : Spec} (wf : SpecWF spec) (ok : SpecCodes tbl spec)
    {s : Seeds} {c : Cons} (hs : seeds .struct spec = .ok s) (hb : build s = .ok c) {i : Nat} (hi : i < s.P) :
    i ∈ c.keys ↔ ∃ q ∈ enum spec.structs, ∃ x, x < q.2.len ∧ i = stStart spec q.1 + offT (structStrands spec q.2) x := by
  have SS := seedSound wf ok hs hb
  obtain ⟨li, ce, be, ee, se, te, _, _, _, _, _, _, rfl⟩ := seeds_ok hs
  rw [SS.keys]
  simp only [List.mem_append]
  constructor
  · rintro (h | h)
    · have h' : i ∈ (posTabStruct spec).map (·.1) := h
      rw [posTabStruct_keys] at h'
      obtain ⟨p, hp, rfl⟩ := List.mem_map.1 h'
      obtain ⟨q, hq, hp⟩ := List.mem_flatMap.1 hp
      obtain ⟨x, hx, rfl⟩ := List.mem_map.1 hp
      exact ⟨q, hq, x, List.mem_range.1 hx, rfl⟩
    · have := mem_seqInits_ge wf _ h
      simp only [encOf] at this hi
      omega
  · rintro ⟨q, hq, x, hx, rfl⟩
    left
    show _ ∈ (posTabStruct spec).map (·.1)
    rw [posTabStruct_keys]
    exact List.mem_map.2 ⟨(stStart spec q.1 + offT (structStrands spec q.2) x, 'N'),
      List.mem_flatMap.2 ⟨q, hq, List.mem_map.2 ⟨x, List.mem_range.2 hx, rfl⟩⟩, rfl⟩

/-- a structure position denotes the structure's nucleotide -/
theorem denT_pos {tbl : CodeTable} {spec : Spec} (wf : SpecWF spec) (ok : SpecCodes tbl spec)
    {s : Seeds} {c : Cons} (hs : seeds .struct spec = .ok s) (hb : build s = .ok c)
    {q : Nat × StructObj} (hq : q ∈ enum spec.structs) {x : Nat} (hx : x < q.2.len) :
    denOf .struct spec (stStart spec q.1 + offT (structStrands spec q.2) x) = (structNucsM spec q.2)[x]? := by
  have SS := seedSound wf ok hs hb
  obtain ⟨m, hm⟩ := getElem?_some_of_lt (l := structNucsM spec q.2) (i := x)
    (by rw [structNucsM_length wf (mem_enum hq).1]; exact hx)
  rw [hm]
  exact den_pos SS.D (posTabStruct_mem (j := q.1) (so := q.2) hq hx hm)

end Pepper.ConstraintGen
