import PepperProofs.ConstraintGenTotal
/-!
# The seeding of the structure layout never raises when every non-empty strand occurs in a structure
-/
namespace Pepper.ConstraintGen
open Pepper Pepper.Pil Pepper.Closure Pepper.LinkSpec

/-! ## `strand_start` is defined for every strand listed in a structure -/

theorem layStructStrands_keep (l : List (Nat × StrandObj)) (ss : List (Option Nat)) (p : Nat) (k : Nat)
    (h : (ss.getD k none).isSome = true) : ((layStructStrands l ss p).1.getD k none).isSome = true := by
  induction l generalizing ss p with
  | nil => exact h
  | cons q l ih =>
    obtain ⟨i, o⟩ := q
    simp only [layStructStrands]
    apply ih
    split
    · rw [getD_set']
      split
      · rfl
      · exact h
    · exact h

theorem layStructStrands_defined (l : List (Nat × StrandObj)) (ss : List (Option Nat)) (p : Nat)
    {q : Nat × StrandObj} (hq : q ∈ l) (hlt : q.1 < ss.length) :
    ((layStructStrands l ss p).1.getD q.1 none).isSome = true := by
  induction l generalizing ss p with
  | nil => cases hq
  | cons a l ih =>
    obtain ⟨i, o⟩ := a
    simp only [layStructStrands]
    rcases List.mem_cons.1 hq with rfl | hq
    · apply layStructStrands_keep
      by_cases hn : (ss.getD i none).isNone = true
      · simp only [hn, if_true, getD_set']
        simp only at hlt
        simp [hlt]
      · simp only [hn, Bool.false_eq_true, if_false]
        cases h : ss.getD i none with
        | none => simp [h] at hn
        | some v => rfl
    · apply ih _ _ hq
      split
      · rw [List.length_set]; exact hlt
      · exact hlt

theorem layStructAux_keep (spec : Spec) (l : List StructObj) (ss : List (Option Nat)) (p : Nat) (k : Nat)
    (h : (ss.getD k none).isSome = true) : ((layStructAux spec l ss p).2.1.getD k none).isSome = true := by
  induction l generalizing ss p with
  | nil => exact h
  | cons so l ih =>
    simp only [layStructAux]
    exact ih _ _ (layStructStrands_keep _ _ _ _ h)

theorem layStructAux_defined (spec : Spec) (l : List StructObj) (ss : List (Option Nat)) (p : Nat)
    {so : StructObj} (hso : so ∈ l) {q : Nat × StrandObj} (hq : q ∈ structStrands spec so) (hlt : q.1 < ss.length) :
    ((layStructAux spec l ss p).2.1.getD q.1 none).isSome = true := by
  induction l generalizing ss p with
  | nil => cases hso
  | cons a l ih =>
    simp only [layStructAux]
    rcases List.mem_cons.1 hso with rfl | hso
    · exact layStructAux_keep spec l _ _ _ (layStructStrands_defined _ _ _ hq hlt)
    · apply ih _ _ hso
      rw [(layStructStrands_spec _ _ _).1]; exact hlt

/-- every strand listed in some structure has a `strand_start` -/
theorem strandStart_defined {spec : Spec} (wf : SpecWF spec) {so : StructObj} (hso : so ∈ spec.structs)
    {q : Nat × StrandObj} (hq : q ∈ structStrands spec so) :
    ∃ p0, (layStruct spec).strandStart.getD q.1 none = some p0 := by
  have hlt : q.1 < (List.replicate spec.strands.length (none : Option Nat)).length := by
    simp; exact mem_enum_lt (structStrands_mem wf hq)
  have := layStructAux_defined spec spec.structs (List.replicate spec.strands.length none) 0 hso hq hlt
  exact Option.isSome_iff_exists.1 this

/-- every non-empty strand occurs in some structure -/
def Placed (spec : Spec) : Prop :=
  ∀ o ∈ spec.strands, o.len ≠ 0 → ∃ so ∈ spec.structs, o.name ∈ so.strands

theorem strands_index_unique {spec : Spec} (wf : SpecWF spec) {k k' : Nat} {o : StrandObj}
    (h : (k, o) ∈ enum spec.strands) (h' : (k', o) ∈ enum spec.strands) : k = k' :=
  nodup_getElem_inj (nodup_of_map _ wf.strandNames) (enum_getElem? h) (enum_getElem? h')

theorem placed_structStrands {spec : Spec} (wf : SpecWF spec) (hp : Placed spec) {k : Nat} {o : StrandObj}
    (hko : (k, o) ∈ enum spec.strands) (hlen : o.len ≠ 0) :
    ∃ so ∈ spec.structs, (k, o) ∈ structStrands spec so := by
  have hmem : o ∈ spec.strands := (mem_enum hko).1
  obtain ⟨so, hso, hn⟩ := hp o hmem hlen
  refine ⟨so, hso, ?_⟩
  have hf := wf.strandFind o hmem
  have hidx : ∃ k', strandIdx spec o.name = some k' := by
    cases hi : strandIdx spec o.name with
    | some k' => exact ⟨k', rfl⟩
    | none =>
      have := List.findIdx?_eq_none_iff.1 hi o hmem
      simp at this
  obtain ⟨k', hk'⟩ := hidx
  have hin : (k', o) ∈ structStrands spec so := by
    unfold structStrands
    rw [List.mem_filterMap]
    exact ⟨o.name, hn, by simp [hk', hf]⟩
  have := strands_index_unique wf (structStrands_mem wf hin) hko
  rw [← this]; exact hin

theorem getIndexStrand_struct_ok {spec : Spec} (wf : SpecWF spec) (hp : Placed spec) {k : Nat} {o : StrandObj}
    (hko : (k, o) ∈ enum spec.strands) {x : Nat} (hx : x < o.len) :
    ∃ a, getIndexStrand (layStruct spec) k o.len x = .ok a := by
  obtain ⟨so, hso, hq⟩ := placed_structStrands wf hp hko (by omega)
  obtain ⟨p0, hp0⟩ := strandStart_defined wf hso hq
  exact ⟨p0 + x, by unfold getIndexStrand; rw [if_pos hx]; simp only at hp0; rw [hp0]⟩

/-! ## `seeds` returns -/

theorem sqOf_total' {spec : Spec} (wf : SpecWF spec) (e : Enc) {it : ItemRef}
    (hres : (spec.findSeq it.name).isSome = true) (x : Nat) :
    ∃ num, numOf spec it = some num ∧ sqOf spec e it x = .ok (e.sq num x) := sqOf_total wf e hres x

theorem equalEdges_total {spec : Spec} (wf : SpecWF spec) (e : Enc) : ∃ ee, equalEdges spec e = .ok ee := by
  unfold equalEdges
  apply flatME_exists
  intro its hits
  obtain ⟨hne, hlen⟩ := wf.equalLen its hits
  cases its with
  | nil => exact absurd rfl hne
  | cons first rest =>
    simp only
    apply flatME_exists
    intro it hit
    have hl := hlen it (List.mem_cons_of_mem _ hit) first List.mem_cons_self
    simp only [hl, bne_self_eq_false, Bool.false_eq_true, if_false]
    apply mapME_exists
    intro x _
    obtain ⟨na, _, ha⟩ := sqOf_total wf e (wf.equal _ hits first List.mem_cons_self) x
    obtain ⟨nb, _, hb⟩ := sqOf_total wf e (wf.equal _ hits it (List.mem_cons_of_mem _ hit)) x
    exact ⟨(e.sq na x, e.sq nb x), by simp [ha, hb]⟩

theorem supEdges_total {spec : Spec} (wf : SpecWF spec) (e : Enc) : ∃ se, supEdges spec e = .ok se := by
  unfold supEdges
  apply flatME_exists
  rintro ⟨k, o⟩ hko
  apply flatME_exists
  rintro ⟨off, it⟩ hoff
  apply mapME_exists
  intro x _
  have hmem := mem_supSeqs (mem_enum hko).1
  obtain ⟨nb, _, hb⟩ := sqOf_total wf e ((wf.sup o hmem.1 hmem.2).resolve it (withOffsets_mem _ _ _ hoff)) x
  exact ⟨(e.sq (2 * spec.baseSeqs.length + 2 * k) (off + x), e.sq nb x), by simp [hb]⟩

/-- the structure layout: `seeds` returns when every non-empty strand is placed -/
theorem seeds_total_struct {spec : Spec} (wf : SpecWF spec) (hp : Placed spec) : ∃ s, seeds .struct spec = .ok s := by
  have hlay : layOf .struct spec = layStruct spec := rfl
  obtain ⟨ce, hce⟩ : ∃ ce, copyEdges .struct spec (layStruct spec) = .ok ce := by
    unfold copyEdges
    simp only
    apply flatME_exists
    rintro ⟨j, so⟩ hjso
    apply flatME_exists
    rintro ⟨off, k, o⟩ hoff
    apply mapME_exists
    intro x hx
    have hxl := List.mem_range.1 hx
    have hso : so ∈ spec.structs := (mem_enum hjso).1
    have hq := withOffsets_mem _ _ _ hoff
    obtain ⟨p0, hp0⟩ := strandStart_defined wf hso hq
    have hbd := withOffsets_bound (fun (q : Nat × StrandObj) => q.2.len) (structStrands spec so) 0 hoff
    simp only [Nat.zero_add] at hbd
    have hlt : off + x < so.len := by rw [wf.structLen so hso]; omega
    refine ⟨(p0 + x, stStart spec j + offT (structStrands spec so) (off + x)), ?_⟩
    simp only
    rw [getIndex_struct wf hso hlt]
    unfold getIndexStrand
    rw [if_pos hxl]
    simp only at hp0
    rw [hp0]
  obtain ⟨be, hbe⟩ : ∃ be, bondEdges .struct spec (layStruct spec) = .ok be := by
    unfold bondEdges
    apply flatME_exists
    rintro ⟨j, so⟩ hjso
    apply mapME_exists
    rintro ⟨x, y⟩ hxy
    have hso : so ∈ spec.structs := (mem_enum hjso).1
    obtain ⟨hx, hy⟩ := wf.bondsLt so hso (x, y) hxy
    simp only at hx hy
    exact ⟨_, by simp only; rw [getIndex_struct wf hso hx, getIndex_struct wf hso hy]⟩
  obtain ⟨ee, hee⟩ := equalEdges_total wf (encOf spec (layStruct spec))
  obtain ⟨se, hse⟩ := supEdges_total wf (encOf spec (layStruct spec))
  obtain ⟨te, hte⟩ : ∃ te, strandEdges spec (layStruct spec) (encOf spec (layStruct spec)) = .ok te := by
    unfold strandEdges
    apply flatME_exists
    rintro ⟨k, o⟩ hko
    apply flatME_exists
    rintro ⟨off, it⟩ hoff
    apply mapME_exists
    intro x hx
    have hmem : o ∈ spec.strands := (mem_enum hko).1
    have okI := wf.strand o hmem
    obtain ⟨_, hlt⟩ := items_index wf okI hoff (List.mem_range.1 hx)
    have hlen : off + x < o.len := by rw [← wf.strandLen o hmem]; exact hlt
    obtain ⟨nb, _, hb⟩ := sqOf_total wf (encOf spec (layStruct spec)) (okI.resolve it (withOffsets_mem _ _ _ hoff)) x
    obtain ⟨a, ha⟩ := getIndexStrand_struct_ok wf hp hko hlen
    exact ⟨(a, (encOf spec (layStruct spec)).sq nb x), by simp only; rw [ha, hb]⟩
  refine ⟨⟨(layStruct spec).total,
    (enum spec.structs).flatMap (fun (p : Nat × StructObj) =>
      (List.range p.2.len).map (fun x => (stStart spec p.1 + offT (structStrands spec p.2) x, 'N'))) ++
      seqInits spec (encOf spec (layStruct spec)),
    ce ++ ee ++ se ++ te, be ++ viewEdges spec (encOf spec (layStruct spec))⟩, ?_⟩
  unfold seeds
  simp only [hlay, layoutInits_struct wf, hce, hbe, hee, hse, hte]

end Pepper.ConstraintGen
