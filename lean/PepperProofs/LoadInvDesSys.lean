import PepperProofs.LoadInvDes
import PepperProofs.SysPil
/-!
# M2 for whole instance trees (C03): the design of the object tables has the solutions of the source's design

`Des.designOf inst` is read off the object tables `Sys.loadFile` returns; `Denote.denoteFile` assigns a design `d`
to the *source*.  `tree_satEq`: the two agree on every field `LinkSpec.Sat` reads (`SatEq`: domains, `equals`,
strands, and the strand lists and dot-parens of the structures — not structure names, `opt`, `seqs`, `kinetics`),
for trees of any depth.  Hence `tree_sat_iff`: they have the same solutions.

Route: the two walks (`loadFile` / `denoteFile`) are followed in lockstep, as in `SysProofs.stmts_agree`:
* a component leaf: C01 (`compile_preserves` + `emit_sound`), as in `LoadInv.comp_sat_iff`;
* the statement loop of a system: the instances' designs are appended in order on both sides (`stmts_satEq`; that
  the specification side consumes the same anonymous-sequence numbers is `SysProofs.wiring_agrees`);
* the signal part: the specification's signal design is `sigDesignOf` of the compile path's tables
  (`SysProofs.sys_tables_agree`, `sigDesign_eq`), and `Des.signalDesign` is the same thing block by block, because a
  port that is not a super-sequence has `base_seqs = [itself]` (`LoadInv.PortInv` + `CompWF.EntryWF.base`).

Hypotheses: only the names-only part of C02's `bundleOk` (`bundleNamesOk`: `UserNamesOk` for component sources,
`sysNamesOk` for system sources); the code table of the PIL reader is instantiated with `tableOfBundle b`.
-/
set_option linter.unusedSimpArgs false
set_option linter.unusedVariables false
namespace Pepper.DesSys
open Pepper Pepper.Comp Pepper.Sys Pepper.SysProofs

/-! ### agreement on the fields `Sat` reads -/

/-- two designs agree on everything `LinkSpec.Sat` reads -/
def SatEq (d d' : Design) : Prop :=
  d.domains = d'.domains ∧ d.equals = d'.equals ∧ d.strands = d'.strands ∧
  d.structs.map (fun s => (s.strands, s.struct)) = d'.structs.map (fun s => (s.strands, s.struct))

theorem SatEq.sat {d d' : Design} (h : SatEq d d') (tbl : CodeTable) (a : Var → LinkSpec.Base) :
    LinkSpec.Sat tbl d a ↔ LinkSpec.Sat tbl d' a :=
  LoadInv.sat_congr h.1 h.2.1 h.2.2.1 h.2.2.2 a

theorem SatEq.append {a b c d : Design} (h1 : SatEq a c) (h2 : SatEq b d) :
    SatEq (Denote.Design.append a b) (Denote.Design.append c d) := by
  obtain ⟨a1, a2, a3, a4⟩ := h1
  obtain ⟨b1, b2, b3, b4⟩ := h2
  simp only [SatEq, Denote.Design.append, List.map_append, a1, a2, a3, a4, b1, b2, b3, b4, and_self]

theorem SatEq.empty : SatEq (Des.designOfBlocks []) Design.empty := ⟨rfl, rfl, rfl, rfl⟩

theorem designOfBlocks_append (a b : List Des.Block) :
    Des.designOfBlocks (a ++ b) = Denote.Design.append (Des.designOfBlocks a) (Des.designOfBlocks b) := by
  simp [Des.designOfBlocks, Denote.Design.append, List.flatMap_append]

theorem designOfBlocks_single (bl : Des.Block) : Des.designOfBlocks [bl] = Des.blockDesign bl := by
  simp [Des.designOfBlocks]

/-! ### one component (C01) -/

/-- the design of a loaded component's tables agrees with the design `denoteComp` assigns to the source -/
theorem comp_satEq (tbl : CodeTable) {src : Comp.Src} {n : Nat} {pfx : String} {a : Nat} {st : Comp.St} {a' : Nat}
    (hload : Comp.load src n pfx a = .ok (st, a')) (hnames : UserNamesOk src = true) (hcodes : CodesOk tbl src = true) :
    ∃ o ports, Denote.denoteComp src pfx a = .ok (o, ports, a') ∧ SatEq (Des.compDesign st) (o.design []) := by
  obtain ⟨spec, o, ports, hl, hden, hequiv, _⟩ := compile_preserves tbl src n pfx a st a' hload hnames hcodes
  have hn := LoadInv.stmtNamesOk_of_user hnames
  obtain ⟨ci, _, _⟩ := LoadInv.load_inv_all hload hn
  obtain ⟨spec', hl', hd'⟩ := emit_sound tbl ci.wf (LoadInv.load_codes hload hn hcodes)
  rw [hl] at hl'
  cases hl'
  rw [hd'] at hequiv
  obtain ⟨e1, _, e3, e4, e5⟩ := hequiv
  refine ⟨o, ports, hden, ?_, ?_, ?_, ?_⟩
  · exact e1
  · exact e5
  · exact e3
  · rw [← e4]
    simp [Des.compDesign, Comp.designOf, List.map_map, Function.comp_def]

/-! ### the signal part -/

abbrev PN (c : Comp.Src) : Prop := LoadInv.StmtNamesOk c = true

/-- what the tree invariant says about a system node: its prefix, distinct keys of the length table, and every
    signal entry's region in `Des.signalDesign` is the region `SysProofs.entryRegion` -/
theorem loaded_sys {Q : SSrc → Prop} {pfx : String} {st : SysSt} (hL : LoadInv.Loaded PN Q pfx (.sys st)) :
    st.pfx = pfx ∧ (st.lengths.map (·.1)).Nodup ∧
    ∀ x ∈ st.signals, ∀ e ∈ x.2, Des.portRegion st.pfx ((st.lengths.lookup x.1).getD 0) e =
      entryRegion st.pfx ((st.lengths.lookup x.1).getD 0) e := by
  cases hL with
  | sys hQ hsub hinv hio =>
    rename_i s path name tm sg lens comps
    refine ⟨rfl, by simp only [SysSt.lengths]; rw [hinv.keys]; exact hinv.sigNodup, ?_⟩
    intro x hx e he
    simp only [SysSt.signals] at hx
    simp only [SysSt.pfx, SysSt.lengths]
    obtain ⟨inst', len', hm, hl, hport⟩ := hinv.entries x hx e he
    have hLi := hsub (e.comp, inst') hm
    simp only at hLi
    have hnucs : Des.portNucs pfx ((lens.lookup x.1).getD 0) e = entryNucs pfx ((lens.lookup x.1).getD 0) e := by
      unfold Des.portNucs entryNucs
      cases hpe : e.port with
      | sig m => rfl
      | seq i bases =>
        simp only
        by_cases hs : i.isSup = true
        · simp only [hs, if_true]; rfl
        · simp only [hs, if_false]
          rw [hpe] at hport
          cases hLi with
          | sys hQ' hsub' hinv' hio' => simp [LoadInv.PortInv] at hport
          | comp hP hload =>
            simp only [LoadInv.PortInv] at hport
            obtain ⟨_, hil, se, hf, hsl, hsk, rfl⟩ := hport
            obtain ⟨ci, _, _⟩ := LoadInv.load_inv_all hload hP
            obtain ⟨hsel, hsen⟩ := findE_some hf
            have hsf : se.isSup = false := by rw [← hsk]; simpa using hs
            have hb := ((ci.wf.seqs.entries se hsel).base hsf).1
            rw [hb]
            simp [basesNucs, baseNucs, Des.entryPfx, hsen, hsl]
    simp only [Des.portRegion, entryRegion, hnucs]

/-- the signal blocks of a system describe the signal design read off the tables -/
theorem sigBlocks_satEq (pfx : String) (lens : List (String × Nat)) : ∀ (sg : List (String × List SigEntry)),
    (∀ x ∈ sg, ∀ e ∈ x.2, Des.portRegion pfx ((lens.lookup x.1).getD 0) e =
      entryRegion pfx ((lens.lookup x.1).getD 0) e) →
    SatEq (Des.designOfBlocks (sg.map (LoadInv.sigBlock pfx lens))) (sigDesignOf pfx lens sg) := by
  intro sg
  induction sg with
  | nil => intro _; exact ⟨rfl, rfl, rfl, rfl⟩
  | cons x r ih =>
    intro h
    have hr := ih (fun y hy => h y (List.mem_cons_of_mem _ hy))
    have hx : SatEq (Des.designOfBlocks [LoadInv.sigBlock pfx lens x]) (sigDesignOf pfx lens [x]) := by
      rw [designOfBlocks_single]
      refine ⟨rfl, ?_, rfl, rfl⟩
      simp only [LoadInv.sigBlock, Des.blockDesign, Des.signalDesign, sigDesignOf, List.map_cons, List.map_nil,
        List.cons.injEq, and_true, true_and]
      apply List.map_congr_left
      intro e he
      exact h x List.mem_cons_self e he
    have := SatEq.append hx hr
    rw [← designOfBlocks_append] at this
    simpa [sigDesignOf, Denote.Design.append] using this

/-! ### the statement loop -/

theorem stmts_satEq (b : Bundle) (hbc : BundleComps (fun c => UserNamesOk c = true) b) (fuel : Nat)
    (IH : ∀ base args argKey pfx path includes anon inst a' d ports a'',
      loadFile b fuel base args argKey pfx path includes anon = .ok (inst, a') →
      Denote.denoteFile b fuel base args argKey pfx path includes anon = .ok (d, ports, a'') →
      SatEq (Des.designOf inst) d) (includes : List String) :
    ∀ (stmts : List SStmt) (st st' : SysSt) (a a' : Nat) (d : Design) (sa : Denote.SigAcc) (d' : Design)
      (sa' : Denote.SigAcc) (a'' : Nat),
      loadStmts b fuel includes stmts st a = .ok (st', a') →
      Denote.denoteSysStmts b fuel includes st.path st.pfx stmts st.template d sa a = .ok (d', sa', a'') →
      SatEq (Des.designOfBlocks (st.components.flatMap (fun x => Des.blocksInst x.2))) d →
      SatEq (Des.designOfBlocks (st'.components.flatMap (fun x => Des.blocksInst x.2))) d' := by
  intro stmts
  induction stmts with
  | nil =>
    intro st st' a a' d sa d' sa' a'' h hd hinv
    rw [loadStmts_nil] at h
    rw [denoteSysStmts_nil] at hd
    simp only [Except.ok.injEq, Prod.mk.injEq] at h hd
    obtain ⟨rfl, rfl⟩ := h
    obtain ⟨rfl, rfl, rfl⟩ := hd
    exact hinv
  | cons s r ih =>
    intro st st' a a' d sa d' sa' a'' h hd hinv
    cases s with
    | imports items =>
      rw [loadStmts_imports] at h
      rw [denoteSysStmts_imports] at hd
      have hag := addImports_agree items st.template
      cases hi : loadStmts.addImports items st.template with
      | error e => rw [hi] at h; cases h
      | ok t =>
        rw [hi] at h hag
        simp only at h hag
        rw [← hag] at hd
        simp only at hd
        obtain ⟨p, n, pf, t0, sg, l, c, i, o⟩ := st
        simp only at h
        exact ih (.mk p n pf t sg l c i o) st' a a' d sa d' sa' a'' h hd hinv
    | component cname templ args ins outs =>
      rw [loadStmts_component] at h
      rw [denoteSysStmts_component] at hd
      cases hl : st.template.lookup templ with
      | none => rw [hl] at h; cases h
      | some tpath =>
        rw [hl] at h hd
        simp only at h hd
        split at h
        · cases h
        · cases hf : loadFile b fuel tpath args ("@" ++ st.pfx ++ cname) (st.pfx ++ cname ++ "-") st.path includes a with
          | error e => rw [hf] at h; cases h
          | ok x =>
            obtain ⟨inst, a1⟩ := x
            rw [hf] at h
            simp only at h
            obtain ⟨d1, ports, hdf, _⟩ := wiring_agrees compAccept b hbc fuel _ _ _ _ _ _ _ _ _ hf
            have hse := IH _ _ _ _ _ _ _ _ _ _ _ _ hf hdf
            rw [hdf] at hd
            simp only at hd
            split at h
            · cases h
            · split at hd
              · cases hd
              · cases hb : bindSigs cname st.signals st.lengths (ins ++ outs) (instPorts inst) with
                | error e => rw [hb] at h; cases h
                | ok y =>
                  obtain ⟨sg, l⟩ := y
                  rw [hb] at h
                  simp only at h
                  cases hbp : Denote.bindPorts sa (ins ++ outs) ports with
                  | error e => rw [hbp] at hd; cases hd
                  | ok sa1 =>
                    rw [hbp] at hd
                    simp only at hd
                    obtain ⟨p, n, pf, t0, sg0, l0, c, i, o⟩ := st
                    refine ih (addComp (.mk p n pf t0 sg0 l0 c i o) sg l cname inst) st' a1 a' _ sa1 d' sa' a'' h hd ?_
                    show SatEq (Des.designOfBlocks ((c ++ [(cname, inst)]).flatMap (fun x => Des.blocksInst x.2))) _
                    rw [List.flatMap_append, designOfBlocks_append]
                    refine SatEq.append hinv ?_
                    simpa [Des.designOf] using hse

/-! ### the whole tree -/

theorem bundleOk_comps {tbl : CodeTable} {b : Bundle} (hb : bundleOk tbl b = true) :
    BundleComps (fun c => UserNamesOk c = true) b :=
  fun _ _ hl => (bundleOk_comp hb hl).1

/-- **M2 for instance trees, field by field**: whatever `load_file` returns — a component, a system, a system of
    systems — the design of its object tables and the design the specification assigns to the source agree on
    everything `Sat` reads -/
theorem tree_satEq (tbl : CodeTable) (b : Bundle) (hb : bundleOk tbl b = true) :
    ∀ (fuel : Nat) base args argKey pfx path includes anon inst a' d ports a'',
    loadFile b fuel base args argKey pfx path includes anon = .ok (inst, a') →
    Denote.denoteFile b fuel base args argKey pfx path includes anon = .ok (d, ports, a'') →
    SatEq (Des.designOf inst) d := by
  have hbc := bundleOk_comps hb
  have hP : LoadInv.CompSrcsOk PN b := fun k c hl => LoadInv.stmtNamesOk_of_user (hbc k c hl)
  have hQ : LoadInv.SysSrcsOk (fun _ => True) b := fun _ _ _ => trivial
  intro fuel
  induction fuel with
  | zero =>
    intro base args argKey pfx path includes anon inst a' d ports a'' h _
    obtain ⟨e, he⟩ := loadFile_zero b base args argKey pfx path includes anon
    rw [he] at h; cases h
  | succ fuel ih =>
    intro base args argKey pfx path includes anon inst a' d ports a'' h hd
    have hL := LoadInv.loadFile_loaded hP hQ _ _ _ _ _ _ _ _ _ _ h
    rw [loadFile_succ] at h
    rw [denoteFile_succ] at hd
    cases hr : resolveImport (fun p => b.exists_.contains (normPath p)) base path includes with
    | error e => rw [hr] at h; cases h
    | ok x =>
      obtain ⟨fname, issys, newPath⟩ := x
      rw [hr] at h hd
      simp only at h hd
      cases hl : b.files.lookup (normPath fname ++ argKey) with
      | none => rw [hl] at h; cases h
      | some fs =>
        rw [hl] at h hd
        cases fs with
        | comp c =>
          simp only at h hd
          cases issys with
          | true => cases h
          | false =>
            simp only [Bool.false_eq_true, if_false, Bool.false_or] at h hd
            cases hcl : Comp.load c args pfx anon with
            | error e => rw [hcl] at h; cases h
            | ok y =>
              obtain ⟨st, a1⟩ := y
              rw [hcl] at h
              simp only [Except.ok.injEq, Prod.mk.injEq] at h
              obtain ⟨rfl, rfl⟩ := h
              obtain ⟨hun, hco⟩ := bundleOk_comp hb hl
              obtain ⟨o, ports', hd', hse⟩ := comp_satEq tbl hcl hun hco
              have hpar : (c.params.length != args) = false := by simp [(load_stars hcl).1]
              rw [hpar, hd'] at hd
              simp only [Bool.false_eq_true, if_false, Except.ok.injEq, Prod.mk.injEq] at hd
              obtain ⟨rfl, _, _⟩ := hd
              simpa [Des.designOf, Des.blocksInst, designOfBlocks_single, Des.blockDesign] using hse
        | sys s =>
          simp only at h hd
          cases issys with
          | false => cases h
          | true =>
            simp only [Bool.not_true, Bool.false_eq_true, if_false, Bool.false_or] at h hd
            split at h
            · cases h
            · rename_i hpar
              have hpar' : (s.params.length != args) = false := by simpa using hpar
              rw [hpar'] at hd
              simp only [Bool.false_eq_true, if_false] at hd
              cases hs : loadStmts b fuel includes s.stmts (.mk newPath s.name pfx [] [] [] [] [] []) anon with
              | error e => rw [hs] at h; cases h
              | ok y =>
                obtain ⟨st, a1⟩ := y
                rw [hs] at h
                simp only at h
                obtain ⟨d1, sa, hds, ht⟩ :=
                  sys_tables_agree compAccept b hbc fuel includes s.stmts newPath s.name pfx anon st a1 hs
                have hloop := stmts_satEq b hbc fuel ih includes s.stmts (.mk newPath s.name pfx [] [] [] [] [] []) st
                  anon a1 Design.empty {} d1 sa a1 hs hds SatEq.empty
                rw [hds] at hd
                simp only at hd
                split at h
                · cases h
                · split at hd
                  · cases hd
                  · obtain ⟨p, n, pf, t, sg, l, c, i, o⟩ := st
                    simp only [Except.ok.injEq, Prod.mk.injEq] at h hd
                    obtain ⟨rfl, rfl⟩ := h
                    obtain ⟨rfl, _, _⟩ := hd
                    obtain ⟨hpf, hnd, hreg⟩ := loaded_sys hL
                    simp only [SysSt.pfx, SysSt.lengths, SysSt.signals] at hpf hnd hreg ht
                    subst hpf
                    rw [sigDesign_eq ht hnd]
                    simp only [Des.designOf, LoadInv.blocksInst_sys]
                    rw [designOfBlocks_append]
                    exact SatEq.append hloop (sigBlocks_satEq pf l sg hreg)

/-- **M2 for instance trees** (`tree_sat_iff`): for every bundle whose sources satisfy the names-only hypotheses
    of C02 (`bundleNamesOk`) and every tree `load_file` returns for it, the specification `denoteFile` accepts the
    same sources with the same anonymous-sequence counter, and for every code table the design of the object
    tables has exactly the solutions of the design the sources denote -/
theorem tree_sat_iff {b : Bundle} (hb : bundleNamesOk b = true) {fuel : Nat} {base : String} {args : Nat}
    {argKey pfx path : String} {includes : List String} {anon : Nat} {inst : Inst} {a' : Nat}
    (h : loadFile b fuel base args argKey pfx path includes anon = .ok (inst, a')) :
    ∃ d ports, Denote.denoteFile b fuel base args argKey pfx path includes anon = .ok (d, ports, a') ∧
      ∀ (tbl : CodeTable) (asg : Var → LinkSpec.Base),
        Des.Sat tbl (Des.designOf inst) asg ↔ Des.Sat tbl d asg := by
  have hb' := bundleOk_tableOfBundle hb
  obtain ⟨d, ports, hd, _⟩ := wiring_agrees compAccept b (bundleOk_comps hb') fuel _ _ _ _ _ _ _ _ _ h
  exact ⟨d, ports, hd, fun tbl asg => (tree_satEq _ b hb' fuel _ _ _ _ _ _ _ _ _ _ _ _ h hd).sat tbl asg⟩

/-! ### the hypotheses of C03 as one decidable predicate -/

/-- every component source of the bundle has `UserNamesOk` and `PortsDistinct`; every system source has
    `sysNamesOk` (C02) and `SysNamesOk` (C03, M1) -/
def desBundleOk (b : Bundle) : Bool :=
  b.files.all (fun kf => match kf.2 with
    | .comp c => UserNamesOk c && LoadInv.PortsDistinct c
    | .sys s => sysNamesOk s && LoadInv.SysNamesOk s)

theorem desBundleOk_names {b : Bundle} (h : desBundleOk b = true) : LoadInv.DesNamesOk b := by
  simp only [desBundleOk, List.all_eq_true] at h
  refine ⟨fun k c hl => ?_, fun k s hl => ?_⟩
  · have := h _ (SysProofs.lookup_mem hl)
    simp only [Bool.and_eq_true] at this
    exact ⟨LoadInv.stmtNamesOk_of_user this.1, this.2⟩
  · have := h _ (SysProofs.lookup_mem hl)
    simp only [Bool.and_eq_true] at this
    exact this.2

theorem desBundleOk_bundle {b : Bundle} (h : desBundleOk b = true) : bundleNamesOk b = true := by
  simp only [desBundleOk, List.all_eq_true] at h
  simp only [bundleNamesOk, List.all_eq_true]
  intro kf hkf
  have := h kf hkf
  cases hk : kf.2 with
  | comp c => rw [hk] at this; simp only [Bool.and_eq_true] at this; exact this.1
  | sys s => rw [hk] at this; simp only [Bool.and_eq_true] at this; exact this.1

end Pepper.DesSys
