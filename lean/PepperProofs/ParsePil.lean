import PepperModel.ParsePil
import PepperModel.Emit
/-!
# Lemmas about the PIL text reader model (`PepperModel/ParsePil.lean`)

Scanner lemmas (`words`, `strip`, `nameEq`, `seqBody`, `bodyColon`, `splitOnPlus`), one lemma per emitted line shape
(`parseLine_seq`, …), documents (`splitLines`, `parseLines_append`), and the round trip for `Comp.emitPil` /
`Sys.emitPilInst`.
-/
namespace Pepper.ParsePil
open Pepper

/-! ### characters -/

theorem isWs_iff (c : Char) : isWs c = true ↔
    c = ' ' ∨ c = '\t' ∨ c = '\n' ∨ c = '\x0b' ∨ c = '\x0c' ∨ c = '\r' ∨ c = '\x1c' ∨ c = '\x1d' ∨ c = '\x1e' ∨ c = '\x1f' := by
  simp only [isWs, Bool.or_eq_true, beq_iff_eq, or_assoc]

theorem nameChar_not_ws {c : Char} (h : isNameChar c = true) : isWs c = false := by
  cases hw : isWs c with
  | false => rfl
  | true =>
    rw [isWs_iff] at hw
    rcases hw with rfl | rfl | rfl | rfl | rfl | rfl | rfl | rfl | rfl | rfl <;> revert h <;> decide

theorem paramChar_not_ws {c : Char} (h : isParamChar c = true) : isWs c = false := by
  cases hw : isWs c with
  | false => rfl
  | true =>
    rw [isWs_iff] at hw
    rcases hw with rfl | rfl | rfl | rfl | rfl | rfl | rfl | rfl | rfl | rfl <;> revert h <;> decide

/-! ### `words` -/
/-- no white space in `l` -/
def NoWs (l : List Char) : Prop := ∀ c ∈ l, isWs c = false

instance (l : List Char) : Decidable (NoWs l) := inferInstanceAs (Decidable (∀ c ∈ l, isWs c = false))

theorem words_cons (c : Char) (r : List Char) :
    words (c :: r) = if isWs c then words r else consWord c r (words r) := rfl

theorem words_ws_cons {c : Char} (h : isWs c = true) (r : List Char) : words (c :: r) = words r := by
  rw [words_cons, if_pos h]

theorem consWord_nil (c : Char) (ws : List (List Char)) : consWord c [] ws = [c] :: ws := by
  cases ws <;> rfl

theorem consWord_ws {c d : Char} (hd : isWs d = true) (r : List Char) (ws : List (List Char)) :
    consWord c (d :: r) ws = [c] :: ws := by
  cases ws with
  | nil => rfl
  | cons w ws' => simp [consWord, hd]

theorem consWord_nws {c d : Char} (hd : isWs d = false) (r : List Char) (w : List Char) (ws : List (List Char)) :
    consWord c (d :: r) (w :: ws) = (c :: w) :: ws := by
  simp [consWord, hd]

theorem consWord_head (c d : Char) (r r' : List Char) (ws : List (List Char)) :
    consWord c (d :: r) ws = consWord c (d :: r') ws := by
  cases ws <;> rfl

/-- a white-space-free non-empty token followed by white space (or the end) is the first word -/
theorem words_tok : ∀ (w : List Char), w ≠ [] → NoWs w → ∀ (r : List Char), (∀ d r', r = d :: r' → isWs d = true) →
    words (w ++ r) = w :: words r
  | [], h, _, _, _ => absurd rfl h
  | [c], _, hw, r, hr => by
    have hc : isWs c = false := hw c (by simp)
    show words (c :: r) = _
    rw [words_cons, hc]
    cases r with
    | nil => rfl
    | cons d r' =>
      have hd := hr d r' rfl
      simp only [Bool.false_eq_true, if_false, consWord_ws hd]
  | c :: c' :: w', _, hw, r, hr => by
    have hc : isWs c = false := hw c (by simp)
    have hc' : isWs c' = false := hw c' (by simp)
    have ih := words_tok (c' :: w') (by simp) (fun x hx => hw x (List.mem_cons_of_mem _ hx)) r hr
    show words (c :: ((c' :: w') ++ r)) = _
    rw [words_cons, hc, ih]
    simp only [Bool.false_eq_true, if_false]
    exact consWord_nws hc' _ _ _

theorem words_nil_of_ws : ∀ (l : List Char), (∀ c ∈ l, isWs c = true) → words l = []
  | [], _ => rfl
  | c :: r, h => by
    rw [words_ws_cons (h c (by simp))]
    exact words_nil_of_ws r (fun x hx => h x (List.mem_cons_of_mem _ hx))

theorem words_append_ws (l : List Char) {c : Char} (hc : isWs c = true) : words (l ++ [c]) = words l := by
  induction l with
  | nil => simp [words, hc]
  | cons a r ih =>
    show words (a :: (r ++ [c])) = words (a :: r)
    rw [words_cons, words_cons, ih]
    cases r with
    | nil => simp [consWord_nil, consWord_ws hc, words]
    | cons d r' => rw [show d :: r' ++ [c] = d :: (r' ++ [c]) from rfl, consWord_head a d (r' ++ [c]) r']


/-! ### `strip` -/

theorem rstrip_eq_self {l : List Char} (h : ∀ c, l.getLast? = some c → isWs c = false) : rstrip l = l := by
  unfold rstrip
  cases hr : l.reverse with
  | nil => simp at hr; simp [hr]
  | cons c r =>
    have hl : l.getLast? = some c := by
      rw [List.getLast?_eq_head?_reverse, hr]; rfl
    have hc := h c hl
    rw [List.dropWhile_cons_of_neg (by simp [hc]), ← hr, List.reverse_reverse]

theorem rstrip_append_ws (l : List Char) {c : Char} (hc : isWs c = true) : rstrip (l ++ [c]) = rstrip l := by
  unfold rstrip
  simp [List.reverse_append, hc]

theorem words_rstrip (l : List Char) : words (rstrip l) = words l := by
  unfold rstrip
  rw [← List.reverse_reverse l]
  generalize l.reverse = m
  rw [List.reverse_reverse]
  induction m with
  | nil => rfl
  | cons c r ih =>
    by_cases hc : isWs c = true
    · rw [List.dropWhile_cons_of_pos hc, ih, List.reverse_cons, words_append_ws _ hc]
    · rw [List.dropWhile_cons_of_neg hc]

theorem dropWhile_ws_eq_self {l : List Char} (h : ∀ c, l.head? = some c → isWs c = false) : l.dropWhile isWs = l := by
  cases l with
  | nil => rfl
  | cons c r => exact List.dropWhile_cons_of_neg (by simp [h c rfl])

/-- a line that starts with a non-space and has no `#`: cleaning is `rstrip`, whether or not it was terminated -/
theorem cleanLine_eq {l : List Char} (hh : ∀ c, l.head? = some c → isWs c = false) (hc : ∀ c ∈ l, c ≠ '#') (t : Bool) :
    cleanLine l t = rstrip l := by
  have ht : l.takeWhile (· != '#') = l := by
    have := List.takeWhile_append_of_pos (p := (· != '#')) (l₁ := l) (l₂ := []) (fun c hcm => by simpa using hc c hcm)
    simpa using this
  unfold cleanLine strip
  cases t
  · simp only [Bool.false_eq_true, if_false, dropWhile_ws_eq_self hh]
  · simp only [if_true, ht, dropWhile_ws_eq_self hh]

/-! ### scanners -/

theorem ws1_space (r : List Char) (h : ∀ c, r.head? = some c → isWs c = false) : ws1 (' ' :: r) = some r := by
  show (if isWs ' ' = true then some (r.dropWhile isWs) else none) = some r
  rw [if_pos (by decide), dropWhile_ws_eq_self h]

theorem head_append_ne {a : List Char} (h : a ≠ []) (b : List Char) : (a ++ b).head? = a.head? := by
  cases a with
  | nil => exact absurd rfl h
  | cons c r => rfl

theorem takeWhile_append_stop {p : Char → Bool} {a : List Char} (ha : ∀ c ∈ a, p c = true) {d : Char} (hd : p d = false)
    (r : List Char) : (a ++ d :: r).takeWhile p = a := by
  rw [List.takeWhile_append_of_pos ha, List.takeWhile_cons_of_neg (by simp [hd]), List.append_nil]

theorem dropWhile_append_stop {p : Char → Bool} {a : List Char} (ha : ∀ c ∈ a, p c = true) {d : Char} (hd : p d = false)
    (r : List Char) : (a ++ d :: r).dropWhile p = d :: r := by
  rw [List.dropWhile_append_of_pos ha, List.dropWhile_cons_of_neg (by simp [hd])]

/-- `\s+([\w-]+)\s+=` on ` NAME =` -/
theorem nameEq_spec {nm : List Char} (hne : nm ≠ []) (hnm : ∀ c ∈ nm, isNameChar c = true) (r : List Char) :
    nameEq (' ' :: (nm ++ ' ' :: '=' :: r)) = some (str nm, r) := by
  have hh : ∀ c, (nm ++ ' ' :: '=' :: r).head? = some c → isWs c = false := by
    intro c hc
    rw [head_append_ne hne] at hc
    cases nm with
    | nil => exact absurd rfl hne
    | cons a t => cases hc; exact nameChar_not_ws (hnm _ (by simp))
  unfold nameEq
  rw [ws1_space _ hh]
  simp only [takeWhile_append_stop hnm (show isNameChar ' ' = false by decide),
    dropWhile_append_stop hnm (show isNameChar ' ' = false by decide)]
  rw [ws1_space _ (by intro c hc; cases hc; decide)]
  cases nm with
  | nil => exact absurd rfl hne
  | cons a t => rfl

theorem colonTail_spec (n : List Char) : colonTail (' ' :: ':' :: ' ' :: n) = true := by
  unfold colonTail
  rw [ws1_space _ (by intro c hc; cases hc; decide)]
  show isWs ' ' = true
  decide

/-- the template of `sequence N = TEMPLATE : len` (also when the template is empty: two blanks) -/
theorem seqBody_spec {tm : List Char} (htm : ∀ c ∈ tm, (c != ':' && !isWs c) = true) (n : List Char) :
    seqBody (' ' :: (tm ++ ' ' :: ':' :: ' ' :: n)) = some tm := by
  cases tm with
  | nil =>
    simp only [List.nil_append, seqBody]
    have h1 : (' ' :: ' ' :: ':' :: ' ' :: n).takeWhile isWs = [' ', ' '] := by
      simp [show isWs ' ' = true by decide, show isWs ':' = false by decide]
    have h2 : (' ' :: ' ' :: ':' :: ' ' :: n).dropWhile isWs = ':' :: ' ' :: n := by
      simp [show isWs ' ' = true by decide, show isWs ':' = false by decide]
    simp only [h1, h2]
    simp [show isWs ' ' = true by decide]
  | cons a t =>
    have ha : isWs a = false := by
      have := htm a (by simp); simp only [Bool.and_eq_true, Bool.not_eq_true'] at this; exact this.2
    have hP : (fun c => c != ':' && !isWs c) ' ' = false := by decide
    unfold seqBody
    have h1 : (' ' :: (a :: t ++ ' ' :: ':' :: ' ' :: n)).takeWhile isWs = [' '] := by
      simp [show isWs ' ' = true by decide, ha]
    have h2 : (' ' :: (a :: t ++ ' ' :: ':' :: ' ' :: n)).dropWhile isWs = a :: t ++ ' ' :: ':' :: ' ' :: n := by
      simp [show isWs ' ' = true by decide, ha]
    simp only [h1, h2, takeWhile_append_stop htm hP, dropWhile_append_stop htm hP, colonTail_spec]
    simp

/-- `= ITEMS : rest` for super-sequences, strands (`m = false`) and structures (`m = true`) -/
theorem bodyColon_spec (m : Bool) {body : List Char} (hb : ∀ c ∈ body, c ≠ ':') (n : List Char) :
    bodyColon m (' ' :: (body ++ ' ' :: ':' :: ' ' :: n)) = some (' ' :: (body ++ [' ']), n.dropWhile isWs) := by
  have hpre : ∀ c ∈ ' ' :: (body ++ [' ']), (c != ':') = true := by
    intro c hc
    simp only [List.mem_cons, List.mem_append, List.mem_nil_iff, or_false] at hc
    rcases hc with rfl | hc | rfl
    · decide
    · simpa using hb c hc
    · decide
  have hsplit : ' ' :: (body ++ ' ' :: ':' :: ' ' :: n) = (' ' :: (body ++ [' '])) ++ ':' :: ' ' :: n := by simp
  have h1 : (' ' :: (body ++ ' ' :: ':' :: ' ' :: n)).takeWhile (· != ':') = ' ' :: (body ++ [' ']) := by
    rw [hsplit]; exact takeWhile_append_stop hpre (by decide) _
  have h2 : (' ' :: (body ++ ' ' :: ':' :: ' ' :: n)).dropWhile (· != ':') = ':' :: ' ' :: n := by
    rw [hsplit]; exact dropWhile_append_stop hpre (by decide) _
  have h3 : ∃ x y, (' ' :: (body ++ [' '])).reverse = ' ' :: x :: y := by
    cases hr : body.reverse with
    | nil => exact ⟨' ', [], by simp [hr]⟩
    | cons a r => exact ⟨a, r ++ [' '], by simp [hr]⟩
  obtain ⟨x, y, h3⟩ := h3
  unfold bodyColon
  simp only [h1, h2, h3]
  simp [show isWs ' ' = true by decide]

/-! ### joined lists -/

/-- `Comp.joinWith` on character lists -/
def joinL (sep : List Char) : List (List Char) → List Char
  | [] => []
  | [a] => a
  | a :: b :: r => a ++ sep ++ joinL sep (b :: r)

theorem joinWith_toList (sep : String) : ∀ (l : List String),
    (Comp.joinWith sep l).toList = joinL sep.toList (l.map String.toList)
  | [] => rfl
  | [a] => rfl
  | a :: b :: r => by
    simp only [Comp.joinWith, String.toList_append, List.map_cons, joinL]
    rw [← List.map_cons, ← joinWith_toList sep (b :: r)]

theorem words_joinL : ∀ (toks : List (List Char)), (∀ t ∈ toks, t ≠ [] ∧ NoWs t) → words (joinL [' '] toks) = toks
  | [], _ => rfl
  | [a], h => by
    have := words_tok a (h a (by simp)).1 (h a (by simp)).2 [] (by intro d r' hr; cases hr)
    simpa [joinL, words] using this
  | a :: b :: r, h => by
    have ih := words_joinL (b :: r) (fun t ht => h t (List.mem_cons_of_mem _ ht))
    show words (a ++ [' '] ++ joinL [' '] (b :: r)) = _
    rw [List.append_assoc, List.singleton_append,
      words_tok a (h a (by simp)).1 (h a (by simp)).2 _ (by intro d r' hr; cases hr; decide),
      words_ws_cons (by decide), ih]

/-- the item list of an emitted super-sequence / strand line reads back -/
theorem words_pad_joinL (toks : List (List Char)) (h : ∀ t ∈ toks, t ≠ [] ∧ NoWs t) :
    words (' ' :: (joinL [' '] toks ++ [' '])) = toks := by
  rw [words_ws_cons (by decide), words_append_ws _ (by decide), words_joinL toks h]

theorem strip_pad {x : List Char} (hx : NoWs x) : strip (' ' :: (x ++ [' '])) = x := by
  unfold strip
  rw [List.dropWhile_cons_of_pos (by decide)]
  cases x with
  | nil => decide
  | cons a t =>
    have ha : isWs a = false := hx a (by simp)
    rw [show (a :: t ++ [' ']) = a :: (t ++ [' ']) from rfl, List.dropWhile_cons_of_neg (by simp [ha]),
      show a :: (t ++ [' ']) = (a :: t) ++ [' '] from rfl, rstrip_append_ws _ (by decide)]
    apply rstrip_eq_self
    intro c hc
    exact hx c (List.mem_of_getLast? hc)

theorem splitOnPlus_cons (c : Char) (r : List Char) : splitOnPlus (c :: r) =
    match splitOnPlus r with
    | [] => [[]]
    | h :: t => if c == '+' then [] :: h :: t else (c :: h) :: t := rfl

theorem splitOnPlus_ne_nil : ∀ (b : List Char), splitOnPlus b ≠ []
  | [] => by simp [splitOnPlus]
  | c :: r => by
    rw [splitOnPlus_cons]
    cases splitOnPlus r with
    | nil => simp
    | cons h t => by_cases hc : (c == '+') = true <;> simp [hc]

theorem splitOnPlus_noPlus : ∀ (a : List Char), (∀ c ∈ a, c ≠ '+') → splitOnPlus a = [a]
  | [], _ => rfl
  | c :: r, h => by
    have ih := splitOnPlus_noPlus r (fun x hx => h x (List.mem_cons_of_mem _ hx))
    have hc : (c == '+') = false := by simpa using h c (by simp)
    rw [splitOnPlus_cons, ih]
    simp [hc]

theorem splitOnPlus_append_plus : ∀ (a : List Char), (∀ c ∈ a, c ≠ '+') → ∀ (b : List Char),
    splitOnPlus (a ++ '+' :: b) = a :: splitOnPlus b
  | [], _, b => by
    show splitOnPlus ('+' :: b) = _
    rw [splitOnPlus_cons]
    cases h : splitOnPlus b with
    | nil => exact absurd h (splitOnPlus_ne_nil b)
    | cons x y => simp
  | c :: r, h, b => by
    have ih := splitOnPlus_append_plus r (fun x hx => h x (List.mem_cons_of_mem _ hx)) b
    have hc : (c == '+') = false := by simpa using h c (by simp)
    show splitOnPlus (c :: (r ++ '+' :: b)) = _
    rw [splitOnPlus_cons, ih]
    simp [hc]

/-- the strand list of an emitted structure line reads back -/
theorem splitOnPlus_pad_joinL : ∀ (names : List (List Char)), names ≠ [] → (∀ t ∈ names, NoWs t ∧ ∀ c ∈ t, c ≠ '+') →
    (splitOnPlus (' ' :: (joinL [' ', '+', ' '] names ++ [' ']))).map strip = names
  | [], h, _ => absurd rfl h
  | [x], _, h => by
    have hx := h x (by simp)
    have hp : ∀ c ∈ ' ' :: (x ++ [' ']), c ≠ '+' := by
      intro c hc
      simp only [List.mem_cons, List.mem_append, List.mem_nil_iff, or_false] at hc
      rcases hc with rfl | hc | rfl
      · decide
      · exact hx.2 c hc
      · decide
    simp only [joinL, splitOnPlus_noPlus _ hp, List.map_cons, List.map_nil, strip_pad hx.1]
  | x :: y :: r, _, h => by
    have hx := h x (by simp)
    have ih := splitOnPlus_pad_joinL (y :: r) (by simp) (fun t ht => h t (List.mem_cons_of_mem _ ht))
    have hp : ∀ c ∈ ' ' :: (x ++ [' ']), c ≠ '+' := by
      intro c hc
      simp only [List.mem_cons, List.mem_append, List.mem_nil_iff, or_false] at hc
      rcases hc with rfl | hc | rfl
      · decide
      · exact hx.2 c hc
      · decide
    have hs : ' ' :: (joinL [' ', '+', ' '] (x :: y :: r) ++ [' ']) =
        (' ' :: (x ++ [' '])) ++ '+' :: (' ' :: (joinL [' ', '+', ' '] (y :: r) ++ [' '])) := by
      simp [joinL]
    rw [hs, splitOnPlus_append_plus _ hp, List.map_cons, ih, strip_pad hx.1]

/-! ### keyword dispatch -/

theorem parseLine_kw (tbl : CodeTable) {kw : List Char} (hk : kw ≠ []) (hkw : NoWs kw) (rest : List Char) :
    parseLine tbl (kw ++ ' ' :: rest) =
      (if kw == "sequence".toList then (parseSeq tbl (' ' :: rest)).map some
       else if kw == "super-sequence".toList || kw == "sup-sequence".toList then (parseSup (' ' :: rest)).map some
       else if kw == "strand".toList then (parseStrand (' ' :: rest)).map some
       else if kw == "structure".toList then (parseStruct (' ' :: rest)).map some
       else if kw == "equal".toList then .ok (some (.equal ((words rest).map str)))
       else if kw == "kinetic".toList then .ok none
       else .error .command) := by
  unfold parseLine
  rw [words_tok kw hk hkw _ (by intro d r' hr; cases hr; decide), words_ws_cons (by decide)]
  simp only [List.drop_left, List.drop_succ_cons, List.drop_zero]

theorem parseLine_sequence (tbl : CodeTable) (rest : List Char) :
    parseLine tbl ("sequence".toList ++ ' ' :: rest) = (parseSeq tbl (' ' :: rest)).map some := by
  rw [parseLine_kw tbl (by decide) (by decide)]; rfl

theorem parseLine_sup (tbl : CodeTable) (rest : List Char) :
    parseLine tbl ("sup-sequence".toList ++ ' ' :: rest) = (parseSup (' ' :: rest)).map some := by
  rw [parseLine_kw tbl (by decide) (by decide)]; rfl

theorem parseLine_strand (tbl : CodeTable) (rest : List Char) :
    parseLine tbl ("strand".toList ++ ' ' :: rest) = (parseStrand (' ' :: rest)).map some := by
  rw [parseLine_kw tbl (by decide) (by decide)]; rfl

theorem parseLine_structure (tbl : CodeTable) (rest : List Char) :
    parseLine tbl ("structure".toList ++ ' ' :: rest) = (parseStruct (' ' :: rest)).map some := by
  rw [parseLine_kw tbl (by decide) (by decide)]; rfl

theorem parseLine_equal (tbl : CodeTable) (rest : List Char) :
    parseLine tbl ("equal".toList ++ ' ' :: rest) = .ok (some (.equal ((words rest).map str))) := by
  rw [parseLine_kw tbl (by decide) (by decide)]; rfl

theorem parseLine_kinetic (tbl : CodeTable) (rest : List Char) :
    parseLine tbl ("kinetic".toList ++ ' ' :: rest) = .ok none := by
  rw [parseLine_kw tbl (by decide) (by decide)]; rfl

/-! ### documents -/

/-- characters that neither end a line nor start a comment -/
def SafeL (l : List Char) : Prop := ∀ c ∈ l, c ≠ '#' ∧ c ≠ '\n' ∧ c ≠ '\r'

instance (l : List Char) : Decidable (SafeL l) := inferInstanceAs (Decidable (∀ c ∈ l, _))

theorem safeL_append {a b : List Char} : SafeL (a ++ b) ↔ SafeL a ∧ SafeL b := by
  simp only [SafeL, List.mem_append]
  exact ⟨fun h => ⟨fun c hc => h c (Or.inl hc), fun c hc => h c (Or.inr hc)⟩,
    fun h c hc => hc.elim (h.1 c) (h.2 c)⟩

theorem safeL_cons {c : Char} {b : List Char} : SafeL (c :: b) ↔ (c ≠ '#' ∧ c ≠ '\n' ∧ c ≠ '\r') ∧ SafeL b := by
  simp only [SafeL, List.mem_cons, forall_eq_or_imp]

theorem safeL_nil : SafeL [] := fun _ h => nomatch h

theorem uniNl_id : ∀ (l : List Char), (∀ c ∈ l, c ≠ '\r') → uniNl l = l
  | [], _ => rfl
  | c :: r, h => by
    have hc : c ≠ '\r' := h c (by simp)
    have ih := uniNl_id r (fun x hx => h x (List.mem_cons_of_mem _ hx))
    have : uniNl (c :: r) = c :: uniNl r := by
      rw [uniNl.eq_def]
      split <;> simp_all
    rw [this, ih]

theorem splitLines_cons (c : Char) (r : List Char) : splitLines (c :: r) =
    if c == '\n' then ([], true) :: splitLines r
    else match splitLines r with
      | [] => [([c], false)]
      | (l, t) :: rest => (c :: l, t) :: rest := rfl

theorem splitLines_append_nl : ∀ (a : List Char), (∀ c ∈ a, c ≠ '\n') → ∀ (r : List Char),
    splitLines (a ++ '\n' :: r) = (a, true) :: splitLines r
  | [], _, r => by simp [splitLines_cons]
  | c :: a, h, r => by
    have hc : (c == '\n') = false := by simpa using h c (by simp)
    rw [List.cons_append, splitLines_cons, hc, splitLines_append_nl a (fun x hx => h x (List.mem_cons_of_mem _ hx)) r]
    rfl

theorem splitLines_noNl : ∀ (a : List Char), (∀ c ∈ a, c ≠ '\n') → a ≠ [] → splitLines a = [(a, false)]
  | [], _, h => absurd rfl h
  | [c], h, _ => by
    have hc : (c == '\n') = false := by simpa using h c (by simp)
    rw [splitLines_cons, hc]; rfl
  | c :: d :: a, h, _ => by
    have hc : (c == '\n') = false := by simpa using h c (by simp)
    rw [splitLines_cons, hc, splitLines_noNl (d :: a) (fun x hx => h x (List.mem_cons_of_mem _ hx)) (by simp)]
    rfl

theorem parseLines_cons (tbl : CodeTable) (l : List Char) (t : Bool) (r : List (List Char × Bool)) :
    parseLines tbl ((l, t) :: r) =
      if (cleanLine l t).isEmpty then parseLines tbl r
      else match parseLine tbl (cleanLine l t) with
        | .error e => .error e
        | .ok none => parseLines tbl r
        | .ok (some s) => match parseLines tbl r with
          | .ok ss => .ok (s :: ss)
          | .error e => .error e := rfl

/-- what one line contributes -/
def lineRes (tbl : CodeTable) (l : List Char) (t : Bool) : Except Err (List Pil.Stmt) :=
  if (cleanLine l t).isEmpty then .ok []
  else match parseLine tbl (cleanLine l t) with
    | .error e => .error e
    | .ok none => .ok []
    | .ok (some s) => .ok [s]

theorem parseLines_cons_ok (tbl : CodeTable) {l : List Char} {t : Bool} {x : List Pil.Stmt}
    (h : lineRes tbl l t = .ok x) (r : List (List Char × Bool)) :
    parseLines tbl ((l, t) :: r) = (parseLines tbl r).map (x ++ ·) := by
  rw [parseLines_cons]
  unfold lineRes at h
  by_cases he : (cleanLine l t).isEmpty = true
  · rw [if_pos he] at h ⊢
    cases h
    cases parseLines tbl r <;> rfl
  · rw [if_neg he] at h ⊢
    cases hp : parseLine tbl (cleanLine l t) with
    | error e => rw [hp] at h; cases h
    | ok o =>
      rw [hp] at h
      cases o with
      | none => cases h; cases parseLines tbl r <;> rfl
      | some s => cases h; cases parseLines tbl r <;> rfl

theorem parseLines_append_ok (tbl : CodeTable) : ∀ (a : List (List Char × Bool)) {x : List Pil.Stmt},
    parseLines tbl a = .ok x → ∀ (b : List (List Char × Bool)),
    parseLines tbl (a ++ b) = (parseLines tbl b).map (x ++ ·)
  | [], x, h, b => by
    cases h
    rw [List.nil_append]
    cases parseLines tbl b <;> rfl
  | (l, t) :: a, x, h, b => by
    rw [parseLines_cons] at h
    rw [List.cons_append, parseLines_cons]
    by_cases he : (cleanLine l t).isEmpty = true
    · rw [if_pos he] at h ⊢
      exact parseLines_append_ok tbl a h b
    · rw [if_neg he] at h ⊢
      cases hp : parseLine tbl (cleanLine l t) with
      | error e => rw [hp] at h; cases h
      | ok o =>
        rw [hp] at h
        cases o with
        | none => exact parseLines_append_ok tbl a h b
        | some s =>
          simp only [] at h ⊢
          cases ha : parseLines tbl a with
          | error e => rw [ha] at h; cases h
          | ok ss =>
            rw [ha] at h; cases h
            rw [parseLines_append_ok tbl a ha b]
            cases parseLines tbl b <;> rfl

/-- the lines `ls` (all newline-terminated) read as the statements `ss` -/
def Reads (tbl : CodeTable) (ls : List (List Char)) (ss : List Pil.Stmt) : Prop :=
  parseLines tbl (ls.map (·, true)) = .ok ss

theorem Reads.nil (tbl : CodeTable) : Reads tbl [] [] := rfl

theorem Reads.append {tbl : CodeTable} {a b : List (List Char)} {x y : List Pil.Stmt}
    (ha : Reads tbl a x) (hb : Reads tbl b y) : Reads tbl (a ++ b) (x ++ y) := by
  unfold Reads at *
  rw [List.map_append, parseLines_append_ok tbl _ ha, hb]; rfl

theorem Reads.cons {tbl : CodeTable} {l : List Char} {x : List Pil.Stmt} (h : lineRes tbl l true = .ok x)
    {b : List (List Char)} {y : List Pil.Stmt} (hb : Reads tbl b y) : Reads tbl (l :: b) (x ++ y) := by
  unfold Reads at *
  rw [List.map_cons, parseLines_cons_ok tbl h, hb]; rfl

theorem Reads.map1 {tbl : CodeTable} {α : Type} (f : α → List Char) (g : α → Pil.Stmt) :
    ∀ (L : List α), (∀ e ∈ L, lineRes tbl (f e) true = .ok [g e]) → Reads tbl (L.map f) (L.map g)
  | [], _ => Reads.nil tbl
  | e :: L, h => by
    have := Reads.cons (h e (by simp)) (Reads.map1 f g L (fun x hx => h x (List.mem_cons_of_mem _ hx)))
    simpa using this

theorem Reads.map0 {tbl : CodeTable} {α : Type} (f : α → List Char) :
    ∀ (L : List α), (∀ e ∈ L, lineRes tbl (f e) true = .ok []) → Reads tbl (L.map f) []
  | [], _ => Reads.nil tbl
  | e :: L, h => by
    have := Reads.cons (h e (by simp)) (Reads.map0 f L (fun x hx => h x (List.mem_cons_of_mem _ hx)))
    simpa using this

theorem Reads.flatMap {tbl : CodeTable} {α : Type} (f : α → List (List Char)) (g : α → List Pil.Stmt) :
    ∀ (L : List α), (∀ e ∈ L, Reads tbl (f e) (g e)) → Reads tbl (L.flatMap f) (L.flatMap g)
  | [], _ => Reads.nil tbl
  | e :: L, h => by
    have := Reads.append (h e (by simp)) (Reads.flatMap f g L (fun x hx => h x (List.mem_cons_of_mem _ hx)))
    simpa using this

theorem cleanLine_flag {l : List Char} (h : ∀ c ∈ l, c ≠ '#') (t : Bool) : cleanLine l t = cleanLine l true := by
  cases t
  · have ht : l.takeWhile (· != '#') = l := by
      have := List.takeWhile_append_of_pos (p := (· != '#')) (l₁ := l) (l₂ := []) (fun c hcm => by simpa using h c hcm)
      simpa using this
    simp [cleanLine, ht]
  · rfl

/-- **documents.**  For lines without `#`, `\n`, `\r`: the document made of the lines joined by `\n` (the last line
    unterminated) reads as the lines one by one -/
theorem parseLines_intercalate (tbl : CodeTable) : ∀ (ls : List (List Char)), (∀ l ∈ ls, SafeL l) →
    parseLines tbl (splitLines (['\n'].intercalate ls)) = parseLines tbl (ls.map (·, true))
  | [], _ => rfl
  | [a], h => by
    have ha := h a (by simp)
    rw [List.intercalate_singleton]
    by_cases he : a = []
    · subst he; rfl
    · rw [splitLines_noNl a (fun c hc => (ha c hc).2.1) he]
      simp only [List.map_cons, List.map_nil, parseLines_cons, cleanLine_flag (fun c hc => (ha c hc).1) false]
  | a :: b :: r, h => by
    have ha := h a (by simp)
    rw [List.intercalate_cons_cons, List.append_assoc, List.singleton_append,
      splitLines_append_nl a (fun c hc => (ha c hc).2.1), List.map_cons, parseLines_cons, parseLines_cons,
      parseLines_intercalate tbl (b :: r) (fun l hl => h l (List.mem_cons_of_mem _ hl))]

/-- the same with every line newline-terminated (the file as the compiler writes it) -/
theorem parseLines_unlines (tbl : CodeTable) : ∀ (ls : List (List Char)), (∀ l ∈ ls, ∀ c ∈ l, c ≠ '\n') →
    parseLines tbl (splitLines (ls.flatMap (· ++ ['\n']))) = parseLines tbl (ls.map (·, true))
  | [], _ => rfl
  | a :: r, h => by
    rw [List.flatMap_cons, List.append_assoc, List.singleton_append, splitLines_append_nl a (h a (by simp)),
      List.map_cons, parseLines_cons, parseLines_cons,
      parseLines_unlines tbl r (fun l hl => h l (List.mem_cons_of_mem _ hl))]

/-! ### cleaning an emitted line -/

theorem all_of_dropWhile_nil {p : Char → Bool} : ∀ (l : List Char), l.dropWhile p = [] → ∀ x ∈ l, p x = true
  | [], _, _, hx => nomatch hx
  | a :: r, h, x, hx => by
    by_cases ha : p a = true
    · rw [List.dropWhile_cons_of_pos ha] at h
      rcases List.mem_cons.mp hx with rfl | hx
      · exact ha
      · exact all_of_dropWhile_nil r h x hx
    · rw [List.dropWhile_cons_of_neg ha] at h; cases h

theorem rstrip_ne_nil {b : List Char} (h : ∃ c ∈ b, isWs c = false) : rstrip b ≠ [] := by
  obtain ⟨c, hc, hw⟩ := h
  unfold rstrip
  intro he
  have he' : b.reverse.dropWhile isWs = [] := by simpa using he
  have := all_of_dropWhile_nil _ he' c (by simpa using hc)
  rw [hw] at this; cases this

theorem rstrip_append_left (a : List Char) {b : List Char} (hb : rstrip b ≠ []) : rstrip (a ++ b) = a ++ rstrip b := by
  unfold rstrip at *
  rw [List.reverse_append, List.dropWhile_append]
  have : (b.reverse.dropWhile isWs).isEmpty = false := by
    cases h : b.reverse.dropWhile isWs with
    | nil => rw [h] at hb; exact absurd rfl hb
    | cons x y => rfl
  rw [this]
  simp

theorem mem_of_mem_rstrip {b : List Char} {c : Char} (h : c ∈ rstrip b) : c ∈ b := by
  unfold rstrip at h
  have := (List.dropWhile_sublist isWs).subset (List.mem_reverse.mp h)
  simpa using this

/-- an emitted line `KEYWORD rest`: cleaning only removes trailing white space of `rest` -/
theorem cleanLine_kw {kw X : List Char} (hk : kw ≠ []) (hkw : NoWs kw) (hs : SafeL (kw ++ ' ' :: X))
    (hne : ∃ c ∈ X, isWs c = false) (t : Bool) : cleanLine (kw ++ ' ' :: X) t = kw ++ ' ' :: rstrip X := by
  rw [cleanLine_eq _ (fun c hc => (hs c hc).1)]
  · have h1 : rstrip (' ' :: X) = ' ' :: rstrip X := rstrip_append_left [' '] (rstrip_ne_nil hne)
    have h2 : rstrip (kw ++ ' ' :: X) = kw ++ rstrip (' ' :: X) := rstrip_append_left kw (by rw [h1]; simp)
    rw [h2, h1]
  · intro c hc
    rw [head_append_ne hk] at hc
    cases kw with
    | nil => exact absurd rfl hk
    | cons a r => cases hc; exact hkw _ (by simp)

/-! ### the emitted line shapes -/

/-- a non-empty name over `[\\w-]` -/
def NameL (nm : List Char) : Prop := nm ≠ [] ∧ ∀ c ∈ nm, isNameChar c = true

instance (nm : List Char) : Decidable (NameL nm) := inferInstanceAs (Decidable (_ ∧ _))

/-- a non-empty digit string -/
def DigL (n : List Char) : Prop := n ≠ [] ∧ ∀ c ∈ n, c.isDigit = true

theorem nameChar_safe {c : Char} (h : isNameChar c = true) : c ≠ '#' ∧ c ≠ '\n' ∧ c ≠ '\r' := by
  refine ⟨?_, ?_, ?_⟩ <;> (rintro rfl; revert h; decide)

theorem paramChar_safe {c : Char} (h : isParamChar c = true) : c ≠ '#' ∧ c ≠ '\n' ∧ c ≠ '\r' := by
  refine ⟨?_, ?_, ?_⟩ <;> (rintro rfl; revert h; decide)

theorem digit_nameChar {c : Char} (h : c.isDigit = true) : isNameChar c = true := by
  simp [isNameChar, Char.isAlphanum, h]

theorem NameL.safe {nm : List Char} (h : NameL nm) : SafeL nm := fun c hc => nameChar_safe (h.2 c hc)
theorem NameL.noWs {nm : List Char} (h : NameL nm) : NoWs nm := fun c hc => nameChar_not_ws (h.2 c hc)
theorem DigL.name {n : List Char} (h : DigL n) : NameL n := ⟨h.1, fun c hc => digit_nameChar (h.2 c hc)⟩

theorem rstrip_append_tail (pre : List Char) {n : List Char} (hn : n ≠ []) (hnw : NoWs n) :
    rstrip (pre ++ n) = pre ++ n := by
  apply rstrip_eq_self
  intro c hc
  rw [List.getLast?_append] at hc
  cases hl : n.getLast? with
  | none => rw [List.getLast?_eq_none_iff] at hl; exact absurd hl hn
  | some d =>
    rw [hl] at hc
    cases hc
    exact hnw _ (List.mem_of_getLast? hl)

theorem exists_nonWs {n : List Char} (hn : n ≠ []) (hnw : NoWs n) (pre : List Char) :
    ∃ c ∈ pre ++ n, isWs c = false := by
  cases n with
  | nil => exact absurd rfl hn
  | cons a r => exact ⟨a, by simp, hnw a (by simp)⟩

theorem not_isEmpty_append_cons (a : List Char) (c : Char) (b : List Char) : ¬ (a ++ c :: b).isEmpty = true := by
  cases a <;> simp

/-- `sequence NAME = TEMPLATE : LEN` -/
def seqLine (nm tm n : List Char) : List Char :=
  "sequence".toList ++ ' ' :: (nm ++ ' ' :: '=' :: ' ' :: (tm ++ ' ' :: ':' :: ' ' :: n))

theorem lineRes_seq (tbl : CodeTable) {nm tm n : List Char} (hnm : NameL nm)
    (htm : ∀ c ∈ tm, tbl.isCode c = true ∧ c ≠ ':' ∧ isWs c = false ∧ c ≠ '#') (hn : DigL n) (t : Bool) :
    lineRes tbl (seqLine nm tm n) t = .ok [.seq (str nm) tm] ∧ SafeL (seqLine nm tm n) := by
  have hsafe : SafeL (seqLine nm tm n) := by
    unfold seqLine
    simp only [safeL_append, safeL_cons]
    refine ⟨by decide, by decide, hnm.safe, by decide, by decide, by decide, ?_, by decide, by decide, by decide, hn.name.safe⟩
    intro c hc
    obtain ⟨_, _, hw, hh⟩ := htm c hc
    refine ⟨hh, ?_, ?_⟩ <;> (rintro rfl; revert hw; decide)
  refine ⟨?_, hsafe⟩
  have hX : nm ++ ' ' :: '=' :: ' ' :: (tm ++ ' ' :: ':' :: ' ' :: n) =
      (nm ++ ' ' :: '=' :: ' ' :: (tm ++ [' ', ':', ' '])) ++ n := by simp
  unfold lineRes
  unfold seqLine at hsafe ⊢
  rw [cleanLine_kw (by decide) (by decide) hsafe (by rw [hX]; exact exists_nonWs hn.1 hn.name.noWs _),
    hX, rstrip_append_tail _ hn.1 hn.name.noWs, ← hX]
  rw [if_neg (not_isEmpty_append_cons _ _ _), parseLine_sequence]
  unfold parseSeq
  rw [nameEq_spec hnm.1 hnm.2]
  simp only []
  rw [seqBody_spec (fun c hc => by obtain ⟨_, h1, h2, _⟩ := htm c hc; simp [h1, h2])]
  simp only []
  rw [if_pos (by rw [List.all_eq_true]; exact fun c hc => (htm c hc).1)]
  rfl

/-- an item token: a name, possibly starred -/
def isTokChar (c : Char) : Bool := isNameChar c || c == '*'

def TokL (t : List Char) : Prop := t ≠ [] ∧ ∀ c ∈ t, isTokChar c = true

theorem tokChar_facts {c : Char} (h : isTokChar c = true) :
    isWs c = false ∧ c ≠ ':' ∧ c ≠ '+' ∧ c ≠ '#' ∧ c ≠ '\n' ∧ c ≠ '\r' := by
  simp only [isTokChar, Bool.or_eq_true, beq_iff_eq] at h
  rcases h with h | rfl
  · refine ⟨nameChar_not_ws h, ?_, ?_, ?_, ?_, ?_⟩ <;> (rintro rfl; revert h; decide)
  · decide

theorem NameL.tok {nm : List Char} (h : NameL nm) : TokL nm := ⟨h.1, fun c hc => by simp [isTokChar, h.2 c hc]⟩

theorem mem_joinL {sep : List Char} {c : Char} : ∀ {l : List (List Char)}, c ∈ joinL sep l → c ∈ sep ∨ ∃ t ∈ l, c ∈ t
  | [], h => nomatch h
  | [a], h => Or.inr ⟨a, by simp, h⟩
  | a :: b :: r, h => by
    simp only [joinL, List.mem_append] at h
    rcases h with (h | h) | h
    · exact Or.inr ⟨a, by simp, h⟩
    · exact Or.inl h
    · rcases mem_joinL h with h | ⟨t, ht, hc⟩
      · exact Or.inl h
      · exact Or.inr ⟨t, List.mem_cons_of_mem _ ht, hc⟩

/-- `sup-sequence NAME = ITEMS : LEN` -/
def supLine (nm : List Char) (toks : List (List Char)) (n : List Char) : List Char :=
  "sup-sequence".toList ++ ' ' :: (nm ++ ' ' :: '=' :: ' ' :: (joinL [' '] toks ++ ' ' :: ':' :: ' ' :: n))

theorem joinL_space_facts {toks : List (List Char)} (ht : ∀ t ∈ toks, TokL t) :
    (∀ c ∈ joinL [' '] toks, c ≠ ':') ∧ SafeL (joinL [' '] toks) := by
  constructor
  · intro c hc
    rcases mem_joinL hc with h | ⟨t, htm, hct⟩
    · simp only [List.mem_singleton] at h; subst h; decide
    · exact (tokChar_facts ((ht t htm).2 c hct)).2.1
  · intro c hc
    rcases mem_joinL hc with h | ⟨t, htm, hct⟩
    · simp only [List.mem_singleton] at h; subst h; decide
    · exact (tokChar_facts ((ht t htm).2 c hct)).2.2.2

theorem lineRes_sup (tbl : CodeTable) {nm : List Char} {toks : List (List Char)} {n : List Char} (hnm : NameL nm)
    (ht : ∀ t ∈ toks, TokL t) (hn : DigL n) (t : Bool) :
    lineRes tbl (supLine nm toks n) t = .ok [.sup (str nm) (toks.map str)] ∧ SafeL (supLine nm toks n) := by
  obtain ⟨hcolon, hjs⟩ := joinL_space_facts ht
  have hsafe : SafeL (supLine nm toks n) := by
    unfold supLine
    simp only [safeL_append, safeL_cons]
    exact ⟨by decide, by decide, hnm.safe, by decide, by decide, by decide, hjs, by decide, by decide, by decide,
      hn.name.safe⟩
  refine ⟨?_, hsafe⟩
  have hX : nm ++ ' ' :: '=' :: ' ' :: (joinL [' '] toks ++ ' ' :: ':' :: ' ' :: n) =
      (nm ++ ' ' :: '=' :: ' ' :: (joinL [' '] toks ++ [' ', ':', ' '])) ++ n := by simp
  unfold lineRes
  unfold supLine at hsafe ⊢
  rw [cleanLine_kw (by decide) (by decide) hsafe (by rw [hX]; exact exists_nonWs hn.1 hn.name.noWs _),
    hX, rstrip_append_tail _ hn.1 hn.name.noWs, ← hX]
  rw [if_neg (not_isEmpty_append_cons _ _ _), parseLine_sup]
  unfold parseSup
  rw [nameEq_spec hnm.1 hnm.2]
  simp only []
  rw [bodyColon_spec false hcolon]
  simp only []
  rw [words_pad_joinL toks (fun t htm => ⟨(ht t htm).1, fun c hc => (tokChar_facts ((ht t htm).2 c hc)).1⟩)]
  rfl

/-- `strand [dummy] NAME = ITEMS : LEN` -/
def strandLine (dummy : Bool) (nm : List Char) (toks : List (List Char)) (n : List Char) : List Char :=
  "strand".toList ++ ' ' :: ((if dummy then "[dummy] ".toList else []) ++
    (nm ++ ' ' :: '=' :: ' ' :: (joinL [' '] toks ++ ' ' :: ':' :: ' ' :: n)))

theorem dropPrefix?_append : ∀ (p x : List Char), dropPrefix? p (p ++ x) = some x
  | [], x => by cases x <;> rfl
  | c :: p, x => by simp [dropPrefix?, dropPrefix?_append p x]

theorem dummyPrefix_spec (dummy : Bool) {nm : List Char} (hnm : NameL nm) (x : List Char) :
    dummyPrefix (' ' :: ((if dummy then "[dummy] ".toList else []) ++ (nm ++ x))) = (dummy, ' ' :: (nm ++ x)) := by
  obtain ⟨a, r, rfl⟩ : ∃ a r, nm = a :: r := by
    cases nm with
    | nil => exact absurd rfl hnm.1
    | cons a r => exact ⟨a, r, rfl⟩
  have ha : isNameChar a = true := hnm.2 a (by simp)
  have haw : isWs a = false := nameChar_not_ws ha
  unfold dummyPrefix
  cases dummy with
  | true =>
    simp only [if_true]
    rw [ws1_space _ (by intro c hc; cases hc; decide)]
    simp only []
    rw [show "[dummy] ".toList = "[dummy]".toList ++ [' '] from by decide, List.append_assoc, dropPrefix?_append]
    rfl
  | false =>
    simp only [Bool.false_eq_true, if_false, List.nil_append]
    rw [ws1_space _ (by intro c hc; cases hc; exact haw)]
    have hne : ('[' == a) = false := by
      simp only [beq_eq_false_iff_ne, ne_eq]
      rintro rfl; revert ha; decide
    have hd : ∀ y, dropPrefix? "[dummy]".toList (a :: y) = none := by
      intro y
      rw [show "[dummy]".toList = '[' :: "dummy]".toList from by decide]
      simp [dropPrefix?, hne]
    simp only [List.cons_append, hd]

theorem lineRes_strand (tbl : CodeTable) {dummy : Bool} {nm : List Char} {toks : List (List Char)} {n : List Char}
    (hnm : NameL nm) (ht : ∀ t ∈ toks, TokL t) (hn : DigL n) (t : Bool) :
    lineRes tbl (strandLine dummy nm toks n) t = .ok [.strand (str nm) dummy (toks.map str)] ∧
      SafeL (strandLine dummy nm toks n) := by
  obtain ⟨hcolon, hjs⟩ := joinL_space_facts ht
  have hsafe : SafeL (strandLine dummy nm toks n) := by
    unfold strandLine
    simp only [safeL_append, safeL_cons]
    refine ⟨by decide, by decide, ?_, hnm.safe, by decide, by decide, by decide, hjs, by decide, by decide, by decide,
      hn.name.safe⟩
    cases dummy <;> decide
  refine ⟨?_, hsafe⟩
  have hX : (if dummy then "[dummy] ".toList else []) ++
      (nm ++ ' ' :: '=' :: ' ' :: (joinL [' '] toks ++ ' ' :: ':' :: ' ' :: n)) =
      ((if dummy then "[dummy] ".toList else []) ++
        (nm ++ ' ' :: '=' :: ' ' :: (joinL [' '] toks ++ [' ', ':', ' ']))) ++ n := by
    generalize (if dummy then "[dummy] ".toList else []) = D
    simp only [List.append_assoc, List.cons_append, List.nil_append]
  unfold lineRes
  unfold strandLine at hsafe ⊢
  rw [cleanLine_kw (by decide) (by decide) hsafe (by rw [hX]; exact exists_nonWs hn.1 hn.name.noWs _),
    hX, rstrip_append_tail _ hn.1 hn.name.noWs, ← hX]
  rw [if_neg (not_isEmpty_append_cons _ _ _), parseLine_strand]
  unfold parseStrand
  rw [dummyPrefix_spec dummy hnm]
  simp only []
  rw [nameEq_spec hnm.1 hnm.2]
  simp only []
  rw [bodyColon_spec false hcolon]
  simp only []
  rw [words_pad_joinL toks (fun t htm => ⟨(ht t htm).1, fun c hc => (tokChar_facts ((ht t htm).2 c hc)).1⟩)]
  rfl

def isStructChar (c : Char) : Bool := c == '.' || c == '(' || c == ')' || c == '+'

theorem structChar_facts {c : Char} (h : isStructChar c = true) :
    isWs c = false ∧ c ≠ '#' ∧ c ≠ '\n' ∧ c ≠ '\r' ∧ (c != ' ' && c != '\t') = true := by
  simp only [isStructChar, Bool.or_eq_true, beq_iff_eq] at h
  rcases h with ((rfl | rfl) | rfl) | rfl <;> decide

theorem structHdr_spec {P : List Char} (hne : P ≠ []) (hP : ∀ c ∈ P, isParamChar c = true) (y : List Char) :
    structHdr (' ' :: '[' :: (P ++ ']' :: y)) = some (some (str P), y) := by
  unfold structHdr
  rw [ws1_space _ (by intro c hc; cases hc; decide)]
  simp only [takeWhile_append_stop hP (show isParamChar ']' = false by decide),
    dropWhile_append_stop hP (show isParamChar ']' = false by decide)]
  cases P with
  | nil => exact absurd rfl hne
  | cons a r => rfl

/-- `structure [PARAMS] NAME = S1 + S2 : STRUCT` -/
def structLine (P nm : List Char) (names : List (List Char)) (st : List Char) : List Char :=
  "structure".toList ++ ' ' :: ('[' :: (P ++ ']' :: ' ' :: (nm ++ ' ' :: '=' :: ' ' ::
    (joinL [' ', '+', ' '] names ++ ' ' :: ':' :: ' ' :: st))))

theorem lineRes_struct (tbl : CodeTable) {P nm : List Char} {names : List (List Char)} {st : List Char}
    (hPne : P ≠ []) (hP : ∀ c ∈ P, isParamChar c = true) (hnm : NameL nm) (hnn : names ≠ [])
    (hnames : ∀ x ∈ names, NameL x) (hstne : st ≠ []) (hst : ∀ c ∈ st, isStructChar c = true) (t : Bool) :
    lineRes tbl (structLine P nm names st) t = .ok [.struct (str nm) (some (str P)) (names.map str) st] ∧
      SafeL (structLine P nm names st) := by
  have hj : (∀ c ∈ joinL [' ', '+', ' '] names, c ≠ ':') ∧ SafeL (joinL [' ', '+', ' '] names) := by
    constructor
    · intro c hc
      rcases mem_joinL hc with h | ⟨x, hx, hcx⟩
      · simp only [List.mem_cons, List.mem_nil_iff, or_false] at h
        rcases h with rfl | rfl | rfl <;> decide
      · exact (tokChar_facts ((hnames x hx).tok.2 c hcx)).2.1
    · intro c hc
      rcases mem_joinL hc with h | ⟨x, hx, hcx⟩
      · simp only [List.mem_cons, List.mem_nil_iff, or_false] at h
        rcases h with rfl | rfl | rfl <;> decide
      · exact (hnames x hx).safe c hcx
  have hstw : NoWs st := fun c hc => (structChar_facts (hst c hc)).1
  have hsafe : SafeL (structLine P nm names st) := by
    unfold structLine
    simp only [safeL_append, safeL_cons]
    exact ⟨by decide, by decide, by decide, fun c hc => paramChar_safe (hP c hc), by decide, by decide, hnm.safe,
      by decide, by decide, by decide, hj.2, by decide, by decide, by decide,
      fun c hc => (structChar_facts (hst c hc)).2.1 |> fun h => ⟨h, (structChar_facts (hst c hc)).2.2.1,
        (structChar_facts (hst c hc)).2.2.2.1⟩⟩
  refine ⟨?_, hsafe⟩
  have hX : '[' :: (P ++ ']' :: ' ' :: (nm ++ ' ' :: '=' :: ' ' :: (joinL [' ', '+', ' '] names ++ ' ' :: ':' :: ' ' :: st))) =
      ('[' :: (P ++ ']' :: ' ' :: (nm ++ ' ' :: '=' :: ' ' :: (joinL [' ', '+', ' '] names ++ [' ', ':', ' '])))) ++ st := by
    simp
  unfold lineRes
  unfold structLine at hsafe ⊢
  rw [cleanLine_kw (by decide) (by decide) hsafe (by rw [hX]; exact exists_nonWs hstne hstw _),
    hX, rstrip_append_tail _ hstne hstw, ← hX]
  rw [if_neg (not_isEmpty_append_cons _ _ _), parseLine_structure]
  unfold parseStruct
  rw [structHdr_spec hPne hP]
  simp only []
  rw [nameEq_spec hnm.1 hnm.2]
  simp only []
  rw [bodyColon_spec true hj.1]
  simp only []
  have hd : st.dropWhile isWs = st := by
    apply dropWhile_ws_eq_self
    intro c hc
    cases st with
    | nil => cases hc
    | cons a r => cases hc; exact hstw _ (by simp)
  have hf : st.filter (fun c => c != ' ' && c != '\t') = st := by
    rw [List.filter_eq_self]
    exact fun c hc => (structChar_facts (hst c hc)).2.2.2.2
  have hall : st.all (fun c => c == '.' || c == '(' || c == ')' || c == '+') = true := by
    rw [List.all_eq_true]; exact hst
  rw [hd, hf, if_pos hall]
  have hsp := splitOnPlus_pad_joinL names hnn (fun x hx => ⟨(hnames x hx).noWs,
    fun c hc => (tokChar_facts ((hnames x hx).tok.2 c hc)).2.2.1⟩)
  have hm : (splitOnPlus (' ' :: (joinL [' ', '+', ' '] names ++ [' ']))).map (fun n => str (strip n)) =
      names.map str := by
    have : (fun n => str (strip n)) = str ∘ strip := rfl
    rw [this, ← List.map_map, hsp]
  rw [hm]
  rfl

theorem words_flat : ∀ (toks : List (List Char)), (∀ t ∈ toks, TokL t) → words (toks.flatMap (· ++ [' '])) = toks
  | [], _ => rfl
  | a :: r, h => by
    have ha := h a (by simp)
    rw [List.flatMap_cons, List.append_assoc, List.singleton_append,
      words_tok a ha.1 (fun c hc => (tokChar_facts (ha.2 c hc)).1) _ (by intro d r' hr; cases hr; decide),
      words_ws_cons (by decide), words_flat r (fun t ht => h t (List.mem_cons_of_mem _ ht))]

/-- `equal SIGNAL ITEM ITEM … ` (every item followed by a blank) -/
def equalLine (sn : List Char) (toks : List (List Char)) : List Char :=
  "equal".toList ++ ' ' :: (sn ++ ' ' :: toks.flatMap (· ++ [' ']))

theorem lineRes_equal (tbl : CodeTable) {sn : List Char} {toks : List (List Char)} (hsn : NameL sn)
    (ht : ∀ t ∈ toks, TokL t) (t : Bool) :
    lineRes tbl (equalLine sn toks) t = .ok [.equal (str sn :: toks.map str)] ∧ SafeL (equalLine sn toks) := by
  have hfs : SafeL (toks.flatMap (· ++ [' '])) := by
    intro c hc
    simp only [List.mem_flatMap, List.mem_append, List.mem_singleton] at hc
    obtain ⟨x, hx, hc | rfl⟩ := hc
    · exact (tokChar_facts ((ht x hx).2 c hc)).2.2.2
    · decide
  have hsafe : SafeL (equalLine sn toks) := by
    unfold equalLine
    simp only [safeL_append, safeL_cons]
    exact ⟨by decide, by decide, hsn.safe, by decide, hfs⟩
  refine ⟨?_, hsafe⟩
  unfold lineRes
  unfold equalLine at hsafe ⊢
  have hne : ∃ c ∈ sn ++ ' ' :: toks.flatMap (· ++ [' ']), isWs c = false := by
    cases sn with
    | nil => exact absurd rfl hsn.1
    | cons a r => exact ⟨a, by simp, hsn.noWs a (by simp)⟩
  rw [cleanLine_kw (by decide) (by decide) hsafe hne]
  rw [if_neg (not_isEmpty_append_cons _ _ _), parseLine_equal]
  rw [words_rstrip, words_tok sn hsn.1 hsn.noWs _ (by intro d r' hr; cases hr; decide), words_ws_cons (by decide),
    words_flat toks ht]
  rfl

/-- a `kinetic …` line leaves no statement -/
theorem lineRes_kinetic (tbl : CodeTable) {X : List Char} (hs : SafeL X) (hne : ∃ c ∈ X, isWs c = false) (t : Bool) :
    lineRes tbl ("kinetic".toList ++ ' ' :: X) t = .ok [] := by
  have hsafe : SafeL ("kinetic".toList ++ ' ' :: X) := by
    simp only [safeL_append, safeL_cons]
    exact ⟨by decide, by decide, hs⟩
  unfold lineRes
  rw [cleanLine_kw (by decide) (by decide) hsafe hne, if_neg (not_isEmpty_append_cons _ _ _), parseLine_kinetic]

/-! ### the compile model's emitter -/

/-- a non-empty name over the reader's name alphabet `[A-Za-z0-9_-]` -/
def nameOk (s : String) : Bool := !s.toList.isEmpty && s.toList.all isNameChar

theorem nameOk_iff {s : String} : nameOk s = true ↔ NameL s.toList := by
  simp only [nameOk, NameL, Bool.and_eq_true, Bool.not_eq_true', List.isEmpty_eq_false_iff, List.all_eq_true, ne_eq]

/-- a printed decimal bound (`%f`): digits and a point (`none` is printed `0.000000` / `inf`) -/
def decOk : Option Comp.Dec → Bool
  | none => true
  | some d => d.fmtF.all isParamChar

/-- **what the round trip needs of a loaded component** (decidable): every name the emitter writes (declared names
    with the prefix, item names, strand names in structures, structure names in kinetic lines) is non-empty over
    `[A-Za-z0-9_-]`; every template letter is a code of the reader's table and no white space, `:` or `#`; the printed
    `%g` parameter is over `[A-Za-z0-9_.]`; a structure has at least one strand and a non-empty text over `.()+`. -/
def compEmitOk (tbl : CodeTable) (s : Comp.St) : Bool :=
  (s.baseSeqs.filter (·.len != 0)).all (fun e => nameOk (s.pfx ++ e.name) &&
    e.const.all (fun c => tbl.isCode c && c != ':' && !isWs c && c != '#')) &&
  (s.supSeqs.filter (·.len != 0)).all (fun e => nameOk (s.pfx ++ e.name) &&
    (e.items.filter (!·.dummy)).all (fun i => nameOk (s.pfx ++ i.name))) &&
  s.strands.all (fun e => nameOk (s.pfx ++ e.name) &&
    (e.items.filter (!·.dummy)).all (fun i => nameOk (s.pfx ++ i.name))) &&
  s.structs.all (fun e => nameOk (s.pfx ++ e.name) && e.opt.fmtG.all isParamChar && !e.strands.isEmpty &&
    e.strands.all (fun n => nameOk (s.pfx ++ n)) && !e.struct.isEmpty && e.struct.all isStructChar) &&
  s.kins.all (fun k => (k.ins ++ k.outs).all (fun n => nameOk (s.pfx ++ n)) && decOk k.low && decOk k.high)

theorem str_toList (s : String) : str s.toList = s := String.ofList_toList

theorem str_append (a b : List Char) : str (a ++ b) = str a ++ str b := by
  apply String.toList_inj.mp
  simp [str, String.toList_append]

theorem digL_toString (n : Nat) : DigL (toString n).toList := by
  have h : (toString n).toList = Nat.toDigits 10 n := Nat.toList_repr
  rw [h]
  exact ⟨Nat.toDigits_ne_nil, fun c hc => Nat.isDigit_of_mem_toDigits (by omega) (by omega) hc⟩

theorem fullName_toList (p n : String) (rev : Bool) :
    (Comp.fullName p n rev).toList = (p ++ n).toList ++ (if rev then ['*'] else []) := by
  cases rev <;> simp [Comp.fullName, String.toList_append]

theorem tokL_fullName {p n : String} (h : nameOk (p ++ n) = true) (rev : Bool) : TokL (Comp.fullName p n rev).toList := by
  rw [fullName_toList]
  have hn := nameOk_iff.mp h
  refine ⟨?_, ?_⟩
  · intro he
    exact hn.1 (List.append_eq_nil_iff.mp he).1
  · intro c hc
    rcases List.mem_append.mp hc with hc | hc
    · exact hn.tok.2 c hc
    · cases rev
      · cases hc
      · simp only [if_true, List.mem_singleton] at hc; subst hc; decide

theorem safeL_joinL {sep : List Char} (hs : SafeL sep) {l : List (List Char)} (hl : ∀ t ∈ l, SafeL t) :
    SafeL (joinL sep l) := by
  intro c hc
  rcases mem_joinL hc with h | ⟨t, ht, hct⟩
  · exact hs c h
  · exact hl t ht c hct

theorem seq_toList (p n : String) (c : List Char) (len : Nat) :
    ("sequence " ++ p ++ n ++ " = " ++ String.ofList c ++ " : " ++ toString len).toList =
      seqLine (p ++ n).toList c (toString len).toList := by
  simp only [String.toList_append, String.toList_ofList]
  unfold seqLine
  have h1 : "sequence ".toList = "sequence".toList ++ [' '] := by decide
  have h2 : " = ".toList = [' ', '=', ' '] := by decide
  have h3 : " : ".toList = [' ', ':', ' '] := by decide
  rw [h1, h2, h3]
  generalize "sequence".toList = K
  simp only [List.append_assoc, List.cons_append, List.nil_append]

theorem lineRes_seqS (tbl : CodeTable) {p n : String} {c : List Char} (len : Nat) (hn : nameOk (p ++ n) = true)
    (hc : c.all (fun c => tbl.isCode c && c != ':' && !isWs c && c != '#') = true) (t : Bool) :
    lineRes tbl ("sequence " ++ p ++ n ++ " = " ++ String.ofList c ++ " : " ++ toString len).toList t =
        .ok [.seq (p ++ n) c] ∧
      SafeL ("sequence " ++ p ++ n ++ " = " ++ String.ofList c ++ " : " ++ toString len).toList := by
  rw [seq_toList]
  have := lineRes_seq tbl (nameOk_iff.mp hn) (tm := c) (by
    intro x hx
    have := List.all_eq_true.mp hc x hx
    simp only [Bool.and_eq_true, bne_iff_ne, ne_eq, Bool.not_eq_true'] at this
    exact ⟨this.1.1.1, this.1.1.2, this.1.2, this.2⟩) (digL_toString len) t
  rw [str_toList] at this
  exact this

theorem items_toList (names : List String) :
    (Comp.joinWith " " names).toList = joinL [' '] (names.map String.toList) := by
  rw [joinWith_toList]; rfl

theorem sup_toList (p n : String) (names : List String) (len : Nat) :
    ("sup-sequence " ++ p ++ n ++ " = " ++ Comp.joinWith " " names ++ " : " ++ toString len).toList =
      supLine (p ++ n).toList (names.map String.toList) (toString len).toList := by
  simp only [String.toList_append, items_toList]
  unfold supLine
  have h1 : "sup-sequence ".toList = "sup-sequence".toList ++ [' '] := by decide
  have h2 : " = ".toList = [' ', '=', ' '] := by decide
  have h3 : " : ".toList = [' ', ':', ' '] := by decide
  rw [h1, h2, h3]
  generalize "sup-sequence".toList = K
  simp only [List.append_assoc, List.cons_append, List.nil_append]

theorem map_str_toList (names : List String) : (names.map String.toList).map str = names := by
  rw [List.map_map]
  conv => rhs; rw [← List.map_id names]
  apply List.map_congr_left
  intro s _
  exact str_toList s

theorem lineRes_supS (tbl : CodeTable) {p n : String} {its : List Comp.ItemRef} (len : Nat)
    (hn : nameOk (p ++ n) = true) (hi : (its.filter (!·.dummy)).all (fun i => nameOk (p ++ i.name)) = true) (t : Bool) :
    lineRes tbl ("sup-sequence " ++ p ++ n ++ " = " ++ Comp.itemNames p its ++ " : " ++ toString len).toList t =
        .ok [.sup (p ++ n) ((its.filter (!·.dummy)).map (Emit.itemRaw p))] ∧
      SafeL ("sup-sequence " ++ p ++ n ++ " = " ++ Comp.itemNames p its ++ " : " ++ toString len).toList := by
  unfold Comp.itemNames
  rw [sup_toList]
  have := lineRes_sup tbl (nameOk_iff.mp hn)
    (toks := ((its.filter (!·.dummy)).map (fun i => Comp.fullName p i.name i.rev)).map String.toList) (by
      intro x hx
      simp only [List.mem_map] at hx
      obtain ⟨_, ⟨i, hi', rfl⟩, rfl⟩ := hx
      exact tokL_fullName (List.all_eq_true.mp hi i hi') _) (digL_toString len) t
  rw [str_toList, map_str_toList] at this
  exact this

theorem strand_toList (p n : String) (dummy : Bool) (names : List String) (len : Nat) :
    ("strand " ++ (if dummy then "[dummy] " else "") ++ p ++ n ++ " = " ++ Comp.joinWith " " names ++ " : " ++
        toString len).toList =
      strandLine dummy (p ++ n).toList (names.map String.toList) (toString len).toList := by
  simp only [String.toList_append, items_toList]
  unfold strandLine
  have h1 : "strand ".toList = "strand".toList ++ [' '] := by decide
  have h2 : " = ".toList = [' ', '=', ' '] := by decide
  have h3 : " : ".toList = [' ', ':', ' '] := by decide
  have h4 : (if dummy then "[dummy] " else "").toList = (if dummy then "[dummy] ".toList else []) := by
    cases dummy <;> rfl
  rw [h1, h2, h3, h4]
  generalize "strand".toList = K
  generalize (if dummy then "[dummy] ".toList else []) = D
  simp only [List.append_assoc, List.cons_append, List.nil_append]

theorem lineRes_strandS (tbl : CodeTable) {p n : String} {dummy : Bool} {its : List Comp.ItemRef} (len : Nat)
    (hn : nameOk (p ++ n) = true) (hi : (its.filter (!·.dummy)).all (fun i => nameOk (p ++ i.name)) = true) (t : Bool) :
    lineRes tbl ("strand " ++ (if dummy then "[dummy] " else "") ++ p ++ n ++ " = " ++ Comp.itemNames p its ++ " : " ++
        toString len).toList t =
        .ok [.strand (p ++ n) dummy ((its.filter (!·.dummy)).map (Emit.itemRaw p))] ∧
      SafeL ("strand " ++ (if dummy then "[dummy] " else "") ++ p ++ n ++ " = " ++ Comp.itemNames p its ++ " : " ++
        toString len).toList := by
  unfold Comp.itemNames
  rw [strand_toList]
  have := lineRes_strand tbl (dummy := dummy) (nameOk_iff.mp hn)
    (toks := ((its.filter (!·.dummy)).map (fun i => Comp.fullName p i.name i.rev)).map String.toList) (by
      intro x hx
      simp only [List.mem_map] at hx
      obtain ⟨_, ⟨i, hi', rfl⟩, rfl⟩ := hx
      exact tokL_fullName (List.all_eq_true.mp hi i hi') _) (digL_toString len) t
  rw [str_toList, map_str_toList] at this
  exact this

theorem struct_toList (p n : String) (g : List Char) (names : List String) (st : List Char) :
    ("structure [" ++ String.ofList g ++ "nt] " ++ p ++ n ++ " = " ++ Comp.joinWith " + " names ++ " : " ++
        String.ofList st).toList =
      structLine (g ++ ['n', 't']) (p ++ n).toList (names.map String.toList) st := by
  simp only [String.toList_append, String.toList_ofList, joinWith_toList]
  unfold structLine
  have h1 : "structure [".toList = "structure".toList ++ [' ', '['] := by decide
  have h2 : " = ".toList = [' ', '=', ' '] := by decide
  have h3 : " : ".toList = [' ', ':', ' '] := by decide
  have h4 : "nt] ".toList = ['n', 't', ']', ' '] := by decide
  have h5 : " + ".toList = [' ', '+', ' '] := by decide
  rw [h1, h2, h3, h4, h5]
  generalize "structure".toList = K
  simp only [List.append_assoc, List.cons_append, List.nil_append]

theorem lineRes_structS (tbl : CodeTable) {p n : String} {g : List Char} {strands : List String} {st : List Char}
    (hn : nameOk (p ++ n) = true) (hg : g.all isParamChar = true) (hne : strands.isEmpty = false)
    (hs : strands.all (fun x => nameOk (p ++ x)) = true) (hst : st.isEmpty = false) (hsc : st.all isStructChar = true)
    (t : Bool) :
    lineRes tbl ("structure [" ++ String.ofList g ++ "nt] " ++ p ++ n ++ " = " ++
        Comp.joinWith " + " (strands.map (p ++ ·)) ++ " : " ++ String.ofList st).toList t =
        .ok [.struct (p ++ n) (some (String.ofList g ++ "nt")) (strands.map (p ++ ·)) st] ∧
      SafeL ("structure [" ++ String.ofList g ++ "nt] " ++ p ++ n ++ " = " ++
        Comp.joinWith " + " (strands.map (p ++ ·)) ++ " : " ++ String.ofList st).toList := by
  rw [struct_toList]
  have := lineRes_struct tbl (P := g ++ ['n', 't']) (by simp) (by
      intro c hc
      rcases List.mem_append.mp hc with hc | hc
      · exact List.all_eq_true.mp hg c hc
      · simp only [List.mem_cons, List.mem_nil_iff, or_false] at hc
        rcases hc with rfl | rfl <;> decide) (nameOk_iff.mp hn)
    (names := (strands.map (p ++ ·)).map String.toList) (by
      cases strands with
      | nil => cases hne
      | cons a r => simp) (by
      intro x hx
      simp only [List.mem_map] at hx
      obtain ⟨_, ⟨y, hy, rfl⟩, rfl⟩ := hx
      exact nameOk_iff.mp (List.all_eq_true.mp hs y hy)) (st := st) (by
      cases st with
      | nil => cases hst
      | cons a r => simp) (List.all_eq_true.mp hsc) t
  rw [str_toList, map_str_toList, str_append] at this
  exact this

theorem safeL_names {p : String} {l : List String} (h : ∀ n ∈ l, nameOk (p ++ n) = true) :
    SafeL (Comp.joinWith " + " (l.map (p ++ ·))).toList := by
  rw [joinWith_toList]
  apply safeL_joinL (by decide)
  intro t ht
  simp only [List.mem_map] at ht
  obtain ⟨_, ⟨n, hn, rfl⟩, rfl⟩ := ht
  exact (nameOk_iff.mp (h n hn)).safe

theorem safeL_dec {d : Option Comp.Dec} (h : decOk d = true) (dflt : String) (hd : SafeL dflt.toList) :
    SafeL (match d with | some d => String.ofList d.fmtF | none => dflt).toList := by
  cases d with
  | none => exact hd
  | some d =>
    simp only [String.toList_ofList]
    exact fun c hc => paramChar_safe (List.all_eq_true.mp h c hc)

theorem lineRes_kineticS (tbl : CodeTable) {p : String} {k : Comp.KinE}
    (hn : (k.ins ++ k.outs).all (fun n => nameOk (p ++ n)) = true) (hl : decOk k.low = true) (hh : decOk k.high = true)
    (t : Bool) :
    lineRes tbl ("kinetic [" ++ (match k.low with | some d => String.ofList d.fmtF | none => "0.000000") ++
        " /M/s < k < " ++ (match k.high with | some d => String.ofList d.fmtF | none => "inf") ++ " /M/s] " ++
        Comp.joinWith " + " (k.ins.map (p ++ ·)) ++ " -> " ++ Comp.joinWith " + " (k.outs.map (p ++ ·))).toList t =
        .ok [] ∧
      SafeL ("kinetic [" ++ (match k.low with | some d => String.ofList d.fmtF | none => "0.000000") ++
        " /M/s < k < " ++ (match k.high with | some d => String.ofList d.fmtF | none => "inf") ++ " /M/s] " ++
        Comp.joinWith " + " (k.ins.map (p ++ ·)) ++ " -> " ++ Comp.joinWith " + " (k.outs.map (p ++ ·))).toList := by
  have hall := List.all_eq_true.mp hn
  have hins := safeL_names (p := p) (l := k.ins) (fun n h => hall n (List.mem_append_left _ h))
  have houts := safeL_names (p := p) (l := k.outs) (fun n h => hall n (List.mem_append_right _ h))
  have hlo := safeL_dec hl "0.000000" (by decide)
  have hhi := safeL_dec hh "inf" (by decide)
  simp only [String.toList_append]
  generalize (match k.low with | some d => String.ofList d.fmtF | none => "0.000000").toList = LO at hlo ⊢
  generalize (match k.high with | some d => String.ofList d.fmtF | none => "inf").toList = HI at hhi ⊢
  generalize (Comp.joinWith " + " (k.ins.map (p ++ ·))).toList = A at hins ⊢
  generalize (Comp.joinWith " + " (k.outs.map (p ++ ·))).toList = B at houts ⊢
  have h1 : "kinetic [".toList = "kinetic".toList ++ [' ', '['] := by decide
  have hX : "kinetic [".toList ++ LO ++ " /M/s < k < ".toList ++ HI ++ " /M/s] ".toList ++ A ++ " -> ".toList ++ B =
      "kinetic".toList ++ ' ' :: ('[' :: (LO ++ (" /M/s < k < ".toList ++ (HI ++ (" /M/s] ".toList ++
        (A ++ (" -> ".toList ++ B))))))) := by
    rw [h1]
    generalize "kinetic".toList = K
    simp only [List.append_assoc, List.cons_append, List.nil_append]
  rw [hX]
  have hs : SafeL ('[' :: (LO ++ (" /M/s < k < ".toList ++ (HI ++ (" /M/s] ".toList ++
        (A ++ (" -> ".toList ++ B))))))) := by
    simp only [safeL_append, safeL_cons]
    exact ⟨by decide, hlo, by decide, hhi, by decide, hins, by decide, houts⟩
  refine ⟨lineRes_kinetic tbl hs ⟨'[', by simp, by decide⟩ t, ?_⟩
  exact safeL_append.mpr ⟨by decide, safeL_cons.mpr ⟨by decide, hs⟩⟩

/-- `Reads` for a section of lines produced by `map`, with the safety of every line -/
theorem reads_section {tbl : CodeTable} {α : Type} (f : α → String) (g : α → Pil.Stmt) (L : List α)
    (h : ∀ e ∈ L, lineRes tbl (f e).toList true = .ok [g e] ∧ SafeL (f e).toList) :
    Reads tbl ((L.map f).map String.toList) (L.map g) ∧ ∀ l ∈ L.map f, SafeL l.toList := by
  constructor
  · rw [List.map_map]
    exact Reads.map1 _ g L (fun e he => (h e he).1)
  · intro l hl
    obtain ⟨e, he, rfl⟩ := List.mem_map.mp hl
    exact (h e he).2

theorem reads_section0 {tbl : CodeTable} {α : Type} (f : α → String) (L : List α)
    (h : ∀ e ∈ L, lineRes tbl (f e).toList true = .ok [] ∧ SafeL (f e).toList) :
    Reads tbl ((L.map f).map String.toList) [] ∧ ∀ l ∈ L.map f, SafeL l.toList := by
  constructor
  · rw [List.map_map]
    exact Reads.map0 _ L (fun e he => (h e he).1)
  · intro l hl
    obtain ⟨e, he, rfl⟩ := List.mem_map.mp hl
    exact (h e he).2

theorem reads_append {tbl : CodeTable} {a b : List String} {x y : List Pil.Stmt}
    (ha : Reads tbl (a.map String.toList) x ∧ ∀ l ∈ a, SafeL l.toList)
    (hb : Reads tbl (b.map String.toList) y ∧ ∀ l ∈ b, SafeL l.toList) :
    Reads tbl ((a ++ b).map String.toList) (x ++ y) ∧ ∀ l ∈ a ++ b, SafeL l.toList := by
  refine ⟨by rw [List.map_append]; exact Reads.append ha.1 hb.1, ?_⟩
  intro l hl
  rcases List.mem_append.mp hl with hl | hl
  · exact ha.2 l hl
  · exact hb.2 l hl

/-- **one component**: the lines `Comp.emitPil` writes read as `Emit.compStmts`, and no line contains `#`, `\n`, `\r` -/
theorem reads_comp (tbl : CodeTable) (s : Comp.St) (h : compEmitOk tbl s = true) :
    Reads tbl ((Comp.emitPil s).map String.toList) (Emit.compStmts s) ∧ ∀ l ∈ Comp.emitPil s, SafeL l.toList := by
  simp only [compEmitOk, Bool.and_eq_true, List.all_eq_true, Bool.not_eq_true'] at h
  obtain ⟨⟨⟨⟨h1, h2⟩, h3⟩, h4⟩, h5⟩ := h
  rw [show Emit.compStmts s = Emit.compStmts s ++ [] from (List.append_nil _).symm]
  unfold Comp.emitPil Emit.compStmts
  simp only []
  refine reads_append (reads_append (reads_append (reads_append ?_ ?_) ?_) ?_) ?_
  · refine reads_section _ _ _ (fun e he => ?_)
    obtain ⟨hn, hc⟩ := h1 e he
    exact lineRes_seqS tbl e.len hn (List.all_eq_true.mpr (fun c hcm => by
      have := hc c hcm
      simpa [Bool.and_eq_true] using this)) true
  · refine reads_section _ _ _ (fun e he => ?_)
    obtain ⟨hn, hi⟩ := h2 e he
    exact lineRes_supS tbl e.len hn (List.all_eq_true.mpr hi) true
  · refine reads_section _ _ _ (fun e he => ?_)
    obtain ⟨hn, hi⟩ := h3 e he
    exact lineRes_strandS tbl e.len hn (List.all_eq_true.mpr hi) true
  · refine reads_section _ _ _ (fun e he => ?_)
    obtain ⟨⟨⟨⟨⟨hn, hg⟩, hne⟩, hs⟩, hst⟩, hsc⟩ := h4 e he
    exact lineRes_structS tbl hn (List.all_eq_true.mpr hg) hne (List.all_eq_true.mpr hs) hst
      (List.all_eq_true.mpr hsc) true
  · refine reads_section0 _ _ (fun k hk => ?_)
    obtain ⟨⟨hn, hl⟩, hh⟩ := h5 k hk
    exact lineRes_kineticS tbl (List.all_eq_true.mpr hn) hl hh true

/-! ### systems -/

/-- the name an `equal` line gives a bound port (`Sys.emitPilSys`) -/
def entryName (pfx : String) (e : Sys.SigEntry) : String :=
  match e.port with
  | .seq i _ => pfx ++ e.comp ++ "-" ++ i.name
  | .sig n => pfx ++ e.comp ++ "-" ++ n

/-- the signal part of `sysEmitOk` -/
def signalsEmitOk (pfx : String) (signals : List (String × List Sys.SigEntry)) : Bool :=
  signals.all (fun se => nameOk (pfx ++ se.1) && se.2.all (fun e => nameOk (entryName pfx e)))

mutual
/-- **what the round trip needs of a loaded tree** (decidable): `compEmitOk` for every component; for every system
    the signal sequence names `pfx ++ signal` and the port names `pfx ++ instance ++ "-" ++ name` on `equal` lines are
    non-empty over `[A-Za-z0-9_-]`, and `N` is a code of the reader's table -/
def instEmitOk (tbl : CodeTable) : Sys.Inst → Bool
  | .comp st => compEmitOk tbl st
  | .sys st => sysEmitOk tbl st
def sysEmitOk (tbl : CodeTable) : Sys.SysSt → Bool
  | .mk _ _ pfx _ signals _ components _ _ =>
    compsEmitOk tbl components && tbl.isCode 'N' && signalsEmitOk pfx signals
def compsEmitOk (tbl : CodeTable) : List (String × Sys.Inst) → Bool
  | [] => true
  | (_, i) :: r => instEmitOk tbl i && compsEmitOk tbl r
end

/-- the two lines of one signal -/
def sigLines (pfx : String) (lengths : List (String × Nat)) (se : String × List Sys.SigEntry) : List String :=
  let len := (lengths.lookup se.1).getD 0
  let sname := pfx ++ se.1
  ["sequence " ++ sname ++ " = " ++ String.ofList (List.replicate len 'N') ++ " : " ++ toString len,
   "equal " ++ sname ++ " " ++ String.join (se.2.map (fun e => entryName pfx e ++ (if e.wc then "* " else " ")))]

def sigStmts (pfx : String) (lengths : List (String × Nat)) (se : String × List Sys.SigEntry) : List Pil.Stmt :=
  let len := (lengths.lookup se.1).getD 0
  [Pil.Stmt.seq (pfx ++ se.1) (List.replicate len 'N'),
   Pil.Stmt.equal ((pfx ++ se.1) :: se.2.map (fun e => entryName pfx e ++ (if e.wc then "*" else "")))]

theorem emitPilSys_eq (p n pfx : String) (t : List (String × String)) (sg : List (String × List Sys.SigEntry))
    (l : List (String × Nat)) (c : List (String × Sys.Inst)) (is os : List Sys.SigRef) :
    Sys.emitPilSys (.mk p n pfx t sg l c is os) = Sys.emitPilComps c ++ sg.flatMap (sigLines pfx l) := by
  simp only [Sys.emitPilSys]
  congr 1

theorem sysStmts_eq (p n pfx : String) (t : List (String × String)) (sg : List (String × List Sys.SigEntry))
    (l : List (String × Nat)) (c : List (String × Sys.Inst)) (is os : List Sys.SigRef) :
    Emit.sysStmts (.mk p n pfx t sg l c is os) = Emit.compsStmts c ++ sg.flatMap (sigStmts pfx l) := by
  simp only [Emit.sysStmts]
  congr 1

theorem equal_toList (sname : String) (toks : List String) :
    ("equal " ++ sname ++ " " ++ String.join (toks.map (· ++ " "))).toList =
      equalLine sname.toList (toks.map String.toList) := by
  simp only [String.toList_append, String.toList_join, List.flatMap_map]
  unfold equalLine
  have h1 : "equal ".toList = "equal".toList ++ [' '] := by decide
  have h2 : " ".toList = [' '] := by decide
  rw [h1, h2]
  generalize "equal".toList = K
  simp only [List.append_assoc, List.cons_append, List.nil_append, List.flatMap_map]

theorem star_blank (nm : String) (wc : Bool) :
    nm ++ (if wc then "* " else " ") = (nm ++ (if wc then "*" else "")) ++ " " := by
  cases wc
  · simp
  · simp only [if_true, String.append_assoc]; rfl

theorem reads_signal (tbl : CodeTable) (hN : tbl.isCode 'N' = true) (pfx : String) (lengths : List (String × Nat))
    (se : String × List Sys.SigEntry)
    (h : (nameOk (pfx ++ se.1) && se.2.all (fun e => nameOk (entryName pfx e))) = true) :
    Reads tbl ((sigLines pfx lengths se).map String.toList) (sigStmts pfx lengths se) ∧
      ∀ l ∈ sigLines pfx lengths se, SafeL l.toList := by
  simp only [Bool.and_eq_true, List.all_eq_true] at h
  obtain ⟨hn, he⟩ := h
  have hseq := lineRes_seqS tbl (p := pfx) (n := se.1) (c := List.replicate ((lengths.lookup se.1).getD 0) 'N')
    ((lengths.lookup se.1).getD 0) hn (by
      rw [List.all_eq_true]
      intro c hc
      rw [List.eq_of_mem_replicate hc, hN]; decide) true
  rw [String.append_assoc (s₁ := "sequence ") (s₂ := pfx) (s₃ := se.1)] at hseq
  have hmap : se.2.map (fun e => entryName pfx e ++ (if e.wc then "* " else " ")) =
      (se.2.map (fun e => entryName pfx e ++ (if e.wc then "*" else ""))).map (· ++ " ") := by
    rw [List.map_map]
    apply List.map_congr_left
    intro e _
    exact star_blank _ _
  have heq := lineRes_equal tbl (sn := (pfx ++ se.1).toList)
    (toks := (se.2.map (fun e => entryName pfx e ++ (if e.wc then "*" else ""))).map String.toList)
    (nameOk_iff.mp hn) (by
      intro x hx
      simp only [List.mem_map] at hx
      obtain ⟨_, ⟨e, hem, rfl⟩, rfl⟩ := hx
      have hne := nameOk_iff.mp (he e hem)
      rw [String.toList_append]
      refine ⟨fun h0 => hne.1 (List.append_eq_nil_iff.mp h0).1, ?_⟩
      intro c hc
      rcases List.mem_append.mp hc with hc | hc
      · exact hne.tok.2 c hc
      · cases hw : e.wc
        · rw [hw] at hc
          have h2 : (if false = true then "*" else "").toList = [] := by decide
          rw [h2] at hc; cases hc
        · rw [hw] at hc
          have : c = '*' := by
            have h2 : (if true = true then "*" else "").toList = ['*'] := by decide
            rw [h2] at hc; simpa using hc
          subst this; decide) true
  rw [← equal_toList, str_toList, map_str_toList, ← hmap] at heq
  unfold sigLines sigStmts
  simp only []
  constructor
  · exact Reads.cons hseq.1 (Reads.cons heq.1 (Reads.nil tbl))
  · intro l hl
    simp only [List.mem_cons, List.mem_nil_iff, or_false] at hl
    rcases hl with rfl | rfl
    · exact hseq.2
    · exact heq.2

theorem reads_flatMap {tbl : CodeTable} {α : Type} (f : α → List String) (g : α → List Pil.Stmt) :
    ∀ (L : List α), (∀ e ∈ L, Reads tbl ((f e).map String.toList) (g e) ∧ ∀ l ∈ f e, SafeL l.toList) →
      Reads tbl ((L.flatMap f).map String.toList) (L.flatMap g) ∧ ∀ l ∈ L.flatMap f, SafeL l.toList
  | [], _ => ⟨Reads.nil tbl, fun _ h => nomatch h⟩
  | e :: L, h => by
    have := reads_append (h e (by simp)) (reads_flatMap f g L (fun x hx => h x (List.mem_cons_of_mem _ hx)))
    simpa using this

mutual
/-- **a whole tree**: the lines `Sys.emitPilInst` writes read as `Emit.instStmts` -/
theorem reads_inst (tbl : CodeTable) : ∀ (i : Sys.Inst), instEmitOk tbl i = true →
    Reads tbl ((Sys.emitPilInst i).map String.toList) (Emit.instStmts i) ∧ ∀ l ∈ Sys.emitPilInst i, SafeL l.toList
  | .comp st, h => by
    simp only [Sys.emitPilInst, Emit.instStmts]
    exact reads_comp tbl st (by simpa [instEmitOk] using h)
  | .sys (.mk p n pfx t sg l c is os), h => by
    simp only [instEmitOk, sysEmitOk, Bool.and_eq_true] at h
    obtain ⟨⟨hc, hN⟩, hs⟩ := h
    simp only [Sys.emitPilInst, Emit.instStmts, emitPilSys_eq, sysStmts_eq]
    refine reads_append (reads_comps tbl c hc) (reads_flatMap _ _ sg (fun se hse => ?_))
    exact reads_signal tbl hN pfx l se (List.all_eq_true.mp hs se hse)
theorem reads_comps (tbl : CodeTable) : ∀ (c : List (String × Sys.Inst)), compsEmitOk tbl c = true →
    Reads tbl ((Sys.emitPilComps c).map String.toList) (Emit.compsStmts c) ∧ ∀ l ∈ Sys.emitPilComps c, SafeL l.toList
  | [], _ => ⟨Reads.nil tbl, fun _ h => nomatch h⟩
  | (_, i) :: r, h => by
    simp only [compsEmitOk, Bool.and_eq_true] at h
    simp only [Sys.emitPilComps, Emit.compsStmts]
    exact reads_append (reads_inst tbl i h.1) (reads_comps tbl r h.2)
end

/-! ### from lines to text -/

theorem mem_intercalate {sep : List Char} {c : Char} : ∀ {L : List (List Char)},
    c ∈ sep.intercalate L → c ∈ sep ∨ ∃ l ∈ L, c ∈ l
  | [], h => by simp [List.intercalate_nil] at h
  | [a], h => by rw [List.intercalate_singleton] at h; exact Or.inr ⟨a, by simp, h⟩
  | a :: b :: r, h => by
    rw [List.intercalate_cons_cons, List.mem_append, List.mem_append] at h
    rcases h with (h | h) | h
    · exact Or.inr ⟨a, by simp, h⟩
    · exact Or.inl h
    · rcases mem_intercalate h with h | ⟨l, hl, hc⟩
      · exact Or.inl h
      · exact Or.inr ⟨l, List.mem_cons_of_mem _ hl, hc⟩

/-- lines that read as `ss`, joined by `\n`, parse to `ss` -/
theorem parsePil_intercalate {tbl : CodeTable} {ls : List String} {ss : List Pil.Stmt}
    (hr : Reads tbl (ls.map String.toList) ss) (hs : ∀ l ∈ ls, SafeL l.toList) :
    parsePil tbl (String.intercalate "\n" ls) = .ok ss := by
  have hs' : ∀ l ∈ ls.map String.toList, SafeL l := by
    intro l hl
    obtain ⟨x, hx, rfl⟩ := List.mem_map.mp hl
    exact hs x hx
  unfold parsePil
  rw [String.toList_intercalate, show "\n".toList = ['\n'] from by decide, uniNl_id, parseLines_intercalate tbl _ hs']
  · exact hr
  · intro c hc
    rcases mem_intercalate hc with h | ⟨l, hl, hcl⟩
    · simp only [List.mem_singleton] at h; subst h; decide
    · exact (hs' l hl c hcl).2.2

/-- the same for the file in which every line is newline-terminated -/
theorem parsePil_unlines {tbl : CodeTable} {ls : List String} {ss : List Pil.Stmt}
    (hr : Reads tbl (ls.map String.toList) ss) (hs : ∀ l ∈ ls, SafeL l.toList) :
    parsePil tbl (String.join (ls.map (· ++ "\n"))) = .ok ss := by
  have htl : (String.join (ls.map (· ++ "\n"))).toList = (ls.map String.toList).flatMap (· ++ ['\n']) := by
    rw [String.toList_join, List.flatMap_map, List.flatMap_map]
    simp only [String.toList_append]
    rfl
  unfold parsePil
  rw [htl, uniNl_id, parseLines_unlines tbl]
  · exact hr
  · intro l hl c hc
    obtain ⟨x, hx, rfl⟩ := List.mem_map.mp hl
    exact (hs x hx c hc).2.1
  · intro c hc
    simp only [List.mem_flatMap, List.mem_map, List.mem_append, List.mem_singleton] at hc
    obtain ⟨_, ⟨x, hx, rfl⟩, hc | rfl⟩ := hc
    · exact (hs x hx c hc).2.2
    · decide

/-- blank and comment lines do not matter -/
theorem parseLines_filter (tbl : CodeTable) : ∀ (L : List (List Char × Bool)),
    parseLines tbl (L.filter (fun x => !(cleanLine x.1 x.2).isEmpty)) = parseLines tbl L
  | [] => rfl
  | (l, t) :: r => by
    by_cases he : (cleanLine l t).isEmpty = true
    · rw [List.filter_cons_of_neg (by simp [he]), parseLines_cons, if_pos he, parseLines_filter tbl r]
    · rw [List.filter_cons_of_pos (by simp [he]), parseLines_cons, parseLines_cons, parseLines_filter tbl r]

/-- is the (newline-terminated) line blank or a comment? -/
def isBlank (l : String) : Bool := (cleanLine l.toList true).isEmpty

/-- the file as the compiler writes it: the statement lines in order, every line newline-terminated, with any
    blank / comment lines (free of `\n`, `\r`) in between -/
theorem parsePil_file {tbl : CodeTable} {file ls : List String} {ss : List Pil.Stmt}
    (hfile : file.filter (fun l => !isBlank l) = ls)
    (hnl : ∀ l ∈ file, ∀ c ∈ l.toList, c ≠ '\n' ∧ c ≠ '\r')
    (hr : Reads tbl (ls.map String.toList) ss) :
    parsePil tbl (String.join (file.map (· ++ "\n"))) = .ok ss := by
  have htl : (String.join (file.map (· ++ "\n"))).toList = (file.map String.toList).flatMap (· ++ ['\n']) := by
    rw [String.toList_join, List.flatMap_map, List.flatMap_map]
    simp only [String.toList_append]
    rfl
  unfold parsePil
  rw [htl, uniNl_id, parseLines_unlines tbl, ← parseLines_filter]
  · unfold Reads at hr
    rw [← hr, ← hfile]
    congr 1
    simp only [List.map_map, List.filter_map, isBlank]
    rfl
  · intro l hl c hc
    obtain ⟨x, hx, rfl⟩ := List.mem_map.mp hl
    exact (hnl x hx c hc).1
  · intro c hc
    simp only [List.mem_flatMap, List.mem_map, List.mem_append, List.mem_singleton] at hc
    obtain ⟨_, ⟨x, hx, rfl⟩, hc | rfl⟩ := hc
    · exact (hnl x hx c hc).2
    · decide

/-! ### what an accepted document's statements look like -/

/-- a token of `str.split()`: non-empty, no white space -/
def tokenOk (s : String) : Bool := !s.toList.isEmpty && s.toList.all (fun c => !isWs c)

/-- an item of a super-sequence / strand line: a token without `:` -/
def itemOk (s : String) : Bool := tokenOk s && s.toList.all (· != ':')

/-- a strand field of a structure line: no `+`, no `:` -/
def fieldOk (s : String) : Bool := s.toList.all (fun c => c != '+' && c != ':')

/-- a bracketed structure parameter: absent, or non-empty over `[A-Za-z0-9_.]` -/
def paramsOk : Option String → Bool
  | none => true
  | some p => !p.toList.isEmpty && p.toList.all isParamChar

/-- the shape of a statement the reader can produce -/
def stmtWF (tbl : CodeTable) : Pil.Stmt → Bool
  | .seq n t => nameOk n && t.all (fun c => tbl.isCode c && c != ':' && !isWs c)
  | .sup n its => nameOk n && its.all itemOk
  | .strand n _ its => nameOk n && its.all itemOk
  | .struct n p ss st => nameOk n && paramsOk p &&
      !ss.isEmpty && ss.all fieldOk && st.all isStructChar
  | .equal its => its.all tokenOk
  | .kinetic => false

theorem mem_consWord {c : Char} {r : List Char} {ws : List (List Char)} {w : List Char}
    (h : w ∈ consWord c r ws) : w = [c] ∨ (∃ w' ∈ ws, w = c :: w') ∨ w ∈ ws := by
  unfold consWord at h
  split at h
  · split at h
    · simp only [List.mem_cons] at h
      rcases h with rfl | rfl | h
      · exact Or.inl rfl
      · exact Or.inr (Or.inr (by simp))
      · exact Or.inr (Or.inr (by simp [h]))
    · simp only [List.mem_cons] at h
      rcases h with rfl | h
      · exact Or.inr (Or.inl ⟨_, by simp, rfl⟩)
      · exact Or.inr (Or.inr (by simp [h]))
  · simp only [List.mem_cons] at h
    rcases h with rfl | h
    · exact Or.inl rfl
    · exact Or.inr (Or.inr h)

theorem mem_words : ∀ {l : List Char} {w : List Char}, w ∈ words l → w ≠ [] ∧ NoWs w ∧ ∀ c ∈ w, c ∈ l
  | [], _, h => nomatch h
  | c :: r, w, h => by
    rw [words_cons] at h
    by_cases hc : isWs c = true
    · rw [if_pos hc] at h
      obtain ⟨h1, h2, h3⟩ := mem_words h
      exact ⟨h1, h2, fun x hx => List.mem_cons_of_mem _ (h3 x hx)⟩
    · rw [if_neg hc] at h
      have hc' : isWs c = false := by simpa using hc
      rcases mem_consWord h with rfl | ⟨w', hw', rfl⟩ | h
      · exact ⟨by simp, fun x hx => by simp at hx; subst hx; exact hc', fun x hx => by simp at hx; subst hx; simp⟩
      · obtain ⟨_, h2, h3⟩ := mem_words hw'
        refine ⟨by simp, ?_, ?_⟩
        · intro x hx
          rcases List.mem_cons.mp hx with rfl | hx
          · exact hc'
          · exact h2 x hx
        · intro x hx
          rcases List.mem_cons.mp hx with rfl | hx
          · simp
          · exact List.mem_cons_of_mem _ (h3 x hx)
      · obtain ⟨h1, h2, h3⟩ := mem_words h
        exact ⟨h1, h2, fun x hx => List.mem_cons_of_mem _ (h3 x hx)⟩

theorem mem_takeWhile {p : Char → Bool} : ∀ {l : List Char} {c : Char}, c ∈ l.takeWhile p → p c = true ∧ c ∈ l
  | [], _, h => nomatch h
  | a :: r, c, h => by
    by_cases ha : p a = true
    · rw [List.takeWhile_cons_of_pos ha] at h
      rcases List.mem_cons.mp h with rfl | h
      · exact ⟨ha, by simp⟩
      · exact ⟨(mem_takeWhile h).1, List.mem_cons_of_mem _ (mem_takeWhile h).2⟩
    · rw [List.takeWhile_cons_of_neg ha] at h; cases h

theorem nameEq_name {l : List Char} {nm : String} {r : List Char} (h : nameEq l = some (nm, r)) : nameOk nm = true := by
  unfold nameEq at h
  split at h
  · cases h
  · rename_i l1 _
    simp only [] at h
    split at h
    · cases h
    · rename_i hne
      split at h
      · cases h
        simp only [nameOk, String.toList_ofList, Bool.and_eq_true, Bool.not_eq_true', List.all_eq_true]
        exact ⟨by simpa using hne, fun c hc => (mem_takeWhile hc).1⟩
      · cases h

theorem items_ok {pre : List Char} (hp : ∀ c ∈ pre, c ≠ ':') : ((words pre).map str).all itemOk = true := by
  simp only [List.all_eq_true, List.mem_map]
  rintro _ ⟨w, hw, rfl⟩
  obtain ⟨h1, h2, h3⟩ := mem_words hw
  simp only [itemOk, tokenOk, str, String.toList_ofList, Bool.and_eq_true, Bool.not_eq_true', List.all_eq_true,
    bne_iff_ne, ne_eq, List.isEmpty_eq_false_iff]
  exact ⟨⟨h1, fun c hc => by simp [h2 c hc]⟩, fun c hc => hp c (h3 c hc)⟩

theorem bodyColon_pre {m : Bool} {t pre st : List Char} (h : bodyColon m t = some (pre, st)) :
    (∀ c ∈ pre, c ≠ ':') ∧ ∀ c ∈ st, c ∈ t := by
  have hpre : ∀ c ∈ t.takeWhile (· != ':'), c ≠ ':' := fun c hc => by simpa using (mem_takeWhile hc).1
  unfold bodyColon at h
  split at h
  · cases h
  · split at h
    · cases h
    · simp only [] at h
      cases hdw : List.dropWhile (fun x => x != ':') _ with
      | nil =>
        rw [hdw] at h
        simp only [] at h
        split at h
        · cases h
        · cases h
          exact ⟨hpre, fun _ hc => nomatch hc⟩
      | cons x after =>
        rw [hdw] at h
        simp only [] at h
        split at h
        · split at h
          · cases h
            refine ⟨hpre, fun c hc => ?_⟩
            have h1 := (List.dropWhile_sublist _).subset hc
            have h2 := List.mem_cons_of_mem x h1
            rw [← hdw] at h2
            exact (List.dropWhile_sublist _).subset h2
          · cases h
        · cases h

theorem seqBody_chars {t tm : List Char} (h : seqBody t = some tm) : ∀ c ∈ tm, c ≠ ':' ∧ isWs c = false := by
  have key : ∀ c ∈ (t.dropWhile isWs).takeWhile (fun c => c != ':' && !isWs c), c ≠ ':' ∧ isWs c = false := by
    intro c hc
    have := (mem_takeWhile hc).1
    simpa using this
  unfold seqBody at h
  simp only [] at h
  split at h
  · cases h
  · split at h
    · split at h
      · cases h; exact fun _ hc => nomatch hc
      · split at h
        · cases h; exact fun _ hc => nomatch hc
        · cases h
      · cases h
    · split at h
      · cases h; exact key
      · cases h

theorem parseSeq_wf {tbl : CodeTable} {rest : List Char} {s : Pil.Stmt} (h : parseSeq tbl rest = .ok s) :
    stmtWF tbl s = true := by
  unfold parseSeq at h
  split at h
  · cases h
  · rename_i name t hne
    split at h
    · cases h
    · rename_i tm hb
      split at h
      · rename_i hall
        cases h
        simp only [stmtWF, Bool.and_eq_true, List.all_eq_true, bne_iff_ne, ne_eq, Bool.not_eq_true']
        exact ⟨nameEq_name hne, fun c hc => ⟨⟨List.all_eq_true.mp hall c hc, (seqBody_chars hb c hc).1⟩,
          (seqBody_chars hb c hc).2⟩⟩
      · cases h

theorem parseSup_wf {tbl : CodeTable} {rest : List Char} {s : Pil.Stmt} (h : parseSup rest = .ok s) :
    stmtWF tbl s = true := by
  unfold parseSup at h
  split at h
  · cases h
  · rename_i name t hne
    split at h
    · cases h
    · rename_i items st hb
      cases h
      simp only [stmtWF, Bool.and_eq_true]
      exact ⟨nameEq_name hne, items_ok (bodyColon_pre hb).1⟩

theorem parseStrand_wf {tbl : CodeTable} {rest : List Char} {s : Pil.Stmt} (h : parseStrand rest = .ok s) :
    stmtWF tbl s = true := by
  unfold parseStrand at h
  simp only [] at h
  split at h
  · cases h
  · rename_i name t hne
    split at h
    · cases h
    · rename_i items st hb
      cases h
      simp only [stmtWF, Bool.and_eq_true]
      exact ⟨nameEq_name hne, items_ok (bodyColon_pre hb).1⟩

theorem mem_splitOnPlus : ∀ {l f : List Char}, f ∈ splitOnPlus l → ∀ c ∈ f, c ≠ '+' ∧ c ∈ l
  | [], f, h => by
    simp only [splitOnPlus, List.mem_singleton] at h
    subst h; exact fun _ hc => nomatch hc
  | a :: r, f, h => by
    rw [splitOnPlus_cons] at h
    cases hs : splitOnPlus r with
    | nil => exact absurd hs (splitOnPlus_ne_nil r)
    | cons x y =>
      rw [hs] at h
      simp only [] at h
      by_cases ha : (a == '+') = true
      · rw [if_pos ha] at h
        rcases List.mem_cons.mp h with rfl | h
        · exact fun _ hc => nomatch hc
        · intro c hc
          have := mem_splitOnPlus (l := r) (f := f) (by rw [hs]; exact h) c hc
          exact ⟨this.1, List.mem_cons_of_mem _ this.2⟩
      · rw [if_neg ha] at h
        rcases List.mem_cons.mp h with rfl | h
        · intro c hc
          rcases List.mem_cons.mp hc with rfl | hc
          · exact ⟨by simpa using ha, by simp⟩
          · have := mem_splitOnPlus (l := r) (f := x) (by rw [hs]; simp) c hc
            exact ⟨this.1, List.mem_cons_of_mem _ this.2⟩
        · intro c hc
          have := mem_splitOnPlus (l := r) (f := f) (by rw [hs]; exact List.mem_cons_of_mem _ h) c hc
          exact ⟨this.1, List.mem_cons_of_mem _ this.2⟩

theorem mem_of_mem_strip {n : List Char} {c : Char} (h : c ∈ strip n) : c ∈ n :=
  (List.dropWhile_sublist _).subset (mem_of_mem_rstrip h)

theorem structHdr_params {rest : List Char} {p : Option String} {r : List Char} (h : structHdr rest = some (p, r)) :
    paramsOk p = true := by
  unfold structHdr at h
  split at h
  · simp only [] at h
    split at h
    · cases h
    · rename_i hne
      split at h
      · cases h
        simp only [paramsOk, str, String.toList_ofList, Bool.and_eq_true, Bool.not_eq_true', List.all_eq_true]
        exact ⟨by simpa using hne, fun c hc => (mem_takeWhile hc).1⟩
      · cases h
  · cases h; rfl

theorem parseStruct_wf {tbl : CodeTable} {rest : List Char} {s : Pil.Stmt} (h : parseStruct rest = .ok s) :
    stmtWF tbl s = true := by
  unfold parseStruct at h
  split at h
  · cases h
  · rename_i params rest' hh
    simp only [] at h
    split at h
    · cases h
    · rename_i name t hne
      split at h
      · cases h
      · rename_i names st hb
        split at h
        · rename_i hall
          cases h
          simp only [stmtWF, Bool.and_eq_true]
          refine ⟨⟨⟨⟨nameEq_name hne, structHdr_params hh⟩, ?_⟩, ?_⟩, ?_⟩
          · cases hs : splitOnPlus names with
            | nil => exact absurd hs (splitOnPlus_ne_nil _)
            | cons x y => rfl
          · simp only [List.all_eq_true, List.mem_map]
            rintro _ ⟨f, hf, rfl⟩
            simp only [fieldOk, str, String.toList_ofList, List.all_eq_true, Bool.and_eq_true, bne_iff_ne, ne_eq]
            intro c hc
            have hcf := mem_of_mem_strip hc
            have := mem_splitOnPlus hf c hcf
            exact ⟨this.1, (bodyColon_pre hb).1 c this.2⟩
          · simpa [isStructChar] using hall
        · cases h

def dispatch (tbl : CodeTable) (line cmd : List Char) : Except Err (Option Pil.Stmt) :=
  let rest := line.drop cmd.length
  if cmd == "sequence".toList then (parseSeq tbl rest).map some
  else if cmd == "super-sequence".toList || cmd == "sup-sequence".toList then (parseSup rest).map some
  else if cmd == "strand".toList then (parseStrand rest).map some
  else if cmd == "structure".toList then (parseStruct rest).map some
  else if cmd == "equal".toList then .ok (some (.equal (((words line).drop 1).map str)))
  else if cmd == "kinetic".toList then .ok none
  else .error .command

theorem parseLine_dispatch (tbl : CodeTable) (line : List Char) :
    parseLine tbl line = dispatch tbl line (match words line with | w :: _ => w | [] => []) := rfl

theorem parseLine_wf {tbl : CodeTable} {line : List Char} {s : Pil.Stmt} (h : parseLine tbl line = .ok (some s)) :
    stmtWF tbl s = true := by
  rw [parseLine_dispatch] at h
  generalize (match words line with | w :: _ => w | [] => []) = cmd at h
  unfold dispatch at h
  simp only [] at h
  have inv : ∀ {r : Except Err Pil.Stmt}, r.map some = .ok (some s) → r = .ok s := by
    intro r hr
    cases r with
    | error e => cases hr
    | ok x => cases hr; rfl
  split at h
  · exact parseSeq_wf (inv h)
  · split at h
    · exact parseSup_wf (inv h)
    · split at h
      · exact parseStrand_wf (inv h)
      · split at h
        · exact parseStruct_wf (inv h)
        · split at h
          · cases h
            simp only [stmtWF, List.all_eq_true, List.mem_map]
            rintro _ ⟨w, hw, rfl⟩
            obtain ⟨h1, h2, _⟩ := mem_words (List.mem_of_mem_drop hw)
            simp only [tokenOk, str, String.toList_ofList, Bool.and_eq_true, Bool.not_eq_true', List.all_eq_true,
              List.isEmpty_eq_false_iff]
            exact ⟨h1, fun c hc => by simp [h2 c hc]⟩
          · split at h
            · cases h
            · cases h

theorem parseLines_wf {tbl : CodeTable} : ∀ {L : List (List Char × Bool)} {ss : List Pil.Stmt},
    parseLines tbl L = .ok ss → ∀ s ∈ ss, stmtWF tbl s = true
  | [], ss, h => by cases h; exact fun _ hs => nomatch hs
  | (l, t) :: r, ss, h => by
    rw [parseLines_cons] at h
    split at h
    · exact parseLines_wf h
    · split at h
      · cases h
      · exact parseLines_wf h
      · rename_i s0 hp
        split at h
        · rename_i ss' hr
          cases h
          intro s hs
          rcases List.mem_cons.mp hs with rfl | hs
          · exact parseLine_wf hp
          · exact parseLines_wf hr s hs
        · cases h

/-! ### what follows from the reader's table and from `Pil.load` -/

/-- no code letter of the table is white space, `:` or `#` (decidable; true of the generated tables) -/
def tableCharsOk (tbl : CodeTable) : Bool :=
  tbl.codes.all (fun c => c != ':' && !isWs c && c != '#')

theorem assoc_isSome_mem {β : Type} : ∀ (l : List (Char × β)) (c : Char), (assoc l c).isSome = true → c ∈ l.map (·.1)
  | [], _, h => by simp [assoc] at h
  | (a, b) :: r, c, h => by
    unfold assoc at h
    by_cases hac : (a == c) = true
    · have : a = c := by simpa using hac
      subst this; simp
    · rw [if_neg hac] at h
      exact List.mem_cons_of_mem _ (assoc_isSome_mem r c h)

theorem isCode_chars {tbl : CodeTable} (ht : tableCharsOk tbl = true) {c : Char} (hc : tbl.isCode c = true) :
    (tbl.isCode c && c != ':' && !isWs c && c != '#') = true := by
  have hm : c ∈ tbl.codes := assoc_isSome_mem tbl.group c hc
  have := List.all_eq_true.mp ht c hm
  simp only [Bool.and_eq_true] at this ⊢
  exact ⟨⟨⟨hc, this.1.1⟩, this.1.2⟩, this.2⟩

/-- every statement of a list `Pil.load` accepts was accepted by `Spec.add` in some state -/
theorem load_mem {tbl : CodeTable} : ∀ {stmts : List Pil.Stmt} {s0 spec : Pil.Spec},
    Pil.load tbl stmts s0 = .ok spec → ∀ st ∈ stmts, ∃ s s', Pil.Spec.add tbl s st = .ok s'
  | [], _, _, _, _, h => nomatch h
  | x :: r, s0, spec, h, st, hst => by
    unfold Pil.load at h
    cases ha : Pil.Spec.add tbl s0 x with
    | error e => rw [ha] at h; cases h
    | ok s1 =>
      rw [ha] at h
      rcases List.mem_cons.mp hst with rfl | hst
      · exact ⟨s0, s1, ha⟩
      · exact load_mem h st hst

theorem add_seq_codes {tbl : CodeTable} {s s' : Pil.Spec} {n : String} {t : List Char}
    (h : Pil.Spec.add tbl s (.seq n t) = .ok s') : t.all tbl.isCode = true := by
  simp only [Pil.Spec.add] at h
  split at h
  · cases h
  · split at h
    · cases h
    · rename_i hc
      simpa using hc

theorem splitPlus_ne_nil : ∀ (l : List Char), Pil.splitPlus l ≠ []
  | [] => by simp [Pil.splitPlus]
  | c :: r => by
    unfold Pil.splitPlus
    cases Pil.splitPlus r with
    | nil => simp
    | cons h t => by_cases hc : (c == '+') = true <;> simp [hc]

theorem add_struct_shape {tbl : CodeTable} {s s' : Pil.Spec} {n : String} {p : Option String} {ss : List String}
    {st : List Char} (h : Pil.Spec.add tbl s (.struct n p ss st) = .ok s') :
    st.all isStructChar = true ∧ ss.isEmpty = false := by
  simp only [Pil.Spec.add, bind, Except.bind] at h
  split at h
  · cases h
  · split at h
    · cases h
    · rename_i objs hobjs
      split at h
      · cases h
      · rename_i hch
        split at h
        · cases h
        · split at h
          · cases h
          · rename_i hlen
            have hch' : st.all (fun c => c == '.' || c == '(' || c == ')' || c == '+') = true := by
              cases hx : st.all (fun c => c == '.' || c == '(' || c == ')' || c == '+') with
              | true => rfl
              | false => rw [hx] at hch; exact absurd rfl hch
            refine ⟨hch', ?_⟩
            cases ss with
            | nil =>
              simp only [List.mapM_nil, pure, Except.pure, Except.ok.injEq] at hobjs
              subst hobjs
              exfalso
              apply hlen
              cases hs : Pil.splitPlus st with
              | nil => exact absurd hs (splitPlus_ne_nil st)
              | cons a b => simp
            | cons a b => rfl

/-- the names part of `compEmitOk` (and the printed numerals): nothing about templates or structure texts -/
def compNamesOk (s : Comp.St) : Bool :=
  (s.baseSeqs.filter (·.len != 0)).all (fun e => nameOk (s.pfx ++ e.name)) &&
  (s.supSeqs.filter (·.len != 0)).all (fun e => nameOk (s.pfx ++ e.name) &&
    (e.items.filter (!·.dummy)).all (fun i => nameOk (s.pfx ++ i.name))) &&
  s.strands.all (fun e => nameOk (s.pfx ++ e.name) &&
    (e.items.filter (!·.dummy)).all (fun i => nameOk (s.pfx ++ i.name))) &&
  s.structs.all (fun e => nameOk (s.pfx ++ e.name) && e.opt.fmtG.all isParamChar &&
    e.strands.all (fun n => nameOk (s.pfx ++ n))) &&
  s.kins.all (fun k => (k.ins ++ k.outs).all (fun n => nameOk (s.pfx ++ n)) && decOk k.low && decOk k.high)

/-- no structure has an empty text (the compiler refuses zero-length strands) -/
def structsNonempty (s : Comp.St) : Bool := s.structs.all (fun e => !e.struct.isEmpty)

/-- **`compEmitOk` from the names, given that the reader's object model accepts the statements**: the template
    letters are codes (and codes are no white space, `:`, `#`), structure texts are over `.()+`, and every structure has
    a strand, because `Pil.load` checks exactly that -/
theorem compEmitOk_of_load {tbl : CodeTable} (ht : tableCharsOk tbl = true) {st : Comp.St} {s0 spec : Pil.Spec}
    {pre post : List Pil.Stmt} (hload : Pil.load tbl (pre ++ Emit.compStmts st ++ post) s0 = .ok spec)
    (hn : compNamesOk st = true) (hne : structsNonempty st = true) : compEmitOk tbl st = true := by
  have hmem := load_mem hload
  simp only [compNamesOk, Bool.and_eq_true, List.all_eq_true] at hn
  obtain ⟨⟨⟨⟨h1, h2⟩, h3⟩, h4⟩, h5⟩ := hn
  simp only [structsNonempty, List.all_eq_true] at hne
  simp only [compEmitOk, Bool.and_eq_true, List.all_eq_true]
  refine ⟨⟨⟨⟨?_, h2⟩, h3⟩, ?_⟩, h5⟩
  · intro e he
    refine ⟨h1 e he, ?_⟩
    obtain ⟨s, s', hadd⟩ := hmem (.seq (st.pfx ++ e.name) e.const) (by
      simp only [Emit.compStmts, List.mem_append, List.mem_map]
      exact Or.inl (Or.inr (Or.inl (Or.inl (Or.inl ⟨e, he, rfl⟩)))))
    intro c hc
    have := isCode_chars ht (List.all_eq_true.mp (add_seq_codes hadd) c hc)
    simpa only [Bool.and_eq_true] using this
  · intro e he
    obtain ⟨⟨hnm, hg⟩, hs⟩ := h4 e he
    obtain ⟨s, s', hadd⟩ := hmem (.struct (st.pfx ++ e.name) (some (String.ofList e.opt.fmtG ++ "nt"))
        (e.strands.map (st.pfx ++ ·)) e.struct) (by
      simp only [Emit.compStmts, List.mem_append, List.mem_map]
      exact Or.inl (Or.inr (Or.inr ⟨e, he, rfl⟩)))
    obtain ⟨hch, hss⟩ := add_struct_shape hadd
    refine ⟨⟨⟨⟨⟨hnm, hg⟩, ?_⟩, hs⟩, hne e he⟩, List.all_eq_true.mp hch⟩
    cases hes : e.strands with
    | nil => rw [hes] at hss; cases hss
    | cons a b => rfl

mutual
/-- the names part of `instEmitOk` over a tree (`compNamesOk` at the leaves, the signal and port names of `equal`
    lines at the systems) -/
def instNamesOk : Sys.Inst → Bool
  | .comp st => compNamesOk st
  | .sys st => sysNamesOk st
def sysNamesOk : Sys.SysSt → Bool
  | .mk _ _ pfx _ signals _ components _ _ => compsNamesOk components && signalsEmitOk pfx signals
def compsNamesOk : List (String × Sys.Inst) → Bool
  | [] => true
  | (_, i) :: r => instNamesOk i && compsNamesOk r
end

mutual
/-- `structsNonempty` at every component of a tree -/
def instStructsNonempty : Sys.Inst → Bool
  | .comp st => structsNonempty st
  | .sys st => sysStructsNonempty st
def sysStructsNonempty : Sys.SysSt → Bool
  | .mk _ _ _ _ _ _ components _ _ => compsStructsNonempty components
def compsStructsNonempty : List (String × Sys.Inst) → Bool
  | [] => true
  | (_, i) :: r => instStructsNonempty i && compsStructsNonempty r
end

mutual
theorem instEmitOk_of_load {tbl : CodeTable} (ht : tableCharsOk tbl = true) (hN : tbl.isCode 'N' = true) :
    ∀ (i : Sys.Inst) (pre post : List Pil.Stmt) (s0 spec : Pil.Spec),
      Pil.load tbl (pre ++ Emit.instStmts i ++ post) s0 = .ok spec → instNamesOk i = true →
      instStructsNonempty i = true → instEmitOk tbl i = true
  | .comp st, pre, post, s0, spec, hl, hn, hz => by
    simp only [instNamesOk] at hn
    simp only [instStructsNonempty] at hz
    simp only [instEmitOk]
    exact compEmitOk_of_load ht (by simpa [Emit.instStmts] using hl) hn hz
  | .sys (.mk p n pfx t sg l c is os), pre, post, s0, spec, hl, hn, hz => by
    simp only [instNamesOk, sysNamesOk, Bool.and_eq_true] at hn
    simp only [instStructsNonempty, sysStructsNonempty] at hz
    simp only [instEmitOk, sysEmitOk, Bool.and_eq_true]
    refine ⟨⟨compsEmitOk_of_load ht hN c pre (sg.flatMap (sigStmts pfx l) ++ post) s0 spec ?_ hn.1 hz, hN⟩, hn.2⟩
    simp only [Emit.instStmts, sysStmts_eq] at hl
    simpa only [List.append_assoc] using hl
theorem compsEmitOk_of_load {tbl : CodeTable} (ht : tableCharsOk tbl = true) (hN : tbl.isCode 'N' = true) :
    ∀ (c : List (String × Sys.Inst)) (pre post : List Pil.Stmt) (s0 spec : Pil.Spec),
      Pil.load tbl (pre ++ Emit.compsStmts c ++ post) s0 = .ok spec → compsNamesOk c = true →
      compsStructsNonempty c = true → compsEmitOk tbl c = true
  | [], _, _, _, _, _, _, _ => rfl
  | (_, i) :: r, pre, post, s0, spec, hl, hn, hz => by
    simp only [compsNamesOk, Bool.and_eq_true] at hn
    simp only [compsStructsNonempty, Bool.and_eq_true] at hz
    simp only [compsEmitOk, Bool.and_eq_true]
    simp only [Emit.compsStmts] at hl
    refine ⟨instEmitOk_of_load ht hN i pre (Emit.compsStmts r ++ post) s0 spec ?_ hn.1 hz.1,
      compsEmitOk_of_load ht hN r (pre ++ Emit.instStmts i) post s0 spec ?_ hn.2 hz.2⟩
    · simpa only [List.append_assoc] using hl
    · simpa only [List.append_assoc] using hl
end

end Pepper.ParsePil
