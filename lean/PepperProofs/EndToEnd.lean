import PepperModel.Mfe
import PepperProofs.SysPil
import PepperProofs.Finish
import PepperProofs.LoadInvSys
import PepperProofs.ConstraintGenSimT
/-!
# C06 end to end: vocabulary (readable in a minute) and the lemmas every stage shares

The chain: compile (`Sys.loadFile` ↦ `Inst`) → emitted PIL (`Emit.instStmts`) → `Pil.load` ↦ `spec` →
`getConstraints` ↦ arrays `a` → any nucleotide string `nts` with `ArraysGood a nts` → `Mfe.processResults` →
`Mfe.output` (the `.mfe` records `mfeRecs`) → `Finish.apply` on the saved tree ↦ `out` → `SatSrc`.

* `ArraysGood a nts` — the designer's contract: `nts` satisfies the emitted arrays.
* `spell asg l` — the letters of a region under an assignment of bases to domain positions.
* `letter` / `spellT` — what the tool chain really writes for a region: the designed base where the domain
  position lies on some strand, and — *an undesigned sequence keeps its template* — the template code (complemented
  for a starred occurrence) where it does not.
* `Entries`, `SatSrc t d out` — the finished output `out` satisfies the design `d` the SOURCE denotes.
* `mfeRecs`, `mfeDesign` — the records of the `.mfe` file and the `name ↦ sequence` list `finish` reads.
* stage interfaces: `StartOk` (layout), `Good` (state after `process_results`), `CompIn` / `TreeIn`
  (a component of the saved tree sits in the loaded specification as its PIL objects), `MfeNamesDistinct`
  (the `.mfe` file has ONE namespace for structures, sequences and starred sequences: known finding F13).
-/
namespace Pepper.EndToEnd
open Pepper Pepper.Pil Pepper.ConstraintGen Pepper.LinkSpec

/-! ## the designer's contract -/

/-- **the nucleotide string satisfies the emitted constraint arrays** (`a = (eq, wc, st)`, 0-based, `none` = blank /
    no partner): same length; a blank exactly where `st` is blank; elsewhere a base allowed by the code `st[i]`;
    equal to the letter at its representative `eq[i]`; complementary to the letter at `wc[i]` when there is one. -/
structure ArraysGood (a : Arrays) (nts : List Char) : Prop where
  len : nts.length = a.1.length
  blank : ∀ i : Nat, a.2.2[i]? = some none → nts[i]? = some ' '
  base : ∀ (i : Nat) (ch : Char), a.2.2[i]? = some (some ch) → ∃ b : Base, nts[i]? = some b.toChar ∧ allows Generated.pilTable ch b
  eq : ∀ i r : Nat, a.1[i]? = some (some r) → nts[i]? = nts[r]?
  wc : ∀ i w : Nat, a.2.1[i]? = some (some w) → ∀ b b' : Base, nts[i]? = some b.toChar → nts[w]? = some b'.toChar → b = b'.compl

/-! ## letters -/

/-- the letters of a region under an assignment of bases to the domain positions (complemented where flagged) -/
def spell (asg : Var → Base) (l : List Nuc) : List Char := l.map (fun n => (val asg n).toChar)

/-- the domain position lies on some strand of the design (so the designer assigns it) -/
def onStrand (d : Design) (v : Var) : Bool := d.strands.any (fun x => x.2.2.any (fun n => decide (n.var = v)))

/-- the letter the tool chain writes for a nucleotide: its base where the position lies on a strand; otherwise
    (an undesigned sequence keeps its template) the template code, complemented for a starred occurrence -/
def letter (t : CodeTable) (d : Design) (asg : Var → Base) (n : Nuc) : Char :=
  if onStrand d n.var then (val asg n).toChar
  else match templateOf d n.var with
    | some tc => if n.comp then t.complD tc else tc
    | none => ' '

def spellT (t : CodeTable) (d : Design) (asg : Var → Base) (l : List Nuc) : List Char := l.map (letter t d asg)

/-! ## the property's list -/

/-- the entries of the finished output against the design, under an assignment of bases:
    every strand entry spells the strand's nucleotides (its domains concatenated, starred ones reverse-complemented)
    and carries the strand's dummy flag; every non-empty sequence entry named in the design spells its nucleotides
    (`spellT`: bases on designed positions, the template where the sequence is on no strand); every structure entry
    is the `+`-join of its strands' letters. -/
structure Entries (t : CodeTable) (d : Design) (asg : Var → Base) (out : Finish.Out) : Prop where
  strands : ∀ x ∈ d.strands, ∀ dm str, (x.1, dm, str) ∈ out.strands → dm = x.2.1 ∧ str = spell asg x.2.2
  seqs : ∀ x ∈ d.seqs, ∀ str, (x.1, str) ∈ out.seqs → str ≠ [] → str = spellT t d asg x.2
  structs : ∀ sd ∈ d.structs, ∀ str, (sd.name, str) ∈ out.structs →
    str = Finish.joinPlus (sd.strands.map (fun sn => spell asg (strandNucs d sn)))

/-- **the finished sequences satisfy the source**: some assignment of bases to the domain positions of the design `d`
    satisfies the design — every position allowed by its template, every `equals` entry (the ports bound to one
    signal) position-wise equal, every base pair of every structure's target Watson–Crick (`LinkSpec.Sat`) — and the
    entries of `out` are what it spells (`Entries`). -/
def SatSrc (t : CodeTable) (d : Design) (out : Finish.Out) : Prop :=
  ∃ asg : Var → Base, Sat t d asg ∧ Entries t d asg out

/-! ## tables -/

/-- the four bases are codes and complement as bases do -/
def complBases (t : CodeTable) : Bool :=
  t.complOf 'A' == some 'T' && t.complOf 'T' == some 'A' && t.complOf 'C' == some 'G' && t.complOf 'G' == some 'C'

/-! ## the `.mfe` records -/

/-- names written into the one namespace of the `.mfe` file -/
def mfeNames (spec : Spec) : List String :=
  spec.structs.map (·.name) ++ spec.seqs.flatMap (fun o => [o.name, o.name ++ "*"])

/-- no structure is named like a sequence or a starred sequence, and no two records share a name
    (violated by the known finding F13: `sequence X`, `structure X`) -/
def MfeNamesDistinct (spec : Spec) : Prop := (mfeNames spec).Nodup

instance (spec : Spec) : Decidable (MfeNamesDistinct spec) := by unfold MfeNamesDistinct; infer_instance

def mfeFields : List (List Char) := ["0.000000".toList, "GC".toList, "0".toList]

/-- the letters of the strand of that name -/
def strandVal (spec : Spec) (asg : Var → Base) (sn : String) : List Char :=
  spell asg (strandNucs (Pil.denote spec) sn)

/-- the records `Convert.output` writes after `process_results`: one per structure (the `+`-join of its strands),
    then for every sequence its letters and the starred record with their reverse complement -/
def mfeRecs (t : CodeTable) (spec : Spec) (asg : Var → Base) : List (List Char × Finish.Rec) :=
  (List.zip (List.range spec.structs.length) spec.structs).map (fun (p : Nat × StructObj) =>
      ((toString p.1).toList,
       (⟨p.2.name.toList, Mfe.joinPlus (p.2.strands.map (strandVal spec asg)), mfeFields, p.2.struct, p.2.struct⟩ : Finish.Rec)))
  ++ (List.zip (List.range spec.seqs.length) spec.seqs).flatMap (fun (p : Nat × SeqObj) =>
      [((toString (p.1 + spec.structs.length)).toList,
        (⟨p.2.name.toList, spellT t (Pil.denote spec) asg (viewNucs p.2 false), mfeFields,
          List.replicate p.2.len '.', List.replicate p.2.len '.'⟩ : Finish.Rec)),
       ((toString 0).toList,
        (⟨(p.2.name ++ "*").toList, spellT t (Pil.denote spec) asg (viewNucs p.2 true), mfeFields,
          List.replicate p.2.len '.', List.replicate p.2.len '.'⟩ : Finish.Rec))])

/-- the lines of the `.mfe` file (the GC-content float is the opaque token `GC`) -/
def mfeLines (t : CodeTable) (spec : Spec) (asg : Var → Base) : List String :=
  (Finish.renderLines (mfeRecs t spec asg) "0.000000".toList).map String.ofList

/-- what the `.mfe` reader hands to `apply_design` -/
def mfeDesign (t : CodeTable) (spec : Spec) (asg : Var → Base) : List (List Char × List Char) :=
  (mfeRecs t spec asg).map (fun x => (x.2.name, x.2.seq))

/-! ## stage interfaces -/

/-- `strand_start` as `process_results` reads it (the instantiation of the driver op `mfe-write`) -/
def startOf (mode : Layout) (spec : Spec) : StrandObj → Option Nat := fun st =>
  match strandIdx spec st.name with
  | some i => (layOf mode spec).strandStart.getD i none
  | none => none

/-- every strand has a start, and the designed string read there spells the strand -/
def StartOk (spec : Spec) (start : StrandObj → Option Nat) (nts : List Char) (asg : Var → Base) : Prop :=
  ∀ st ∈ spec.strands, ∃ p, start st = some p ∧ (nts.drop p).take st.len = spell asg (nucsOfBases st.bases)

/-- the state after `process_results`: every set sequence spells its nucleotides, all of them on strands; and the
    atomic sequence of every position that lies on a strand has been set -/
structure Good (spec : Spec) (asg : Var → Base) (a : Mfe.Assigned) : Prop where
  spells : ∀ n v, a.lookup n = some v → v ≠ [] → ∃ o, spec.findSeq n = some o ∧ v = spell asg (viewNucs o false) ∧
    ∀ m ∈ viewNucs o false, onStrand (Pil.denote spec) m.var = true
  covers : ∀ v, onStrand (Pil.denote spec) v = true → ∃ w, a.lookup v.dom = some w ∧ w ≠ []

/-- a component of the saved tree sits in the loaded specification as its PIL objects -/
structure CompIn (spec : Spec) (s : Comp.St) : Prop where
  wf : ∃ a, Comp.WF s a
  seqs : ∀ e ∈ s.seqs, e.len ≠ 0 → spec.findSeq (s.pfx ++ e.name) = some (Comp.pilObj s.pfx e)
  strands : ∀ x ∈ s.strands, spec.findStrand (s.pfx ++ x.name) = some (Comp.pilStrand s.pfx x)
  structs : ∀ e ∈ s.structs, Comp.pilStruct s.pfx s.strands e ∈ spec.structs

def TreeIn (spec : Spec) (inst : Sys.Inst) : Prop := ∀ s ∈ Finish.compsOf 64 inst, CompIn spec s

/-- the nucleotide is on a strand, or its position is declared with a code of the table -/
def Known (t : CodeTable) (d : Design) (n : Nuc) : Prop :=
  onStrand d n.var = true ∨ ∃ tc, templateOf d n.var = some tc ∧ t.isCode tc = true

/-! ## shared lemmas -/

theorem val_flip (asg : Var → Base) (n : Nuc) : val asg n.flip = (val asg n).compl := by
  unfold val Nuc.flip
  cases n.comp <;> simp [Base.compl_compl]

theorem spell_nil (asg : Var → Base) : spell asg [] = [] := rfl
theorem spell_append (asg : Var → Base) (a b : List Nuc) : spell asg (a ++ b) = spell asg a ++ spell asg b := by
  simp [spell]
theorem spell_length (asg : Var → Base) (l : List Nuc) : (spell asg l).length = l.length := by simp [spell]

theorem spellT_nil (t : CodeTable) (d : Design) (asg : Var → Base) : spellT t d asg [] = [] := rfl
theorem spellT_append (t : CodeTable) (d : Design) (asg : Var → Base) (a b : List Nuc) :
    spellT t d asg (a ++ b) = spellT t d asg a ++ spellT t d asg b := by simp [spellT]
theorem spellT_length (t : CodeTable) (d : Design) (asg : Var → Base) (l : List Nuc) :
    (spellT t d asg l).length = l.length := by simp [spellT]
theorem spellT_flatMap {α : Type} (t : CodeTable) (d : Design) (asg : Var → Base) (f : α → List Nuc) (l : List α) :
    spellT t d asg (l.flatMap f) = l.flatMap (fun x => spellT t d asg (f x)) := by
  induction l with
  | nil => rfl
  | cons x r ih => simp only [List.flatMap_cons, spellT_append, ih]

theorem spell_flatMap {α : Type} (asg : Var → Base) (f : α → List Nuc) (l : List α) :
    spell asg (l.flatMap f) = l.flatMap (fun x => spell asg (f x)) := by
  induction l with
  | nil => rfl
  | cons x r ih => simp only [List.flatMap_cons, spell_append, ih]

/-- on designed positions the written letters are the bases -/
theorem spellT_eq_spell {t : CodeTable} {d : Design} {asg : Var → Base} {l : List Nuc}
    (h : ∀ n ∈ l, onStrand d n.var = true) : spellT t d asg l = spell asg l := by
  unfold spellT spell
  apply List.map_congr_left
  intro n hn
  simp [letter, h n hn]

theorem onStrand_rc {d : Design} {l : List Nuc} (h : ∀ n ∈ l, onStrand d n.var = true) :
    ∀ n ∈ rc l, onStrand d n.var = true := by
  intro n hn
  simp only [rc, List.mem_map, List.mem_reverse] at hn
  obtain ⟨m, hm, rfl⟩ := hn
  exact h m hm

theorem Known.flip {t : CodeTable} {d : Design} {n : Nuc} (h : Known t d n) : Known t d n.flip := h

theorem known_rc {t : CodeTable} {d : Design} {l : List Nuc} (h : ∀ n ∈ l, Known t d n) : ∀ n ∈ rc l, Known t d n := by
  intro n hn
  simp only [rc, List.mem_map, List.mem_reverse] at hn
  obtain ⟨m, hm, rfl⟩ := hn
  exact (h m hm).flip

theorem base_toChar_cases (b : Base) : b.toChar = 'A' ∨ b.toChar = 'C' ∨ b.toChar = 'G' ∨ b.toChar = 'T' := by
  cases b <;> simp [Base.toChar]

theorem complBases_spec {t : CodeTable} (hB : complBases t = true) (b : Base) :
    t.complOf b.toChar = some b.compl.toChar := by
  simp only [complBases, Bool.and_eq_true, beq_iff_eq] at hB
  obtain ⟨⟨⟨h1, h2⟩, h3⟩, h4⟩ := hB
  cases b <;> simp [Base.toChar, Base.compl, h1, h2, h3, h4]

theorem complD_base {t : CodeTable} (hB : complBases t = true) (b : Base) : t.complD b.toChar = b.compl.toChar := by
  simp [CodeTable.complD, complBases_spec hB b]

theorem isCode_base {t : CodeTable} (hl : t.lawful = true) (hB : complBases t = true) (b : Base) :
    t.isCode b.toChar = true :=
  (CodeTable.complOf_isCode hl (complBases_spec hB b)).1

/-- the complement of the letter written for a nucleotide is the letter written for its partner -/
theorem complD_letter {t : CodeTable} (hl : t.lawful = true) (hB : complBases t = true) {d : Design}
    (asg : Var → Base) {n : Nuc} (hk : Known t d n) : t.complD (letter t d asg n) = letter t d asg n.flip := by
  have hv : n.flip.var = n.var := rfl
  unfold letter
  rw [hv]
  by_cases ho : onStrand d n.var = true
  · simp only [ho, if_true]
    rw [complD_base hB, val_flip]
  · simp only [ho, Bool.false_eq_true, if_false]
    rcases hk with hk | ⟨tc, htc, hc⟩
    · exact absurd hk ho
    · simp only [htc]
      cases hcomp : n.comp
      · simp [Nuc.flip, hcomp]
      · simp only [Nuc.flip, hcomp, Bool.not_true, if_true, Bool.false_eq_true, if_false]
        exact CodeTable.complD_complD hl hc

theorem letter_isCode {t : CodeTable} (hl : t.lawful = true) (hB : complBases t = true) {d : Design}
    (asg : Var → Base) {n : Nuc} (hk : Known t d n) : t.isCode (letter t d asg n) = true := by
  unfold letter
  by_cases ho : onStrand d n.var = true
  · simp only [ho, if_true]; exact isCode_base hl hB _
  · simp only [ho, Bool.false_eq_true, if_false]
    rcases hk with hk | ⟨tc, htc, hc⟩
    · exact absurd hk ho
    · simp only [htc]
      cases n.comp
      · simpa using hc
      · simpa using CodeTable.complD_isCode hl hc

/-- **reverse complement of written letters**: `wc(seq)` of what is written for a region is what is written for
    its reverse complement -/
theorem wcStr_spellT {t : CodeTable} (hl : t.lawful = true) (hB : complBases t = true) {d : Design}
    (asg : Var → Base) {l : List Nuc} (hk : ∀ n ∈ l, Known t d n) :
    t.wcStr (spellT t d asg l) = some (spellT t d asg (rc l)) := by
  rw [CodeTable.wcStr_eq hl]
  · congr 1
    unfold spellT rc
    rw [← List.map_reverse, List.map_map, List.map_map]
    apply List.map_congr_left
    intro n hn
    exact complD_letter hl hB asg (hk n (List.mem_reverse.1 hn))
  · intro c hc
    obtain ⟨n, hn, rfl⟩ := List.mem_map.1 hc
    exact letter_isCode hl hB asg (hk n hn)

/-- … and of designed letters -/
theorem wcStr_spell {t : CodeTable} (hB : complBases t = true) (asg : Var → Base) (l : List Nuc) :
    t.wcStr (spell asg l) = some (spell asg (rc l)) := by
  unfold CodeTable.wcStr spell rc
  rw [← List.map_reverse, List.map_map]
  induction l.reverse with
  | nil => rfl
  | cons n r ih =>
    rw [List.map_cons, List.mapM_cons, ih]
    simp only [Function.comp, complBases_spec hB, val_flip, List.map_cons, List.map_map]
    rfl

theorem strandNucs_denote (spec : Spec) (sn : String) :
    strandNucs (Pil.denote spec) sn = match spec.findStrand sn with
      | some st => nucsOfBases st.bases
      | none => [] := by
  unfold strandNucs Pil.denote Spec.findStrand
  simp only [List.find?_map, Function.comp_def]
  cases spec.strands.find? (fun x => x.name == sn) <;> rfl

theorem onStrand_iff {d : Design} {v : Var} :
    onStrand d v = true ↔ ∃ x ∈ d.strands, ∃ n ∈ x.2.2, n.var = v := by
  simp only [onStrand, List.any_eq_true, decide_eq_true_eq]

/-- every nucleotide of a strand of the specification lies on a strand -/
theorem onStrand_of_strand {spec : Spec} {st : StrandObj} (hst : st ∈ spec.strands) :
    ∀ n ∈ nucsOfBases st.bases, onStrand (Pil.denote spec) n.var = true := by
  intro n hn
  rw [onStrand_iff]
  exact ⟨(st.name, st.dummy, nucsOfBases st.bases), by
    simp only [Pil.denote, List.mem_map]; exact ⟨st, hst, rfl⟩, n, hn, rfl⟩

/-- the template of a declared position of the specification -/
theorem templateOf_denote {spec : Spec} (wf : SpecWF spec) {o : SeqObj} (ho : o ∈ spec.seqs) (hb : o.isSup = false)
    {k : Nat} (hk : k < o.len) : templateOf (Pil.denote spec) ⟨o.name, k⟩ = o.template[k]? := by
  unfold templateOf Pil.denote
  simp only [List.find?_map, Function.comp_def]
  have hmem : o ∈ spec.baseSeqs.filter (·.len != 0) := by
    simp only [Spec.baseSeqs, List.mem_filter, hb, Bool.not_false, and_true, bne_iff_ne, ne_eq]
    exact ⟨ho, by omega⟩
  have hfind : (spec.baseSeqs.filter (·.len != 0)).find? (fun x => x.name == o.name) = some o := by
    have hsub : (spec.baseSeqs.filter (·.len != 0)).Sublist spec.seqs :=
      List.Sublist.trans List.filter_sublist List.filter_sublist
    have hnd : ((spec.baseSeqs.filter (·.len != 0)).map (·.name)).Nodup :=
      List.Nodup.sublist (List.Sublist.map _ hsub) wf.seqNames
    generalize spec.baseSeqs.filter (·.len != 0) = L at hmem hnd
    induction L with
    | nil => cases hmem
    | cons x r ih =>
      simp only [List.find?_cons]
      by_cases hx : x.name = o.name
      · simp only [hx, beq_self_eq_true]
        rcases List.mem_cons.1 hmem with rfl | hr
        · rfl
        · exfalso
          simp only [List.map_cons, List.nodup_cons] at hnd
          exact hnd.1 (hx ▸ List.mem_map.2 ⟨o, hr, rfl⟩)
      · have : (x.name == o.name) = false := by simpa using hx
        simp only [this]
        rcases List.mem_cons.1 hmem with rfl | hr
        · exact absurd rfl hx
        · simp only [List.map_cons, List.nodup_cons] at hnd
          exact ih hr hnd.2
  rw [hfind]
  rfl

/-- the positions of an atomic sequence of the specification are known -/
theorem known_base {t : CodeTable} {spec : Spec} (wf : SpecWF spec) (ok : SpecCodes t spec) {o : SeqObj}
    (ho : o ∈ spec.seqs) (hb : o.isSup = false) : ∀ n ∈ fwd o.name o.len, Known t (Pil.denote spec) n := by
  intro n hn
  simp only [fwd, List.mem_map, List.mem_range] at hn
  obtain ⟨k, hk, rfl⟩ := hn
  right
  have hlen := (wf.base o ho hb).1
  obtain ⟨c, hc⟩ : ∃ c, o.template[k]? = some c := by
    have : k < o.template.length := by omega
    exact ⟨o.template[k], List.getElem?_eq_getElem this⟩
  refine ⟨c, by rw [templateOf_denote wf ho hb hk]; exact hc, ?_⟩
  have hob : o ∈ spec.baseSeqs := by
    simp only [Spec.baseSeqs, List.mem_filter, hb, Bool.not_false, and_true]; exact ho
  exact ok.templates o hob c (List.mem_of_getElem? hc)

theorem joinPlus_eq (l : List (List Char)) : Mfe.joinPlus l = Finish.joinPlus l := by
  induction l with
  | nil => rfl
  | cons a r ih =>
    cases r with
    | nil => rfl
    | cons b r' => simp only [Mfe.joinPlus, Finish.joinPlus, ih]

end Pepper.EndToEnd
