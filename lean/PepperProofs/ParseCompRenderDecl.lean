import PepperProofs.ParseCompRenderSeq
/-!
# `parse_render` for the declare line: `parse_signal` and `parse_declare_statement` on the canonical spelling
-/
namespace Pepper.ParseComp
open Pepper.Comp

/-! ### character classes of a port text and of the input/output part -/

/-- characters of a rendered port: `[\w-]`, `*`, `(`, `)` -/
def isPortCh (c : Char) : Bool := isName c || c == '*' || c == '(' || c == ')'

/-- characters of the text after the `:` of a declare line: blanks, port characters, `+` (and `-` of the arrow, a name character) -/
def isIOCh (c : Char) : Bool := isBlank c || isPortCh c || c == '+'

theorem portCh_cases {c : Char} (h : isPortCh c = true) : isName c = true ∨ c = '*' ∨ c = '(' ∨ c = ')' := by
  simpa [isPortCh, or_assoc] using h

theorem portCh_notSp {c : Char} (h : isPortCh c = true) : isSp c = false := by
  rcases portCh_cases h with h | rfl | rfl | rfl
  · exact name_notSp h
  · decide
  · decide
  · decide

theorem portCh_ne {c d : Char} (h : isPortCh c = true) (hd : isPortCh d = false) : c ≠ d := by
  rintro rfl
  rw [h] at hd
  cases hd

theorem ioCh_cases {c : Char} (h : isIOCh c = true) : isBlank c = true ∨ isPortCh c = true ∨ c = '+' := by
  simpa [isIOCh, or_assoc] using h

theorem ioCh_ne {c d : Char} (h : isIOCh c = true) (hd : isIOCh d = false) : c ≠ d := by
  rintro rfl
  rw [h] at hd
  cases hd

theorem ioCh_notNl {c : Char} (h : isIOCh c = true) : notNl c = true := by
  simp only [notNl, bne_iff_ne, ne_eq]
  exact ioCh_ne h (by decide)

theorem blank_io {c : Char} (h : isBlank c = true) : isIOCh c = true := by simp [isIOCh, h]
theorem portCh_io {c : Char} (h : isPortCh c = true) : isIOCh c = true := by simp [isIOCh, h]
theorem name_portCh {c : Char} (h : isName c = true) : isPortCh c = true := by simp [isPortCh, h]

/-! ### ports -/

theorem wfPort_iff {p : Port} : wfPort p = true ↔
    (p.seq.toList ≠ [] ∧ ∀ c ∈ p.seq.toList, isName c = true) ∧
      ∀ s, p.struct = some s → s.toList ≠ [] ∧ ∀ c ∈ s.toList, isName c = true := by
  obtain ⟨n, st, s⟩ := p
  cases s with
  | none => simp [wfPort, nameOk, nameOkL_iff]
  | some s => simp [wfPort, nameOk, nameOkL_iff]

theorem renderPort_chars {p : Port} (h : wfPort p = true) : ∀ c ∈ renderPortL p, isPortCh c = true := by
  obtain ⟨⟨_, hn⟩, hs⟩ := wfPort_iff.mp h
  obtain ⟨n, st, s⟩ := p
  intro c hc
  simp only [renderPortL, List.mem_append] at hc
  rcases hc with hc | hc | hc
  · exact name_portCh (hn c hc)
  · cases st <;> simp [starL] at hc
    subst hc; decide
  · cases s with
    | none => simp at hc
    | some s =>
      simp only [List.mem_cons, List.mem_append, List.not_mem_nil, or_false] at hc
      rcases hc with rfl | hc | rfl
      · decide
      · exact name_portCh ((hs s rfl).2 c hc)
      · decide

theorem renderPort_ne {p : Port} (h : wfPort p = true) : renderPortL p ≠ [] := by
  obtain ⟨⟨hne, _⟩, _⟩ := wfPort_iff.mp h
  intro e
  simp only [renderPortL, List.append_eq_nil_iff] at e
  exact hne e.1

/-- the optional `(structure)` part of a port -/
def portStructL : Option String → Str
  | some s => '(' :: (s.toList ++ [')'])
  | none => []

theorem renderPortL_eq (p : Port) : renderPortL p = p.seq.toList ++ (starL p.star ++ portStructL p.struct) := by
  obtain ⟨n, st, s⟩ := p
  cases s <;> rfl

theorem parseSignal_render (p : Port) (h : wfPort p = true) : parseSignal (renderPortL p) = .ok p := by
  obtain ⟨⟨hne, hn⟩, hs⟩ := wfPort_iff.mp h
  obtain ⟨n, st, s⟩ := p
  simp only at hne hn hs
  have key : reSig (renderPortL ⟨n, st, s⟩) = some (n.toList, st, s.map String.toList) := by
    unfold reSig
    rw [renderPortL_eq]
    simp only
    -- the optional structure group and the end, after the optional star
    have htail : ∀ (b : Bool),
        (alt (lit ['('] <| plus isName fun t => lit [')'] <| endZ (n.toList, b, some t)) (endZ (n.toList, b, none)))
          (portStructL s) = some (n.toList, b, s.map String.toList) := by
      intro b
      cases s with
      | none =>
        simp only [Option.map_none]
        rw [alt_right (by rfl)]
        rfl
      | some s =>
        obtain ⟨hsne, hsn⟩ := hs s rfl
        simp only [Option.map_some, portStructL]
        apply alt_left
        simp only [lit_cons_cons, if_true, lit_nil]
        apply plus_greedy hsne hsn (headNot_cons (by decide))
        simp
    cases st with
    | true =>
      apply plus_greedy hne hn (headNot_cons (by decide))
      apply alt_left
      exact htail true
    | false =>
      show plus isName _ (n.toList ++ portStructL s) = _
      apply plus_greedy hne hn
      · cases s with
        | none => exact headNot_nil
        | some s => exact headNot_cons (by decide)
      · rw [alt_right]
        · exact htail false
        · cases s with
          | none => rfl
          | some s => rfl
  unfold parseSignal
  rw [key]
  cases s with
  | none => simp only [String.ofList_toList, Option.map_none]
  | some s => simp only [String.ofList_toList, Option.map_some]

theorem mapM_parseSignal_render (ports : List Port) (hw : ∀ p ∈ ports, wfPort p = true) :
    (ports.map renderPortL).mapM parseSignal = .ok ports := by
  induction ports with
  | nil => rfl
  | cons p r ih =>
    simp only [List.map_cons, List.mapM_cons, parseSignal_render p (hw p (by simp)),
      ih (fun x hx => hw x (by simp [hx]))]
    rfl

/-! ### `[x.strip() for x in text.split(c) if x.strip()]` on joined texts -/

theorem decl_splitOn_noSep {c : Char} {a : Str} (h : c ∉ a) : splitOn c a = [a] := by
  induction a with
  | nil => rfl
  | cons x r ih =>
    have hx : x ≠ c := fun e => h (by simp [e])
    simp only [splitOn]
    rw [if_neg hx, ih (fun hm => h (by simp [hm]))]

theorem decl_splitOn_sep {c : Char} {a : Str} (b : Str) (h : c ∉ a) : splitOn c (a ++ c :: b) = a :: splitOn c b := by
  induction a with
  | nil => simp [splitOn]
  | cons x r ih =>
    have hx : x ≠ c := fun e => h (by simp [e])
    simp only [List.cons_append, splitOn]
    rw [if_neg hx, ih (fun hm => h (by simp [hm]))]

/-- a piece between separators: non-empty, without the separator, without white space at either end -/
def PieceOk (c : Char) (x : Str) : Prop := x ≠ [] ∧ c ∉ x ∧ HeadNot isSp x ∧ HeadNot isSp x.reverse

theorem decl_not_mem_sp {c : Char} (hc : isSp c = false) {s : Str} (hs : ∀ x ∈ s, isSp x = true) : c ∉ s := by
  intro hm
  rw [hs c hm] at hc
  cases hc

theorem decl_not_mem_pad {c : Char} (hc : isSp c = false) {pre x post : Str} (hpre : ∀ y ∈ pre, isSp y = true)
    (hpost : ∀ y ∈ post, isSp y = true) (hx : PieceOk c x) : c ∉ pre ++ (x ++ post) := by
  intro hm
  rcases List.mem_append.mp hm with hm | hm
  · exact decl_not_mem_sp hc hpre hm
  · rcases List.mem_append.mp hm with hm | hm
    · exact hx.2.1 hm
    · exact decl_not_mem_sp hc hpost hm

theorem decl_sse_blank {c : Char} (hc : isSp c = false) {s : Str} (hs : ∀ x ∈ s, isSp x = true) :
    splitStripNonEmpty c s = [] := by
  unfold splitStripNonEmpty
  rw [decl_splitOn_noSep (decl_not_mem_sp hc hs)]
  simp [strip_allSp hs]

theorem decl_sse_pad {c : Char} (hc : isSp c = false) {pre x post : Str} (hpre : ∀ y ∈ pre, isSp y = true)
    (hpost : ∀ y ∈ post, isSp y = true) (hx : PieceOk c x) : splitStripNonEmpty c (pre ++ (x ++ post)) = [x] := by
  unfold splitStripNonEmpty
  rw [decl_splitOn_noSep (decl_not_mem_pad hc hpre hpost hx)]
  simp [strip_pad hpre hpost hx.1 hx.2.2.1 hx.2.2.2, hx.1]

theorem decl_sse_pad_sep {c : Char} (hc : isSp c = false) {pre x post : Str} (b : Str) (hpre : ∀ y ∈ pre, isSp y = true)
    (hpost : ∀ y ∈ post, isSp y = true) (hx : PieceOk c x) :
    splitStripNonEmpty c ((pre ++ (x ++ post)) ++ c :: b) = x :: splitStripNonEmpty c b := by
  unfold splitStripNonEmpty
  rw [decl_splitOn_sep b (decl_not_mem_pad hc hpre hpost hx)]
  simp [strip_pad hpre hpost hx.1 hx.2.2.1 hx.2.2.2, hx.1]

theorem decl_sse_joinPlus {sp : Nat → Str} (hsp : SpOkL sp) (xs : List Str) (hx : ∀ x ∈ xs, PieceOk '+' x) :
    ∀ (i : Nat) (pre post : Str), (∀ y ∈ pre, isSp y = true) → (∀ y ∈ post, isSp y = true) →
      splitStripNonEmpty '+' (pre ++ (joinPlus sp i xs ++ post)) = xs := by
  have hplus : isSp '+' = false := by decide
  induction xs with
  | nil =>
    intro i pre post hpre hpost
    apply decl_sse_blank hplus
    intro y hy
    simp only [joinPlus, List.nil_append, List.mem_append] at hy
    rcases hy with hy | hy
    · exact hpre y hy
    · exact hpost y hy
  | cons a r ih =>
    intro i pre post hpre hpost
    cases r with
    | nil => exact decl_sse_pad hplus hpre hpost (hx a (by simp))
    | cons b r' =>
      have e : pre ++ (joinPlus sp i (a :: b :: r') ++ post) =
          (pre ++ (a ++ sp i)) ++ '+' :: (sp (i + 1) ++ (joinPlus sp (i + 2) (b :: r') ++ post)) := by
        simp [joinPlus]
      rw [e, decl_sse_pad_sep hplus _ hpre (hsp.sp i) (hx a (by simp)),
        ih (fun x hm => hx x (by simp [hm])) (i + 2) (sp (i + 1)) post (hsp.sp (i + 1)) hpost]

theorem decl_sse_joinComma {sp : Nat → Str} (hsp : SpOkL sp) (xs : List Str) (hx : ∀ x ∈ xs, PieceOk ',' x) :
    ∀ (i : Nat) (pre post : Str), (∀ y ∈ pre, isSp y = true) → (∀ y ∈ post, isSp y = true) →
      splitStripNonEmpty ',' (pre ++ (joinComma sp i xs ++ post)) = xs := by
  have hcomma : isSp ',' = false := by decide
  induction xs with
  | nil =>
    intro i pre post hpre hpost
    apply decl_sse_blank hcomma
    intro y hy
    simp only [joinComma, List.nil_append, List.mem_append] at hy
    rcases hy with hy | hy
    · exact hpre y hy
    · exact hpost y hy
  | cons a r ih =>
    intro i pre post hpre hpost
    cases r with
    | nil => exact decl_sse_pad hcomma hpre hpost (hx a (by simp))
    | cons b r' =>
      have e : pre ++ (joinComma sp i (a :: b :: r') ++ post) =
          (pre ++ (a ++ [])) ++ ',' :: (sp i ++ (joinComma sp (i + 1) (b :: r') ++ post)) := by
        simp [joinComma]
      rw [e, decl_sse_pad_sep hcomma _ hpre (by simp) (hx a (by simp)),
        ih (fun x hm => hx x (by simp [hm])) (i + 1) (sp i) post (hsp.sp i) hpost]

/-! ### the pieces of a declare line -/

theorem renderPort_piece {p : Port} (h : wfPort p = true) : PieceOk '+' (renderPortL p) := by
  refine ⟨renderPort_ne h, ?_, headNot_sp_of_all (renderPort_chars h) (fun _ hc => portCh_notSp hc)⟩
  intro hm
  exact portCh_ne (renderPort_chars h _ hm) (by decide) rfl

theorem paramOk_iff {p : String} : paramOk p = true ↔ p.toList ≠ [] ∧ ∀ c ∈ p.toList, isSp c = false ∧ c ≠ ',' := by
  simp [paramOk]

theorem param_piece {p : String} (h : paramOk p = true) : PieceOk ',' p.toList := by
  obtain ⟨hne, hall⟩ := paramOk_iff.mp h
  refine ⟨hne, fun hm => (hall _ hm).2 rfl, ?_⟩
  exact headNot_sp_of_all (cls := fun c => !isSp c) (fun c hc => by simp [(hall c hc).1]) (fun c hc => by simpa using hc)

theorem notSp_notNl {c : Char} (h : isSp c = false) : notNl c = true := by
  simp only [notNl, bne_iff_ne, ne_eq]
  rintro rfl
  exact absurd h (by decide)

theorem joinComma_notNl {sp : Nat → Str} (hsp : SpOkL sp) (ps : List String) (hw : ∀ p ∈ ps, paramOk p = true) (i : Nat) :
    ∀ c ∈ joinComma sp i (ps.map String.toList), notNl c = true := by
  induction ps generalizing i with
  | nil => simp [joinComma]
  | cons a r ih =>
    have ha : ∀ c ∈ a.toList, notNl c = true := fun c hc => notSp_notNl ((paramOk_iff.mp (hw a (by simp))).2 c hc).1
    cases r with
    | nil => simpa [joinComma] using ha
    | cons b r' =>
      intro c hc
      simp only [List.map_cons, joinComma, List.mem_append, List.mem_cons] at hc
      rcases hc with hc | rfl | hc | hc
      · exact ha c hc
      · decide
      · exact blank_notNl (hsp.blank i c hc)
      · exact ih (fun x hx => hw x (by simp [hx])) (i + 1) c (by simpa [List.map_cons] using hc)

theorem joinPlus_io {sp : Nat → Str} (hsp : SpOkL sp) (ports : List Port) (hw : ∀ p ∈ ports, wfPort p = true) (i : Nat) :
    ∀ c ∈ joinPlus sp i (ports.map renderPortL), isIOCh c = true := by
  induction ports generalizing i with
  | nil => simp [joinPlus]
  | cons a r ih =>
    have ha : ∀ c ∈ renderPortL a, isIOCh c = true := fun c hc => portCh_io (renderPort_chars (hw a (by simp)) c hc)
    cases r with
    | nil => simpa [joinPlus] using ha
    | cons b r' =>
      intro c hc
      simp only [List.map_cons, joinPlus, List.mem_append, List.mem_cons] at hc
      rcases hc with hc | hc | rfl | hc | hc
      · exact ha c hc
      · exact blank_io (hsp.blank i c hc)
      · decide
      · exact blank_io (hsp.blank (i + 1) c hc)
      · exact ih (fun x hx => hw x (by simp [hx])) (i + 2) c (by simpa [List.map_cons] using hc)

/-! ### backtracking of the two greedy `.*` groups -/

/-- `\s+->` does not match anywhere after the arrow: the text behind it has no `>` -/
theorem decl_arrow_fail {α : Type} {k : K α} {c : Char} {Y : Str} (hY : '>' ∉ Y) {b1 b2 : Str}
    (e : c :: '-' :: '>' :: Y = b1 ++ b2) (hb1 : b1 ≠ []) : sp1 (lit ['-', '>'] k) b2 = none := by
  cases hres : sp1 (lit ['-', '>'] k) b2 with
  | none => rfl
  | some w =>
    exfalso
    obtain ⟨s, r, hs, hsne, hssp, hk⟩ := sp1_some hres
    obtain ⟨r', hr, _⟩ := lit_some hk
    subst hr
    cases s with
    | nil => exact hsne rfl
    | cons y s' =>
      have hy : isSp y = true := hssp y (by simp)
      subst hs
      cases b1 with
      | nil => exact hb1 rfl
      | cons x u1 =>
        simp only [List.cons_append, List.cons.injEq] at e
        obtain ⟨_, e⟩ := e
        cases u1 with
        | nil =>
          simp only [List.nil_append, List.cons.injEq] at e
          rw [← e.1] at hy
          exact absurd hy (by decide)
        | cons z u2 =>
          simp only [List.cons_append, List.cons.injEq] at e
          obtain ⟨_, e⟩ := e
          cases u2 with
          | nil =>
            simp only [List.nil_append, List.cons.injEq] at e
            rw [← e.1] at hy
            exact absurd hy (by decide)
          | cons z' u3 =>
            simp only [List.cons_append, List.cons.injEq] at e
            apply hY
            rw [e.2]
            simp

/-- `\):` does not match anywhere after the colon: the text behind it has no `:` -/
theorem decl_paren_fail {α : Type} {k : K α} {X : Str} (hX : ':' ∉ X) {b1 b2 : Str}
    (e : ')' :: ':' :: X = b1 ++ b2) (hb1 : b1 ≠ []) : lit [')'] (lit [':'] k) b2 = none := by
  cases hres : lit [')'] (lit [':'] k) b2 with
  | none => rfl
  | some w =>
    exfalso
    obtain ⟨r, hr, hk⟩ := lit_some hres
    obtain ⟨r', hr', _⟩ := lit_some hk
    subst hr'
    subst hr
    cases b1 with
    | nil => exact hb1 rfl
    | cons x u1 =>
      simp only [List.cons_append, List.cons.injEq] at e
      obtain ⟨_, e⟩ := e
      cases u1 with
      | nil =>
        simp only [List.nil_append, List.cons.injEq] at e
        exact absurd e.1 (by decide)
      | cons z u2 =>
        simp only [List.cons_append, List.cons.injEq] at e
        apply hX
        rw [e.2]
        simp

/-! ### the regular expression of the declare line -/

theorem ioCh_ne_gt {c : Char} (h : isIOCh c = true) : c ≠ '>' := ioCh_ne h (by decide)
theorem ioCh_ne_colon {c : Char} (h : isIOCh c = true) : c ≠ ':' := ioCh_ne h (by decide)

/-- `:(.*)\s+->(.*)\s*\Z` on the input/output part: the inputs group keeps the gaps around it except the last blank
    in front of the arrow, the outputs group keeps the gap in front of it -/
theorem declTail_render {sp : Nat → Str} (hsp : SpOkL sp) (name : Str) (p : Option Str) (d : Decl)
    (hi : ∀ x ∈ d.inputs, wfPort x = true) (ho : ∀ x ∈ d.outputs, wfPort x = true) :
    declTail name p (declIOL sp d) =
      some (name, p, sp 2 ++ (joinPlus sp 10 (d.inputs.map renderPortL) ++ (sp 3).dropLast),
        sp 4 ++ joinPlus sp 50 (d.outputs.map renderPortL)) := by
  have hJi := joinPlus_io hsp d.inputs hi 10
  have hJo := joinPlus_io hsp d.outputs ho 50
  have hY : ∀ x ∈ sp 4 ++ joinPlus sp 50 (d.outputs.map renderPortL), isIOCh x = true := by
    intro x hx
    rcases List.mem_append.mp hx with hx | hx
    · exact blank_io (hsp.blank 4 x hx)
    · exact hJo x hx
  obtain ⟨c, hsplit, hc, hdl⟩ := hsp.split 3
  unfold declTail
  simp only [declIOL, lit_cons_cons, if_true, lit_nil]
  generalize (sp 3).dropLast = A at hsplit hdl ⊢
  rw [hsplit]
  have hassoc : sp 2 ++ (joinPlus sp 10 (d.inputs.map renderPortL) ++ ((A ++ [c]) ++
        ('-' :: '>' :: (sp 4 ++ joinPlus sp 50 (d.outputs.map renderPortL))))) =
      (sp 2 ++ (joinPlus sp 10 (d.inputs.map renderPortL) ++ A)) ++
        ((c :: '-' :: '>' :: (sp 4 ++ joinPlus sp 50 (d.outputs.map renderPortL))) ++ []) := by simp
  rw [hassoc]
  apply star_first (pre := [])
  · intro x hx
    simp only [List.mem_append] at hx
    rcases hx with hx | hx | hx
    · exact blank_notNl (hsp.blank 2 x hx)
    · exact ioCh_notNl (hJi x hx)
    · exact blank_notNl (hdl x hx)
  · intro x hx
    simp only [List.mem_cons] at hx
    rcases hx with rfl | rfl | rfl | hx
    · exact blank_notNl hc
    · decide
    · decide
    · exact ioCh_notNl (hY x hx)
  · exact headNot_nil
  · intro b1 b2 e hb1
    simp only [List.append_nil]
    exact decl_arrow_fail (fun hm => ioCh_ne_gt (hY _ hm) rfl) e hb1
  · simp only [List.nil_append, List.append_nil]
    have := sp1_greedy (k := lit ['-', '>'] <| star notNl (fun outs => endZ (name, p,
        sp 2 ++ (joinPlus sp 10 (d.inputs.map renderPortL) ++ A), outs)) []) (run := [c])
      (rest := '-' :: '>' :: (sp 4 ++ joinPlus sp 50 (d.outputs.map renderPortL)))
      (v := (name, p, sp 2 ++ (joinPlus sp 10 (d.inputs.map renderPortL) ++ A),
        sp 4 ++ joinPlus sp 50 (d.outputs.map renderPortL)))
      (by simp) (by simpa using blank_isSp hc) (headNot_cons (by decide)) (by
        simp only [lit_cons_cons, if_true, lit_nil]
        have := star_greedy (cls := notNl) (k := fun outs => endZ (name, p,
            sp 2 ++ (joinPlus sp 10 (d.inputs.map renderPortL) ++ A), outs)) (pre := [])
          (run := sp 4 ++ joinPlus sp 50 (d.outputs.map renderPortL)) (rest := [])
          (v := (name, p, sp 2 ++ (joinPlus sp 10 (d.inputs.map renderPortL) ++ A),
            sp 4 ++ joinPlus sp 50 (d.outputs.map renderPortL)))
          (fun x hx => ioCh_notNl (hY x hx)) headNot_nil (by simp)
        simpa using this)
    simpa using this

/-- the captured parameter text -/
def declParOpt (sp : Nat → Str) (ps : List String) : Option Str :=
  if ps.isEmpty then none else some (joinComma sp 5 (ps.map String.toList))

theorem declIOL_notNl {sp : Nat → Str} (hsp : SpOkL sp) (d : Decl)
    (hi : ∀ x ∈ d.inputs, wfPort x = true) (ho : ∀ x ∈ d.outputs, wfPort x = true) :
    ∀ c ∈ declIOL sp d, notNl c = true := by
  intro c hc
  simp only [declIOL, List.mem_cons, List.mem_append] at hc
  rcases hc with rfl | hc | hc | hc | rfl | rfl | hc | hc
  · decide
  · exact blank_notNl (hsp.blank 2 c hc)
  · exact ioCh_notNl (joinPlus_io hsp d.inputs hi 10 c hc)
  · exact blank_notNl (hsp.blank 3 c hc)
  · decide
  · decide
  · exact blank_notNl (hsp.blank 4 c hc)
  · exact ioCh_notNl (joinPlus_io hsp d.outputs ho 50 c hc)

/-- no `:` after the first character of the input/output part -/
theorem declIOL_colon {sp : Nat → Str} (hsp : SpOkL sp) (d : Decl)
    (hi : ∀ x ∈ d.inputs, wfPort x = true) (ho : ∀ x ∈ d.outputs, wfPort x = true) :
    ∃ X, declIOL sp d = ':' :: X ∧ ':' ∉ X := by
  refine ⟨_, rfl, ?_⟩
  intro hc
  simp only [List.mem_cons, List.mem_append] at hc
  rcases hc with hc | hc | hc | hc | hc | hc | hc
  · exact absurd (hsp.blank 2 _ hc) (by decide)
  · exact ioCh_ne_colon (joinPlus_io hsp d.inputs hi 10 _ hc) rfl
  · exact absurd (hsp.blank 3 _ hc) (by decide)
  · exact absurd hc (by decide)
  · exact absurd hc (by decide)
  · exact absurd (hsp.blank 4 _ hc) (by decide)
  · exact ioCh_ne_colon (joinPlus_io hsp d.outputs ho 50 _ hc) rfl

theorem wfDecl_iff {d : Decl} : wfDecl d = true ↔
    nameOk d.name = true ∧ (∀ p ∈ d.params, paramOk p = true) ∧ (∀ x ∈ d.inputs, wfPort x = true) ∧
      ∀ x ∈ d.outputs, wfPort x = true := by
  simp [wfDecl, and_assoc]

theorem reDecl_render {sp : Nat → Str} (hsp : SpOkL sp) (d : Decl) (h : wfDecl d = true) :
    reDecl (renderDeclL sp d) =
      some (d.name.toList, declParOpt sp d.params,
        sp 2 ++ (joinPlus sp 10 (d.inputs.map renderPortL) ++ (sp 3).dropLast),
        sp 4 ++ joinPlus sp 50 (d.outputs.map renderPortL)) := by
  obtain ⟨hn, hp, hi, ho⟩ := wfDecl_iff.mp h
  obtain ⟨hnne, hnall⟩ := nameOkL_iff.mp hn
  unfold reDecl
  simp only [renderDeclL]
  rw [lit_append]
  apply sp1_greedy (hsp.ne 0) (hsp.sp 0) (by exact headNot_cons (by decide))
  rw [lit_append]
  apply sp1_greedy (hsp.ne 1) (hsp.sp 1) (name_headNot_sp hnne hnall _)
  cases hps : d.params with
  | nil =>
    have e1 : declParL sp [] = [] := rfl
    have e2 : declParOpt sp [] = none := rfl
    rw [e1, e2, List.nil_append]
    apply plus_greedy hnne hnall (by exact headNot_cons (by decide))
    rw [alt_right (lit_none_head (by exact headNot_cons (by decide)))]
    exact declTail_render hsp _ _ d hi ho
  | cons q qs =>
    have e1 : declParL sp (q :: qs) = '(' :: (joinComma sp 5 ((q :: qs).map String.toList) ++ [')']) := rfl
    have e2 : declParOpt sp (q :: qs) = some (joinComma sp 5 ((q :: qs).map String.toList)) := rfl
    rw [e1, e2]
    apply plus_greedy hnne hnall (by exact headNot_cons (by decide))
    apply alt_left
    simp only [List.cons_append, lit_cons_cons, if_true, lit_nil]
    have hassoc : joinComma sp 5 ((q :: qs).map String.toList) ++ [')'] ++ declIOL sp d =
        joinComma sp 5 ((q :: qs).map String.toList) ++ ((')' :: declIOL sp d) ++ []) := by simp
    rw [hassoc]
    obtain ⟨X, hX, hXc⟩ := declIOL_colon hsp d hi ho
    apply star_first (pre := [])
    · exact joinComma_notNl hsp (q :: qs) (by rw [← hps]; exact hp) 5
    · intro x hx
      rcases List.mem_cons.mp hx with rfl | hx
      · decide
      · exact declIOL_notNl hsp d hi ho x hx
    · exact headNot_nil
    · intro b1 b2 e hb1
      simp only [List.append_nil]
      rw [hX] at e
      unfold declTail
      exact decl_paren_fail hXc e hb1
    · simp only [List.nil_append, List.append_nil, lit_cons_cons, if_true, lit_nil]
      exact declTail_render hsp _ _ d hi ho

/-! ### assembly -/

theorem parseDeclareL_render {sp : Nat → Str} (hsp : SpOkL sp) (d : Decl) (h : wfDecl d = true) :
    parseDeclareL (renderDeclL sp d) = .ok d := by
  obtain ⟨hn, hp, hi, ho⟩ := wfDecl_iff.mp h
  obtain ⟨name, params, inputs, outputs⟩ := d
  simp only at hn hp hi ho
  have hdl : ∀ y ∈ (sp 3).dropLast, isSp y = true := by
    obtain ⟨_, _, _, hd⟩ := hsp.split 3
    exact fun y hy => blank_isSp (hd y hy)
  have hins : splitStripNonEmpty '+' (sp 2 ++ (joinPlus sp 10 (inputs.map renderPortL) ++ (sp 3).dropLast)) =
      inputs.map renderPortL :=
    decl_sse_joinPlus hsp _ (by
      intro x hx
      obtain ⟨p, hp, rfl⟩ := List.mem_map.mp hx
      exact renderPort_piece (hi p hp)) 10 _ _ (hsp.sp 2) hdl
  have houts : splitStripNonEmpty '+' (sp 4 ++ joinPlus sp 50 (outputs.map renderPortL)) =
      outputs.map renderPortL := by
    have := decl_sse_joinPlus hsp (outputs.map renderPortL) (by
      intro x hx
      obtain ⟨p, hp, rfl⟩ := List.mem_map.mp hx
      exact renderPort_piece (ho p hp)) 50 (sp 4) [] (hsp.sp 4) (by simp)
    simpa using this
  unfold parseDeclareL
  rw [reDecl_render hsp _ h]
  simp only
  rw [hins, houts, mapM_parseSignal_render _ hi, mapM_parseSignal_render _ ho]
  simp only [String.ofList_toList]
  cases params with
  | nil => rfl
  | cons q qs =>
    have e2 : declParOpt sp (q :: qs) = some (joinComma sp 5 ((q :: qs).map String.toList)) := rfl
    rw [e2]
    simp only
    have := decl_sse_joinComma hsp ((q :: qs).map String.toList) (by
      intro x hx
      obtain ⟨p, hpm, rfl⟩ := List.mem_map.mp hx
      exact param_piece (hp p hpm)) 5 [] [] (by simp) (by simp)
    simp only [List.nil_append, List.append_nil] at this
    rw [this, List.map_map]
    have hid : (String.ofList ∘ String.toList) = id := by
      funext x
      simp
    rw [hid, List.map_id]

end Pepper.ParseComp
