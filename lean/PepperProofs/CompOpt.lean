import PepperProofs.CompInv
import PepperModel.Denote
/-!
# The optimisation bracket: source denotation and emitted PIL text agree (C01)
-/
set_option linter.unusedSimpArgs false
namespace Pepper.Comp

/-- the optimisation parameter a stored decimal denotes -/
def optD (d : Dec) : Opt :=
  if d.frac.all (· == '0') then
    (if (stripZeros d.int).foldl (fun a c => a * 10 + (c.toNat - 48)) 0 == 0 then Opt.noOpt
     else Opt.nt ((stripZeros d.int).foldl (fun a c => a * 10 + (c.toNat - 48)) 0))
  else Opt.other (String.ofList d.fmtG)

/-! ### list helpers -/

theorem takeWhile_append_stop {p : Char → Bool} {l : List Char} {c : Char} {r : List Char}
    (hl : l.all p = true) (hc : p c = false) : (l ++ c :: r).takeWhile p = l := by
  induction l with
  | nil => simp [List.takeWhile, hc]
  | cons a l ih =>
    simp only [List.all_cons, Bool.and_eq_true] at hl
    simp [List.takeWhile, hl.1, ih hl.2]

theorem dropWhile_append_stop {p : Char → Bool} {l : List Char} {c : Char} {r : List Char}
    (hl : l.all p = true) (hc : p c = false) : (l ++ c :: r).dropWhile p = c :: r := by
  induction l with
  | nil => simp [List.dropWhile, hc]
  | cons a l ih =>
    simp only [List.all_cons, Bool.and_eq_true] at hl
    simp [List.dropWhile, hl.1, ih hl.2]

theorem all_takeWhile (p : Char → Bool) (l : List Char) : (l.takeWhile p).all p = true := by
  induction l with
  | nil => simp
  | cons a l ih =>
    by_cases ha : p a = true
    · simp [List.takeWhile, ha, ih]
    · simp [List.takeWhile, ha]

theorem all_dropWhile {p q : Char → Bool} {l : List Char} (h : l.all p = true) : (l.dropWhile q).all p = true := by
  induction l with
  | nil => simp
  | cons a l ih =>
    simp only [List.all_cons, Bool.and_eq_true] at h
    by_cases ha : q a = true
    · simp only [List.dropWhile, ha]; exact ih h.2
    · simp [List.dropWhile, ha, h.1, h.2]

theorem stripZeros_digits {l : List Char} (h : l.all Char.isDigit = true) : (stripZeros l).all Char.isDigit = true := by
  unfold stripZeros
  have h2 := all_dropWhile (q := (· == '0')) h
  split
  · decide
  · exact h2

theorem stripZeros_ne_nil (l : List Char) : stripZeros l ≠ [] := by
  unfold stripZeros
  split
  · simp
  · rename_i h; exact h

theorem dropWhile_idem (q : Char → Bool) (l : List Char) : (l.dropWhile q).dropWhile q = l.dropWhile q := by
  induction l with
  | nil => simp
  | cons a l ih =>
    by_cases ha : q a = true
    · simp only [List.dropWhile, ha]; exact ih
    · simp [List.dropWhile, ha]

theorem stripZeros_idem (l : List Char) : stripZeros (stripZeros l) = stripZeros l := by
  cases h : l.dropWhile (· == '0') with
  | nil =>
    have : stripZeros l = ['0'] := by unfold stripZeros; rw [h]
    rw [this]; decide
  | cons a r =>
    have h1 : stripZeros l = a :: r := by unfold stripZeros; rw [h]
    have h2 : (a :: r).dropWhile (· == '0') = a :: r := by rw [← h]; exact dropWhile_idem _ _
    rw [h1]; unfold stripZeros; rw [h2]

theorem stripTrail_idem (l : List Char) : stripTrail (stripTrail l) = stripTrail l := by
  unfold stripTrail
  rw [List.reverse_reverse, dropWhile_idem]

theorem stripTrail_digits {l : List Char} (h : l.all Char.isDigit = true) : (stripTrail l).all Char.isDigit = true := by
  unfold stripTrail
  rw [List.all_reverse]
  apply all_dropWhile
  rw [List.all_reverse]; exact h

theorem dropWhile_eq_nil_iff' (q : Char → Bool) (l : List Char) : l.dropWhile q = [] ↔ l.all q = true := by
  induction l with
  | nil => simp
  | cons a l ih =>
    by_cases ha : q a = true
    · simp only [List.dropWhile, ha, List.all_cons, Bool.true_and]; exact ih
    · simp [List.dropWhile, ha]

theorem stripTrail_eq_nil_iff (l : List Char) : stripTrail l = [] ↔ l.all (· == '0') = true := by
  unfold stripTrail
  rw [List.reverse_eq_nil_iff, dropWhile_eq_nil_iff', List.all_reverse]

/-! ### the theorems -/

theorem parseDec_digits {t : String} {d : Dec} (h : parseDec t = some d) :
    d.int.all Char.isDigit = true ∧ d.frac.all Char.isDigit = true := by
  unfold parseDec at h
  simp only [] at h
  split at h
  · split at h
    · simp at h
    · simp only [Option.some.injEq] at h
      subst h
      exact ⟨all_takeWhile _ _, by simp⟩
  · split at h
    · rename_i hc
      simp only [Option.some.injEq] at h
      subst h
      simp only [Bool.and_eq_true] at hc
      exact ⟨all_takeWhile _ _, hc.1⟩
    · simp at h
  · simp at h

theorem optOfParams_fmtG (d : Dec) (hi : d.int.all Char.isDigit = true) (hf : d.frac.all Char.isDigit = true) :
    Pil.optOfParams (some (String.ofList d.fmtG ++ "nt")) = optD d := by
  have hz := stripZeros_digits hi
  have hzne := stripZeros_ne_nil d.int
  have hzz := stripZeros_idem d.int
  have hfd := stripTrail_digits hf
  have hff := stripTrail_idem d.frac
  have hfn := stripTrail_eq_nil_iff d.frac
  have hn : Char.isDigit 'n' = false := by decide
  have hdot : Char.isDigit '.' = false := by decide
  generalize hzdef : stripZeros d.int = z at *
  generalize hfdef : stripTrail d.frac = f at *
  have hnt : ("nt" : String).toList = ['n', 't'] := by decide
  unfold Pil.optOfParams optD
  simp only []
  cases f with
  | nil =>
    have hall : d.frac.all (· == '0') = true := hfn.1 rfl
    have hG : d.fmtG = z := by unfold Dec.fmtG; rw [hfdef, hzdef]
    rw [hG, String.toList_append, String.toList_ofList, hnt,
      takeWhile_append_stop hz hn, dropWhile_append_stop hz hn, hall]
    have : z.isEmpty = false := by cases z with
      | nil => exact absurd rfl hzne
      | cons a r => rfl
    simp [this, hzdef]
  | cons a r =>
    have hall : d.frac.all (· == '0') = false := by
      cases hc : d.frac.all (· == '0') with
      | false => rfl
      | true => have := hfn.2 hc; simp at this
    have hG : d.fmtG = z ++ '.' :: a :: r := by unfold Dec.fmtG; rw [hfdef, hzdef]
    rw [hG, String.toList_append, String.toList_ofList, hnt, List.append_assoc, List.cons_append,
      takeWhile_append_stop hz hdot, dropWhile_append_stop hz hdot, hall]
    have hzE : z.isEmpty = false := by cases z with
      | nil => exact absurd rfl hzne
      | cons a r => rfl
    have hfr : ((a :: r) ++ ['n', 't']).takeWhile Char.isDigit = a :: r := takeWhile_append_stop hfd hn
    have hst : (((a :: r).reverse.dropWhile (· == '0')).reverse) = a :: r := hff
    simp only [hfr, hst, hzE, Bool.false_and, Bool.false_eq_true, if_false, List.isEmpty_cons]
    congr 3

/-- both sides agree on every accepted optimisation bracket -/
theorem opt_agree (opt : OptSrc) (optv : Dec) (h : optDec opt = some optv) :
    Denote.optOf opt = .ok (optD optv) ∧ Pil.optOfParams (some (String.ofList optv.fmtG ++ "nt")) = optD optv := by
  cases opt with
  | default =>
    simp only [optDec, Option.some.injEq] at h
    subst h
    exact ⟨by decide, optOfParams_fmtG _ (by decide) (by decide)⟩
  | noOpt =>
    simp only [optDec, Option.some.injEq] at h
    subst h
    exact ⟨by decide, optOfParams_fmtG _ (by decide) (by decide)⟩
  | value t =>
    simp only [optDec] at h
    obtain ⟨hi, hf⟩ := parseDec_digits h
    refine ⟨?_, optOfParams_fmtG _ hi hf⟩
    simp only [Denote.optOf, h, optD]
    split <;> rfl

end Pepper.Comp
