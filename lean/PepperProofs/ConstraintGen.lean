import PepperModel.ConstraintGen
import PepperProofs.Closure
import PepperProofs.Codes
/-!
# Proofs about the designer front-end (`PepperModel/ConstraintGen.lean`)

1. `LinkSpec`: the abstract core of C15 (a partition with partner classes is satisfiable iff no class is
   its own partner and every class has a common base) and its instance for the semantic link graph.
-/
namespace Pepper.LinkSpec
open Pepper

/-! ## bases -/

def flipB (b : Base) (p : Bool) : Base := if p then b.compl else b

theorem Base.compl_compl (b : Base) : b.compl.compl = b := by cases b <;> rfl
theorem Base.compl_ne (b : Base) : b.compl ≠ b := by cases b <;> decide

theorem flipB_flipB (b : Base) (p q : Bool) : flipB (flipB b p) q = flipB b (p ^^ q) := by
  cases p <;> cases q <;> simp [flipB, Base.compl_compl]

theorem flipB_true_ne (b : Base) : flipB b true ≠ b := by simpa [flipB] using Base.compl_ne b

/-! ## the abstract core: parity equivalences -/

/-- an equivalence relation with a parity: what parity reachability is on any symmetric link graph -/
structure ParityEquiv {α : Type} (R : α → Bool → α → Prop) : Prop where
  refl : ∀ x, R x false x
  symm : ∀ {x y p}, R x p y → R y p x
  trans : ∀ {x y z p q}, R x p y → R y q z → R x (p ^^ q) z

section Core
variable {α : Type} {R : α → Bool → α → Prop} {ok : α → Base → Prop}

/-- an assignment respects the relation (`R x p y` forces `a y = a x` flipped `p` times) and the
    per-item constraint `ok` -/
def ASat (R : α → Bool → α → Prop) (ok : α → Base → Prop) (a : α → Base) : Prop :=
  (∀ x, ok x (a x)) ∧ ∀ x p y, R x p y → a y = flipB (a x) p

theorem choose_congr {P Q : α → Prop} (h : P = Q) (hp : ∃ y, P y) (hq : ∃ y, Q y) :
    Classical.choose hp = Classical.choose hq := by
  subst h; rfl

/-- **Abstract core of C15.**  A satisfying assignment exists iff no item is its own partner and every
    class has a base that suits all of its members (flipped on the partner side). -/
theorem core (E : ParityEquiv R) :
    (∃ a, ASat R ok a) ↔ (∀ x, ¬ R x true x) ∧ ∀ x, ∃ b, ∀ y p, R x p y → ok y (flipB b p) := by
  constructor
  · rintro ⟨a, hok, hR⟩
    refine ⟨fun x hx => ?_, fun x => ⟨a x, fun y p hy => ?_⟩⟩
    · have := hR x true x hx
      exact flipB_true_ne (a x) this.symm
    · rw [← hR x p y hy]; exact hok y
  · rintro ⟨hself, hcom⟩
    -- a representative of every class, the same for all members
    let mem : α → α → Prop := fun x y => ∃ p, R x p y
    have hmem : ∀ x, ∃ y, mem x y := fun x => ⟨x, false, E.refl x⟩
    let rep : α → α := fun x => Classical.choose (hmem x)
    have rep_mem : ∀ x, mem x (rep x) := fun x => Classical.choose_spec (hmem x)
    have mem_eq : ∀ x y, mem x y → mem x = mem y := by
      intro x y ⟨p, hp⟩
      funext z
      apply propext
      constructor
      · rintro ⟨q, hq⟩; exact ⟨_, E.trans (E.symm hp) hq⟩
      · rintro ⟨q, hq⟩; exact ⟨_, E.trans hp hq⟩
    have rep_eq : ∀ x y, mem x y → rep x = rep y := fun x y h => choose_congr (mem_eq x y h) _ _
    -- the base of the class, read at the representative
    let base : α → Base := fun r => Classical.choose (hcom r)
    have base_ok : ∀ r y p, R r p y → ok y (flipB (base r) p) := fun r => Classical.choose_spec (hcom r)
    -- the parity of an item relative to its representative is unique
    have par_unique : ∀ r x p q, R r p x → R r q x → p = q := by
      intro r x p q hp hq
      cases p <;> cases q <;> try rfl
      · exact absurd (by simpa using E.trans hp (E.symm hq)) (hself r)
      · exact absurd (by simpa using E.trans hp (E.symm hq)) (hself r)
    have hpar : ∀ x, ∃ p, R (rep x) p x := fun x => by
      obtain ⟨p, hp⟩ := rep_mem x
      exact ⟨p, E.symm hp⟩
    let par : α → Bool := fun x => Classical.choose (hpar x)
    have par_spec : ∀ x, R (rep x) (par x) x := fun x => Classical.choose_spec (hpar x)
    refine ⟨fun x => flipB (base (rep x)) (par x), fun x => base_ok _ _ _ (par_spec x), ?_⟩
    intro x p y hxy
    have hr : rep x = rep y := rep_eq x y ⟨p, hxy⟩
    have h1 : R (rep y) (par x ^^ p) y := by
      have := E.trans (par_spec x) hxy
      rwa [hr] at this
    have h2 := par_unique _ _ _ _ h1 (par_spec y)
    show flipB (base (rep y)) (par y) = flipB (flipB (base (rep x)) (par x)) p
    rw [flipB_flipB, hr, h2]

end Core

/-! ## the semantic link graph -/

theorem bne_eq_xor' (p q : Bool) : (p != q) = (p ^^ q) := by cases p <;> cases q <;> rfl

theorem ParityReach.trans {d : Design} {u v w : Var} {p q : Bool}
    (h1 : ParityReach d u p v) (h2 : ParityReach d v q w) : ParityReach d u (p ^^ q) w := by
  induction h2 with
  | refl => simpa using h1
  | @fwd w' q' e _ he ha ih =>
    have := ParityReach.fwd e ih he ha
    have e2 : ((p ^^ q') != e.odd) = (p ^^ (q' != e.odd)) := by
      cases p <;> cases q' <;> cases e.odd <;> rfl
    rwa [e2] at this
  | @bwd w' q' e _ he hb ih =>
    have := ParityReach.bwd e ih he hb
    have e2 : ((p ^^ q') != e.odd) = (p ^^ (q' != e.odd)) := by
      cases p <;> cases q' <;> cases e.odd <;> rfl
    rwa [e2] at this

theorem ParityReach.symm {d : Design} {u v : Var} {p : Bool}
    (h : ParityReach d u p v) : ParityReach d v p u := by
  induction h with
  | refl => exact ParityReach.refl
  | @fwd w' q e _ he ha ih =>
    have s : ParityReach d e.b (false != e.odd) e.a := ParityReach.bwd e ParityReach.refl he rfl
    have := s.trans (ha ▸ ih)
    have e2 : ((false != e.odd) ^^ q) = (q != e.odd) := by cases q <;> cases e.odd <;> rfl
    rwa [e2] at this
  | @bwd w' q e _ he hb ih =>
    have s : ParityReach d e.a (false != e.odd) e.b := ParityReach.fwd e ParityReach.refl he rfl
    have := s.trans (hb ▸ ih)
    have e2 : ((false != e.odd) ^^ q) = (q != e.odd) := by cases q <;> cases e.odd <;> rfl
    rwa [e2] at this

theorem parityEquiv (d : Design) : ParityEquiv (ParityReach d) :=
  ⟨fun _ => ParityReach.refl, ParityReach.symm, ParityReach.trans⟩

/-- `val` through `flipB` -/
theorem val_eq (a : Var → Base) (n : Nuc) : val a n = flipB (a n.var) n.comp := by
  unfold val flipB; rfl

/-- every link is respected: the link-level reading of `Sat.equal` / `Sat.pair` -/
def LinkSat (d : Design) (a : Var → Base) : Prop := ∀ e ∈ links d, a e.b = flipB (a e.a) e.odd

theorem flip_eq_iff (x y : Base) (c e : Bool) : flipB x c = flipB y e ↔ y = flipB x (c != e) := by
  cases c <;> cases e <;> cases x <;> cases y <;> decide

theorem flip_pair_iff (x y : Base) (c e : Bool) : flipB x c = (flipB y e).compl ↔ y = flipB x (c == e) := by
  cases c <;> cases e <;> cases x <;> cases y <;> decide

theorem mem_zip_getElem? {β γ : Type} {r : List β} {s : List γ} {m : β} {n : γ} (h : (m, n) ∈ r.zip s) :
    ∃ k : Nat, r[k]? = some m ∧ s[k]? = some n := by
  obtain ⟨k, hk, he⟩ := List.getElem_of_mem h
  refine ⟨k, ?_, ?_⟩
  · have h1 : k < r.length := by simp [List.length_zip] at hk; omega
    have : (r.zip s)[k] = (r[k], s[k]'(by simp [List.length_zip] at hk; omega)) := List.getElem_zip
    rw [this] at he
    simp only [Prod.mk.injEq] at he
    rw [List.getElem?_eq_getElem h1, he.1]
  · have h2 : k < s.length := by simp [List.length_zip] at hk; omega
    have : (r.zip s)[k] = (r[k]'(by simp [List.length_zip] at hk; omega), s[k]) := List.getElem_zip
    rw [this] at he
    simp only [Prod.mk.injEq] at he
    rw [List.getElem?_eq_getElem h2, he.2]

theorem getElem?_mem_zip {β γ : Type} {r : List β} {s : List γ} {m : β} {n : γ} {k : Nat}
    (h1 : r[k]? = some m) (h2 : s[k]? = some n) : (m, n) ∈ r.zip s := by
  obtain ⟨hk1, e1⟩ := List.getElem?_eq_some_iff.1 h1
  obtain ⟨hk2, e2⟩ := List.getElem?_eq_some_iff.1 h2
  have hk : k < (r.zip s).length := by simp [List.length_zip]; omega
  have : (r.zip s)[k] = (m, n) := by rw [List.getElem_zip, e1, e2]
  exact this ▸ List.getElem_mem hk

/-- the semantic clauses of `Sat` about `equal` entries and base pairs say exactly that every link is respected -/
theorem linkSat_iff (d : Design) (a : Var → Base) :
    LinkSat d a ↔
      (∀ e ∈ d.equals, ∀ r ∈ e, ∀ s ∈ e, ∀ (k : Nat) (m n : Nuc), r[k]? = some m → s[k]? = some n → val a m = val a n) ∧
      (∀ s ∈ d.structs, ∀ ij ∈ pairs s.struct, ∀ (m n : Nuc),
        (structNucs d s)[ij.1]? = some m → (structNucs d s)[ij.2]? = some n → val a m = (val a n).compl) := by
  constructor
  · intro h
    refine ⟨?_, ?_⟩
    · intro e he r hr s hs k m n hm hn
      have hl : (⟨m.var, n.var, m.comp != n.comp⟩ : Link) ∈ links d := by
        apply List.mem_append_left
        simp only [equalLinks, List.mem_flatMap]
        refine ⟨e, he, r, hr, s, hs, ?_⟩
        simp only [regionLinks, List.mem_map]
        exact ⟨(m, n), getElem?_mem_zip hm hn, rfl⟩
      have := h _ hl
      simp only at this
      rw [val_eq, val_eq]
      exact (flip_eq_iff _ _ _ _).2 this
    · intro s hs ij hij m n hm hn
      have hl : (⟨m.var, n.var, m.comp == n.comp⟩ : Link) ∈ links d := by
        apply List.mem_append_right
        simp only [pairLinks, List.mem_flatMap]
        refine ⟨s, hs, ?_⟩
        simp only [List.mem_filterMap]
        refine ⟨ij, hij, ?_⟩
        simp [hm, hn]
      have := h _ hl
      simp only at this
      rw [val_eq, val_eq]
      exact (flip_pair_iff _ _ _ _).2 this
  · rintro ⟨h1, h2⟩ e he
    rcases List.mem_append.1 he with he | he
    · simp only [equalLinks, List.mem_flatMap] at he
      obtain ⟨en, hen, r, hr, s, hs, hl⟩ := he
      simp only [regionLinks, List.mem_map] at hl
      obtain ⟨⟨m, n⟩, hz, rfl⟩ := hl
      obtain ⟨k, hm, hn⟩ := mem_zip_getElem? hz
      have := h1 en hen r hr s hs k m n hm hn
      rw [val_eq, val_eq] at this
      exact (flip_eq_iff _ _ _ _).1 this
    · simp only [pairLinks, List.mem_flatMap, List.mem_filterMap] at he
      obtain ⟨s, hs, ij, hij, hl⟩ := he
      split at hl
      · rename_i m n hm hn
        simp only [Option.some.injEq] at hl
        subst hl
        have := h2 s hs ij hij m n hm hn
        rw [val_eq, val_eq] at this
        exact (flip_pair_iff _ _ _ _).1 this
      · cases hl

/-- respecting every link is respecting every parity path -/
theorem linkSat_reach {d : Design} {a : Var → Base} (h : LinkSat d a) {v w : Var} {p : Bool}
    (hr : ParityReach d v p w) : a w = flipB (a v) p := by
  induction hr with
  | refl => rfl
  | @fwd w' q e _ he ha ih =>
    rw [h e he, ha, ih, flipB_flipB, bne_eq_xor']
  | @bwd w' q e _ he hb ih =>
    have h3 := h e he
    rw [hb, ih] at h3
    have h4 : a e.a = flipB (flipB (a v) q) e.odd := by
      rw [h3, flipB_flipB]; cases e.odd <;> simp [flipB]
    rw [h4, flipB_flipB, bne_eq_xor']

theorem reach_linkSat {d : Design} {a : Var → Base}
    (h : ∀ v p w, ParityReach d v p w → a w = flipB (a v) p) : LinkSat d a := by
  intro e he
  have := h e.a (false != e.odd) e.b (ParityReach.fwd e ParityReach.refl he rfl)
  simpa using this

/-- the per-position constraint: the base is allowed by the template of the position (no constraint on a
    position that is not declared) -/
def okVar (tbl : CodeTable) (d : Design) (v : Var) (b : Base) : Prop :=
  ∀ p ∈ d.domains, p.1 = v.dom → ∀ c, p.2[v.idx]? = some c → allows tbl c b

theorem sat_iff_asat (tbl : CodeTable) (d : Design) (a : Var → Base) :
    Sat tbl d a ↔ ASat (ParityReach d) (okVar tbl d) a := by
  constructor
  · intro h
    refine ⟨fun v p hp hn c hc => ?_, fun v p w hr => ?_⟩
    · have := h.tmpl p hp v.idx c hc
      rw [hn] at this
      exact this
    · exact linkSat_reach ((linkSat_iff d a).2 ⟨h.equal, h.pair⟩) hr
  · rintro ⟨h1, h2⟩
    have hl := (linkSat_iff d a).1 (reach_linkSat h2)
    exact ⟨fun p hp k c hc => h1 ⟨p.1, k⟩ p hp rfl c hc, hl.1, hl.2⟩

/-- **C15 on the specification side.**  A design is satisfiable iff no position is linked to itself with odd
    parity and, for every position, some base suits every template linked to it (complemented at odd parity). -/
theorem satisfiable_iff (tbl : CodeTable) (d : Design) :
    Satisfiable tbl d ↔
      (∀ v, ¬ ParityReach d v true v) ∧
      ∀ v, ∃ b, ∀ w p, ParityReach d v p w → okVar tbl d w (flipB b p) := by
  rw [← core (parityEquiv d)]
  constructor
  · rintro ⟨a, ha⟩; exact ⟨a, (sat_iff_asat tbl d a).1 ha⟩
  · rintro ⟨a, ha⟩; exact ⟨a, (sat_iff_asat tbl d a).2 ha⟩

end Pepper.LinkSpec
