import PepperProofs.EndToEnd
import PepperProofs.ConstraintGenLoad
/-!
# C06 end to end: every component of a loaded tree sits in the loaded specification (`treeIn_of_load`)

1. `Pil.load` over an append: inversion (`load_append_inv`) and monotonicity (`load_extends`).
2. FRAME under global uniqueness (`add_frame_nodup`, `load_frame_nodup`): statements that load alone AND load on top of
   a specification `s0`, where the result has no two sequences and no two strands of one name, add to `s0` exactly
   what they load to alone.  (The frame lemma `SysProofs.load_frame` needs a prefix-freeness hypothesis instead.)
3. Block decomposition (`compsStmts_block`, `Loaded.blocks`): the statements of every component of a loaded tree are a
   contiguous block of the statements of the tree.
4. `compIn_of_block`, `treeIn_of_load`.
-/
set_option linter.unusedSimpArgs false
namespace Pepper.EndToEnd
open Pepper Pepper.Pil Pepper.ConstraintGen Pepper.LinkSpec Pepper.SysProofs Pepper.WellFormed

/-! ## 1. `Pil.load` over an append -/

/-- a load of `xs ++ ys` is a load of `xs` followed by a load of `ys` -/
theorem load_append_inv {tbl : CodeTable} : ∀ (xs ys : List Stmt) (s0 s2 : Spec),
    Pil.load tbl (xs ++ ys) s0 = .ok s2 → ∃ s1, Pil.load tbl xs s0 = .ok s1 ∧ Pil.load tbl ys s1 = .ok s2 := by
  intro xs
  induction xs with
  | nil => intro ys s0 s2 h; exact ⟨s0, rfl, h⟩
  | cons x r ih =>
    intro ys s0 s2 h
    simp only [List.cons_append, Pil.load] at h ⊢
    cases ha : s0.add tbl x with
    | error e => rw [ha] at h; cases h
    | ok sa =>
      rw [ha] at h
      exact ih ys sa s2 h

/-- loading only appends -/
theorem load_extends {tbl : CodeTable} : ∀ (ys : List Stmt) (s s' : Spec),
    Pil.load tbl ys s = .ok s' → ∃ d, s' = specAppend s d := by
  intro ys
  induction ys with
  | nil =>
    intro s s' h
    simp only [Pil.load, Except.ok.injEq] at h
    exact ⟨{}, by rw [specAppend_nil_right, h]⟩
  | cons x r ih =>
    intro s s' h
    simp only [Pil.load] at h
    cases ha : s.add tbl x with
    | error e => rw [ha] at h; cases h
    | ok sa =>
      rw [ha] at h
      obtain ⟨δ, rfl, _, _⟩ := add_delta tbl ha
      obtain ⟨d, rfl⟩ := ih _ s' h
      exact ⟨specAppend δ d, specAppend_assoc _ _ _⟩

/-! ## 2. frame under global uniqueness -/

theorem resolveItems_some {s : Spec} : ∀ (items : List String) (R : List (ItemRef × SeqObj)),
    resolveItems s items = .ok R → ∀ r ∈ items, (s.findSeq (stripStar r)).isSome = true := by
  intro items
  induction items with
  | nil => intro R _ r hr; cases hr
  | cons x xs ih =>
    intro R h r hr
    simp only [resolveItems, bind, Except.bind] at h
    cases h1 : resolveItem s x with
    | error e => rw [h1] at h; cases h
    | ok y =>
      rw [h1] at h
      simp only at h
      cases h2 : resolveItems s xs with
      | error e => rw [h2] at h; cases h
      | ok ys =>
        rcases List.mem_cons.1 hr with rfl | hr
        · rw [(resolveItem_strip s _ h1).1]; rfl
        · exact ih ys h2 r hr

/-- names that resolve in `s` do not name an object of `s0` of the same kind -/
structure Apart (s0 s : Spec) : Prop where
  seqs : ∀ n, (s.findSeq n).isSome = true → s0.findSeq n = none
  strands : ∀ n, (s.findStrand n).isSome = true → s0.findStrand n = none

theorem find?_none_of_nodup {α : Type} (f : α → String) : ∀ (l0 l : List α) (n : String),
    ((l0 ++ l).map f).Nodup → (l.find? (fun x => f x == n)).isSome = true → l0.find? (fun x => f x == n) = none := by
  intro l0 l n hnd hsome
  rw [List.find?_isSome] at hsome
  obtain ⟨x, hx, hxn⟩ := hsome
  rw [List.find?_eq_none]
  intro y hy hyn
  simp only [beq_iff_eq] at hxn hyn
  rw [List.map_append, List.nodup_append] at hnd
  exact hnd.2.2 (f y) (List.mem_map.2 ⟨y, hy, rfl⟩) (f x) (List.mem_map.2 ⟨x, hx, rfl⟩) (hyn.trans hxn.symm)

theorem apart_of_nodup {s0 s : Spec} (h1 : ((specAppend s0 s).seqs.map (·.name)).Nodup)
    (h2 : ((specAppend s0 s).strands.map (·.name)).Nodup) : Apart s0 s :=
  ⟨fun n hn => find?_none_of_nodup (fun o : SeqObj => o.name) s0.seqs s.seqs n h1 hn,
   fun n hn => find?_none_of_nodup (fun o : StrandObj => o.name) s0.strands s.strands n h2 hn⟩

theorem resolveItems_apart {s0 s : Spec} (ha : Apart s0 s) {items : List String} {R : List (ItemRef × SeqObj)}
    (h : resolveItems s items = .ok R) : resolveItems (specAppend s0 s) items = resolveItems s items :=
  resolveItems_congr items (fun r hr => findSeq_append_right s (ha.seqs _ (resolveItems_some items R h r hr)))

/-- FRAME, one statement, under uniqueness: a statement accepted alone and on top of `s0` adds the same object -/
theorem add_frame_nodup (tbl : CodeTable) {s0 s s' t : Spec} {st : Stmt} (ha : Apart s0 s)
    (h : s.add tbl st = .ok s') (h' : (specAppend s0 s).add tbl st = .ok t) : t = specAppend s0 s' := by
  cases st with
  | seq name template =>
    simp only [Pil.Spec.add] at h h'
    split at h
    · cases h
    · split at h
      · cases h
      · split at h'
        · cases h'
        · simp only [Except.ok.injEq] at h h'
          subst h; subst h'
          simp [specAppend, List.append_assoc]
  | sup name items =>
    simp only [Pil.Spec.add, bind, Except.bind] at h h'
    split at h
    · cases h
    · cases hr : resolveItems s items with
      | error e => rw [hr] at h; cases h
      | ok R =>
        rw [resolveItems_apart ha hr] at h'
        rw [hr] at h h'
        split at h'
        · cases h'
        · simp only [pure, Except.pure, Except.ok.injEq] at h h'
          subst h; subst h'
          simp [specAppend, List.append_assoc]
  | strand name dummy items =>
    simp only [Pil.Spec.add, bind, Except.bind] at h h'
    split at h
    · cases h
    · cases hr : resolveItems s items with
      | error e => rw [hr] at h; cases h
      | ok R =>
        rw [resolveItems_apart ha hr] at h'
        rw [hr] at h h'
        split at h'
        · cases h'
        · simp only [pure, Except.pure, Except.ok.injEq] at h h'
          subst h; subst h'
          simp [specAppend, List.append_assoc]
  | struct name params strands x =>
    simp only [Pil.Spec.add, bind, Except.bind] at h h'
    split at h
    · cases h
    · split at h'
      · cases h'
      · generalize hg : List.mapM (m := Except Pil.Err) (β := Pil.StrandObj) _ strands = m at h
        generalize hg' : List.mapM (m := Except Pil.Err) (β := Pil.StrandObj) _ strands = m' at h'
        cases m with
        | error e => cases h
        | ok objs =>
          have hmm : m' = .ok objs := by
            rw [← hg, ← hg']
            apply mapM_congr' strands
            intro n hn
            obtain ⟨b, hb⟩ := Comp.mapM_ok_mem hg n hn
            have hsome : (s.findStrand n).isSome = true := by
              cases hf : s.findStrand n with
              | none => simp only [hf] at hb; cases hb
              | some o => rfl
            simp only [findStrand_append_right s (ha.strands n hsome)]
          subst hmm
          simp only at h h'
          split at h
          · cases h
          · rename_i h2
            simp only [h2, if_false] at h'
            cases hb : Pil.getBonds x with
            | error e => rw [hb] at h; cases h
            | ok bonds =>
              rw [hb] at h h'
              simp only at h h'
              split at h
              · cases h
              · rename_i h3
                split at h
                · cases h
                · rename_i h4
                  simp only [h3, h4, Bool.false_eq_true, if_false, pure, Except.pure, Except.ok.injEq] at h h'
                  subst h; subst h'
                  simp [specAppend, List.append_assoc]
  | equal items =>
    simp only [Pil.Spec.add, bind, Except.bind] at h h'
    cases hr : resolveItems s items with
    | error e => rw [hr] at h; cases h
    | ok R =>
      rw [resolveItems_apart ha hr] at h'
      rw [hr] at h h'
      simp only at h h'
      cases R with
      | nil => cases h
      | cons y ys =>
        simp only at h h'
        split at h
        · cases h
        · rename_i h1
          simp only [h1, Bool.false_eq_true, if_false, pure, Except.pure, Except.ok.injEq] at h h'
          subst h; subst h'
          simp [specAppend, List.append_assoc]
  | kinetic =>
    simp only [Pil.Spec.add, pure, Except.pure, Except.ok.injEq] at h h'
    subst h; subst h'; rfl

theorem nodup_prefix {α : Type} {f : α → String} {a b : List α} (h : ((a ++ b).map f).Nodup) : (a.map f).Nodup := by
  rw [List.map_append, List.nodup_append] at h
  exact h.1

/-- **FRAME under global uniqueness**: statements that load alone (from `s` to `s'`) and on top of `s0`, where the
    result has no two sequences and no two strands of one name, add to `s0` exactly what they add alone -/
theorem load_frame_nodup (tbl : CodeTable) {s0 : Spec} : ∀ (ys : List Stmt) (s s' s1 : Spec),
    Pil.load tbl ys s = .ok s' → Pil.load tbl ys (specAppend s0 s) = .ok s1 →
    (s1.seqs.map (·.name)).Nodup → (s1.strands.map (·.name)).Nodup → s1 = specAppend s0 s' := by
  intro ys
  induction ys with
  | nil =>
    intro s s' s1 h h' _ _
    simp only [Pil.load, Except.ok.injEq] at h h'
    rw [← h, ← h']
  | cons st r ih =>
    intro s s' s1 h h' n1 n2
    simp only [Pil.load] at h h'
    cases h1 : s.add tbl st with
    | error e => rw [h1] at h; cases h
    | ok sa =>
      rw [h1] at h
      cases h2 : (specAppend s0 s).add tbl st with
      | error e => rw [h2] at h'; cases h'
      | ok t =>
        rw [h2] at h'
        simp only at h h'
        obtain ⟨δ, hδ, _, _⟩ := add_delta tbl h2
        obtain ⟨d, hd⟩ := load_extends r t s1 h'
        have hap : Apart s0 s := by
          apply apart_of_nodup
          · rw [hd, hδ] at n1
            simp only [specAppend] at n1 ⊢
            exact nodup_prefix (nodup_prefix n1)
          · rw [hd, hδ] at n2
            simp only [specAppend] at n2 ⊢
            exact nodup_prefix (nodup_prefix n2)
        have ht := add_frame_nodup tbl hap h1 h2
        subst ht
        exact ih sa s' s1 h h' n1 n2

/-! ## 3. block decomposition -/

/-- the statements of an instance are a contiguous block of the statements of the list it belongs to -/
theorem compsStmts_block {comps : List (String × Sys.Inst)} {c : String × Sys.Inst} (hc : c ∈ comps) :
    ∃ pre post, Emit.compsStmts comps = pre ++ Emit.instStmts c.2 ++ post := by
  induction comps with
  | nil => cases hc
  | cons x r ih =>
    obtain ⟨n, i⟩ := x
    rw [Emit.compsStmts]
    rcases List.mem_cons.1 hc with rfl | hr
    · exact ⟨[], Emit.compsStmts r, by simp⟩
    · obtain ⟨pre, post, he⟩ := ih hr
      exact ⟨Emit.instStmts i ++ pre, post, by rw [he]; simp [List.append_assoc]⟩

/-- every component of a loaded tree satisfies the component invariant, its constraint strings are codes, and its
    statements are a contiguous block of the statements of the tree -/
theorem blocks_of_loaded {tbl : CodeTable} {Q : Sys.SSrc → Prop} {pfx : String} {inst : Sys.Inst}
    (hL : LoadInv.Loaded (fun c => LoadInv.StmtNamesOk c = true ∧ Comp.CodesOk tbl c = true) Q pfx inst) :
    ∀ n, ∀ s ∈ Finish.compsOf n inst, (∃ a, Comp.WF s a) ∧ (∀ e ∈ s.seqs, e.const.all tbl.isCode = true) ∧
      ∃ pre post, Emit.instStmts inst = pre ++ Emit.compStmts s ++ post := by
  induction hL with
  | comp hP hload =>
    intro n s hs
    cases n with
    | zero => simp [Finish.compsOf] at hs
    | succ k =>
      simp only [Finish.compsOf, List.mem_singleton] at hs
      subst hs
      exact ⟨⟨_, (LoadInv.load_inv_all hload hP.1).1.wf⟩, LoadInv.load_codes hload hP.1 hP.2,
        [], [], by simp [instStmts_comp]⟩
  | sys hQ hsub hinv hio ih =>
    intro n s hs
    cases n with
    | zero => simp [Finish.compsOf] at hs
    | succ k =>
      simp only [Finish.compsOf, Sys.SysSt.components, List.mem_flatMap] at hs
      obtain ⟨c, hc, hs⟩ := hs
      obtain ⟨hw, hco, pre, post, he⟩ := ih c hc k s hs
      obtain ⟨pre', post', he'⟩ := compsStmts_block hc
      rw [instStmts_sys, sysStmts_eq]
      simp only [Sys.SysSt.components]
      rw [he', he]
      generalize List.flatMap _ _ = sigs
      exact ⟨hw, hco, pre' ++ pre, post ++ post' ++ sigs, by simp only [List.append_assoc]⟩

/-! ## 4. the components sit in the loaded specification -/

/-- a component whose statements are a block of a list that loads sits in the loaded specification -/
theorem compIn_of_block {tbl : CodeTable} {s : Comp.St} {a : Nat} (hw : Comp.WF s a)
    (hcodes : ∀ e ∈ s.seqs, e.const.all tbl.isCode = true) {pre post : List Stmt} {spec : Spec}
    (hload : Pil.load tbl (pre ++ Emit.compStmts s ++ post) {} = .ok spec) : CompIn spec s := by
  have wf := load_wf hload
  obtain ⟨s1, h1, h3⟩ := load_append_inv _ _ _ _ hload
  obtain ⟨s0, h0, h2⟩ := load_append_inv _ _ _ _ h1
  obtain ⟨d, hd⟩ := load_extends _ _ _ h3
  have hs1 : s1 = specAppend s0 (compSpec s) := by
    apply load_frame_nodup tbl (Emit.compStmts s) {} (compSpec s) s1 (comp_spec tbl hw hcodes)
    · rw [specAppend_nil_right]; exact h2
    · have := wf.seqNames
      rw [hd] at this
      simp only [specAppend] at this
      exact nodup_prefix this
    · have := wf.strandNames
      rw [hd] at this
      simp only [specAppend] at this
      exact nodup_prefix this
  subst hs1
  subst hd
  refine ⟨⟨a, hw⟩, ?_, ?_, ?_⟩
  · intro e he hz
    have hm : Comp.pilObj s.pfx e ∈ (compSpec s).seqs := (findSeq_mem (compSpec_find hw he hz)).1
    have := wf.seqFind (Comp.pilObj s.pfx e) (by
      simp only [specAppend, List.mem_append]; exact Or.inl (Or.inr hm))
    exact this
  · intro x hx
    have hm : Comp.pilStrand s.pfx x ∈ (compSpec s).strands := List.mem_map.2 ⟨x, hx, rfl⟩
    have := wf.strandFind (Comp.pilStrand s.pfx x) (by
      simp only [specAppend, List.mem_append]; exact Or.inl (Or.inr hm))
    exact this
  · intro e he
    have hm : Comp.pilStruct s.pfx s.strands e ∈ (compSpec s).structs := List.mem_map.2 ⟨e, he, rfl⟩
    simp only [specAppend, List.mem_append]
    exact Or.inl (Or.inr hm)

/-- every component of a loaded instance tree sits in the specification its emitted PIL loads to, as its PIL objects -/
theorem treeIn_of_load {tbl : CodeTable} {Q : Sys.SSrc → Prop} {pfx : String} {inst : Sys.Inst}
    (hL : LoadInv.Loaded (fun c => LoadInv.StmtNamesOk c = true ∧ Comp.CodesOk tbl c = true) Q pfx inst)
    {spec : Pil.Spec} (hload : Pil.load tbl (Emit.instStmts inst) {} = .ok spec) : TreeIn spec inst := by
  intro s hs
  obtain ⟨⟨a, hw⟩, hco, pre, post, he⟩ := blocks_of_loaded hL 64 s hs
  rw [he] at hload
  exact compIn_of_block hw hco hload

end Pepper.EndToEnd
