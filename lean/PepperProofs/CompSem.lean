import Std.Data.String.ToNat
import PepperModel.Comp
import PepperModel.Pil
import PepperProofs.CompBuild
/-!
# Semantics of the compile path's object references (C01)

`rc` algebra, the nucleotides of `base_seqs` lists (`cnucs`), reversed views, the anonymous-name scheme.
-/
namespace Pepper

/-! ### `rc` -/

@[simp] theorem flip_flip (n : Nuc) : n.flip.flip = n := by cases n; simp [Nuc.flip]
@[simp] theorem rc_rc (l : List Nuc) : rc (rc l) = l := by
  simp [rc, List.map_reverse, Function.comp_def]
@[simp] theorem rc_append (a b : List Nuc) : rc (a ++ b) = rc b ++ rc a := by simp [rc]
@[simp] theorem rc_nil : rc [] = [] := rfl
@[simp] theorem rc_length (l : List Nuc) : (rc l).length = l.length := by simp [rc]
@[simp] theorem fwd_length (n : String) (k : Nat) : (fwd n k).length = k := by simp [fwd]
@[simp] theorem fwd_zero (n : String) : fwd n 0 = [] := by simp [fwd]

theorem rc_flatMap {α} (f : α → List Nuc) (l : List α) :
    rc (l.flatMap f) = l.reverse.flatMap (fun a => rc (f a)) := by
  induction l with
  | nil => simp
  | cons a l ih => simp [List.flatMap_cons, ih]

theorem rc_flatten (l : List (List Nuc)) : rc l.flatten = (l.reverse.map rc).flatten := by
  induction l with
  | nil => simp
  | cons a l ih => simp [ih]

namespace Comp
open Pepper.Constraint

/-! ### nucleotides of base references under a prefix -/

def nucsB (p : String) (b : BaseRef) : List Nuc :=
  if b.rev then rc (fwd (p ++ b.name) b.len) else fwd (p ++ b.name) b.len

def cnucs (p : String) (bs : List BaseRef) : List Nuc := bs.flatMap (nucsB p)

/-- the PIL-side reference of a base reference -/
def tb (p : String) (b : BaseRef) : Pil.BaseRef := ⟨p ++ b.name, b.rev, b.len⟩

@[simp] theorem cnucs_nil (p : String) : cnucs p [] = [] := rfl
@[simp] theorem cnucs_append (p : String) (a b : List BaseRef) : cnucs p (a ++ b) = cnucs p a ++ cnucs p b := by
  simp [cnucs]
@[simp] theorem cnucs_cons (p : String) (a : BaseRef) (b : List BaseRef) : cnucs p (a :: b) = nucsB p a ++ cnucs p b := by
  simp [cnucs]

theorem nucsB_length (p : String) (b : BaseRef) : (nucsB p b).length = b.len := by
  unfold nucsB; split <;> simp

theorem cnucs_length (p : String) (bs : List BaseRef) : (cnucs p bs).length = (bs.map (·.len)).sum := by
  induction bs with
  | nil => simp
  | cons b r ih => simp [nucsB_length, ih]

theorem nucsB_inv (p : String) (b : BaseRef) : nucsB p b.inv = rc (nucsB p b) := by
  cases b with | mk n r l => cases r <;> simp [nucsB, BaseRef.inv]

theorem cnucs_rev_inv (p : String) (bs : List BaseRef) :
    cnucs p (bs.reverse.map BaseRef.inv) = rc (cnucs p bs) := by
  simp only [cnucs, rc_flatMap, List.flatMap_map, nucsB_inv]

theorem nucsOfBase_tb (p : String) (b : BaseRef) : Pil.nucsOfBase (tb p b) = nucsB p b := rfl

theorem nucsOfBases_tb (p : String) (bs : List BaseRef) : Pil.nucsOfBases (bs.map (tb p)) = cnucs p bs := by
  simp [Pil.nucsOfBases, cnucs, List.flatMap_map, nucsOfBase_tb]

theorem nucsB_of_len_zero (p : String) (b : BaseRef) (h : b.len = 0) : nucsB p b = [] := by
  unfold nucsB; simp [h, rc]

theorem cnucs_filter (p : String) (bs : List BaseRef) : cnucs p (bs.filter (·.len != 0)) = cnucs p bs := by
  induction bs with
  | nil => simp
  | cons b r ih =>
    by_cases h : b.len = 0
    · simp [h, ih, nucsB_of_len_zero]
    · simp [h, ih]

theorem nucsOfBases_filter_tb (p : String) (bs : List BaseRef) :
    Pil.nucsOfBases ((bs.filter (·.len != 0)).map (tb p)) = cnucs p bs := by
  rw [nucsOfBases_tb, cnucs_filter]

/-! ### views -/

theorem basesOfView_lens (e : SeqE) (r : Bool) :
    ((basesOfView e r).map (·.len)).sum = (e.bases.map (·.len)).sum := by
  cases r
  · simp [basesOfView]
  · simp only [basesOfView, if_true, List.map_map, List.map_reverse]
    rw [List.sum_reverse]
    rfl

theorem cnucs_basesOfView (p : String) (e : SeqE) (r : Bool) :
    cnucs p (basesOfView e r) = if r then rc (cnucs p e.bases) else cnucs p e.bases := by
  cases r
  · simp [basesOfView]
  · simp only [basesOfView, if_true, cnucs_rev_inv]

theorem basesOfView_not (e : SeqE) (r : Bool) :
    basesOfView e (!r) = (basesOfView e r).reverse.map BaseRef.inv := by
  cases r
  · simp [basesOfView]
  · simp [basesOfView, List.map_reverse, Function.comp_def, BaseRef.inv]

/-! ### names -/

theorem anonName_inj {j k : Nat} (h : anonName j = anonName k) : j = k := by
  unfold anonName at h
  rw [String.append_right_inj] at h
  exact Nat.repr_injective h

theorem anonName_toList (k : Nat) : (anonName k).toList = "_Anon".toList ++ Nat.toDigits 10 k := by
  unfold anonName
  rw [String.toList_append]
  congr 1
  exact Nat.toList_repr

/-- the reserved form `_Anon<digits>` -/
def isAnonForm (n : String) : Bool :=
  n.toList.take 5 == "_Anon".toList && (n.toList.drop 5).all Char.isDigit && !(n.toList.drop 5).isEmpty

theorem isAnonForm_anonName (k : Nat) : isAnonForm (anonName k) = true := by
  unfold isAnonForm
  rw [anonName_toList]
  have h5 : "_Anon".toList.length = 5 := by decide
  simp only [List.take_left' h5, List.drop_left' h5]
  simp only [beq_self_eq_true, Bool.true_and, Bool.and_eq_true, List.all_eq_true, Bool.not_eq_true']
  refine ⟨fun c hc => Nat.isDigit_of_mem_toDigits (by omega) (by omega) hc, ?_⟩
  cases h : Nat.toDigits 10 k with
  | nil => exact absurd h Nat.toDigits_ne_nil
  | cons a r => rfl

/-- a name the `*`-suffix convention of PIL item names reads back correctly: non-empty, not ending in `*` -/
def endsOk (n : String) : Bool :=
  match n.toList.reverse with
  | [] => false
  | c :: _ => c != '*'

theorem endsOk_anonName (k : Nat) : endsOk (anonName k) = true := by
  unfold endsOk
  rw [anonName_toList, List.reverse_append]
  cases h : (Nat.toDigits 10 k).reverse with
  | nil => simp at h
  | cons c r =>
    have hc : c ∈ Nat.toDigits 10 k := by
      have : c ∈ (Nat.toDigits 10 k).reverse := by rw [h]; simp
      simpa using this
    have hd := Nat.isDigit_of_mem_toDigits (b := 10) (by omega) (by omega) hc
    show (c != '*') = true
    simp only [bne_iff_ne, ne_eq]
    rintro rfl
    revert hd; decide

/-- a user-chosen name: not of the reserved form, no `*`, not empty -/
def okName (n : String) : Bool := !isAnonForm n && !n.toList.contains '*' && n.toList != []

theorem okName_ne_anon {n : String} (h : okName n = true) (k : Nat) : n ≠ anonName k := by
  rintro rfl
  simp [okName, isAnonForm_anonName] at h

theorem endsOk_of_okName {n : String} (h : okName n = true) : endsOk n = true := by
  unfold okName at h
  simp only [Bool.and_eq_true, Bool.not_eq_true', bne_iff_ne, ne_eq] at h
  obtain ⟨⟨_, hs⟩, hne⟩ := h
  unfold endsOk
  cases hr : n.toList.reverse with
  | nil => simp at hr; simp [hr] at hne
  | cons c r =>
    simp only [bne_iff_ne, ne_eq]
    rintro rfl
    have : '*' ∈ n.toList := by
      have : '*' ∈ n.toList.reverse := by rw [hr]; simp
      simpa using this
    simp [this] at hs

/-- reading an emitted item name back (`Pil.resolveItem`'s split of a trailing `*`) -/
theorem fullName_split (p n : String) (rev : Bool) (h : endsOk n = true) :
    (match (fullName p n rev).toList.reverse with
      | '*' :: r => (String.ofList r.reverse, true)
      | _ => (fullName p n rev, false)) = (p ++ n, rev) := by
  unfold endsOk at h
  cases rev with
  | true =>
    simp only [fullName, if_true, String.toList_append, List.reverse_append]
    have : "*".toList.reverse = ['*'] := by decide
    simp only [this, List.cons_append, List.nil_append]
    rw [← List.reverse_append, List.reverse_reverse, ← String.toList_append, String.ofList_toList]
  | false =>
    have hfn : fullName p n false = p ++ n := by simp [fullName]
    rw [hfn]
    simp only [String.toList_append, List.reverse_append]
    cases hr : n.toList.reverse with
    | nil => simp [hr] at h
    | cons c r =>
      simp only [hr, bne_iff_ne, ne_eq] at h
      simp only [List.cons_append]
      split
      · rename_i r' heq
        simp only [List.cons.injEq] at heq
        exact absurd heq.1 h
      · rfl

end Comp
end Pepper
