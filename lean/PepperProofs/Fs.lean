import PepperModel.Fs
/-!
# Lemmas for C20: string-append injectivity for the scratch names, the frame property of a process
# run alone, the interleaving invariant, sequential execution.
-/
namespace Pepper.Fs

/-! ## abstract file system -/

@[simp] theorem Fs.read_set_self (fs : Fs) (p : Path) (v : Option String) : (fs.set p v).read p = v := by
  simp [Fs.set, Fs.read]

theorem Fs.read_set_other (fs : Fs) {p q : Path} (v : Option String) (h : q ≠ p) :
    (fs.set p v).read q = fs.read q := by
  have hb : (q == p) = false := by simp [h]
  simp [Fs.set, Fs.read, List.lookup_cons, hb]

theorem Fs.same_refl (a : Fs) : Fs.same a a := fun _ => rfl
theorem Fs.same_symm {a b : Fs} (h : Fs.same a b) : Fs.same b a := fun p => (h p).symm
theorem Fs.same_trans {a b c : Fs} (h : Fs.same a b) (h' : Fs.same b c) : Fs.same a c :=
  fun p => (h p).trans (h' p)

/-! ## a process run alone -/

/-- Frame property: the run of a process depends only on the files in its footprint … -/
theorem run_frame {R W : List Path} : ∀ (P : Proc), P.Within R W → ∀ (fs fs' : Fs) (log : List (Option String)),
    (∀ p, p ∈ R ∨ p ∈ W → fs.read p = fs'.read p) →
    (P.run fs log).2 = (P.run fs' log).2 ∧
      ∀ p, p ∈ R ∨ p ∈ W → (P.run fs log).1.read p = (P.run fs' log).1.read p := by
  intro P
  induction P with
  | done => intro _ fs fs' log h; exact ⟨rfl, h⟩
  | read p k ih =>
    intro hw fs fs' log h
    obtain ⟨hp, hk⟩ := hw
    have e : fs.read p = fs'.read p := h p (Or.inl hp)
    simp only [Proc.run]
    rw [e]
    exact ih (fs'.read p) (hk _) fs fs' _ h
  | write p c k ih =>
    intro hw fs fs' log h
    obtain ⟨_, hk⟩ := hw
    simp only [Proc.run]
    refine ih hk _ _ log (fun q hq => ?_)
    by_cases e : q = p
    · subst e; simp
    · rw [Fs.read_set_other _ _ e, Fs.read_set_other _ _ e]; exact h q hq
  | remove p k ih =>
    intro hw fs fs' log h
    obtain ⟨_, hk⟩ := hw
    simp only [Proc.run]
    refine ih hk _ _ log (fun q hq => ?_)
    by_cases e : q = p
    · subst e; simp
    · rw [Fs.read_set_other _ _ e, Fs.read_set_other _ _ e]; exact h q hq

/-- … and changes only files in its write set. -/
theorem run_outside {R W : List Path} : ∀ (P : Proc), P.Within R W → ∀ (fs : Fs) (log : List (Option String)) (q : Path),
    q ∉ W → (P.run fs log).1.read q = fs.read q := by
  intro P
  induction P with
  | done => intro _ fs log q _; rfl
  | read p k ih =>
    intro hw fs log q hq
    simp only [Proc.run]
    exact ih _ (hw.2 _) fs _ q hq
  | write p c k ih =>
    intro hw fs log q hq
    simp only [Proc.run]
    rw [ih hw.2 _ log q hq]
    exact Fs.read_set_other _ _ (fun e => hq (e ▸ hw.1))
  | remove p k ih =>
    intro hw fs log q hq
    simp only [Proc.run]
    rw [ih hw.2 _ log q hq]
    exact Fs.read_set_other _ _ (fun e => hq (e ▸ hw.1))

/-! ## threads -/

theorem Thread.step_job (t : Thread) (fs : Fs) : (t.step fs).2.job = t.job := by
  unfold Thread.step; split <;> rfl

/-- stepping and then running to completion is running to completion -/
theorem Thread.step_run (t : Thread) (fs : Fs) :
    (t.step fs).2.proc.run (t.step fs).1 (t.step fs).2.log = t.proc.run fs t.log := by
  unfold Thread.step
  split <;> rename_i h <;> simp [h, Proc.run]

theorem Thread.step_within {R W : List Path} (t : Thread) (fs : Fs) (h : t.proc.Within R W) :
    (t.step fs).2.proc.Within R W := by
  unfold Thread.step
  split <;> rename_i e <;> rw [e] at h <;> simp only [Proc.Within] at h
  · simp [e, Proc.Within]
  · exact h.2 _
  · exact h.2
  · exact h.2

/-- a step changes at most one file, and that file is in the write set -/
theorem Thread.step_fs {R W : List Path} (t : Thread) (fs : Fs) (h : t.proc.Within R W) :
    (t.step fs).1 = fs ∨ ∃ p v, p ∈ W ∧ (t.step fs).1 = fs.set p v := by
  unfold Thread.step
  split <;> rename_i e <;> rw [e] at h <;> simp only [Proc.Within] at h
  · exact Or.inl rfl
  · exact Or.inl rfl
  · exact Or.inr ⟨_, _, h.1, rfl⟩
  · exact Or.inr ⟨_, _, h.1, rfl⟩

theorem stepThreads_cases : ∀ (i : Nat) (fs : Fs) (ts : List Thread),
    stepThreads i fs ts = (fs, ts) ∨
    ∃ l₁ t l₂, ts = l₁ ++ t :: l₂ ∧ stepThreads i fs ts = ((t.step fs).1, l₁ ++ (t.step fs).2 :: l₂) := by
  intro i fs ts
  induction ts generalizing i with
  | nil => left; cases i <;> rfl
  | cons t ts ih =>
    cases i with
    | zero => right; exact ⟨[], t, ts, rfl, rfl⟩
    | succ n =>
      rcases ih n with h | ⟨l₁, u, l₂, e, h⟩
      · left; simp [stepThreads, h]
      · right; exact ⟨t :: l₁, u, l₂, by simp [e], by simp [stepThreads, h]⟩

/-! ## the interleaving invariant -/

/-- what job `j` does when run alone from `fs0` -/
def Solo (fs0 : Fs) (j : Job) : Fs × List (Option String) := j.proc.run fs0 []

theorem Indep.symm {a b : Job} (h : Indep a b) : Indep b a :=
  ⟨fun p hp hq => h.1 p hq hp, h.2.2, h.2.1⟩

/-- the rest of thread `t`, run alone from the current file system, gives what its job gives alone from `fs0` -/
structure Good (fs0 fs : Fs) (t : Thread) : Prop where
  within : t.proc.Within t.job.reads t.job.writes
  log : (t.proc.run fs t.log).2 = (Solo fs0 t.job).2
  agree : ∀ p, p ∈ t.job.reads ∨ p ∈ t.job.writes → (t.proc.run fs t.log).1.read p = (Solo fs0 t.job).1.read p

structure Inv (fs0 : Fs) (js : List Job) (c : Config) : Prop where
  jobs : c.threads.map Thread.job = js
  good : ∀ t ∈ c.threads, Good fs0 c.fs t
  frame : ∀ p, (∀ j ∈ js, p ∉ j.writes) → c.fs.read p = fs0.read p

theorem Good.of_indep {fs0 fs : Fs} {x t : Thread} (g : Good fs0 fs x) (hi : Indep x.job t.job)
    (ht : t.proc.Within t.job.reads t.job.writes) : Good fs0 (t.step fs).1 x := by
  rcases Thread.step_fs t fs ht with e | ⟨p, v, hp, e⟩
  · rw [e]; exact g
  · rw [e]
    have hfr : ∀ q, q ∈ x.job.reads ∨ q ∈ x.job.writes → (fs.set p v).read q = fs.read q := by
      intro q hq
      apply Fs.read_set_other
      intro eq
      subst eq
      rcases hq with hq | hq
      · exact hi.2.1 _ hq hp
      · exact hi.1 _ hq hp
    obtain ⟨h1, h2⟩ := run_frame x.proc g.within (fs.set p v) fs x.log hfr
    exact ⟨g.within, h1.trans g.log, fun q hq => (h2 q hq).trans (g.agree q hq)⟩

theorem Inv.init {fs0 : Fs} {js : List Job} (hw : ∀ j ∈ js, j.proc.Within j.reads j.writes) :
    Inv fs0 js (Config.init fs0 js) := by
  refine ⟨?_, ?_, fun _ _ => rfl⟩
  · simp [Config.init, List.map_map, Function.comp_def, Thread.start]
  · intro t ht
    simp only [Config.init, List.mem_map] at ht
    obtain ⟨j, hj, rfl⟩ := ht
    exact ⟨hw j hj, rfl, fun _ _ => rfl⟩

theorem Inv.step {fs0 : Fs} {js : List Job} (hi : js.Pairwise Indep) {c : Config} (inv : Inv fs0 js c) (i : Nat) :
    Inv fs0 js (c.stepAt i) := by
  rcases stepThreads_cases i c.fs c.threads with h | ⟨l₁, t, l₂, e, h⟩
  · have : c.stepAt i = c := by simp [Config.stepAt, h]
    rw [this]; exact inv
  · have hc : c.stepAt i = ⟨(t.step c.fs).1, l₁ ++ (t.step c.fs).2 :: l₂⟩ := by simp [Config.stepAt, h]
    rw [hc]
    have hj := inv.jobs
    rw [e] at hj
    simp only [List.map_append, List.map_cons] at hj
    have hi' := hi
    rw [← hj, List.pairwise_append, List.pairwise_cons] at hi'
    obtain ⟨_, ⟨hr, _⟩, hl⟩ := hi'
    have tmem : t ∈ c.threads := by rw [e]; simp
    have gt := inv.good t tmem
    refine ⟨?_, ?_, ?_⟩
    · simp only [List.map_append, List.map_cons, Thread.step_job]; exact hj
    · intro x hx
      simp only [List.mem_append, List.mem_cons] at hx
      rcases hx with hx | hx | hx
      · have gx := inv.good x (by rw [e]; simp [hx])
        exact gx.of_indep (hl _ (List.mem_map_of_mem hx) _ (List.mem_cons_self)) gt.within
      · subst hx
        refine ⟨?_, ?_, ?_⟩
        · rw [Thread.step_job]; exact Thread.step_within t _ gt.within
        · rw [Thread.step_run, Thread.step_job]; exact gt.log
        · rw [Thread.step_run, Thread.step_job]; exact gt.agree
      · have gx := inv.good x (by rw [e]; simp [hx])
        exact gx.of_indep (hr _ (List.mem_map_of_mem hx)).symm gt.within
    · intro p hp
      have := inv.frame p hp
      rcases Thread.step_fs t c.fs gt.within with e' | ⟨q, v, hq, e'⟩
      · simp only [e']; exact this
      · simp only [e']
        rw [Fs.read_set_other _ _ ?_]
        · exact this
        · intro eq
          subst eq
          exact hp t.job (by rw [← inv.jobs]; exact List.mem_map_of_mem tmem) hq

theorem Inv.sched {fs0 : Fs} {js : List Job} (hi : js.Pairwise Indep) (s : List Nat) :
    ∀ {c : Config}, Inv fs0 js c → Inv fs0 js (runSched s c) := by
  induction s with
  | nil => intro c h; exact h
  | cons i s ih => intro c h; exact ih (h.step hi i)

theorem Thread.done_of_isDone {t : Thread} (h : t.isDone = true) : t.proc = .done := by
  unfold Thread.isDone at h
  split at h
  · assumption
  · cases h

/-- Characterisation of the end of every complete schedule: each process has read what it reads when
    run alone from the initial file system, each file in a write set is as its owner leaves it when
    run alone, every other file is untouched. -/
theorem sched_spec {js : List Job} (hw : ∀ j ∈ js, j.proc.Within j.reads j.writes) (hi : js.Pairwise Indep)
    (fs0 : Fs) (s : List Nat) (hc : (runSched s (Config.init fs0 js)).complete = true) :
    (runSched s (Config.init fs0 js)).logs = js.map (fun j => (Solo fs0 j).2) ∧
    (∀ j ∈ js, ∀ p ∈ j.writes, (runSched s (Config.init fs0 js)).fs.read p = (Solo fs0 j).1.read p) ∧
    (∀ p, (∀ j ∈ js, p ∉ j.writes) → (runSched s (Config.init fs0 js)).fs.read p = fs0.read p) := by
  have inv := Inv.sched hi s (Inv.init (fs0 := fs0) hw)
  generalize runSched s (Config.init fs0 js) = c at inv hc
  have hd : ∀ t ∈ c.threads, t.proc = .done := by
    intro t ht
    simp only [Config.complete, List.all_eq_true] at hc
    exact Thread.done_of_isDone (hc t ht)
  refine ⟨?_, ?_, inv.frame⟩
  · rw [← inv.jobs, Config.logs, List.map_map]
    apply List.map_congr_left
    intro t ht
    have := (inv.good t ht).log
    rw [hd t ht] at this
    exact this
  · intro j hj p hp
    rw [← inv.jobs] at hj
    obtain ⟨t, ht, rfl⟩ := List.mem_map.1 hj
    have := (inv.good t ht).agree p (Or.inr hp)
    rw [hd t ht] at this
    exact this

/-! ## sequential execution -/

theorem seq_spec (fs0 : Fs) : ∀ (js : List Job), (∀ j ∈ js, j.proc.Within j.reads j.writes) → js.Pairwise Indep →
    ∀ (fs : Fs), (∀ j ∈ js, ∀ p, p ∈ j.reads ∨ p ∈ j.writes → fs.read p = fs0.read p) →
    (runSeq fs js).2 = js.map (fun j => (Solo fs0 j).2) ∧
    (∀ j ∈ js, ∀ p ∈ j.writes, (runSeq fs js).1.read p = (Solo fs0 j).1.read p) ∧
    (∀ p, (∀ j ∈ js, p ∉ j.writes) → (runSeq fs js).1.read p = fs.read p) := by
  intro js
  induction js with
  | nil =>
    intro _ _ fs _
    refine ⟨rfl, ?_, fun _ _ => rfl⟩
    intro j hj
    cases hj
  | cons j js ih =>
    intro hw hi fs hag
    rw [List.pairwise_cons] at hi
    obtain ⟨hij, hi⟩ := hi
    have hwj := hw j List.mem_cons_self
    obtain ⟨f1, f2⟩ := run_frame j.proc hwj fs fs0 [] (hag j List.mem_cons_self)
    have out := run_outside j.proc hwj fs []
    have hag' : ∀ k ∈ js, ∀ p, p ∈ k.reads ∨ p ∈ k.writes → (j.proc.run fs []).1.read p = fs0.read p := by
      intro k hk p hp
      have hind := hij k hk
      rw [out p ?_]
      · exact hag k (List.mem_cons_of_mem _ hk) p hp
      · intro hpj
        rcases hp with hp | hp
        · exact hind.2.2 p hp hpj
        · exact hind.1 p hpj hp
    obtain ⟨g1, g2, g3⟩ := ih (fun k hk => hw k (List.mem_cons_of_mem _ hk)) hi _ hag'
    refine ⟨?_, ?_, ?_⟩
    · simp only [runSeq, List.map_cons, g1]
      rw [f1]; rfl
    · intro k hk p hp
      simp only [runSeq]
      rcases List.mem_cons.1 hk with rfl | hk
      · rw [g3 p (fun m hm hpm => (hij m hm).1 p hp hpm)]
        exact f2 p (Or.inr hp)
      · exact g2 k hk p hp
    · intro p hp
      simp only [runSeq]
      rw [g3 p (fun m hm => hp m (List.mem_cons_of_mem _ hm))]
      exact out p (hp j List.mem_cons_self)

/-- two file systems satisfying the same characterisation are the same -/
theorem same_of_spec {js : List Job} {fs0 a b : Fs}
    (ha : ∀ j ∈ js, ∀ p ∈ j.writes, a.read p = (Solo fs0 j).1.read p)
    (ha' : ∀ p, (∀ j ∈ js, p ∉ j.writes) → a.read p = fs0.read p)
    (hb : ∀ j ∈ js, ∀ p ∈ j.writes, b.read p = (Solo fs0 j).1.read p)
    (hb' : ∀ p, (∀ j ∈ js, p ∉ j.writes) → b.read p = fs0.read p) : Fs.same a b := by
  intro p
  by_cases h : ∃ j ∈ js, p ∈ j.writes
  · obtain ⟨j, hj, hp⟩ := h
    rw [ha j hj p hp, hb j hj p hp]
  · have h' : ∀ j ∈ js, p ∉ j.writes := fun j hj hp => h ⟨j, hj, hp⟩
    rw [ha' p h', hb' p h']

/-! ## names -/

theorem append_ext_inj {a b e e' : String} (h : a ++ e = b ++ e') (hl : e.length = e'.length) : a = b ∧ e = e' := by
  have h' := congrArg String.toList h
  rw [String.toList_append, String.toList_append] at h'
  have hl' : e.toList.length = e'.toList.length := by
    rw [String.length_toList, String.length_toList]; exact hl
  obtain ⟨h1, h2⟩ := List.append_inj' h' hl'
  exact ⟨String.toList_inj.1 h1, String.toList_inj.1 h2⟩

theorem mem_tempFiles {p t : String} : p ∈ tempFiles t ↔ ∃ e ∈ tempExts, p = t ++ e := by
  simp only [tempFiles, List.mem_map]
  constructor
  · rintro ⟨e, he, rfl⟩; exact ⟨e, he, rfl⟩
  · rintro ⟨e, he, rfl⟩; exact ⟨e, he, rfl⟩

theorem tempExts_length {e e' : String} (he : e ∈ tempExts) (he' : e' ∈ tempExts) : e.length = e'.length := by
  simp only [tempExts, List.mem_cons, List.not_mem_nil, or_false] at he he'
  rcases he with rfl | rfl | rfl | rfl <;> rcases he' with rfl | rfl | rfl | rfl <;> decide

/-- scratch files of different temp names never coincide (whatever the extensions) -/
theorem tempFiles_disjoint {t t' p : String} (h : t ≠ t') (hp : p ∈ tempFiles t) : p ∉ tempFiles t' := by
  intro hp'
  obtain ⟨e, he, rfl⟩ := mem_tempFiles.1 hp
  obtain ⟨e', he', h'⟩ := mem_tempFiles.1 hp'
  exact h (append_ext_inj h' (tempExts_length he he')).1

theorem not_mem_tempFiles_of_ext {n t : String} (h : hasTempExt n = false) : n ∉ tempFiles t := by
  intro hn
  obtain ⟨e, he, rfl⟩ := mem_tempFiles.1 hn
  have : hasTempExt (t ++ e) = true := by
    simp only [hasTempExt, List.any_eq_true]
    refine ⟨e, he, ?_⟩
    rw [List.isSuffixOf_iff_suffix, String.toList_append]
    exact List.suffix_append _ _
  rw [this] at h
  cases h

theorem mem_writesOf {i : Invocation} {p : Path} :
    p ∈ writesOf i ↔ (∃ t ∈ tempRoots i, p ∈ tempFiles t) ∨ p ∈ outNames i := by
  simp [writesOf, List.mem_flatMap]

theorem all_not_contains {l l' : List String} :
    l.all (fun n => !l'.contains n) = true ↔ ∀ n ∈ l, n ∉ l' := by
  simp [List.all_eq_true]

theorem crossFree_iff {A B : Invocation} : crossFree A B = true ↔
    (∀ n, n ∈ outNames A ∨ n ∈ observes A → ∀ t ∈ tempRoots B, n ∉ tempFiles t) ∧
    (∀ n ∈ observes A, n ∉ outNames B) := by
  simp only [crossFree, Bool.and_eq_true, List.all_eq_true, List.mem_append, Bool.not_eq_true',
    List.contains_eq_mem, decide_eq_false_iff_not]

theorem namesDistinct_iff {A B : Invocation} : namesDistinct A B = true ↔
    (∀ n ∈ outNames A, n ∉ outNames B) ∧ (∀ t ∈ tempRoots A, t ∉ tempRoots B) := by
  simp only [namesDistinct, Bool.and_eq_true, all_not_contains]

/-- With pairwise distinct names and no cross-collision, the write sets are disjoint and neither run
    observes (reads, or tests the existence of) a file the other writes. -/
theorem footprints_disjoint' {A B : Invocation} (hn : namesDistinct A B = true) (hs : sideCond A B = true) :
    (∀ p ∈ writesOf A, p ∉ writesOf B) ∧ (∀ p ∈ observes A, p ∉ writesOf B) ∧
    (∀ p ∈ observes B, p ∉ writesOf A) := by
  obtain ⟨hno, hnt⟩ := namesDistinct_iff.1 hn
  simp only [sideCond, Bool.and_eq_true] at hs
  obtain ⟨⟨ab1, ab2⟩, ⟨ba1, ba2⟩⟩ := And.intro (crossFree_iff.1 hs.1) (crossFree_iff.1 hs.2)
  refine ⟨?_, ?_, ?_⟩
  · intro p hA hB
    rcases mem_writesOf.1 hA with ⟨t, ht, hp⟩ | hp <;> rcases mem_writesOf.1 hB with ⟨t', ht', hp'⟩ | hp'
    · exact tempFiles_disjoint (fun e => hnt t ht (by rw [e]; exact ht')) hp hp'
    · exact ba1 p (Or.inl hp') t ht hp
    · exact ab1 p (Or.inl hp) t' ht' hp'
    · exact hno p hp hp'
  · intro p hA hB
    rcases mem_writesOf.1 hB with ⟨t', ht', hp'⟩ | hp'
    · exact ab1 p (Or.inr hA) t' ht' hp'
    · exact ab2 p hA hp'
  · intro p hB hA
    rcases mem_writesOf.1 hA with ⟨t, ht, hp⟩ | hp
    · exact ba1 p (Or.inr hB) t ht hp
    · exact ba2 p hB hp

theorem crossFree_of_discipline {A B : Invocation}
    (h : ∀ n, n ∈ outNames A ∨ n ∈ observes A → hasTempExt n = false)
    (hio : ∀ n ∈ observes A, n ∉ outNames B) : crossFree A B = true :=
  crossFree_iff.2 ⟨fun n hn _ _ => not_mem_tempFiles_of_ext (h n hn), hio⟩

/-! ## the tools as processes stay inside their footprints -/

theorem ofOps_within {R W : List Path} : ∀ (ops : List Op), (∀ o ∈ ops, o.within R W) →
    ∀ log, (Proc.ofOps ops log).Within R W := by
  intro ops
  induction ops with
  | nil => intro _ _; trivial
  | cons o ops ih =>
    intro h log
    have ho := h o List.mem_cons_self
    have hr := fun x hx => h x (List.mem_cons_of_mem _ hx)
    cases o with
    | read p => exact ⟨ho, fun v => ih hr _⟩
    | write p f => exact ⟨ho, ih hr _⟩
    | remove p => exact ⟨ho, ih hr _⟩

theorem toolOps_within (i : Invocation) (content : Path → List (Option String) → String) :
    ∀ o ∈ toolOps i content, o.within (observes i) (writesOf i) := by
  obtain ⟨tool, a⟩ := i
  intro o ho
  cases tool with
  | compile =>
    simp only [toolOps, List.mem_append, List.mem_map, List.mem_cons, List.not_mem_nil, or_false] at ho
    rcases ho with ⟨p, hp, rfl⟩ | rfl | rfl
    · simp only [Op.within, observes, List.mem_append]; exact Or.inl hp
    · simp [Op.within, writesOf, outNames, tempRoots]
    · simp [Op.within, writesOf, outNames, tempRoots]
  | finish =>
    simp only [toolOps, List.mem_append, List.mem_map, List.mem_cons, List.not_mem_nil, or_false] at ho
    rcases ho with (rfl | rfl | rfl) | ⟨p, hp, rfl⟩
    · simp [Op.within, observes, readsOf]
    · simp [Op.within, observes, readsOf]
    · simp [Op.within, writesOf, outNames, tempRoots]
    · simp only [Op.within, writesOf, outNames, List.mem_append, List.mem_cons]; exact Or.inr (Or.inr hp)
  | design =>
    simp only [toolOps] at ho
    cases hf : designInfile a with
    | none => simp [hf] at ho
    | some f =>
      simp only [hf, List.mem_cons, List.mem_append, List.mem_map] at ho
      have hw : ∀ p ∈ tempFiles (designTemp a f), p ∈ writesOf ⟨.design, a⟩ := by
        intro p hp; simp [writesOf, tempRoots, hf, hp]
      have hsp : ∀ e ∈ tempExts, designTemp a f ++ e ∈ tempFiles (designTemp a f) :=
        fun e he => mem_tempFiles.2 ⟨e, he, rfl⟩
      rcases ho with (rfl | ⟨p, hp, rfl⟩) | ho
      · simp [Op.within, observes, readsOf, hf]
      · exact hw p hp
      · cases hj : a.justFiles with
        | true => simp [hj] at ho
        | false =>
          simp only [hj, Bool.false_eq_true, if_false, List.mem_append, List.mem_cons, List.not_mem_nil, or_false] at ho
          rcases ho with (rfl | rfl) | ho
          · simp [Op.within, observes, readsOf, hf, hj]
          · simp [Op.within, writesOf, outNames, hf, hj]
          · cases hc : a.cleanup with
            | false => simp [hc] at ho
            | true =>
              simp only [hc, if_true, List.mem_map, List.mem_cons, List.not_mem_nil, or_false] at ho
              obtain ⟨p, hp, rfl⟩ := ho
              apply hw
              rcases hp with rfl | rfl | rfl | rfl <;> apply hsp <;> simp [tempExts]

theorem toolJob_within (i : Invocation) (content : Path → List (Option String) → String) :
    (toolJob i content).proc.Within (toolJob i content).reads (toolJob i content).writes :=
  ofOps_within _ (toolOps_within i content) []

end Pepper.Fs
