import PepperModel.GcFloat
import PepperProofs.EndToEndText
/-!
# The GC-content token `"%f" % (k / n)`: shape, value, and the `.mfe` text with the real token

1. `roundHalfEven`: within half a unit (`rhe_err`), monotone bound (`rhe_le`, `rhe_ge`).
2. `divRne`: the significand is within half an ulp of `k·2^s / n` (`divRne_err`), `52 ≤ s`, `m ≤ 2^s` for `k ≤ n`, and it IS a
   53-bit significand: `2^52 ≤ m ≤ 2^53` (`divRne_normal`).
3. `fmtF6` / `gcToken`: the shape `d.dddddd` (`gcToken_shape`), hence accepted by the `.mfe` reader's float field
   (`shape_numWord`, `shape_validFloat`); the decoded value (`tokVal6`) and its distance to `k/n` (`gcToken_err`).
4. the records with the real token (`mfeRecsGc`, lines `mfeLinesGc`): `Mfe.outputGc` writes exactly them (`outputGc_ok`), they
   are readable (`recsGc_readable`), finishing their text is finishing the record list (`finish_text_gc`).
-/
set_option linter.unusedSimpArgs false
namespace Pepper.GcFloat

/-! ## 1. rounding to nearest, ties to even -/

theorem rhe_cases (a b : Nat) : roundHalfEven a b = a / b ∨ roundHalfEven a b = a / b + 1 := by
  unfold roundHalfEven
  simp only
  split
  · exact Or.inr rfl
  · exact Or.inl rfl

/-- the rounded quotient is within half a unit: `|rhe a b · b − a| ≤ b / 2` -/
theorem rhe_err (a b : Nat) (hb : 0 < b) :
    2 * (roundHalfEven a b * b) ≤ 2 * a + b ∧ 2 * a ≤ 2 * (roundHalfEven a b * b) + b := by
  have h := Nat.div_add_mod a b
  have hm := Nat.mod_lt a hb
  unfold roundHalfEven
  simp only
  rw [Nat.mul_comm] at h
  split
  · rename_i hc
    simp only [Bool.or_eq_true, decide_eq_true_eq, Bool.and_eq_true, beq_iff_eq] at hc
    rw [Nat.add_mul, Nat.one_mul]
    generalize a / b * b = x at *
    omega
  · rename_i hc
    simp only [Bool.or_eq_true, decide_eq_true_eq, Bool.and_eq_true, beq_iff_eq, not_or, not_and] at hc
    generalize a / b * b = x at *
    omega

theorem rhe_le {a b c : Nat} (hb : 0 < b) (h : a ≤ c * b) : roundHalfEven a b ≤ c := by
  by_cases hq : a / b < c
  · rcases rhe_cases a b with e | e <;> omega
  · have hc : c ≤ a / b := by omega
    have h1 : c * b ≤ a := (Nat.le_div_iff_mul_le hb).1 hc
    have ha : a = c * b := by omega
    subst ha
    unfold roundHalfEven
    simp only [Nat.mul_mod_left, Nat.mul_div_cancel _ hb]
    split
    · rename_i hc'
      simp only [Bool.or_eq_true, decide_eq_true_eq, Bool.and_eq_true, beq_iff_eq] at hc'
      omega
    · exact Nat.le_refl _

theorem rhe_ge {a b c : Nat} (hb : 0 < b) (h : c * b ≤ a) : c ≤ roundHalfEven a b := by
  have h1 : c ≤ a / b := (Nat.le_div_iff_mul_le hb).2 h
  rcases rhe_cases a b with e | e <;> omega

/-- an exact quotient is not rounded -/
theorem rhe_exact (c b : Nat) (hb : 0 < b) : roundHalfEven (c * b) b = c :=
  Nat.le_antisymm (rhe_le hb (Nat.le_refl _)) (rhe_ge hb (Nat.le_refl _))

/-! ## 2. the division -/

theorem binade_ge (k n : Nat) : 52 ≤ binade k n := by
  unfold binade; simp only; split <;> omega

theorem divRne_pos {k n : Nat} (hk : k ≠ 0) :
    divRne k n = (roundHalfEven (k * 2 ^ binade k n) n, binade k n) := by
  unfold divRne
  simp [hk]

/-- `m / 2^s` is within half a unit in the last place of `k / n`: `|m·n − k·2^s| ≤ n / 2` -/
theorem divRne_err (k n : Nat) (hn : 0 < n) :
    2 * ((divRne k n).1 * n) ≤ 2 * (k * 2 ^ (divRne k n).2) + n ∧
      2 * (k * 2 ^ (divRne k n).2) ≤ 2 * ((divRne k n).1 * n) + n := by
  by_cases hk : k = 0
  · subst hk; simp [divRne]
  · rw [divRne_pos hk]; exact rhe_err _ _ hn

/-- the exponent is at most `-52` unless the quotient is `0` -/
theorem divRne_exp (k n : Nat) (hk : k ≠ 0) : 52 ≤ (divRne k n).2 := by
  rw [divRne_pos hk]; exact binade_ge k n

/-- a quotient `k / n ≤ 1` is a double `≤ 1` -/
theorem divRne_le_one {k n : Nat} (hn : 0 < n) (hkn : k ≤ n) : (divRne k n).1 ≤ 2 ^ (divRne k n).2 := by
  by_cases hk : k = 0
  · subst hk; simp [divRne]
  · rw [divRne_pos hk]
    exact rhe_le hn (by rw [Nat.mul_comm k]; exact Nat.mul_le_mul_left _ hkn)

theorem log2_mono {k n : Nat} (hk : k ≠ 0) (hkn : k ≤ n) : k.log2 ≤ n.log2 := by
  have h1 := Nat.log2_self_le hk
  have h2 := Nat.lt_log2_self (n := n)
  have h3 : 2 ^ k.log2 < 2 ^ (n.log2 + 1) := by omega
  have := (Nat.pow_lt_pow_iff_right (by omega : 1 < 2)).1 h3
  omega

/-- **the significand is a 53-bit significand**: for `0 < k ≤ n` the scaled quotient lies in the binade `[2^52, 2^53)`, so
    the rounded value `m` satisfies `2^52 ≤ m ≤ 2^53` (`m = 2^53` when rounding carries into the next binade: then
    `m / 2^s = 2^52 / 2^(s-1)` is again a double) -/
theorem divRne_normal {k n : Nat} (hk : k ≠ 0) (hkn : k ≤ n) :
    2 ^ 52 * n ≤ k * 2 ^ (divRne k n).2 ∧ k * 2 ^ (divRne k n).2 < 2 ^ 53 * n ∧
      2 ^ 52 ≤ (divRne k n).1 ∧ (divRne k n).1 ≤ 2 ^ 53 := by
  have hn : 0 < n := by omega
  have hn0 : n ≠ 0 := by omega
  have hl := log2_mono hk hkn
  have a1 := Nat.log2_self_le hk
  have a2 := Nat.lt_log2_self (n := k)
  have b1 := Nat.log2_self_le hn0
  have b2 := Nat.lt_log2_self (n := n)
  -- the binade
  have key : 2 ^ 52 * n ≤ k * 2 ^ binade k n ∧ k * 2 ^ binade k n < 2 ^ 53 * n := by
    obtain ⟨d, hd⟩ : ∃ d, n.log2 = k.log2 + d := ⟨n.log2 - k.log2, by omega⟩
    have hs0 : 52 + (n.log2 - k.log2) = 52 + d := by omega
    -- k·2^(52+d) < 2^53·n  and  2^51·n < k·2^(52+d)
    have e1 : 2 ^ (k.log2 + 1) * 2 ^ (52 + d) = 2 ^ 53 * 2 ^ n.log2 := by
      rw [← Nat.pow_add, ← Nat.pow_add, hd]; congr 1; omega
    have e2 : 2 ^ k.log2 * 2 ^ (52 + d) * 2 = 2 ^ 52 * 2 ^ (n.log2 + 1) := by
      rw [← Nat.pow_add, ← Nat.pow_add, hd, ← Nat.pow_succ]; congr 1; omega
    have hpos : 0 < 2 ^ (52 + d) := Nat.two_pow_pos _
    have u1 : k * 2 ^ (52 + d) < 2 ^ 53 * n := by
      calc k * 2 ^ (52 + d) < 2 ^ (k.log2 + 1) * 2 ^ (52 + d) := Nat.mul_lt_mul_of_pos_right a2 hpos
        _ = 2 ^ 53 * 2 ^ n.log2 := e1
        _ ≤ 2 ^ 53 * n := Nat.mul_le_mul_left _ b1
    have u2 : 2 ^ 52 * n < k * 2 ^ (52 + d) * 2 := by
      calc 2 ^ 52 * n < 2 ^ 52 * 2 ^ (n.log2 + 1) := Nat.mul_lt_mul_of_pos_left b2 (Nat.two_pow_pos _)
        _ = 2 ^ k.log2 * 2 ^ (52 + d) * 2 := e2.symm
        _ ≤ k * 2 ^ (52 + d) * 2 := Nat.mul_le_mul_right _ (Nat.mul_le_mul_right _ a1)
    unfold binade
    simp only [hs0]
    split
    · rename_i hc; exact ⟨hc, u1⟩
    · rename_i hc
      have e3 : k * 2 ^ (52 + d + 1) = k * 2 ^ (52 + d) * 2 := by rw [Nat.pow_succ, Nat.mul_assoc]
      rw [e3]
      generalize k * 2 ^ (52 + d) = x at *
      omega
  rw [divRne_pos hk]
  refine ⟨key.1, key.2, rhe_ge hn key.1, rhe_le hn (Nat.le_of_lt key.2)⟩

/-! ## 3. the token -/

theorem digitChar_isDigit : ∀ d, d < 10 → (Nat.digitChar d).isDigit = true := by decide
theorem digitChar_val : ∀ d, d < 10 → (Nat.digitChar d).toNat - 48 = d := by decide

theorem digit_isDigit (x : Nat) : (digit x).isDigit = true := digitChar_isDigit _ (Nat.mod_lt _ (by omega))
theorem digit_val (x : Nat) : (digit x).toNat - 48 = x % 10 := digitChar_val _ (Nat.mod_lt _ (by omega))

/-- `d.dddddd`: one digit `0` or `1`, a point, six digits -/
def Shape (w : List Char) : Prop := ∃ d f, d ≤ 1 ∧ f < 1000000 ∧ w = digit d :: '.' :: pad6 f

theorem fmtF6_shape {m s : Nat} (h : m ≤ 2 ^ s) :
    fmtF6 m s = digit (roundHalfEven (m * 1000000) (2 ^ s) / 1000000) :: '.' ::
      pad6 (roundHalfEven (m * 1000000) (2 ^ s) % 1000000) ∧
    roundHalfEven (m * 1000000) (2 ^ s) ≤ 1000000 := by
  have hq : roundHalfEven (m * 1000000) (2 ^ s) ≤ 1000000 :=
    rhe_le (Nat.two_pow_pos _) (by rw [Nat.mul_comm]; exact Nat.mul_le_mul_left _ h)
  refine ⟨?_, hq⟩
  unfold fmtF6
  simp only
  generalize roundHalfEven (m * 1000000) (2 ^ s) = q at *
  have : q / 1000000 = 0 ∨ q / 1000000 = 1 := by omega
  rcases this with e | e <;> rw [e] <;> rfl

/-- the value a `d.dddddd` token denotes, in units of `10^-6` -/
def tokVal6 : List Char → Option Nat
  | [c0, p, c1, c2, c3, c4, c5, c6] =>
    if p == '.' && [c0, c1, c2, c3, c4, c5, c6].all Char.isDigit then
      some ((c0.toNat - 48) * 1000000 + (c1.toNat - 48) * 100000 + (c2.toNat - 48) * 10000 + (c3.toNat - 48) * 1000
        + (c4.toNat - 48) * 100 + (c5.toNat - 48) * 10 + (c6.toNat - 48))
    else none
  | _ => none

theorem tokVal6_shape {d f : Nat} (hd : d < 10) (hf : f < 1000000) :
    tokVal6 (digit d :: '.' :: pad6 f) = some (d * 1000000 + f) := by
  unfold pad6 tokVal6
  simp only [List.all_cons, List.all_nil, digit_isDigit]
  rw [if_pos (by decide)]
  rw [digit_val, digit_val, digit_val, digit_val, digit_val, digit_val, digit_val]
  apply congrArg some
  omega

/-- the token of a quotient `≤ 1` has the shape `d.dddddd` with `d ∈ {0, 1}` -/
theorem gcToken_shape {k n : Nat} (hn : 0 < n) (hkn : k ≤ n) : Shape (gcToken k n) := by
  obtain ⟨h1, h2⟩ := fmtF6_shape (divRne_le_one hn hkn)
  exact ⟨_, _, by omega, Nat.mod_lt _ (by omega), h1⟩

theorem isDigit_numChar {c : Char} (h : c.isDigit = true) : Finish.isNumChar c = true := by
  simp [Finish.isNumChar, h]

/-- a `d.dddddd` token is a word over the `.mfe` reader's float alphabet `nums + "-."` -/
theorem shape_numWord {w : List Char} (h : Shape w) : Finish.okWord Finish.isNumChar w = true := by
  obtain ⟨d, f, _, _, rfl⟩ := h
  rw [Finish.okWord_iff]
  refine ⟨by simp, fun c hc => ?_⟩
  simp only [pad6, List.mem_cons, List.mem_nil_iff, or_false] at hc
  rcases hc with rfl | rfl | rfl | rfl | rfl | rfl | rfl | rfl
  all_goals first | exact isDigit_numChar (digit_isDigit _) | decide

theorem validFloat_digits {c0 c1 c2 c3 c4 c5 c6 : Char} (h0 : c0.isDigit = true) (h1 : c1.isDigit = true)
    (h2 : c2.isDigit = true) (h3 : c3.isDigit = true) (h4 : c4.isDigit = true) (h5 : c5.isDigit = true)
    (h6 : c6.isDigit = true) : Finish.validFloat [c0, '.', c1, c2, c3, c4, c5, c6] = true := by
  have hne : c0 ≠ '-' := Finish.ne_of_pred h0 (by decide)
  unfold Finish.validFloat
  split
  · rename_i r heq
    exact absurd (List.cons.inj heq).1 hne
  · have hp : Char.isDigit '.' = false := by decide
    simp [List.takeWhile, List.dropWhile, h0, h1, h2, h3, h4, h5, h6, hp]

/-- … and Python's `float()` accepts it -/
theorem shape_validFloat {w : List Char} (h : Shape w) : Finish.validFloat w = true := by
  obtain ⟨d, f, _, _, rfl⟩ := h
  exact validFloat_digits (digit_isDigit _) (digit_isDigit _) (digit_isDigit _) (digit_isDigit _) (digit_isDigit _)
    (digit_isDigit _) (digit_isDigit _)

theorem divRne_zero (n : Nat) : divRne 0 n = (0, 0) := by simp [divRne]

theorem gcToken_zero (n : Nat) : gcToken 0 n = "0.000000".toList := by
  unfold gcToken
  rw [divRne_zero]
  decide

theorem fmtF0_eq : fmtF0 = "0.000000".toList := by decide
theorem fmtD0_eq : fmtD0 = "0".toList := by decide

theorem gcToken_self {n : Nat} (hn : 0 < n) : gcToken n n = "1.000000".toList := by
  have hk : n ≠ 0 := by omega
  unfold gcToken
  rw [divRne_pos hk]
  simp only
  rw [Nat.mul_comm n, rhe_exact _ _ hn]
  obtain ⟨h1, _⟩ := fmtF6_shape (Nat.le_refl (2 ^ binade n n))
  rw [h1, Nat.mul_comm, rhe_exact _ _ (Nat.two_pow_pos _)]
  decide

theorem comb1 (V m k n A T : Nat) (hA : A = 2 ^ 52 * T) (hT : 1 ≤ T)
    (a1 : 2 * (V * A) ≤ 2 * (m * 1000000) + A) (b1 : 2 * (m * n) ≤ 2 * (k * A) + n) :
    2 ^ 53 * (V * n) ≤ 2 ^ 53 * (k * 1000000) + n * (2 ^ 52 + 1000000) := by
  have h1 := Nat.mul_le_mul_right n a1
  have h2 := Nat.mul_le_mul_right 1000000 b1
  have h3 : n * 1000000 ≤ T * (n * 1000000) := Nat.le_mul_of_pos_left _ hT
  apply Nat.le_of_mul_le_mul_left (c := T) _ hT
  subst hA
  grind

theorem comb2 (V m k n A T : Nat) (hA : A = 2 ^ 52 * T) (hT : 1 ≤ T)
    (a2 : 2 * (m * 1000000) ≤ 2 * (V * A) + A) (b2 : 2 * (k * A) ≤ 2 * (m * n) + n) :
    2 ^ 53 * (k * 1000000) ≤ 2 ^ 53 * (V * n) + n * (2 ^ 52 + 1000000) := by
  have h1 := Nat.mul_le_mul_right n a2
  have h2 := Nat.mul_le_mul_right 1000000 b2
  have h3 : n * 1000000 ≤ T * (n * 1000000) := Nat.le_mul_of_pos_left _ hT
  apply Nat.le_of_mul_le_mul_left (c := T) _ hT
  subst hA
  grind

/-- the micro-units the token denotes: the double `m / 2^s` rounded to 6 decimals -/
def microOf (k n : Nat) : Nat := roundHalfEven ((divRne k n).1 * 1000000) (2 ^ (divRne k n).2)

theorem tokVal6_gcToken {k n : Nat} (hn : 0 < n) (hkn : k ≤ n) : tokVal6 (gcToken k n) = some (microOf k n) := by
  obtain ⟨h1, h2⟩ := fmtF6_shape (divRne_le_one hn hkn)
  unfold gcToken microOf
  simp only
  rw [h1, tokVal6_shape (by omega) (Nat.mod_lt _ (by omega))]
  apply congrArg some
  omega

/-- **the value of the token**: `V·10^-6` with `|V/10^6 − k/n| ≤ 1/(2·10^6) + 2^-53`, as
    `2^53·|V·n − k·10^6| ≤ n·(2^52 + 10^6)` (both directions, in `Nat`) -/
theorem gcToken_err {k n : Nat} (hn : 0 < n) (hkn : k ≤ n) :
    2 ^ 53 * (microOf k n * n) ≤ 2 ^ 53 * (k * 1000000) + n * (2 ^ 52 + 1000000) ∧
    2 ^ 53 * (k * 1000000) ≤ 2 ^ 53 * (microOf k n * n) + n * (2 ^ 52 + 1000000) := by
  by_cases hk : k = 0
  · subst hk
    have : microOf 0 n = 0 := by unfold microOf; rw [divRne_zero]; decide
    rw [this]; omega
  · obtain ⟨a1, a2⟩ := rhe_err ((divRne k n).1 * 1000000) (2 ^ (divRne k n).2) (Nat.two_pow_pos _)
    obtain ⟨b1, b2⟩ := divRne_err k n hn
    have hs := divRne_exp k n hk
    have hA : 2 ^ (divRne k n).2 = 2 ^ 52 * 2 ^ ((divRne k n).2 - 52) := by
      rw [← Nat.pow_add]; congr 1; omega
    exact ⟨comb1 _ _ _ _ _ _ hA (Nat.two_pow_pos _) a1 b1, comb2 _ _ _ _ _ _ hA (Nat.two_pow_pos _) a2 b2⟩

end Pepper.GcFloat

/-! ## 4. the `.mfe` records and text with the real token -/

namespace Pepper.EndToEndText
open Pepper Pepper.Pil Pepper.ConstraintGen Pepper.LinkSpec Pepper.EndToEnd Pepper.GcFloat

/-- the three numeric fields `"%f %f %d" % (0, k / n, 0)` -/
def gcFields (k n : Nat) : List (List Char) := [fmtF0, gcToken k n, fmtD0]

/-- the records `Convert.output` writes after `process_results`, WITH the GC-content field it prints: `mfeRecs` with
    `gcFields (count of C and G) (length)` in place of the opaque `mfeFields` — for a structure the length is the sum of
    its strands' lengths (the `+` signs are not counted), the starred record of a sequence carries the token of the
    forward sequence -/
def mfeRecsGc (t : CodeTable) (spec : Spec) (asg : Var → Base) : List (List Char × Finish.Rec) :=
  (List.zip (List.range spec.structs.length) spec.structs).map (fun (p : Nat × StructObj) =>
      ((toString p.1).toList,
       (⟨p.2.name.toList, Mfe.joinPlus (p.2.strands.map (strandVal spec asg)),
         gcFields (gcCount (Mfe.joinPlus (p.2.strands.map (strandVal spec asg))))
           ((p.2.strands.map (strandVal spec asg)).map List.length).sum,
         p.2.struct, p.2.struct⟩ : Finish.Rec)))
  ++ (List.zip (List.range spec.seqs.length) spec.seqs).flatMap (fun (p : Nat × SeqObj) =>
      [((toString (p.1 + spec.structs.length)).toList,
        (⟨p.2.name.toList, spellT t (Pil.denote spec) asg (viewNucs p.2 false),
          gcFields (gcCount (spellT t (Pil.denote spec) asg (viewNucs p.2 false))) p.2.len,
          List.replicate p.2.len '.', List.replicate p.2.len '.'⟩ : Finish.Rec)),
       ((toString 0).toList,
        (⟨(p.2.name ++ "*").toList, spellT t (Pil.denote spec) asg (viewNucs p.2 true),
          gcFields (gcCount (spellT t (Pil.denote spec) asg (viewNucs p.2 false))) p.2.len,
          List.replicate p.2.len '.', List.replicate p.2.len '.'⟩ : Finish.Rec))])

/-- the lines of the `.mfe` file, every character of it (`"\n".join` of them is the file) -/
def mfeLinesGc (t : CodeTable) (spec : Spec) (asg : Var → Base) : List String :=
  (Finish.renderLines (mfeRecsGc t spec asg) fmtF0).map String.ofList

/-- the reader gets the same design from them -/
theorem mfeRecsGc_design (t : CodeTable) (spec : Spec) (asg : Var → Base) :
    (mfeRecsGc t spec asg).map (fun x => (x.2.name, x.2.seq)) = mfeDesign t spec asg := by
  unfold mfeRecsGc mfeDesign mfeRecs
  simp only [List.map_append, List.map_map, List.map_flatMap, List.map_cons, List.map_nil, Function.comp_def]

theorem recordGc_eq (n : Nat) (name : String) (seq s1 s2 : List Char) (k m : Nat) :
    Mfe.recordGc n name seq s1 s2 k m =
      (Finish.renderRec (toString n).toList ⟨name.toList, seq, gcFields k m, s1, s2⟩).map String.ofList := by
  simp only [Mfe.recordGc, Finish.renderRec, List.map_cons, List.map_nil, String.ofList_append, String.ofList_toList]
  have e1 : ∀ l : List Char, String.ofList (':' :: l) = ":" ++ String.ofList l := by
    intro l; rw [show ':' :: l = [':'] ++ l from rfl, String.ofList_append]
  have e2 : recordLine seq k m = seq ++ (gcFields k m).flatMap (' ' :: ·) := by
    simp [recordLine, gcFields, List.append_assoc]
  rw [e1, e2, String.ofList_toList, String.append_assoc, String.ofList_append]

/-- `output(findmfe=False)`, GC-content included, succeeds and writes exactly the records `mfeRecsGc` -/
theorem outputGc_ok {t : CodeTable} (hl : t.lawful = true) (hB : complBases t = true) {spec : Spec} (wf : SpecWF spec)
    (ok : SpecCodes t spec) {asg : Var → Base} {a : Mfe.Assigned} (hg : Good spec asg a) :
    Mfe.outputGc t spec a (spec.strands.map (fun st => (st.name, spell asg (nucsOfBases st.bases)))) =
      some (mfeLinesGc t spec asg) := by
  unfold Mfe.outputGc
  generalize h1 : List.mapM (m := Option) (β := List String) _ (List.zip (List.range spec.structs.length) spec.structs) = m1
  generalize h2 : List.mapM (m := Option) (β := List String) _ (List.zip (List.range spec.seqs.length) spec.seqs) = m2
  rw [mapM_some _ (fun (p : Nat × StructObj) =>
      Mfe.recordGc p.1 p.2.name (Mfe.joinPlus (p.2.strands.map (strandVal spec asg))) p.2.struct p.2.struct
        (gcCount (Mfe.joinPlus (p.2.strands.map (strandVal spec asg))))
        ((p.2.strands.map (strandVal spec asg)).map List.length).sum) _ (by
    intro ⟨n, so⟩ hp
    have hso : so ∈ spec.structs := (List.of_mem_zip hp).2
    simp only
    rw [mapM_some _ (strandVal spec asg) _ (fun sn hsn => lookup_strandVal asg ((wf.struct so hso).1 sn hsn))]
    rfl)] at h1
  rw [mapM_some _ (fun (p : Nat × SeqObj) =>
      Mfe.recordGc (p.1 + spec.structs.length) p.2.name (spellT t (Pil.denote spec) asg (viewNucs p.2 false))
          (List.replicate p.2.len '.') (List.replicate p.2.len '.')
          (gcCount (spellT t (Pil.denote spec) asg (viewNucs p.2 false))) p.2.len ++
        Mfe.recordGc 0 (p.2.name ++ "*") (spellT t (Pil.denote spec) asg (viewNucs p.2 true))
          (List.replicate p.2.len '.') (List.replicate p.2.len '.')
          (gcCount (spellT t (Pil.denote spec) asg (viewNucs p.2 false))) p.2.len) _ (by
    intro ⟨n, o⟩ hp
    have ho : o ∈ spec.seqs := (List.of_mem_zip hp).2
    obtain ⟨k, hk⟩ := List.getElem?_of_mem ho
    have hlt : k < spec.seqs.length := (List.getElem?_eq_some_iff.1 hk).1
    simp only
    rw [getSeq_ok hl hB wf ok hg (spec.seqs.length + 2) k o false hk (by omega)]
    simp only [bind, Option.bind]
    rw [wcStr_spellT hl hB asg (known_viewNucs wf ok ho false), ← viewNucs_true]
    rfl)] at h2
  subst h1 h2
  simp only [bind, Option.bind, pure]
  congr 1
  unfold mfeLinesGc Finish.renderLines mfeRecsGc
  rw [List.map_append, List.flatMap_append, List.map_append, List.flatMap_map, List.flatMap_assoc]
  congr 1
  · congr 1
    · apply flatten_map_ofList
      intro p _
      exact recordGc_eq _ _ _ _ _ _ _
    · apply flatten_map_ofList
      intro p _
      simp only [List.flatMap_cons, List.flatMap_nil, List.append_nil, List.map_append, recordGc_eq, String.toList_append]

/-! ### the counts: `0 < n`, `k ≤ n` -/

theorem gcCount_cons (c : Char) (r : List Char) :
    gcCount (c :: r) = gcCount r + (if c = 'C' ∨ c = 'G' then 1 else 0) := by
  unfold gcCount
  simp only [List.count_cons, beq_iff_eq]
  by_cases h1 : c = 'C'
  · subst h1; simp; omega
  · by_cases h2 : c = 'G'
    · subst h2; simp; omega
    · simp [h1, h2]

theorem gcCount_append (a b : List Char) : gcCount (a ++ b) = gcCount a + gcCount b := by
  unfold gcCount; simp only [List.count_append]; omega

theorem gcCount_le_length (s : List Char) : gcCount s ≤ s.length := by
  induction s with
  | nil => simp [gcCount]
  | cons c r ih => rw [gcCount_cons, List.length_cons]; split <;> omega

theorem gcCount_joinPlus_le : ∀ l : List (List Char), gcCount (Mfe.joinPlus l) ≤ (l.map List.length).sum
  | [] => by simp [Mfe.joinPlus, gcCount]
  | [x] => by simpa [Mfe.joinPlus] using gcCount_le_length x
  | x :: y :: r => by
    have ih := gcCount_joinPlus_le (y :: r)
    have hx := gcCount_le_length x
    simp only [Mfe.joinPlus, gcCount_append, gcCount_cons, List.map_cons, List.sum_cons] at ih ⊢
    have : ¬ (('+' : Char) = 'C' ∨ ('+' : Char) = 'G') := by decide
    rw [if_neg this]
    omega

theorem sum_lengths_pos {l : List (List Char)} (hl : l ≠ []) (h : ∀ x ∈ l, x ≠ []) : 0 < (l.map List.length).sum := by
  cases l with
  | nil => exact absurd rfl hl
  | cons x r =>
    have := List.length_pos_iff.2 (h x List.mem_cons_self)
    simp only [List.map_cons, List.sum_cons]
    omega

/-- the record `y` of `mfeRecs` with the real fields `gcFields k n` -/
def withFields (y : List Char × Finish.Rec) (k n : Nat) : List Char × Finish.Rec :=
  (y.1, { y.2 with fields := gcFields k n })

theorem withFields_eq (y : List Char × Finish.Rec) (k n : Nat) : withFields y k n = withGC y (gcToken k n) := by
  unfold withFields withGC gcFields
  rw [fmtF0_eq, fmtD0_eq]

/-- every record of `mfeRecsGc` is a record of `mfeRecs` carrying the token of a quotient `k / n` with `0 < n`, `k ≤ n` -/
theorem mem_mfeRecsGc {spec : Spec} (wf : SpecWF spec) (hr : SpecReadable spec) {t : CodeTable} {asg : Var → Base}
    {x : List Char × Finish.Rec} (h : x ∈ mfeRecsGc t spec asg) :
    ∃ y ∈ mfeRecs t spec asg, ∃ k n, 0 < n ∧ k ≤ n ∧ x = withFields y k n := by
  unfold mfeRecsGc at h
  rcases List.mem_append.1 h with h | h
  · obtain ⟨p, hp, rfl⟩ := List.mem_map.1 h
    have hso : p.2 ∈ spec.structs := (List.of_mem_zip hp).2
    obtain ⟨_, hne, _, _⟩ := hr.structs p.2 hso
    refine ⟨_, List.mem_append_left _ (List.mem_map.2 ⟨p, hp, rfl⟩), _, _, ?_, gcCount_joinPlus_le _, rfl⟩
    apply sum_lengths_pos (by simpa using hne)
    intro v hv
    obtain ⟨sn, hsn, rfl⟩ := List.mem_map.1 hv
    exact strandVal_ne_nil wf hr.strands asg ((wf.struct p.2 hso).1 sn hsn)
  · obtain ⟨p, hp, hx⟩ := List.mem_flatMap.1 h
    have ho : p.2 ∈ spec.seqs := (List.of_mem_zip hp).2
    have hlen : (spellT t (Pil.denote spec) asg (viewNucs p.2 false)).length = p.2.len := by
      rw [spellT_length, wf.seqLen p.2 ho]
    have hk : gcCount (spellT t (Pil.denote spec) asg (viewNucs p.2 false)) ≤ p.2.len := by
      rw [← hlen]; exact gcCount_le_length _
    have hpos : 0 < p.2.len := Nat.pos_of_ne_zero (hr.seqs p.2 ho).2
    simp only [List.mem_cons, List.mem_nil_iff, or_false] at hx
    rcases hx with rfl | rfl
    · exact ⟨_, List.mem_append_right _ (List.mem_flatMap.2 ⟨p, hp, List.mem_cons_self⟩), _, _, hpos, hk, rfl⟩
    · exact ⟨_, List.mem_append_right _ (List.mem_flatMap.2 ⟨p, hp, List.mem_cons_of_mem _ List.mem_cons_self⟩),
        _, _, hpos, hk, rfl⟩

/-- **the records with the real GC-content token are readable** by the `.mfe` reader, for a readable specification — no
    hypothesis on the token is left: it is `gcToken k n` with `0 < n`, `k ≤ n`, which has the shape `d.dddddd` -/
theorem recsGc_readable {spec : Spec} (wf : SpecWF spec) (ok : SpecCodes Generated.pilTable spec)
    (hr : SpecReadable spec) (asg : Var → Base) :
    ∀ x ∈ mfeRecsGc Generated.pilTable spec asg, Finish.wfRec Generated.alphaMfeSeq x = true := by
  intro x hx
  obtain ⟨y, hy, k, n, hn, hkn, rfl⟩ := mem_mfeRecsGc wf hr hx
  rw [withFields_eq]
  have hs := gcToken_shape hn hkn
  exact rec_readable wf ok hr asg hy (shape_numWord hs) (shape_validFloat hs)

/-- **Through the file, with the token Python prints**: for a readable specification, finishing the rendered TEXT of the
    records `Convert.output` writes — GC-content field included — is finishing the record list -/
theorem finish_text_gc {tF : CodeTable} {spec : Spec} (wf : SpecWF spec)
    (ok : SpecCodes Generated.pilTable spec) (hr : SpecReadable spec) (asg : Var → Base)
    (inst : Sys.Inst) (out : Finish.Out) :
    Finish.finishText tF Generated.alphaMfeSeq inst
        (Finish.render (mfeRecsGc Generated.pilTable spec asg) fmtF0) = .ok out ↔
      Finish.apply tF inst (mfeDesign Generated.pilTable spec asg) = .ok out := by
  rw [Finish.finishText_ok_iff, Finish.readDesign_render (by decide) (by decide) (by decide) _
    (recsGc_readable wf ok hr asg), mfeRecsGc_design]
  simp

/-- the text is the lines `output` returns, joined by newlines -/
theorem render_mfeLinesGc (t : CodeTable) (spec : Spec) (asg : Var → Base) :
    Finish.render (mfeRecsGc t spec asg) fmtF0 = Finish.unlines ((mfeLinesGc t spec asg).map String.toList) := by
  unfold Finish.render mfeLinesGc
  rw [List.map_map]
  congr 1
  simp [Function.comp_def]

/-! ### from a successful `process_results` alone -/

/-- what a successful run of the loop of `process_results` collected: every strand had a start, and the strings are the
    slices of the designed string -/
theorem prLoop_inv {t : CodeTable} {spec : Spec} {start : StrandObj → Option Nat} {nts : List Char} :
    ∀ (L : List StrandObj) (a : Mfe.Assigned) (acc : List (String × List Char)) (a' : Mfe.Assigned)
      (acc' : List (String × List Char)),
      L.foldlM (prStep t spec start nts) (a, acc) = .ok (a', acc') →
      acc' = acc ++ L.map (fun st => (st.name,
          match start st with | some p => (nts.drop p).take st.len | none => [])) ∧
        ∀ st ∈ L, ∃ p, start st = some p := by
  intro L
  induction L with
  | nil =>
    intro a acc a' acc' h
    simp only [List.foldlM, pure, Except.pure, Except.ok.injEq, Prod.mk.injEq] at h
    exact ⟨by simp [h.2], fun _ hm => nomatch hm⟩
  | cons st r ih =>
    intro a acc a' acc' h
    rw [List.foldlM_cons] at h
    cases hs : prStep t spec start nts (a, acc) st with
    | error e => rw [hs] at h; cases h
    | ok v =>
      rw [hs] at h
      obtain ⟨a1, acc1⟩ := v
      have h' : r.foldlM (prStep t spec start nts) (a1, acc1) = .ok (a', acc') := h
      obtain ⟨e1, e2⟩ := ih a1 acc1 a' acc' h'
      unfold prStep at hs
      cases hst : start st with
      | none => rw [hst] at hs; cases hs
      | some p =>
        rw [hst] at hs
        simp only at hs
        split at hs
        · cases hs
        · cases hset : Mfe.setStrand t spec a st ((nts.drop p).take st.len) with
          | error e => rw [hset] at hs; cases hs
          | ok a2 =>
            rw [hset] at hs
            simp only [Except.ok.injEq, Prod.mk.injEq] at hs
            refine ⟨?_, ?_⟩
            · rw [e1, ← hs.2, List.map_cons, hst]; simp
            · intro x hx
              rcases List.mem_cons.1 hx with rfl | hx
              · exact ⟨p, hst⟩
              · exact e2 x hx

/-- a run of `process_results` that returned the strands' letters under `asg` read them at the strands' starts -/
theorem startOk_of_processResults {t : CodeTable} {spec : Spec} {start : StrandObj → Option Nat} {nts : List Char}
    {asg : Var → Base} {assigned : Mfe.Assigned}
    (hpr : Mfe.processResults t spec start nts = .ok (assigned, strandSeqs spec asg)) : StartOk spec start nts asg := by
  rw [processResults_eq] at hpr
  obtain ⟨e1, e2⟩ := prLoop_inv _ _ _ _ _ hpr
  intro st hst
  obtain ⟨p, hp⟩ := e2 st hst
  refine ⟨p, hp, ?_⟩
  unfold strandSeqs at e1
  rw [List.nil_append] at e1
  have := List.map_inj_left.1 e1 st hst
  simp only [hp, Prod.mk.injEq, true_and] at this
  exact this.symm

/-- **`output` with the GC-content field, after ANY successful `process_results`** that returned the strands' letters
    under `asg`: it writes exactly the lines `mfeLinesGc` -/
theorem outputGc_of_processResults {t : CodeTable} (hl : t.lawful = true) (hB : complBases t = true) {spec : Spec}
    (wf : SpecWF spec) (ok : SpecCodes t spec) {start : StrandObj → Option Nat} {nts : List Char}
    {asg : Var → Base} {assigned : Mfe.Assigned}
    (hpr : Mfe.processResults t spec start nts = .ok (assigned, strandSeqs spec asg)) :
    Mfe.outputGc t spec assigned (strandSeqs spec asg) = some (mfeLinesGc t spec asg) := by
  obtain ⟨a, hpr', hgood⟩ := processResults_ok hB wf (startOk_of_processResults hpr)
  rw [hpr] at hpr'
  simp only [Except.ok.injEq, Prod.mk.injEq] at hpr'
  rw [hpr'.1]
  exact outputGc_ok hl hB wf ok hgood

end Pepper.EndToEndText
